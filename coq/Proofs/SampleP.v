(* Lemmas about Model/Sample.v: operator selection of sample_measurements and the telescoping of its weight. *)
From TenpyV Require Import Base.Prelude Model.Sample.
Open Scope Z_scope.

(* ---------- operator selection ---------- *)
Lemma sample_sites_from_length n : forall i, length (sample_sites_from i n) = n.
Proof. induction n as [|n IH]; intros i; cbn [sample_sites_from length]; [reflexivity | rewrite IH; reflexivity]. Qed.

Lemma sample_sites_from_nth n : forall i m d, (m < n)%nat -> nth m (sample_sites_from i n) d = i + Z.of_nat m.
Proof.
  induction n as [|n IH]; intros i m d Hm; [lia|].
  destruct m as [|m]; cbn [sample_sites_from nth]; [lia|]. rewrite IH by lia. lia.
Qed.

Lemma nth_map_lt (A B : Type) (f : A -> B) : forall l m d d', (m < length l)%nat -> nth m (map f l) d = f (nth m l d').
Proof.
  induction l as [|x l IH]; intros m d d' Hm; [cbn in Hm; lia|].
  destruct m as [|m]; cbn [map nth]; [reflexivity|]. apply IH. cbn [length] in Hm. lia.
Qed.

Lemma sample_op_indices_spec first last nops : 0 < nops ->
  length (sample_op_indices first last nops) = Z.to_nat (last + 1 - first) /\
  forall m, (m < Z.to_nat (last + 1 - first))%nat ->
    nth m (sample_op_indices first last nops) (0, 0) = (first + Z.of_nat m, Z.of_nat m mod nops) /\
    0 <= Z.of_nat m mod nops < nops.
Proof.
  intros Hn. unfold sample_op_indices, sample_sites. split.
  - rewrite map_length. apply sample_sites_from_length.
  - intros m Hm. split; [|apply Z.mod_pos_bound; lia].
    rewrite (nth_map_lt _ _ (fun i => (i, (i - first) mod nops)) _ m (0, 0) 0)
      by (rewrite sample_sites_from_length; exact Hm).
    rewrite sample_sites_from_nth by exact Hm. f_equal. f_equal. lia.
Qed.

(* the sites measured are exactly first..last, each once, in ascending order *)
Lemma sample_sites_spec first last i :
  In i (sample_sites first last) <-> first <= i <= last.
Proof.
  unfold sample_sites. set (n := Z.to_nat (last + 1 - first)).
  assert (H : forall n a, In i (sample_sites_from a n) <-> a <= i < a + Z.of_nat n).
  { clear. induction n as [|n IH]; intros a; cbn [sample_sites_from In]; [lia|]. rewrite IH. lia. }
  rewrite H. unfold n. lia.
Qed.

Lemma sample_ops_spec first last nops : 0 < nops ->
  (forall i, In i (sample_sites first last) <-> first <= i <= last) /\
  length (sample_op_indices first last nops) = Z.to_nat (last + 1 - first) /\
  forall m, (m < Z.to_nat (last + 1 - first))%nat ->
    nth m (sample_op_indices first last nops) (0, 0) = (first + Z.of_nat m, Z.of_nat m mod nops) /\
    0 <= Z.of_nat m mod nops < nops.
Proof.
  intros H. split; [intros i; exact (sample_sites_spec first last i) | exact (sample_op_indices_spec first last nops H)].
Qed.

(* ---------- the weight ---------- *)
Section SampleWeightP.
  Variables K V : Type.
  Variable kone : K.
  Variable kmul : K -> K -> K.
  Variable kinv : K -> K.
  Variable abs2 : K -> K.
  Variable pos : K -> Prop.
  Variable vnorm : V -> K.
  Variable vscale : K -> V -> V.
  Variable vscalar : V -> K.
  Variable proj : Z -> Z -> V -> V.
  Variable attach : Z -> V -> V.
  Hypothesis LW : amp_laws K V kone kmul kinv abs2 pos vnorm vscale vscalar proj attach.

  Local Notation "a * b" := (kmul a b).
  Local Notation loop := (sample_loop K V kmul kinv vnorm vscale vscalar proj attach).
  Local Notation factors := (sample_factors K V kinv vnorm vscale proj attach).
  Local Notation raws := (raw_states V proj attach).
  Local Notation rfinal := (raw_final V proj attach).
  Local Notation jnorms := (joint_norms K V vnorm proj attach).
  Local Notation rat := (ratios K kmul kinv).
  Local Notation prod := (kprod K kone kmul).

  Let assoc := al_assoc _ _ _ _ _ _ _ _ _ _ _ _ LW.
  Let comm := al_comm _ _ _ _ _ _ _ _ _ _ _ _ LW.
  Let one_l := al_one _ _ _ _ _ _ _ _ _ _ _ _ LW.
  Let inv_l := al_inv _ _ _ _ _ _ _ _ _ _ _ _ LW.

  Lemma one_r a : a * kone = a.
  Proof. rewrite comm. apply one_l. Qed.

  Lemma inv_r a : pos a -> a * kinv a = kone.
  Proof. intros H. rewrite comm. apply inv_l. exact H. Qed.

  Lemma inv_one : kinv kone = kone.
  Proof. rewrite <- (one_r (kinv kone)). apply inv_l. apply (al_pos_one _ _ _ _ _ _ _ _ _ _ _ _ LW). Qed.

  (* c * (T * N) with c = 1/T *)
  Lemma cancel_l T N : pos T -> T * (kinv T * N) = N.
  Proof. intros H. rewrite assoc, inv_r by exact H. apply one_l. Qed.

  Lemma inv_unique a x : pos a -> x * a = kone -> x = kinv a.
  Proof.
    intros Ha Hx. rewrite <- (one_r x). rewrite <- (inv_r a Ha). rewrite assoc, Hx. apply one_l.
  Qed.

  (* 1/(c N) * c = 1/N *)
  Lemma inv_step c N : pos c -> pos N -> kinv (c * N) * c = kinv N.
  Proof.
    intros Hc HN. apply inv_unique; [exact HN|].
    rewrite <- assoc. apply inv_l. apply (al_pos_mul _ _ _ _ _ _ _ _ _ _ _ _ LW); assumption.
  Qed.

  Lemma last_indep (A : Type) (l : list A) d d' : l <> [] -> last l d = last l d'.
  Proof.
    induction l as [|x l IH]; intros H; [congruence|].
    destruct l as [|y l]; [reflexivity|]. cbn [last] in *. apply IH. discriminate.
  Qed.

  Lemma rfinal_cons i X s s' r' :
    rfinal i X (s :: s' :: r') = rfinal (i + 1) (attach (i + 1) (proj i s X)) (s' :: r').
  Proof.
    unfold raw_final. cbn [raw_states].
    match goal with |- last (_ :: ?l) _ = _ => change (last l X = last l (attach (i + 1) (proj i s X))) end.
    apply last_indep. discriminate.
  Qed.

  Lemma loop_inv full : forall sig i X T, sig <> [] -> pos T -> Forall pos (jnorms i X sig) ->
    loop full i (vscale (kinv T) X) T sig =
    if full then vscalar (rfinal i X sig) else vnorm (rfinal i X sig).
  Proof.
    induction sig as [|s r IH]; intros i X T Hne HT Hpos; [congruence|].
    cbn [sample_loop].
    rewrite (al_proj_lin _ _ _ _ _ _ _ _ _ _ _ _ LW).
    set (R := proj i s X).
    assert (HcT : pos (kinv T)) by (apply (al_pos_inv _ _ _ _ _ _ _ _ _ _ _ _ LW); exact HT).
    rewrite (al_norm_scale _ _ _ _ _ _ _ _ _ _ _ _ LW) by exact HcT.
    set (N := vnorm R).
    assert (HN : pos N).
    { unfold joint_norms in Hpos. cbn [raw_states map] in Hpos. inversion Hpos; assumption. }
    rewrite cancel_l by exact HT.
    destruct r as [|s' r'].
    - unfold raw_final. cbn [raw_states last]. fold R. destruct full; [|reflexivity].
      rewrite (al_scalar_scale _ _ _ _ _ _ _ _ _ _ _ _ LW).
      (* (N * (c * sc)) * 1/(c N) = sc *)
      assert (Hw : pos (kinv T * N)) by (apply (al_pos_mul _ _ _ _ _ _ _ _ _ _ _ _ LW); assumption).
      rewrite (assoc N), (comm N (kinv T)).
      rewrite <- assoc. rewrite (comm (vscalar R)). rewrite assoc.
      rewrite inv_r by exact Hw. apply one_l.
    - rewrite (al_scale_scale _ _ _ _ _ _ _ _ _ _ _ _ LW).
      rewrite inv_step by assumption.
      rewrite (al_attach_lin _ _ _ _ _ _ _ _ _ _ _ _ LW).
      rewrite IH; [| discriminate | exact HN |].
      + rewrite (rfinal_cons i X s s' r'). reflexivity.
      + unfold joint_norms in *. cbn [raw_states map] in Hpos. fold R in Hpos. inversion Hpos; subst.
        cbn [raw_states map]. assumption.
  Qed.

  Lemma loop_factors : forall sig i theta T,
    loop false i theta T sig = T * prod (factors i theta sig).
  Proof.
    induction sig as [|s r IH]; intros i theta T.
    - cbn. symmetry. apply one_r.
    - cbn [sample_loop sample_factors]. destruct r as [|s' r'].
      + unfold kprod. cbn [fold_right]. rewrite one_r. reflexivity.
      + rewrite IH. unfold kprod. cbn [fold_right]. rewrite assoc. reflexivity.
  Qed.

  Lemma factors_ratios : forall sig i X T, pos T -> Forall pos (jnorms i X sig) ->
    factors i (vscale (kinv T) X) sig = rat T (jnorms i X sig).
  Proof.
    induction sig as [|s r IH]; intros i X T HT Hpos; [reflexivity|].
    cbn [sample_factors]. unfold joint_norms in *. cbn [raw_states map ratios] in *.
    rewrite (al_proj_lin _ _ _ _ _ _ _ _ _ _ _ _ LW).
    set (R := proj i s X) in *.
    assert (HcT : pos (kinv T)) by (apply (al_pos_inv _ _ _ _ _ _ _ _ _ _ _ _ LW); exact HT).
    rewrite (al_norm_scale _ _ _ _ _ _ _ _ _ _ _ _ LW) by exact HcT.
    inversion Hpos as [|? ? HN Hrest]; subst.
    rewrite (comm (kinv T)). f_equal.
    destruct r as [|s' r']; [reflexivity|].
    rewrite (al_scale_scale _ _ _ _ _ _ _ _ _ _ _ _ LW).
    rewrite (comm (vnorm R)). rewrite inv_step by assumption.
    rewrite (al_attach_lin _ _ _ _ _ _ _ _ _ _ _ _ LW).
    apply IH; assumption.
  Qed.

  Lemma abs2_prod l : abs2 (prod l) = prod (map abs2 l).
  Proof.
    induction l as [|x l IH]; unfold kprod in *; cbn [fold_right map].
    - apply (al_abs2_one _ _ _ _ _ _ _ _ _ _ _ _ LW).
    - rewrite (al_abs2_mul _ _ _ _ _ _ _ _ _ _ _ _ LW). rewrite IH. reflexivity.
  Qed.

  Lemma theta0_scaled theta0 : theta0 = vscale (kinv kone) theta0.
  Proof. rewrite inv_one. symmetry. apply (al_scale_one _ _ _ _ _ _ _ _ _ _ _ _ LW). Qed.

  Local Notation weight := (sample_weight K V kone kmul kinv abs2 vnorm vscale vscalar proj attach).

  Theorem sample_weights_spec first theta0 sig :
    sig <> [] -> Forall pos (jnorms first theta0 sig) ->
    let fac := factors first theta0 sig in
    let amp := rfinal first theta0 sig in
    fac = rat kone (jnorms first theta0 sig) /\
    weight false true first theta0 sig = prod fac /\
    weight false true first theta0 sig = vnorm amp /\
    weight true true first theta0 sig = vscalar amp /\
    weight false false first theta0 sig = prod (map abs2 fac) /\
    weight false false first theta0 sig = abs2 (vnorm amp) /\
    weight true false first theta0 sig = abs2 (vscalar amp).
  Proof.
    intros Hne Hpos. cbv zeta. unfold sample_weight.
    pose proof (al_pos_one _ _ _ _ _ _ _ _ _ _ _ _ LW) as H1.
    assert (Hfac : factors first theta0 sig = rat kone (jnorms first theta0 sig)).
    { rewrite (theta0_scaled theta0) at 1. apply factors_ratios; assumption. }
    assert (Hprod : loop false first theta0 kone sig = prod (factors first theta0 sig)).
    { rewrite loop_factors. apply one_l. }
    assert (Hn : loop false first theta0 kone sig = vnorm (rfinal first theta0 sig)).
    { rewrite (theta0_scaled theta0) at 1. rewrite (loop_inv false) by assumption. reflexivity. }
    assert (Hs : loop true first theta0 kone sig = vscalar (rfinal first theta0 sig)).
    { rewrite (theta0_scaled theta0) at 1. rewrite (loop_inv true) by assumption. reflexivity. }
    repeat split.
    - exact Hfac.
    - exact Hprod.
    - exact Hn.
    - exact Hs.
    - rewrite Hprod. apply abs2_prod.
    - rewrite Hn. reflexivity.
    - rewrite Hs. reflexivity.
  Qed.

  (* the telescoping product itself: prod_k N_k / N_{k-1} = N_last / N_0 *)
  Lemma ratios_telescope : forall l p, pos p -> Forall pos l -> p * prod (rat p l) = last l p.
  Proof.
    induction l as [|x l IH]; intros p Hp Hl; unfold kprod in *; cbn [ratios fold_right last].
    - apply one_r.
    - inversion Hl as [|? ? Hx Hr]; subst.
      rewrite assoc. rewrite (comm x), assoc, inv_r, one_l by exact Hp.
      rewrite IH by assumption. destruct l as [|y l]; [reflexivity|]. apply last_indep. discriminate.
  Qed.
End SampleWeightP.
