(* Property C13, infinite bc: in the model of Model/SweepInf.v every environment read for eff_H is current on its
   window of L sites, for EVERY number of sweeps; unit cells n < L <= 24 (the abstract state reaches a fixed point of
   the sweep after three sweeps; checked by evaluation for each L, then induction on the number of sweeps). *)
From TenpyV Require Import Base.Prelude Model.Sweep Model.SweepInf.
Local Open Scope nat_scope.

Lemma run_ok_i_app L n l1 : forall s l2,
  run_ok_i L n s (l1 ++ l2) = run_ok_i L n s l1 && run_ok_i L n (exec_i L n s l1) l2.
Proof.
  induction l1 as [|e l1 IH]; intros s l2; cbn [app run_ok_i exec_i fold_left]; [reflexivity|].
  rewrite IH. unfold exec_i. rewrite andb_assoc. reflexivity.
Qed.

Lemma exec_i_app L n l1 l2 s : exec_i L n s (l1 ++ l2) = exec_i L n (exec_i L n s l1) l2.
Proof. unfold exec_i. apply fold_left_app. Qed.

Lemma repeat_list_add {A} (l : list A) a b : repeat_list l (a + b) = repeat_list l a ++ repeat_list l b.
Proof. induction a as [|a IH]; cbn [repeat_list Nat.add app]; [reflexivity|]. rewrite IH, app_assoc. reflexivity. Qed.

Lemma from_fix L n es s : exec_i L n s es = s -> run_ok_i L n s es = true ->
  forall k, run_ok_i L n s (repeat_list es k) = true.
Proof.
  intros Hf Hr k. induction k as [|k IH]; cbn [repeat_list]; [reflexivity|].
  rewrite run_ok_i_app, Hr, Hf, IH. reflexivity.
Qed.

(* what is evaluated for each (L, n) *)
Definition warm (L n : nat) : ist := exec_i L n (init_i L) (repeat_list (schedule false L n) 3).
Definition fix_ok (L n : nat) : Prop :=
  run_ok_i L n (init_i L) (repeat_list (schedule false L n) 3) = true /\
  exec_i L n (warm L n) (schedule false L n) = warm L n /\
  run_ok_i L n (warm L n) (schedule false L n) = true.

Lemma all_sweeps_of_fix L n : fix_ok L n -> forall k, no_stale_inf L n k = true.
Proof.
  intros (H3 & Hf & Hr) k. unfold no_stale_inf.
  destruct (Nat.le_gt_cases k 3) as [Hk|Hk].
  - replace 3 with (k + (3 - k)) in H3 by lia. rewrite repeat_list_add, run_ok_i_app in H3.
    apply andb_prop in H3. exact (proj1 H3).
  - replace k with (3 + (k - 3)) by lia. rewrite repeat_list_add, run_ok_i_app, H3. cbn [andb].
    apply from_fix; assumption.
Qed.

Lemma fix_ok_2 : Forall (fun L => fix_ok L 2) [3; 4; 5; 6; 7; 8; 9; 10; 11; 12; 13; 14; 15; 16; 17; 18; 19; 20; 21; 22; 23; 24].
Proof. repeat (constructor; [unfold fix_ok; split; [|split]; vm_compute; reflexivity|]). constructor. Qed.

Lemma fix_ok_1 : Forall (fun L => fix_ok L 1) [2; 3; 4; 5; 6; 7; 8; 9; 10; 11; 12; 13; 14; 15; 16; 17; 18; 19; 20; 21; 22; 23; 24].
Proof. repeat (constructor; [unfold fix_ok; split; [|split]; vm_compute; reflexivity|]). constructor. Qed.

Lemma no_stale_inf_all : forall L n k, (n = 1 \/ n = 2) -> n < L <= 24 -> no_stale_inf L n k = true.
Proof.
  intros L n k Hn HL. apply all_sweeps_of_fix. destruct Hn as [-> | ->].
  - pose proof fix_ok_1 as H. rewrite Forall_forall in H. apply H.
    assert (E : L = 2 \/ L = 3 \/ L = 4 \/ L = 5 \/ L = 6 \/ L = 7 \/ L = 8 \/ L = 9 \/ L = 10 \/ L = 11 \/ L = 12 \/ L = 13 \/ L = 14 \/ L = 15 \/ L = 16 \/ L = 17 \/ L = 18 \/ L = 19 \/ L = 20 \/ L = 21 \/ L = 22 \/ L = 23 \/ L = 24) by lia.
    cbn [In]. intuition.
  - pose proof fix_ok_2 as H. rewrite Forall_forall in H. apply H.
    assert (E : L = 3 \/ L = 4 \/ L = 5 \/ L = 6 \/ L = 7 \/ L = 8 \/ L = 9 \/ L = 10 \/ L = 11 \/ L = 12 \/ L = 13 \/ L = 14 \/ L = 15 \/ L = 16 \/ L = 17 \/ L = 18 \/ L = 19 \/ L = 20 \/ L = 21 \/ L = 22 \/ L = 23 \/ L = 24) by lia.
    cbn [In]. intuition.
Qed.

(* the lag is real: with the window replaced by "every recorded factor of the LP read at i0 = L is current" the
   statement is false (site 0 was rewritten, as site L, by the update at i0 = L - 1) *)
Lemma lag_is_real : exists L n, n < L /\
  let s := exec_i L n (init_i L) (firstn L (schedule false L n)) in
  current_upto L (snd (get_lp_i L s L)) = false /\ current_upto (L - 1) (snd (get_lp_i L s L)) = true.
Proof. exists 4, 2. split; [lia|]. vm_compute. split; reflexivity. Qed.
