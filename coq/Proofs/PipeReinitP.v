(* C17: re-initialising a LegPipe from the saved fields reproduces it. *)
From TenpyV Require Import Base.Prelude Model.ChargeL Model.Leg Model.Pipe Model.PipeReinit.
Open Scope Z_scope.

(* sort or (qnumber == 0) as the sort argument gives the same rows *)
Lemma pipe_rows_sorted_attr ci legs qconj srt :
  pipe_rows ci legs qconj (srt || Nat.eqb (length ci) 0) = pipe_rows ci legs qconj srt.
Proof. unfold pipe_rows. destruct srt, (Nat.eqb (length ci) 0); reflexivity. Qed.

Lemma pipe_init_sorted_attr ci legs qconj srt bun :
  pipe_init ci legs qconj (srt || Nat.eqb (length ci) 0) bun = pipe_init ci legs qconj srt bun.
Proof. unfold pipe_init. rewrite pipe_rows_sorted_attr. reflexivity. Qed.

(* every leg has one block: the grid has exactly one tuple *)
Lemma single_grid legs : single_block legs = true -> exists q, grid (map nblocks legs) = [q].
Proof.
  induction legs as [|l t IH]; intros H; cbn [map grid]; [eexists; reflexivity|].
  cbn [single_block forallb] in H. apply andb_prop in H. destruct H as [H1 H2]. apply Nat.eqb_eq in H1.
  destruct (IH H2) as (q & E). rewrite H1, E. cbn [seq flat_map map app]. eexists; reflexivity.
Qed.

Lemma single_rows ci legs qconj : single_block legs = true -> exists r, rows0 ci legs qconj = [r].
Proof. intros H. destruct (single_grid legs H) as (q & E). unfold rows0. rewrite E. cbn [map]. eexists; reflexivity. Qed.

(* ... hence sort and bunch do not matter *)
Lemma single_init ci legs qconj srt bun srt' bun' : single_block legs = true ->
  pipe_init ci legs qconj srt bun = pipe_init ci legs qconj srt' bun'.
Proof.
  intros H. destruct (single_rows ci legs qconj H) as (r & E).
  assert (R : forall s, pipe_rows ci legs qconj s = [r]).
  { intros s. unfold pipe_rows. rewrite E. destruct (s && negb (Nat.eqb (length ci) 0)); reflexivity. }
  unfold pipe_init. rewrite !R. cbn [group_rows]. reflexivity.
Qed.

Theorem pipe_reinit a :
  let o := pipe_construct a in
  let o' := pipe_load (pipe_save a) in
  o' = o /\
  (p_legs (po_pipe o') = a_legs a /\ p_qconj (po_pipe o') = a_qconj a /\
   po_charges o' = po_charges o /\ po_slices o' = po_slices o /\ po_qmap o' = po_qmap o /\
   po_qmap_slices o' = po_qmap_slices o /\ po_sorted o' = po_sorted o /\ po_bunched o' = po_bunched o) /\
  pipe_save (mkPipeArgs (s_chinfo (pipe_save a)) (s_legs (pipe_save a)) (s_qconj (pipe_save a))
                        (s_sorted (pipe_save a)) (s_bunched (pipe_save a))) = pipe_save a.
Proof.
  cbv zeta.
  assert (E : pipe_load (pipe_save a) = pipe_construct a).
  { destruct a as [ci legs qconj srt bun]. unfold pipe_load, pipe_save, pipe_construct, attr_sorted, attr_bunched.
    cbn [s_chinfo s_legs s_qconj s_sorted s_bunched a_chinfo a_legs a_qconj a_sort a_bunch].
    destruct (single_block legs) eqn:S1.
    - f_equal. apply single_init, S1.
    - f_equal; [apply pipe_init_sorted_attr|].
      destruct srt, (Nat.eqb (length ci) 0); reflexivity. }
  split; [exact E|]. split.
  - rewrite E. destruct a as [ci legs qconj srt bun]. repeat split; reflexivity.
  - destruct a as [ci legs qconj srt bun]. unfold pipe_save, attr_sorted, attr_bunched.
    cbn [s_chinfo s_legs s_qconj s_sorted s_bunched a_chinfo a_legs a_qconj a_sort a_bunch].
    destruct (single_block legs); [reflexivity|]. f_equal. destruct srt, (Nat.eqb (length ci) 0); reflexivity.
Qed.

(* the saved fields determine the object *)
Theorem pipe_reinit_determined a a' : pipe_save a = pipe_save a' -> pipe_construct a = pipe_construct a'.
Proof.
  intros H. destruct (pipe_reinit a) as [E _]. destruct (pipe_reinit a') as [E' _]. cbv zeta in *.
  rewrite <- E, <- E', H. reflexivity.
Qed.

(* swapping the two flags is harmless when they are equal ... *)
Lemma pipe_swap_equal s : s_sorted s = s_bunched s -> pipe_load_swapped s = pipe_load s.
Proof. intros H. unfold pipe_load_swapped, pipe_load. rewrite H. reflexivity. Qed.

(* ... and changes charges, slices, q_map and q_map_slices of a concrete pipe when they differ *)
Theorem pipe_reinit_swap_differs : exists a,
  let s := pipe_save a in
  s_sorted s = true /\ s_bunched s = false /\
  po_charges (pipe_load_swapped s) <> po_charges (pipe_load s) /\
  po_slices (pipe_load_swapped s) <> po_slices (pipe_load s) /\
  po_qmap (pipe_load_swapped s) <> po_qmap (pipe_load s) /\
  po_qmap_slices (pipe_load_swapped s) <> po_qmap_slices (pipe_load s) /\
  pipe_load s = pipe_construct a.
Proof.
  exists reinit_ex. cbv zeta. split; [reflexivity|]. split; [reflexivity|].
  split; [intros H; vm_compute in H; discriminate H|].
  split; [intros H; vm_compute in H; discriminate H|].
  split; [intros H; vm_compute in H; discriminate H|].
  split; [intros H; vm_compute in H; discriminate H|].
  apply pipe_reinit.
Qed.
