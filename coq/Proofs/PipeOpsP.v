(* Lemmas about Model/PipeOps.v (C06): flip_charges_qconj / outer_conj of a LegPipe keep the pipe contract. *)
From TenpyV Require Import Base.Prelude Model.ChargeL Model.Leg Model.Pipe Model.PipeCase Model.PipeOps
  Proofs.LegP Proofs.PipeP.
Open Scope Z_scope.

Lemma mv1_neg_scale m q x : mv1 m (- mv1 m (q * x)) = mv1 m (- q * x).
Proof.
  unfold mv1. destruct (m =? 1); [ring|].
  replace (- ((q * x) mod m)) with (0 - (q * x) mod m) by ring.
  rewrite Zminus_mod_idemp_r. f_equal. ring.
Qed.

Lemma make_valid_neg_scale ci : forall q v,
  make_valid ci (vneg (make_valid ci (vscale q v))) = make_valid ci (vscale (- q) v).
Proof.
  induction ci as [|m ci IH]; intros q v; [reflexivity|].
  destruct v as [|x v]; [reflexivity|]. cbn [vscale map make_valid vneg].
  f_equal; [apply mv1_neg_scale|]. apply (IH q v).
Qed.

Lemma make_valid_nil ci : make_valid ci [] = [].
Proof. destruct ci; reflexivity. Qed.

Lemma nth_neg_blocks ci (bl : list block) : forall I,
  nth I (map snd (map (neg_block ci) bl)) [] = make_valid ci (vneg (nth I (map snd bl) [])).
Proof.
  induction bl as [|b bl IH]; intros I.
  - destruct I; cbn [map nth vneg]; rewrite make_valid_nil; reflexivity.
  - destruct I as [|I]; [reflexivity|]. cbn [map nth]. apply IH.
Qed.

Lemma find_row_neg ci q rows : find_row q (map (neg_row ci) rows) = find_row q rows.
Proof.
  induction rows as [|r t IH]; [reflexivity|]. cbn [map find_row neg_row r_q]. rewrite IH. reflexivity.
Qed.

Lemma fst_neg_blocks ci (bl : list block) : map fst (map (neg_block ci) bl) = map fst bl.
Proof. rewrite map_map. reflexivity. Qed.

Lemma flip_pipe_mif ci p t : map_incoming_flat (flip_pipe ci p) t = map_incoming_flat p t.
Proof.
  unfold map_incoming_flat, flip_pipe. cbn [p_legs p_rows p_qmap p_blocks].
  destruct (split_indices (p_legs p) t) as [[qs ws]|]; [|reflexivity].
  rewrite find_row_neg, fst_neg_blocks. reflexivity.
Qed.

Lemma flip_pipe_block_of ci p t : block_of (flip_pipe ci p) t = block_of p t.
Proof.
  unfold block_of, flip_pipe. cbn [p_legs p_rows p_qmap].
  destruct (split_indices (p_legs p) t) as [[qs ws]|]; [|reflexivity]. rewrite find_row_neg. reflexivity.
Qed.

Lemma flip_pipe_leg ci p : pipe_leg (flip_pipe ci p) = flip_leg ci (pipe_leg p).
Proof. reflexivity. Qed.

(* flip_charges_qconj of a pipe: the incoming legs, q_map, q_map_slices, block sizes and the index map are the ones
   of the pipe; the outgoing leg is test_equal to the old one; and the fusion rule holds for the NEW direction:
   the outgoing block of a tuple carries make_valid(-qconj * sum_l qconj_l * charge_l) *)
Theorem flip_pipe_spec ci legs qconj srt bun t : legs_ok legs -> idx_ok legs t ->
  let p := pipe_init ci legs qconj srt bun in
  let f := flip_pipe ci p in
  p_legs f = legs /\ p_qconj f = - qconj /\ p_qmap f = p_qmap p /\ p_qmap_slices f = p_qmap_slices p /\
  map fst (p_blocks f) = map fst (p_blocks p) /\
  leg_equal ci (pipe_leg p) (pipe_leg f) = true /\
  map_incoming_flat f t = map_incoming_flat p t /\
  exists qs ws I, split_indices legs t = Some (qs, ws) /\ block_of f t = Some I /\
    nth I (map snd (p_blocks f)) [] = make_valid ci (vscale (- qconj) (vsum (length ci) (tuple_charges legs qs))).
Proof.
  intros Hl Ht p f.
  split; [reflexivity|]. split; [reflexivity|]. split; [reflexivity|]. split; [reflexivity|].
  split; [apply fst_neg_blocks|]. split; [unfold f; rewrite flip_pipe_leg; apply flip_equal|].
  split; [apply flip_pipe_mif|].
  destruct (fusion_rule ci legs qconj srt bun t Hl Ht) as (qs & ws & I & E & B & C).
  exists qs, ws, I. split; [exact E|]. split.
  - unfold f. rewrite flip_pipe_block_of. exact B.
  - unfold f, flip_pipe. cbn [p_blocks]. rewrite nth_neg_blocks. cbv zeta in C. unfold p. rewrite C. apply make_valid_neg_scale.
Qed.
