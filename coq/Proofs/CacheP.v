(* Proofs about Model/Cache.v (property C20, DictCache refines a dictionary). *)
From TenpyV Require Import Base.Prelude Model.Cache.
Open Scope Z_scope.

(* ------------------------------------------------------------------ association lists *)
Lemma d_get_set_eq k v d : d_get k (d_set k v d) = Some v.
Proof.
  induction d as [|[k' v'] t IH]; cbn [d_set d_get].
  - rewrite Z.eqb_refl. reflexivity.
  - destruct (k <? k') eqn:E1; cbn [d_get].
    + rewrite Z.eqb_refl. reflexivity.
    + destruct (k =? k') eqn:E2; cbn [d_get].
      * rewrite Z.eqb_refl. reflexivity.
      * rewrite E2. exact IH.
Qed.

Lemma d_get_set_neq k k' v d : k' <> k -> d_get k' (d_set k v d) = d_get k' d.
Proof.
  intros Hne. induction d as [|[k2 v2] t IH]; cbn [d_set d_get].
  - destruct (k' =? k) eqn:E; [lia|reflexivity].
  - destruct (k <? k2) eqn:E1; cbn [d_get].
    + destruct (k' =? k) eqn:E; [lia|reflexivity].
    + destruct (k =? k2) eqn:E2; cbn [d_get].
      * destruct (k' =? k) eqn:E3; [lia|]. destruct (k' =? k2) eqn:E4; [lia|reflexivity].
      * destruct (k' =? k2); [reflexivity|exact IH].
Qed.

Lemma d_get_filter (f : Z -> bool) k d :
  d_get k (filter (fun p => f (fst p)) d) = if f k then d_get k d else None.
Proof.
  induction d as [|[k' v'] t IH]; cbn [filter d_get fst].
  - destruct (f k); reflexivity.
  - destruct (f k') eqn:E1; cbn [d_get].
    + destruct (k =? k') eqn:E2.
      * replace k with k' by lia. rewrite E1. reflexivity.
      * exact IH.
    + rewrite IH. destruct (f k) eqn:E3; [|reflexivity].
      destruct (k =? k') eqn:E2; [|reflexivity].
      replace k with k' in E3 by lia. congruence.
Qed.

Lemma d_get_del k k' d : d_get k' (d_del k d) = if k' =? k then None else d_get k' d.
Proof.
  unfold d_del. pose proof (d_get_filter (fun x => negb (x =? k)) k' d) as H. cbn beta in H.
  rewrite H. destruct (k' =? k); reflexivity.
Qed.

Lemma map_fst_d_set k v d : map fst (d_set k v d) = ks_add k (map fst d).
Proof.
  induction d as [|[k' v'] t IH]; cbn [d_set map fst ks_add]; [reflexivity|].
  destruct (k <? k'); cbn [map fst]; [reflexivity|].
  destruct (k =? k') eqn:E2; cbn [map fst]; [f_equal; lia|].
  f_equal. exact IH.
Qed.

Lemma map_fst_d_del k d : map fst (d_del k d) = ks_del k (map fst d).
Proof.
  unfold d_del, ks_del. induction d as [|[k' v'] t IH]; cbn [filter map fst]; [reflexivity|].
  destruct (negb (k' =? k)); cbn [map fst]; [f_equal|]; exact IH.
Qed.

Lemma ks_mem_map_fst k d : ks_mem k (map fst d) = d_has k d.
Proof.
  unfold ks_mem, d_has. induction d as [|[k' v'] t IH]; cbn [map fst existsb d_get]; [reflexivity|].
  rewrite (Z.eqb_sym k' k). destruct (k =? k'); cbn [orb]; [reflexivity|exact IH].
Qed.

Lemma ks_mem_add k k' s : ks_mem k (ks_add k' s) = (k' =? k) || ks_mem k s.
Proof.
  unfold ks_mem. induction s as [|x t IH]; cbn [ks_add existsb]; [reflexivity|].
  destruct (k' <? x) eqn:E1; cbn [existsb]; [reflexivity|].
  destruct (k' =? x) eqn:E2; cbn [existsb].
  - destruct (x =? k) eqn:E3, (k' =? k) eqn:E4; cbn [orb]; try reflexivity; lia.
  - rewrite IH. destruct (x =? k), (k' =? k); reflexivity.
Qed.

Lemma ks_mem_fold k ks : forall s, ks_mem k s = true ->
  ks_mem k (fold_left (fun a x => ks_add x a) ks s) = true.
Proof.
  induction ks as [|x t IH]; intros s H; cbn [fold_left]; [exact H|].
  apply IH. rewrite ks_mem_add, H. apply orb_true_r.
Qed.

Lemma ks_del_absent k s : ks_mem k s = false -> ks_del k s = s.
Proof.
  unfold ks_mem, ks_del. induction s as [|x t IH]; cbn [existsb filter]; intros H; [reflexivity|].
  apply orb_false_iff in H. destruct H as [H1 H2]. rewrite H1. cbn [negb]. f_equal. apply IH. exact H2.
Qed.

Lemma d_has_get k d : d_has k d = true <-> exists v, d_get k d = Some v.
Proof.
  unfold d_has. destruct (d_get k d) as [v|]; split; intros H; try discriminate; eauto.
  destruct H as [v H]. discriminate.
Qed.

(* ------------------------------------------------------------------ the dict storage meets the contract *)
Lemma dict_storage_ok : storage_ok dict_storage (fun s k => d_get k s) (fun _ => True).
Proof.
  unfold storage_ok, dict_storage; cbn [s_load s_save s_delete s_preload fst snd].
  split; [|split; [|split]].
  - intros s k v _ H. auto.
  - intros s k v _. split; [exact I|]. split; [apply d_get_set_eq|].
    intros k' Hne. apply d_get_set_neq. exact Hne.
  - intros s k _ _. split; [exact I|]. intros k' Hne. rewrite d_get_del.
    destruct (k' =? k) eqn:E; [lia|reflexivity].
  - intros s k _ _. auto.
Qed.

(* ------------------------------------------------------------------ refinement *)
Section Refine.
  Context {St : Type} (o : storage_ops St) (abs : St -> Z -> option Z) (inv : St -> Prop).
  Hypothesis Hok : storage_ok o abs inv.

  Definition Rel (c : cache St) (d : list (Z * Z)) : Prop :=
    c_ltk c = map fst d /\
    inv (c_store c) /\
    (forall k v, d_get k d = Some v -> abs (c_store c) k = Some v) /\
    (forall k v, d_get k (c_stc c) = Some v -> d_get k d = Some v) /\
    (forall k v, d_get k (c_stc c) = Some v -> ks_mem k (c_stk c) = true).

  Lemma getitem_refines c d k : Rel c d ->
    snd (c_getitem o c k) = match d_get k d with Some v => OVal v | None => OKeyError end /\
    Rel (fst (c_getitem o c k)) d.
  Proof.
    intros (R1 & R2 & R3 & R4 & R5). unfold c_getitem.
    destruct (d_get k (c_stc c)) as [v|] eqn:E.
    - cbn [fst snd]. rewrite (R4 k v E). split; [reflexivity|]. unfold Rel. tauto.
    - rewrite R1, ks_mem_map_fst. unfold d_has.
      destruct (d_get k d) as [v|] eqn:E2.
      + destruct Hok as (Hl & _). destruct (Hl (c_store c) k v R2 (R3 k v E2)) as (L1 & L2 & L3).
        destruct (s_load o (c_store c) k) as [s' r] eqn:E3. cbn [fst snd] in L1, L2, L3. subst r.
        cbn [fst snd]. split; [reflexivity|].
        unfold Rel; cbn [c_ltk c_store c_stc c_stk]. split; [first [exact R1|reflexivity]|]. split; [exact L2|].
        split; [intros k' v' H; rewrite L3; apply R3; exact H|].
        destruct (ks_mem k (c_stk c)) eqn:E4.
        * split; intros k' v' H.
          -- destruct (Z.eq_dec k' k) as [->|Hne].
             ++ rewrite d_get_set_eq in H. congruence.
             ++ rewrite d_get_set_neq in H by exact Hne. apply R4. exact H.
          -- destruct (Z.eq_dec k' k) as [->|Hne]; [exact E4|].
             rewrite d_get_set_neq in H by exact Hne. eapply R5. exact H.
        * split; assumption.
      + cbn [fst snd]. split; [reflexivity|]. unfold Rel. tauto.
  Qed.

  Lemma preload_loop_spec d ltk rm : ltk = map fst d -> forall ks s,
    inv s -> (forall k v, d_get k d = Some v -> abs s k = Some v) ->
    inv (fst (preload_loop o s ltk ks rm)) /\
    (forall k, abs (fst (preload_loop o s ltk ks rm)) k = abs s k) /\
    snd (preload_loop o s ltk ks rm) = rm && existsb (fun k => negb (d_has k d)) ks.
  Proof.
    intros Hl. induction ks as [|k t IH]; intros s Hi Ha; cbn [preload_loop existsb].
    - cbn [fst snd]. rewrite andb_false_r. auto.
    - rewrite Hl, ks_mem_map_fst. destruct (d_has k d) eqn:E; cbn [negb orb].
      + apply d_has_get in E. destruct E as [v E].
        destruct Hok as (_ & _ & _ & Hp).
        assert (Hne : abs s k <> None) by (rewrite (Ha k v E); discriminate).
        destruct (Hp s k Hi Hne) as (P1 & P2).
        rewrite <- Hl.
        destruct (IH (s_preload o s k) P1) as (I1 & I2 & I3).
        { intros k' v' H. rewrite P2. apply Ha. exact H. }
        split; [exact I1|]. split; [|exact I3]. intros k'. rewrite I2. apply P2.
      + destruct rm; cbn [fst snd andb].
        * auto.
        * rewrite <- Hl. destruct (IH s Hi Ha) as (I1 & I2 & I3). rewrite I3. auto.
  Qed.

  Lemma step_refines c d op : Rel c d ->
    snd (c_step o c op) = snd (d_step d op) /\ Rel (fst (c_step o c op)) (fst (d_step d op)).
  Proof.
    intros HR. destruct op as [k v|k|k|k|k|ks rm|ks|]; cbn [c_step d_step fst snd].
    - (* set *)
      destruct HR as (R1 & R2 & R3 & R4 & R5). split; [reflexivity|].
      destruct Hok as (_ & Hs & _). destruct (Hs (c_store c) k v R2) as (S1 & S2 & S3).
      unfold Rel; cbn [c_ltk c_store c_stc c_stk].
      split; [rewrite R1; symmetry; apply map_fst_d_set|]. split; [exact S1|]. split.
      { intros k' v' H. destruct (Z.eq_dec k' k) as [->|Hne].
        - rewrite d_get_set_eq in H. congruence.
        - rewrite d_get_set_neq in H by exact Hne. rewrite S3 by exact Hne. apply R3. exact H. }
      destruct (ks_mem k (c_stk c)) eqn:E.
      + split; intros k' v' H.
        * destruct (Z.eq_dec k' k) as [->|Hne].
          -- rewrite d_get_set_eq in *. exact H.
          -- rewrite d_get_set_neq in * by exact Hne. apply R4. exact H.
        * destruct (Z.eq_dec k' k) as [->|Hne]; [exact E|].
          rewrite d_get_set_neq in H by exact Hne. eapply R5. exact H.
      + split; intros k' v' H; [|eapply R5; exact H].
        destruct (Z.eq_dec k' k) as [->|Hne].
        * rewrite (R5 k v' H) in E. discriminate.
        * rewrite d_get_set_neq by exact Hne. apply R4. exact H.
    - (* getitem *) apply getitem_refines. exact HR.
    - (* get *)
      destruct HR as (R1 & R2 & R3 & R4 & R5). rewrite R1, ks_mem_map_fst. unfold d_has.
      destruct (d_get k d) as [v|] eqn:E.
      + destruct (getitem_refines c d k) as (G1 & G2); [unfold Rel; tauto|].
        rewrite E in G1. split; assumption.
      + cbn [fst snd]. split; [reflexivity|]. unfold Rel. tauto.
    - (* del *)
      destruct HR as (R1 & R2 & R3 & R4 & R5). rewrite R1, ks_mem_map_fst.
      destruct (d_has k d) eqn:E; cbn [fst snd]; (split; [reflexivity|]).
      + apply d_has_get in E. destruct E as [v E].
        destruct Hok as (_ & _ & Hd & _).
        assert (Hne : abs (c_store c) k <> None) by (rewrite (R3 k v E); discriminate).
        destruct (Hd (c_store c) k R2 Hne) as (D1 & D2).
        unfold Rel; cbn [c_ltk c_store c_stc c_stk].
        split; [try rewrite R1; symmetry; apply map_fst_d_del|]. split; [exact D1|].
        split; [|split]; intros k' v' H; rewrite d_get_del in H;
          destruct (k' =? k) eqn:E2; try discriminate.
        * rewrite D2 by lia. apply R3. exact H.
        * rewrite d_get_del, E2. apply R4. exact H.
        * eapply R5. exact H.
      + assert (En : d_get k d = None) by (unfold d_has in E; destruct (d_get k d); [discriminate|reflexivity]).
        unfold Rel. split; [|split; [exact R2|split; [|split; [|exact R5]]]].
        * rewrite map_fst_d_del, <- R1. symmetry. apply ks_del_absent.
          rewrite R1, ks_mem_map_fst. exact E.
        * intros k' v' H. rewrite d_get_del in H. destruct (k' =? k); [discriminate|]. apply R3. exact H.
        * intros k' v' H. rewrite d_get_del. destruct (k' =? k) eqn:E2; [|apply R4; exact H].
          replace k' with k in H by lia. rewrite (R4 k v' H) in En. discriminate.
    - (* contains *)
      destruct HR as (R1 & R2 & R3 & R4 & R5). rewrite R1, ks_mem_map_fst.
      split; [reflexivity|]. unfold Rel. tauto.
    - (* preload *)
      destruct HR as (R1 & R2 & R3 & R4 & R5).
      destruct (preload_loop_spec d (c_ltk c) rm R1 ks (c_store c) R2 R3) as (P1 & P2 & P3).
      destruct (preload_loop o (c_store c) (c_ltk c) ks rm) as [s' e]. cbn [fst snd] in *.
      split; [rewrite P3; reflexivity|].
      unfold Rel; cbn [c_ltk c_store c_stc c_stk]. split; [exact R1|]. split; [exact P1|].
      split; [intros k v H; rewrite P2; apply R3; exact H|]. split; [exact R4|].
      intros k v H. apply ks_mem_fold. eapply R5. exact H.
    - (* set_short_term_keys *)
      destruct HR as (R1 & R2 & R3 & R4 & R5). split; [reflexivity|].
      unfold Rel; cbn [c_ltk c_store c_stc c_stk]. split; [exact R1|]. split; [exact R2|].
      split; [exact R3|].
      split; intros k v H; rewrite (d_get_filter (fun x => ks_mem x (ks_of_list ks))) in H;
        destruct (ks_mem k (ks_of_list ks)) eqn:E; try discriminate.
      + apply R4. exact H.
      + reflexivity.
    - (* keys *)
      destruct HR as (R1 & R2 & R3 & R4 & R5). rewrite R1. split; [reflexivity|]. unfold Rel. tauto.
  Qed.

  Lemma c_run_cons c op t :
    c_run o c (op :: t) = (fst (c_run o (fst (c_step o c op)) t),
                           snd (c_step o c op) :: snd (c_run o (fst (c_step o c op)) t)).
  Proof.
    cbn [c_run]. destruct (c_step o c op) as [c1 x]. cbn [fst snd].
    destruct (c_run o c1 t) as [c2 xs]. reflexivity.
  Qed.

  Lemma run_refines ops : forall c d, Rel c d ->
    snd (c_run o c ops) = snd (d_run d ops) /\ Rel (fst (c_run o c ops)) (fst (d_run d ops)).
  Proof.
    induction ops as [|op t IH]; intros c d HR; [split; [reflexivity|exact HR]|].
    rewrite c_run_cons. cbn [d_run].
    destruct (step_refines c d op HR) as (S1 & S2).
    destruct (d_step d op) as [d1 y]. cbn [fst snd] in S1, S2.
    destruct (IH _ _ S2) as (I1 & I2).
    destruct (d_run d1 t) as [d2 ys]. cbn [fst snd] in *.
    split; [rewrite S1, I1; reflexivity|exact I2].
  Qed.

  Lemma Rel_empty s : inv s -> Rel (c_empty s) [].
  Proof.
    intros Hi. unfold Rel, c_empty; cbn. repeat split; try assumption; intros; discriminate.
  Qed.
End Refine.

Lemma dictcache_refines_dict : forall St (o : storage_ops St) abs inv, storage_ok o abs inv ->
  forall s0, inv s0 -> forall ops, snd (c_run o (c_empty s0) ops) = snd (d_run [] ops).
Proof.
  intros St o abs inv Hok s0 Hi ops.
  apply (run_refines o abs inv Hok ops (c_empty s0) []). apply Rel_empty. exact Hi.
Qed.

(* ------------------------------------------------------------------ what the dict specification means *)
Lemma d_run_cons d op t :
  d_run d (op :: t) = (fst (d_run (fst (d_step d op)) t), snd (d_step d op) :: snd (d_run (fst (d_step d op)) t)).
Proof.
  cbn [d_run]. destruct (d_step d op) as [d1 x]. cbn [fst snd]. destruct (d_run d1 t). reflexivity.
Qed.

Lemma d_run_app a : forall d b,
  snd (d_run d (a ++ b)) = snd (d_run d a) ++ snd (d_run (fst (d_run d a)) b) /\
  fst (d_run d (a ++ b)) = fst (d_run (fst (d_run d a)) b).
Proof.
  induction a as [|op t IH]; intros d b; [split; reflexivity|].
  cbn [app]. rewrite !d_run_cons. cbn [fst snd app].
  destruct (IH (fst (d_step d op)) b) as (I1 & I2). rewrite I1, I2. split; reflexivity.
Qed.

Lemma d_run_no_write k mid : forallb (fun op => negb (writes_key k op)) mid = true ->
  forall d, d_get k (fst (d_run d mid)) = d_get k d.
Proof.
  induction mid as [|op t IH]; intros H d; [reflexivity|].
  cbn [forallb] in H. apply andb_true_iff in H. destruct H as [H1 H2].
  rewrite d_run_cons. cbn [fst]. rewrite (IH H2).
  destruct op as [k' v'|k'|k'|k'|k'|ks rm|ks|]; cbn [d_step fst writes_key negb] in *; try reflexivity.
  - apply d_get_set_neq. destruct (k' =? k) eqn:E; [discriminate|lia].
  - rewrite d_get_del. destruct (k =? k') eqn:E; [|reflexivity].
    destruct (k' =? k) eqn:E2; [discriminate|lia].
Qed.

(* reads return the latest value written; a deleted key is absent until it is written again *)
Lemma dict_latest_write pre k v mid : forallb (fun op => negb (writes_key k op)) mid = true ->
  last (snd (d_run [] (pre ++ CSet k v :: mid ++ [CGetItem k]))) ONone = OVal v.
Proof.
  intros H.
  destruct (d_run_app pre [] (CSet k v :: mid ++ [CGetItem k])) as (A1 & _). rewrite A1.
  rewrite d_run_cons. cbn [d_step fst snd].
  destruct (d_run_app mid (d_set k v (fst (d_run [] pre))) [CGetItem k]) as (A2 & _). rewrite A2.
  cbn [d_run d_step snd]. rewrite (d_run_no_write k mid H), d_get_set_eq.
  rewrite app_comm_cons, app_assoc. apply last_last.
Qed.

Lemma dict_deleted_absent pre k mid : forallb (fun op => negb (writes_key k op)) mid = true ->
  last (snd (d_run [] (pre ++ CDel k :: mid ++ [CGetItem k]))) ONone = OKeyError.
Proof.
  intros H.
  destruct (d_run_app pre [] (CDel k :: mid ++ [CGetItem k])) as (A1 & _). rewrite A1.
  rewrite d_run_cons. cbn [d_step fst snd].
  destruct (d_run_app mid (d_del k (fst (d_run [] pre))) [CGetItem k]) as (A2 & _). rewrite A2.
  cbn [d_run d_step snd]. rewrite (d_run_no_write k mid H), d_get_del, Z.eqb_refl.
  rewrite app_comm_cons, app_assoc. apply last_last.
Qed.

Lemma cache_latest_write : forall St (o : storage_ops St) abs inv, storage_ok o abs inv ->
  forall s0, inv s0 -> forall pre k v mid, forallb (fun op => negb (writes_key k op)) mid = true ->
  last (snd (c_run o (c_empty s0) (pre ++ CSet k v :: mid ++ [CGetItem k]))) ONone = OVal v /\
  last (snd (c_run o (c_empty s0) (pre ++ CDel k :: mid ++ [CGetItem k]))) ONone = OKeyError.
Proof.
  intros St o abs inv Hok s0 Hi pre k v mid H.
  rewrite !(dictcache_refines_dict St o abs inv Hok s0 Hi).
  split; [apply dict_latest_write|apply dict_deleted_absent]; exact H.
Qed.

(* ------------------------------------------------------------------ sub-caches *)
Lemma nth_error_upd_eq {A} (l : list A) : forall i x y, nth_error l i = Some y -> nth_error (upd_nth i x l) i = Some x.
Proof.
  induction l as [|a t IH]; intros [|i] x y H; cbn in *; try discriminate; [reflexivity|].
  eapply IH. exact H.
Qed.

Lemma nth_error_upd_neq {A} (l : list A) : forall i j x, i <> j -> nth_error (upd_nth j x l) i = nth_error l i.
Proof.
  induction l as [|a t IH]; intros [|i] [|j] x H; cbn; try reflexivity; try congruence.
  apply IH. congruence.
Qed.

Lemma m_run_cons cs op t :
  m_run cs (op :: t) = (fst (m_run (fst (m_step cs op)) t), snd (m_step cs op) :: snd (m_run (fst (m_step cs op)) t)).
Proof.
  cbn [m_run]. destruct (m_step cs op) as [c1 x]. cbn [fst snd]. destruct (m_run c1 t). reflexivity.
Qed.

Lemma subcache_isolated ops : forall cs i c, nth_error cs i = Some c ->
  m_proj_out i ops (snd (m_run cs ops)) = snd (c_run dict_storage c (m_proj i ops)).
Proof.
  induction ops as [|op t IH]; intros cs i c Hc; [reflexivity|].
  rewrite m_run_cons. cbn [snd]. destruct op as [j op'|p]; cbn [m_proj m_proj_out].
  - destruct (Nat.eqb i j) eqn:E.
    + apply Nat.eqb_eq in E. subst j. cbn [m_step]. rewrite Hc.
      rewrite c_run_cons. cbn [snd].
      destruct (c_step dict_storage c op') as [c' x] eqn:E2. cbn [fst snd]. f_equal.
      apply IH. eapply nth_error_upd_eq. exact Hc.
    + apply Nat.eqb_neq in E. apply IH. cbn [m_step].
      destruct (nth_error cs j) as [cj|]; [|exact Hc].
      destruct (c_step dict_storage cj op') as [c' x]. cbn [fst].
      rewrite nth_error_upd_neq by exact E. exact Hc.
  - apply IH. cbn [m_step fst]. rewrite nth_error_app1; [exact Hc|].
    apply nth_error_Some. congruence.
Qed.

(* every cache of a family is, alone, a dictionary: what cache i returns is what a dict returns on
   the operations addressed to cache i, whatever happens to the other caches in between *)
Lemma family_refines_dict : forall ops cs i c d, nth_error cs i = Some c ->
  Rel (fun s k => d_get k s) (fun _ => True) c d ->
  m_proj_out i ops (snd (m_run cs ops)) = snd (d_run d (m_proj i ops)).
Proof.
  intros ops cs i c d Hc HR. rewrite (subcache_isolated ops cs i c Hc).
  apply (run_refines dict_storage _ _ dict_storage_ok (m_proj i ops) c d HR).
Qed.
