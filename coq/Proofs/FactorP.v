(* Lemmas about Model/Factor.v (C05): the factors of svd / qr obey the charge rule with the requested
   total charges, for any kept ranks. *)
From TenpyV Require Import Base.Prelude Model.ChargeL Model.Leg Model.Factor Proofs.LegP.
Open Scope Z_scope.

(* ---------------------------------------------------------------- one charge *)
Lemma mv1_idem m a : mv1 m (mv1 m a) = mv1 m a.
Proof. unfold mv1. destruct (m =? 1); [reflexivity|apply Zmod_mod]. Qed.

Lemma mv1_add m a a' b b' : mv1 m a = mv1 m a' -> mv1 m b = mv1 m b' -> mv1 m (a + b) = mv1 m (a' + b').
Proof.
  unfold mv1. destruct (m =? 1); intros H1 H2; [congruence|].
  rewrite Zplus_mod, H1, H2, <- Zplus_mod. reflexivity.
Qed.

Lemma mv1_mul m k b b' : mv1 m b = mv1 m b' -> mv1 m (k * b) = mv1 m (k * b').
Proof.
  unfold mv1. destruct (m =? 1); intros H; [congruence|].
  rewrite Zmult_mod, H, <- Zmult_mod. reflexivity.
Qed.

(* ---------------------------------------------------------------- vectors: congruence modulo the chinfo *)
Lemma mvv_idem ci : forall a, make_valid ci (make_valid ci a) = make_valid ci a.
Proof.
  induction ci as [|m ci IH]; intros a; [reflexivity|]. destruct a as [|x a]; [reflexivity|].
  cbn [make_valid]. rewrite mv1_idem, IH. reflexivity.
Qed.

Lemma mvv_add ci : forall a a' b b', make_valid ci a = make_valid ci a' -> make_valid ci b = make_valid ci b' ->
  make_valid ci (vadd a b) = make_valid ci (vadd a' b').
Proof.
  induction ci as [|m ci IH]; intros a a' b b' H1 H2; [reflexivity|].
  destruct a as [|x a], a' as [|x' a'], b as [|y b], b' as [|y' b']; cbn [make_valid vadd] in *;
    try discriminate; try reflexivity.
  injection H1 as H1 H1'. injection H2 as H2 H2'. f_equal; [apply mv1_add; assumption|apply IH; assumption].
Qed.

Lemma mvv_scale ci k : forall b b', make_valid ci b = make_valid ci b' ->
  make_valid ci (vscale k b) = make_valid ci (vscale k b').
Proof.
  induction ci as [|m ci IH]; intros b b' H; [reflexivity|].
  destruct b as [|y b], b' as [|y' b']; cbn [make_valid vscale map] in *; try discriminate; try reflexivity.
  injection H as H H'. f_equal; [apply mv1_mul; assumption|apply IH; assumption].
Qed.

Lemma vneg_scale a : vneg a = vscale (-1) a.
Proof. unfold vneg, vscale. apply map_ext. intros z. lia. Qed.

Lemma mvv_neg ci b b' : make_valid ci b = make_valid ci b' -> make_valid ci (vneg b) = make_valid ci (vneg b').
Proof. rewrite !vneg_scale. apply mvv_scale. Qed.

Lemma mvv_length ci : forall a, length a = length ci -> length (make_valid ci a) = length ci.
Proof.
  induction ci as [|m ci IH]; intros [|x a] H; cbn [length] in *; try discriminate; [reflexivity|].
  cbn [make_valid length]. rewrite IH; [reflexivity|lia].
Qed.

(* ---------------------------------------------------------------- raw vector identities (equal lengths) *)
Lemma vadd_length a : forall b, length a = length b -> length (vadd a b) = length a.
Proof. induction a as [|x a IH]; intros [|y b] H; cbn [length] in *; try discriminate; [reflexivity|]. cbn [vadd length]. rewrite IH; lia. Qed.
Lemma vscale_length k a : length (vscale k a) = length a.
Proof. apply map_length. Qed.
Lemma vneg_length a : length (vneg a) = length a.
Proof. apply map_length. Qed.

Lemma vsub_add_cancel q : forall x, length x = length q -> vadd (vsub q x) x = q.
Proof.
  unfold vsub. induction q as [|z q IH]; intros [|y x] H; cbn [length] in *; try discriminate; [reflexivity|].
  cbn [vneg map vadd]. f_equal; [lia|]. apply IH. lia.
Qed.

Lemma vadd_vsub_cancel l : forall q, length q = length l -> vadd l (vsub q l) = q.
Proof.
  unfold vsub. induction l as [|z l IH]; intros [|y q] H; cbn [length] in *; try discriminate; [reflexivity|].
  cbn [vneg map vadd]. f_equal; [lia|]. apply IH. lia.
Qed.

Lemma vadd_sub_same l : forall r, length r = length l -> vsub (vadd l r) r = l.
Proof.
  unfold vsub. induction l as [|z l IH]; intros [|y r] H; cbn [length] in *; try discriminate; [reflexivity|].
  cbn [vneg map vadd]. f_equal; [lia|]. apply IH. lia.
Qed.

Lemma vscale_vscale iq v : iq * iq = 1 -> vscale iq (vscale iq v) = v.
Proof.
  intros H. unfold vscale. rewrite map_map. rewrite <- (map_id v) at 2. apply map_ext. intros z.
  rewrite Z.mul_assoc, H. lia.
Qed.

Lemma vscale_neg_vscale iq v : iq * iq = 1 -> vscale (- iq) (vscale iq v) = vneg v.
Proof.
  intros H. unfold vscale, vneg. rewrite map_map. apply map_ext. intros z.
  rewrite Z.mul_assoc. replace (- iq * iq) with (-1) by lia. lia.
Qed.

Lemma vadd_neg_sub cl : forall cr q, length cr = length cl -> length q = length cl ->
  vadd cl (vneg (vsub q cr)) = vsub (vadd cl cr) q.
Proof.
  unfold vsub. induction cl as [|z cl IH]; intros [|y cr] [|w q] H1 H2; cbn [length] in *; try discriminate; [reflexivity|].
  cbn [vneg map vadd]. f_equal; [lia|]. apply (IH cr q); lia.
Qed.

(* ---------------------------------------------------------------- svd *)
Definition charges_wf (ci : chinfo) (l : leg) : Prop := Forall (fun b => length (snd b) = length ci) (blocks l).
Definition mat_wf (ci : chinfo) (a : mat) : Prop :=
  length (mq a) = length ci /\ make_valid ci (mq a) = mq a /\ charges_wf ci (mL a) /\ charges_wf ci (mR a) /\
  Forall (fun ij => (fst ij < nblocks (mL a))%nat /\ (snd ij < nblocks (mR a))%nat /\
                    rule2 ci (leg_charge (mL a) (fst ij)) (leg_charge (mR a) (snd ij)) (mq a) = true) (mdata a).
Definition req_wf (ci : chinfo) (o : option cvec) : Prop :=
  match o with Some q => length q = length ci | None => True end.

Lemma leg_charge_length ci l i : charges_wf ci l -> (i < nblocks l)%nat -> length (leg_charge l i) = length ci.
Proof.
  intros H Hi. unfold leg_charge, blk. rewrite vscale_length. unfold charges_wf in H. rewrite Forall_forall in H.
  apply H, nth_In, Hi.
Qed.

Lemma resolve_ok ci a oL oR qL qR : mat_wf ci a -> req_wf ci oL -> req_wf ci oR ->
  resolve_LR ci a oL oR = Some (qL, qR) ->
  make_valid ci (vadd qL qR) = mq a /\ length qL = length ci /\ length qR = length ci.
Proof.
  intros (Hlen & Hval & _) HL HR. unfold resolve_LR.
  destruct oL as [l|], oR as [r|]; cbn [req_wf] in *.
  - destruct (veqb (mq a) (make_valid ci (vadd l r))) eqn:E; [|discriminate]. intros H. injection H as <- <-.
    apply veqb_eq in E. auto.
  - intros H. injection H as <- <-. split; [|split; [assumption|]].
    + transitivity (make_valid ci (vadd l (vsub (mq a) l))); [apply mvv_add; [reflexivity|apply mvv_idem]|].
      rewrite vadd_vsub_cancel by lia. exact Hval.
    + apply mvv_length. unfold vsub. rewrite vadd_length; rewrite ?vneg_length; lia.
  - intros H. injection H as <- <-. split; [|split; [|assumption]].
    + transitivity (make_valid ci (vadd (vsub (mq a) r) r)); [apply mvv_add; [apply mvv_idem|reflexivity]|].
      rewrite vsub_add_cancel by lia. exact Hval.
    + apply mvv_length. unfold vsub. rewrite vadd_length; rewrite ?vneg_length; lia.
  - intros H. injection H as <- <-. split; [|split; [|assumption]].
    + transitivity (make_valid ci (vadd (vsub (mq a) (mq a)) (mq a))); [apply mvv_add; [apply mvv_idem|reflexivity]|].
      rewrite vsub_add_cancel by lia. exact Hval.
    + apply mvv_length. unfold vsub. rewrite vadd_length; rewrite ?vneg_length; lia.
Qed.

Definition krow_ok (ci : chinfo) (a : mat) (iq : Z) (qU qV : cvec) (r : krow) : Prop :=
  let '(i, j, b) := r in
  rule2 ci (leg_charge (mL a) i) (vscale (- iq) (snd b)) qU = true /\
  rule2 ci (vscale iq (snd b)) (leg_charge (mR a) j) qV = true /\ 0 < fst b.

Lemma svd_rows_ok ci a qL qR iq : iq * iq = 1 -> mat_wf ci a ->
  make_valid ci (vadd qL qR) = mq a -> length qL = length ci -> length qR = length ci ->
  forall data nums, (forall ij, In ij data -> In ij (mdata a)) ->
  Forall (krow_ok ci a iq (make_valid ci qL) (make_valid ci qR)) (svd_rows ci a qR iq data nums).
Proof.
  intros Hiq (Hlen & Hval & HcL & HcR & Hd) Hsum HlL HlR. rewrite Forall_forall in Hd.
  induction data as [|[i j] dt IH]; intros nums Hin; [constructor|].
  destruct nums as [|n nt]; [constructor|]. cbn [svd_rows].
  apply Forall_app. split; [|apply IH; intros ij H; apply Hin; right; exact H].
  destruct (0 <? n) eqn:En; [|constructor]. constructor; [|constructor].
  destruct (Hd (i, j) (Hin _ (or_introl eq_refl))) as (Hi & Hj & Hr). cbn [fst snd] in *.
  unfold rule2 in Hr. apply veqb_eq in Hr.
  pose proof (leg_charge_length ci _ i HcL Hi) as LcL. pose proof (leg_charge_length ci _ j HcR Hj) as LcR.
  set (cl := leg_charge (mL a) i) in *. set (cr := leg_charge (mR a) j) in *.
  assert (EU : make_valid ci (vadd cl (vscale (- iq) (make_valid ci (vscale iq (vsub qR cr))))) = make_valid ci qL).
  { transitivity (make_valid ci (vadd cl (vscale (- iq) (vscale iq (vsub qR cr))))).
    { apply mvv_add; [reflexivity|]. apply mvv_scale, mvv_idem. }
    rewrite vscale_neg_vscale by exact Hiq. rewrite vadd_neg_sub by lia.
    transitivity (make_valid ci (vsub (vadd qL qR) qR)).
    { unfold vsub. apply mvv_add; [|reflexivity]. rewrite Hr, Hsum. reflexivity. }
    rewrite vadd_sub_same by lia. reflexivity. }
  assert (EV : make_valid ci (vadd (vscale iq (make_valid ci (vscale iq (vsub qR cr)))) cr) = make_valid ci qR).
  { transitivity (make_valid ci (vadd (vscale iq (vscale iq (vsub qR cr))) cr)).
    { apply mvv_add; [|reflexivity]. apply mvv_scale, mvv_idem. }
    rewrite vscale_vscale by exact Hiq. rewrite vsub_add_cancel by lia. reflexivity. }
  unfold krow_ok. cbn [fst snd]. unfold rule2. fold cl. fold cr. rewrite EU, EV, !veqb_refl. repeat split. lia.
Qed.

Theorem svd_charges_ok ci a nums oL oR iq p : (iq = 1 \/ iq = -1) -> mat_wf ci a -> req_wf ci oL -> req_wf ci oR ->
  svd_charges ci a nums oL oR iq = Some p ->
  make_valid ci (vadd (s_qU p) (s_qV p)) = mq a /\
  Forall (krow_ok ci a iq (s_qU p) (s_qV p)) (s_rows p) /\
  contractible ci (s_legL p) (s_legR p) = true /\ qc (s_legR p) = iq /\ blocks (s_legR p) = map snd (s_rows p).
Proof.
  intros Hiq Hwf HL HR. unfold svd_charges.
  destruct (resolve_LR ci a oL oR) as [[qL qR]|] eqn:E; [|discriminate].
  intros H. injection H as <-. cbn [s_qU s_qV s_rows s_legL s_legR qc blocks].
  destruct (resolve_ok ci a oL oR qL qR Hwf HL HR E) as (Hsum & HlL & HlR).
  assert (Hiq' : iq * iq = 1) by (destruct Hiq; subst; reflexivity).
  split; [|split; [|split; [|split]]].
  - rewrite <- Hsum. apply mvv_add; apply mvv_idem.
  - apply svd_rows_ok; auto.
  - apply conj_contractible'.
  - reflexivity.
  - reflexivity.
Qed.

(* U and VH requests are honoured *)
Lemma svd_request ci a nums oL oR iq p : svd_charges ci a nums oL oR iq = Some p ->
  (forall l, oL = Some l -> s_qU p = make_valid ci l) /\ (forall r, oR = Some r -> s_qV p = make_valid ci r).
Proof.
  unfold svd_charges, resolve_LR. destruct oL as [l|], oR as [r|].
  - destruct (veqb _ _); [|discriminate]. intros H. injection H as <-. cbn. split; intros ? E; injection E as <-; reflexivity.
  - intros H. injection H as <-. cbn. split; intros ? E; [injection E as <-; reflexivity|discriminate].
  - intros H. injection H as <-. cbn. split; intros ? E; [discriminate|injection E as <-; reflexivity].
  - intros H. injection H as <-. cbn. split; intros ? E; discriminate.
Qed.

(* ---------------------------------------------------------------- qr *)
Lemma vsub_zero v : vsub v (vzero (length v)) = v.
Proof. unfold vsub, vzero. induction v as [|z v IH]; [reflexivity|]. cbn [length repeat vneg map vadd]. f_equal; [lia|exact IH]. Qed.

Lemma vsub_self v : vsub v v = vzero (length v).
Proof. unfold vsub, vzero. induction v as [|z v IH]; [reflexivity|]. cbn [length repeat vneg map vadd]. f_equal; [lia|exact IH]. Qed.

Lemma vscale_sub_scale q0 c : forall Q, q0 * q0 = 1 -> length Q = length c ->
  vscale q0 (vsub c (vscale q0 Q)) = vsub (vscale q0 c) Q.
Proof.
  unfold vsub, vscale, vneg. induction c as [|z c IH]; intros [|y Q] H L; cbn [length] in *; try discriminate; [reflexivity|].
  cbn [map vadd]. f_equal; [|apply IH; [exact H|lia]].
  replace (q0 * (z + - (q0 * y))) with (q0 * z - (q0 * q0) * y) by ring. rewrite H. lia.
Qed.

Lemma vscale_neg_neg q0 v : vscale (- q0) (vneg v) = vscale q0 v.
Proof. unfold vscale, vneg. rewrite map_map. apply map_ext. intros z. ring. Qed.

Lemma vscale_neg_l k v : vscale (- k) v = vneg (vscale k v).
Proof. unfold vscale, vneg. rewrite map_map. apply map_ext. intros z. ring. Qed.

Lemma vadd_neg_sub_self cl : forall Q, length Q = length cl -> vadd cl (vneg (vsub cl Q)) = Q.
Proof.
  unfold vsub, vneg. induction cl as [|z cl IH]; intros [|y Q] L; cbn [length] in *; try discriminate; [reflexivity|].
  cbn [map vadd]. f_equal; [lia|apply IH; lia].
Qed.

Lemma vadd_sub_swap cl : forall Q cr, length Q = length cl -> length cr = length cl ->
  vadd (vsub cl Q) cr = vsub (vadd cl cr) Q.
Proof.
  unfold vsub, vneg. induction cl as [|z cl IH]; intros [|y Q] [|w cr] L1 L2; cbn [length] in *; try discriminate; [reflexivity|].
  cbn [map vadd]. f_equal; [lia|apply IH; lia].
Qed.

Definition q_req (ci : chinfo) (qQ : option cvec) : cvec :=
  match qQ with None => vzero (length ci) | Some q => make_valid ci q end.

(* iq * (charge of the inner block) = q0 * (charge of the row block) - qtotal_Q   (mod) *)
Lemma shift_phys ci q0 iq qQ c0 : (q0 = 1 \/ q0 = -1) -> (iq = 1 \/ iq = -1) -> length c0 = length ci -> req_wf ci qQ ->
  make_valid ci (vscale iq (shift_charge ci q0 iq qQ c0)) = make_valid ci (vsub (vscale q0 c0) (q_req ci qQ)).
Proof.
  intros Hq0 Hiq Lc Hreq. assert (Hq0' : q0 * q0 = 1) by (destruct Hq0; subst; reflexivity).
  unfold shift_charge, q_req.
  assert (E1 : make_valid ci (vscale q0 (match qQ with None => c0 | Some q => make_valid ci (vsub c0 (vscale q0 (make_valid ci q))) end))
               = make_valid ci (vsub (vscale q0 c0) (match qQ with None => vzero (length ci) | Some q => make_valid ci q end))).
  { destruct qQ as [q|]; cbn [req_wf] in Hreq.
    - transitivity (make_valid ci (vscale q0 (vsub c0 (vscale q0 (make_valid ci q))))); [apply mvv_scale, mvv_idem|].
      rewrite vscale_sub_scale; [reflexivity|exact Hq0'|]. rewrite mvv_length; lia.
    - rewrite <- (vscale_length q0 c0) in Lc. rewrite <- Lc, vsub_zero. reflexivity. }
  set (c1 := match qQ with None => c0 | Some q => make_valid ci (vsub c0 (vscale q0 (make_valid ci q))) end) in *.
  destruct (q0 =? iq) eqn:E.
  - apply Z.eqb_eq in E. subst iq. exact E1.
  - assert (iq = - q0) by (destruct Hq0, Hiq; subst; cbn in E; try discriminate; reflexivity). subst iq.
    rewrite <- E1. transitivity (make_valid ci (vscale (- q0) (vneg c1))); [apply mvv_scale, mvv_idem|].
    rewrite vscale_neg_neg. reflexivity.
Qed.

Definition qrow_ok (ci : chinfo) (a : mat) (iq : Z) (qQ qR : cvec) (ib : nat * block) : Prop :=
  let '(i, b) := ib in
  rule2 ci (leg_charge (mL a) i) (vscale (- iq) (snd b)) qQ = true /\
  (forall j, In (i, j) (mdata a) -> rule2 ci (vscale iq (snd b)) (leg_charge (mR a) j) qR = true).

Lemma q_req_length ci qQ : req_wf ci qQ -> length (q_req ci qQ) = length ci.
Proof. destruct qQ as [q|]; cbn [req_wf q_req]; intros H; [apply mvv_length, H|apply repeat_length]. Qed.

Theorem qr_charges_ok ci a ks complete qQ iq : (iq = 1 \/ iq = -1) -> (qc (mL a) = 1 \/ qc (mL a) = -1) ->
  mat_wf ci a -> req_wf ci qQ ->
  let p := qr_charges ci a ks complete qQ iq in
  make_valid ci (vadd (r_qQ p) (r_qR p)) = mq a /\
  r_qQ p = make_valid ci (q_req ci qQ) /\
  Forall (qrow_ok ci a iq (r_qQ p) (r_qR p)) (r_map p) /\
  qc (r_inner p) = iq /\ blocks (r_inner p) = map snd (r_map p) /\
  contractible ci (conj_leg (r_inner p)) (r_inner p) = true.
Proof.
  intros Hiq Hq0 (Hlen & Hval & HcL & HcR & Hd) Hreq p.
  assert (EQ : r_qQ p = make_valid ci (q_req ci qQ)).
  { unfold p, qr_charges. cbn [r_qQ]. destruct qQ as [q|]; cbn [q_req].
    - rewrite mvv_idem. reflexivity.
    - rewrite vsub_self, Hlen. reflexivity. }
  assert (LQ : length (r_qQ p) = length ci) by (rewrite EQ; apply mvv_length, q_req_length, Hreq).
  assert (ER : r_qR p = make_valid ci (vsub (mq a) (r_qQ p))) by reflexivity.
  split; [|split; [exact EQ|split; [|split; [reflexivity|split; [reflexivity|apply conj_contractible']]]]].
  - rewrite ER. transitivity (make_valid ci (vadd (r_qQ p) (vsub (mq a) (r_qQ p)))); [apply mvv_add; [reflexivity|apply mvv_idem]|].
    rewrite vadd_vsub_cancel by lia. exact Hval.
  - rewrite ER, EQ. unfold p, qr_charges. cbn [r_map]. apply Forall_forall. intros [i b] Hin.
    apply in_map_iff in Hin. destruct Hin as (x & E & Hin). destruct x as [i' [k c0]]. cbn [fst snd] in E.
    injection E as Ei Eb. subst i b.
    apply filter_In in Hin. destruct Hin as [Hin _]. apply in_map_iff in Hin.
    destruct Hin as (y & E & Hin). destruct y as [i2 b0]. injection E as Ei _ Ec. subst i2 c0.
    pose proof (combine_seq_nth (blocks (mL a)) 0) as F. rewrite Forall_forall in F. specialize (F _ Hin).
    cbn [fst snd] in F. rewrite Nat.sub_0_r in F.
    assert (Hi : (i' < nblocks (mL a))%nat) by (apply in_combine_l in Hin; apply in_seq in Hin; lia).
    assert (Lc0 : length (snd b0) = length ci).
    { unfold charges_wf in HcL. rewrite Forall_forall in HcL. apply HcL. rewrite F. apply nth_In, Hi. }
    assert (Ecl : leg_charge (mL a) i' = vscale (qc (mL a)) (snd b0)) by (unfold leg_charge, blk; rewrite <- F; reflexivity).
    pose proof (shift_phys ci (qc (mL a)) iq qQ (snd b0) Hq0 Hiq Lc0 Hreq) as SP.
    set (c := shift_charge ci (qc (mL a)) iq qQ (snd b0)) in *. set (Q := q_req ci qQ) in *.
    assert (LQ' : length Q = length ci) by (apply q_req_length, Hreq).
    assert (Lcl : length (leg_charge (mL a) i') = length ci) by (rewrite Ecl, vscale_length; exact Lc0).
    unfold qrow_ok. cbn [fst snd]. unfold rule2. split.
    + rewrite vscale_neg_l.
      replace (make_valid ci (vadd (leg_charge (mL a) i') (vneg (vscale iq c)))) with (make_valid ci Q); [apply veqb_refl|].
      symmetry. transitivity (make_valid ci (vadd (leg_charge (mL a) i') (vneg (vsub (leg_charge (mL a) i') Q)))).
      { apply mvv_add; [reflexivity|]. apply mvv_neg. rewrite Ecl. exact SP. }
      rewrite vadd_neg_sub_self by lia. reflexivity.
    + intros j Hj. rewrite Forall_forall in Hd. destruct (Hd _ Hj) as (_ & Hjr & Hr). cbn [fst snd] in *.
      unfold rule2 in Hr. apply veqb_eq in Hr.
      pose proof (leg_charge_length ci _ j HcR Hjr) as Lcr.
      replace (make_valid ci (vadd (vscale iq c) (leg_charge (mR a) j))) with (make_valid ci (vsub (mq a) (make_valid ci Q))); [apply veqb_refl|].
      symmetry. transitivity (make_valid ci (vadd (vsub (leg_charge (mL a) i') Q) (leg_charge (mR a) j))).
      { apply mvv_add; [|reflexivity]. rewrite Ecl. exact SP. }
      rewrite vadd_sub_swap by lia. unfold vsub. apply mvv_add; [rewrite Hr; symmetry; exact Hval|].
      apply mvv_neg. symmetry. apply mvv_idem.
Qed.
