(* C17 - the regenerated state/attribute tables satisfy Model/StateSpec.v (finite domain: the classes listed in the
   generated file; decided by computation). *)
From TenpyV Require Import Base.Prelude Model.StateSpec Gen.G_states.
From Coq Require Import String.
Open Scope string_scope.

Lemma tables_hold : states_complete = true /\ tables_ok state_table hdf5_table setstate_calls = true.
Proof. split; vm_compute; reflexivity. Qed.

Lemma forallb_In {A} (p : A -> bool) l : forallb p l = true -> forall x, In x l -> p x = true.
Proof. intros H x Hx. rewrite forallb_forall in H. auto. Qed.

Lemma state_orders :
  (forall c produced consumed, In (c, produced, consumed) state_table -> produced = consumed) /\
  (forall c f written read, In (c, f, written, read) hdf5_table ->
     pair_mem c f known_subset_exceptions = false ->
     forall x, In x read -> In x written) /\
  (forall c m given expected, In (c, m, given, expected) setstate_calls ->
     pair_mem c m known_arity_exceptions = false -> given = expected).
Proof.
  destruct tables_hold as [_ H]. unfold tables_ok in H.
  apply andb_prop in H. destruct H as [H H3]. apply andb_prop in H. destruct H as [H1 H2].
  split; [|split].
  - intros c p q Hin. pose proof (forallb_In _ _ H1 _ Hin) as K. unfold state_ok in K.
    clear - K. revert q K. induction p as [|x p IH]; intros [|y q] K; cbn [str_list_eqb] in K; try discriminate; [reflexivity|].
    apply andb_prop in K. destruct K as [K1 K2]. apply String.eqb_eq in K1. subst. f_equal. auto.
  - intros c f w r Hin Hk x Hx. pose proof (forallb_In _ _ H2 _ Hin) as K. unfold hdf5_ok_or_known, hdf5_ok in K.
    rewrite Hk, orb_false_r in K. unfold subset_str in K. pose proof (forallb_In _ _ K _ Hx) as K2.
    unfold mem_str in K2. apply existsb_exists in K2. destruct K2 as [y [Hy E]].
    apply String.eqb_eq in E. subst. exact Hy.
  - intros c m g e Hin Hk. pose proof (forallb_In _ _ H3 _ Hin) as K. unfold call_ok_or_known, call_ok in K.
    rewrite Hk, orb_false_r in K. apply Nat.eqb_eq in K. exact K.
Qed.

Lemma classes_present :
  forallb (fun c => has_class c state_table)
          ["ChargeInfo"; "DipolarChargeInfo"; "LegCharge"; "LegPipe"; "Array"] = true.
Proof. vm_compute. reflexivity. Qed.
