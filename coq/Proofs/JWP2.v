(* Further lemmas about Model/JW.v: the loop of multi_coupling_term_handle_JW (handle_jw) agrees with the closed form jw_right
   for every term (the link that the correspondence stream checks per case with `strings_consistent`), and the two-site
   handler coupling_term_handle_JW. *)
From TenpyV Require Import Base.Prelude Model.JW Proofs.JWP Model.JW2.
Open Scope Z_scope.

Definition gsite (e : list Z * Z * bool) : Z := snd (fst e).
Definition gflag (e : list Z * Z * bool) : bool := snd e.
Definition ascending (g : list (list Z * Z * bool)) : Prop := StronglySorted (fun a b => gsite a < gsite b) g.
Definition gpar (g : list (list Z * Z * bool)) : bool := fold_right (fun e b => xorb (gflag e) b) false g.

(* ---------- group of a sorted term is strictly ascending ---------- *)
Lemma group_head_site y r ops i f g : group (y :: r) = (ops, i, f) :: g -> i = it_site y.
Proof.
  cbn [group]. destruct (group r) as [|[[ops' i'] f'] g'].
  - intros H. inversion H. reflexivity.
  - destruct (i' =? it_site y) eqn:E; intros H; inversion H; subst; lia.
Qed.

Lemma group_ascending l : StronglySorted site_le l -> ascending (group l).
Proof.
  induction 1 as [|x r Hs IH Hf]; [constructor|].
  cbn [group]. destruct (group r) as [|[[ops i] f] g] eqn:G.
  - repeat constructor.
  - assert (Hi : it_site x <= i).
    { destruct r as [|y r']; [discriminate|]. apply group_head_site in G. subst i.
      inversion Hf as [|? ? Hy _]; subst. exact Hy. }
    unfold ascending in *. inversion IH as [|? ? Hg Hfg]; subst.
    destruct (i =? it_site x) eqn:E.
    + constructor; [exact Hg|]. exact Hfg.
    + constructor; [exact IH|]. constructor; [unfold gsite; cbn; lia|].
      rewrite Forall_forall in *. intros e He. specialize (Hfg e He). unfold gsite in *. cbn [fst snd] in *. lia.
Qed.

Lemma gpar_group l : gpar (group l) = total_parity l.
Proof.
  induction l as [|x r IH]; [reflexivity|].
  cbn [group total_parity fold_right]. fold (total_parity r). rewrite <- IH.
  destruct (group r) as [|[[ops i] f] g]; [reflexivity|].
  destruct (i =? it_site x); unfold gpar, gflag; cbn [fold_right snd];
    destruct (it_f x), f, (fold_right (fun e b => xorb (snd e) b) false g); reflexivity.
Qed.

Lemma total_parity_perm l l' : Permutation l l' -> total_parity l = total_parity l'.
Proof.
  unfold total_parity.
  induction 1 as [|y l l' _ IH|y z l|l l' l'' _ IH1 _ IH2]; cbn [fold_right].
  - reflexivity.
  - rewrite IH. reflexivity.
  - destruct (it_f y), (it_f z), (fold_right (fun t b => xorb (it_f t) b) false l); reflexivity.
  - congruence.
Qed.

Lemma jw_right_lt r k : Forall (fun e => k < gsite e) r -> jw_right r k = false.
Proof.
  induction 1 as [|[[ops i] f] r Hi _ IH]; [reflexivity|].
  cbn [jw_right]. rewrite IH. unfold gsite in Hi. cbn [fst snd] in Hi.
  replace (i <=? k) with false by lia. reflexivity.
Qed.

Lemma jw_right_ge r k : Forall (fun e => gsite e <= k) r -> jw_right r k = gpar r.
Proof.
  induction 1 as [|[[ops i] f] r Hi _ IH]; [reflexivity|].
  cbn [jw_right]. rewrite IH. unfold gsite in Hi. cbn [fst snd] in Hi.
  replace (i <=? k) with true by lia. reflexivity.
Qed.

Lemma Forall_lt_trans (r : list (list Z * Z * bool)) i k :
  i <= k -> Forall (fun e => k < gsite e) r -> Forall (fun e => i < gsite e) r.
Proof. intros H. apply Forall_impl. intros e He. lia. Qed.

(* ---------- handle_jw ---------- *)
Lemma handle_jw_fin : forall l jw, snd (handle_jw jw l) = xorb jw (gpar l).
Proof.
  induction l as [|[[ops i] f] r IH]; intros jw; cbn [handle_jw].
  - cbn. destruct jw; reflexivity.
  - specialize (IH (xorb jw f)). destruct (handle_jw (xorb jw f) r) as [[res strs] fin]. cbn [snd] in *.
    rewrite IH. unfold gpar, gflag. cbn [fold_right snd].
    destruct jw, f, (fold_right (fun e b => xorb (snd e) b) false r); reflexivity.
Qed.

Lemma handle_jw_shape : forall l jw,
  map (fun e => (fst (fst e), gsite e)) (fst (fst (handle_jw jw l))) = map (fun e => (fst (fst e), gsite e)) l /\
  snd (fst (handle_jw jw l)) = map gflag (fst (fst (handle_jw jw l))).
Proof.
  induction l as [|[[ops i] f] r IH]; intros jw; cbn [handle_jw]; [split; reflexivity|].
  specialize (IH (xorb jw f)). destruct (handle_jw (xorb jw f) r) as [[res strs] fin]. cbn [fst snd map] in *.
  destruct IH as [IH1 IH2]. split; [f_equal; exact IH1 | f_equal; exact IH2].
Qed.

(* sc F = strings_consistent with the closed form replaced by an arbitrary function *)
Fixpoint sc (F : Z -> bool) (res : list (list Z * Z * bool)) (strs : list bool) : bool :=
  match res with
  | [] => true
  | (_, i, f) :: r =>
      Bool.eqb (F i) f &&
      match r, strs with
      | (_, j, _) :: _, s :: strs' => Bool.eqb f s && (if i + 1 <? j then Bool.eqb (F (i + 1)) s else true) && sc F r strs'
      | [], _ => true
      | _, [] => false
      end
  end.

Lemma sc_strings_consistent g : forall res strs, strings_consistent g res strs = sc (jw_right g) res strs.
Proof.
  induction res as [|[[ops i] f] r IH]; intros strs; cbn [strings_consistent sc]; [reflexivity|].
  destruct r as [|[[ops' j] f'] r']; [reflexivity|]. destruct strs as [|s strs']; [reflexivity|].
  rewrite IH. reflexivity.
Qed.

Definition head_le (l : list (list Z * Z * bool)) (k : Z) : Prop :=
  match l with [] => True | e :: _ => gsite e <= k end.

Lemma handle_jw_sc : forall l jw (F : Z -> bool), ascending l ->
  (forall k, head_le l k -> F k = xorb jw (jw_right l k)) ->
  sc F (fst (fst (handle_jw jw l))) (removelast (snd (fst (handle_jw jw l)))) = true.
Proof.
  induction l as [|[[ops i] f] r IH]; intros jw F Hasc HF; [reflexivity|].
  unfold ascending in Hasc. inversion Hasc as [|? ? Hr Hir]; subst.
  assert (Hi : F i = xorb jw f).
  { rewrite HF by (cbn; unfold gsite; cbn; lia). cbn [jw_right]. rewrite (jw_right_lt r i) by exact Hir.
    replace (i <=? i) with true by lia. destruct f; reflexivity. }
  cbn [handle_jw].
  destruct r as [|[[ops' j] f'] r'].
  - cbn [handle_jw fst snd removelast sc]. rewrite Hi. rewrite Bool.eqb_reflx. reflexivity.
  - assert (Hij : i < j). { inversion Hir as [|? ? H1 _]; subst. unfold gsite in H1. cbn in H1. exact H1. }
    assert (HF' : forall k, head_le ((ops', j, f') :: r') k -> F k = xorb (xorb jw f) (jw_right ((ops', j, f') :: r') k)).
    { intros k Hk. cbn [head_le] in Hk. unfold gsite in Hk. cbn [fst snd] in Hk.
      rewrite HF by (cbn; unfold gsite; cbn; lia). cbn [jw_right].
      replace (i <=? k) with true by lia. cbn [andb].
      destruct jw, f, ((j <=? k) && f'), (jw_right r' k); reflexivity. }
    specialize (IH (xorb jw f) F Hr HF').
    assert (Hgap : i + 1 < j -> F (i + 1) = xorb jw f).
    { intros Hg. rewrite HF by (cbn; unfold gsite; cbn; lia). cbn [jw_right].
      replace (i <=? i + 1) with true by lia.
      rewrite (jw_right_lt r' (i + 1)).
      - replace (j <=? i + 1) with false by lia. destruct jw, f; reflexivity.
      - inversion Hr as [|? ? _ Hjr]; subst. apply (Forall_lt_trans r' (i + 1) j); [lia | exact Hjr]. }
    revert IH. cbn [handle_jw].
    destruct (handle_jw (xorb (xorb jw f) f') r') as [[res strs] fin]. cbn [fst snd]. intros IH.
    cbn [removelast sc]. rewrite Hi. rewrite !Bool.eqb_reflx. cbn [andb].
    destruct (i + 1 <? j) eqn:E.
    + rewrite Hgap by lia. rewrite Bool.eqb_reflx. cbn [andb]. exact IH.
    + cbn [andb]. exact IH.
Qed.

Lemma out_flag_lt : forall res strs k, Forall (fun e => k < gsite e) res -> out_flag res strs k = false.
Proof.
  induction res as [|[[ops i] f] r IH]; intros strs k Hk; [reflexivity|].
  inversion Hk as [|? ? Hi Hr]; subst. unfold gsite in Hi. cbn [fst snd] in Hi.
  cbn [out_flag]. replace (k =? i) with false by lia.
  destruct r as [|[[ops' j] f'] r']; [reflexivity|]. destruct strs as [|s strs']; [reflexivity|].
  replace (i <? k) with false by lia. cbn [andb]. apply IH. exact Hr.
Qed.

Lemma removelast_cons2 (A : Type) (a b : A) l : removelast (a :: b :: l) = a :: removelast (b :: l).
Proof. reflexivity. Qed.

Lemma out_flag_cons2 ops i f ops' j f' r s strs k :
  out_flag ((ops, i, f) :: (ops', j, f') :: r) (s :: strs) k =
  if k =? i then f else if (i <? k) && (k <? j) then s else out_flag ((ops', j, f') :: r) strs k.
Proof. reflexivity. Qed.

Lemma handle_jw_out_flag : forall l jw, ascending l -> xorb jw (gpar l) = false ->
  forall k, head_le l k ->
  out_flag (fst (fst (handle_jw jw l))) (removelast (snd (fst (handle_jw jw l)))) k = xorb jw (jw_right l k).
Proof.
  induction l as [|[[ops i] f] r IH]; intros jw Hasc Hpar k Hk.
  - cbn in *. destruct jw; [discriminate | reflexivity].
  - unfold ascending in Hasc. inversion Hasc as [|? ? Hr Hir]; subst.
    cbn [head_le] in Hk. unfold gsite in Hk. cbn [fst snd] in Hk.
    destruct r as [|[[ops' j] f'] r'].
    + cbn [handle_jw fst snd removelast out_flag jw_right].
      replace (i <=? k) with true by lia. cbn [andb].
      unfold gpar, gflag in Hpar. cbn [fold_right snd] in Hpar.
      destruct (k =? i); [destruct jw, f; reflexivity|]. rewrite xorb_false_r in *. symmetry. exact Hpar.
    + assert (Hij : i < j). { inversion Hir as [|? ? H1 _]; subst. unfold gsite in H1. cbn in H1. exact H1. }
      assert (Hpar' : xorb (xorb jw f) (gpar ((ops', j, f') :: r')) = false).
      { revert Hpar. unfold gpar, gflag. cbn [fold_right snd].
        destruct jw, f, f', (fold_right (fun e b => xorb (snd e) b) false r'); cbn; congruence. }
      specialize (IH (xorb jw f) Hr Hpar' k).
      revert IH. cbn [handle_jw].
      destruct (handle_jw (xorb (xorb jw f) f') r') as [[res strs] fin]. cbn [fst snd]. intros IH.
      rewrite removelast_cons2, out_flag_cons2.
      destruct (k =? i) eqn:E1.
      * assert (k = i) by lia. subst k. cbn [jw_right]. replace (i <=? i) with true by lia.
        replace (j <=? i) with false by lia.
        rewrite (jw_right_lt r' i).
        -- destruct jw, f; reflexivity.
        -- inversion Hr as [|? ? _ Hjr]; subst. apply (Forall_lt_trans r' i j); [lia | exact Hjr].
      * destruct ((i <? k) && (k <? j)) eqn:E2.
        -- cbn [jw_right]. replace (i <=? k) with true by lia. replace (j <=? k) with false by lia.
           rewrite (jw_right_lt r' k).
           ++ destruct jw, f; reflexivity.
           ++ inversion Hr as [|? ? _ Hjr]; subst. apply (Forall_lt_trans r' k j); [lia | exact Hjr].
        -- rewrite IH by (cbn; unfold gsite; cbn; lia).
           cbn [jw_right]. replace (i <=? k) with true by lia. cbn [andb].
           destruct jw, f, ((j <=? k) && f'), (jw_right r' k); reflexivity.
Qed.

(* ---------- main statement: the output of the handler IS the closed form, for every term ---------- *)
Lemma handler_closed_form term :
  let g := group (order_sort term) in
  ascending g /\
  (total_parity term = true -> multi_coupling_term_handle_JW g = None) /\
  (total_parity term = false ->
     exists res strs, multi_coupling_term_handle_JW g = Some (res, strs) /\
       map (fun e => (fst (fst e), gsite e)) res = map (fun e => (fst (fst e), gsite e)) g /\
       strs = removelast (map gflag res) /\
       (forall k, out_flag res strs k = jw_right g k) /\
       (forall k, out_word term res strs k = impl_word term k) /\
       strings_consistent g res strs = true).
Proof.
  intros g.
  assert (Hasc : ascending g) by (apply group_ascending, order_sort_sorted).
  assert (Hpar : gpar g = total_parity term).
  { unfold g. rewrite gpar_group. symmetry. apply total_parity_perm. apply order_sort_perm. }
  pose proof (handle_jw_fin g false) as Hfin. rewrite xorb_false_l, Hpar in Hfin.
  pose proof (handle_jw_shape g false) as [Hsh1 Hsh2].
  split; [exact Hasc|]. split.
  - intros Hp. unfold multi_coupling_term_handle_JW.
    destruct (handle_jw false g) as [[res strs] fin]. cbn [snd] in Hfin. rewrite Hfin, Hp. reflexivity.
  - intros Hp.
    pose proof (handle_jw_sc g false (jw_right g) Hasc) as Hsc.
    pose proof (handle_jw_out_flag g false Hasc) as Hof.
    unfold multi_coupling_term_handle_JW.
    destruct (handle_jw false g) as [[res strs] fin] eqn:EH. cbn [fst snd] in *. rewrite Hfin, Hp.
    exists res, (removelast strs).
    assert (Hflag : forall k, out_flag res (removelast strs) k = jw_right g k).
    { intros k. destruct g as [|e g'] eqn:EG.
      - cbn in EH. inversion EH; subst. reflexivity.
      - destruct (Z_lt_dec k (gsite e)) as [Hlt|Hge].
        + rewrite out_flag_lt.
          * symmetry. apply jw_right_lt. constructor; [exact Hlt|].
            unfold ascending in Hasc. inversion Hasc as [|? ? _ Hf]; subst.
            revert Hf. apply Forall_impl. intros e' He'. lia.
          * assert (Hs : map gsite res = map gsite (e :: g')).
            { assert (H := f_equal (map snd) Hsh1). rewrite !map_map in H. exact H. }
            assert (Hg : Forall (fun e' => k < gsite e') (e :: g')).
            { constructor; [exact Hlt|]. unfold ascending in Hasc. inversion Hasc as [|? ? _ Hf]; subst.
              revert Hf. apply Forall_impl. intros e' He'. lia. }
            clear - Hs Hg. revert Hs Hg. generalize (e :: g'). intros l. revert l.
            induction res as [|x res IH]; intros l Hs Hg; [constructor|].
            destruct l as [|y l]; [discriminate|]. cbn [map] in Hs. inversion Hs as [[Hx Hl]].
            inversion Hg; subst. constructor; [lia | apply (IH l); assumption].
        + rewrite Hof; [apply xorb_false_l | rewrite xorb_false_l; rewrite Hpar; exact Hp | cbn; lia]. }
    split; [reflexivity|]. split; [exact Hsh1|]. split; [rewrite Hsh2; reflexivity|]. split; [exact Hflag|]. split.
    + intros k. unfold out_word, impl_word. fold g. rewrite Hflag. reflexivity.
    + rewrite sc_strings_consistent. apply Hsc. intros k _. rewrite xorb_false_l. reflexivity.
Qed.

(* ---------- the two-site handler ---------- *)
Lemma coupling_JW a fi b fj i j : i < j ->
  let term := [mkItem a i fi; mkItem b j fj] in
  (coupling_term_handle_JW fi fj = None <-> total_parity term = true) /\
  (forall app str, coupling_term_handle_JW fi fj = Some (app, str) ->
     order_combine_term term = ([([a], i, fi); ([b], j, fj)], false) /\
     multi_coupling_term_handle_JW (group (order_sort term)) = Some ([([a], i, app); ([b], j, false)], [str]) /\
     (forall k, coupling_words a fi b fj i j k = Some (impl_word term k)) /\
     (forall k, nf_sign (impl_word term k) = false /\
                nf_jw (impl_word term k) = nf_jw (phys_word term k) /\
                nf_ops (impl_word term k) = nf_ops (phys_word term k)) /\
     (forall ks, NoDup ks -> In i ks -> In j ks -> xor_over ks (fun k => nf_sign (phys_word term k)) = false)).
Proof.
  intros Hij term.
  assert (Hsort : order_sort term = term).
  { unfold order_sort, term. cbn [length Nat.sub bsort pass bubn it_site]. replace (j <? i) with false by lia. reflexivity. }
  assert (Hgroup : group term = [([a], i, fi); ([b], j, fj)]).
  { unfold term. cbn [group it_site it_op it_f]. replace (j =? i) with false by lia. reflexivity. }
  assert (Hsign : order_sign term = false).
  { unfold order_sign, term. cbn [length Nat.sub bsort_flip pass_flip flipn it_site]. replace (j <? i) with false by lia.
    reflexivity. }
  split.
  - unfold coupling_term_handle_JW, term, total_parity. cbn [fold_right it_f].
    destruct fi, fj; cbn; split; intros H; try reflexivity; discriminate.
  - intros app str Hc.
    assert (Hp : total_parity term = false).
    { unfold coupling_term_handle_JW in Hc. unfold term, total_parity. cbn [fold_right it_f].
      destruct fi, fj; cbn in *; try reflexivity; discriminate. }
    split; [unfold order_combine_term; rewrite Hsort, Hgroup, Hsign; reflexivity|].
    split.
    { rewrite Hsort, Hgroup. unfold multi_coupling_term_handle_JW, coupling_term_handle_JW in *.
      destruct fi, fj; cbn in *; inversion Hc; subst; reflexivity. }
    split.
    { intros k. unfold coupling_words. rewrite Hc. unfold impl_word. rewrite Hsort, Hgroup. f_equal.
      unfold term. cbn [filter it_site jw_right item_letters map it_op it_f].
      unfold coupling_term_handle_JW in Hc.
      destruct (k =? i) eqn:E1.
      - replace (i =? k) with true by lia. replace (j =? k) with false by lia.
        replace (i <=? k) with true by lia. replace (j <=? k) with false by lia.
        destruct fi, fj; cbn in *; inversion Hc; subst; reflexivity.
      - replace (i =? k) with false by lia.
        destruct ((i <? k) && (k <? j)) eqn:E2.
        + replace (j =? k) with false by lia. replace (i <=? k) with true by lia. replace (j <=? k) with false by lia.
          destruct fi, fj; cbn in *; inversion Hc; subst; reflexivity.
        + destruct (k =? j) eqn:E3.
          * replace (j =? k) with true by lia. replace (i <=? k) with true by lia. replace (j <=? k) with true by lia.
            destruct fi, fj; cbn in *; inversion Hc; subst; reflexivity.
          * replace (j =? k) with false by lia.
            destruct (k <? i) eqn:E4.
            -- replace (i <=? k) with false by lia. replace (j <=? k) with false by lia.
               destruct fi, fj; cbn in *; inversion Hc; subst; reflexivity.
            -- replace (i <=? k) with true by lia. replace (j <=? k) with true by lia.
               destruct fi, fj; cbn in *; inversion Hc; subst; reflexivity. }
    destruct (term_machinery_correct term Hp) as [H1 H2].
    split; [exact H1|].
    intros ks Hnd Hi Hj. rewrite H2; [exact Hsign | exact Hnd |].
    intros t [<-|[<-|[]]]; assumption.
Qed.

(* ---------- MPS._term_to_ops_list: the flag has_extra_JW and the appended strings (all terms, all three JW_from_right) ---------- *)
Lemma tol_fold_flag : forall imin term st,
  snd (fold_left (tol_step true imin) term st) = xorb (snd st) (total_parity term).
Proof.
  intros imin term. induction term as [|t r IH]; intros st.
  - cbn. rewrite xorb_false_r. reflexivity.
  - cbn [fold_left]. rewrite IH.
    unfold total_parity. cbn [fold_right]. fold (total_parity r).
    unfold tol_step. cbn [andb]. destruct (it_f t); cbn [snd]; destruct (snd st), (total_parity r); reflexivity.
Qed.

Lemma term_to_ops_list_flag : forall term jfr,
  let from_right := match jfr with Some b => b | None => total_parity term end in
  snd (term_to_ops_list term true jfr) =
    match jfr with Some b => xorb (total_parity term) b | None => total_parity term end /\
  fst (fst (term_to_ops_list term true jfr)) =
    (if from_right then map (fun w => w ++ [JWl]) (fst (fst (term_to_ops_list term true (Some false))))
     else fst (fst (term_to_ops_list term true (Some false)))) /\
  snd (fst (term_to_ops_list term true jfr)) = min_site term.
Proof.
  intros term jfr. unfold term_to_ops_list. cbv zeta. cbn [fst snd].
  rewrite !tol_fold_flag. cbn [snd]. rewrite xorb_false_l.
  destruct jfr as [[|]|]; cbn [fst snd]; repeat split; try reflexivity.
Qed.
