(* Non-vacuity of the program theorems (Proofs/TensorProgP.v): a 9-step history on a U(1) x Z_2 tensor with unsorted blocks and
   nonzero total charge, using transposition, an in-place conjugation, a contraction, an addition with aliased operands, an outer
   product re-using an earlier result, a slice, an in-place iswapaxes, a gauge_total_charge that flips the direction of a leg, and an
   in-place scaling by zero that overwrites the initial tensor. *)
From TenpyV Require Import Base.Prelude Model.Charge Model.Tensor Model.TensorOps Model.TensorDot Model.TakeSlice Model.TensorProg.
From TenpyV Require Import Proofs.ChargeP Proofs.TensorP Proofs.TensorP2 Proofs.TensorP3 Proofs.TensorDotP Proofs.TakeSliceP.
From TenpyV Require Import Proofs.TensorProgP.
Open Scope Z_scope.

Definition ep_ci : chinfo := [1; 2].
Definition ep_l1 : leg := mkLeg [1%nat; 2%nat] [[1; 1]; [2; 0]] 1.
Definition ep_l2 : leg := mkLeg [2%nat; 1%nat] [[0; 1]; [1; 0]] (-1).
Definition ep_a : arr :=
  mkArr [ep_l1; ep_l2] [1; 0]
        [([1%nat; 1%nat], fun i => (Z.of_nat (nth 0 i 0%nat) + 2, -1)); ([0%nat; 0%nat], fun i => (Z.of_nat (nth 1 i 0%nat) + 1, 2))]
        false.
(*  t = a.transpose([1, 0]);  t.iconj();  d = tensordot(a, t, 1);  s = d + 1j * d;  o = outer(s, a);  u = o.take_slice(2, 1);
    u.iswapaxes(0, 2);  g = d.gauge_total_charge(1, [5, 1], +1);  a = 0 * u  *)
Definition ep_prog : list instr :=
  [(OTranspose 0 [1%nat; 0%nat], None); (OConj 1, Some 1%nat); (OTensordot 0 1 1, None); (OAdd 2 2 (0, 1), None);
   (OOuter 3 0, None); (OTakeSlice 4 1 2, None); (OSwapaxes 5 0 2, Some 5%nat); (OGauge 2 1 [5; 1] 1, None);
   (OScale 5 (0, 0), Some 0%nat)].

Lemma ep_valid : valid_ci ep_ci.
Proof. repeat constructor; lia. Qed.

Lemma ep_a_wf : Forall (WF ep_ci) [ep_a].
Proof.
  constructor; [|constructor]. constructor.
  - reflexivity.
  - intros r [<-|[<-|[]]]; reflexivity.
  - repeat constructor; cbn; intuition discriminate.
  - intros r [<-|[<-|[]]] j Hj; destruct j as [|[|j]]; cbn in Hj; try lia; vm_compute; reflexivity.
  - intros H. discriminate H.
Qed.

Lemma ep_applicable : applicable_prog ep_ci ep_prog [ep_a].
Proof.
  unfold ep_prog. cbn [applicable_prog fst snd applicable].
  repeat match goal with |- _ /\ _ => split end; try exact I;
    try (match goal with |- (_ < _)%nat => vm_compute; lia | |- (_ <= _)%nat => vm_compute; lia end).
  - exact (perm_swap 0%nat 1%nat []).
  - change (Forall2 (contractible ep_ci) [ep_l2] [conj_leg ep_l2]). repeat constructor; apply (contractible_conj ep_ci ep_l2).
  - reflexivity.
  - reflexivity.
  - vm_compute. repeat split; lia.
  - vm_compute. repeat split; try lia; try (right; reflexivity); try (left; reflexivity).
    + repeat constructor.
    + intros r [<-|[<-|[]]]; lia.
Qed.

Lemma ep_result :
  map (fun a => (map ind_len (legs a), qtot a, rows a, qsorted a)) (run ep_ci ep_prog [ep_a]) =
  [([3; 3; 3]%nat, [3; 0], [], true);
   ([3; 3]%nat, [-1; 0], [[1; 1]; [0; 0]]%nat, false);
   ([3; 3]%nat, [0; 0], [[0; 0]; [1; 1]]%nat, true);
   ([3; 3]%nat, [0; 0], [[0; 0]; [1; 1]]%nat, true);
   ([3; 3; 3; 3]%nat, [1; 0], [[0; 0; 1; 1]; [1; 1; 1; 1]; [0; 0; 0; 0]; [1; 1; 0; 0]]%nat, false);
   ([3; 3; 3]%nat, [3; 0], [[1; 1; 1]; [0; 0; 1]]%nat, false);
   ([3; 3]%nat, [5; 1], [[0; 0]; [1; 1]]%nat, true)] /\
  map (to_ndarray (get (run ep_ci ep_prog [ep_a]) 5)) [[2; 1; 1]; [2; 2; 2]; [1; 0; 0]]%nat = [(22, 4); (40, 20); (0, 0)] /\
  map (snd (dget (d_run ep_prog (map to_dense [ep_a])) 5)) [[2; 1; 1]; [2; 2; 2]; [1; 0; 0]]%nat = [(22, 4); (40, 20); (0, 0)] /\
  map (to_ndarray (get (run ep_ci ep_prog [ep_a]) 6)) [[0; 0]; [1; 2]; [2; 2]]%nat = [(13, 0); (7, -1); (10, 0)] /\
  map (snd (dget (d_run ep_prog (map to_dense [ep_a])) 6)) [[0; 0]; [1; 2]; [2; 2]]%nat = [(13, 0); (7, -1); (10, 0)] /\
  map (fun l => (bch l, qc l)) (legs (get (run ep_ci ep_prog [ep_a]) 6)) = [([[1; 1]; [2; 0]], 1); ([[4; 0]; [3; 1]], 1)] /\
  map fst (d_run ep_prog (map to_dense [ep_a])) = [[3; 3; 3]; [3; 3]; [3; 3]; [3; 3]; [3; 3; 3; 3]; [3; 3; 3]; [3; 3]]%nat.
Proof. vm_compute. repeat split; reflexivity. Qed.
