(* Proofs about Model/Store.v: frame properties of the heap transformers. *)
From TenpyV Require Import Base.Prelude Model.Store.
Open Scope nat_scope.

(* ---- lists as heaps *)
Lemma upd_length {A} (l : list A) : forall i v, length (upd l i v) = length l.
Proof. induction l as [|x t IH]; intros [|i] v; cbn [upd length]; auto. Qed.

Lemma nth_upd_other {A} (l : list A) : forall i j v d, j <> i -> nth j (upd l i v) d = nth j l d.
Proof.
  induction l as [|x t IH]; intros i j v d Hne.
  - destruct i; reflexivity.
  - destruct i as [|i]; destruct j as [|j]; cbn [upd nth]; try reflexivity; try lia.
    apply IH. lia.
Qed.

Lemma nth_upd_same {A} (l : list A) : forall i v d, i < length l -> nth i (upd l i v) d = v.
Proof.
  induction l as [|x t IH]; intros i v d Hi; cbn [length] in Hi; [lia|].
  destruct i as [|i]; cbn [upd nth]; [reflexivity|]. apply IH. lia.
Qed.

Lemma write_all_length ids f : forall bs, length (write_all ids f bs) = length bs.
Proof. induction ids as [|i t IH]; intros bs; cbn [write_all]; [reflexivity|]. rewrite IH, upd_length. reflexivity. Qed.

Lemma write_all_other ids f : forall bs j, ~ In j ids -> nth j (write_all ids f bs) [] = nth j bs [].
Proof.
  induction ids as [|i t IH]; intros bs j Hj; cbn [write_all]; [reflexivity|].
  rewrite IH by (intros H; apply Hj; right; exact H).
  apply nth_upd_other. intros ->. apply Hj. left. reflexivity.
Qed.

Lemma write_zip_length ids : forall vals g bs, length (write_zip ids vals g bs) = length bs.
Proof.
  induction ids as [|i t IH]; intros [|v vt] g bs; cbn [write_zip]; try reflexivity.
  rewrite IH, upd_length. reflexivity.
Qed.

Lemma write_zip_other ids : forall vals g bs j, ~ In j ids -> nth j (write_zip ids vals g bs) [] = nth j bs [].
Proof.
  induction ids as [|i t IH]; intros [|v vt] g bs j Hj; cbn [write_zip]; try reflexivity.
  rewrite IH by (intros H; apply Hj; right; exact H).
  apply nth_upd_other. intros ->. apply Hj. left. reflexivity.
Qed.

(* ---- h' keeps every old cell of h, except buffers listed in W *)
Definition keeps (h h' : heap) (W : list nat) : Prop :=
  (forall i, i < length (bufs h) -> ~ In i W -> nth i (bufs h') [] = nth i (bufs h) []) /\
  (forall i, i < length (tabs h) -> nth i (tabs h') [] = nth i (tabs h) []) /\
  (forall i, i < length (legs h) -> nth i (legs h') dleg = nth i (legs h) dleg).

Lemma denote_arr_keeps h h' W a :
  keeps h h' W -> wf_arr h a -> (forall i, In i (blk a) -> ~ In i W) ->
  denote_arr h' a = denote_arr h a.
Proof.
  intros [Hb [Ht Hl]] [Wb [Wt Wl]] Hdis. unfold denote_arr.
  rewrite Forall_forall in Wb, Wl.
  assert (H1 : map (buf h') (blk a) = map (buf h) (blk a)).
  { apply map_ext_in. intros i Hi. unfold buf. apply Hb; [apply Wb, Hi|apply Hdis, Hi]. }
  assert (H2 : nth (tab a) (tabs h') [] = nth (tab a) (tabs h) []) by (apply Ht, Wt).
  assert (H3 : map (fun i => nth i (legs h') dleg) (lg a) = map (fun i => nth i (legs h) dleg) (lg a)).
  { apply map_ext_in. intros i Hi. apply Hl, Wl, Hi. }
  rewrite H1, H2, H3. reflexivity.
Qed.

Lemma wf_obj h x : wf h -> x < length (objs h) -> wf_arr h (obj h x).
Proof. intros Hwf Hx. unfold wf in Hwf. rewrite Forall_forall in Hwf. apply Hwf. unfold obj. apply nth_In, Hx. Qed.

Lemma denote_keeps h h' W x :
  keeps h h' W -> wf h -> x < length (objs h) -> obj h' x = obj h x ->
  (forall i, In i (blk (obj h x)) -> ~ In i W) -> denote h' x = denote h x.
Proof.
  intros Hk Hwf Hx Ho Hdis. unfold denote. rewrite Ho.
  apply (denote_arr_keeps h h' W); [exact Hk|apply wf_obj; assumption|exact Hdis].
Qed.

(* growing the heap keeps everything *)
Lemma keeps_grow h nb nt nl os W :
  keeps h (mkHeap (bufs h ++ nb) (tabs h ++ nt) (legs h ++ nl) os) W.
Proof.
  repeat split; intros i Hi; intros; cbn [bufs tabs legs]; apply app_nth1; exact Hi.
Qed.

Lemma keeps_grow2 h nb nt os W :
  keeps h (mkHeap (bufs h ++ nb) (tabs h ++ nt) (legs h) os) W.
Proof.
  repeat split; intros i Hi; intros; cbn [bufs tabs legs]; try reflexivity; apply app_nth1; exact Hi.
Qed.

Lemma fresh_not_old h a n i : wf_arr h a -> In i (blk a) -> ~ In i (fresh_ids (length (bufs h)) n).
Proof.
  intros [Wb _] Hi Hin. rewrite Forall_forall in Wb. specialize (Wb i Hi).
  unfold fresh_ids in Hin. apply in_seq in Hin. lia.
Qed.

Lemma obj_add_old h a x : x < length (objs h) -> obj (add_obj h a) x = obj h x.
Proof. intros Hx. unfold obj, add_obj. cbn [objs]. apply app_nth1, Hx. Qed.

Lemma obj_set_other h r a x : x <> r -> obj (set_obj h r a) x = obj h x.
Proof. intros Hx. unfold obj, set_obj. cbn [objs]. apply nth_upd_other, Hx. Qed.

(* ---- the central frame theorem: a tensor outside may_change keeps its value *)
Lemma frame_may_change h o x :
  wf h -> x < length (objs h) -> ~ In x (may_change h o) ->
  denote (fst (exec h o)) x = denote h x.
Proof.
  intros Hwf Hx Hnot.
  pose proof (wf_obj h x Hwf Hx) as Hwx.
  destruct o as [nb lgs|deep r|r f|r b g|r f gt perm|r gt perm|r f gt newlegs|r f|r f|a b g|a b pa pb F];
    unfold may_change in Hnot; cbn [inplace_receiver writes_buffers] in Hnot.
  - (* ONew *)
    cbn [exec fst]. apply (denote_keeps h _ []); auto.
    + apply keeps_grow2.
    + unfold obj. cbn [objs]. apply app_nth1, Hx.
  - (* OCopy *)
    destruct deep; cbn [exec deep_copy fst].
    + apply (denote_keeps h _ []); auto.
      * unfold add_obj. cbn [bufs tabs legs objs]. apply keeps_grow2.
      * unfold obj, add_obj. cbn [objs]. apply app_nth1, Hx.
    + apply (denote_keeps h _ []); auto.
      * unfold add_obj. repeat split; intros; reflexivity.
      * apply obj_add_old. exact Hx.
  - (* OMapWrite: in place into the receiver's buffers *)
    cbn [exec fst].
    assert (Hxr : x <> r /\ shares_buffer h x r = false).
    { destruct (Nat.eqb x r) eqn:E1; destruct (shares_buffer h x r) eqn:E2; try (split; [apply Nat.eqb_neq; exact E1|reflexivity]);
        exfalso; apply Hnot; apply filter_In; (split; [apply in_seq; lia|rewrite E1, E2; reflexivity]). }
    destruct Hxr as [_ Hsh].
    apply (denote_keeps h _ (blk (obj h r))); auto.
    + repeat split; intros i Hi; intros; cbn [bufs tabs legs]; try reflexivity.
      apply write_all_other. assumption.
    + intros i Hi Hin. unfold shares_buffer in Hsh.
      assert (Hc : existsb (fun i0 => existsb (Nat.eqb i0) (blk (obj h r))) (blk (obj h x)) = true).
      { apply existsb_exists. exists i. split; [exact Hi|]. apply existsb_exists. exists i. split; [exact Hin|apply Nat.eqb_refl]. }
      rewrite Hc in Hsh. discriminate.
  - (* OBinWrite *)
    cbn [exec fst].
    assert (Hsh : shares_buffer h x r = false).
    { destruct (Nat.eqb x r) eqn:E1; destruct (shares_buffer h x r) eqn:E2; try reflexivity;
        exfalso; apply Hnot; apply filter_In; (split; [apply in_seq; lia|rewrite E1, E2; reflexivity]). }
    apply (denote_keeps h _ (blk (obj h r))); auto.
    + repeat split; intros i Hi; intros; cbn [bufs tabs legs]; try reflexivity.
      apply write_zip_other. assumption.
    + intros i Hi Hin. unfold shares_buffer in Hsh.
      assert (Hc : existsb (fun i0 => existsb (Nat.eqb i0) (blk (obj h r))) (blk (obj h x)) = true).
      { apply existsb_exists. exists i. split; [exact Hi|]. apply existsb_exists. exists i. split; [exact Hin|apply Nat.eqb_refl]. }
      rewrite Hc in Hsh. discriminate.
  - (* OMapRebind: fresh buffers bound to the receiver only *)
    assert (Hxr : x <> r) by (intros ->; apply Hnot; left; reflexivity).
    cbn [exec rebind fst].
    apply (denote_keeps h _ []); auto.
    + unfold set_obj. cbn [bufs tabs legs]. apply keeps_grow2.
    + rewrite obj_set_other by exact Hxr. reflexivity.
  - (* OMeta *)
    assert (Hxr : x <> r) by (intros ->; apply Hnot; left; reflexivity).
    cbn [exec fst].
    apply (denote_keeps h _ []); auto.
    + repeat split; intros i Hi; intros; cbn [bufs tabs legs set_obj]; try reflexivity. apply app_nth1, Hi.
    + rewrite obj_set_other by exact Hxr. reflexivity.
  - (* OProject *)
    assert (Hxr : x <> r) by (intros ->; apply Hnot; left; reflexivity).
    cbn [exec fst].
    apply (denote_keeps h _ []); auto.
    + unfold set_obj. cbn [bufs tabs legs]. apply keeps_grow.
    + rewrite obj_set_other by exact Hxr. reflexivity.
  - (* OUnary: deep copy, then in place on the copy *)
    cbn [exec deep_copy fst].
    set (ids := fresh_ids (length (bufs h)) (length (map (buf h) (blk (obj h r))))).
    apply (denote_keeps h _ ids); auto.
    + repeat split; intros i Hi; intros; cbn [bufs tabs legs add_obj blk]; try reflexivity;
        try (rewrite write_all_other by assumption); apply app_nth1, Hi.
    + unfold obj. cbn [objs add_obj]. apply app_nth1, Hx.
    + intros i Hi. apply (fresh_not_old h (obj h x)); assumption.
  - (* OScaleAxis *)
    cbn [exec rebind fst].
    apply (denote_keeps h _ []); auto.
    + unfold add_obj. cbn [bufs tabs legs objs]. apply keeps_grow2.
    + unfold obj, add_obj. cbn [objs]. apply app_nth1, Hx.
  - (* OAdd *)
    cbn [exec deep_copy fst].
    set (ids := fresh_ids (length (bufs h)) (length (map (buf h) (blk (obj h a))))).
    apply (denote_keeps h _ ids); auto.
    + repeat split; intros i Hi; intros; cbn [bufs tabs legs add_obj blk]; try reflexivity;
        try (rewrite write_zip_other by assumption); apply app_nth1, Hi.
    + unfold obj. cbn [objs add_obj]. apply app_nth1, Hx.
    + intros i Hi. apply (fresh_not_old h (obj h x)); assumption.
  - (* OTensordot *)
    cbn [exec rebind].
    destruct (F _ _) as [rb rt]. cbn [fst].
    apply (denote_keeps h _ []); auto.
    + repeat split; intros i Hi; intros; cbn [bufs tabs legs add_obj set_obj]; try reflexivity;
        repeat (rewrite app_nth1 by (repeat rewrite app_length; cbn [length]; lia)); reflexivity.
    + unfold obj. cbn [objs add_obj set_obj].
      rewrite app_nth1 by (rewrite upd_length, app_length, upd_length, app_length; lia).
      rewrite nth_upd_other by lia.
      rewrite app_nth1 by (rewrite upd_length, app_length; lia).
      rewrite nth_upd_other by lia.
      apply app_nth1, Hx.
Qed.

(* ---- LegCharge objects are never written: every operation only appends to `legs` *)
Lemma legs_immutable h o i : i < length (legs h) ->
  nth i (legs (fst (exec h o))) dleg = nth i (legs h) dleg.
Proof.
  intros Hi.
  destruct o as [nb lgs|deep r|r f|r b g|r f gt perm|r gt perm|r f gt newlegs|r f|r f|a b g|a b pa pb F];
    try (cbn [exec deep_copy rebind fst legs add_obj set_obj]; reflexivity).
  - destruct deep; cbn [exec deep_copy fst legs add_obj]; reflexivity.
  - cbn [exec fst legs set_obj]. apply app_nth1, Hi.
  - cbn [exec rebind]. destruct (F _ _) as [rb rt]. cbn [fst legs add_obj set_obj]. reflexivity.
Qed.

(* ---- deep copies *)
Lemma wf_arr_grow h a nb nt nl os :
  wf_arr h a -> wf_arr (mkHeap (bufs h ++ nb) (tabs h ++ nt) (legs h ++ nl) os) a.
Proof.
  intros [Wb [Wt Wl]]. unfold wf_arr. cbn [bufs tabs legs]. rewrite !app_length.
  repeat split.
  - eapply Forall_impl; [|exact Wb]. cbn beta. intros; lia.
  - lia.
  - eapply Forall_impl; [|exact Wl]. cbn beta. intros; lia.
Qed.

Lemma wf_deep_copy h r : wf h -> r < length (objs h) -> wf (fst (exec h (OCopy true r))).
Proof.
  intros Hwf Hr. cbn [exec deep_copy fst]. unfold wf, add_obj. cbn [objs].
  apply Forall_app. split.
  - unfold wf in Hwf. eapply Forall_impl; [|exact Hwf]. intros a Ha.
    rewrite <- (app_nil_r (legs h)). apply (wf_arr_grow h a _ _ [] _ Ha).
  - constructor; [|constructor].
    pose proof (wf_obj h r Hwf Hr) as [Wb [Wt Wl]].
    unfold wf_arr. cbn [bufs tabs legs blk tab lg]. rewrite !app_length, map_length. cbn [length].
    repeat split.
    + apply Forall_forall. intros i Hi. unfold fresh_ids in Hi. apply in_seq in Hi. lia.
    + lia.
    + exact Wl.
Qed.

Lemma map_nth_fresh (bs l : list (list Z)) :
  map (buf (mkHeap (bs ++ l) [] [] [])) (seq (length bs) (length l)) = l.
Proof.
  apply nth_ext with (d := buf (mkHeap (bs ++ l) [] [] []) 0) (d' := []).
  - rewrite map_length, seq_length. reflexivity.
  - intros n Hn. rewrite map_length, seq_length in Hn.
    rewrite map_nth, seq_nth by exact Hn.
    unfold buf. cbn [bufs]. rewrite app_nth2 by lia. f_equal. lia.
Qed.

Lemma deep_copy_same_value h r : wf h -> r < length (objs h) ->
  denote (fst (exec h (OCopy true r))) (length (objs h)) = denote h r.
Proof.
  intros Hwf Hr. pose proof (wf_obj h r Hwf Hr) as [Wb [Wt Wl]].
  cbn [exec deep_copy fst]. unfold denote, obj, add_obj. cbn [objs].
  rewrite app_nth2, Nat.sub_diag by lia. cbn [nth].
  unfold denote_arr. cbn [blk tab lg lab qt bufs tabs legs].
  rewrite app_nth2, Nat.sub_diag by lia. cbn [nth].
  f_equal. f_equal. f_equal. f_equal.
  unfold fresh_ids. apply (map_nth_fresh (bufs h) (map (buf h) (blk (nth r (objs h) darr)))).
Qed.

Lemma deep_copy_disjoint h r : wf h -> r < length (objs h) ->
  let h1 := fst (exec h (OCopy true r)) in
  shares_buffer h1 r (length (objs h)) = false /\ shares_buffer h1 (length (objs h)) r = false.
Proof.
  intros Hwf Hr h1. pose proof (wf_obj h r Hwf Hr) as [Wb [Wt Wl]]. rewrite Forall_forall in Wb.
  assert (Hr1 : obj h1 r = obj h r).
  { unfold h1. cbn [exec deep_copy fst]. unfold obj, add_obj. cbn [objs]. apply app_nth1, Hr. }
  assert (Hc1 : blk (obj h1 (length (objs h))) = fresh_ids (length (bufs h)) (length (blk (obj h r)))).
  { unfold h1. cbn [exec deep_copy fst]. unfold obj at 1, add_obj. cbn [objs].
    rewrite app_nth2, Nat.sub_diag by lia. cbn [nth blk]. rewrite map_length. reflexivity. }
  unfold shares_buffer. rewrite Hr1, Hc1. split.
  - apply not_true_is_false. intros H. apply existsb_exists in H. destruct H as [i [Hi H]].
    apply existsb_exists in H. destruct H as [j [Hj Hij]]. apply Nat.eqb_eq in Hij. subst j.
    unfold fresh_ids in Hj. apply in_seq in Hj. specialize (Wb i Hi). lia.
  - apply not_true_is_false. intros H. apply existsb_exists in H. destruct H as [i [Hi H]].
    apply existsb_exists in H. destruct H as [j [Hj Hij]]. apply Nat.eqb_eq in Hij. subst j.
    unfold fresh_ids in Hi. apply in_seq in Hi. specialize (Wb i Hj). lia.
Qed.

Lemma not_in_may_change h o r x : inplace_receiver o = Some r -> x < length (objs h) ->
  x <> r -> shares_buffer h x r = false -> ~ In x (may_change h o).
Proof.
  intros Hrec Hx Hne Hsh. unfold may_change. rewrite Hrec.
  destruct (writes_buffers o).
  - intros Hin. apply filter_In in Hin. destruct Hin as [_ Hin].
    apply Nat.eqb_neq in Hne. rewrite Hne, Hsh in Hin. discriminate.
  - intros [Hin|[]]. congruence.
Qed.

Lemma deepcopy_independent h a : wf h -> a < length (objs h) ->
  let h1 := fst (exec h (OCopy true a)) in
  let c := length (objs h) in
  denote h1 c = denote h a /\
  (forall o, inplace_receiver o = Some c -> denote (fst (exec h1 o)) a = denote h a) /\
  (forall o, inplace_receiver o = Some a -> denote (fst (exec h1 o)) c = denote h1 c).
Proof.
  intros Hwf Ha h1 c.
  pose proof (wf_deep_copy h a Hwf Ha) as Hwf1. fold h1 in Hwf1.
  pose proof (deep_copy_disjoint h a Hwf Ha) as [Hd1 Hd2]. fold h1 in Hd1, Hd2. fold c in Hd1, Hd2.
  assert (Hlen : length (objs h1) = S (length (objs h))).
  { unfold h1. cbn [exec deep_copy fst]. unfold add_obj. cbn [objs]. rewrite app_length. cbn [length]. lia. }
  assert (Hkeep : denote h1 a = denote h a).
  { unfold h1. apply frame_may_change; [exact Hwf|exact Ha|]. cbn. tauto. }
  split; [apply deep_copy_same_value; assumption|]. split.
  - intros o Ho. rewrite <- Hkeep. apply frame_may_change; [exact Hwf1|lia|].
    apply (not_in_may_change h1 o c a Ho); [lia|unfold c; lia|exact Hd1].
  - intros o Ho. apply frame_may_change; [exact Hwf1|unfold c; lia|].
    apply (not_in_may_change h1 o a c Ho); [unfold c; lia|unfold c; lia|exact Hd2].
Qed.

(* ---- the looseness of the specification of shallow copies is real: a write into the buffers of a
   shallow copy IS visible through the other reference (compiled iscale_prefactor), a rebinding method is not *)
Lemma shallow_copy_visibility :
  let h0 := fst (exec (mkHeap [] [] [dleg] []) (ONew 1 [0])) in
  let h1 := fst (exec h0 (OCopy false 0)) in
  denote (fst (exec h1 (OMapWrite 1 dbl))) 0 <> denote h1 0 /\
  denote (fst (exec h1 (OMapRebind 1 dbl (fun t => t) [0]))) 0 = denote h1 0.
Proof. vm_compute. split; [discriminate|reflexivity]. Qed.
