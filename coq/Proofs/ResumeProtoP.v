(* C18: the checkpoint / measurement protocol (Model/ResumeProto.v): resuming from any snapshot
   reproduces the records of the uninterrupted run. *)
From TenpyV Require Import Base.Prelude Model.ResumeProto.

Lemma iter_add c a : forall b s, p_iter c (a + b) s = p_iter c b (p_iter c a s).
Proof. induction a as [|a IH]; intros b s; [reflexivity|]. cbn [Nat.add p_iter]. apply IH. Qed.

Lemma iter_step c k : forall s, p_step c (p_iter c k s) = p_iter c (S k) s.
Proof. induction k as [|k IH]; intro s; [reflexivity|]. cbn [p_iter] in *. apply IH. Qed.

Lemma done_step c s : is_done s = true -> p_step c s = s.
Proof.
  destruct s as [pc t a r g]. unfold is_done. cbn [s_pc]. destruct pc; try discriminate.
  intros _. unfold p_step. destruct (c_kind c); reflexivity.
Qed.

Lemma done_iter c n : forall s, is_done s = true -> p_iter c n s = s.
Proof. induction n as [|n IH]; intros s H; [reflexivity|]. cbn [p_iter]. rewrite (done_step c s H). apply IH, H. Qed.

Lemma iter_done c m n s : is_done (p_iter c m s) = true -> m <= n -> p_iter c n s = p_iter c m s.
Proof.
  intros H Hle. replace n with (m + (n - m)) by lia. rewrite iter_add. apply done_iter, H.
Qed.

(* invariant: when a ground-state search is at its checkpoint, the stopping criterion was false *)
Definition inv (c : pcfg) (s : pst) : Prop :=
  match c_kind c, s_pc s with
  | GS, PCkpt => (c_T c <? s_t s) = false
  | GS, PSaved => (c_T c <? s_t s) = false
  | _, _ => True
  end.

Lemma inv_step c s : inv c s -> inv c (p_step c s).
Proof.
  destruct s as [pc t a r g]. unfold inv, p_step. cbn [s_pc s_t].
  destruct (c_kind c); destruct pc; cbn [s_pc s_t]; intro H;
    repeat match goal with |- context [if ?b then _ else _] => destruct b eqn:? end;
    cbn [s_pc s_t]; try exact I; try assumption.
Qed.

Lemma inv_iter c k : forall s, inv c s -> inv c (p_iter c k s).
Proof. induction k as [|k IH]; intros s H; [exact H|]. cbn [p_iter]. apply IH, inv_step, H. Qed.

Lemma inv_init c : inv c p_init.
Proof. unfold inv, p_init. cbn. destruct (c_kind c); exact I. Qed.

(* the guard of group_sites_for_algorithm is idempotent on what a fresh run produced: a psi loaded from a
   checkpoint (already grouped group_sites times) is NOT grouped again *)
Lemma g_enter_idem gs : g_enter true gs (g_enter false gs []) = g_enter false gs [].
Proof.
  unfold g_enter. destruct (1 <? gs) eqn:E; [|reflexivity].
  cbn [negb orb prod_nat fold_right].
  rewrite Nat.mul_1_r, Nat.ltb_irrefl. reflexivity.
Qed.

Lemma g_enter_fresh_prod gs : 1 <= gs -> prod_nat (g_enter false gs []) = gs.
Proof.
  intro H. unfold g_enter. destruct (1 <? gs) eqn:E; cbn [negb orb prod_nat fold_right].
  - lia.
  - apply Nat.ltb_ge in E. lia.
Qed.

Lemma g_split_fresh gs : g_split gs (g_enter false gs []) = [].
Proof. unfold g_split, g_enter. destruct (1 <? gs); reflexivity. Qed.

(* grouping invariant: between the initialisation and the final group_split, psi carries exactly the
   grouping that group_sites_for_algorithm of a fresh run applies to an ungrouped state *)
Definition ginv (c : pcfg) (s : pst) : Prop :=
  match s_pc s with
  | PInit => s_g s = []
  | PDone => s_g s = []
  | _ => s_g s = g_enter false (c_group c) []
  end.

Lemma ginv_step c s : ginv c s -> ginv c (p_step c s).
Proof.
  destruct s as [pc t a r g]. unfold ginv, p_step. cbn [s_pc s_g].
  destruct (c_kind c); destruct pc; cbn [s_pc s_g]; intro H;
    repeat match goal with |- context [if ?b then _ else _] => destruct b eqn:? end;
    cbn [s_pc s_g]; try exact I; try assumption; try (rewrite H; reflexivity);
    try (rewrite H; apply g_split_fresh).
Qed.

Lemma ginv_iter c k : forall s, ginv c s -> ginv c (p_iter c k s).
Proof. induction k as [|k IH]; intros s H; [exact H|]. cbn [p_iter]. apply IH, ginv_step, H. Qed.

Lemma ginv_init c : ginv c p_init.
Proof. reflexivity. Qed.

Lemma snapshot_pc c s : at_snapshot c s = true -> s_pc s = PMeasured \/ s_pc s = PSaved.
Proof. unfold at_snapshot. destruct (c_kind c); destruct (s_pc s); try discriminate; auto. Qed.

Lemma snapshot_g c s : ginv c s -> at_snapshot c s = true -> s_g s = g_enter false (c_group c) [].
Proof. intros Hg Hs. unfold ginv in Hg. destruct (snapshot_pc c s Hs) as [E|E]; rewrite E in Hg; exact Hg. Qed.

Lemma resume_g c s : ginv c s -> at_snapshot c s = true -> g_enter true (c_group c) (s_g s) = s_g s.
Proof. intros Hg Hs. rewrite (snapshot_g c s Hg Hs). apply g_enter_idem. Qed.

(* resume with everything restored *)
Definition resume_full (s : pst) : pst := mkSt (PHead true) (s_t s) (s_acc s) (s_recs s) (s_g s).

Lemma resume_full_step c s : inv c s -> at_snapshot c s = true ->
  p_step c (resume_full s) = match c_kind c with TE => p_step c (p_step c s) | GS => p_step c s end.
Proof.
  destruct s as [pc t a r g]. unfold inv, at_snapshot, resume_full, p_step. cbn [s_pc s_t s_acc s_recs s_g].
  destruct (c_kind c); destruct pc; try discriminate; intros Hi _.
  - reflexivity.
  - rewrite Hi. reflexivity.
Qed.

Lemma init_not_done : is_done p_init = false.
Proof. reflexivity. Qed.

Lemma resume_full_equal c k m :
  at_snapshot c (p_iter c k p_init) = true ->
  is_done (p_iter c m p_init) = true ->
  p_iter c m (resume_full (p_iter c k p_init)) = p_iter c m p_init.
Proof.
  intros Hs Hd. destruct m as [|m]; [cbn in Hd; discriminate|].
  cbn [p_iter]. rewrite (resume_full_step c _ (inv_iter c k _ (inv_init c)) Hs).
  destruct (c_kind c).
  - rewrite !iter_step, <- iter_add. apply (iter_done c (S m)); [exact Hd|lia].
  - rewrite iter_step, <- iter_add. apply (iter_done c (S m)); [exact Hd|lia].
Qed.

(* what does not depend on the accumulated error: control, time, the time component of the records *)
Definition esame (s1 s2 : pst) : Prop :=
  s_pc s1 = s_pc s2 /\ s_t s1 = s_t s2 /\ times s1 = times s2 /\ s_g s1 = s_g s2.

Lemma esame_step c s1 s2 : esame s1 s2 -> esame (p_step c s1) (p_step c s2).
Proof.
  destruct s1 as [pc1 t1 a1 r1 g1], s2 as [pc2 t2 a2 r2 g2]. unfold esame, times. cbn [s_pc s_t s_recs s_g].
  intros [Hpc [Ht [Hr Hg]]]. subst pc2 t2 g2. unfold p_step.
  destruct (c_kind c); destruct pc1; cbn [s_pc s_t s_recs s_g];
    try match goal with |- context [c_minit c] => destruct (c_minit c) end;
    rewrite ?map_app, ?Hr; cbn [map fst]; try (repeat split; reflexivity); try (repeat split; try reflexivity; exact Hr).
  - destruct (c_T c <=? t1); cbn [s_pc s_t s_recs s_g]; repeat split; try reflexivity; exact Hr.
  - destruct (c_T c <? t1); cbn [s_pc s_t s_recs s_g]; [repeat split; try reflexivity; exact Hr|].
    destruct first; cbn [s_pc s_t s_recs s_g]; repeat split; try reflexivity; exact Hr.
Qed.

Lemma esame_iter c n : forall s1 s2, esame s1 s2 -> esame (p_iter c n s1) (p_iter c n s2).
Proof. induction n as [|n IH]; intros s1 s2 H; [exact H|]. cbn [p_iter]. apply IH, esame_step, H. Qed.

Lemma esame_resume c s : ginv c s -> at_snapshot c s = true -> esame (p_resume c s) (resume_full s).
Proof.
  intros Hg Hs. unfold esame, p_resume, resume_full, times. cbn [s_pc s_t s_recs s_g].
  rewrite (resume_g c s Hg Hs). repeat split.
Qed.

Lemma resume_restored c s : ginv c s -> at_snapshot c s = true -> c_restore c = true -> p_resume c s = resume_full s.
Proof. intros Hg Hs H. unfold p_resume, resume_full. rewrite H, (resume_g c s Hg Hs). reflexivity. Qed.

(* main statements *)
Lemma resume_measurements c k m :
  at_snapshot c (p_iter c k p_init) = true ->
  is_done (p_iter c m p_init) = true ->
  let r := p_iter c m (p_resume c (p_iter c k p_init)) in
  is_done r = true /\ s_t r = s_t (p_iter c m p_init) /\ times r = times (p_iter c m p_init) /\
  s_g r = s_g (p_iter c m p_init) /\
  (c_restore c = true -> r = p_iter c m p_init).
Proof.
  intros Hs Hd r.
  pose proof (ginv_iter c k _ (ginv_init c)) as Hgi.
  pose proof (esame_iter c m _ _ (esame_resume c (p_iter c k p_init) Hgi Hs)) as [Hpc [Ht [Htm Hg]]].
  rewrite (resume_full_equal c k m Hs Hd) in Hpc, Ht, Htm, Hg.
  fold r in Hpc, Ht, Htm, Hg.
  split; [|split; [exact Ht|split; [exact Htm|split; [exact Hg|]]]].
  - unfold is_done in *. rewrite Hpc. exact Hd.
  - intro Hr. unfold r. rewrite (resume_restored c _ Hgi Hs Hr). apply resume_full_equal; assumption.
Qed.

(* the grouping across a resume: the psi of every snapshot carries the grouping of the fresh run (psi.grouped =
   group_sites), resuming leaves it unchanged (grouped exactly once, like the freshly built model), and every
   finished run - resumed or not - ends ungrouped *)
Lemma resume_grouping c k m :
  at_snapshot c (p_iter c k p_init) = true ->
  is_done (p_iter c m p_init) = true ->
  let s := p_iter c k p_init in
  s_g (p_resume c s) = s_g s /\ s_g s = g_enter false (c_group c) [] /\
  (1 <= c_group c -> prod_nat (s_g (p_resume c s)) = c_group c) /\
  s_g (p_iter c m p_init) = [] /\ s_g (p_iter c m (p_resume c s)) = [].
Proof.
  intros Hs Hd s.
  pose proof (ginv_iter c k _ (ginv_init c)) as Hgi. fold s in Hgi, Hs.
  assert (Hfin : s_g (p_iter c m p_init) = []).
  { destruct m as [|m]; [cbn in Hd; discriminate|].
    rewrite <- iter_step in *.
    pose proof (ginv_iter c m _ (ginv_init c)) as Hm.
    destruct (p_iter c m p_init) as [pc t a r g]. unfold ginv in Hm. cbn [s_pc s_g] in Hm.
    unfold p_step in *. destruct (c_kind c); destruct pc; cbn [s_pc s_g is_done] in *;
      repeat match goal with H : context [if ?b then _ else _] |- _ => destruct b eqn:? end;
      cbn [s_pc s_g is_done] in *; try discriminate; try exact Hm; try (rewrite Hm; apply g_split_fresh). }
  split; [|split; [|split; [|split]]].
  - unfold p_resume. cbn [s_g]. apply (resume_g c s Hgi Hs).
  - apply (snapshot_g c s Hgi Hs).
  - intro H1. unfold p_resume. cbn [s_g]. rewrite (resume_g c s Hgi Hs), (snapshot_g c s Hgi Hs).
    apply g_enter_fresh_prod, H1.
  - exact Hfin.
  - destruct (resume_measurements c k m Hs Hd) as [_ [_ [_ [Hg _]]]]. fold s in Hg. rewrite Hg. exact Hfin.
Qed.

(* the strictness of the guard matters: grouping a checkpoint's psi again (guard `<=`) would double the factor *)
Lemma regroup_doubles : prod_nat (2 :: g_enter false 2 []) = 4 /\ prod_nat (g_enter true 2 (g_enter false 2 [])) = 2.
Proof. split; reflexivity. Qed.

(* the faithful time-evolution protocol (trunc_err is not in the resume data): the error component
   of the records restarts after a resume *)
Lemma eps_error_not_resumed : exists c k m,
  c_kind c = TE /\ c_restore c = false /\
  at_snapshot c (p_iter c k p_init) = true /\ is_done (p_iter c m p_init) = true /\
  s_recs (p_iter c m (p_resume c (p_iter c k p_init))) <> s_recs (p_iter c m p_init).
Proof.
  exists (mkCfg TE 2 1 (fun _ => 1) false true 1), 3, 12.
  repeat split; try reflexivity. vm_compute. discriminate.
Qed.

(* the protocol is live: a uninterrupted run finishes (so the hypotheses above are satisfiable) *)
Lemma te_finishes : is_done (p_iter (mkCfg TE 3 2 (fun _ => 1) true true 1) 12 p_init) = true /\
                    times (p_iter (mkCfg TE 3 2 (fun _ => 1) true true 1) 12 p_init) = [0; 2; 4].
Proof. split; reflexivity. Qed.

Lemma gs_finishes : is_done (p_iter (mkCfg GS 3 1 (fun _ => 0) true true 1) 20 p_init) = true /\
                    times (p_iter (mkCfg GS 3 1 (fun _ => 0) true true 1) 20 p_init) = [0; 1; 2; 3; 4].
Proof. split; reflexivity. Qed.

(* with group_sites = 2 and without the initial measurement: the run finishes ungrouped; its second snapshot holds
   a psi with grouped = 2 *)
Lemma te_grouped_finishes :
  let c := mkCfg TE 3 2 (fun _ => 1) true false 2 in
  is_done (p_iter c 12 p_init) = true /\ times (p_iter c 12 p_init) = [2; 4] /\ s_g (p_iter c 12 p_init) = [] /\
  at_snapshot c (p_iter c 6 p_init) = true /\ s_g (p_iter c 6 p_init) = [2].
Proof. repeat split; reflexivity. Qed.
