(* C18: the checkpoint / measurement protocol (Model/ResumeProto.v): resuming from any snapshot
   reproduces the records of the uninterrupted run. *)
From TenpyV Require Import Base.Prelude Model.ResumeProto.

Lemma iter_add c a : forall b s, p_iter c (a + b) s = p_iter c b (p_iter c a s).
Proof. induction a as [|a IH]; intros b s; [reflexivity|]. cbn [Nat.add p_iter]. apply IH. Qed.

Lemma iter_step c k : forall s, p_step c (p_iter c k s) = p_iter c (S k) s.
Proof. induction k as [|k IH]; intro s; [reflexivity|]. cbn [p_iter] in *. apply IH. Qed.

Lemma done_step c s : is_done s = true -> p_step c s = s.
Proof.
  destruct s as [pc t a r]. unfold is_done. cbn [s_pc]. destruct pc; try discriminate.
  intros _. unfold p_step. destruct (c_kind c); reflexivity.
Qed.

Lemma done_iter c n : forall s, is_done s = true -> p_iter c n s = s.
Proof. induction n as [|n IH]; intros s H; [reflexivity|]. cbn [p_iter]. rewrite (done_step c s H). apply IH, H. Qed.

Lemma iter_done c m n s : is_done (p_iter c m s) = true -> m <= n -> p_iter c n s = p_iter c m s.
Proof.
  intros H Hle. replace n with (m + (n - m)) by lia. rewrite iter_add. apply done_iter, H.
Qed.

(* invariant: when a ground-state search is at its checkpoint, the stopping criterion was false *)
Definition inv (c : pcfg) (s : pst) : Prop :=
  match c_kind c, s_pc s with
  | GS, PCkpt => (c_T c <? s_t s) = false
  | GS, PSaved => (c_T c <? s_t s) = false
  | _, _ => True
  end.

Lemma inv_step c s : inv c s -> inv c (p_step c s).
Proof.
  destruct s as [pc t a r]. unfold inv, p_step. cbn [s_pc s_t].
  destruct (c_kind c); destruct pc; cbn [s_pc s_t]; intro H;
    repeat match goal with |- context [if ?b then _ else _] => destruct b eqn:? end;
    cbn [s_pc s_t]; try exact I; try assumption.
Qed.

Lemma inv_iter c k : forall s, inv c s -> inv c (p_iter c k s).
Proof. induction k as [|k IH]; intros s H; [exact H|]. cbn [p_iter]. apply IH, inv_step, H. Qed.

Lemma inv_init c : inv c p_init.
Proof. unfold inv, p_init. cbn. destruct (c_kind c); exact I. Qed.

(* resume with everything restored *)
Definition resume_full (s : pst) : pst := mkSt (PHead true) (s_t s) (s_acc s) (s_recs s).

Lemma resume_full_step c s : inv c s -> at_snapshot c s = true ->
  p_step c (resume_full s) = match c_kind c with TE => p_step c (p_step c s) | GS => p_step c s end.
Proof.
  destruct s as [pc t a r]. unfold inv, at_snapshot, resume_full, p_step. cbn [s_pc s_t s_acc s_recs].
  destruct (c_kind c); destruct pc; try discriminate; intros Hi _.
  - reflexivity.
  - rewrite Hi. reflexivity.
Qed.

Lemma init_not_done : is_done p_init = false.
Proof. reflexivity. Qed.

Lemma resume_full_equal c k m :
  at_snapshot c (p_iter c k p_init) = true ->
  is_done (p_iter c m p_init) = true ->
  p_iter c m (resume_full (p_iter c k p_init)) = p_iter c m p_init.
Proof.
  intros Hs Hd. destruct m as [|m]; [cbn in Hd; discriminate|].
  cbn [p_iter]. rewrite (resume_full_step c _ (inv_iter c k _ (inv_init c)) Hs).
  destruct (c_kind c).
  - rewrite !iter_step, <- iter_add. apply (iter_done c (S m)); [exact Hd|lia].
  - rewrite iter_step, <- iter_add. apply (iter_done c (S m)); [exact Hd|lia].
Qed.

(* what does not depend on the accumulated error: control, time, the time component of the records *)
Definition esame (s1 s2 : pst) : Prop := s_pc s1 = s_pc s2 /\ s_t s1 = s_t s2 /\ times s1 = times s2.

Lemma esame_step c s1 s2 : esame s1 s2 -> esame (p_step c s1) (p_step c s2).
Proof.
  destruct s1 as [pc1 t1 a1 r1], s2 as [pc2 t2 a2 r2]. unfold esame, times. cbn [s_pc s_t s_recs].
  intros [Hpc [Ht Hr]]. subst pc2 t2. unfold p_step.
  destruct (c_kind c); destruct pc1; cbn [s_pc s_t s_recs];
    rewrite ?map_app, ?Hr; cbn [map fst]; try (repeat split; reflexivity).
  - destruct (c_T c <=? t1); cbn [s_pc s_t s_recs]; repeat split; try reflexivity; exact Hr.
  - destruct (c_T c <? t1); cbn [s_pc s_t s_recs]; [repeat split; try reflexivity; exact Hr|].
    destruct first; cbn [s_pc s_t s_recs]; repeat split; try reflexivity; exact Hr.
Qed.

Lemma esame_iter c n : forall s1 s2, esame s1 s2 -> esame (p_iter c n s1) (p_iter c n s2).
Proof. induction n as [|n IH]; intros s1 s2 H; [exact H|]. cbn [p_iter]. apply IH, esame_step, H. Qed.

Lemma esame_resume c s : esame (p_resume c s) (resume_full s).
Proof. unfold esame, p_resume, resume_full, times. cbn. repeat split. Qed.

Lemma resume_restored c s : c_restore c = true -> p_resume c s = resume_full s.
Proof. intro H. unfold p_resume, resume_full. rewrite H. reflexivity. Qed.

(* main statements *)
Lemma resume_measurements c k m :
  at_snapshot c (p_iter c k p_init) = true ->
  is_done (p_iter c m p_init) = true ->
  let r := p_iter c m (p_resume c (p_iter c k p_init)) in
  is_done r = true /\ s_t r = s_t (p_iter c m p_init) /\ times r = times (p_iter c m p_init) /\
  (c_restore c = true -> r = p_iter c m p_init).
Proof.
  intros Hs Hd r.
  pose proof (esame_iter c m _ _ (esame_resume c (p_iter c k p_init))) as [Hpc [Ht Htm]].
  rewrite (resume_full_equal c k m Hs Hd) in Hpc, Ht, Htm.
  fold r in Hpc, Ht, Htm.
  split; [|split; [exact Ht|split; [exact Htm|]]].
  - unfold is_done in *. rewrite Hpc. exact Hd.
  - intro Hr. unfold r. rewrite (resume_restored c _ Hr). apply resume_full_equal; assumption.
Qed.

(* the faithful time-evolution protocol (trunc_err is not in the resume data): the error component
   of the records restarts after a resume *)
Lemma eps_error_not_resumed : exists c k m,
  c_kind c = TE /\ c_restore c = false /\
  at_snapshot c (p_iter c k p_init) = true /\ is_done (p_iter c m p_init) = true /\
  s_recs (p_iter c m (p_resume c (p_iter c k p_init))) <> s_recs (p_iter c m p_init).
Proof.
  exists (mkCfg TE 2 1 (fun _ => 1) false), 3, 12.
  repeat split; try reflexivity. vm_compute. discriminate.
Qed.

(* the protocol is live: a uninterrupted run finishes (so the hypotheses above are satisfiable) *)
Lemma te_finishes : is_done (p_iter (mkCfg TE 3 2 (fun _ => 1) true) 12 p_init) = true /\
                    times (p_iter (mkCfg TE 3 2 (fun _ => 1) true) 12 p_init) = [0; 2; 4].
Proof. split; reflexivity. Qed.

Lemma gs_finishes : is_done (p_iter (mkCfg GS 3 1 (fun _ => 0) true) 20 p_init) = true /\
                    times (p_iter (mkCfg GS 3 1 (fun _ => 0) true) 20 p_init) = [0; 1; 2; 3; 4].
Proof. split; reflexivity. Qed.
