(* A concrete structure satisfying the laws `amp_laws` of Model/Sample.v (non-vacuity of T08_sample_weights): amplitudes
   = canonical rationals Qc, theta = a rational number (bond dimension 1: a product state with real, possibly negative,
   amplitudes), norm = absolute value, theta[0,0] = the number itself (its sign is the "phase"). *)
From TenpyV Require Import Base.Prelude Model.Sample.
From Coq Require Import QArith Qcanon Qcabs.

Definition qc_one : Qc := 1%Qc.
Definition qc_frac (n : Z) (d : positive) : Qc := Q2Qc (Qmake n d).
Definition qc_pos (c : Qc) : Prop := (0 < c)%Qc.
Definition qc_abs2 (c : Qc) : Qc := (c * c)%Qc.
(* local amplitudes of the product state: site i, outcome s *)
Definition qc_amp (i s : Z) : Qc :=
  if (s =? 0)%Z then Q2Qc (3 # 5) else if (i mod 2 =? 0)%Z then Q2Qc (- 4 # 5) else Q2Qc (4 # 5).
Definition qc_proj (i s : Z) (v : Qc) : Qc := (v * qc_amp i s)%Qc.
Definition qc_attach (i : Z) (v : Qc) : Qc := v.

Lemma qc_inv_pos (a : Qc) : (0 < a)%Qc -> (0 < / a)%Qc.
Proof.
  intros H. unfold Qclt in *. unfold Qcinv. cbn [this Q2Qc] in *. change (Qred 0) with 0%Q in *.
  rewrite (Qred_correct (/ a)). apply Qinv_lt_0_compat. exact H.
Qed.

Lemma qc_laws :
  amp_laws Qc Qc (1%Qc) Qcmult Qcinv qc_abs2 qc_pos Qcabs Qcmult (fun v => v) qc_proj qc_attach.
Proof.
  constructor; unfold qc_pos, qc_abs2, qc_proj, qc_attach.
  - intros a b c. apply Qcmult_assoc.
  - intros a b. apply Qcmult_comm.
  - intros a. apply Qcmult_1_l.
  - intros a Ha. apply Qcmult_inv_l. intros E. subst a. apply (Qclt_not_eq _ _ Ha). reflexivity.
  - reflexivity.
  - intros a b Ha Hb. replace (0%Qc) with (0 * b)%Qc by ring. apply Qcmult_lt_compat_r; assumption.
  - intros a Ha. apply qc_inv_pos. exact Ha.
  - ring.
  - intros a b. ring.
  - intros v. apply Qcmult_1_l.
  - intros a b v. apply Qcmult_assoc.
  - intros c v Hc. rewrite Qcabs_Qcmult. rewrite (Qcabs_pos c) by (apply Qclt_le_weak; exact Hc). reflexivity.
  - intros c v. reflexivity.
  - intros i s c v. ring.
  - intros i c v. reflexivity.
Qed.

(* an outcome on 3 sites: joint norms 3/5, 12/25, 48/125, all positive; the amplitude itself is -48/125 * (-1) ... *)
Lemma qc_example_pos :
  Forall qc_pos (joint_norms Qc Qc Qcabs qc_proj qc_attach 0 (1%Qc) [0; 1; 1]%Z).
Proof.
  unfold joint_norms. cbn [raw_states map]. repeat constructor; unfold qc_pos, Qclt; vm_compute; reflexivity.
Qed.

Definition qc_weight := sample_weight Qc Qc qc_one Qcmult Qcinv qc_abs2 Qcabs Qcmult (fun v => v) qc_proj qc_attach.

(* outcome (0, 1, 1) on sites 0, 1, 2: local amplitudes 3/5, 4/5, -4/5 *)
Lemma qc_example_values :
  qc_weight true true 0%Z qc_one [0; 1; 1]%Z = qc_frac (-48) 125 /\
  qc_weight false true 0%Z qc_one [0; 1; 1]%Z = qc_frac 48 125 /\
  qc_weight false false 0%Z qc_one [0; 1; 1]%Z = qc_frac 2304 15625 /\
  qc_weight true false 0%Z qc_one [0; 1; 1]%Z = qc_frac 2304 15625.
Proof. repeat split; apply Qc_is_canon; vm_compute; reflexivity. Qed.
