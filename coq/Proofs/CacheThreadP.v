(* Proofs about Model/CacheThread.v (property C20: ThreadedStorage + Worker under every schedule). *)
From TenpyV Require Import Base.Prelude Model.Cache Proofs.CacheP Model.CacheThread.
Open Scope Z_scope.

(* ------------------------------------------------------------------ small facts *)
Lemma d_has_set k k' v d : d_has k' (d_set k v d) = (k' =? k) || d_has k' d.
Proof.
  unfold d_has. destruct (k' =? k) eqn:E.
  - replace k' with k by lia. rewrite d_get_set_eq. reflexivity.
  - rewrite d_get_set_neq by lia. reflexivity.
Qed.

Lemma d_has_del k k' d : d_has k' (d_del k d) = negb (k' =? k) && d_has k' d.
Proof. unfold d_has. rewrite d_get_del. destruct (k' =? k); reflexivity. Qed.

Lemma ks_mem_del k k' s : ks_mem k' (ks_del k s) = negb (k' =? k) && ks_mem k' s.
Proof.
  unfold ks_mem, ks_del. induction s as [|x t IH]; cbn [filter existsb]; [rewrite andb_false_r; reflexivity|].
  destruct (x =? k) eqn:E1; cbn [negb existsb].
  - rewrite IH. destruct (x =? k') eqn:E2, (k' =? k) eqn:E3; cbn [negb andb orb]; try reflexivity; lia.
  - rewrite IH. destruct (x =? k') eqn:E2, (k' =? k) eqn:E3; cbn [negb andb orb]; try reflexivity; lia.
Qed.

Definition b2n (b : bool) : nat := if b then 1%nat else 0%nat.

(* ------------------------------------------------------------------ pending tasks *)
Definition apply_task (t : task) (d : list (Z * Z)) : list (Z * Z) :=
  match t with TLoad _ => d | TSave k v => d_set k v d | TDelete k => d_del k d end.
Definition apply_tasks (l : list task) (d : list (Z * Z)) : list (Z * Z) :=
  fold_left (fun a t => apply_task t a) l d.
Definition is_load (k : Z) (t : task) : bool := match t with TLoad k' => k' =? k | _ => false end.
Definition nload (k : Z) (l : list task) : nat := length (filter (is_load k) l).

Definition load_cond (m d : list (Z * Z)) (t : task) : Prop :=
  match t with
  | TLoad k => d_has k d = true /\ (d_has k m = true -> d_get k d = d_get k m)
  | _ => True
  end.
Fixpoint loads_ok (m d : list (Z * Z)) (l : list task) : Prop :=
  match l with
  | [] => True
  | t :: r => load_cond m d t /\ loads_ok m (apply_task t d) r
  end.

Lemma apply_tasks_snoc p t d : apply_tasks (p ++ [t]) d = apply_task t (apply_tasks p d).
Proof. unfold apply_tasks. rewrite fold_left_app. reflexivity. Qed.

Lemma apply_task_cong t a b : (forall k, d_get k a = d_get k b) ->
  forall k, d_get k (apply_task t a) = d_get k (apply_task t b).
Proof.
  intros H k. destruct t as [k'|k' v|k']; cbn [apply_task]; [apply H| |].
  - destruct (Z.eq_dec k k') as [->|Hne]; [rewrite !d_get_set_eq; reflexivity|].
    rewrite !d_get_set_neq by exact Hne. apply H.
  - rewrite !d_get_del. destruct (k =? k'); [reflexivity|apply H].
Qed.

Lemma nload_snoc k p t : nload k (p ++ [t]) = (nload k p + nload k [t])%nat.
Proof. unfold nload. rewrite filter_app, app_length. reflexivity. Qed.

Lemma nload_cons k t p : nload k (t :: p) = (b2n (is_load k t) + nload k p)%nat.
Proof. unfold nload. cbn [filter]. destruct (is_load k t); reflexivity. Qed.

Lemma nload_nil k : nload k [] = 0%nat.
Proof. reflexivity. Qed.
Lemma nload_one k t : nload k [t] = b2n (is_load k t).
Proof. unfold nload. cbn [filter]. destruct (is_load k t); reflexivity. Qed.

Lemma loads_ok_snoc m p : forall d t,
  loads_ok m d (p ++ [t]) <-> loads_ok m d p /\ load_cond m (apply_tasks p d) t.
Proof.
  induction p as [|x r IH]; intros d t; cbn [app loads_ok].
  - unfold apply_tasks; cbn [fold_left]. tauto.
  - rewrite IH. unfold apply_tasks; cbn [fold_left]. tauto.
Qed.

(* changing the specification map is harmless for keys without a pending load *)
Lemma loads_ok_change_m m m' p : forall d,
  (forall k, (0 < nload k p)%nat -> d_has k m' = true -> d_has k m = true /\ d_get k m' = d_get k m) ->
  loads_ok m d p -> loads_ok m' d p.
Proof.
  induction p as [|t r IH]; intros d Hc H; cbn [loads_ok] in *; [exact I|].
  destruct H as [H1 H2]. split.
  - destruct t as [k|k v|k]; cbn [load_cond] in *; try exact I.
    destruct H1 as [Ha Hb]. split; [exact Ha|]. intros Hm'.
    destruct (Hc k) as [Hm He]; [rewrite nload_cons; cbn [is_load]; rewrite Z.eqb_refl; cbn [b2n]; lia|exact Hm'|].
    rewrite He. apply Hb. exact Hm.
  - apply IH; [|exact H2]. intros k Hk. apply Hc. rewrite nload_cons. lia.
Qed.

(* ------------------------------------------------------------------ invariant for linearizability *)
Definition pcq (p : pcs) : list task := match p with PPut t _ => [t] | _ => [] end.

Definition cur_op (p : pcs) : list s_op :=
  match p with
  | PIdle => []
  | PPut (TLoad k) KDone => [SPreload k]
  | PPut (TLoad k) (KLoadB _) => [SLoad k]
  | PPut (TSave k v) _ => [SSave k v]
  | PPut (TDelete k) _ => [SDelete k]
  | PLoadB k | PLoadJ k => [SLoad k]
  | PSaveJ k v => [SSave k v]
  end.

Definition pc_ok (w : list Z) (p : pcs) : Prop :=
  match p with
  | PIdle => True
  | PPut (TLoad k) c => c = KDone \/ c = KLoadB k
  | PPut (TSave k v) c => c = KDone /\ ks_mem k w = false
  | PPut (TDelete k) c => c = KDone
  | PLoadB k | PLoadJ k => ks_mem k w = true
  | PSaveJ k v => ks_mem k w = true
  end.

Definition run_of (s : wstatus) : list task := match s with WRun t => [t] | _ => [] end.
Definition deadb (s : wstatus) : bool := match s with WDying | WDead => true | _ => false end.
Lemma pending_eq st : pending st = run_of (t_status st) ++ t_queue st.
Proof. reflexivity. Qed.
Lemma dead_eq st : dead st = deadb (t_status st).
Proof. reflexivity. Qed.

Definition LInv (prog0 : list s_op) (st : tstate) : Prop :=
  exists m,
    t_unfinished st = length (run_of (t_status st) ++ t_queue st) /\
    deadb (t_status st) = false /\
    (forall k, d_get k (apply_tasks (run_of (t_status st) ++ t_queue st) (t_disk st)) = d_get k m) /\
    (forall k, (nload k (run_of (t_status st) ++ t_queue st) + nload k (pcq (t_pc st)) + b2n (d_has k (t_loaded st))
                = b2n (ks_mem k (t_waiting st)))%nat) /\
    loads_ok m (t_disk st) (run_of (t_status st) ++ t_queue st) /\
    (forall k v, d_get k (t_loaded st) = Some v -> d_has k m = true -> d_get k m = Some v) /\
    pc_ok (t_waiting st) (t_pc st) /\
    rev (t_outs st) ++ spec_outs m (cur_op (t_pc st) ++ t_prog st) = spec_outs [] prog0 /\
    wf m (cur_op (t_pc st) ++ t_prog st) = true.

Lemma LInv_init prog : wf [] prog = true -> LInv prog (init prog).
Proof.
  intros Hwf. exists []. unfold init, run_of, deadb; cbn.
  repeat split; try reflexivity; try exact Hwf; try exact I. intros k v H. discriminate.
Qed.

Ltac splits9 := split; [|split; [|split; [|split; [|split; [|split; [|split; [|split]]]]]]].

Ltac b2n_lia :=
  repeat match goal with
  | |- context [b2n ?b] => destruct b eqn:?; cbn [b2n]
  | H : context [b2n ?b] |- _ => destruct b eqn:?; cbn [b2n] in H
  end; try lia; try congruence.

(* ---- the worker *)
Lemma worker_LInv prog0 st st' :
  LInv prog0 st -> worker_step None st = Some st' -> LInv prog0 st'.
Proof.
  destruct st as [disk q u s n l w pc prog outs].
  intros (m & HU & Hal & H0 & H1 & H2 & H3 & Hpc & HJ & Hwf).
  cbn [t_unfinished t_status t_queue t_disk t_loaded t_waiting t_pc t_prog t_outs] in *.
  unfold worker_step. cbn [t_status t_queue t_unfinished t_started t_disk t_loaded].
  destruct s as [|t| |]; unfold run_of, deadb in *; try discriminate.
  - (* take the next task *)
    destruct q as [|t q']; [discriminate|]. intros E. injection E as <-.
    exists m. unfold run_of, deadb, set_worker.
    cbn [t_unfinished t_status t_queue t_disk t_loaded t_waiting t_pc t_prog t_outs app] in *.
    splits9; assumption.
  - (* run it *)
    cbn [app] in *. destruct H2 as [Hc H2].
    destruct t as [k|k v|k]; cbn [exec_task].
    + cbn [load_cond] in Hc. destruct Hc as [Hd Hm].
      unfold d_has in Hd. destruct (d_get k disk) as [v|] eqn:E; [|discriminate].
      intros E2. injection E2 as <-.
      exists m. unfold run_of, deadb, set_worker.
      cbn [t_unfinished t_status t_queue t_disk t_loaded t_waiting t_pc t_prog t_outs app].
      split; [cbn [length] in HU; lia|]. split; [reflexivity|]. split; [exact H0|]. split.
      { intros k'. specialize (H1 k'). rewrite nload_cons in H1. cbn [is_load] in H1.
        rewrite d_has_set. destruct (k' =? k) eqn:E3.
        - replace k' with k in * by lia. rewrite Z.eqb_refl in H1. cbn [orb]. b2n_lia.
        - rewrite (Z.eqb_sym k k'), E3 in H1. cbn [orb b2n] in *. lia. }
      split; [exact H2|]. split; [|tauto].
      intros k' v' Hg Hh. destruct (Z.eq_dec k' k) as [->|Hne].
      * rewrite d_get_set_eq in Hg. injection Hg as <-. rewrite <- (Hm Hh). reflexivity.
      * rewrite d_get_set_neq in Hg by exact Hne. apply H3; assumption.
    + intros E2. injection E2 as <-.
      exists m. unfold run_of, deadb, set_worker.
      cbn [t_unfinished t_status t_queue t_disk t_loaded t_waiting t_pc t_prog t_outs app].
      split; [cbn [length] in HU; lia|]. split; [reflexivity|]. split; [exact H0|]. split.
      { intros k'. specialize (H1 k'). rewrite nload_cons in H1. cbn [is_load b2n] in H1. lia. }
      tauto.
    + intros E2. injection E2 as <-.
      exists m. unfold run_of, deadb, set_worker.
      cbn [t_unfinished t_status t_queue t_disk t_loaded t_waiting t_pc t_prog t_outs app].
      split; [cbn [length] in HU; lia|]. split; [reflexivity|]. split; [exact H0|]. split.
      { intros k'. specialize (H1 k'). rewrite nload_cons in H1. cbn [is_load b2n] in H1. lia. }
      tauto.
Qed.

(* ---- the caller *)
Ltac projs := cbn [t_unfinished t_status t_queue t_disk t_loaded t_waiting t_pc t_prog t_outs t_started].
Ltac projs_in H := cbn [t_unfinished t_status t_queue t_disk t_loaded t_waiting t_pc t_prog t_outs t_started] in H.

Lemma J_step m op rest outs prog0 (o : t_out) :
  rev outs ++ spec_outs m (op :: rest) = spec_outs [] prog0 -> o = spec_out m op ->
  rev (o :: outs) ++ spec_outs (spec_m m op) rest = spec_outs [] prog0.
Proof.
  intros H ->. cbn [rev]. rewrite <- app_assoc. cbn [app]. exact H.
Qed.

(* Queue.put succeeds: the task held by the program counter enters the queue *)
Lemma fire_LInv prog0 disk q u s n l w t c prog outs :
  LInv prog0 (mkT disk q u s n l w (PPut t c) prog outs) ->
  LInv prog0 (continue (enqueue (mkT disk q u s n l w (PPut t c) prog outs) t) c).
Proof.
  intros (m & HU & Hal & H0 & H1 & H2 & H3 & Hpc & HJ & Hwf).
  projs_in HU. projs_in Hal. projs_in H0. projs_in H1. projs_in H2. projs_in H3. projs_in Hpc. projs_in HJ. projs_in Hwf.
  set (P := run_of s ++ q) in *.
  assert (EP : run_of s ++ q ++ [t] = P ++ [t]) by (unfold P; apply app_assoc).
  destruct t as [k|k v|k]; cbn [pc_ok pcq cur_op] in *.
  - (* a load *)
    assert (Hk : d_has k m = true /\ wf m prog = true /\
                 rev outs ++ spec_outs m ((if match c with KDone => true | _ => false end then SPreload k else SLoad k) :: prog) = spec_outs [] prog0).
    { destruct c; cbn [app wf spec_m] in *; apply andb_true_iff in Hwf; tauto. }
    destruct Hk as (Hkm & Hwf' & HJ').
    assert (Hcommon :
      S u = length (P ++ [TLoad k]) /\
      (forall k', d_get k' (apply_tasks (P ++ [TLoad k]) disk) = d_get k' m) /\
      (forall k', (nload k' (P ++ [TLoad k]) + 0 + b2n (d_has k' l) = b2n (ks_mem k' w))%nat) /\
      loads_ok m disk (P ++ [TLoad k])).
    { split; [rewrite app_length; cbn [length]; lia|]. split; [|split].
      - intros k'. rewrite apply_tasks_snoc. cbn [apply_task]. apply H0.
      - intros k'. rewrite nload_snoc. specialize (H1 k'). lia.
      - apply loads_ok_snoc. split; [exact H2|]. cbn [load_cond]. unfold d_has in *. rewrite H0. tauto. }
    destruct Hcommon as (C1 & C3 & C4 & C5).
    destruct Hpc as [->| ->].
    + exists m. unfold continue, finish, enqueue. projs. rewrite EP. cbn [pcq cur_op pc_ok]. splits9;
        [exact C1|exact Hal|exact C3|exact C4|exact C5|exact H3|exact I| |exact Hwf'].
      apply (J_step m (SPreload k) prog outs prog0 TOk HJ'). reflexivity.
    + exists m. unfold continue, set_pc, enqueue. projs. rewrite EP. cbn [pcq cur_op pc_ok]. splits9;
        [exact C1|exact Hal|exact C3|exact C4|exact C5|exact H3| |exact HJ|exact Hwf].
      specialize (H1 k). rewrite nload_one in H1. cbn [is_load] in H1. rewrite Z.eqb_refl in H1.
      destruct (ks_mem k w); [reflexivity|]. cbn [b2n] in H1. lia.
  - (* a save *)
    destruct Hpc as [-> Hw]. cbn [app wf spec_m] in Hwf.
    assert (Hn : nload k P = 0%nat /\ d_has k l = false).
    { specialize (H1 k). rewrite Hw in H1. cbn [b2n] in H1. destruct (d_has k l); cbn [b2n] in H1; [lia|]. split; [lia|reflexivity]. }
    destruct Hn as [Hn Hl].
    exists (d_set k v m). unfold continue, finish, enqueue. projs. rewrite EP. cbn [pcq cur_op pc_ok]. splits9.
    + rewrite app_length; cbn [length]; lia.
    + exact Hal.
    + intros k'. rewrite apply_tasks_snoc. apply (apply_task_cong (TSave k v)). exact H0.
    + intros k'. rewrite nload_snoc. specialize (H1 k'). rewrite ?nload_one, ?nload_nil in *. cbn [is_load b2n] in *. lia.
    + apply loads_ok_snoc. split; [|exact I]. apply (loads_ok_change_m m); [|exact H2].
      intros k' Hpos Hh. assert (k' <> k) by (intros ->; lia).
      rewrite d_has_set in Hh. rewrite d_get_set_neq by assumption.
      destruct (k' =? k) eqn:E; [lia|]. cbn [orb] in Hh. split; [exact Hh|reflexivity].
    + intros k' v' Hg Hh. destruct (Z.eq_dec k' k) as [->|Hne].
      * unfold d_has in Hl. rewrite Hg in Hl. discriminate.
      * rewrite d_has_set in Hh. rewrite d_get_set_neq by exact Hne. apply H3; [exact Hg|].
        destruct (k' =? k) eqn:E; [lia|exact Hh].
    + exact I.
    + apply (J_step m (SSave k v) prog outs prog0 TOk HJ). reflexivity.
    + exact Hwf.
  - (* a delete *)
    subst c. cbn [app wf spec_m] in Hwf. apply andb_true_iff in Hwf. destruct Hwf as [_ Hwf].
    exists (d_del k m). unfold continue, finish, enqueue. projs. rewrite EP. cbn [pcq cur_op pc_ok]. splits9.
    + rewrite app_length; cbn [length]; lia.
    + exact Hal.
    + intros k'. rewrite apply_tasks_snoc. apply (apply_task_cong (TDelete k)). exact H0.
    + intros k'. rewrite nload_snoc. specialize (H1 k'). rewrite ?nload_one, ?nload_nil in *. cbn [is_load b2n] in *. lia.
    + apply loads_ok_snoc. split; [|exact I]. apply (loads_ok_change_m m); [|exact H2].
      intros k' _ Hh. rewrite d_has_del in Hh. rewrite d_get_del.
      destruct (k' =? k) eqn:E; [discriminate|]. cbn [negb andb] in Hh. split; [exact Hh|reflexivity].
    + intros k' v' Hg Hh. rewrite d_has_del in Hh. rewrite d_get_del.
      destruct (k' =? k) eqn:E; [discriminate|]. apply H3; assumption.
    + exact I.
    + apply (J_step m (SDelete k) prog outs prog0 TOk HJ). reflexivity.
    + exact Hwf.
Qed.

(* the value is there: ThreadedStorage.load returns it and forgets it *)
Lemma finish_load_LInv prog0 disk q u s n l w pc k v prog outs :
  pcq pc = [] -> cur_op pc = [SLoad k] -> d_get k l = Some v ->
  LInv prog0 (mkT disk q u s n l w pc prog outs) ->
  LInv prog0 (finish (set_loaded_waiting (mkT disk q u s n l w pc prog outs) (d_del k l) (ks_del k w)) (TVal v)).
Proof.
  intros Epq Ecur Hg (m & HU & Hal & H0 & H1 & H2 & H3 & Hpc & HJ & Hwf).
  projs_in HU. projs_in Hal. projs_in H0. projs_in H1. projs_in H2. projs_in H3. projs_in Hpc. projs_in HJ. projs_in Hwf.
  rewrite Ecur in HJ, Hwf. rewrite Epq in H1. cbn [app wf spec_m] in HJ, Hwf.
  apply andb_true_iff in Hwf. destruct Hwf as [Hkm Hwf].
  assert (Hl : d_has k l = true) by (unfold d_has; rewrite Hg; reflexivity).
  exists m. unfold finish, set_loaded_waiting. projs. cbn [pcq cur_op pc_ok app]. splits9.
  - exact HU.
  - exact Hal.
  - exact H0.
  - intros k'. specialize (H1 k'). rewrite nload_nil in *. rewrite d_has_del, ks_mem_del.
    destruct (k' =? k) eqn:E; cbn [negb andb].
    + replace k' with k in * by lia. rewrite Hl in H1. cbn [b2n] in *. destruct (ks_mem k w); cbn [b2n] in *; lia.
    + exact H1.
  - exact H2.
  - intros k' v' Hg' Hh. rewrite d_get_del in Hg'. destruct (k' =? k); [discriminate|]. apply H3; assumption.
  - exact I.
  - apply (J_step m (SLoad k) prog outs prog0 (TVal v) HJ). cbn [spec_out]. rewrite (H3 k v Hg Hkm). reflexivity.
  - exact Hwf.
Qed.

Lemma do_put_alive qmax st t c : deadb (t_status st) = false ->
  do_put qmax st t c = if has_space qmax st then continue (enqueue (set_pc st (PPut t c)) t) c
                       else set_pc st (PPut t c).
Proof.
  intros H. unfold do_put. rewrite dead_eq, H. destruct (has_space qmax st); [|reflexivity].
  destruct st, c; reflexivity.
Qed.

Lemma put_LInv qmax prog0 disk q u s n l w t c prog outs pc0 :
  deadb s = false ->
  LInv prog0 (mkT disk q u s n l w (PPut t c) prog outs) ->
  LInv prog0 (do_put qmax (mkT disk q u s n l w pc0 prog outs) t c).
Proof.
  intros Hal H. rewrite do_put_alive by exact Hal. unfold set_pc. projs.
  destruct (has_space qmax _); [apply fire_LInv|]; exact H.
Qed.

Lemma space_when_empty qmax st : t_queue st = [] -> has_space qmax st = true.
Proof. intros E. unfold has_space. rewrite E. destruct qmax; reflexivity. Qed.

Lemma caller_LInv qmax prog0 st st' :
  LInv prog0 st -> caller_step qmax st = Some st' -> LInv prog0 st'.
Proof.
  destruct st as [disk q u s n l w pc prog outs]. intros HI.
  assert (HI' := HI).
  destruct HI' as (m & HU & Hal & H0 & H1 & H2 & H3 & Hpc & HJ & Hwf).
  projs_in HU. projs_in Hal. projs_in H0. projs_in H1. projs_in H2. projs_in H3. projs_in Hpc. projs_in HJ. projs_in Hwf.
  unfold caller_step. projs. destruct pc as [|t c|k|k|k v].
  - (* start the next operation *)
    destruct prog as [|op rest]; [discriminate|]. intros E. injection E as <-.
    cbn [pcq cur_op pc_ok app] in *. unfold set_prog. projs.
    destruct op as [k|k|k v|k]; unfold start_op; projs; unfold set_loaded_waiting, set_pc; projs.
    + (* load *)
      cbn [wf] in Hwf.
      destruct (negb (d_has k l) && negb (ks_mem k w)) eqn:Ec.
      * apply put_LInv; [exact Hal|]. apply andb_true_iff in Ec. destruct Ec as [Ec1 Ec2].
        apply negb_true_iff in Ec1. apply negb_true_iff in Ec2.
        exists m. projs. cbn [pcq cur_op pc_ok app]. splits9; try assumption; [|right; reflexivity].
        intros k'. specialize (H1 k'). rewrite nload_nil in H1. rewrite nload_one, ks_mem_add. cbn [is_load].
        destruct (k =? k') eqn:E; cbn [orb b2n]; [|first [exact H1|lia]].
        replace k' with k in * by lia. rewrite Ec1, Ec2 in H1. rewrite Ec1. cbn [b2n] in *. lia.
      * exists m. projs. cbn [pcq cur_op pc_ok app]. splits9; try assumption.
        specialize (H1 k). destruct (d_has k l); cbn [negb andb b2n] in *.
        -- destruct (ks_mem k w); [reflexivity|]. cbn [b2n] in H1. lia.
        -- destruct (ks_mem k w); [reflexivity|discriminate].
    + (* preload *)
      cbn [wf spec_m] in Hwf.
      destruct (ks_mem k w || d_has k l) eqn:Ec.
      * exists m. unfold finish. projs. cbn [pcq cur_op pc_ok app]. splits9; try assumption; [ | ].
        -- apply (J_step m (SPreload k) rest outs prog0 TOk HJ). reflexivity.
        -- apply andb_true_iff in Hwf. tauto.
      * apply put_LInv; [exact Hal|]. apply orb_false_iff in Ec. destruct Ec as [Ec2 Ec1].
        exists m. projs. cbn [pcq cur_op pc_ok app]. splits9; try assumption; [|left; reflexivity].
        intros k'. specialize (H1 k'). rewrite nload_nil in H1. rewrite nload_one, ks_mem_add. cbn [is_load].
        destruct (k =? k') eqn:E; cbn [orb b2n]; [|first [exact H1|lia]].
        replace k' with k in * by lia. rewrite Ec1, Ec2 in H1. rewrite Ec1. cbn [b2n] in *. lia.
    + (* save *)
      destruct (ks_mem k w) eqn:Ec.
      * rewrite dead_eq. projs. rewrite Hal.
        exists m. projs. cbn [pcq cur_op pc_ok app]. splits9; assumption.
      * apply put_LInv; [exact Hal|].
        exists m. projs. cbn [pcq cur_op pc_ok app]. splits9; try assumption.
        all: try (split; [reflexivity|exact Ec]).
        all: intros k'; specialize (H1 k'); rewrite nload_nil in H1; rewrite nload_one; cbn [is_load b2n]; first [exact H1|lia].
    + (* delete *)
      apply put_LInv; [exact Hal|].
      exists m. projs. cbn [pcq cur_op pc_ok app]. splits9; try assumption.
      all: try reflexivity.
      all: intros k'; specialize (H1 k'); rewrite nload_nil in H1; rewrite nload_one; cbn [is_load b2n]; first [exact H1|lia].
  - (* Queue.put gets its slot *)
    destruct (has_space qmax _); [|discriminate]. intros E. injection E as <-.
    apply fire_LInv. exact HI.
  - (* load: is the value there? *)
    intros E. injection E as <-. cbn [pc_ok] in Hpc.
    destruct (d_has k l) eqn:Ec.
    + unfold finish_load. projs. unfold d_has in Ec. destruct (d_get k l) as [v|] eqn:Eg; [|discriminate].
      apply finish_load_LInv; [reflexivity|reflexivity|exact Eg|exact HI].
    + rewrite dead_eq. projs. rewrite Hal. unfold set_pc. projs.
      exists m. projs. cbn [pcq cur_op pc_ok app] in *. splits9; assumption.
  - (* load: Queue.join returns *)
    destruct (Nat.eqb u 0) eqn:Eu; [|discriminate]. intros E. injection E as <-.
    apply Nat.eqb_eq in Eu. subst u. cbn [pc_ok pcq] in *.
    assert (EP : run_of s ++ q = []) by (destruct (run_of s ++ q); [reflexivity|discriminate]).
    rewrite dead_eq. projs. rewrite Hal. unfold finish_load. projs.
    specialize (H1 k). rewrite EP, Hpc, !nload_nil in H1. cbn [b2n] in H1.
    unfold d_has in H1. destruct (d_get k l) as [v|] eqn:Eg; [|cbn [b2n] in H1; lia].
    apply finish_load_LInv; [reflexivity|reflexivity|exact Eg|exact HI].
  - (* save over an outstanding preload: Queue.join returns *)
    destruct (Nat.eqb u 0) eqn:Eu; [|discriminate]. intros E. injection E as <-.
    apply Nat.eqb_eq in Eu. subst u. cbn [pc_ok pcq cur_op app wf spec_m] in *.
    assert (EP : run_of s ++ q = []) by (destruct (run_of s ++ q); [reflexivity|discriminate]).
    apply app_eq_nil in EP. destruct EP as [Er Eq]. subst q.
    rewrite dead_eq. projs. rewrite Hal.
    assert (Hl : d_has k l = true).
    { specialize (H1 k). rewrite Er, Hpc, !nload_nil in H1. cbn [app b2n] in H1. rewrite ?nload_nil in H1.
      destruct (d_has k l); [reflexivity|cbn [b2n] in H1; lia]. }
    unfold d_has in Hl. destruct (d_get k l) as [v0|] eqn:Eg; [|discriminate].
    unfold set_loaded_waiting. projs. rewrite do_put_alive by exact Hal.
    rewrite space_when_empty by reflexivity.
    unfold continue, finish, enqueue, set_pc. projs. rewrite Er in *. cbn [app] in *.
    exists (d_set k v m). projs. rewrite Er. cbn [pcq cur_op pc_ok app length]. splits9.
    + reflexivity.
    + exact Hal.
    + intros k'. apply (apply_task_cong (TSave k v) disk m). exact H0.
    + intros k'. specialize (H1 k'). rewrite nload_nil in *. rewrite nload_one. cbn [is_load b2n].
      rewrite d_has_set. destruct (k' =? k) eqn:E; cbn [orb]; [|exact H1].
      replace k' with k in * by lia. unfold d_has in H1. rewrite Eg in H1. exact H1.
    + cbn [loads_ok load_cond]. tauto.
    + intros k' v' Hg Hh. destruct (Z.eq_dec k' k) as [->|Hne].
      * rewrite d_get_set_eq in *. exact Hg.
      * rewrite d_get_set_neq in * by exact Hne. rewrite d_has_set in Hh.
        destruct (k' =? k) eqn:E; [lia|]. apply H3; assumption.
    + exact I.
    + apply (J_step m (SSave k v) prog outs prog0 TOk HJ). reflexivity.
    + exact Hwf.
Qed.

Lemma step_LInv qmax prog0 st c : LInv prog0 st -> LInv prog0 (lts_step qmax None st c).
Proof.
  intros H. unfold lts_step. destruct c.
  - destruct (caller_step qmax st) as [st'|] eqn:E; [|exact H]. eapply caller_LInv; eassumption.
  - destruct (worker_step None st) as [st'|] eqn:E; [|exact H]. eapply worker_LInv; eassumption.
Qed.

Lemma run_LInv qmax prog0 sched : forall st, LInv prog0 st -> LInv prog0 (lts_run qmax None sched st).
Proof.
  unfold lts_run. induction sched as [|c t IH]; intros st H; cbn [fold_left]; [exact H|].
  apply IH. apply step_LInv. exact H.
Qed.

(* for EVERY schedule: without a disk failure the worker never dies, and what the caller has got back
   so far is exactly what a key-value store returns for the operations finished so far *)
Lemma threaded_linearizable : forall qmax prog sched, wf [] prog = true ->
  let st := lts_run qmax None sched (init prog) in
  dead st = false /\
  rev (t_outs st) = firstn (length (t_outs st)) (spec_outs [] prog) /\
  (caller_finished st = true -> rev (t_outs st) = spec_outs [] prog).
Proof.
  intros qmax prog sched Hwf st.
  assert (H : LInv prog st) by (apply run_LInv, LInv_init; exact Hwf).
  destruct H as (m & _ & Hal & _ & _ & _ & _ & _ & HJ & _).
  split; [rewrite dead_eq; exact Hal|]. split.
  - rewrite <- HJ, <- rev_length, firstn_app, firstn_all, Nat.sub_diag. cbn [firstn]. rewrite app_nil_r. reflexivity.
  - unfold caller_finished. destruct (t_pc st) eqn:E1; try discriminate.
    destruct (t_prog st) eqn:E2; try discriminate. intros _.
    cbn [cur_op app spec_outs] in HJ. rewrite app_nil_r in HJ. exact HJ.
Qed.

(* what the key-value specification means: a load returns the latest value saved under the key *)
Lemma spec_outs_app a : forall m b,
  spec_outs m (a ++ b) = spec_outs m a ++ spec_outs (fold_left spec_m a m) b.
Proof.
  induction a as [|op t IH]; intros m b; cbn [app spec_outs fold_left]; [reflexivity|].
  rewrite IH. reflexivity.
Qed.

Lemma spec_no_write k mid : forallb (fun op => negb (s_writes k op)) mid = true ->
  forall m, d_get k (fold_left spec_m mid m) = d_get k m.
Proof.
  induction mid as [|op t IH]; intros H m; cbn [fold_left]; [reflexivity|].
  cbn [forallb] in H. apply andb_true_iff in H. destruct H as [H1 H2]. rewrite (IH H2).
  destruct op as [k'|k'|k' v'|k']; cbn [spec_m s_writes negb] in *; try reflexivity.
  - apply d_get_set_neq. destruct (k' =? k) eqn:E; [discriminate|lia].
  - rewrite d_get_del. destruct (k =? k') eqn:E; [|reflexivity].
    destruct (k' =? k) eqn:E2; [discriminate|lia].
Qed.

Lemma spec_latest_save pre k v mid : forallb (fun op => negb (s_writes k op)) mid = true ->
  last (spec_outs [] (pre ++ SSave k v :: mid ++ [SLoad k])) TOk = TVal v.
Proof.
  intros H. rewrite spec_outs_app. cbn [spec_outs]. rewrite spec_outs_app. cbn [spec_outs spec_out].
  rewrite (spec_no_write k mid H). cbn [spec_m]. rewrite d_get_set_eq.
  rewrite app_comm_cons, app_assoc. apply last_last.
Qed.

(* ------------------------------------------------------------------ no deadlock, with or without failures *)
Definition Binv (st : tstate) : Prop :=
  t_unfinished st = length (pending st) /\
  (t_status st = WDead ->
   match t_pc st with PPut _ _ | PLoadJ _ | PSaveJ _ _ => t_queue st = [] | _ => True end).

Definition blocking (p : pcs) : bool :=
  match p with PPut _ _ | PLoadJ _ | PSaveJ _ _ => true | _ => false end.

Lemma Binv_init prog : Binv (init prog).
Proof. split; [reflexivity|]. intros H. discriminate. Qed.

Lemma do_put_shape qmax st t c :
  (dead st = true -> do_put qmax st t c = finish st TWorkerDied) /\
  (t_status (do_put qmax st t c) = t_status st) /\
  (t_unfinished (do_put qmax st t c) = length (pending (do_put qmax st t c)) <-> t_unfinished st = length (pending st)).
Proof.
  unfold do_put. split; [intros ->; reflexivity|].
  destruct (dead st); [split; [reflexivity|]; unfold pending; cbn; tauto|].
  destruct (has_space qmax st); [|split; [reflexivity|]; unfold pending; cbn; tauto].
  destruct c; (split; [reflexivity|]); unfold pending; cbn; rewrite app_assoc, app_length; cbn [length]; lia.
Qed.

Lemma caller_Binv qmax st st' : Binv st -> caller_step qmax st = Some st' -> Binv st'.
Proof.
  intros [HU HD]. unfold caller_step.
  assert (Hfin : forall o, Binv (finish st o)).
  { intros o. split; [exact HU|]. cbn. tauto. }
  destruct (t_pc st) as [|t c|k|k|k v] eqn:Epc.
  - destruct (t_prog st) as [|op rest] eqn:Epr; [discriminate|]. intros E. injection E as <-.
    set (st1 := set_prog st rest).
    assert (HU1 : t_unfinished st1 = length (pending st1)) by exact HU.
    assert (Hst : t_status st1 = t_status st) by reflexivity.
    assert (Hput : forall st2 t c, t_status st2 = t_status st -> t_unfinished st2 = length (pending st2) ->
                   Binv (do_put qmax st2 t c)).
    { intros st2 t c Hs Hu. destruct (do_put_shape qmax st2 t c) as (P1 & P2 & P3). split; [apply P3; exact Hu|].
      rewrite P2. intros Hd. rewrite P1 by (unfold dead; rewrite Hd; reflexivity). cbn. exact I. }
    destruct op as [k|k|k v|k]; unfold start_op.
    + destruct (negb _ && negb _); [apply Hput; [reflexivity|exact HU1]|].
      split; [exact HU1|]. cbn. tauto.
    + destruct (_ || _); [split; [exact HU1|]; cbn; tauto|]. apply Hput; [reflexivity|exact HU1].
    + destruct (ks_mem k (t_waiting st1)); [|apply Hput; [reflexivity|exact HU1]].
      destruct (dead st1) eqn:Ed; [split; [exact HU1|]; cbn; tauto|].
      split; [exact HU1|]. cbn [set_pc t_status t_pc]. intros Hd. unfold dead in Ed. rewrite Hd in Ed. discriminate.
    + apply Hput; [reflexivity|exact HU1].
  - destruct (has_space qmax st); [|discriminate]. intros E. injection E as <-.
    split.
    + destruct c; unfold pending; cbn; unfold pending in HU; rewrite app_assoc, app_length; cbn [length]; lia.
    + destruct c; cbn; tauto.
  - intros E. injection E as <-.
    destruct (d_has k (t_loaded st)).
    + unfold finish_load. destruct (d_get k (t_loaded st)); [|apply Hfin].
      split; [exact HU|]. cbn. tauto.
    + destruct (dead st) eqn:Ed; [apply Hfin|].
      split; [exact HU|]. cbn [set_pc t_status t_pc]. intros Hd. unfold dead in Ed. rewrite Hd in Ed. discriminate.
  - destruct (Nat.eqb (t_unfinished st) 0); [|discriminate]. intros E. injection E as <-.
    destruct (dead st); [apply Hfin|].
    unfold finish_load. destruct (d_get k (t_loaded st)); [|apply Hfin].
    split; [exact HU|]. cbn. tauto.
  - destruct (Nat.eqb (t_unfinished st) 0); [|discriminate]. intros E. injection E as <-.
    destruct (dead st) eqn:Ed; [apply Hfin|].
    destruct (d_get k (t_loaded st)); [|apply Hfin].
    destruct (do_put_shape qmax (set_loaded_waiting st (d_set k v (t_loaded st)) (t_waiting st)) (TSave k v) KDone)
      as (P1 & P2 & P3).
    split; [apply P3; exact HU|]. rewrite P2. cbn [set_loaded_waiting t_status]. intros Hd.
    unfold dead in Ed. rewrite Hd in Ed. discriminate.
Qed.

Definition mu (st : tstate) : nat :=
  3 * length (t_queue st) +
  match t_status st with WIdle => 0 | WRun _ => 2 | WDying => 1 | WDead => 0 end.

Lemma worker_Binv fail_at st st' : Binv st -> worker_step fail_at st = Some st' ->
  Binv st' /\ (mu st' < mu st)%nat /\ t_pc st' = t_pc st /\ t_prog st' = t_prog st.
Proof.
  intros [HU HD]. unfold worker_step, Binv, mu, pending in *.
  destruct (t_status st) as [|t| |] eqn:Es.
  - destruct (t_queue st) as [|t q] eqn:Eq; [discriminate|]. intros E. injection E as <-.
    cbn [set_worker t_status t_queue t_unfinished t_pc t_prog app length] in *.
    split; [split; [exact HU|discriminate]|]. split; [lia|]. split; reflexivity.
  - intros E. injection E as <-. cbn [app length] in HU.
    destruct (match fail_at with Some n => Nat.eqb n (t_started st) | None => false end).
    + cbn [set_worker t_status t_queue t_unfinished t_pc t_prog app length].
      split; [split; [lia|discriminate]|]. split; [lia|]. split; reflexivity.
    + destruct (exec_task (t_disk st) (t_loaded st) t) as [[d l]|];
        cbn [set_worker t_status t_queue t_unfinished t_pc t_prog app length];
        (split; [split; [lia|discriminate]|]); (split; [lia|]); split; reflexivity.
  - destruct (t_queue st) as [|t q] eqn:Eq; intros E; injection E as <-;
      cbn [set_worker t_status t_queue t_unfinished t_pc t_prog app length] in *.
    + split; [split; [exact HU|]|]. { intros _. destruct (t_pc st); tauto. }
      split; [lia|]. split; reflexivity.
    + split; [split; [lia|discriminate]|]. split; [lia|]. split; reflexivity.
  - discriminate.
Qed.

(* a blocked caller can always be helped by the worker; a terminated worker blocks nobody *)
Lemma progress qmax fail_at st : Binv st -> caller_finished st = false ->
  caller_step qmax st = None -> worker_step fail_at st <> None.
Proof.
  intros [HU HD] Hf Hc. unfold caller_finished, caller_step, worker_step, pending in *.
  destruct (t_pc st) as [|t c|k|k|k v] eqn:Epc.
  - destruct (t_prog st); discriminate.
  - unfold has_space in Hc.
    destruct (Nat.eqb qmax 0 || Nat.ltb (length (t_queue st)) qmax) eqn:Esp; [discriminate|].
    apply orb_false_iff in Esp. destruct Esp as [E1 E2].
    apply Nat.eqb_neq in E1. apply Nat.ltb_ge in E2.
    destruct (t_status st) eqn:Es; try discriminate.
    + destruct (t_queue st); [cbn [length] in E2; lia|discriminate].
    + destruct (t_queue st); discriminate.
    + rewrite (HD eq_refl) in E2. cbn [length] in E2. lia.
  - discriminate.
  - destruct (Nat.eqb (t_unfinished st) 0) eqn:Eu; [discriminate|]. apply Nat.eqb_neq in Eu.
    destruct (t_status st) eqn:Es; try discriminate.
    + destruct (t_queue st); [cbn in HU; lia|discriminate].
    + destruct (t_queue st); discriminate.
    + rewrite (HD eq_refl) in HU. cbn in HU. lia.
  - destruct (Nat.eqb (t_unfinished st) 0) eqn:Eu; [discriminate|]. apply Nat.eqb_neq in Eu.
    destruct (t_status st) eqn:Es; try discriminate.
    + destruct (t_queue st); [cbn in HU; lia|discriminate].
    + destruct (t_queue st); discriminate.
    + rewrite (HD eq_refl) in HU. cbn in HU. lia.
Qed.

Lemma no_deadlock_aux qmax fail_at : forall m st, Binv st -> (mu st <= m)%nat -> caller_finished st = false ->
  exists n, (n <= m)%nat /\ caller_step qmax (iter_worker fail_at n st) <> None.
Proof.
  induction m as [|m IH]; intros st HB Hm Hf.
  - exists 0%nat. split; [lia|]. cbn [iter_worker]. intros Hc.
    destruct (worker_step fail_at st) as [st'|] eqn:Ew; [|exact (progress qmax fail_at st HB Hf Hc Ew)].
    destruct (worker_Binv fail_at st st' HB Ew) as (_ & Hlt & _). lia.
  - destruct (caller_step qmax st) eqn:Ec.
    + exists 0%nat. split; [lia|]. cbn [iter_worker]. rewrite Ec. discriminate.
    + destruct (worker_step fail_at st) as [st'|] eqn:Ew; [|exfalso; exact (progress qmax fail_at st HB Hf Ec Ew)].
      destruct (worker_Binv fail_at st st' HB Ew) as (HB' & Hlt & Hp1 & Hp2).
      destruct (IH st' HB') as (n & Hn & Hs); [lia| |].
      { unfold caller_finished in *. rewrite Hp1, Hp2. exact Hf. }
      exists (S n). split; [lia|]. cbn [iter_worker]. rewrite Ew. exact Hs.
Qed.

Lemma run_Binv qmax fail_at sched : forall st, Binv st -> Binv (lts_run qmax fail_at sched st).
Proof.
  unfold lts_run. induction sched as [|c t IH]; intros st H; cbn [fold_left]; [exact H|].
  apply IH. unfold lts_step. destruct c.
  - destruct (caller_step qmax st) eqn:E; [|exact H]. eapply caller_Binv; eassumption.
  - destruct (worker_step fail_at st) eqn:E; [|exact H]. eapply worker_Binv; eassumption.
Qed.

(* after ANY schedule, with or without a failing task, for every program (well-formed or not):
   a caller that is not finished can move after a bounded number of worker steps *)
Lemma no_deadlock : forall qmax fail_at prog sched,
  let st := lts_run qmax fail_at sched (init prog) in
  caller_finished st = false ->
  exists n, (n <= 3 * length (t_queue st) + 2)%nat /\
            caller_step qmax (iter_worker fail_at n st) <> None.
Proof.
  intros qmax fail_at prog sched st Hf.
  apply no_deadlock_aux; [apply run_Binv, Binv_init| |exact Hf].
  unfold mu. destruct (t_status st); lia.
Qed.

(* once the worker thread is gone nothing ever blocks *)
Lemma dead_worker_never_blocks : forall qmax fail_at prog sched,
  let st := lts_run qmax fail_at sched (init prog) in
  t_status st = WDead -> caller_finished st = false -> caller_step qmax st <> None.
Proof.
  intros qmax fail_at prog sched st Hd Hf Hc.
  apply (progress qmax fail_at st (run_Binv qmax fail_at sched _ (Binv_init prog)) Hf Hc).
  unfold worker_step. rewrite Hd. reflexivity.
Qed.

(* ... and every operation that needs the worker raises WorkerDied at once *)
Lemma dead_worker_raises : forall qmax st op, dead st = true -> needs_worker st op = true ->
  t_outs (start_op qmax st op) = TWorkerDied :: t_outs st /\ t_pc (start_op qmax st op) = PIdle.
Proof.
  intros qmax st op Hd Hn. unfold start_op, needs_worker in *.
  destruct op as [k|k|k v|k].
  - rewrite Hn. unfold do_put, dead in *. cbn [set_loaded_waiting t_status]. rewrite Hd. split; reflexivity.
  - apply andb_true_iff in Hn. destruct Hn as [H1 H2]. apply negb_true_iff in H1. apply negb_true_iff in H2.
    rewrite H1, H2. cbn [orb]. unfold do_put, dead in *. cbn [set_loaded_waiting t_status]. rewrite Hd. split; reflexivity.
  - destruct (ks_mem k (t_waiting st)); [rewrite Hd; split; reflexivity|].
    unfold do_put. rewrite Hd. split; reflexivity.
  - unfold do_put. rewrite Hd. split; reflexivity.
Qed.

(* ------------------------------------------------------------------ DictCache is a well-behaved client *)
Lemma wf_app a : forall m b, wf m (a ++ b) = wf m a && wf (fold_left spec_m a m) b.
Proof.
  induction a as [|op t IH]; intros m b; cbn [app wf fold_left]; [reflexivity|].
  rewrite IH. rewrite andb_assoc. reflexivity.
Qed.

Definition LogInv (s : list (Z * Z) * list s_op) : Prop :=
  wf [] (snd s) = true /\ fold_left spec_m (snd s) [] = fst s.

Lemma log_snoc s op : LogInv s ->
  (match op with SLoad k | SPreload k | SDelete k => d_has k (fst s) = true | SSave _ _ => True end) ->
  LogInv (spec_m (fst s) op, snd s ++ [op]).
Proof.
  intros [H1 H2] Hop. unfold LogInv. cbn [fst snd]. rewrite wf_app, fold_left_app, H1, H2.
  cbn [fold_left wf andb]. split; [|reflexivity]. rewrite andb_true_r.
  destruct op; try exact Hop. reflexivity.
Qed.

Lemma log_storage_ok : storage_ok log_storage (fun s k => d_get k (fst s)) (fun _ => True).
Proof.
  unfold storage_ok, log_storage; cbn [s_load s_save s_delete s_preload fst snd].
  split; [|split; [|split]].
  - intros s k v _ H. auto.
  - intros s k v _. split; [exact I|]. split; [apply d_get_set_eq|].
    intros k' Hne. apply d_get_set_neq. exact Hne.
  - intros s k _ _. split; [exact I|]. intros k' Hne. rewrite d_get_del.
    destruct (k' =? k) eqn:E; [lia|reflexivity].
  - intros s k _ _. auto.
Qed.

Definition LRel := Rel (St := list (Z * Z) * list s_op) (fun s k => d_get k (fst s)) (fun _ => True).

Lemma LRel_present c d k : LRel c d -> ks_mem k (c_ltk c) = true -> d_has k (fst (c_store c)) = true.
Proof.
  intros (R1 & _ & R3 & _) H. rewrite R1, ks_mem_map_fst in H.
  apply d_has_get in H. destruct H as [v H]. unfold d_has. rewrite (R3 k v H). reflexivity.
Qed.

Lemma getitem_log c d k : LRel c d -> LogInv (c_store c) -> LogInv (c_store (fst (c_getitem log_storage c k))).
Proof.
  intros HR HL. unfold c_getitem.
  destruct (d_get k (c_stc c)); [exact HL|].
  destruct (ks_mem k (c_ltk c)) eqn:E; [|exact HL].
  assert (Hp := LRel_present c d k HR E).
  cbn [log_storage s_load]. destruct (d_get k (fst (c_store c))); cbn [fst c_store];
    apply (log_snoc (c_store c) (SLoad k) HL Hp).
Qed.

Lemma preload_log ltk rm : forall ks s, (forall k, ks_mem k ltk = true -> d_has k (fst s) = true) ->
  LogInv s -> LogInv (fst (preload_loop log_storage s ltk ks rm)).
Proof.
  induction ks as [|k t IH]; intros s Hp HL; cbn [preload_loop fst]; [exact HL|].
  destruct (ks_mem k ltk) eqn:E.
  - apply IH; [intros k' Hk'; cbn [log_storage s_preload fst]; apply Hp; exact Hk'|].
    apply (log_snoc s (SPreload k) HL). apply Hp. exact E.
  - destruct rm; [exact HL|]. apply IH; assumption.
Qed.

Lemma step_log c d op : LRel c d -> LogInv (c_store c) -> LogInv (c_store (fst (c_step log_storage c op))).
Proof.
  intros HR HL. destruct op as [k v|k|k|k|k|ks rm|ks|]; cbn [c_step].
  - cbn [fst c_store log_storage s_save]. apply (log_snoc (c_store c) (SSave k v) HL I).
  - eapply getitem_log; eassumption.
  - destruct (ks_mem k (c_ltk c)); [eapply getitem_log; eassumption|exact HL].
  - destruct (ks_mem k (c_ltk c)) eqn:E; [|exact HL].
    cbn [fst c_store log_storage s_delete]. apply (log_snoc (c_store c) (SDelete k) HL).
    eapply LRel_present; eassumption.
  - exact HL.
  - pose proof (preload_log (c_ltk c) rm ks (c_store c) (fun k H => LRel_present c d k HR H) HL) as H.
    destruct (preload_loop log_storage (c_store c) (c_ltk c) ks rm) as [s' e]. exact H.
  - exact HL.
  - exact HL.
Qed.

Lemma run_log ops : forall c d, LRel c d -> LogInv (c_store c) ->
  LogInv (c_store (fst (c_run log_storage c ops))).
Proof.
  induction ops as [|op t IH]; intros c d HR HL; [exact HL|].
  rewrite c_run_cons. cbn [fst].
  destruct (step_refines log_storage _ _ log_storage_ok c d op HR) as (_ & HR').
  eapply IH; [exact HR'|]. eapply step_log; eassumption.
Qed.

(* whatever a program does with a DictCache, the storage underneath only ever sees loads, preloads
   and deletes of keys that are stored: the hypothesis of the linearizability theorem is met *)
Lemma dictcache_calls_wellformed : forall ops, wf [] (calls_of ops) = true.
Proof.
  intros ops. unfold calls_of.
  assert (H : LogInv (c_store (fst (c_run log_storage (c_empty ([], [])) ops)))).
  { apply (run_log ops (c_empty ([], [])) []); [apply Rel_empty; exact I|]. split; reflexivity. }
  exact (proj1 H).
Qed.

Lemma threaded_under_dictcache : forall qmax ops sched,
  let st := lts_run qmax None sched (init (calls_of ops)) in
  dead st = false /\
  (caller_finished st = true -> rev (t_outs st) = spec_outs [] (calls_of ops)).
Proof.
  intros qmax ops sched st.
  destruct (threaded_linearizable qmax (calls_of ops) sched (dictcache_calls_wellformed ops)) as (H1 & _ & H3).
  split; assumption.
Qed.
