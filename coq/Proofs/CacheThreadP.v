(* Proofs about Model/CacheThread.v (property C20: ThreadedStorage + Worker under every schedule). *)
From TenpyV Require Import Base.Prelude Model.Cache Proofs.CacheP Model.CacheThread.
Open Scope Z_scope.

(* ------------------------------------------------------------------ small facts *)
Lemma d_has_set k k' v d : d_has k' (d_set k v d) = (k' =? k) || d_has k' d.
Proof.
  unfold d_has. destruct (k' =? k) eqn:E.
  - replace k' with k by lia. rewrite d_get_set_eq. reflexivity.
  - rewrite d_get_set_neq by lia. reflexivity.
Qed.

Lemma d_has_del k k' d : d_has k' (d_del k d) = negb (k' =? k) && d_has k' d.
Proof. unfold d_has. rewrite d_get_del. destruct (k' =? k); reflexivity. Qed.

Lemma ks_mem_del k k' s : ks_mem k' (ks_del k s) = negb (k' =? k) && ks_mem k' s.
Proof.
  unfold ks_mem, ks_del. induction s as [|x t IH]; cbn [filter existsb]; [rewrite andb_false_r; reflexivity|].
  destruct (x =? k) eqn:E1; cbn [negb existsb].
  - rewrite IH. destruct (x =? k') eqn:E2, (k' =? k) eqn:E3; cbn [negb andb orb]; try reflexivity; lia.
  - rewrite IH. destruct (x =? k') eqn:E2, (k' =? k) eqn:E3; cbn [negb andb orb]; try reflexivity; lia.
Qed.

Definition b2n (b : bool) : nat := if b then 1%nat else 0%nat.

(* ------------------------------------------------------------------ pending tasks *)
Definition apply_task (t : task) (d : list (Z * Z)) : list (Z * Z) :=
  match t with TLoad _ => d | TSave k v => d_set k v d | TDelete k => d_del k d end.
Definition apply_tasks (l : list task) (d : list (Z * Z)) : list (Z * Z) :=
  fold_left (fun a t => apply_task t a) l d.
Definition is_load (k : Z) (t : task) : bool := match t with TLoad k' => k' =? k | _ => false end.
Definition nload (k : Z) (l : list task) : nat := length (filter (is_load k) l).

Definition load_cond (m d : list (Z * Z)) (t : task) : Prop :=
  match t with
  | TLoad k => d_has k d = true /\ (d_has k m = true -> d_get k d = d_get k m)
  | _ => True
  end.
Fixpoint loads_ok (m d : list (Z * Z)) (l : list task) : Prop :=
  match l with
  | [] => True
  | t :: r => load_cond m d t /\ loads_ok m (apply_task t d) r
  end.

Lemma apply_tasks_snoc p t d : apply_tasks (p ++ [t]) d = apply_task t (apply_tasks p d).
Proof. unfold apply_tasks. rewrite fold_left_app. reflexivity. Qed.

Lemma apply_task_cong t a b : (forall k, d_get k a = d_get k b) ->
  forall k, d_get k (apply_task t a) = d_get k (apply_task t b).
Proof.
  intros H k. destruct t as [k'|k' v|k']; cbn [apply_task]; [apply H| |].
  - destruct (Z.eq_dec k k') as [->|Hne]; [rewrite !d_get_set_eq; reflexivity|].
    rewrite !d_get_set_neq by exact Hne. apply H.
  - rewrite !d_get_del. destruct (k =? k'); [reflexivity|apply H].
Qed.

Lemma nload_snoc k p t : nload k (p ++ [t]) = (nload k p + nload k [t])%nat.
Proof. unfold nload. rewrite filter_app, app_length. reflexivity. Qed.

Lemma nload_cons k t p : nload k (t :: p) = (b2n (is_load k t) + nload k p)%nat.
Proof. unfold nload. cbn [filter]. destruct (is_load k t); reflexivity. Qed.

Lemma loads_ok_snoc m p : forall d t,
  loads_ok m d (p ++ [t]) <-> loads_ok m d p /\ load_cond m (apply_tasks p d) t.
Proof.
  induction p as [|x r IH]; intros d t; cbn [app loads_ok].
  - unfold apply_tasks; cbn [fold_left]. tauto.
  - rewrite IH. unfold apply_tasks; cbn [fold_left]. tauto.
Qed.

(* changing the specification map is harmless for keys without a pending load *)
Lemma loads_ok_change_m m m' p : forall d,
  (forall k, (0 < nload k p)%nat -> d_has k m' = true -> d_has k m = true /\ d_get k m' = d_get k m) ->
  loads_ok m d p -> loads_ok m' d p.
Proof.
  induction p as [|t r IH]; intros d Hc H; cbn [loads_ok] in *; [exact I|].
  destruct H as [H1 H2]. split.
  - destruct t as [k|k v|k]; cbn [load_cond] in *; try exact I.
    destruct H1 as [Ha Hb]. split; [exact Ha|]. intros Hm'.
    destruct (Hc k) as [Hm He]; [rewrite nload_cons; cbn [is_load]; rewrite Z.eqb_refl; cbn [b2n]; lia|exact Hm'|].
    rewrite He. apply Hb. exact Hm.
  - apply IH; [|exact H2]. intros k Hk. apply Hc. rewrite nload_cons. lia.
Qed.

(* ------------------------------------------------------------------ invariant for linearizability *)
Definition pcq (p : pcs) : list task := match p with PPut t _ => [t] | _ => [] end.

Definition cur_op (p : pcs) : list s_op :=
  match p with
  | PIdle => []
  | PPut (TLoad k) KDone => [SPreload k]
  | PPut (TLoad k) (KLoadB _) => [SLoad k]
  | PPut (TSave k v) _ => [SSave k v]
  | PPut (TDelete k) _ => [SDelete k]
  | PLoadB k | PLoadJ k => [SLoad k]
  | PSaveJ k v => [SSave k v]
  end.

Definition pc_ok (w : list Z) (p : pcs) : Prop :=
  match p with
  | PIdle => True
  | PPut (TLoad k) c => c = KDone \/ c = KLoadB k
  | PPut (TSave k v) c => c = KDone /\ ks_mem k w = false
  | PPut (TDelete k) c => c = KDone
  | PLoadB k | PLoadJ k => ks_mem k w = true
  | PSaveJ k v => ks_mem k w = true
  end.

Definition LInv (prog0 : list s_op) (st : tstate) : Prop :=
  exists m,
    t_unfinished st = length (pending st) /\
    dead st = false /\
    (forall k, d_get k (apply_tasks (pending st) (t_disk st)) = d_get k m) /\
    (forall k, (nload k (pending st) + nload k (pcq (t_pc st)) + b2n (d_has k (t_loaded st))
                = b2n (ks_mem k (t_waiting st)))%nat) /\
    loads_ok m (t_disk st) (pending st) /\
    (forall k v, d_get k (t_loaded st) = Some v -> d_has k m = true -> d_get k m = Some v) /\
    pc_ok (t_waiting st) (t_pc st) /\
    rev (t_outs st) ++ spec_outs m (cur_op (t_pc st) ++ t_prog st) = spec_outs [] prog0 /\
    wf m (cur_op (t_pc st) ++ t_prog st) = true.

Lemma LInv_init prog : wf [] prog = true -> LInv prog (init prog).
Proof.
  intros Hwf. exists []. unfold init, pending, dead; cbn.
  repeat split; try reflexivity; try exact Hwf; try exact I. intros k v H. discriminate.
Qed.

Ltac b2n_lia :=
  repeat match goal with
  | |- context [b2n ?b] => destruct b eqn:?; cbn [b2n]
  | H : context [b2n ?b] |- _ => destruct b eqn:?; cbn [b2n] in H
  end; try lia; try congruence.

(* ---- the worker *)
Lemma worker_LInv prog0 st st' :
  LInv prog0 st -> worker_step None st = Some st' -> LInv prog0 st'.
Proof.
  destruct st as [disk q u s n l w pc prog outs].
  intros (m & HU & Hal & H0 & H1 & H2 & H3 & Hpc & HJ & Hwf).
  unfold pending, dead in *. cbn [t_unfinished t_status t_queue t_disk t_loaded t_waiting t_pc t_prog t_outs] in *.
  unfold worker_step. cbn [t_status t_queue t_unfinished t_started t_disk t_loaded].
  destruct s as [|t| |]; try discriminate.
  - (* take the next task *)
    destruct q as [|t q']; [discriminate|]. intros E. injection E as <-.
    exists m. unfold pending, dead, set_worker.
    cbn [t_unfinished t_status t_queue t_disk t_loaded t_waiting t_pc t_prog t_outs app] in *.
    repeat split; assumption.
  - (* run it *)
    cbn [app] in *. destruct H2 as [Hc H2].
    destruct t as [k|k v|k]; cbn [exec_task].
    + cbn [load_cond] in Hc. destruct Hc as [Hd Hm].
      unfold d_has in Hd. destruct (d_get k disk) as [v|] eqn:E; [|discriminate].
      intros E2. injection E2 as <-.
      exists m. unfold pending, dead, set_worker.
      cbn [t_unfinished t_status t_queue t_disk t_loaded t_waiting t_pc t_prog t_outs app].
      split; [cbn [length] in HU; lia|]. split; [reflexivity|]. split; [exact H0|]. split.
      { intros k'. specialize (H1 k'). rewrite nload_cons in H1. cbn [is_load] in H1.
        rewrite d_has_set. destruct (k' =? k) eqn:E3.
        - replace k' with k in * by lia. rewrite Z.eqb_refl in H1. cbn [orb]. b2n_lia.
        - rewrite (Z.eqb_sym k k'), E3 in H1. cbn [orb b2n] in *. lia. }
      split; [exact H2|]. split; [|tauto].
      intros k' v' Hg Hh. destruct (Z.eq_dec k' k) as [->|Hne].
      * rewrite d_get_set_eq in Hg. injection Hg as <-. rewrite <- (Hm Hh). exact E.
      * rewrite d_get_set_neq in Hg by exact Hne. apply H3; assumption.
    + intros E2. injection E2 as <-.
      exists m. unfold pending, dead, set_worker.
      cbn [t_unfinished t_status t_queue t_disk t_loaded t_waiting t_pc t_prog t_outs app].
      split; [cbn [length] in HU; lia|]. split; [reflexivity|]. split; [exact H0|]. split.
      { intros k'. specialize (H1 k'). rewrite nload_cons in H1. cbn [is_load b2n] in H1. lia. }
      tauto.
    + intros E2. injection E2 as <-.
      exists m. unfold pending, dead, set_worker.
      cbn [t_unfinished t_status t_queue t_disk t_loaded t_waiting t_pc t_prog t_outs app].
      split; [cbn [length] in HU; lia|]. split; [reflexivity|]. split; [exact H0|]. split.
      { intros k'. specialize (H1 k'). rewrite nload_cons in H1. cbn [is_load b2n] in H1. lia. }
      tauto.
Qed.
