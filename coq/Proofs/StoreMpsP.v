(* Proofs about Model/StoreMps.v: the MPS layer on the store model (frame of get_B / measurements / set_B,
   aliasing of get_B(copy=False), the constructor copies) and LegCharge objects shared between tensors. *)
From TenpyV Require Import Base.Prelude Model.Store Model.StoreMps Proofs.StoreP Proofs.StoreP2.
Open Scope nat_scope.

(* ---- disjoint block lists *)
Lemma shares_false h x y :
  (forall i, In i (blk (obj h x)) -> ~ In i (blk (obj h y))) -> shares_buffer h x y = false.
Proof.
  intros Hd. unfold shares_buffer. apply not_true_is_false. intros H.
  apply existsb_exists in H. destruct H as [i [Hi H]]. apply existsb_exists in H. destruct H as [j [Hj Hij]].
  apply Nat.eqb_eq in Hij. subst j. exact (Hd i Hi Hj).
Qed.

(* ---- h' extends h: well-formed, no tensor deallocated, every tensor of h reads the same *)
Definition ext (h h' : heap) : Prop :=
  wf h' /\ length (objs h) <= length (objs h') /\ forall x, x < length (objs h) -> denote h' x = denote h x.

Lemma ext_refl h : wf h -> ext h h.
Proof. intros Hwf. repeat split; [exact Hwf|lia]. Qed.

Lemma ext_trans h1 h2 h3 : ext h1 h2 -> ext h2 h3 -> ext h1 h3.
Proof.
  intros [_ [L1 F1]] [W3 [L2 F2]]. repeat split; [exact W3|lia|].
  intros x Hx. rewrite F2 by lia. apply F1, Hx.
Qed.

Lemma frame_old h o n0 x : wf h -> n0 <= length (objs h) -> meas_op_ok n0 o -> x < n0 ->
  denote (fst (exec h o)) x = denote h x.
Proof.
  intros Hwf Hn Hok Hx. apply frame_may_change; [exact Hwf|lia|].
  unfold may_change. unfold meas_op_ok in Hok. destruct (inplace_receiver o) as [r|]; [|intros []].
  destruct Hok as [Hw Hr]. rewrite Hw. intros [H|[]]. lia.
Qed.

Lemma ext_pure h o : wf h -> op_ok h o -> inplace_receiver o = None -> ext h (fst (exec h o)).
Proof.
  intros Hwf Hok Hp. repeat split; [apply wf_exec; assumption|apply objs_mono|].
  intros x Hx. apply (frame_old h o (length (objs h))); [exact Hwf|lia| |exact Hx].
  unfold meas_op_ok. rewrite Hp. exact I.
Qed.

Lemma mps_wf_mono h h' m : length (objs h) <= length (objs h') -> mps_wf h m -> mps_wf h' m.
Proof.
  intros Hl [Hs Hf]. split; [|exact Hf]. eapply Forall_impl; [|exact Hs]. unfold live. intros; lia.
Qed.

Lemma site_live h m i : mps_wf h m -> i < length (sites m) -> live h (site m i).
Proof. intros [Hs _] Hi. rewrite Forall_forall in Hs. apply Hs. unfold site. apply nth_In, Hi. Qed.

(* ---- get_B *)
Lemma scale_step_spec sc hr sv d : wf (fst hr) -> live (fst hr) (snd hr) ->
  ext (fst hr) (fst (scale_step sc hr sv d)) /\ live (fst (scale_step sc hr sv d)) (snd (scale_step sc hr sv d)) /\
  (scale_step sc hr sv d = hr \/ length (objs (fst hr)) <= snd (scale_step sc hr sv d)).
Proof.
  intros Hwf Hl. unfold scale_step. destruct (Z.eqb d 0).
  - split; [apply ext_refl, Hwf|]. split; [exact Hl|left; reflexivity].
  - split; [apply ext_pure; [exact Hwf|exact Hl|reflexivity]|].
    split; [apply res_live; exact Hl|right]. cbn [exec rebind snd]. lia.
Qed.

Lemma get_B_spec sc h m i fm cp h' r : wf h -> mps_wf h m -> i < length (sites m) ->
  get_B sc h m i fm cp = Some (h', r) ->
  ext h h' /\ live h' r /\ ((h' = h /\ r = site m i /\ cp = false) \/ length (objs h) <= r).
Proof.
  intros Hwf Hm Hi. pose proof (site_live h m i Hm Hi) as Hl.
  unfold get_B.
  set (hr0 := if cp then exec h (OCopy true (site m i)) else (h, site m i)).
  assert (P0 : ext h (fst hr0) /\ live (fst hr0) (snd hr0) /\
               ((hr0 = (h, site m i) /\ cp = false) \/ length (objs h) <= snd hr0)).
  { unfold hr0. destruct cp.
    - split; [apply ext_pure; [exact Hwf|exact Hl|reflexivity]|].
      split; [apply res_live; exact Hl|right]. cbn [exec deep_copy snd]. lia.
    - cbn [fst snd]. split; [apply ext_refl, Hwf|]. split; [exact Hl|left; split; reflexivity]. }
  clearbody hr0. destruct P0 as [E0 [L0 C0]].
  destruct fm as [[nl nr]|].
  - destruct (nth i (forms m) None) as [[pl pr]|]; [|discriminate].
    intros Heq. injection Heq as Heq.
    pose proof (scale_step_spec sc hr0 (nth i (svs m) []) (Z.sub nl pl) (proj1 E0) L0) as [E1 [L1 C1]].
    set (hr1 := scale_step sc hr0 (nth i (svs m) []) (Z.sub nl pl)) in *.
    pose proof (scale_step_spec sc hr1 (nth (S i) (svs m) []) (Z.sub nr pr) (proj1 E1) L1) as [E2 [L2 C2]].
    set (hr2 := scale_step sc hr1 (nth (S i) (svs m) []) (Z.sub nr pr)) in *.
    assert (H1 : h' = fst hr2) by (rewrite Heq; reflexivity).
    assert (H2 : r = snd hr2) by (rewrite Heq; reflexivity).
    subst h' r. clear Heq.
    split; [apply (ext_trans h (fst hr0)); [exact E0|apply (ext_trans _ (fst hr1)); assumption]|].
    split; [exact L2|].
    destruct E0 as [_ [G0 _]]. destruct E1 as [_ [G1 _]].
    destruct C2 as [C2|C2]; [|right; lia]. rewrite C2.
    destruct C1 as [C1|C1]; [|right; lia]. rewrite C1.
    destruct C0 as [[C0 Hc]|C0]; [|right; lia]. rewrite C0. left. repeat split. exact Hc.
  - intros Heq. injection Heq as Heq.
    assert (H1 : h' = fst hr0) by (rewrite Heq; reflexivity).
    assert (H2 : r = snd hr0) by (rewrite Heq; reflexivity).
    subst h' r. clear Heq.
    split; [exact E0|]. split; [exact L0|].
    destruct C0 as [[C0 Hc]|C0]; [|right; exact C0]. rewrite C0. left. repeat split. exact Hc.
Qed.

(* get_B(copy=False) with a form that needs no conversion returns the stored reference, heap untouched *)
Lemma get_B_alias sc h m i fm : form_matches m i fm -> get_B sc h m i fm false = Some (h, site m i).
Proof.
  intros [->|[Hn Hf]]; [reflexivity|].
  unfold get_B. destruct fm as [[nl nr]|]; [|congruence]. rewrite <- Hf.
  rewrite !Z.sub_diag. reflexivity.
Qed.

(* get_B(copy=True) with a form that needs no conversion returns a fresh deep copy *)
Lemma get_B_copy sc h m i fm : form_matches m i fm ->
  get_B sc h m i fm true = Some (exec h (OCopy true (site m i))).
Proof.
  intros [->|[Hn Hf]]; [reflexivity|].
  unfold get_B. destruct fm as [[nl nr]|]; [|congruence]. rewrite <- Hf.
  rewrite !Z.sub_diag. reflexivity.
Qed.

(* ---- measurement programs *)
Lemma meas_frame sc m n0 prog : forall h, wf h -> mps_wf h m -> n0 <= length (objs h) -> meas_ok sc n0 h m prog ->
  wf (run_meas sc h m prog) /\ length (objs h) <= length (objs (run_meas sc h m prog)) /\
  forall x, x < n0 -> denote (run_meas sc h m prog) x = denote h x.
Proof.
  induction prog as [|st t IH]; intros h Hwf Hm Hn Hok; cbn [run_meas meas_ok] in *.
  - repeat split; [exact Hwf|lia].
  - destruct st as [i fm cp|o].
    + destruct Hok as [Hi Hok].
      destruct (get_B sc h m i fm cp) as [[h1 r]|] eqn:Eg; [|repeat split; [exact Hwf|lia]].
      cbn [fst] in *.
      destruct (get_B_spec sc h m i fm cp h1 r Hwf Hm Hi Eg) as [[W1 [G1 F1]] _].
      destruct (IH h1 W1 (mps_wf_mono h h1 m G1 Hm) ltac:(lia) Hok) as [W2 [G2 F2]].
      repeat split; [exact W2|lia|]. intros x Hx. rewrite F2 by exact Hx. apply F1. lia.
    + destruct Hok as [Ho [Hmo Hok]].
      pose proof (wf_exec h o Hwf Ho) as W1. pose proof (objs_mono h o) as G1.
      destruct (IH _ W1 (mps_wf_mono _ _ m G1 Hm) ltac:(lia) Hok) as [W2 [G2 F2]].
      repeat split; [exact W2|lia|]. intros x Hx. rewrite F2 by exact Hx.
      apply (frame_old h o n0); assumption.
Qed.

(* ---- set_B *)
Lemma set_B_spec h m i b fm perm : wf h -> mps_wf h m -> live h b -> perm_ok h b perm -> i < length (sites m) ->
  wf (fst (set_B h m i b fm perm)) /\ mps_wf (fst (set_B h m i b fm perm)) (snd (set_B h m i b fm perm)) /\
  site (snd (set_B h m i b fm perm)) i = b /\ nth i (forms (snd (set_B h m i b fm perm))) None = fm /\
  (forall j, j <> i -> site (snd (set_B h m i b fm perm)) j = site m j /\
                       nth j (forms (snd (set_B h m i b fm perm))) None = nth j (forms m) None) /\
  nrm (snd (set_B h m i b fm perm)) = nrm m /\ svs (snd (set_B h m i b fm perm)) = svs m /\
  length (sites (snd (set_B h m i b fm perm))) = length (sites m) /\
  (forall x, x < length (objs h) -> x <> b -> denote (fst (set_B h m i b fm perm)) x = denote h x).
Proof.
  intros Hwf [Hs Hf] Hb Hp Hi. unfold set_B, site. cbn [fst snd sites forms nrm svs].
  pose proof (objs_mono h (OMeta b (perm_cols perm) perm)) as Hmono.
  split; [apply wf_exec; [exact Hwf|split; assumption]|].
  split.
  { unfold mps_wf. cbn [sites forms]. split; [|rewrite !upd_length; exact Hf]. apply Forall_forall. intros c Hc. apply In_upd in Hc.
    rewrite Forall_forall in Hs. unfold live in *. destruct Hc as [Hc| ->]; [specialize (Hs c Hc)|]; lia. }
  split; [apply nth_upd_same, Hi|]. split; [apply nth_upd_same; lia|].
  split; [intros j Hj; split; apply nth_upd_other; exact Hj|].
  split; [reflexivity|]. split; [reflexivity|]. split; [apply upd_length|].
  intros x Hx Hne. apply frame_may_change; [exact Hwf|exact Hx|]. cbn. intros [H|[]]. congruence.
Qed.

(* ---- an in-place method applied through the alias returned by get_B(copy=False) *)
Lemma alias_inplace_frame h m i o : wf h -> mps_wf h m -> mps_sep h m -> i < length (sites m) ->
  inplace_receiver o = Some (site m i) ->
  forall j, j < length (sites m) -> j <> i -> denote (fst (exec h o)) (site m j) = denote h (site m j).
Proof.
  intros Hwf Hm [Hnd Hsep] Hi Ho j Hj Hne.
  pose proof (site_live h m j Hm Hj) as Lj.
  assert (Hd : site m j <> site m i).
  { unfold site. intros He. apply Hne. apply (proj1 (NoDup_nth (sites m) 0) Hnd j i Hj Hi He). }
  apply frame_may_change; [exact Hwf|exact Lj|].
  apply (not_in_may_change h o (site m i) (site m j) Ho Lj Hd).
  apply Hsep; [unfold site; apply nth_In, Hj|unfold site; apply nth_In, Hi|exact Hd].
Qed.

(* the write is visible through the MPS: compiled iscale_prefactor through the alias *)
Lemma write_all_self ids f : forall bs, NoDup ids -> Forall (fun i => i < length bs) ids ->
  map (fun i => nth i (write_all ids f bs) []) ids = map (fun i => f (nth i bs [])) ids.
Proof.
  induction ids as [|i t IH]; intros bs Hnd Hlt; cbn [write_all map]; [reflexivity|].
  inversion Hnd as [|i' t' Hni Hnt]; subst. inversion Hlt as [|i' t' Hi Ht]; subst.
  f_equal.
  - rewrite write_all_other by exact Hni. apply nth_upd_same, Hi.
  - rewrite IH; [|exact Hnt|rewrite upd_length; exact Ht].
    apply map_ext_in. intros j Hj. f_equal. apply nth_upd_other. intros ->. exact (Hni Hj).
Qed.

Lemma mapwrite_observed h r f : wf h -> live h r -> NoDup (blk (obj h r)) ->
  denote (fst (exec h (OMapWrite r f))) r =
  (let '(b, t, l, lb, q) := denote h r in (map f b, t, l, lb, q)).
Proof.
  intros Hwf Hr Hnd. pose proof (wf_obj h r Hwf Hr) as [Wb _].
  cbn [exec fst]. unfold denote, obj. cbn [objs]. unfold denote_arr. cbn [bufs tabs legs].
  f_equal. f_equal. f_equal. f_equal. unfold buf. cbn [bufs]. rewrite map_map.
  apply write_all_self; [exact Hnd|exact Wb].
Qed.

(* ---- MPS.__init__: every input tensor is deep-copied (astype(copy=True)) and the copy transposed *)
Definition grows (h h' : heap) : Prop :=
  wf h' /\ length (objs h) <= length (objs h') /\ length (bufs h) <= length (bufs h') /\
  forall x, x < length (objs h) -> obj h' x = obj h x /\ denote h' x = denote h x.

Lemma grows_trans h1 h2 h3 : grows h1 h2 -> grows h2 h3 -> grows h1 h3.
Proof.
  intros [_ [L1 [B1 F1]]] [W3 [L2 [B2 F2]]]. repeat split; [exact W3|lia|lia| |];
    destruct (F1 x H) as [O1 D1]; destruct (F2 x ltac:(lia)) as [O2 D2]; congruence.
Qed.

(* c was allocated between h and h' and owns buffers allocated after h *)
Definition fresh_site (h h' : heap) (c : nat) : Prop :=
  length (objs h) <= c < length (objs h') /\
  Forall (fun i => length (bufs h) <= i) (blk (obj h' c)) /\ NoDup (blk (obj h' c)).

Lemma nth_map_default {A B} (f : A -> B) (l : list A) k dA dB :
  k < length l -> nth k (map f l) dB = f (nth k l dA).
Proof. intros Hk. rewrite (nth_indep _ dB (f dA)) by (rewrite map_length; exact Hk). apply map_nth. Qed.

Lemma init_site_spec h b perm : wf h -> live h b -> perm_ok h b perm ->
  grows h (fst (init_site h (b, perm))) /\ fresh_site h (fst (init_site h (b, perm))) (snd (init_site h (b, perm))) /\
  denote (fst (init_site h (b, perm))) (snd (init_site h (b, perm))) = transpose_value perm (denote h b).
Proof.
  intros Hwf Hb Hp. unfold init_site. cbn [fst snd].
  assert (Hs : snd (exec h (OCopy true b)) = length (objs h)) by reflexivity. rewrite Hs.
  set (c := length (objs h)). set (h1 := fst (exec h (OCopy true b))).
  pose proof (wf_obj h b Hwf Hb) as [Wb [Wt Wl]].
  assert (W1 : wf h1) by (apply wf_exec; assumption).
  assert (L1 : length (objs h1) = S c).
  { unfold h1. cbn [exec deep_copy fst]. unfold add_obj. cbn [objs]. rewrite app_length. cbn [length]. unfold c. lia. }
  assert (B1 : bufs h1 = bufs h ++ map (buf h) (blk (obj h b))) by reflexivity.
  assert (T1 : tabs h1 = tabs h ++ [nth (tab (obj h b)) (tabs h) []]) by reflexivity.
  assert (G1 : legs h1 = legs h) by reflexivity.
  assert (O1c : obj h1 c = mkArr (fresh_ids (length (bufs h)) (length (map (buf h) (blk (obj h b))))) (length (tabs h))
                                 (lg (obj h b)) (lab (obj h b)) (qt (obj h b))).
  { unfold h1. cbn [exec deep_copy fst]. unfold obj at 1, add_obj. cbn [objs].
    unfold c. rewrite app_nth2, Nat.sub_diag by lia. reflexivity. }
  assert (O1x : forall x, x < c -> obj h1 x = obj h x).
  { intros x Hx. unfold h1. cbn [exec deep_copy fst]. unfold obj, add_obj. cbn [objs]. apply app_nth1, Hx. }
  assert (D1x : forall x, x < c -> denote h1 x = denote h x).
  { intros x Hx. apply frame_may_change; [exact Hwf|exact Hx|intros []]. }
  assert (Ok1 : op_ok h1 (OMeta c (perm_cols perm) perm)).
  { split; [unfold live; lia|]. unfold perm_ok. rewrite O1c. cbn [lg]. exact Hp. }
  assert (Hs2 : snd (exec h1 (OMeta c (perm_cols perm) perm)) = c) by reflexivity. rewrite Hs2.
  set (h2 := fst (exec h1 (OMeta c (perm_cols perm) perm))).
  assert (W2 : wf h2) by (apply wf_exec; assumption).
  assert (L2 : length (objs h2) = S c).
  { unfold h2. cbn [exec fst]. unfold set_obj. cbn [objs]. rewrite upd_length. exact L1. }
  assert (B2 : bufs h2 = bufs h1) by reflexivity.
  assert (O2c : obj h2 c = mkArr (blk (obj h1 c)) (length (tabs h1)) (map (fun k => nth k (lg (obj h1 c)) 0) perm)
                                 (map (fun k => nth k (lab (obj h1 c)) 0) perm) (qt (obj h1 c))).
  { unfold h2. cbn [exec fst]. unfold obj at 1, set_obj. cbn [objs]. apply nth_upd_same. lia. }
  assert (O2x : forall x, x < c -> obj h2 x = obj h1 x).
  { intros x Hx. unfold h2. cbn [exec fst]. rewrite obj_set_other by lia. reflexivity. }
  assert (D2x : forall x, x < c -> denote h2 x = denote h1 x).
  { intros x Hx. apply frame_may_change; [exact W1|lia|]. cbn. intros [H|[]]. lia. }
  split; [|split].
  - split; [exact W2|]. split; [lia|]. split; [rewrite B2, B1, app_length; lia|].
    intros x Hx. fold c in Hx. split; [rewrite O2x, O1x by exact Hx; reflexivity|rewrite D2x, D1x by exact Hx; reflexivity].
  - split; [fold c; lia|]. rewrite O2c. cbn [blk]. rewrite O1c. cbn [blk]. unfold fresh_ids.
    split; [apply Forall_forall; intros i Hi; apply in_seq in Hi; lia|apply seq_NoDup].
  - unfold denote at 1. rewrite O2c. unfold denote_arr. cbn [blk tab lg lab qt]. rewrite O1c. cbn [blk tab lg lab qt].
    unfold denote, denote_arr, transpose_value.
    assert (E1 : map (buf h2) (fresh_ids (length (bufs h)) (length (map (buf h) (blk (obj h b))))) = map (buf h) (blk (obj h b))).
    { unfold fresh_ids.
      change (buf h2) with (buf (mkHeap (bufs h2) [] [] [])). rewrite B2, B1. apply map_nth_fresh. }
    assert (E2 : nth (length (tabs h1)) (tabs h2) [] = perm_cols perm (nth (tab (obj h b)) (tabs h) [])).
    { unfold h2. cbn [exec fst set_obj tabs]. rewrite app_nth2, Nat.sub_diag by lia. cbn [nth].
      rewrite O1c. cbn [tab]. fold h1. rewrite T1. rewrite app_nth2, Nat.sub_diag by lia. reflexivity. }
    assert (E3 : map (fun i => nth i (legs h2) dleg) (map (fun k => nth k (lg (obj h b)) 0) perm) =
                 map (fun k => nth k (map (fun i => nth i (legs h) dleg) (lg (obj h b))) dleg) perm).
    { rewrite map_map. apply map_ext_in. intros k Hk. unfold perm_ok in Hp. rewrite Forall_forall in Hp.
      rewrite (nth_map_default _ _ k 0 dleg) by (apply Hp, Hk). reflexivity. }
    rewrite E1, E2, E3. reflexivity.
Qed.

Definition inputs_ok (h : heap) (Bs : list (nat * list nat)) : Prop :=
  Forall (fun bp => live h (fst bp) /\ perm_ok h (fst bp) (snd bp)) Bs.

Definition sites_ok (h h' : heap) (cs : list nat) : Prop :=
  Forall (fresh_site h h') cs /\ NoDup cs /\
  forall x y, In x cs -> In y cs -> x <> y -> forall i, In i (blk (obj h' x)) -> ~ In i (blk (obj h' y)).

Lemma init_sites_spec Bs : forall h, wf h -> inputs_ok h Bs ->
  grows h (fst (init_sites h Bs)) /\ length (snd (init_sites h Bs)) = length Bs /\
  sites_ok h (fst (init_sites h Bs)) (snd (init_sites h Bs)) /\
  forall j, j < length Bs ->
    denote (fst (init_sites h Bs)) (nth j (snd (init_sites h Bs)) 0) =
    transpose_value (snd (nth j Bs (0, []))) (denote h (fst (nth j Bs (0, [])))).
Proof.
  induction Bs as [|[b perm] t IH]; intros h Hwf Hin; cbn [init_sites fst snd].
  - split; [repeat split; [exact Hwf|lia|lia]|]. split; [reflexivity|].
    split; [split; [constructor|split; [constructor|intros x y []]]|]. cbn [length]. intros j Hj. lia.
  - inversion Hin as [|bp t' [Hb Hp] Ht]; subst. cbn [fst snd] in Hb, Hp.
    destruct (init_site_spec h b perm Hwf Hb Hp) as [G1 [Fc Vc]].
    set (h1 := fst (init_site h (b, perm))) in *. set (c := snd (init_site h (b, perm))) in *.
    pose proof G1 as [W1 [L1 [B1 F1]]].
    assert (Hin1 : inputs_ok h1 t).
    { unfold inputs_ok in *. eapply Forall_impl; [|exact Ht]. intros [b' p'] [Hb' Hp']. cbn [fst snd] in *.
      unfold live in *. split; [lia|]. unfold perm_ok in *. rewrite (proj1 (F1 b' Hb')). exact Hp'. }
    destruct (IH h1 W1 Hin1) as [G2 [Len [[F2 [ND2 D2]] V2]]].
    set (h2 := fst (init_sites h1 t)) in *. set (cs := snd (init_sites h1 t)) in *.
    pose proof G2 as [W2 [L2 [B2 F2x]]].
    destruct Fc as [[Lc Uc] [Fb Nb]].
    assert (Oc : obj h2 c = obj h1 c) by (apply (F2x c Uc)).
    rewrite Forall_forall in F2.
    split; [apply (grows_trans h h1 h2); assumption|].
    split; [cbn [length]; rewrite Len; reflexivity|].
    split; [split; [|split]|].
    + constructor.
      * split; [lia|]. rewrite Oc. split; assumption.
      * apply Forall_forall. intros y Hy. destruct (F2 y Hy) as [[Ly Uy] [Fy Ny]].
        split; [lia|]. split; [|exact Ny]. eapply Forall_impl; [|exact Fy]. cbn beta. intros; lia.
    + constructor; [|exact ND2]. intros Hc. destruct (F2 c Hc) as [[Ly _] _]. lia.
    + assert (Hcy : forall y i, In y cs -> In i (blk (obj h2 c)) -> In i (blk (obj h2 y)) -> False).
      { intros y i Hy Hic Hiy. rewrite Oc in Hic.
        destruct (wf_obj h1 c W1 Uc) as [Wb _]. rewrite Forall_forall in Wb. specialize (Wb i Hic).
        destruct (F2 y Hy) as [_ [Fy _]]. rewrite Forall_forall in Fy. specialize (Fy i Hiy). lia. }
      intros x y [<-|Hx] [<-|Hy] Hne i Hix Hiy.
      * congruence.
      * exact (Hcy y i Hy Hix Hiy).
      * exact (Hcy x i Hx Hiy Hix).
      * exact (D2 x y Hx Hy Hne i Hix Hiy).
    + intros [|j] Hj; cbn [nth fst snd length] in *.
      * rewrite (proj2 (F2x c Uc)). exact Vc.
      * rewrite V2 by lia. f_equal.
        unfold inputs_ok in Ht. rewrite Forall_forall in Ht.
        assert (Hjt : j < length t) by lia.
        destruct (Ht (nth j t (0, [])) (nth_In t (0, []) Hjt)) as [Hl _].
        apply (F1 _ Hl).
Qed.

(* the constructor: result well-formed, sites pairwise separate, the caller's tensors untouched, site values are the
   transposed input values, and afterwards no in-place method on a caller's tensor changes a site or vice versa *)
Lemma mps_init_spec h Bs fms n sv : wf h -> inputs_ok h Bs -> length fms = length Bs ->
  wf (fst (mps_init h Bs fms n sv)) /\ mps_wf (fst (mps_init h Bs fms n sv)) (snd (mps_init h Bs fms n sv)) /\
  mps_sep (fst (mps_init h Bs fms n sv)) (snd (mps_init h Bs fms n sv)) /\
  length (sites (snd (mps_init h Bs fms n sv))) = length Bs /\
  forms (snd (mps_init h Bs fms n sv)) = fms /\ nrm (snd (mps_init h Bs fms n sv)) = n /\
  svs (snd (mps_init h Bs fms n sv)) = sv /\
  (forall x, x < length (objs h) -> denote (fst (mps_init h Bs fms n sv)) x = denote h x) /\
  (forall j, j < length Bs ->
     length (objs h) <= site (snd (mps_init h Bs fms n sv)) j /\
     NoDup (blk (obj (fst (mps_init h Bs fms n sv)) (site (snd (mps_init h Bs fms n sv)) j))) /\
     denote (fst (mps_init h Bs fms n sv)) (site (snd (mps_init h Bs fms n sv)) j) =
     transpose_value (snd (nth j Bs (0, []))) (denote h (fst (nth j Bs (0, []))))) /\
  (forall o r j, inplace_receiver o = Some r -> r < length (objs h) -> j < length Bs ->
     denote (fst (exec (fst (mps_init h Bs fms n sv)) o)) (site (snd (mps_init h Bs fms n sv)) j) =
     denote (fst (mps_init h Bs fms n sv)) (site (snd (mps_init h Bs fms n sv)) j)) /\
  (forall o j x, inplace_receiver o = Some (site (snd (mps_init h Bs fms n sv)) j) -> j < length Bs ->
     x < length (objs h) ->
     denote (fst (exec (fst (mps_init h Bs fms n sv)) o)) x = denote (fst (mps_init h Bs fms n sv)) x).
Proof.
  intros Hwf Hin Hlen. unfold mps_init, site. cbn [fst snd sites forms nrm svs].
  destruct (init_sites_spec Bs h Hwf Hin) as [[W2 [L2 [B2 F2x]]] [Len [[F2 [ND2 D2]] V2]]].
  set (h2 := fst (init_sites h Bs)) in *. set (cs := snd (init_sites h Bs)) in *.
  rewrite Forall_forall in F2.
  assert (Hnth : forall j, j < length Bs -> In (nth j cs 0) cs) by (intros j Hj; apply nth_In; lia).
  (* a site and a tensor of the caller share no buffer *)
  assert (Hdis : forall c r, In c cs -> r < length (objs h) ->
                 forall i, In i (blk (obj h2 c)) -> In i (blk (obj h2 r)) -> False).
  { intros c r Hc Hr i Hic Hir. destruct (F2 c Hc) as [_ [Fc _]]. rewrite Forall_forall in Fc. specialize (Fc i Hic).
    rewrite (proj1 (F2x r Hr)) in Hir. destruct (wf_obj h r Hwf Hr) as [Wb _]. rewrite Forall_forall in Wb.
    specialize (Wb i Hir). lia. }
  split; [exact W2|].
  split; [split; [|cbn [sites forms]; lia]; cbn [sites]; apply Forall_forall; intros c Hc; destruct (F2 c Hc) as [[_ U] _]; exact U|].
  split; [split; [exact ND2|]; cbn [sites]; intros x y Hx Hy Hne; apply shares_false; exact (D2 x y Hx Hy Hne)|].
  split; [exact Len|]. split; [reflexivity|]. split; [reflexivity|]. split; [reflexivity|].
  split; [intros x Hx; apply (F2x x Hx)|].
  split; [intros j Hj; destruct (F2 _ (Hnth j Hj)) as [[L _] [_ N]]; split; [exact L|split; [exact N|apply V2, Hj]]|].
  split.
  - intros o r j Ho Hr Hj. destruct (F2 _ (Hnth j Hj)) as [[Lc Uc] _].
    apply frame_may_change; [exact W2|exact Uc|].
    apply (not_in_may_change h2 o r _ Ho Uc); [lia|].
    apply shares_false. intros i Hic Hir. exact (Hdis _ r (Hnth j Hj) Hr i Hic Hir).
  - intros o j x Ho Hj Hx. destruct (F2 _ (Hnth j Hj)) as [[Lc Uc] _].
    apply frame_may_change; [exact W2|lia|].
    apply (not_in_may_change h2 o _ x Ho); [lia|lia|].
    apply shares_false. intros i Hix Hic. exact (Hdis _ x (Hnth j Hj) Hx i Hic Hix).
Qed.

(* ---- the Array record of a tensor is only rebound by an in-place method called on that tensor *)
Lemma exec_obj_other h o x : x < length (objs h) ->
  (forall r, inplace_receiver o = Some r -> writes_buffers o = true \/ x <> r) ->
  obj (fst (exec h o)) x = obj h x.
Proof.
  intros Hx Hrec.
  destruct o as [nb lgs|deep r|r f|r b g|r f gt perm|r gt perm|r f gt newlegs|r f|r f|a b g|a b pa pb F];
    cbn [inplace_receiver writes_buffers] in Hrec.
  - cbn [exec fst]. unfold obj. cbn [objs]. apply app_nth1, Hx.
  - destruct deep; cbn [exec deep_copy fst]; unfold obj, add_obj; cbn [objs]; apply app_nth1, Hx.
  - reflexivity.
  - reflexivity.
  - destruct (Hrec r eq_refl) as [H|H]; [discriminate|].
    cbn [exec rebind fst]. rewrite obj_set_other by exact H. reflexivity.
  - destruct (Hrec r eq_refl) as [H|H]; [discriminate|].
    cbn [exec fst]. rewrite obj_set_other by exact H. reflexivity.
  - destruct (Hrec r eq_refl) as [H|H]; [discriminate|].
    cbn [exec fst]. rewrite obj_set_other by exact H. reflexivity.
  - cbn [exec deep_copy fst]. unfold obj. cbn [objs add_obj]. apply app_nth1, Hx.
  - cbn [exec rebind fst]. unfold obj, add_obj. cbn [objs]. apply app_nth1, Hx.
  - cbn [exec deep_copy fst]. unfold obj. cbn [objs add_obj]. apply app_nth1, Hx.
  - cbn [exec rebind]. destruct (F _ _) as [rb rt]. cbn [fst].
    unfold obj. cbn [objs add_obj set_obj].
    rewrite app_nth1 by (rewrite upd_length, app_length, upd_length, app_length; lia).
    rewrite nth_upd_other by lia.
    rewrite app_nth1 by (rewrite upd_length, app_length; lia).
    rewrite nth_upd_other by lia.
    apply app_nth1, Hx.
Qed.

(* ---- LegCharge objects shared between tensors *)
Lemma legs_view_frame h o y : wf h -> live h y ->
  (forall r, inplace_receiver o = Some r -> writes_buffers o = true \/ y <> r) ->
  legs_view (fst (exec h o)) y = legs_view h y.
Proof.
  intros Hwf Hy Hrec. unfold legs_view. rewrite exec_obj_other by assumption.
  destruct (wf_obj h y Hwf Hy) as [_ [_ Wl]]. rewrite Forall_forall in Wl.
  apply map_ext_in. intros i Hi. apply legs_immutable, Wl, Hi.
Qed.

Lemma legs_run os : forall h i, i < length (legs h) -> nth i (legs (run h os)) dleg = nth i (legs h) dleg.
Proof.
  induction os as [|o t IH]; intros h i Hi; cbn [run]; [reflexivity|].
  rewrite IH by (pose proof (legs_mono h o); lia). apply legs_immutable, Hi.
Qed.

Lemma legs_shared_across_tensors h x y l : wf h -> live h x -> live h y ->
  In l (lg (obj h x)) -> In l (lg (obj h y)) ->
  (forall os, nth l (legs (run h os)) dleg = nth l (legs h) dleg) /\
  (forall o, (forall r, inplace_receiver o = Some r -> writes_buffers o = true \/ y <> r) ->
             legs_view (fst (exec h o)) y = legs_view h y /\
             In (nth l (legs h) dleg) (legs_view (fst (exec h o)) y)).
Proof.
  intros Hwf Hx Hy Hlx Hly.
  destruct (wf_obj h y Hwf Hy) as [_ [_ Wl]]. rewrite Forall_forall in Wl.
  split; [intros os; apply legs_run, Wl, Hly|].
  intros o Hrec. rewrite legs_view_frame by assumption. split; [reflexivity|].
  unfold legs_view. apply (in_map (fun i => nth i (legs h) dleg)), Hly.
Qed.

(* ---- the combined frame statement of the MPS operations *)
Lemma mps_view_ext h h' m : mps_wf h m -> (forall x, x < length (objs h) -> denote h' x = denote h x) ->
  mps_view h' m = mps_view h m.
Proof.
  intros [Hs _] Hf. unfold mps_view. f_equal. f_equal. f_equal.
  rewrite Forall_forall in Hs. apply map_ext_in. intros c Hc. apply Hf, Hs, Hc.
Qed.

Lemma mps_ops_frame sc h m : wf h -> mps_wf h m ->
  (forall i fm cp h' r, i < length (sites m) -> get_B sc h m i fm cp = Some (h', r) ->
     wf h' /\ mps_wf h' m /\ mps_view h' m = mps_view h m /\
     (forall x, x < length (objs h) -> denote h' x = denote h x) /\ live h' r /\
     (cp = true -> length (objs h) <= r /\ ~ In r (sites m))) /\
  (forall i fm, i < length (sites m) -> form_matches m i fm ->
     get_B sc h m i fm true = Some (exec h (OCopy true (site m i))) /\
     snd (exec h (OCopy true (site m i))) = length (objs h) /\
     denote (fst (exec h (OCopy true (site m i)))) (length (objs h)) = denote h (site m i)) /\
  (forall prog, meas_ok sc (length (objs h)) h m prog ->
     wf (run_meas sc h m prog) /\ mps_wf (run_meas sc h m prog) m /\
     mps_view (run_meas sc h m prog) m = mps_view h m /\
     forall x, x < length (objs h) -> denote (run_meas sc h m prog) x = denote h x) /\
  (forall i fm, i < length (sites m) -> form_matches m i fm ->
     get_B sc h m i fm false = Some (h, site m i)) /\
  (forall i o, mps_sep h m -> i < length (sites m) -> inplace_receiver o = Some (site m i) ->
     forall j, j < length (sites m) -> j <> i -> denote (fst (exec h o)) (site m j) = denote h (site m j)).
Proof.
  intros Hwf Hm. split; [|split; [|split; [|split]]].
  - intros i fm cp h' r Hi Hg.
    destruct (get_B_spec sc h m i fm cp h' r Hwf Hm Hi Hg) as [[W1 [G1 F1]] [Lr C]].
    split; [exact W1|]. split; [apply (mps_wf_mono h h' m G1 Hm)|].
    split; [apply mps_view_ext; assumption|]. split; [exact F1|]. split; [exact Lr|].
    intros ->. destruct C as [[_ [_ C]]|C]; [discriminate|]. split; [exact C|].
    intros Hin. destruct Hm as [Hs _]. rewrite Forall_forall in Hs. specialize (Hs r Hin). unfold live in Hs. lia.
  - intros i fm Hi Hf. split; [apply get_B_copy, Hf|]. split; [reflexivity|].
    apply deep_copy_same_value; [exact Hwf|apply site_live; assumption].
  - intros prog Hok.
    destruct (meas_frame sc m (length (objs h)) prog h Hwf Hm (le_n _) Hok) as [W [G F]].
    split; [exact W|]. split; [apply (mps_wf_mono h _ m G Hm)|].
    split; [apply mps_view_ext; assumption|exact F].
  - intros i fm _ Hf. apply get_B_alias, Hf.
  - intros i o Hsep Hi Ho. apply alias_inplace_frame; assumption.
Qed.

(* ---- get_B and measurement programs rebind no pre-existing Array record, so the separation of the sites persists *)
Lemma scale_step_obj sc hr sv d x : x < length (objs (fst hr)) ->
  obj (fst (scale_step sc hr sv d)) x = obj (fst hr) x /\
  length (objs (fst hr)) <= length (objs (fst (scale_step sc hr sv d))).
Proof.
  intros Hx. unfold scale_step. destruct (Z.eqb d 0); [split; [reflexivity|lia]|].
  split; [apply exec_obj_other; [exact Hx|intros r Hr; discriminate]|apply objs_mono].
Qed.

Lemma get_B_obj sc h m i fm cp h' r x : get_B sc h m i fm cp = Some (h', r) -> x < length (objs h) ->
  obj h' x = obj h x.
Proof.
  unfold get_B.
  set (hr0 := if cp then exec h (OCopy true (site m i)) else (h, site m i)).
  intros Hg Hx.
  assert (P0 : obj (fst hr0) x = obj h x /\ length (objs h) <= length (objs (fst hr0))).
  { unfold hr0. destruct cp; [|split; [reflexivity|cbn [fst]; lia]].
    split; [apply exec_obj_other; [exact Hx|intros r' Hr; discriminate]|apply objs_mono]. }
  clearbody hr0. destruct P0 as [O0 L0].
  destruct fm as [[nl nr]|].
  - destruct (nth i (forms m) None) as [[pl pr]|]; [|discriminate]. injection Hg as Hg.
    set (hr1 := scale_step sc hr0 (nth i (svs m) []) (Z.sub nl pl)) in *.
    destruct (scale_step_obj sc hr0 (nth i (svs m) []) (Z.sub nl pl) x ltac:(lia)) as [O1 L1]. fold hr1 in O1, L1.
    destruct (scale_step_obj sc hr1 (nth (S i) (svs m) []) (Z.sub nr pr) x ltac:(lia)) as [O2 _].
    rewrite Hg in O2. cbn [fst] in O2. congruence.
  - injection Hg as Hg. rewrite Hg in O0. exact O0.
Qed.

Lemma meas_obj sc m n0 prog : forall h, wf h -> mps_wf h m -> n0 <= length (objs h) -> meas_ok sc n0 h m prog ->
  forall x, x < n0 -> obj (run_meas sc h m prog) x = obj h x.
Proof.
  induction prog as [|st t IH]; intros h Hwf Hm Hn Hok x Hx; cbn [run_meas meas_ok] in *; [reflexivity|].
  destruct st as [i fm cp|o].
  - destruct Hok as [Hi Hok].
    destruct (get_B sc h m i fm cp) as [[h1 r]|] eqn:Eg; [|reflexivity]. cbn [fst] in *.
    destruct (get_B_spec sc h m i fm cp h1 r Hwf Hm Hi Eg) as [[W1 [G1 F1]] _].
    rewrite (IH h1 W1 (mps_wf_mono h h1 m G1 Hm) ltac:(lia) Hok x Hx).
    apply (get_B_obj sc h m i fm cp h1 r x Eg). lia.
  - destruct Hok as [Ho [Hmo Hok]].
    pose proof (wf_exec h o Hwf Ho) as W1. pose proof (objs_mono h o) as G1.
    rewrite (IH _ W1 (mps_wf_mono _ _ m G1 Hm) ltac:(lia) Hok x Hx).
    apply exec_obj_other; [lia|]. intros r Hr. unfold meas_op_ok in Hmo. rewrite Hr in Hmo. right. lia.
Qed.

Lemma mps_sep_obj h h' m : mps_wf h m -> (forall x, x < length (objs h) -> obj h' x = obj h x) ->
  mps_sep h m -> mps_sep h' m.
Proof.
  intros [Hs _] Ho [Hnd Hsep]. rewrite Forall_forall in Hs. split; [exact Hnd|].
  intros x y Hx Hy Hne. unfold shares_buffer. rewrite (Ho x (Hs x Hx)), (Ho y (Hs y Hy)).
  exact (Hsep x y Hx Hy Hne).
Qed.

Lemma mps_sep_preserved sc h m : wf h -> mps_wf h m -> mps_sep h m ->
  (forall i fm cp h' r, i < length (sites m) -> get_B sc h m i fm cp = Some (h', r) -> mps_sep h' m) /\
  (forall prog, meas_ok sc (length (objs h)) h m prog -> mps_sep (run_meas sc h m prog) m).
Proof.
  intros Hwf Hm Hsep. split.
  - intros i fm cp h' r _ Hg. apply (mps_sep_obj h h' m Hm); [|exact Hsep].
    intros x Hx. apply (get_B_obj sc h m i fm cp h' r x Hg Hx).
  - intros prog Hok. apply (mps_sep_obj h _ m Hm); [|exact Hsep].
    intros x Hx. apply (meas_obj sc m (length (objs h)) prog h Hwf Hm (le_n _) Hok x Hx).
Qed.

Lemma mps_getB_alias sc h m i fm : wf h -> mps_wf h m -> mps_sep h m -> i < length (sites m) ->
  form_matches m i fm ->
  get_B sc h m i fm false = Some (h, site m i) /\
  (forall o, inplace_receiver o = Some (site m i) ->
     forall j, j < length (sites m) -> j <> i -> denote (fst (exec h o)) (site m j) = denote h (site m j)) /\
  (forall f, NoDup (blk (obj h (site m i))) ->
     denote (fst (exec h (OMapWrite (site m i) f))) (site m i) =
     (let '(b, t, l, lb, q) := denote h (site m i) in (map f b, t, l, lb, q))).
Proof.
  intros Hwf Hm Hsep Hi Hf. split; [apply get_B_alias, Hf|]. split.
  - intros o Ho. apply alias_inplace_frame; assumption.
  - intros f Hnd. apply mapwrite_observed; [exact Hwf|apply site_live; assumption|exact Hnd].
Qed.

(* ---- non-vacuity: a two-site MPS built by the constructor from two caller tensors that share a LegCharge *)
Definition ex_h0 : heap :=
  fst (exec (fst (exec (mkHeap [] [] [dleg; dleg] []) (ONew 2 [0; 1; 0]))) (ONew 1 [0; 1; 1])).
Definition ex_Bs : list (nat * list nat) := [(0, [0; 1; 2]); (1, [2; 1; 0])].
Definition ex_sc (sv : list Z) (d : Z) (v : list Z) : list Z := map (Z.mul d) v.
Definition ex_hm : heap * mps := mps_init ex_h0 ex_Bs [form_B; form_A] 1%Z [[1%Z]; [1%Z; 2%Z]; [1%Z]].

Lemma ex_inputs : wf ex_h0 /\ inputs_ok ex_h0 ex_Bs.
Proof.
  split.
  - unfold ex_h0. apply wf_exec; [apply wf_exec; [constructor|]|]; cbn; repeat constructor.
  - unfold inputs_ok, ex_Bs. repeat constructor; cbn; repeat constructor.
Qed.

Lemma ex_mps : wf (fst ex_hm) /\ mps_wf (fst ex_hm) (snd ex_hm) /\ mps_sep (fst ex_hm) (snd ex_hm) /\
  length (sites (snd ex_hm)) = 2.
Proof.
  destruct ex_inputs as [Hwf Hin].
  destruct (mps_init_spec ex_h0 ex_Bs [form_B; form_A] 1%Z [[1%Z]; [1%Z; 2%Z]; [1%Z]] Hwf Hin eq_refl)
    as [W [M [Sp [L _]]]].
  split; [exact W|split; [exact M|split; [exact Sp|exact L]]].
Qed.

Lemma ex_meas : meas_ok ex_sc (length (objs (fst ex_hm))) (fst ex_hm) (snd ex_hm)
  [MsGet 0 form_Th false; MsGet 1 form_A false; MsGet 1 None true;
   MsOp (OTensordot 4 5 [0; 1; 2] [0; 1; 2] (fun _ _ => ([[1%Z]], [[]]))); MsOp (OMeta 8 (fun t => t) []);
   MsGet 0 form_B false; MsOp (OUnary 2 dbl)].
Proof. vm_compute. repeat split; repeat constructor. Qed.

Lemma ex_getB : get_B ex_sc (fst ex_hm) (snd ex_hm) 1 form_B true <> None /\
  form_matches (snd ex_hm) 0 form_B /\ inplace_receiver (OMapWrite (site (snd ex_hm) 0) dbl) = Some (site (snd ex_hm) 0) /\
  denote (fst (exec (fst ex_hm) (OMapWrite (site (snd ex_hm) 0) dbl))) (site (snd ex_hm) 0)
    <> denote (fst ex_hm) (site (snd ex_hm) 0).
Proof. vm_compute. repeat split; try discriminate. right. split; [discriminate|reflexivity]. Qed.

Lemma ex_shared_leg : live ex_h0 0 /\ live ex_h0 1 /\ In 1 (lg (obj ex_h0 0)) /\ In 1 (lg (obj ex_h0 1)).
Proof. vm_compute. repeat split; auto 6. Qed.

(* ---- histories at the MPS level *)
Lemma mps_step_frame sc h m p : wf h -> mps_wf h m -> mps_step_ok sc h m p ->
  wf (mps_step sc h m p) /\ length (objs h) <= length (objs (mps_step sc h m p)) /\
  forall c, In c (sites m) -> denote (mps_step sc h m p) c = denote h c.
Proof.
  intros Hwf Hm Hok. pose proof Hm as [Hs _]. rewrite Forall_forall in Hs.
  destruct p as [i fm cp|prog|o]; cbn [mps_step mps_step_ok] in *.
  - destruct (get_B sc h m i fm cp) as [[h1 r]|] eqn:Eg; [|repeat split; [exact Hwf|lia]].
    destruct (get_B_spec sc h m i fm cp h1 r Hwf Hm Hok Eg) as [[W1 [G1 F1]] _]. cbn [fst].
    repeat split; [exact W1|exact G1|]. intros c Hc. apply F1, Hs, Hc.
  - destruct (meas_frame sc m (length (objs h)) prog h Hwf Hm (le_n _) Hok) as [W [G F]].
    repeat split; [exact W|exact G|]. intros c Hc. apply F, Hs, Hc.
  - destruct Hok as [Ho Hn]. repeat split; [apply wf_exec; assumption|apply objs_mono|].
    intros c Hc. apply frame_may_change; [exact Hwf|apply Hs, Hc|apply Hn, Hc].
Qed.

Lemma mps_history_frame sc m ps : forall h, wf h -> mps_wf h m -> mps_run_ok sc h m ps ->
  wf (mps_run sc h m ps) /\ mps_wf (mps_run sc h m ps) m /\ mps_view (mps_run sc h m ps) m = mps_view h m.
Proof.
  induction ps as [|p t IH]; intros h Hwf Hm Hok; cbn [mps_run mps_run_ok] in *.
  - repeat split; [exact Hwf|apply Hm|apply Hm].
  - destruct Hok as [Hp Ht].
    destruct (mps_step_frame sc h m p Hwf Hm Hp) as [W1 [G1 F1]].
    destruct (IH _ W1 (mps_wf_mono _ _ m G1 Hm) Ht) as [W2 [M2 V2]].
    split; [exact W2|]. split; [exact M2|]. rewrite V2.
    unfold mps_view. f_equal. f_equal. f_equal. apply map_ext_in. exact F1.
Qed.

Lemma ex_mps_history : mps_run_ok ex_sc (fst ex_hm) (snd ex_hm)
  [PGet 0 form_B false; POp (OMapWrite 0 dbl); PGet 1 form_Th true; POp (OMapRebind 4 dbl (fun t => t) [2; 1; 0]);
   PMeas [MsGet 0 form_A false; MsOp (OAdd 5 5 (fun x y => x ++ y))]; POp (OCopy false 2); POp (OProject 1 dbl (fun t => t) [dleg])].
Proof. vm_compute. repeat split; repeat constructor; intros c [<-|[<-|[]]]; intros H; repeat (destruct H as [H|H]; [discriminate H|]); exact H. Qed.
