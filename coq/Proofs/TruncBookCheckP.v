(* The decidable hypotheses tested by the correspondence checkers of Model/TruncBookCheck.v imply the
   hypotheses of the bookkeeping theorems: every case accepted by check_svd_theta_exact /
   check_eigh_rho_exact is an instance of T15_svd_theta_bookkeeping / T15_eigh_rho_bookkeeping. *)
From TenpyV Require Import Base.Prelude Base.PyLib Model.Truncate Model.TruncBook Model.TruncBookCheck
  Proofs.TruncateP Proofs.TruncBookP.
From Coq Require Import QArith.
Open Scope Q_scope.

Lemma qpos_neq0 x : qpos x = true -> ~ x == 0.
Proof.
  unfold qpos. intros H E. apply Bool.negb_true_iff in H.
  assert (L : Qle_bool x 0 = true) by (apply Qle_bool_iff; rewrite E; apply Qle_refl).
  congruence.
Qed.

Lemma svd_hyps_sound S0 r mask nn : svd_hyps S0 r mask nn = true ->
  length mask = length S0 /\ ~ r == 0 /\ ~ nn == 0 /\
  r * r == sumQ (map qsq S0) /\
  nn * nn == sumQ (map qsq (select mask (map (fun x => x / r) S0))).
Proof.
  unfold svd_hyps. rewrite !Bool.andb_true_iff. intros [[[[H1 H2] H3] H4] H5].
  apply Nat.eqb_eq in H1. apply Qeq_bool_eq in H4. apply Qeq_bool_eq in H5.
  repeat split; auto using qpos_neq0.
Qed.

Lemma svd_check_sound S0 r mask nn : svd_hyps S0 r mask nn = true ->
  let out := svd_theta_book S0 r mask nn in
  Forall2 (fun s x => s * so_renorm out == x) (so_S out) (select mask S0) /\
  sumQ (map qsq (so_S out)) == 1 /\
  so_eps out == sumQ (map qsq (select (nmask mask) S0)) / sumQ (map qsq S0) /\
  qsq (so_renorm out) == sumQ (map qsq (select mask S0)) /\
  so_eps out == 1 - qsq (so_renorm out) / (r * r).
Proof.
  intros H. destruct (svd_hyps_sound _ _ _ _ H) as (H1 & H2 & H3 & H4 & H5).
  exact (svd_book_any S0 r mask nn H1 H2 H3 H4 H5).
Qed.

Lemma eigh_hyps_sound W0 mask nn : eigh_hyps W0 mask nn = true ->
  length mask = length W0 /\ ~ sumQ W0 == 0 /\ ~ nn == 0 /\
  nn * nn == sumQ (select mask (map (fun w => w / sumQ W0) W0)).
Proof.
  unfold eigh_hyps. rewrite !Bool.andb_true_iff. intros [[[[H1 H0] H2] H3] H4].
  apply Nat.eqb_eq in H1. apply Qeq_bool_eq in H4.
  repeat split; auto using qpos_neq0.
Qed.

Lemma eigh_check_sound W0 mask nn : eigh_hyps W0 mask nn = true ->
  let out := eigh_rho_book W0 mask nn in
  sumQ (eo_W out) == sumQ W0 /\
  eo_eps out == sumQ (select (nmask mask) W0) / sumQ W0 /\
  Forall2 (fun w w0 => w * (1 - eo_eps out) == w0) (eo_W out) (select mask W0).
Proof.
  intros H. destruct (eigh_hyps_sound _ _ _ H) as (H1 & H2 & H3 & H4).
  exact (eigh_book_any W0 mask nn H1 H2 H3 H4).
Qed.
