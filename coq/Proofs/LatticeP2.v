(* More proofs about Model/Lattice.v (property C19):
   Part D: get_order with a priority permutation enumerates the box. *)
From TenpyV Require Import Base.Prelude Model.Lattice Proofs.LatticeP.
Open Scope Z_scope.

(* ================================================================================================ *)
(* Part D: get_order with priority                                                                   *)
(* ================================================================================================ *)

Lemma in_box_nth row : forall shape,
  in_box row shape <->
  (length row = length shape /\ forall j, (j < length shape)%nat -> 0 <= nth j row 0 < nth j shape 0).
Proof.
  unfold in_box. induction row as [|x row IH]; intros shape.
  - split.
    + intros H. inversion H. split; [reflexivity|]. intros j Hj. cbn in Hj. lia.
    + intros (Hl & _). destruct shape; [constructor|discriminate].
  - split.
    + intros H. inversion H as [|x' L row' r Hx Hr]; subst. apply IH in Hr. destruct Hr as (Hl & Hn).
      split; [cbn; now rewrite Hl|]. intros [|j] Hj; cbn [nth]; [exact Hx|]. apply Hn. cbn in Hj. lia.
    + intros (Hl & Hn). destruct shape as [|L r]; [discriminate|]. constructor.
      * apply (Hn O). cbn. lia.
      * apply IH. split; [cbn in Hl; lia|]. intros j Hj. apply (Hn (S j)). cbn. lia.
Qed.

Lemma nth_map_default {A B} (f : A -> B) (l : list A) k (d : A) (e : B) :
  (k < length l)%nat -> nth k (map f l) e = f (nth k l d).
Proof.
  intros H. rewrite (nth_indep _ e (f d)) by (now rewrite map_length). apply map_nth.
Qed.

Lemma map_nth_seq {A} (l : list A) d : map (fun m => nth m l d) (seq 0 (length l)) = l.
Proof.
  induction l as [|a l IH]; [reflexivity|]. cbn [length seq map nth]. f_equal.
  rewrite <- seq_shift, map_map. exact IH.
Qed.

Lemma nprod_perm l l' : Permutation l l' -> nprod l = nprod l'.
Proof.
  induction 1 as [|x l l' _ IH|x y l|l l' l'' _ IH1 _ IH2]; cbn [nprod].
  - reflexivity.
  - now rewrite IH.
  - ring.
  - congruence.
Qed.

Lemma index_of_nth perm : NoDup perm -> forall k d, (k < length perm)%nat -> index_of (nth k perm d) perm = k.
Proof.
  induction 1 as [|m t Hm Hnd IH]; intros k d Hk; [cbn in Hk; lia|].
  destruct k as [|k]; cbn [nth index_of].
  - now rewrite Nat.eqb_refl.
  - cbn in Hk. destruct (Nat.eqb_spec m (nth k t d)) as [E|E].
    + exfalso. apply Hm. rewrite E. apply nth_In. lia.
    + f_equal. apply IH. lia.
Qed.

Lemma nth_index_of perm j d : In j perm -> (index_of j perm < length perm)%nat /\ nth (index_of j perm) perm d = j.
Proof.
  induction perm as [|m t IH]; intros Hin; [destruct Hin|].
  cbn [index_of]. destruct (Nat.eqb_spec m j) as [E|E].
  - split; [cbn; lia|exact E].
  - destruct Hin as [Hin|Hin]; [contradiction|]. destruct (IH Hin) as (Hl & Hn). split; [cbn; lia|exact Hn].
Qed.

Section Priority.
Variable n : nat.
Variable perm : list nat.
Hypothesis Hperm : Permutation perm (seq 0 n).

Definition unperm (row : list Z) : list Z := map (fun j => nth (index_of j perm) row 0) (seq 0 n).

Lemma perm_nodup : NoDup perm.
Proof. eapply Permutation_NoDup; [apply Permutation_sym, Hperm|apply seq_NoDup]. Qed.

Lemma perm_length : length perm = n.
Proof. rewrite (Permutation_length Hperm). apply seq_length. Qed.

Lemma perm_in m : In m perm <-> (m < n)%nat.
Proof.
  split; intros H.
  - apply (Permutation_in _ Hperm) in H. apply in_seq in H. lia.
  - apply (Permutation_in _ (Permutation_sym Hperm)). apply in_seq. lia.
Qed.

Lemma perm_nth_lt k : (k < n)%nat -> (nth k perm O < n)%nat.
Proof. intros H. apply perm_in. apply nth_In. rewrite perm_length. exact H. Qed.

Lemma unperm_length row : length (unperm row) = n.
Proof. unfold unperm. now rewrite map_length, seq_length. Qed.

Lemma unperm_nth row j : (j < n)%nat -> nth j (unperm row) 0 = nth (index_of j perm) row 0.
Proof.
  intros H. unfold unperm.
  rewrite (nth_map_default (fun j => nth (index_of j perm) row 0) (seq 0 n) j O 0) by (now rewrite seq_length).
  rewrite seq_nth by exact H. reflexivity.
Qed.

Lemma pick_length {A} (d : A) l : length (pick d perm l) = n.
Proof. unfold pick. now rewrite map_length, perm_length. Qed.

Lemma pick_nth {A} (d : A) l k : (k < n)%nat -> nth k (pick d perm l) d = nth (nth k perm O) l d.
Proof.
  intros H. unfold pick. apply (nth_map_default (fun m => nth m l d) perm k O d). now rewrite perm_length.
Qed.

(* the column permutation and its inverse *)
Lemma pick_unperm row : length row = n -> pick 0 perm (unperm row) = row.
Proof.
  intros Hl. apply (nth_ext _ _ 0 0); [now rewrite pick_length|]. intros k Hk. rewrite pick_length in Hk.
  rewrite pick_nth by exact Hk. rewrite unperm_nth by (now apply perm_nth_lt).
  rewrite index_of_nth; [reflexivity|apply perm_nodup|now rewrite perm_length].
Qed.

Lemma unperm_pick row : length row = n -> unperm (pick 0 perm row) = row.
Proof.
  intros Hl. apply (nth_ext _ _ 0 0); [now rewrite unperm_length|]. intros j Hj. rewrite unperm_length in Hj.
  rewrite unperm_nth by exact Hj.
  destruct (nth_index_of perm j O (proj2 (perm_in j) Hj)) as (Hi & Hn). rewrite perm_length in Hi.
  rewrite pick_nth by exact Hi. now rewrite Hn.
Qed.

Variable shape : list Z.
Hypothesis Hn : length shape = n.

Lemma unperm_box row : in_box row (pick 0 perm shape) -> in_box (unperm row) shape.
Proof.
  intros H. apply in_box_nth in H. destruct H as (Hl & Hb). rewrite pick_length in Hl, Hb.
  apply in_box_nth. rewrite Hn. split; [apply unperm_length|]. intros j Hj.
  rewrite unperm_nth by exact Hj.
  destruct (nth_index_of perm j O (proj2 (perm_in j) Hj)) as (Hi & Hnj). rewrite perm_length in Hi.
  specialize (Hb _ Hi). rewrite pick_nth in Hb by exact Hi. now rewrite Hnj in Hb.
Qed.

Lemma pick_box row : in_box row shape -> in_box (pick 0 perm row) (pick 0 perm shape).
Proof.
  intros H. apply in_box_nth in H. destruct H as (Hl & Hb). rewrite Hn in Hl, Hb.
  apply in_box_nth. rewrite !pick_length. split; [reflexivity|]. intros k Hk.
  rewrite !pick_nth by exact Hk. apply Hb. now apply perm_nth_lt.
Qed.

Lemma pick_shape_perm : Permutation (pick 0 perm shape) shape.
Proof.
  unfold pick. eapply Permutation_trans; [apply Permutation_map, Hperm|].
  rewrite <- Hn. rewrite map_nth_seq. apply Permutation_refl.
Qed.

End Priority.

Lemma nodup_map_inj_on {A B} (f : A -> B) (l : list A) :
  NoDup l -> (forall a b, In a l -> In b l -> f a = f b -> a = b) -> NoDup (map f l).
Proof.
  induction 1 as [|a l Ha Hl IH]; intros Hinj; cbn [map]; [constructor|]. constructor.
  - intros Hin. apply in_map_iff in Hin. destruct Hin as (b & Hfb & Hb).
    assert (b = a) by (apply Hinj; [now right|now left|exact Hfb]). subst. contradiction.
  - apply IH. intros x y Hx Hy. apply Hinj; now right.
Qed.

(* get_order(shape, snake_winding, priority) with perm = argsort(priority): every lattice index of the
   box exactly once, for all shapes, snake flags and priority permutations *)
Lemma get_order_priority_perm shape flags perm : Permutation perm (seq 0 (length shape)) ->
  NoDup (get_order shape flags perm) /\
  (forall row, In row (get_order shape flags perm) <-> in_box row shape) /\
  length (get_order shape flags perm) = nprod shape.
Proof.
  intros Hperm. set (n := length shape) in *.
  assert (Hgo : get_order shape flags perm =
                map (unperm n perm) (snake (pick false perm flags) (pick 0 perm shape))) by reflexivity.
  destruct (get_order_perm (pick false perm flags) (pick 0 perm shape)) as (Hnd & Hin & Hlen).
  rewrite Hgo. split; [|split].
  - apply nodup_map_inj_on; [exact Hnd|]. intros a b Ha Hb He.
    apply Hin in Ha. apply Hin in Hb. apply in_box_nth in Ha. apply in_box_nth in Hb.
    destruct Ha as (Hla & _). destruct Hb as (Hlb & _). rewrite (pick_length n perm Hperm) in Hla, Hlb.
    rewrite <- (pick_unperm n perm Hperm a Hla), <- (pick_unperm n perm Hperm b Hlb). now rewrite He.
  - intros row. rewrite in_map_iff. split.
    + intros (r' & <- & Hr'). apply (unperm_box n perm Hperm shape eq_refl). now apply Hin.
    + intros Hb. exists (pick 0 perm row). split.
      * apply (unperm_pick n perm Hperm). apply in_box_nth in Hb. tauto.
      * apply Hin. now apply (pick_box n perm Hperm shape eq_refl).
  - rewrite map_length, Hlen. apply nprod_perm. apply (pick_shape_perm n perm Hperm shape eq_refl).
Qed.

(* ================================================================================================ *)
(* Part E: mps2lat_values puts A[i] at the lattice index mps2lat_idx(i)                              *)
(* ================================================================================================ *)
From TenpyV Require Import Model.LatticeVals.

Lemma zlist_eqb_spec a : forall b, zlist_eqb a b = true <-> a = b.
Proof.
  induction a as [|x a IH]; intros [|y b]; cbn [zlist_eqb]; try (split; [discriminate|discriminate]).
  - split; reflexivity.
  - rewrite andb_true_iff, IH, Z.eqb_eq. split; [intros (-> & ->); reflexivity|intros H; inversion H; auto].
Qed.

Lemma site_eqb_spec a b : site_eqb a b = true <-> a = b.
Proof.
  destruct a as [[x0 xr] u], b as [[y0 yr] v]. cbn [site_eqb].
  rewrite !andb_true_iff, zlist_eqb_spec, !Z.eqb_eq.
  split; [intros ((-> & ->) & ->); reflexivity|intros H; inversion H; auto].
Qed.

Lemma scatter_spec s k : forall rows acc,
  (forall k', In (k', s) rows -> k' = k) -> (In (k, s) rows \/ acc = Some k) ->
  scatter rows s acc = Some k.
Proof.
  induction rows as [|[k1 r1] t IH]; intros acc Hu Hin; cbn [scatter].
  - destruct Hin as [[]|Hacc]. exact Hacc.
  - assert (Hu' : forall k', In (k', s) t -> k' = k) by (intros k' H; apply Hu; now right).
    destruct (site_eqb r1 s) eqn:E.
    + apply site_eqb_spec in E. subst r1. apply IH; [exact Hu'|]. right. f_equal. apply Hu. now left.
    + apply IH; [exact Hu'|]. destruct Hin as [[Hin|Hin]|Hacc]; [|now left|now right].
      inversion Hin; subst. exfalso. assert (site_eqb s s = true) by (now apply site_eqb_spec). congruence.
Qed.

Lemma scatter_lookup_nth rows n s : NoDup rows -> nth_error rows n = Some s ->
  scatter_lookup rows s = Some (Z.of_nat n).
Proof.
  intros Hnd Hn. unfold scatter_lookup. apply scatter_spec.
  - intros k' Hin. apply in_zenum in Hin. destruct Hin as (n' & -> & Hn'). f_equal.
    apply (proj1 (NoDup_nth_error rows) Hnd); [apply nth_error_Some; congruence|congruence].
  - left. apply in_zenum. eauto.
Qed.

Lemma filter_combine_snd {A B} (P : B -> bool) : forall (l : list B) (ks : list A), length ks = length l ->
  map snd (filter (fun p => P (snd p)) (combine ks l)) = filter P l.
Proof.
  induction l as [|b l IH]; intros [|k ks] Hl; try discriminate; [reflexivity|].
  cbn [combine filter snd]. destruct (P b); cbn [map snd]; [f_equal|]; apply IH; cbn in Hl; lia.
Qed.

Lemma nth_error_map_inv {A B} (f : A -> B) l k b : nth_error (map f l) k = Some b ->
  exists a, nth_error l k = Some a /\ f a = b.
Proof.
  rewrite nth_error_map. destruct (nth_error l k) as [a|]; [|discriminate].
  cbn. intros H. inversion H. eauto.
Qed.

Section Values.
Variable lat : lattice.
Hypothesis Hwf : wf lat.

Let N := nsites lat.

Lemma m2l_small i : 0 <= i < N -> mps2lat lat i = nth_error (lorder lat) (Z.to_nat i).
Proof.
  intros Hi. unfold mps2lat. fold N. destruct (infinite lat).
  - rewrite Z.mod_small by lia. destruct (nth_error (lorder lat) (Z.to_nat i)) as [[[x0 xr] u]|]; [|reflexivity].
    rewrite Z.sub_diag, Z.mul_0_l, Zdiv_0_l, Z.add_0_r. reflexivity.
  - replace ((0 <=? i) && (i <? N)) with true by lia. reflexivity.
Qed.

Lemma vals_idx_nth n s : nth_error (lorder lat) n = Some s -> vals_idx lat s = Some (Z.of_nat n).
Proof. apply scatter_lookup_nth. apply (wf_nodup lat Hwf). Qed.

Lemma values_reshape {V} (a : list V) : length a = length (lorder lat) ->
  (forall i, 0 <= i < N -> exists s v,
     mps2lat lat i = Some s /\ nth_error a (Z.to_nat i) = Some v /\ mps2lat_values lat a s = Some v) /\
  (forall s, In s (lorder lat) -> exists i v,
     0 <= i < N /\ lat2mps lat s = Some i /\ nth_error a (Z.to_nat i) = Some v /\
     mps2lat_values lat a s = Some v).
Proof.
  intros Hl.
  assert (H1 : forall i, 0 <= i < N -> exists s v,
     mps2lat lat i = Some s /\ nth_error a (Z.to_nat i) = Some v /\ mps2lat_values lat a s = Some v).
  { intros i Hi. unfold N, nsites in Hi.
    destruct (nth_error (lorder lat) (Z.to_nat i)) as [s|] eqn:Es; [|apply nth_error_None in Es; lia].
    destruct (nth_error a (Z.to_nat i)) as [v|] eqn:Ev; [|apply nth_error_None in Ev; lia].
    exists s, v. split; [|split; [reflexivity|]].
    - rewrite m2l_small by (unfold N, nsites; lia). exact Es.
    - unfold mps2lat_values. rewrite (vals_idx_nth _ _ Es). rewrite Nat2Z.id. exact Ev. }
  split; [exact H1|]. intros s Hs.
  destruct (in_order_nth lat s Hs) as (k & Hk & Hkb). fold N in Hkb.
  destruct (H1 (Z.of_nat k) Hkb) as (s' & v & Hm & Hv & Hval).
  assert (s' = s) by (rewrite m2l_small, Nat2Z.id in Hm by exact Hkb; congruence). subst s'.
  exists (Z.of_nat k), v. split; [exact Hkb|]. split; [|split; assumption].
  apply (proj1 (index_inverse lat Hwf)) in Hm. tauto.
Qed.

Lemma order_fix_u_eq u :
  order_fix_u lat u = map snd (filter (fun ks : Z * site => snd (snd ks) =? u) (zenum (lorder lat))).
Proof.
  unfold order_fix_u, zenum. symmetry.
  apply (filter_combine_snd (fun s : site => snd s =? u)). now rewrite map_length, seq_length.
Qed.

Lemma values_reshape_u {V} u (a : list V) : length a = length (mps_fix_u lat u) ->
  forall k i, nth_error (mps_fix_u lat u) k = Some i -> exists x0 xr v,
    0 <= i < N /\ mps2lat lat i = Some (x0, xr, u) /\ nth_error a k = Some v /\
    mps2lat_values_u lat u a x0 xr = Some v.
Proof.
  intros Hl k i Hk. unfold mps_fix_u in Hk, Hl.
  set (F := filter (fun ks : Z * site => snd (snd ks) =? u) (zenum (lorder lat))) in *.
  apply nth_error_map_inv in Hk. destruct Hk as ([i' [[x0 xr] u']] & HF & Hi). cbn in Hi. subst i'.
  pose proof (nth_error_In _ _ HF) as Hin. apply filter_In in Hin. destruct Hin as (Hz & Hu).
  cbn in Hu. assert (u' = u) by lia. subst u'.
  apply in_zenum in Hz. destruct Hz as (n & -> & Hn0).
  assert (Hn : nth_error (lorder lat) n = Some (x0, xr, u)) by exact Hn0.
  assert (HF' : nth_error F k = Some (Z.of_nat n, (x0, xr, u))) by exact HF.
  assert (Hb : 0 <= Z.of_nat n < N).
  { assert (n < length (lorder lat))%nat by (apply nth_error_Some; rewrite Hn; discriminate). unfold N, nsites. lia. }
  assert (Hka : (k < length a)%nat).
  { assert (HkF : (k < length F)%nat) by (apply nth_error_Some; rewrite HF'; discriminate).
    rewrite Hl, map_length. exact HkF. }
  destruct (nth_error a k) as [v|] eqn:Ev; [|apply nth_error_None in Ev; lia].
  exists x0, xr, v. split; [exact Hb|]. split; [|split; [reflexivity|]].
  - rewrite m2l_small, Nat2Z.id by exact Hb. exact Hn.
  - unfold mps2lat_values_u, vals_idx_u.
    rewrite (scatter_lookup_nth (order_fix_u lat u) k (x0, xr, u)).
    + now rewrite Nat2Z.id.
    + unfold order_fix_u. apply NoDup_filter. apply (wf_nodup lat Hwf).
    + rewrite order_fix_u_eq. fold F. rewrite nth_error_map, HF'. reflexivity.
Qed.

End Values.
