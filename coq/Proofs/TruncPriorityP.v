(* final_good / cut of Model/Truncate.v compute the documented priority sets of Model/TruncPriority.v *)
From TenpyV Require Import Base.Prelude Base.PyLib Model.Truncate Model.TruncPriority Proofs.TruncateP.
Open Scope Z_scope.

Definition repr (n : nat) (g : list bool) (A : nat -> bool) : Prop :=
  length g = n /\ forall c, nth c g false = A c.

Lemma nth_andl_eq a : forall b k, nth k (andl a b) false = nth k a false && nth k b false.
Proof.
  induction a as [|x a IH]; intros [|y b] [|k]; cbn [andl nth]; try reflexivity;
    try (symmetry; apply andb_false_r). apply IH.
Qed.

Lemma nth_true_lt (g : list bool) k : nth k g false = true -> (k < length g)%nat.
Proof.
  intros H. destruct (Nat.lt_ge_cases k (length g)) as [L|L]; [exact L|].
  rewrite nth_overflow in H by exact L. discriminate.
Qed.

Lemma repr_stage n g g2 A G : repr n g A -> length g2 = n ->
  (forall c, (c < n)%nat -> nth c g2 false = G c) ->
  repr n (combine_constraints g g2) (stage n A G).
Proof.
  intros [Hl HA] Hl2 HG.
  assert (Hpt : forall c, nth c (andl g g2) false = A c && G c).
  { intros c. rewrite nth_andl_eq, HA. destruct (A c) eqn:E; [|reflexivity]. cbn [andb].
    apply HG. rewrite <- HA in E. apply nth_true_lt in E. lia. }
  assert (Hany : anyb (andl g g2) = existsb (fun c => A c && G c) (seq 0 n)).
  { apply eq_iff_eq_true. rewrite anyb_nth, existsb_exists. split.
    - intros [k Hk]. exists k. rewrite Hpt in Hk. split; [|exact Hk].
      apply in_seq. apply andb_prop in Hk. destruct Hk as [Hk _]. rewrite <- HA in Hk.
      apply nth_true_lt in Hk. lia.
    - intros [k [_ Hk]]. exists k. rewrite Hpt. exact Hk. }
  unfold combine_constraints, stage. rewrite Hany.
  destruct (existsb _ _).
  - split; [rewrite andl_length; lia|exact Hpt].
  - split; assumption.
Qed.

Lemma repr_opt {T} n (o : option T) (f : T -> list bool) (Gf : T -> nat -> bool) g A :
  repr n g A ->
  (forall a, length (f a) = n /\ forall c, (c < n)%nat -> nth c (f a) false = Gf a c) ->
  repr n (opt_apply o f g) (fold_left (stage n) (opt_set o Gf) A).
Proof.
  intros HR Hf. destruct o as [a|]; cbn [opt_apply opt_set fold_left]; [|exact HR].
  destruct (Hf a) as [H1 H2]. apply repr_stage; assumption.
Qed.

Section Prio.
  Variable ss : list Z.
  Variable o : opts.
  Let n := length ss.

  Lemma repr0 : repr n (st0 ss) (A_all n).
  Proof.
    split; [apply len_st0|]. intros c. unfold st0, A_all.
    destruct (Nat.ltb_spec c n) as [L|L].
    - apply nth_map_true. exact L.
    - apply nth_overflow. rewrite map_length. exact L.
  Qed.

  Lemma g_chi_max m : length (good_chi_max n m) = n /\
    forall c, (c < n)%nat -> nth c (good_chi_max n m) false = G_chi_max n m c.
  Proof. split; [apply len_chi_max|]. intros c H. unfold good_chi_max, idxs. rewrite nth_map_seq by exact H. reflexivity. Qed.

  Lemma g_chi_min m : length (good_chi_min n m) = n /\
    forall c, (c < n)%nat -> nth c (good_chi_min n m) false = G_chi_min n m c.
  Proof. split; [apply len_chi_min|]. intros c H. unfold good_chi_min, idxs. rewrite nth_map_seq by exact H. reflexivity. Qed.

  Lemma g_deg pq : length (good_deg ss (fst pq) (snd pq)) = n /\
    forall c, (c < n)%nat -> nth c (good_deg ss (fst pq) (snd pq)) false = G_deg ss pq c.
  Proof. split; [apply len_deg|]. intros c H. unfold good_deg, idxs. rewrite nth_map_seq by exact H. reflexivity. Qed.

  Lemma g_svd m : length (good_svd_min ss m) = n /\
    forall c, (c < n)%nat -> nth c (good_svd_min ss m) false = G_svd_min ss m c.
  Proof. split; [apply len_svd|]. intros c H. unfold good_svd_min. rewrite nth_map_Z by exact H. reflexivity. Qed.

  Lemma g_tc t : length (good_trunc_cut ss t) = n /\
    forall c, (c < n)%nat -> nth c (good_trunc_cut ss t) false = G_trunc_cut ss t c.
  Proof.
    split; [apply len_tc|]. intros c H. unfold good_trunc_cut, G_trunc_cut.
    rewrite nth_map_Z by (rewrite cumsum_sq_length; exact H).
    rewrite cumsum_sq_nth by exact H. f_equal.
  Qed.

  Lemma final_good_repr : repr n (final_good ss o) (A_final ss o).
  Proof.
    rewrite final_good_st5. unfold A_final, constraints. fold n.
    rewrite !fold_left_app.
    unfold st5. apply repr_opt; [|apply g_tc].
    unfold st4. apply repr_opt; [|apply g_svd].
    unfold st3. apply repr_opt; [|apply g_deg].
    unfold st2. fold n.
    assert (H1 : repr n (st1 ss o) (fold_left (stage n) (opt_set (chi_max o) (G_chi_max n)) (A_all n))).
    { unfold st1. fold n. apply repr_opt; [apply repr0|apply g_chi_max]. }
    destruct (chi_min o) as [m|]; [|exact H1].
    destruct (1 <? m); [|exact H1].
    cbn [fold_left]. destruct (g_chi_min m) as [L P]. apply repr_stage; assumption.
  Qed.

  Lemma final_good_iff c : nth c (final_good ss o) false = A_final ss o c.
  Proof. apply final_good_repr. Qed.

  Hypothesis nonempty : ss <> [].

  Lemma cut_is_min :
    (cut ss o < n)%nat /\ A_final ss o (cut ss o) = true /\
    forall k, A_final ss o k = true -> (cut ss o <= k)%nat.
  Proof.
    split; [apply cut_lt; exact nonempty|]. split.
    - rewrite <- final_good_iff. apply cut_in5. exact nonempty.
    - intros k Hk. rewrite <- final_good_iff in Hk.
      destruct (Nat.le_gt_cases (cut ss o) k) as [L|L]; [exact L|].
      rewrite final_good_st5, (cut_min ss o nonempty k L) in Hk. discriminate.
  Qed.
End Prio.

(* stage by stage: the accepted set only shrinks, and shrinks to A /\ G exactly when that is non-empty *)
Lemma stage_spec n A G :
  (forall c, stage n A G c = true -> A c = true) /\
  ((exists c, (c < n)%nat /\ A c = true /\ G c = true) -> forall c, stage n A G c = (A c && G c)) /\
  ((forall c, (c < n)%nat -> A c = true -> G c = false) -> forall c, stage n A G c = A c).
Proof.
  unfold stage. destruct (existsb (fun c => A c && G c) (seq 0 n)) eqn:E.
  - apply existsb_exists in E. destruct E as [k [Hin Hk]]. apply in_seq in Hin.
    apply andb_prop in Hk. split; [|split].
    + intros c H. apply andb_prop in H. tauto.
    + reflexivity.
    + intros H. rewrite (H k) in Hk by (lia || tauto). destruct Hk; discriminate.
  - split; [tauto|]. split; [|reflexivity].
    intros [c [Hc [HA HG]]]. exfalso.
    assert (X : existsb (fun c => A c && G c) (seq 0 n) = true).
    { apply existsb_exists. exists c. split; [apply in_seq; lia|]. rewrite HA, HG. reflexivity. }
    congruence.
Qed.

(* what the sets say in words, for sane option values *)
Lemma G_chi_max_meaning n m c : 1 <= m -> (c < n)%nat ->
  (G_chi_max n m c = true <-> Z.of_nat (n - c) <= m).
Proof. intros Hm Hc. unfold G_chi_max, slice_start. destruct (- m <? 0) eqn:E; lia. Qed.

Lemma G_chi_min_meaning n m c : 2 <= m -> (c < n)%nat ->
  (G_chi_min n m c = true <-> m <= Z.of_nat (n - c)).
Proof. intros Hm Hc. unfold G_chi_min, slice_start. destruct (- m + 1 <? 0) eqn:E; lia. Qed.

Lemma G_svd_min_meaning ss m c : StronglySorted Z.le ss -> (c < length ss)%nat ->
  (G_svd_min ss m c = true <-> forall v, In v (skipn c ss) -> m <= v).
Proof.
  intros Hs Hc. unfold G_svd_min. split.
  - intros H v Hv. destruct (In_nth _ _ 0 Hv) as [k [Hk Hn]]. rewrite skipn_length in Hk.
    rewrite nth_skipn_Z in Hn. assert (X := StronglySorted_nth ss Hs c (c + k)%nat ltac:(lia)).
    unfold nthZ in H. lia.
  - intros H. apply Z.leb_le. apply H. unfold nthZ.
    replace c with (c + 0)%nat at 1 by lia. rewrite <- nth_skipn_Z. apply nth_In. rewrite skipn_length. lia.
Qed.

Lemma G_trunc_cut_meaning ss t c : (c < length ss)%nat ->
  (G_trunc_cut ss t c = true <-> t < sumZ (map sq (firstn c ss)) + sq (nthZ ss c)).
Proof.
  intros Hc. unfold G_trunc_cut. rewrite firstn_S_snoc by exact Hc.
  rewrite map_app, sumZ_app. cbn [map sumZ]. lia.
Qed.

Lemma priority_general xs o : xs <> [] ->
  let ss := map fst (sorted_pairs xs) in
  let c := cut ss o in
  r_kept (truncate xs o) = skipn c ss /\
  (forall k, nth k (final_good ss o) false = A_final ss o k) /\
  (c < length xs)%nat /\ A_final ss o c = true /\
  (forall k, A_final ss o k = true -> (c <= k)%nat).
Proof.
  intros Hne ss c.
  assert (Hlen : length ss = length xs) by (unfold ss; rewrite map_length; apply sorted_pairs_length).
  assert (Hss : ss <> []) by (intros E; rewrite E in Hlen; destruct xs; [congruence|discriminate]).
  destruct (cut_is_min ss o Hss) as [H1 [H2 H3]].
  split; [reflexivity|]. split; [apply final_good_iff|]. split; [rewrite <- Hlen; exact H1|].
  split; assumption.
Qed.
