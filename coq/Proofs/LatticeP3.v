(* Proofs about possible_multi_couplings of Model/Lattice.v (property C19):
   Part F: possible_multi_couplings enumerates exactly the multi-couplings, each once. *)
From TenpyV Require Import Base.Prelude Model.Lattice Model.LatticeMulti Proofs.LatticeP.
Open Scope Z_scope.

(* ---- generic list facts *)
Lemma opt_all_some {A B} (f : A -> option B) : forall l r,
  opt_all (map f l) = Some r <-> Forall2 (fun a b => f a = Some b) l r.
Proof.
  induction l as [|a l IH]; intros r; cbn [map opt_all].
  - split; [intros H; inversion H; constructor|intros H; inversion H; reflexivity].
  - destruct (f a) as [b|] eqn:E.
    + destruct (opt_all (map f l)) as [r'|] eqn:E2; cbn [option_map].
      * split.
        -- intros H. inversion H. subst. constructor; [exact E|]. now apply IH.
        -- intros H. inversion H as [|a' b' l' r2 Hab Hr]; subst. apply IH in Hr. congruence.
      * split; [discriminate|]. intros H. inversion H as [|a' b' l' r2 Hab Hr]; subst.
        apply IH in Hr. discriminate.
    + split; [discriminate|]. intros H. inversion H; subst. congruence.
Qed.

Lemma fold_min_spec t : forall a,
  (fold_left Z.min t a = a \/ In (fold_left Z.min t a) t) /\ fold_left Z.min t a <= a /\
  forall x, In x t -> fold_left Z.min t a <= x.
Proof.
  induction t as [|y t IH]; intros a; cbn [fold_left].
  - split; [now left|]. split; [lia|intros x []].
  - destruct (IH (Z.min a y)) as (H1 & H2 & H3). split; [|split].
    + destruct H1 as [H1|H1]; [|right; now right].
      destruct (Z.min_spec a y) as [(_ & E)|(_ & E)]; rewrite H1, E; [now left|right; now left].
    + lia.
    + intros x [<-|Hx]; [lia|now apply H3].
Qed.

Lemma fold_max_spec t : forall a,
  (fold_left Z.max t a = a \/ In (fold_left Z.max t a) t) /\ a <= fold_left Z.max t a /\
  forall x, In x t -> x <= fold_left Z.max t a.
Proof.
  induction t as [|y t IH]; intros a; cbn [fold_left].
  - split; [now left|]. split; [lia|intros x []].
  - destruct (IH (Z.max a y)) as (H1 & H2 & H3). split; [|split].
    + destruct H1 as [H1|H1]; [|right; now right].
      destruct (Z.max_spec a y) as [(_ & E)|(_ & E)]; rewrite H1, E; [right; now left|now left].
    + lia.
    + intros x [<-|Hx]; [lia|now apply H3].
Qed.

Lemma zmin_l_spec l : l <> [] -> In (zmin_l l) l /\ forall x, In x l -> zmin_l l <= x.
Proof.
  destruct l as [|a t]; [congruence|]. intros _. cbn [zmin_l].
  destruct (fold_min_spec t a) as (H1 & H2 & H3). split.
  - destruct H1 as [H1|H1]; [left; now rewrite H1|now right].
  - intros x [<-|Hx]; [exact H2|now apply H3].
Qed.

Lemma zmax_l_spec l : l <> [] -> In (zmax_l l) l /\ forall x, In x l -> x <= zmax_l l.
Proof.
  destruct l as [|a t]; [congruence|]. intros _. cbn [zmax_l].
  destruct (fold_max_spec t a) as (H1 & H2 & H3). split.
  - destruct H1 as [H1|H1]; [left; now rewrite H1|now right].
  - intros x [<-|Hx]; [exact H2|now apply H3].
Qed.

Lemma fold_min_add t d : forall a,
  fold_left Z.min (map (fun i => i + d) t) (a + d) = fold_left Z.min t a + d.
Proof.
  induction t as [|y t IH]; intros a; cbn [map fold_left]; [reflexivity|].
  rewrite Z.add_min_distr_r. apply IH.
Qed.

Lemma zmin_map_add l d : l <> [] -> zmin_l (map (fun i => i + d) l) = zmin_l l + d.
Proof. destruct l as [|a t]; [congruence|]. intros _. cbn [map zmin_l]. apply fold_min_add. Qed.

Lemma zip2_length {A B C} (f : A -> B -> C) : forall l1 l2, length l1 = length l2 -> length (zip2 f l1 l2) = length l1.
Proof.
  induction l1 as [|a l1 IH]; intros [|b l2] H; cbn in *; try lia. f_equal. apply IH. lia.
Qed.

Lemma zip2_resum : forall cr mr dxr, length cr = length mr -> length dxr = length mr ->
  zip2 Z.add (zip2 Z.sub cr mr) dxr = zip2 Z.add cr (zip2 Z.sub dxr mr).
Proof.
  induction cr as [|c cr IH]; intros [|m mr] [|d dxr] H1 H2; cbn in *; try lia; try reflexivity.
  f_equal; [lia|]. apply IH; lia.
Qed.

(* ---- the shape and shift of multi_coupling_shape, direction by direction *)
Definition fsh (L : Z) (o : bool) (c : list Z) : Z := L - (zmax_l c - zmin_l c) * (if o then 1 else 0).

Fixpoint shape_r (Ls : list Z) (os : list bool) (D : list (list Z)) : list Z :=
  match Ls, os with
  | L :: Ls', o :: os' => fsh L o (map (hd 0) D) :: shape_r Ls' os' (map (@tl Z) D)
  | _, _ => []
  end.

Fixpoint mins_r (n : nat) (D : list (list Z)) : list Z :=
  match n with
  | O => []
  | S n' => zmin_l (map (hd 0) D) :: mins_r n' (map (@tl Z) D)
  end.

Definition cols_of (n : nat) (D : list (list Z)) : list (list Z) :=
  map (fun a => map (fun r => nth a r 0) D) (seq 0 n).

Lemma cols_S n D : cols_of (S n) D = map (hd 0) D :: cols_of n (map (@tl Z) D).
Proof.
  unfold cols_of. cbn [seq map]. f_equal.
  - apply map_ext. intros [|x r]; reflexivity.
  - rewrite <- seq_shift, map_map. apply map_ext. intros a. rewrite map_map. apply map_ext.
    intros [|x r]; [destruct a; reflexivity|reflexivity].
Qed.

Lemma shape_r_cols Ls : forall os D,
  zip3 (fun L (o : bool) c => L - (zmax_l c - zmin_l c) * (if o then 1 else 0)) Ls os (cols_of (length Ls) D)
  = shape_r Ls os D.
Proof.
  induction Ls as [|L Ls IH]; intros os D; [reflexivity|]. cbn [length]. rewrite cols_S.
  destruct os as [|o os]; [reflexivity|]. cbn [zip3 shape_r]. unfold fsh at 1. f_equal. apply IH.
Qed.

Lemma mins_r_cols n : forall D, map zmin_l (cols_of n D) = mins_r n D.
Proof.
  induction n as [|n IH]; intros D; [reflexivity|]. rewrite cols_S. cbn [map mins_r]. f_equal. apply IH.
Qed.

Lemma mins_r_length n : forall D, length (mins_r n D) = n.
Proof. induction n as [|n IH]; intros D; cbn [mins_r length]; [reflexivity|]. now rewrite IH. Qed.

Definition col0 (ops : list op) : list Z := map (fun o : op => fst (fst o)) ops.
Definition Drs (ops : list op) : list (list Z) := map (fun o : op => snd (fst o)) ops.

Lemma multi_shape_eq lat ops :
  multi_shape lat ops =
  (fsh (L0 lat) (open0 lat) (col0 ops) :: shape_r (Lr lat) (openr lat) (Drs ops),
   zmin_l (col0 ops) :: mins_r (length (Lr lat)) (Drs ops)).
Proof.
  unfold multi_shape.
  assert (Hc : map (dx_col ops) (seq 0 (S (length (Lr lat)))) = col0 ops :: cols_of (length (Lr lat)) (Drs ops)).
  { cbn [seq map].
    assert (H0 : dx_col ops 0 = col0 ops).
    { unfold dx_col, col0. apply map_ext. intros [[dx0 dxr] u]. reflexivity. }
    rewrite H0. apply f_equal.
    rewrite <- seq_shift, map_map. unfold cols_of. apply map_ext. intros a.
    unfold dx_col, Drs. rewrite map_map. apply map_ext. intros [[dx0 dxr] u]. reflexivity. }
  rewrite Hc. cbn [zip3 map]. rewrite shape_r_cols, mins_r_cols. reflexivity.
Qed.

(* ---- one operator of one row *)
Definition one_op (lat : lattice) (m0 : Z) (mr : list Z) (c0 : Z) (cr : list Z) (o : op) : option Z :=
  let '(dx0, dxr, u) := o in
  match target lat c0 cr (dx0 - m0) (zip2 Z.sub dxr mr) with
  | Some (sh0, y0, yr) =>
      match perm_lookup lat (y0, yr, u) with
      | Some j0 => Some (if infinite lat then j0 + (sh0 - y0) * nsites lat / L0 lat else j0)
      | None => None
      end
  | None => None
  end.

Definition norm_ijkl (lat : lattice) (ijkl : list Z) : list Z :=
  if infinite lat then map (fun i => i + (zmin_l ijkl mod nsites lat - zmin_l ijkl)) ijkl else ijkl.

Definition shift_op (m0 : Z) (mr : list Z) (o : op) : op :=
  let '(dx0, dxr, u) := o in (dx0 - m0, zip2 Z.sub dxr mr, u).

Lemma multi_row_eq lat ops m0 mr c0 cr :
  multi_row lat ops (m0 :: mr) (c0 :: cr) =
  match opt_all (map (one_op lat m0 mr c0 cr) ops) with
  | Some ijkl => [(norm_ijkl lat ijkl, c0 :: cr)]
  | None => []
  end.
Proof.
  unfold multi_row, norm_ijkl. fold (one_op lat m0 mr c0 cr).
  destruct (opt_all (map (one_op lat m0 mr c0 cr) ops)); [|reflexivity].
  destruct (infinite lat); reflexivity.
Qed.

Lemma conn_rest_lengths Ls os ss xs ds ys tot : conn_rest Ls os ss xs ds ys tot ->
  length os = length Ls /\ length ss = length Ls /\ length xs = length Ls /\ length ds = length Ls /\
  length ys = length Ls.
Proof. induction 1; cbn [length]; [tauto|]. intuition congruence. Qed.

Lemma conn_rest_resum Ls os ss xs ds ys tot : conn_rest Ls os ss xs ds ys tot ->
  forall xs' ds', length xs' = length Ls -> length ds' = length Ls ->
  zip2 Z.add xs' ds' = zip2 Z.add xs ds -> conn_rest Ls os ss xs' ds' ys tot.
Proof.
  induction 1 as [|L o s x d y k Ls os ss xs ds ys tot Hy He Ho HC IH]; intros [|x' xs'] [|d' ds'] H1 H2 H3;
    cbn in *; try lia; [constructor|].
  inversion H3. constructor; [exact Hy|lia|exact Ho|]. apply IH; [lia|lia|assumption].
Qed.

Section Multi.
Variable lat : lattice.
Hypothesis Hwf : wf lat.

Let N := nsites lat.

Lemma mps2lat_add : infinite lat = true -> forall i z x0 xr u,
  mps2lat lat i = Some (x0, xr, u) -> mps2lat lat (i + z * N) = Some (x0 + z * L0 lat, xr, u).
Proof.
  intros Hi i z x0 xr u H.
  destruct (mps2lat_inf_inv lat Hwf Hi _ _ _ _ H) as (k & m & x0' & -> & -> & Hk). fold N.
  replace (Z.of_nat k + m * N + z * N) with (Z.of_nat k + (m + z) * N) by ring.
  unfold N. rewrite (mps2lat_shift lat Hwf Hi k (m + z) _ _ _ Hk). f_equal. f_equal. f_equal. ring.
Qed.

Lemma op_at_translate : infinite lat = true -> forall b0 br o i z,
  op_at lat b0 br o i -> op_at lat (b0 + z * L0 lat) br o (i + z * N).
Proof.
  intros Hi b0 br [[dx0 dxr] u] i z (y0 & yr & Hm & (tot & k0 & HC & He & Hk0)).
  exists (y0 + z * L0 lat), yr. split; [now apply mps2lat_add|].
  exists tot, k0. split; [exact HC|]. split; [lia|exact Hk0].
Qed.

Lemma one_op_iff m0 mr c0 cr dx0 dxr u i : 0 <= u < Lu lat ->
  (one_op lat m0 mr c0 cr (dx0, dxr, u) = Some i <-> op_at lat c0 cr (shift_op m0 mr (dx0, dxr, u)) i).
Proof.
  intros Hu. pose proof (wf_L0 lat Hwf) as HL. cbn [one_op shift_op op_at]. split.
  - destruct (target lat c0 cr (dx0 - m0) (zip2 Z.sub dxr mr)) as [[[sh0 y0] yr]|] eqn:Et; [|discriminate].
    destruct (perm_lookup lat (y0, yr, u)) as [j0|] eqn:El; [|discriminate]. intros H. inversion H as [Hi']. clear H.
    apply (target_spec lat Hwf) in Et. destruct Et as (tot & HC & Hsh & Hy0 & Ho).
    destruct (mod_decomp sh0 (L0 lat) HL) as (Hdec & Hyb). rewrite <- Hy0 in Hdec, Hyb.
    assert (HBy : site_in_box lat (y0, yr, u)).
    { cbn [site_in_box]. split; [exact Hyb|]. split; [eapply conn_rest_box; exact HC|exact Hu]. }
    destruct (nth_of_lookup lat Hwf _ _ HBy El) as (Hj0 & Hnj). fold N in Hj0.
    destruct (infinite lat) eqn:Hi.
    + pose proof (Npos lat Hwf Hi) as HN. fold N in HN.
      assert (Hjsh : (sh0 - y0) * nsites lat / L0 lat = sh0 / L0 lat * N).
      { rewrite Hdec at 1. apply (jsh_eq lat Hwf). exact HN. }
      rewrite Hjsh. exists sh0, yr. split.
      * pose proof (mps2lat_shift lat Hwf Hi (Z.to_nat j0) (sh0 / L0 lat) _ _ _ Hnj) as Hs.
        rewrite Z2Nat.id in Hs by lia. fold N in Hs. rewrite Hs. f_equal. f_equal. f_equal. lia.
      * exists tot, 0. split; [exact HC|]. split; [lia|reflexivity].
    + exists y0, yr. split.
      * unfold mps2lat. rewrite Hi. fold N. replace ((0 <=? j0) && (j0 <? N)) with true by lia. exact Hnj.
      * exists tot, (sh0 / L0 lat). split; [exact HC|]. split; [lia|].
        intros [Ho'|Hc]; [|congruence]. specialize (Ho Ho'). assert (sh0 / L0 lat * L0 lat = 0) by lia. nia.
  - intros (Y0 & yr & Hm & (tot & k0 & HC & He & Hk0)).
    destruct (infinite lat) eqn:Hi.
    + pose proof (Npos lat Hwf Hi) as HN. fold N in HN.
      destruct (wf_inf lat Hwf Hi) as (Hop & _).
      destruct (mps2lat_inf_inv lat Hwf Hi _ _ _ _ Hm) as (k & m & y0 & Hdi & HY & Hn). fold N in Hdi.
      rewrite (Hk0 (or_intror eq_refl)) in He.
      pose proof (nth_in_box lat Hwf _ _ Hn) as HBy. cbn [site_in_box] in HBy. destruct HBy as (Hy0 & _).
      set (sh0 := c0 + (dx0 - m0) - tot).
      assert (Hsh : sh0 = y0 + m * L0 lat) by (unfold sh0; lia).
      destruct (mod_unique_k (L0 lat) y0 m sh0 HL Hy0 Hsh) as (Hmod & _).
      assert (Et : target lat c0 cr (dx0 - m0) (zip2 Z.sub dxr mr) = Some (sh0, y0, yr)).
      { apply (target_spec lat Hwf). exists tot. split; [exact HC|]. split; [reflexivity|].
        split; [now rewrite Hmod|]. rewrite Hop. discriminate. }
      rewrite Et, (lookup_of_nth lat Hwf _ _ Hn). f_equal. rewrite Hsh.
      rewrite (jsh_eq lat Hwf m y0 HN). unfold N in Hdi. lia.
    + unfold mps2lat in Hm. rewrite Hi in Hm. fold N in Hm.
      destruct ((0 <=? i) && (i <? N)) eqn:Ei; [|discriminate].
      pose proof (nth_in_box lat Hwf _ _ Hm) as HBy. cbn [site_in_box] in HBy. destruct HBy as (Hy0 & _).
      set (sh0 := c0 + (dx0 - m0) - tot).
      assert (Hsh : sh0 = Y0 + k0 * L0 lat) by (unfold sh0; lia).
      destruct (mod_unique_k (L0 lat) Y0 k0 sh0 HL Hy0 Hsh) as (Hmod & _).
      assert (Et : target lat c0 cr (dx0 - m0) (zip2 Z.sub dxr mr) = Some (sh0, Y0, yr)).
      { apply (target_spec lat Hwf). exists tot. split; [exact HC|]. split; [reflexivity|].
        split; [now rewrite Hmod|]. intros Ho. rewrite (Hk0 (or_introl Ho)) in Hsh. lia. }
      rewrite Et, (lookup_of_nth lat Hwf _ _ Hm). f_equal. lia.
Qed.

Lemma one_ops_iff m0 mr c0 cr (ops : list op) :
  Forall (fun o : op => length (snd (fst o)) = length (Lr lat) /\ 0 <= snd o < Lu lat) ops -> forall ijkl,
  Forall2 (fun o i => one_op lat m0 mr c0 cr o = Some i) ops ijkl <->
  Forall2 (fun o i => op_at lat c0 cr (shift_op m0 mr o) i) ops ijkl.
Proof.
  induction 1 as [|[[dx0 dxr] u] l (_ & Hu) HF IH]; intros ijkl.
  - split; intros H; inversion H; constructor.
  - cbn [snd] in Hu. split; intros H; inversion H as [|o i l' r Hoi Hr]; subst; constructor.
    + now apply one_op_iff.
    + now apply IH.
    + now apply one_op_iff.
    + now apply IH.
Qed.

(* ---- membership in the enumeration *)
Variable ops : list op.
Hypothesis Hops : ops_wf lat ops.

Let shape := fst (multi_shape lat ops).
Let m0 := zmin_l (col0 ops).
Let mr := mins_r (length (Lr lat)) (Drs ops).

Lemma mr_length : length mr = length (Lr lat).
Proof. apply mins_r_length. Qed.

Lemma multi_in r :
  In r (multi_ijkl lat ops) <->
  existsb (fun s => s =? 0) shape = false /\
  exists c0 cr ijkl, in_box (c0 :: cr) shape /\
    Forall2 (fun o i => op_at lat c0 cr (shift_op m0 mr o) i) ops ijkl /\ r = norm_ijkl lat ijkl.
Proof.
  unfold multi_ijkl, possible_multi_couplings, shape. rewrite multi_shape_eq. cbn [fst]. fold m0 mr.
  set (shp := fsh (L0 lat) (open0 lat) (col0 ops) :: shape_r (Lr lat) (openr lat) (Drs ops)).
  destruct (existsb (fun s => s =? 0) shp) eqn:Ez.
  - split; [intros []|intros (H & _); discriminate].
  - rewrite in_map_iff. split.
    + intros ([r' c] & Hr & Hin). cbn in Hr. subst r'. split; [reflexivity|].
      apply in_flat_map in Hin. destruct Hin as (c' & Hc' & Hrow).
      pose proof (proj1 (cstyle_in shp c') Hc') as Hbox.
      destruct c' as [|c0 cr]; [unfold shp in Hbox; inversion Hbox|].
      rewrite multi_row_eq in Hrow.
      destruct (opt_all (map (one_op lat m0 mr c0 cr) ops)) as [ijkl|] eqn:Eo; [|destruct Hrow].
      destruct Hrow as [Hrow|[]]. inversion Hrow. subst.
      exists c0, cr, ijkl. split; [exact Hbox|]. split; [|reflexivity].
      apply (one_ops_iff _ _ _ _ _ (proj2 Hops)). now apply opt_all_some.
    + intros (_ & c0 & cr & ijkl & Hbox & HF & ->).
      exists (norm_ijkl lat ijkl, c0 :: cr). split; [reflexivity|].
      apply in_flat_map. exists (c0 :: cr). split; [now apply cstyle_in|].
      rewrite multi_row_eq. apply (one_ops_iff _ _ _ _ _ (proj2 Hops)) in HF. apply opt_all_some in HF. rewrite HF. now left.
Qed.

End Multi.

(* ---- moving the anchor: from the corner c of the box back to the cell b = c - shift (soundness) and from
        an arbitrary anchor cell b to the corner inside the coupling shape (completeness) *)
Fixpoint renorm_c (Ls : list Z) (os : list bool) (bs ms : list Z) : list Z :=
  match Ls, os, bs, ms with
  | L :: Ls', o :: os', b :: bs', m :: ms' => (if o then b + m else (b + m) mod L) :: renorm_c Ls' os' bs' ms'
  | _, _, _, _ => []
  end.

Fixpoint renorm_T (Ls : list Z) (os : list bool) (ss bs ms : list Z) : Z :=
  match Ls, os, ss, bs, ms with
  | L :: Ls', o :: os', s :: ss', b :: bs', m :: ms' =>
      (if o then 0 else (b + m) / L * s) + renorm_T Ls' os' ss' bs' ms'
  | _, _, _, _, _ => 0
  end.

Lemma renorm_conn Ls os ss bs ds ys tot : conn_rest Ls os ss bs ds ys tot ->
  forall ms, length ms = length Ls ->
  conn_rest Ls os ss (renorm_c Ls os bs ms) (zip2 Z.sub ds ms) ys (tot - renorm_T Ls os ss bs ms).
Proof.
  induction 1 as [|L o s x d y k Ls os ss xs ds ys tot Hy He Ho HC IH]; intros [|m ms] Hl; cbn in Hl; try lia.
  - cbn. constructor.
  - cbn [renorm_c renorm_T zip2]. assert (HL : 0 < L) by lia. destruct o.
    + replace (k * s + tot - (0 + renorm_T Ls os ss xs ms)) with (k * s + (tot - renorm_T Ls os ss xs ms)) by ring.
      constructor; [exact Hy|lia|exact Ho|]. apply IH. lia.
    + replace (k * s + tot - ((x + m) / L * s + renorm_T Ls os ss xs ms))
        with ((k - (x + m) / L) * s + (tot - renorm_T Ls os ss xs ms)) by ring.
      destruct (mod_decomp (x + m) L HL) as (Hdec & _).
      constructor; [exact Hy| |discriminate|apply IH; lia].
      remember ((x + m) / L) as t. remember ((x + m) mod L) as x'. lia.
Qed.

Lemma renorm_T_noshift Ls : forall os ss bs ms, Forall (fun s => s = 0) ss -> renorm_T Ls os ss bs ms = 0.
Proof.
  induction Ls as [|L Ls IH]; intros os ss bs ms Hs; [reflexivity|].
  destruct os as [|o os], ss as [|s ss], bs as [|b bs], ms as [|m ms]; try reflexivity.
  inversion Hs; subst. cbn [renorm_T]. rewrite IH by assumption. destruct o; lia.
Qed.

Lemma renorm_box : forall Ls os ss bs D, D <> [] ->
  Forall (fun ds => exists ys tot, conn_rest Ls os ss bs ds ys tot) D ->
  in_box (renorm_c Ls os bs (mins_r (length Ls) D)) (shape_r Ls os D).
Proof.
  unfold in_box. induction Ls as [|L Ls IH]; intros os ss bs D Hne HD.
  - cbn. constructor.
  - (* the shapes of os, ss, bs from the first displacement vector *)
    destruct D as [|d1 D1] eqn:ED; [congruence|]. rewrite <- ED in *.
    assert (H1 : exists ys tot, conn_rest (L :: Ls) os ss bs d1 ys tot).
    { rewrite Forall_forall in HD. apply HD. rewrite ED. now left. }
    destruct H1 as (ys1 & tot1 & H1). inversion H1 as [|L' o s b d y k Ls' os' ss' bs' ds' ys' tot' Hy He Ho HC']; subst L' Ls' os ss bs.
    assert (HL : 0 < L) by lia.
    assert (Hheads : Forall (fun dd => exists yy kk, 0 <= yy < L /\ b + dd = yy + kk * L /\ (o = true -> kk = 0)) (map (hd 0) D)).
    { rewrite Forall_map. rewrite Forall_forall in *. intros dv Hdv. destruct (HD dv Hdv) as (yv & tv & Hv).
      inversion Hv; subst. cbn [hd]. eauto. }
    assert (Htails : Forall (fun dv => exists yv tv, conn_rest Ls os' ss' bs' dv yv tv) (map (@tl Z) D)).
    { rewrite Forall_map. rewrite Forall_forall in *. intros dv Hdv. destruct (HD dv Hdv) as (yv & tv & Hv).
      inversion Hv; subst. cbn [tl]. eauto. }
    assert (Hne1 : map (hd 0) D <> []) by (rewrite ED; discriminate).
    assert (Hne2 : map (@tl Z) D <> []) by (rewrite ED; discriminate).
    cbn [length mins_r renorm_c shape_r]. constructor; [|now apply (IH os' ss' bs')].
    destruct (zmin_l_spec _ Hne1) as (Hmin & _). destruct (zmax_l_spec _ Hne1) as (Hmax & _).
    rewrite Forall_forall in Hheads.
    destruct (Hheads _ Hmin) as (y1 & k1 & Hy1 & He1 & Ho1). destruct (Hheads _ Hmax) as (y2 & k2 & Hy2 & He2 & Ho2).
    unfold fsh. destruct o.
    + rewrite (Ho1 eq_refl) in He1. rewrite (Ho2 eq_refl) in He2. lia.
    + pose proof (Z.mod_pos_bound (b + zmin_l (map (hd 0) D)) L HL). lia.
Qed.

Lemma box_nonzero c shp : in_box c shp -> existsb (fun s => s =? 0) shp = false.
Proof. unfold in_box. induction 1 as [|x L c shp Hx _ IH]; cbn [existsb]; [reflexivity|]. rewrite IH. lia. Qed.

Section MultiGen.
Variable lat : lattice.
Hypothesis Hwf : wf lat.

Let N := nsites lat.

Lemma ops_unshift m0 mr c0 cr (l : list op) : length mr = length (Lr lat) ->
  Forall (fun o : op => length (snd (fst o)) = length (Lr lat) /\ 0 <= snd o < Lu lat) l -> forall ijkl,
  Forall2 (fun o i => op_at lat c0 cr (shift_op m0 mr o) i) l ijkl ->
  Forall2 (op_at lat (c0 - m0) (zip2 Z.sub cr mr)) l ijkl.
Proof.
  intros Hmr. induction 1 as [|[[dx0 dxr] u] l (Hl & _) HF IH]; intros ijkl H; inversion H as [|o i l' r Hoi Hr]; subst;
    constructor; [|now apply IH].
  cbn [fst snd] in Hl. destruct Hoi as (y0 & yr & Hm & (tot & k0 & HC & He & Hk0)).
  exists y0, yr. split; [exact Hm|]. exists tot, k0. split; [|split; [lia|exact Hk0]].
  destruct (conn_rest_lengths _ _ _ _ _ _ _ HC) as (_ & _ & Hlc & _).
  apply (conn_rest_resum _ _ _ _ _ _ _ HC).
  - rewrite zip2_length; lia.
  - exact Hl.
  - apply zip2_resum; lia.
Qed.

Lemma ops_translate : infinite lat = true -> forall b0 br z (l : list op) ijkl,
  Forall2 (op_at lat b0 br) l ijkl ->
  Forall2 (op_at lat (b0 + z * L0 lat) br) l (map (fun i => i + z * N) ijkl).
Proof.
  intros Hi b0 br z l ijkl H. induction H as [|o i l r Hoi Hr IH]; cbn [map]; constructor; [|exact IH].
  now apply (op_at_translate lat Hwf Hi).
Qed.

Lemma ops_renorm b0 br m0 mr t0 (l : list op) : length mr = length (Lr lat) ->
  (open0 lat = true -> t0 = 0) -> forall ijkl,
  Forall2 (op_at lat b0 br) l ijkl ->
  Forall2 (fun o i => op_at lat (b0 + m0 - renorm_T (Lr lat) (openr lat) (shiftr lat) br mr - t0 * L0 lat)
                        (renorm_c (Lr lat) (openr lat) br mr) (shift_op m0 mr o) i)
          l (map (fun i => i + (if infinite lat then (- t0) * N else 0)) ijkl).
Proof.
  intros Hmr Ht0 ijkl H. induction H as [|[[dx0 dxr] u] i l r Hoi Hr IH]; cbn [map]; constructor; [|exact IH].
  destruct Hoi as (y0 & yr & Hm & (tot & k0 & HC & He & Hk0)).
  pose proof (renorm_conn _ _ _ _ _ _ _ HC mr Hmr) as HC2. cbn [shift_op op_at].
  destruct (infinite lat) eqn:Hi.
  - exists (y0 + (- t0) * L0 lat), yr. split; [now apply (mps2lat_add lat Hwf Hi)|].
    exists (tot - renorm_T (Lr lat) (openr lat) (shiftr lat) br mr), 0. split; [exact HC2|].
    rewrite (Hk0 (or_intror eq_refl)) in He. split; [lia|reflexivity].
  - rewrite Z.add_0_r. exists y0, yr. split; [exact Hm|].
    exists (tot - renorm_T (Lr lat) (openr lat) (shiftr lat) br mr), (k0 - t0). split; [exact HC2|]. split; [lia|].
    intros [Ho|Hc]; [|congruence]. rewrite (Hk0 (or_introl Ho)), (Ht0 Ho). reflexivity.
Qed.

End MultiGen.

Section Multi2.
Variable lat : lattice.
Hypothesis Hwf : wf lat.
Variable ops : list op.
Hypothesis Hops : ops_wf lat ops.

Let N := nsites lat.
Let shape := fst (multi_shape lat ops).
Let m0 := zmin_l (col0 ops).
Let mr := mins_r (length (Lr lat)) (Drs ops).

Lemma F2_nonempty {P : op -> Z -> Prop} ijkl : Forall2 P ops ijkl -> ijkl <> [].
Proof. destruct Hops as (Hne & _). intros H. inversion H; subst; congruence. Qed.

(* ---- soundness *)
Lemma multi_sound r : In r (multi_ijkl lat ops) -> multi_coupled lat ops r.
Proof.
  intros Hin. apply (multi_in lat Hwf ops Hops) in Hin. fold m0 mr in Hin.
  destruct Hin as (_ & c0 & cr & ijkl & Hbox & HF & ->).
  assert (Hmr : length mr = length (Lr lat)) by apply mins_r_length.
  pose proof (ops_unshift lat m0 mr c0 cr ops Hmr (proj2 Hops) ijkl HF) as HF2.
  pose proof (F2_nonempty _ HF2) as Hne.
  unfold norm_ijkl. destruct (infinite lat) eqn:Hi.
  - pose proof (Npos lat Hwf Hi) as HN. fold N in HN. fold N.
    set (mn := zmin_l ijkl).
    assert (Hz : mn mod N - mn = (- (mn / N)) * N) by (pose proof (Z.div_mod mn N); lia).
    rewrite Hz. exists (c0 - m0 + (- (mn / N)) * L0 lat), (zip2 Z.sub cr mr). split.
    + now apply (ops_translate lat Hwf Hi).
    + intros _. rewrite zmin_map_add by exact Hne. fold mn. rewrite <- Hz.
      pose proof (Z.mod_pos_bound mn N HN). lia.
  - exists (c0 - m0), (zip2 Z.sub cr mr). split; [exact HF2|intros Hc; congruence].
Qed.

(* ---- completeness *)
Lemma multi_complete r : (open0 lat = true -> Forall (fun s => s = 0) (shiftr lat)) ->
  multi_coupled lat ops r -> In r (multi_ijkl lat ops).
Proof.
  intros Hsh (b0 & br & HF & Hmin). apply (multi_in lat Hwf ops Hops). fold m0 mr.
  assert (Hmr : length mr = length (Lr lat)) by apply mins_r_length.
  destruct Hops as (Hne & HW).
  pose proof (wf_L0 lat Hwf) as HL.
  set (T := renorm_T (Lr lat) (openr lat) (shiftr lat) br mr).
  set (cr := renorm_c (Lr lat) (openr lat) br mr).
  set (t0 := if open0 lat then 0 else (b0 + m0 - T) / L0 lat).
  set (c0 := b0 + m0 - T - t0 * L0 lat).
  assert (Ht0 : open0 lat = true -> t0 = 0) by (intros Ho; unfold t0; now rewrite Ho).
  pose proof (ops_renorm lat Hwf b0 br m0 mr t0 ops Hmr Ht0 r HF) as HF2. fold T cr c0 N in HF2.
  (* the corner lies in the coupling shape *)
  assert (Hconn : Forall (fun ds => exists ys tot, conn_rest (Lr lat) (openr lat) (shiftr lat) br ds ys tot) (Drs ops)).
  { unfold Drs. rewrite Forall_map. clear - HF. induction HF as [|[[dx0 dxr] u] i l r' Hoi _ IH]; constructor; [|exact IH].
    destruct Hoi as (y0 & yr & _ & (tot & k0 & HC & _)). cbn [fst snd]. eauto. }
  assert (HneD : Drs ops <> []) by (unfold Drs; destruct ops; [congruence|discriminate]).
  pose proof (renorm_box _ _ _ _ _ HneD Hconn) as Hboxr. fold mr cr in Hboxr.
  assert (Hbox0 : 0 <= c0 < fsh (L0 lat) (open0 lat) (col0 ops)).
  { unfold fsh. destruct (open0 lat) eqn:Ho.
    - assert (Hfin : infinite lat = false).
      { destruct (infinite lat) eqn:Hi; [|reflexivity]. destruct (wf_inf lat Hwf Hi). congruence. }
      assert (HT : T = 0) by (apply renorm_T_noshift; now apply Hsh).
      assert (Hc0 : c0 = b0 + m0) by (unfold c0, t0; rewrite HT; lia).
      assert (Hcol : Forall (fun d => 0 <= b0 + d < L0 lat) (col0 ops)).
      { unfold col0. rewrite Forall_map. clear - HF Hwf Ho Hfin Hsh. induction HF as [|[[dx0 dxr] u] i l r' Hoi _ IH]; constructor; [|exact IH].
        destruct Hoi as (y0 & yr & Hm & (tot & k0 & HC & He & Hk0)). cbn [fst].
        rewrite (conn_noshift lat _ _ _ _ _ _ _ HC (Hsh eq_refl)) in He. rewrite (Hk0 (or_introl Ho)) in He.
        destruct (m2l_box lat Hwf 0 0 0 [] (conj (Z.le_refl 0) (wf_Lu lat Hwf)) _ _ _ _ Hm) as (_ & Hy). specialize (Hy Hfin). lia. }
      assert (Hne0 : col0 ops <> []) by (unfold col0; destruct ops; [congruence|discriminate]).
      destruct (zmin_l_spec _ Hne0) as (Hmi & _). destruct (zmax_l_spec _ Hne0) as (Hma & _).
      rewrite Forall_forall in Hcol. pose proof (Hcol _ Hmi). pose proof (Hcol _ Hma). fold m0 in H. rewrite Hc0. unfold m0 at 2. lia.
    - unfold c0, t0. destruct (mod_decomp (b0 + m0 - T) (L0 lat) HL) as (Hdec & Hb).
      remember ((b0 + m0 - T) / L0 lat) as q. remember ((b0 + m0 - T) mod L0 lat) as x'. lia. }
  assert (Hbox : in_box (c0 :: cr) shape).
  { unfold shape. rewrite multi_shape_eq. cbn [fst]. constructor; [exact Hbox0|exact Hboxr]. }
  split; [eapply box_nonzero; exact Hbox|].
  exists c0, cr, (map (fun i => i + (if infinite lat then - t0 * N else 0)) r). split; [exact Hbox|]. split; [exact HF2|].
  assert (Hner : r <> []) by (intros ->; inversion HF; subst; congruence).
  unfold norm_ijkl. destruct (infinite lat) eqn:Hi.
  - specialize (Hmin eq_refl). fold N in Hmin. fold N.
    rewrite zmin_map_add by exact Hner. rewrite map_map.
    rewrite Z.mod_add by lia. rewrite (Z.mod_small _ _ Hmin).
    rewrite <- (map_id r) at 1. apply map_ext. intros i. lia.
  - rewrite <- (map_id r) at 1. apply map_ext. intros i. lia.
Qed.

End Multi2.

(* ---- each multi-coupling once: the row determines the corner *)
Lemma conn_rest_inj Ls os ss xs ds ys tot : conn_rest Ls os ss xs ds ys tot ->
  forall xs' tot', conn_rest Ls os ss xs' ds ys tot' ->
  Forall2 (fun x L => 0 <= x < L) xs Ls -> Forall2 (fun x L => 0 <= x < L) xs' Ls ->
  xs = xs' /\ tot = tot'.
Proof.
  induction 1 as [|L o s x d y k Ls os ss xs ds ys tot Hy He Ho HC IH]; intros xs2 tot2 H2 B1 B2.
  - inversion H2. split; reflexivity.
  - inversion H2 as [|L' o' s' x' d' y' k' Ls' os' ss' xs' ds' ys' tot' Hy' He' Ho' HC']; subst.
    inversion B1 as [|? ? ? ? Hx B1']; subst. inversion B2 as [|? ? ? ? Hx' B2']; subst.
    assert (k = k') by nia. subst k'. assert (x = x') by lia. subst x'.
    destruct (IH _ _ HC' B1' B2') as (-> & ->). split; reflexivity.
Qed.

Lemma fsh_le L o c : c <> [] -> fsh L o c <= L.
Proof.
  intros Hne. unfold fsh. destruct (zmin_l_spec c Hne) as (_ & Hle). destruct (zmax_l_spec c Hne) as (Hin & _).
  specialize (Hle _ Hin). destruct o; lia.
Qed.

Lemma shape_r_le : forall Ls os D cr, D <> [] -> in_box cr (shape_r Ls os D) -> length cr = length Ls ->
  Forall2 (fun x L => 0 <= x < L) cr Ls.
Proof.
  unfold in_box. induction Ls as [|L Ls IH]; intros os D cr Hne HB Hl.
  - destruct cr; [constructor|discriminate].
  - destruct os as [|o os]; cbn [shape_r] in HB.
    + inversion HB; subst. discriminate.
    + inversion HB as [|x s cr' shp Hx HB']; subst. cbn in Hl.
      assert (Hne1 : map (hd 0) D <> []) by (destruct D; [congruence|discriminate]).
      assert (Hne2 : map (@tl Z) D <> []) by (destruct D; [congruence|discriminate]).
      pose proof (fsh_le L o _ Hne1). constructor; [lia|]. apply (IH os (map (@tl Z) D)); [exact Hne2|exact HB'|lia].
Qed.

Lemma map_flat_map {A B C} (g : B -> C) (f : A -> list B) l : map g (flat_map f l) = flat_map (fun a => map g (f a)) l.
Proof. induction l as [|a l IH]; cbn [flat_map map]; [reflexivity|]. now rewrite map_app, IH. Qed.

Lemma nodup_flat_map_inj {A B} (f : A -> list B) l :
  (forall a, In a l -> NoDup (f a)) ->
  (forall a a' b, In a l -> In a' l -> In b (f a) -> In b (f a') -> a = a') ->
  NoDup l -> NoDup (flat_map f l).
Proof.
  intros Hf Hinj Hnd. induction Hnd as [|a l Ha Hnd IH]; cbn [flat_map]; [constructor|].
  apply nodup_app.
  - apply Hf. now left.
  - apply IH; [intros; apply Hf; now right|intros a1 a2 b H1 H2; apply Hinj; now right].
  - intros b Hb1 Hb2. apply in_flat_map in Hb2. destruct Hb2 as (a' & Ha' & Hb2).
    assert (a = a') by (apply (Hinj a a' b); [now left|now right|exact Hb1|exact Hb2]). subst. contradiction.
Qed.

Section Multi3.
Variable lat : lattice.
Hypothesis Hwf : wf lat.
Variable ops : list op.
Hypothesis Hops : ops_wf lat ops.

Let N := nsites lat.
Let shape := fst (multi_shape lat ops).
Let m0 := zmin_l (col0 ops).
Let mr := mins_r (length (Lr lat)) (Drs ops).

Lemma row_in c0 cr r :
  In r (map fst (multi_row lat ops (m0 :: mr) (c0 :: cr))) <->
  exists ijkl, Forall2 (fun o i => op_at lat c0 cr (shift_op m0 mr o) i) ops ijkl /\ r = norm_ijkl lat ijkl.
Proof.
  rewrite multi_row_eq. destruct (opt_all (map (one_op lat m0 mr c0 cr) ops)) as [l|] eqn:Eo.
  - cbn [map fst In]. split.
    + intros [<-|[]]. exists l. split; [|reflexivity].
      apply (one_ops_iff lat Hwf _ _ _ _ _ (proj2 Hops)). now apply opt_all_some.
    + intros (ijkl & HF & ->). apply (one_ops_iff lat Hwf _ _ _ _ _ (proj2 Hops)) in HF. apply opt_all_some in HF.
      rewrite HF in Eo. inversion Eo. now left.
  - split; [intros []|]. intros (ijkl & HF & _).
    apply (one_ops_iff lat Hwf _ _ _ _ _ (proj2 Hops)) in HF. apply opt_all_some in HF. congruence.
Qed.

Lemma corner_unique c0 cr c0' cr' r : in_box (c0 :: cr) shape -> in_box (c0' :: cr') shape ->
  In r (map fst (multi_row lat ops (m0 :: mr) (c0 :: cr))) ->
  In r (map fst (multi_row lat ops (m0 :: mr) (c0' :: cr'))) -> c0 :: cr = c0' :: cr'.
Proof.
  intros HB HB' Hr Hr'. apply row_in in Hr. apply row_in in Hr'.
  destruct Hr as (ijkl & HF & Hn). destruct Hr' as (ijkl' & HF' & Hn').
  destruct Hops as (Hne & HW). pose proof (wf_L0 lat Hwf) as HL.
  unfold shape in HB, HB'. rewrite multi_shape_eq in HB, HB'. cbn [fst] in HB, HB'.
  inversion HB as [|? ? ? ? Hc0 HBr]; subst. inversion HB' as [|? ? ? ? Hc0' HBr']; subst.
  assert (Hne0 : col0 ops <> []) by (unfold col0; destruct ops; [congruence|discriminate]).
  assert (HneD : Drs ops <> []) by (unfold Drs; destruct ops; [congruence|discriminate]).
  pose proof (fsh_le (L0 lat) (open0 lat) _ Hne0) as Hfle.
  destruct ops as [|[[dx0 dxr] u] ops']; [congruence|].
  inversion HF as [|? i1 ? l Hoi _]; subst. inversion HF' as [|? i1' ? l' Hoi' _]; subst.
  destruct Hoi as (y0 & yr & Hm & (tot & k0 & HC & He & Hk0)).
  destruct Hoi' as (y0' & yr' & Hm' & (tot' & k0' & HC' & He' & Hk0')).
  (* the first site of both rows is the same up to a translation by whole MPS unit cells *)
  assert (Hy : exists w, y0' = y0 + w * L0 lat /\ yr' = yr).
  { unfold norm_ijkl in Hn'. destruct (infinite lat) eqn:Hi.
    - pose proof (Npos lat Hwf Hi) as HN. fold N in HN, Hn'.
      set (mn := zmin_l (i1 :: l)) in *. set (mn' := zmin_l (i1' :: l')) in *.
      cbn [map] in Hn'. inversion Hn' as [[Hh Ht]].
      assert (Hz : mn mod N - mn = (- (mn / N)) * N) by (pose proof (Z.div_mod mn N); lia).
      assert (Hz' : mn' mod N - mn' = (- (mn' / N)) * N) by (pose proof (Z.div_mod mn' N); lia).
      exists (mn' / N - mn / N).
      assert (Hi1 : i1' = i1 + (mn' / N - mn / N) * N) by lia.
      pose proof (mps2lat_add lat Hwf Hi _ (mn' / N - mn / N) _ _ _ Hm) as Hm2. fold N in Hm2.
      rewrite <- Hi1 in Hm2. rewrite Hm2 in Hm'. inversion Hm'. split; reflexivity.
    - inversion Hn'. subst. rewrite Hm in Hm'. inversion Hm'. exists 0. split; [lia|reflexivity]. }
  destruct Hy as (w & -> & ->).
  destruct (conn_rest_lengths _ _ _ _ _ _ _ HC) as (_ & _ & Hl & _).
  destruct (conn_rest_lengths _ _ _ _ _ _ _ HC') as (_ & _ & Hl' & _).
  pose proof (shape_r_le _ _ _ _ HneD HBr Hl) as HBx. pose proof (shape_r_le _ _ _ _ HneD HBr' Hl') as HBx'.
  destruct (conn_rest_inj _ _ _ _ _ _ _ HC _ _ HC' HBx HBx') as (-> & ->).
  f_equal. assert (Hd : c0 - c0' = (k0 - k0' - w) * L0 lat) by (clear - He He'; lia).
  assert (Hb : 0 <= c0 < L0 lat /\ 0 <= c0' < L0 lat) by (clear - Hc0 Hc0' Hfle; lia).
  clear - Hd Hb HL. remember (k0 - k0' - w) as K eqn:HK. clear HK.
  assert (HK0 : K = 0).
  { assert (K <= -1 \/ K = 0 \/ K >= 1) as [Hc|[Hc|Hc]] by lia; [exfalso|exact Hc|exfalso].
    - assert (K * L0 lat <= - L0 lat) by nia. lia.
    - assert (K * L0 lat >= L0 lat) by nia. lia. }
  subst K. lia.
Qed.

Lemma multi_nodup : NoDup (multi_ijkl lat ops).
Proof.
  unfold multi_ijkl, possible_multi_couplings. rewrite multi_shape_eq. fold m0 mr.
  set (shp := fsh (L0 lat) (open0 lat) (col0 ops) :: shape_r (Lr lat) (openr lat) (Drs ops)).
  assert (Hshp : shp = shape) by (unfold shape; rewrite multi_shape_eq; reflexivity).
  destruct (existsb (fun s => s =? 0) shp); [constructor|].
  rewrite map_flat_map. apply nodup_flat_map_inj.
  - intros c Hc. apply cstyle_in in Hc. destruct c as [|c0 cr]; [inversion Hc|].
    rewrite multi_row_eq. destruct (opt_all (map (one_op lat m0 mr c0 cr) ops)); cbn [map]; repeat constructor.
    intros [].
  - intros c c' r Hc Hc' Hr Hr'. apply cstyle_in in Hc. apply cstyle_in in Hc'.
    destruct c as [|c0 cr]; [inversion Hc|]. destruct c' as [|c0' cr']; [inversion Hc'|].
    rewrite Hshp in Hc, Hc'. now apply (corner_unique c0 cr c0' cr' r).
  - apply cstyle_nodup.
Qed.

Lemma multi_couplings_exact :
  (open0 lat = true -> Forall (fun s => s = 0) (shiftr lat)) ->
  NoDup (multi_ijkl lat ops) /\
  forall ijkl, In ijkl (multi_ijkl lat ops) <-> multi_coupled lat ops ijkl.
Proof.
  intros Hsh. split; [apply multi_nodup|]. intros r. split.
  - now apply (multi_sound lat Hwf ops Hops).
  - now apply (multi_complete lat Hwf ops Hops).
Qed.

End Multi3.
