(* Lemmas about Model/Window.v (uses the index theorems of Proofs/MpsIndexP.v, property C07). *)
From TenpyV Require Import Base.Prelude Model.MpsIndex Proofs.MpsIndexP Model.Window.
Open Scope Z_scope.

Lemma theta_reads_infinite L : 0 < L -> forall n s,
  theta_reads false L s n = Some (map (fun t => (t mod L, t / L)) (wrange s n)).
Proof.
  intros HL. induction n as [|n IH]; intros s; cbn [theta_reads wrange map]; [reflexivity|].
  destruct (index_infinite L s HL) as (H1 & _). rewrite H1, IH. reflexivity.
Qed.

Lemma wrange_length n : forall a, length (wrange a n) = n.
Proof. induction n as [|n IH]; intros a; cbn [wrange length]; [reflexivity | rewrite IH; reflexivity]. Qed.

Lemma wrange_nth n : forall a k d, (k < n)%nat -> nth k (wrange a n) d = a + Z.of_nat k.
Proof.
  induction n as [|n IH]; intros a k d Hk; [lia|].
  destruct k as [|k]; cbn [wrange nth]; [lia|]. rewrite IH by lia. lia.
Qed.

Lemma wrange_in n : forall a x, In x (wrange a n) <-> a <= x < a + Z.of_nat n.
Proof. induction n as [|n IH]; intros a x; cbn [wrange In]; [lia|]. rewrite IH. lia. Qed.

Lemma nth_map_lt2 (A B : Type) (f : A -> B) : forall l m d d', (m < length l)%nat -> nth m (map f l) d = f (nth m l d').
Proof.
  induction l as [|x l IH]; intros m d d' Hm; [cbn in Hm; lia|].
  destruct m as [|m]; cbn [map nth]; [reflexivity|]. apply IH. cbn [length] in Hm. lia.
Qed.

(* infinite MPS: the window starting at any integer s reads unit-cell site (s+k) mod L of cell (s+k) div L, the operator is
   ops[(s mod L) mod len(ops)]; consecutive tensors are neighbours (the successor of the last site of a cell is site 0 of
   the next cell); translating s by m unit cells changes nothing but the cell counters *)
Lemma window_infinite_spec L nops s n : 0 < L -> 0 < nops ->
  let reads := map (fun t => (t mod L, t / L)) (wrange s n) in
  ev_site false L nops s n = Some ((s mod L) mod nops, (s mod L) / nops, s / L, reads) /\
  length reads = n /\
  (forall k, (k < n)%nat ->
     let '(r, c) := nth k reads (0, 0) in
     c * L + r = s + Z.of_nat k /\ 0 <= r < L /\
     ((S k < n)%nat -> nth (S k) reads (0, 0) = if r =? L - 1 then (0, c + 1) else (r + 1, c))) /\
  (forall m, ev_site false L nops (s + m * L) n =
             Some ((s mod L) mod nops, (s mod L) / nops, s / L + m, map (fun a => (fst a, snd a + m)) reads)).
Proof.
  intros HL Hn reads.
  assert (Hev : forall s', ev_site false L nops s' n =
            Some ((s' mod L) mod nops, (s' mod L) / nops, s' / L, map (fun t => (t mod L, t / L)) (wrange s' n))).
  { intros s'. unfold ev_site. destruct (index_infinite L s' HL) as (H1 & _). rewrite H1, theta_reads_infinite by exact HL.
    reflexivity. }
  split; [apply Hev|]. split; [unfold reads; rewrite map_length; apply wrange_length|]. split.
  - intros k Hk. unfold reads.
    rewrite (nth_map_lt2 _ _ (fun t => (t mod L, t / L)) _ k (0, 0) 0) by (rewrite wrange_length; exact Hk).
    rewrite wrange_nth by exact Hk. set (t := s + Z.of_nat k).
    split; [pose proof (Z.div_mod t L); lia|]. split; [apply Z.mod_pos_bound; lia|].
    intros Hk1.
    rewrite (nth_map_lt2 _ _ (fun t => (t mod L, t / L)) _ (S k) (0, 0) 0) by (rewrite wrange_length; exact Hk1).
    rewrite wrange_nth by exact Hk1. replace (s + Z.of_nat (S k)) with (t + 1) by (unfold t; lia).
    pose proof (Z.mod_pos_bound t L HL) as Hb. pose proof (Z.div_mod t L ltac:(lia)) as Hd.
    destruct (t mod L =? L - 1) eqn:E.
    + assert (Hq : (t + 1) / L = t / L + 1) by (symmetry; apply (Z.div_unique (t + 1) L (t / L + 1) 0); lia).
      assert (Hr : (t + 1) mod L = 0) by (symmetry; apply (Z.mod_unique (t + 1) L (t / L + 1) 0); lia).
      rewrite Hq, Hr. reflexivity.
    + assert (Hq : (t + 1) / L = t / L) by (symmetry; apply (Z.div_unique (t + 1) L (t / L) (t mod L + 1)); lia).
      assert (Hr : (t + 1) mod L = t mod L + 1) by (symmetry; apply (Z.mod_unique (t + 1) L (t / L) (t mod L + 1)); lia).
      rewrite Hq, Hr. reflexivity.
  - intros m. rewrite Hev. rewrite Z.mod_add, Z.div_add by lia. f_equal. f_equal.
    unfold reads. rewrite map_map. cbn [fst snd].
    clear Hev reads. revert s. induction n as [|n IH]; intros s; cbn [wrange map]; [reflexivity|].
    rewrite Z.mod_add, Z.div_add by lia. f_equal.
    replace (s + m * L + 1) with (s + 1 + m * L) by lia. apply IH.
Qed.

Lemma theta_reads_finite L : 0 < L -> forall n s, 0 <= s -> s + Z.of_nat n <= L ->
  theta_reads true L s n = Some (map (fun t => (t, 0)) (wrange s n)).
Proof.
  intros HL. induction n as [|n IH]; intros s Hs Hn; cbn [theta_reads wrange map]; [reflexivity|].
  destruct (index_finite_rejects L s HL) as (_ & H2 & _). destruct (H2 ltac:(lia)) as (H3 & _).
  rewrite H3, IH by lia. reflexivity.
Qed.

Lemma theta_reads_finite_rejects L : 0 < L -> forall n s, (1 <= n)%nat -> 0 <= s -> L < s + Z.of_nat n ->
  theta_reads true L s n = None.
Proof.
  intros HL. induction n as [|n IH]; intros s Hn1 Hs Hn; cbn [theta_reads]; [lia|].
  destruct (Z_lt_dec s L) as [Hlt|Hge].
  - rewrite IH by lia. destruct (to_valid_site_index true L s); reflexivity.
  - destruct (index_finite_rejects L s HL) as (H1 & _). destruct (H1 ltac:(lia)) as (H3 & _). rewrite H3. reflexivity.
Qed.

(* finite / segment chains: a window inside [0, L) is read as it is, a window sticking out to the right is an error; with
   sites=None every default start is valid and the next start would not be *)
Lemma window_finite_spec L nops s n : 0 < L -> 0 < nops -> (1 <= n)%nat -> 0 <= s ->
  (s + Z.of_nat n <= L ->
     ev_site true L nops s n = Some (s mod nops, s / nops, 0, map (fun t => (t, 0)) (wrange s n))) /\
  (L < s + Z.of_nat n -> ev_site true L nops s n = None) /\
  (forall s', In s' (ev_default_sites true L n) <-> 0 <= s' /\ s' + Z.of_nat n <= L) /\
  (forall s', In s' (ev_default_sites false L n) <-> 0 <= s' < L).
Proof.
  intros HL Hn Hn1 Hs. split; [|split; [|split]].
  - intros Hfit. unfold ev_site. destruct (index_finite_rejects L s HL) as (_ & H2 & _). destruct (H2 ltac:(lia)) as (H3 & _).
    rewrite H3, theta_reads_finite by lia. reflexivity.
  - intros Hout. unfold ev_site. rewrite theta_reads_finite_rejects by lia.
    destruct (to_valid_site_index true L s) as [[r c]|]; reflexivity.
  - intros s'. unfold ev_default_sites. rewrite wrange_in. lia.
  - intros s'. unfold ev_default_sites. rewrite wrange_in. lia.
Qed.
