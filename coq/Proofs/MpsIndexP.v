From TenpyV Require Import Base.Prelude Model.MpsIndex.
Open Scope Z_scope.

Lemma index_infinite : forall L i, 0 < L ->
  to_valid_site_index false L i = Some (i mod L, i / L) /\
  0 <= i mod L < L /\ i = (i / L) * L + i mod L /\
  to_valid_bond_index false L i true = Some (i mod L, i / L) /\
  to_valid_bond_index false L i false = Some ((i + 1) mod L, (i + 1) / L).
Proof.
  intros L i HL. unfold to_valid_bond_index, to_valid_site_index. cbn [andb negb].
  rewrite Z.add_0_r. repeat split; try reflexivity.
  - apply Z.mod_pos_bound; lia.
  - apply Z.mod_pos_bound; lia.
  - pose proof (Z.div_mod i L). lia.
Qed.

(* translation by whole unit cells only changes the cell counter *)
Lemma index_infinite_periodic : forall L i k, 0 < L ->
  to_valid_site_index false L (i + k * L) = Some (i mod L, i / L + k).
Proof.
  intros L i k HL. unfold to_valid_site_index. cbn [andb negb].
  rewrite Z.mod_add by lia. rewrite Z.div_add by lia. reflexivity.
Qed.

Lemma index_finite_rejects : forall L i, 0 < L ->
  (i < - L \/ L <= i -> to_valid_site_index true L i = None /\
                         to_valid_bond_index true L i true = None /\ to_valid_bond_index true L i false = None) /\
  (0 <= i < L -> to_valid_site_index true L i = Some (i, 0) /\
                 to_valid_bond_index true L i true = Some (i, 0) /\
                 to_valid_bond_index true L i false = Some (i + 1, 0)) /\
  (- L <= i < 0 -> to_valid_site_index true L i = Some (i + L, 0)).
Proof.
  intros L i HL.
  assert (Hrej : i < - L \/ L <= i -> to_valid_site_index true L i = None).
  { intros [H|H]; unfold to_valid_site_index; cbn [andb];
      assert (Hq : i / L <> 0 /\ i / L <> -1) by (split; intro E; nia);
      destruct (i / L =? -1) eqn:E1; try lia; destruct (i / L =? 0) eqn:E2; try lia; reflexivity. }
  split; [|split].
  - intros H. specialize (Hrej H). unfold to_valid_bond_index. rewrite Hrej. auto.
  - intros H. unfold to_valid_bond_index, to_valid_site_index. cbn [andb].
    rewrite Z.div_small by lia. rewrite Z.mod_small by lia. cbn.
    repeat split; repeat f_equal; lia.
  - intros H. unfold to_valid_site_index. cbn [andb].
    assert (Hq : i / L = -1) by (symmetry; apply (Z.div_unique i L (-1) (i + L)); lia).
    assert (Hr : i mod L = i + L) by (symmetry; apply (Z.mod_unique i L (-1) (i + L)); lia).
    rewrite Hq, Hr. reflexivity.
Qed.
