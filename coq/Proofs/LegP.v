(* Lemmas about Model/ChargeL.v and Model/Leg.v (C06). *)
From TenpyV Require Import Base.Prelude Model.ChargeL Model.Leg.
Open Scope Z_scope.

Definition nonneg (szs : list Z) : Prop := Forall (fun s => 0 <= s) szs.

(* ---------------------------------------------------------------- slices / get_qindex *)
Lemma offs_nil j : offs [] j = 0.
Proof. destruct j; reflexivity. Qed.

Lemma offs_cons s t j : offs (s :: t) (S j) = s + offs t j.
Proof. reflexivity. Qed.

Lemma offs_nonneg szs : nonneg szs -> forall j, 0 <= offs szs j.
Proof.
  induction 1 as [|s t Hs Ht IH]; intros j; [rewrite offs_nil; lia|].
  destruct j; [cbn [offs]; lia|]. rewrite offs_cons. specialize (IH j). lia.
Qed.

Lemma sumZ_nonneg' szs : nonneg szs -> 0 <= sumZ szs.
Proof. apply sumZ_nonneg. Qed.

Lemma offs_step szs : forall j, (j < length szs)%nat -> offs szs (S j) = offs szs j + nth j szs 0.
Proof.
  induction szs as [|s t IH]; intros j Hj; [cbn in Hj; lia|].
  destruct j; [cbn [offs nth]; destruct t; cbn [offs]; lia|].
  rewrite !offs_cons. cbn [nth]. cbn [length] in Hj. rewrite IH by lia. lia.
Qed.

Lemma offs_all szs : offs szs (length szs) = sumZ szs.
Proof. induction szs as [|s t IH]; [reflexivity|]. cbn [length]. rewrite offs_cons, IH. reflexivity. Qed.

Lemma offs_le_sum szs : nonneg szs -> forall j, offs szs j <= sumZ szs.
Proof.
  induction 1 as [|s t Hs Ht IH]; intros j; [rewrite offs_nil; cbn; lia|].
  destruct j; [cbn [offs sumZ]; pose proof (sumZ_nonneg' t Ht); lia|].
  rewrite offs_cons. cbn [sumZ]. specialize (IH j). lia.
Qed.

Lemma offs_block_le szs : nonneg szs -> forall j, (j < length szs)%nat -> offs szs j + nth j szs 0 <= sumZ szs.
Proof. intros H j Hj. rewrite <- offs_step by exact Hj. apply offs_le_sum, H. Qed.

Lemma locate_sound szs : nonneg szs -> forall k j w, 0 <= k -> locate szs k = Some (j, w) ->
  (j < length szs)%nat /\ 0 <= w < nth j szs 0 /\ k = offs szs j + w.
Proof.
  induction 1 as [|s t Hs Ht IH]; intros k j w Hk H; cbn [locate] in H; [discriminate|].
  destruct (k <? s) eqn:E.
  - injection H as <- <-. cbn [length nth offs]. lia.
  - destruct (locate t (k - s)) as [[j' w']|] eqn:E2; [|discriminate].
    injection H as <- <-. destruct (IH (k - s) j' w' ltac:(lia) E2) as (H1 & H2 & H3).
    cbn [length nth]. rewrite offs_cons. lia.
Qed.

Lemma locate_complete szs : nonneg szs -> forall j w, (j < length szs)%nat -> 0 <= w < nth j szs 0 ->
  locate szs (offs szs j + w) = Some (j, w).
Proof.
  induction 1 as [|s t Hs Ht IH]; intros j w Hj Hw; [cbn in Hj; lia|].
  destruct j as [|j].
  - cbn [offs nth] in *. cbn [locate]. replace (0 + w) with w by lia.
    destruct (w <? s) eqn:E; [reflexivity|lia].
  - cbn [nth length] in *. rewrite offs_cons. cbn [locate].
    pose proof (offs_nonneg t Ht j).
    destruct (s + offs t j + w <? s) eqn:E; [lia|].
    replace (s + offs t j + w - s) with (offs t j + w) by lia. rewrite IH; [reflexivity|lia|lia].
Qed.

Lemma locate_some szs : nonneg szs -> forall k, 0 <= k < sumZ szs -> exists j w, locate szs k = Some (j, w).
Proof.
  induction 1 as [|s t Hs Ht IH]; intros k Hk; [cbn in Hk; lia|].
  cbn [locate]. destruct (k <? s) eqn:E; [eauto|].
  cbn [sumZ] in Hk. destruct (IH (k - s) ltac:(lia)) as (j & w & ->). eauto.
Qed.

Lemma locate_none szs : nonneg szs -> forall k, sumZ szs <= k -> locate szs k = None.
Proof.
  induction 1 as [|s t Hs Ht IH]; intros k Hk; [reflexivity|].
  cbn [locate]. cbn [sumZ] in Hk. pose proof (sumZ_nonneg' t Ht).
  destruct (k <? s) eqn:E; [lia|]. rewrite IH by lia. reflexivity.
Qed.

Lemma bsz_length l : length (bsz l) = nblocks l.
Proof. apply map_length. Qed.

Lemma bsz_nth l i : nth i (bsz l) 0 = fst (blk l i).
Proof. unfold bsz, blk. change 0 with (fst (0, @nil Z)). apply map_nth. Qed.

(* get_qindex is the inverse of the slices on [-ind_len, ind_len) and an error outside *)
Lemma get_qindex_spec l i : nonneg (bsz l) ->
  (- ind_len l <= i < ind_len l ->
     exists q w, get_qindex l i = Some (q, w) /\ (q < nblocks l)%nat /\ 0 <= w < fst (blk l q) /\
                 (if i <? 0 then i + ind_len l else i) = offs (bsz l) q + w) /\
  (i < - ind_len l \/ ind_len l <= i -> get_qindex l i = None).
Proof.
  intros Hn. unfold get_qindex. pose proof (sumZ_nonneg' _ Hn) as Hs. fold (ind_len l) in Hs.
  assert (A : forall i', 0 <= i' < ind_len l ->
     exists q w, locate (bsz l) i' = Some (q, w) /\ (q < nblocks l)%nat /\ 0 <= w < fst (blk l q) /\ i' = offs (bsz l) q + w).
  { intros i' Hi'. destruct (locate_some _ Hn i' Hi') as (q & w & Hl). exists q, w.
    destruct (locate_sound _ Hn i' q w (proj1 Hi') Hl) as (H1 & H2 & H3).
    rewrite bsz_length in H1. rewrite bsz_nth in H2. auto. }
  destruct (i <? 0) eqn:E; split; intros Hi.
  - destruct (i + ind_len l <? 0) eqn:E1; [lia|]. destruct (ind_len l <=? i + ind_len l) eqn:E2; [lia|]. cbn [orb].
    apply A. lia.
  - destruct (i + ind_len l <? 0) eqn:E1; [reflexivity|]. destruct (ind_len l <=? i + ind_len l) eqn:E2; [reflexivity|]. lia.
  - rewrite E. destruct (ind_len l <=? i) eqn:E2; [lia|]. cbn [orb]. apply A. lia.
  - rewrite E. destruct (ind_len l <=? i) eqn:E2; [reflexivity|]. lia.
Qed.

Lemma get_qindex_inverse l q w : nonneg (bsz l) -> (q < nblocks l)%nat -> 0 <= w < fst (blk l q) ->
  get_qindex l (offs (bsz l) q + w) = Some (q, w) /\ 0 <= offs (bsz l) q + w < ind_len l.
Proof.
  intros Hn Hq Hw. rewrite <- bsz_length in Hq. rewrite <- bsz_nth in Hw.
  pose proof (offs_nonneg _ Hn q). pose proof (offs_block_le _ Hn q Hq).
  assert (R : 0 <= offs (bsz l) q + w < ind_len l) by (unfold ind_len; lia).
  split; [|exact R]. unfold get_qindex. cbv zeta.
  assert (E : (offs (bsz l) q + w <? 0) = false) by lia.
  assert (E2 : (ind_len l <=? offs (bsz l) q + w) = false) by lia.
  rewrite E. cbv iota. rewrite E, E2. cbn [orb].
  apply locate_complete; assumption.
Qed.

(* ---------------------------------------------------------------- charges *)
Lemma veqb_eq a : forall b, veqb a b = true -> a = b.
Proof.
  induction a as [|x a IH]; intros [|y b] H; cbn [veqb] in H; try discriminate; [reflexivity|].
  apply andb_prop in H. destruct H as [H1 H2]. f_equal; [lia|auto].
Qed.

Lemma veqb_refl a : veqb a a = true.
Proof. induction a as [|x a IH]; [reflexivity|]. cbn [veqb]. rewrite IH, Z.eqb_refl. reflexivity. Qed.

Lemma mv1_flip m q x : mv1 m (- q * mv1 m (- x)) = mv1 m (q * x).
Proof.
  unfold mv1. destruct (m =? 1); [ring|].
  rewrite Zmult_mod_idemp_r. f_equal. ring.
Qed.

(* flip_charges_qconj leaves the physical charge qconj * charge (mod) unchanged *)
Lemma phys_flip ci : forall q c, phys ci (- q) (make_valid ci (vneg c)) = phys ci q c.
Proof.
  unfold phys. induction ci as [|m ci IH]; intros q c; [reflexivity|].
  destruct c as [|x c]; [reflexivity|]. cbn [vneg map make_valid vscale].
  f_equal; [apply mv1_flip|]. apply (IH q c).
Qed.

Lemma all2_refl {A} (f : A -> A -> bool) l : (forall x, f x x = true) -> all2 f l l = true.
Proof. intros H. induction l as [|x l IH]; [reflexivity|]. cbn [all2]. rewrite H, IH. reflexivity. Qed.

Lemma flip_equal ci l : leg_equal ci l (flip_leg ci l) = true.
Proof.
  unfold leg_equal, flip_leg. cbn [blocks qc]. induction (blocks l) as [|b bs IH]; [reflexivity|].
  cbn [map all2 fst snd]. rewrite IH, Z.eqb_refl, phys_flip, veqb_refl. reflexivity.
Qed.

Lemma flip_blocks ci l : map fst (blocks (flip_leg ci l)) = map fst (blocks l) /\ qc (flip_leg ci l) = - qc l.
Proof. unfold flip_leg. cbn [blocks qc]. rewrite map_map. cbn [fst]. auto. Qed.

Lemma conj_contractible ci l : contractible ci l (conj_leg l) = true.
Proof.
  unfold contractible, leg_equal, conj_leg. cbn [blocks qc]. rewrite Z.opp_involutive.
  apply all2_refl. intros x. rewrite Z.eqb_refl, veqb_refl. reflexivity.
Qed.

(* ---------------------------------------------------------------- bunch *)
Lemma block_flat_add a b c : 0 <= a -> 0 <= b -> block_flat (a + b, c) = block_flat (a, c) ++ block_flat (b, c).
Proof. intros Ha Hb. unfold block_flat. cbn [fst snd]. rewrite Z2Nat.inj_add by assumption. apply repeat_app. Qed.

Lemma bunch_nonneg bs : nonneg (map fst bs) -> nonneg (map fst (bunch_blocks bs)).
Proof.
  induction bs as [|b t IH]; intros H; [constructor|]. cbn [map] in H. inversion H as [|? ? Hb Ht]; subst.
  specialize (IH Ht). cbn [bunch_blocks]. destruct (bunch_blocks t) as [|b' t'] eqn:E.
  - constructor; [exact Hb|constructor].
  - cbn [map] in IH. inversion IH as [|? ? Hb' Ht']; subst.
    destruct (veqb (snd b) (snd b')); cbn [map fst]; constructor; try assumption; try lia.
Qed.

Lemma bunch_qflat bs : nonneg (map fst bs) -> qflat_blocks (bunch_blocks bs) = qflat_blocks bs.
Proof.
  induction bs as [|b t IH]; intros H; [reflexivity|]. cbn [map] in H. inversion H as [|? ? Hb Ht]; subst.
  specialize (IH Ht). pose proof (bunch_nonneg t Ht) as Hn.
  cbn [bunch_blocks]. destruct (bunch_blocks t) as [|b' t'] eqn:E.
  - unfold qflat_blocks in *. cbn [flat_map] in *. rewrite <- IH. reflexivity.
  - cbn [map] in Hn. inversion Hn as [|? ? Hb' Ht']; subst.
    unfold qflat_blocks in *. cbn [flat_map]. rewrite <- IH.
    destruct (veqb (snd b) (snd b')) eqn:V; [|reflexivity].
    apply veqb_eq in V. cbn [flat_map]. destruct b as [sb cb], b' as [sb' cb']. cbn [fst snd] in *. subst cb'.
    rewrite block_flat_add by assumption. rewrite <- app_assoc. reflexivity.
Qed.

(* no two neighbours of the result carry the same charge *)
Fixpoint adj_distinct (bs : list block) : bool :=
  match bs with
  | b :: ((b' :: _) as t) => negb (veqb (snd b) (snd b')) && adj_distinct t
  | _ => true
  end.

Lemma bunch_distinct bs : adj_distinct (bunch_blocks bs) = true.
Proof.
  induction bs as [|b t IH]; [reflexivity|]. cbn [bunch_blocks].
  destruct (bunch_blocks t) as [|b' t'] eqn:E; [reflexivity|].
  destruct (veqb (snd b) (snd b')) eqn:V.
  - destruct t' as [|b'' t'']; [reflexivity|]. cbn [adj_distinct snd] in *.
    apply veqb_eq in V. rewrite V. exact IH.
  - cbn [adj_distinct]. rewrite V. exact IH.
Qed.

(* ---------------------------------------------------------------- project *)
Lemma select_app {A} (m : list bool) : forall (a b : list A),
  select m (a ++ b) = select (firstn (length a) m) a ++ select (skipn (length a) m) b.
Proof.
  induction m as [|x m IH]; intros a b.
  - rewrite firstn_nil, skipn_nil. destruct a, b; reflexivity.
  - destruct a as [|y a]; [reflexivity|]. cbn [app select length firstn skipn].
    rewrite IH. destruct x; reflexivity.
Qed.

Lemma select_repeat {A} (c : A) : forall n m, select m (repeat c n) = repeat c (Z.to_nat (count_true (firstn n m))).
Proof.
  induction n as [|n IH]; intros m; [destruct m; reflexivity|].
  destruct m as [|x m]; [reflexivity|]. cbn [repeat select firstn count_true].
  assert (0 <= count_true (firstn n m)) by (clear; induction (firstn n m) as [|b l IH]; cbn [count_true]; [lia|destruct b; lia]).
  rewrite IH. destruct x.
  - replace (1 + count_true (firstn n m)) with (Z.succ (count_true (firstn n m))) by lia.
    rewrite Z2Nat.inj_succ by assumption. reflexivity.
  - f_equal.
Qed.

Lemma firstn_firstn_same {A} n (m : list A) : firstn n (firstn n m) = firstn n m.
Proof. rewrite firstn_firstn. f_equal. lia. Qed.

Lemma project_qflat bs : forall mask,
  qflat_blocks (filter (fun b => negb (fst b =? 0)) (project_blocks bs mask)) = select mask (qflat_blocks bs).
Proof.
  unfold qflat_blocks. induction bs as [|b t IH]; intros mask; [destruct mask; reflexivity|].
  cbn [project_blocks flat_map]. rewrite select_app.
  assert (L : length (block_flat b) = Z.to_nat (fst b)) by (unfold block_flat; apply repeat_length).
  rewrite !L. change (block_flat b) with (repeat (snd b) (Z.to_nat (fst b))). rewrite select_repeat, firstn_firstn_same. rewrite <- IH. cbn [filter fst].
  destruct (count_true (firstn (Z.to_nat (fst b)) mask) =? 0) eqn:E; cbn [negb].
  - apply Z.eqb_eq in E. rewrite E. reflexivity.
  - cbn [flat_map]. reflexivity.
Qed.

(* ---------------------------------------------------------------- sort *)
Lemma lex_leb_total a : forall b, lex_leb a b = false -> lex_leb b a = true.
Proof.
  induction a as [|x a IH]; intros [|y b] H; cbn [lex_leb] in *; try discriminate; try reflexivity.
  destruct (x <? y) eqn:E1; [discriminate|]. destruct (y <? x) eqn:E2; [reflexivity|]. auto.
Qed.

Lemma key_leb_total a b : key_leb a b = false -> key_leb b a = true.
Proof. apply lex_leb_total. Qed.

Definition kle (x y : nat * block) : Prop := key_leb (snd (snd x)) (snd (snd y)) = true.

Lemma sinsert_perm x l : Permutation (sinsert x l) (x :: l).
Proof.
  induction l as [|y t IH]; [reflexivity|]. cbn [sinsert].
  destruct (key_leb (snd (snd x)) (snd (snd y))); [reflexivity|].
  rewrite IH. apply perm_swap.
Qed.

Lemma ssort_perm l : Permutation (ssort l) l.
Proof. induction l as [|x t IH]; [reflexivity|]. cbn [ssort fold_right]. rewrite sinsert_perm. constructor. exact IH. Qed.

Lemma sinsert_sorted x l : Sorted kle l -> Sorted kle (sinsert x l).
Proof.
  induction 1 as [|y t Ht IH Hy]; [repeat constructor|]. cbn [sinsert].
  destruct (key_leb (snd (snd x)) (snd (snd y))) eqn:E.
  - constructor; [constructor; assumption|constructor; exact E].
  - constructor; [exact IH|]. apply key_leb_total in E.
    destruct t as [|z t']; cbn [sinsert]; [constructor; exact E|].
    destruct (key_leb (snd (snd x)) (snd (snd z))); constructor; [exact E|]. inversion Hy; assumption.
Qed.

Lemma ssort_sorted l : Sorted kle (ssort l).
Proof. induction l as [|x t IH]; [constructor|]. cbn [ssort fold_right]. apply sinsert_sorted, IH. Qed.

Lemma combine_seq_nth (bs : list block) : forall s, Forall (fun ib => snd ib = nth (fst ib - s) bs (0, [])) (combine (seq s (length bs)) bs).
Proof.
  induction bs as [|b t IH]; intros s; [constructor|]. cbn [length seq combine]. constructor.
  - cbn [fst snd]. rewrite Nat.sub_diag. reflexivity.
  - specialize (IH (S s)). rewrite Forall_forall in *. intros ib Hin. specialize (IH ib Hin).
    assert (S s <= fst ib)%nat.
    { destruct ib as [i0 b0]. apply in_combine_l in Hin. apply in_seq in Hin. cbn [fst]. lia. }
    rewrite IH. replace (fst ib - s)%nat with (S (fst ib - S s)) by lia. reflexivity.
Qed.

Lemma map_fst_combine {A B} (a : list A) : forall (b : list B), length a = length b -> map fst (combine a b) = a.
Proof.
  induction a as [|x a IH]; intros [|y b] H; cbn [length] in H; try discriminate; [reflexivity|].
  cbn [combine map fst]. f_equal. apply IH. lia.
Qed.

(* sort: perm_qind is a permutation of the block numbers, the new blocks are the old ones taken in that
   order, and they are sorted by the lexsort key *)
Lemma sort_spec l :
  let s := ssort (combine (seq 0 (nblocks l)) (blocks l)) in
  Permutation (map fst s) (seq 0 (nblocks l)) /\
  map snd s = map (blk l) (map fst s) /\
  Sorted kle s.
Proof.
  intros s. pose proof (ssort_perm (combine (seq 0 (nblocks l)) (blocks l))) as P. fold s in P.
  split; [|split].
  - rewrite P. unfold nblocks. rewrite map_fst_combine by apply seq_length. reflexivity.
  - rewrite map_map. apply map_ext_in. intros ib Hin.
    pose proof (combine_seq_nth (blocks l) 0) as F. rewrite Forall_forall in F.
    rewrite (F ib). + rewrite Nat.sub_0_r. reflexivity.
    + eapply Permutation_in; [exact P|exact Hin].
  - apply ssort_sorted.
Qed.

Lemma conj_contractible' ci l : contractible ci (conj_leg l) l = true.
Proof.
  unfold contractible, leg_equal, conj_leg. cbn [blocks qc].
  apply all2_refl. intros x. rewrite Z.eqb_refl, veqb_refl. reflexivity.
Qed.
