(* Lemmas for Model/LegLookup.v. *)
From TenpyV Require Import Base.Prelude Model.Charge Model.Tensor Model.TakeSlice Model.LegLookup Proofs.ChargeP.
Open Scope Z_scope.

Lemma list_eqb_iff a : forall b, list_eqb a b = true <-> a = b.
Proof.
  induction a as [|x a IH]; intros [|y b]; cbn [list_eqb]; split; intro H; try reflexivity; try discriminate.
  - apply andb_true_iff in H. destruct H as [H1 H2]. apply Z.eqb_eq in H1. apply IH in H2. subst. reflexivity.
  - injection H as H1 H2. subst. rewrite Z.eqb_refl. cbn [andb]. apply IH. reflexivity.
Qed.

Lemma list_eqb_refl a : list_eqb a a = true.
Proof. apply list_eqb_iff. reflexivity. Qed.

(* a reduced charge vector is a fixed point of make_valid *)
Lemma make_valid_of_valid ci : forall r, check_valid ci r = true -> make_valid ci r = r.
Proof.
  unfold check_valid. induction ci as [|m ci IH]; intros [|x r] H; cbn [make_valid]; try reflexivity.
  - cbn [length] in H. apply andb_true_iff in H. destruct H as [H _]. apply Nat.eqb_eq in H. discriminate.
  - cbn [length combine forallb fst snd] in H.
    apply andb_true_iff in H. destruct H as [Hl H]. apply andb_true_iff in H. destruct H as [Hx Hr].
    f_equal.
    + unfold mv1. destruct (m =? 1) eqn:E; [reflexivity|].
      cbn [orb] in Hx. apply andb_true_iff in Hx. destruct Hx as [H0 H1].
      apply Z.leb_le in H0. apply Z.ltb_lt in H1. apply Z.mod_small. lia.
    + apply IH. apply andb_true_iff. split; [|exact Hr].
      apply Nat.eqb_eq in Hl. apply Nat.eqb_eq. cbn [length] in Hl. lia.
Qed.

Lemma vscale_involutive s r : (s = 1 \/ s = -1) -> vscale s (vscale s r) = r.
Proof.
  intros Hs. unfold vscale. rewrite map_map. rewrite <- (map_id r) at 2. apply map_ext. intro x.
  destruct Hs; subst; lia.
Qed.

(* positions of c in rows: exactly the index of its only occurrence *)
Lemma find_rows_absent c : forall rows i, ~ In c rows -> find_rows c rows i = [].
Proof.
  induction rows as [|r rows IH]; intros i H; cbn [find_rows]; [reflexivity|].
  destruct (list_eqb c r) eqn:E.
  - apply list_eqb_iff in E. subst. exfalso. apply H. left. reflexivity.
  - apply IH. intro Hin. apply H. right. exact Hin.
Qed.

Lemma find_rows_unique : forall rows q i, NoDup rows -> (q < length rows)%nat ->
  find_rows (nth q rows []) rows i = [(i + q)%nat].
Proof.
  induction rows as [|r rows IH]; intros q i Hnd Hq; cbn [length] in Hq; [lia|].
  inversion Hnd as [|? ? Hnotin Hnd']; subst.
  destruct q as [|q]; cbn [nth find_rows].
  - rewrite list_eqb_refl. rewrite (find_rows_absent r rows (S i) Hnotin). f_equal. lia.
  - destruct (list_eqb (nth q rows []) r) eqn:E.
    + apply list_eqb_iff in E. exfalso. apply Hnotin. rewrite <- E. apply nth_In. lia.
    + rewrite (IH q (S i) Hnd'); [|lia]. f_equal. lia.
Qed.

Lemma find_rows_sound c : forall rows i k, In k (find_rows c rows i) -> (i <= k)%nat /\ nth (k - i) rows [] = c /\ (k - i < length rows)%nat.
Proof.
  induction rows as [|r rows IH]; intros i k H; cbn [find_rows] in H; [contradiction|].
  destruct (list_eqb c r) eqn:E.
  - destruct H as [H|H].
    + subst k. replace (i - i)%nat with 0%nat by lia. cbn [nth length]. apply list_eqb_iff in E. subst. repeat split; lia.
    + apply IH in H. destruct H as [H1 [H2 H3]]. replace (k - i)%nat with (S (k - S i)) by lia. cbn [nth length]. repeat split; [lia|exact H2|lia].
  - apply IH in H. destruct H as [H1 [H2 H3]]. replace (k - i)%nat with (S (k - S i)) by lia. cbn [nth length]. repeat split; [lia|exact H2|lia].
Qed.

(* get_qindex_of_charges is the inverse of get_charge on a leg that is blocked by charge *)
Lemma lookup_inverse ci l q : valid_ci ci -> leg_ok ci l -> blocked l -> (q < length (bch l))%nat ->
  qindex_of_charges ci l (leg_charge l q) = Some q.
Proof.
  intros Hci [Hqc Hval] Hb Hq. unfold qindex_of_charges, leg_charge.
  rewrite (vscale_involutive _ _ Hqc).
  rewrite make_valid_of_valid.
  - rewrite (find_rows_unique (bch l) q 0 Hb Hq). reflexivity.
  - rewrite Forall_forall in Hval. apply Hval. apply nth_In. exact Hq.
Qed.

(* whatever block the look-up returns carries the requested charge: the one-block vector of that total charge obeys the charge rule *)
Lemma lookup_sound ci l c q : valid_ci ci -> leg_ok ci l -> length c = length ci ->
  qindex_of_charges ci l c = Some q ->
  (q < length (bch l))%nat /\ make_valid ci (leg_charge l q) = make_valid ci c.
Proof.
  intros Hci [Hqc Hval] Hlen H. unfold qindex_of_charges in H.
  destruct (find_rows (make_valid ci (vscale (qc l) c)) (bch l) 0) as [|k [|k' rest]] eqn:E; try discriminate.
  injection H as H. subst k.
  assert (Hin : In q (find_rows (make_valid ci (vscale (qc l) c)) (bch l) 0)) by (rewrite E; left; reflexivity).
  apply find_rows_sound in Hin. destruct Hin as [_ [Hn Hl]]. replace (q - 0)%nat with q in * by lia.
  split; [exact Hl|].
  unfold leg_charge. rewrite Hn.
  (* make_valid (s * make_valid (s * c)) = make_valid (s * s * c) = make_valid c *)
  clear E Hn Hl Hval. revert c Hlen. induction ci as [|m ci IH]; intros [|x c] Hlen; cbn [length] in Hlen; try discriminate; [reflexivity|].
  cbn [vscale map make_valid]. inversion Hci as [|? ? Hm Hci']; subst.
  f_equal.
  - fold (vscale (qc l) c). rewrite mv1_mul_r by exact Hm. f_equal. destruct Hqc as [Hs|Hs]; rewrite Hs; lia.
  - apply (IH Hci' c). lia.
Qed.

Lemma nth_vscale s : forall r j, nth j (vscale s r) 0 = s * nth j r 0.
Proof.
  unfold vscale. induction r as [|x r IH]; intros [|j]; cbn [map nth]; try lia; try apply IH.
Qed.

Lemma check_valid_length ci r : check_valid ci r = true -> length r = length ci.
Proof. unfold check_valid. intro H. apply andb_true_iff in H. destruct H as [H _]. apply Nat.eqb_eq in H. exact H. Qed.

(* FlatLinearOperator.flat_to_npc (compact mode): the one-block vector built from the block the look-up returned is well-formed *)
Lemma compact_vector_wf ci l sector q : valid_ci ci -> leg_ok ci l -> check_valid ci sector = true ->
  qindex_of_charges ci l sector = Some q -> WF ci (compact_vector l sector q).
Proof.
  intros Hci Hok Hsec Hq.
  pose proof (check_valid_length _ _ Hsec) as Hlen.
  destruct (lookup_sound ci l sector q Hci Hok Hlen Hq) as [Hql Hch].
  rewrite (make_valid_of_valid ci sector Hsec) in Hch.
  constructor.
  - exact Hlen.
  - intros r Hr. cbn in Hr. destruct Hr as [Hr|[]]. subst r. reflexivity.
  - cbn. constructor; [intros []|constructor].
  - intros r Hr. cbn in Hr. destruct Hr as [Hr|[]]. subst r.
    intros j Hj. cbn [compact_vector legs qtot].
    unfold row_charge. cbn [length seq map nth sumZ]. unfold chg.
    rewrite <- Hch.
    assert (Hrow : length (nth q (bch l) []) = length ci).
    { destruct Hok as [_ Hval]. rewrite Forall_forall in Hval. apply check_valid_length. apply Hval. apply nth_In. exact Hql. }
    rewrite nth_make_valid; [|exact Hj|unfold leg_charge, vscale; rewrite map_length; lia].
    f_equal. unfold leg_charge. rewrite nth_vscale. lia.
  - intros _. reflexivity.
Qed.

(* the factor qconj is needed: an outgoing U(1) leg blocked by charge with blocks of charge -1, 0, +1.  Without the factor the look-up of
   get_charge(0) = +1 returns block 2 (whose get_charge is -1) and the one-block vector built from it violates the charge rule; with it,
   block 0 and a well-formed vector *)
Definition lk_leg : leg := mkLeg [2%nat; 3%nat; 2%nat] [[-1]; [0]; [1]] (-1).

Lemma lookup_qconj_needed :
  valid_ci [1] /\ leg_ok [1] lk_leg /\ blocked lk_leg /\ leg_charge lk_leg 0 = [1] /\
  qindex_of_charges_noconj [1] lk_leg (leg_charge lk_leg 0) = Some 2%nat /\
  ~ charge_rule [1] (compact_vector lk_leg [1] 2) /\
  qindex_of_charges [1] lk_leg (leg_charge lk_leg 0) = Some 0%nat /\
  WF [1] (compact_vector lk_leg [1] 0).
Proof.
  assert (Hci : valid_ci [1]) by (constructor; [lia|constructor]).
  assert (Hok : leg_ok [1] lk_leg).
  { split; [right; reflexivity|]. repeat constructor. }
  split; [exact Hci|]. split; [exact Hok|].
  split. { unfold blocked, lk_leg. cbn [bch]. repeat constructor; cbn; intros H; repeat (destruct H as [H|H]; try discriminate); exact H. }
  split; [reflexivity|]. split; [reflexivity|].
  split.
  - intro H. specialize (H [2%nat] (or_introl eq_refl) 0%nat (Nat.lt_0_1)). vm_compute in H. discriminate.
  - split; [reflexivity|]. apply compact_vector_wf; [exact Hci|exact Hok|reflexivity|reflexivity].
Qed.
