(* Proofs about Model/AutomatonMulti.v (property C10): MultiCouplingTerms.add_to_graph.
   Part 1: the names of tuple keys are injective.  Part 2: left / right denotations of a state and
   the paths through one new edge.  Part 3: the invariant mwf and its consequences.  Part 4: the
   insertions of add_mterm.  Part 5: from_terms_m. *)
From TenpyV Require Import Base.Prelude Model.Automaton Proofs.AutomatonP Proofs.AutomatonP2
  Model.AutomatonMulti.
Open Scope Z_scope.

(* ================================================================== 1. names of tuple keys *)
Lemma z2n_inj a b : z2n a = z2n b -> a = b.
Proof. unfold z2n. destruct (0 <=? a) eqn:Ea, (0 <=? b) eqn:Eb; lia. Qed.

Definition nia (k : key) : Prop := match k with InA _ => False | _ => True end.

Lemma iter_InA_inj n : forall m x y, nia x -> nia y ->
  Nat.iter n InA x = Nat.iter m InA y -> n = m /\ x = y.
Proof.
  induction n as [|n IH]; intros [|m] x y Hx Hy H; simpl in H.
  - auto.
  - subst x. destruct Hx.
  - subst y. destruct Hy.
  - injection H as H. destruct (IH m x y Hx Hy H) as [-> ->]. auto.
Qed.

Lemma enc_tr_inj t t' k k' : nia k -> nia k' -> enc_tr t k = enc_tr t' k' -> t = t' /\ k = k'.
Proof.
  intros Hk Hk' H. unfold enc_tr in H. injection H as H.
  apply iter_InA_inj in H; [|exact I|exact I]. destruct H as [H1 H]. injection H as H.
  apply iter_InA_inj in H; [|exact I|exact I]. destruct H as [H2 H]. injection H as H.
  apply iter_InA_inj in H; [|exact Hk|exact Hk']. destruct H as [H3 H].
  apply z2n_inj in H2. apply z2n_inj in H3.
  destruct t as [[i a] s], t' as [[i' a'] s']. unfold tsite, top, tstr in *. cbn [fst snd] in *.
  subst. auto.
Qed.

Lemma kleft_single t : kleft [t] = Lbl (tsite t) (top t) (tstr t).
Proof. reflexivity. Qed.
Lemma kleft_cons2 t t' p : kleft (t :: t' :: p) = enc_tr t (kleft (t' :: p)).
Proof. reflexivity. Qed.
Lemma kright_cons t q : kright (t :: q) = enc_tr t (kright q).
Proof. reflexivity. Qed.

Lemma nia_kleft p : nia (kleft p).
Proof. destruct p as [|t [|t' p]]; exact I. Qed.
Lemma nia_kright q : nia (kright q).
Proof. destruct q; exact I. Qed.

Lemma kleft_inj p : forall p', kleft p = kleft p' -> p = p'.
Proof.
  induction p as [|t p IH]; intros p' H.
  - destruct p' as [|t' [|t'' p']]; [reflexivity| |]; discriminate H.
  - destruct p as [|t1 p].
    + destruct p' as [|t' [|t'' p']]; try discriminate H.
      rewrite !kleft_single in H. injection H as H1 H2 H3.
      destruct t as [[i a] s], t' as [[i' a'] s']. unfold tsite, top, tstr in *. cbn [fst snd] in *.
      subst. reflexivity.
    + destruct p' as [|t' [|t'' p']]; try discriminate H.
      rewrite !kleft_cons2 in H. apply enc_tr_inj in H; try apply nia_kleft.
      destruct H as [-> H]. apply IH in H. rewrite H. reflexivity.
Qed.

Lemma kright_inj q : forall q', kright q = kright q' -> q = q'.
Proof.
  induction q as [|t q IH]; intros [|t' q'] H; try reflexivity; try discriminate H.
  rewrite !kright_cons in H. apply enc_tr_inj in H; try apply nia_kright.
  destruct H as [-> H]. apply IH in H. rewrite H. reflexivity.
Qed.

Lemma kleft_kright p : forall q, kleft p <> kright q.
Proof.
  induction p as [|t p IH]; intros q H.
  - destruct q; discriminate H.
  - destruct p as [|t1 p].
    + destruct q; discriminate H.
    + destruct q as [|u q]; [discriminate H|].
      rewrite kleft_cons2, kright_cons in H. apply enc_tr_inj in H; [|apply nia_kleft|apply nia_kright].
      destruct H as [_ H]. exact (IH q H).
Qed.

Lemma kleft_IdL : kleft [] = IdL. Proof. reflexivity. Qed.
Lemma kright_IdR : kright [] = IdR. Proof. reflexivity. Qed.
Lemma kleft_cons_nIdL t p : kleft (t :: p) <> IdL.
Proof. intro H. change IdL with (kleft []) in H. apply kleft_inj in H. discriminate H. Qed.
Lemma kleft_nIdR p : kleft p <> IdR.
Proof. change IdR with (kright []). apply kleft_kright. Qed.
Lemma kright_cons_nIdR t q : kright (t :: q) <> IdR.
Proof. intro H. change IdR with (kright []) in H. apply kright_inj in H. discriminate H. Qed.
Lemma kright_nIdL q : kright q <> IdL.
Proof. intro H. change IdL with (kleft []) in H. symmetry in H. exact (kleft_kright _ _ H). Qed.

(* two-site and on-site terms are special cases (before the names become opaque) *)
Lemma add_cterm_as_mterm g t : add_cterm g t = add_mterm g (mterm_of_cterm t).
Proof. reflexivity. Qed.
Lemma add_oterm_as_mterm g t : add_oterm g t = add_mterm g (mterm_of_oterm t).
Proof. reflexivity. Qed.
Lemma nf_cterm_as_mterm t : nf_cterm t = nf_mterm (mterm_of_cterm t).
Proof.
  unfold nf_cterm, nf_mterm, mterm_of_cterm. cbn [mt_w mt_left mt_right mt_sw mt_op rev app lword rword].
  unfold tsite, top, tstr. cbn [fst snd app]. rewrite consop_app. reflexivity.
Qed.
Lemma nf_oterm_as_mterm t : nf_oterm t = nf_mterm (mterm_of_oterm t).
Proof. reflexivity. Qed.

Global Opaque kleft kright.

(* ================================================================== 2. generic path lemmas *)
Lemma paths_insert_mid g1 es1 e es2 g2 : forall i x,
  Permutation (paths (g1 ++ (es1 ++ e :: es2) :: g2) i x)
              (paths (g1 ++ (es1 ++ es2) :: g2) i x ++ paths (g1 ++ [e] :: g2) i x).
Proof.
  induction g1 as [|fs g1 IH]; intros i x; cbn [app paths].
  - rewrite !flat_map_app. cbn [flat_map]. rewrite app_nil_r, <- app_assoc.
    apply Permutation_app_head. apply Permutation_app_comm.
  - eapply perm_trans; [|apply perm_flat_map_split].
    apply perm_flat_map_pointwise. intros f _.
    destruct (key_eqb (eL f) x); [|apply Permutation_refl].
    rewrite <- map_app. apply Permutation_map. apply IH.
Qed.

Lemma filter_perm {A} (f : A -> bool) l l' : Permutation l l' -> Permutation (filter f l) (filter f l').
Proof.
  induction 1 as [|a l l' _ IH|a b l|l l' l'' _ IH1 _ IH2]; cbn [filter].
  - constructor.
  - destruct (f a); [constructor|]; exact IH.
  - destruct (f a), (f b); try apply Permutation_refl. constructor.
  - eapply perm_trans; eassumption.
Qed.

Lemma ending_perm kf l l' : Permutation l l' -> Permutation (ending kf l) (ending kf l').
Proof. intro H. unfold ending. apply Permutation_map. apply filter_perm. exact H. Qed.

Definition ext1 (k : nat) (e : edge) (l r : mono) : mono :=
  (cmul (fst l) (cmul (ew e) (fst r)), snd l ++ consop k (eop e) (snd r)).
Definition pmul3 (Lp : poly) (k : nat) (e : edge) (Rp : poly) : poly :=
  flat_map (fun l => map (ext1 k e l) Rp) Lp.

Lemma ending_through g1 e g2 :
  ending IdR (paths (g1 ++ [e] :: g2) 0 IdL) =
  pmul3 (ending (eL e) (paths g1 0 IdL)) (length g1) e (rden g2 (S (length g1)) (eR e)).
Proof.
  rewrite paths_app. cbn [Nat.add]. generalize (paths g1 0 IdL) as l.
  induction l as [|[[c w] kf] l IH]; [reflexivity|].
  cbn [flat_map]. rewrite ending_app, IH. clear IH.
  unfold ending at 3. cbn [filter snd]. cbn [paths flat_map]. rewrite app_nil_r.
  rewrite (key_eqb_sym (eL e) kf).
  destruct (key_eqb kf (eL e)); [|reflexivity].
  cbn [map fst]. unfold pmul3 at 2. cbn [flat_map]. f_equal.
  unfold rden, ending. rewrite map_map, filter_map_comm, !map_map.
  cbn [pstep snd fst]. reflexivity.
Qed.

(* ---- cutting a graph at a site *)
Lemma nth_upd_site f g : forall j k, (j < length g)%nat ->
  nth k (upd_site j f g) [] = if Nat.eqb k j then f (nth j g []) else nth k g [].
Proof.
  induction g as [|es g IH]; intros j k Hj; cbn [length] in Hj; [lia|].
  destruct j as [|j], k as [|k]; cbn [upd_site nth Nat.eqb]; try reflexivity.
  apply IH. lia.
Qed.

Lemma upd_site_split f g : forall j, (j < length g)%nat ->
  upd_site j f g = firstn j g ++ f (nth j g []) :: skipn (S j) g.
Proof.
  induction g as [|es g IH]; intros j Hj; cbn [length] in Hj; [lia|].
  destruct j as [|j]; cbn [upd_site firstn nth skipn app]; [reflexivity|].
  f_equal. apply IH. lia.
Qed.

Lemma split_at {A} (d : A) (g : list A) : forall j, (j < length g)%nat ->
  g = firstn j g ++ nth j g d :: skipn (S j) g.
Proof.
  induction g as [|es g IH]; intros j Hj; cbn [length] in Hj; [lia|].
  destruct j as [|j]; cbn [firstn nth skipn app]; [reflexivity|].
  f_equal. apply IH. lia.
Qed.

Lemma firstn_S_nth {A} (d : A) (g : list A) : forall j, (j < length g)%nat ->
  firstn (S j) g = firstn j g ++ [nth j g d].
Proof.
  induction g as [|es g IH]; intros j Hj; cbn [length] in Hj; [lia|].
  destruct j as [|j]; cbn [firstn nth app]; [reflexivity|].
  f_equal. apply IH. lia.
Qed.

Lemma skipn_nth_cons {A} (d : A) (g : list A) : forall j, (j < length g)%nat ->
  skipn j g = nth j g d :: skipn (S j) g.
Proof.
  induction g as [|es g IH]; intros j Hj; cbn [length] in Hj; [lia|].
  destruct j as [|j]; cbn [nth skipn]; [reflexivity|]. apply IH. lia.
Qed.

Lemma length_cl g : length (cl g) = length g.
Proof. apply map_length. Qed.

Lemma nth_cl g k : (k < length g)%nat -> nth k (cl g) [] = nth k g [] ++ [lL; lR].
Proof.
  intro H. unfold cl. rewrite (nth_indep _ [] ([] ++ [lL; lR])) by (rewrite map_length; exact H).
  apply (map_nth (fun es => es ++ [lL; lR])).
Qed.

(* ---- left and right denotation of a state of the closed graph *)
Definition Lw (g : graph) (k : nat) (x : key) : poly := ending x (paths (firstn k (cl g)) 0 IdL).
Definition Rw (g : graph) (k : nat) (y : key) : poly := rden (skipn k (cl g)) k y.

Lemma Lw_0 g x : Lw g 0 x = if key_eqb IdL x then [(c1, [])] else [].
Proof. unfold Lw, ending. cbn [firstn paths filter snd]. destruct (key_eqb IdL x); reflexivity. Qed.

Definition rext (k : nat) (e : edge) (l : mono) : mono :=
  (cmul (fst l) (ew e), snd l ++ consop k (eop e) []).

Lemma ending_one_site x c w kf i es :
  ending x (map (fun q : C * word * key => (cmul c (fst (fst q)), w ++ snd (fst q), snd q)) (paths [es] i kf)) =
  map (fun e => rext i e (c, w)) (filter (fun e => key_eqb (eR e) x && key_eqb (eL e) kf) es).
Proof.
  induction es as [|e es IH]; [reflexivity|].
  cbn [paths flat_map filter] in *. rewrite map_app, ending_app, IH. clear IH.
  destruct (key_eqb (eL e) kf); cbn [map app]; unfold ending; cbn [filter snd pstep fst map].
  - destruct (key_eqb (eR e) x); cbn [andb map app fst]; [|reflexivity].
    unfold rext. cbn [fst snd]. rewrite cmul_1_r. reflexivity.
  - rewrite andb_false_r. reflexivity.
Qed.

Lemma Lw_S g k x : (k < length g)%nat ->
  Lw g (S k) x =
  flat_map (fun p => map (fun e => rext k e (fst p))
                         (filter (fun e => key_eqb (eR e) x && key_eqb (eL e) (snd p)) (nth k g [] ++ [lL; lR])))
           (paths (firstn k (cl g)) 0 IdL).
Proof.
  intro Hk. unfold Lw. rewrite (firstn_S_nth [] (cl g) k) by (rewrite length_cl; exact Hk).
  rewrite paths_app, ending_flat_map. cbn [Nat.add].
  rewrite firstn_length, length_cl, Nat.min_l by lia. rewrite nth_cl by exact Hk.
  apply flat_map_ext_in'. intros [[c w] kf] _. cbn [fst snd]. apply ending_one_site.
Qed.

Lemma filter_and_into x y es :
  filter (fun e => key_eqb (eR e) x && key_eqb (eL e) y) es = filter (fun e => key_eqb (eL e) y) (into x es).
Proof. unfold into. rewrite filter_filter. reflexivity. Qed.

Lemma Lw_S_none g k x : (k < length g)%nat -> into x (nth k g [] ++ [lL; lR]) = [] -> Lw g (S k) x = [].
Proof.
  intros Hk H. rewrite Lw_S by exact Hk. apply flat_map_nil_in. intros p _.
  rewrite filter_and_into, H. reflexivity.
Qed.

Lemma Lw_S_one g k x e0 : (k < length g)%nat -> into x (nth k g [] ++ [lL; lR]) = [e0] ->
  Lw g (S k) x = map (rext k e0) (Lw g k (eL e0)).
Proof.
  intros Hk H. rewrite Lw_S by exact Hk. unfold Lw, ending.
  generalize (paths (firstn k (cl g)) 0 IdL) as l.
  induction l as [|[[c w] kf] l IH]; [reflexivity|].
  cbn [flat_map filter snd fst]. rewrite IH, filter_and_into, H. cbn [filter].
  rewrite (key_eqb_sym (eL e0) kf). destruct (key_eqb kf (eL e0)); reflexivity.
Qed.

Lemma Rw_step g k y : (k < length g)%nat ->
  Rw g k y = flat_map (fun e => map (mstep k e) (Rw g (S k) (eR e))) (out y (nth k g [] ++ [lL; lR])).
Proof.
  intro Hk. unfold Rw. rewrite (skipn_nth_cons [] (cl g) k) by (rewrite length_cl; exact Hk).
  rewrite rden_cons, nth_cl by exact Hk. reflexivity.
Qed.

Lemma Rw_end g k y : (length g <= k)%nat -> Rw g k y = if key_eqb y IdR then [(c1, [])] else [].
Proof.
  intro Hk. unfold Rw. rewrite skipn_all2 by (rewrite length_cl; exact Hk). apply rden_nil.
Qed.

Lemma through_edge g k e : (k < length g)%nat ->
  peq (denote (cl (add_edge k e g)))
      (denote (cl g) ++ pmul3 (Lw g k (eL e)) k e (Rw g (S k) (eR e))).
Proof.
  intro Hk. unfold add_edge. rewrite upd_site_split by exact Hk.
  assert (E1 : cl (firstn k g ++ (nth k g [] ++ [e]) :: skipn (S k) g) =
               firstn k (cl g) ++ (nth k g [] ++ e :: [lL; lR]) :: skipn (S k) (cl g)).
  { unfold cl. rewrite map_app, firstn_map, skipn_map. cbn [map]. rewrite <- app_assoc. reflexivity. }
  assert (E2 : cl g = firstn k (cl g) ++ (nth k g [] ++ [lL; lR]) :: skipn (S k) (cl g)).
  { rewrite <- nth_cl by exact Hk. apply split_at. rewrite length_cl. exact Hk. }
  rewrite E1. rewrite E2 at 3. unfold denote, rden. apply peq_perm.
  eapply perm_trans; [apply ending_perm; apply paths_insert_mid|].
  rewrite ending_app. apply Permutation_app_head.
  rewrite ending_through, firstn_length, length_cl, Nat.min_l by lia. apply Permutation_refl.
Qed.

(* ================================================================== 3. the invariant *)
Lemma in_into x e es : In e (into x es) <-> In e es /\ eR e = x.
Proof. unfold into. rewrite filter_In, key_eqb_eq. reflexivity. Qed.
Lemma into_app x l1 l2 : into x (l1 ++ l2) = into x l1 ++ into x l2.
Proof. apply filter_app. Qed.
Lemma into_nil_in x es : (forall e, In e es -> eR e <> x) -> into x es = [].
Proof. intro H. apply filter_nil_in. intros e He. apply key_eqb_neq. apply H. exact He. Qed.
Lemma into_loops x : x <> IdL -> x <> IdR -> into x [lL; lR] = [].
Proof.
  intros H1 H2. apply into_nil_in. intros e [<-|[<-|[]]]; cbn [eR lL lR]; congruence.
Qed.
Lemma out_loops x : x <> IdL -> x <> IdR -> out x [lL; lR] = [].
Proof.
  intros H1 H2. apply out_nil_in. intros e [<-|[<-|[]]]; cbn [eL lL lR]; congruence.
Qed.
Lemma into_unique x es e : (length (into x es) <= 1)%nat -> In e es -> eR e = x -> into x es = [e].
Proof.
  intros Hl He Hx. assert (Hi : In e (into x es)) by (apply in_into; auto).
  destruct (into x es) as [|a [|b l]]; cbn [length In] in *; [contradiction| |lia].
  destruct Hi as [->|[]]. reflexivity.
Qed.
Lemma out_unique x es e : (length (out x es) <= 1)%nat -> In e es -> eL e = x -> out x es = [e].
Proof.
  intros Hl He Hx. assert (Hi : In e (out x es)) by (apply in_out; auto).
  destruct (out x es) as [|a [|b l]]; cbn [length In] in *; [contradiction| |lia].
  destruct Hi as [->|[]]. reflexivity.
Qed.
Lemma exited_true es x : exited es x = true <-> exists e, In e es /\ eL e = x.
Proof.
  unfold exited. rewrite existsb_exists. split; intros [e [He H]]; exists e; split; try assumption;
    apply key_eqb_eq; exact H.
Qed.
Lemma exited_false es x : exited es x = false <-> forall e, In e es -> eL e <> x.
Proof.
  split.
  - intros H e He E. assert (H' : exited es x = true) by (apply exited_true; exists e; auto).
    congruence.
  - intro H. destruct (exited es x) eqn:E; [|reflexivity].
    apply exited_true in E. destruct E as [e [He E]]. exfalso. exact (H e He E).
Qed.

Lemma eR_canonL k t p : eR (canonL k t p) = kleft (t :: p).
Proof. unfold canonL. destruct (Nat.eqb k (tsite t)); reflexivity. Qed.
Lemma eL_canonR k t q : eL (canonR k t q) = kright (t :: q).
Proof. unfold canonR. destruct (Nat.eqb k (tsite t)); reflexivity. Qed.
Lemma eL_canonL k t p : exists p', eL (canonL k t p) = kleft p'.
Proof. unfold canonL. destruct (Nat.eqb k (tsite t)); eexists; reflexivity. Qed.
Lemma eR_canonR k t q : exists q', eR (canonR k t q) = kright q'.
Proof. unfold canonR. destruct (Nat.eqb k (tsite t)); eexists; reflexivity. Qed.

Lemma ok_into_left k e t p : edge_ok k e -> eR e = kleft (t :: p) -> e = canonL k t p /\ (tsite t <= k)%nat.
Proof.
  intros [(t' & p' & H1 & H2 & H3)|[(t' & q & H1 & H2 & H3)|(p' & q & H1 & H2)]] H.
  - rewrite H in H1. apply kleft_inj in H1. injection H1 as <- <-. auto.
  - exfalso. destruct (eR_canonR k t' q) as [q' Hq]. rewrite <- H2, H in Hq. exact (kleft_kright _ _ Hq).
  - exfalso. rewrite H in H2. exact (kleft_kright _ _ H2).
Qed.
Lemma ok_outof_right k e t q : edge_ok k e -> eL e = kright (t :: q) -> e = canonR k t q /\ (k <= tsite t)%nat.
Proof.
  intros [(t' & p & H1 & H2 & H3)|[(t' & q' & H1 & H2 & H3)|(p & q' & H1 & H2)]] H.
  - exfalso. destruct (eL_canonL k t' p) as [p' Hp]. rewrite <- H2, H in Hp. symmetry in Hp.
    exact (kleft_kright _ _ Hp).
  - rewrite H in H1. apply kright_inj in H1. injection H1 as <- <-. auto.
  - exfalso. rewrite H in H1. symmetry in H1. exact (kleft_kright _ _ H1).
Qed.
Lemma ok_ends k e : edge_ok k e -> eR e <> IdL /\ eL e <> IdR.
Proof.
  intros [(t & p & H1 & H2 & H3)|[(t & q & H1 & H2 & H3)|(p & q & H1 & H2)]].
  - split; [rewrite H1; apply kleft_cons_nIdL|].
    destruct (eL_canonL k t p) as [p' Hp]. rewrite H2, Hp. apply kleft_nIdR.
  - split; [|rewrite H1; apply kright_cons_nIdR].
    destruct (eR_canonR k t q) as [q' Hq]. rewrite H2, Hq. apply kright_nIdL.
  - rewrite H1, H2. split; [apply kright_nIdL|apply kleft_nIdR].
Qed.

Lemma close_site_gen es : (forall e, In e es -> eR e <> IdL /\ eL e <> IdR) -> close_site es = es ++ [lL; lR].
Proof.
  intro H. unfold close_site.
  assert (E1 : existsb (fun e => key_eqb (eL e) IdL && key_eqb (eR e) IdL) es = false).
  { apply not_true_is_false. intro E. apply existsb_exists in E.
    destruct E as [e [He E]]. apply andb_true_iff in E. destruct E as [_ E]. apply key_eqb_eq in E.
    destruct (H e He) as [H1 _]. contradiction. }
  assert (E2 : existsb (fun e => key_eqb (eL e) IdR && key_eqb (eR e) IdR) es = false).
  { apply not_true_is_false. intro E. apply existsb_exists in E.
    destruct E as [e [He E]]. apply andb_true_iff in E. destruct E as [E _]. apply key_eqb_eq in E.
    destruct (H e He) as [_ H1]. contradiction. }
  rewrite E1, existsb_app, E2. cbn [existsb eL eR key_eqb andb orb]. rewrite <- app_assoc. reflexivity.
Qed.

Lemma close_mwf g : mwf g -> close g = cl g.
Proof.
  intro H. unfold close, cl. apply map_ext_in. intros es He.
  apply (In_nth _ _ []) in He. destruct He as (k & _ & <-).
  apply close_site_gen. intros e He. destruct (H k) as (H1 & _). exact (ok_ends k e (H1 e He)).
Qed.

Lemma wstring_snoc n : forall a s, wstring a (S n) s = wstring a n s ++ consop (a + n) s [].
Proof.
  induction n as [|n IH]; intros a s.
  - cbn [wstring app]. rewrite Nat.add_0_r. reflexivity.
  - change (wstring a (S (S n)) s) with (consop a s (wstring (S a) (S n) s)).
    rewrite IH, consop_app. cbn [wstring]. replace (S a + n)%nat with (a + S n)%nat by lia. reflexivity.
Qed.

(* a left state that is not entered, a right state that is not left: nothing passes through *)
Lemma Lw_dead g k t p : mwf g -> (k <= length g)%nat -> entered (prevs g k) (kleft (t :: p)) = false ->
  Lw g k (kleft (t :: p)) = [].
Proof.
  intros H Hk He. destruct k as [|k].
  - rewrite Lw_0. assert (E : key_eqb IdL (kleft (t :: p)) = false).
    { apply key_eqb_neq. intro E. symmetry in E. exact (kleft_cons_nIdL _ _ E). }
    rewrite E. reflexivity.
  - apply Lw_S_none; [lia|]. cbn [prevs] in He. rewrite into_app, into_loops.
    + rewrite app_nil_r. apply into_nil_in. apply entered_false. exact He.
    + apply kleft_cons_nIdL.
    + apply kleft_nIdR.
Qed.

Lemma Rw_left_dead g k t p : mwf g -> entered (prevs g k) (kleft (t :: p)) = false ->
  Rw g k (kleft (t :: p)) = [].
Proof.
  intros H He. destruct (Nat.lt_ge_cases k (length g)) as [Hk|Hk].
  - rewrite Rw_step by exact Hk. rewrite out_app, out_loops, app_nil_r;
      [|apply kleft_cons_nIdL|apply kleft_nIdR].
    rewrite out_nil_in; [reflexivity|]. intros e Hi E.
    destruct (H k) as (_ & _ & _ & H4 & _). specialize (H4 e t p Hi E). rewrite E in H4. congruence.
  - rewrite Rw_end by exact Hk. assert (E : key_eqb (kleft (t :: p)) IdR = false).
    { apply key_eqb_neq. apply kleft_nIdR. }
    rewrite E. reflexivity.
Qed.

Lemma Rw_dead g k t q : mwf g -> exited (nth k g []) (kright (t :: q)) = false ->
  Rw g k (kright (t :: q)) = [].
Proof.
  intros H He. destruct (Nat.lt_ge_cases k (length g)) as [Hk|Hk].
  - rewrite Rw_step by exact Hk. rewrite out_app, out_loops, app_nil_r;
      [|apply kright_nIdL|apply kright_cons_nIdR].
    rewrite out_nil_in; [reflexivity|]. apply exited_false. exact He.
  - rewrite Rw_end by exact Hk. assert (E : key_eqb (kright (t :: q)) IdR = false).
    { apply key_eqb_neq. apply kright_cons_nIdR. }
    rewrite E. reflexivity.
Qed.

Lemma Lw_right_dead g k t q : mwf g -> (k <= length g)%nat -> exited (nth k g []) (kright (t :: q)) = false ->
  Lw g k (kright (t :: q)) = [].
Proof.
  intros H Hk He. destruct k as [|k].
  - rewrite Lw_0. assert (E : key_eqb IdL (kright (t :: q)) = false).
    { apply key_eqb_neq. intro E. symmetry in E. exact (kright_nIdL _ E). }
    rewrite E. reflexivity.
  - apply Lw_S_none; [lia|]. rewrite into_app, into_loops, app_nil_r;
      [|apply kright_nIdL|apply kright_cons_nIdR].
    apply into_nil_in. intros e Hi E.
    destruct (H k) as (_ & _ & _ & _ & H5). specialize (H5 e t q Hi E). rewrite E in H5. congruence.
Qed.

(* an entered left state carries exactly its word with weight 1 *)
Lemma Lw_live g : mwf g -> forall k, (k <= length g)%nat ->
  forall p, (p = [] \/ entered (prevs g k) (kleft p) = true) -> Lw g k (kleft p) = [(c1, lword p k)].
Proof.
  intro H. induction k as [|k IH]; intros Hk p Hp.
  - destruct Hp as [->|Hp]; [|discriminate Hp]. rewrite Lw_0, kleft_IdL. reflexivity.
  - assert (Hk' : (k < length g)%nat) by lia. specialize (IH (Nat.lt_le_incl _ _ Hk')).
    destruct (H k) as (H1 & H2 & _ & H4 & _).
    destruct p as [|t p].
    + rewrite kleft_IdL. rewrite (Lw_S_one g k IdL lL Hk').
      * change (eL lL) with (kleft []). rewrite kleft_IdL. rewrite <- kleft_IdL at 1.
        rewrite (IH [] (or_introl eq_refl)). reflexivity.
      * rewrite into_app. rewrite into_nil_in; [reflexivity|].
        intros e He. exact (proj1 (ok_ends k e (H1 e He))).
    + destruct Hp as [Hp|Hp]; [discriminate Hp|]. cbn [prevs] in Hp.
      apply entered_true in Hp. destruct Hp as (e & He & Ee).
      destruct (ok_into_left k e t p (H1 e He) Ee) as [Ec Hts].
      assert (Ei : into (kleft (t :: p)) (nth k g [] ++ [lL; lR]) = [e]).
      { rewrite into_app, into_loops, app_nil_r; [|apply kleft_cons_nIdL|apply kleft_nIdR].
        apply into_unique; [apply H2|exact He|exact Ee]. }
      rewrite (Lw_S_one g k _ e Hk' Ei).
      assert (Hsrc : forall p', eL e = kleft p' -> p' = [] \/ entered (prevs g k) (kleft p') = true).
      { intros [|t' p''] E; [left; reflexivity|right]. rewrite <- E. exact (H4 e t' p'' He E). }
      unfold canonL in Ec. destruct (Nat.eqb k (tsite t)) eqn:Ek.
      * apply Nat.eqb_eq in Ek. subst e. cbn [eL] in *. rewrite (IH p (Hsrc p eq_refl)).
        cbn [map lword]. unfold rext. cbn [fst snd eop ew]. rewrite cmul_1_r.
        rewrite <- Ek. replace (S k - k - 1)%nat with 0%nat by lia. reflexivity.
      * apply Nat.eqb_neq in Ek. subst e. cbn [eL] in *. rewrite (IH (t :: p) (Hsrc (t :: p) eq_refl)).
        cbn [map lword]. unfold rext. cbn [fst snd eop ew]. rewrite cmul_1_r.
        replace (S k - tsite t - 1)%nat with (S (k - tsite t - 1)) by lia.
        rewrite wstring_snoc. replace (S (tsite t) + (k - tsite t - 1))%nat with k by lia.
        rewrite consop_app, <- app_assoc. reflexivity.
Qed.

Lemma Rw_live g : mwf g -> forall n k, (length g - k = n)%nat ->
  forall q, (q = [] \/ exited (nth k g []) (kright q) = true) -> Rw g k (kright q) = [(c1, rword q k)].
Proof.
  intro H. induction n as [|n IH]; intros k Hn q Hq.
  - assert (Hk : (length g <= k)%nat) by lia. rewrite Rw_end by exact Hk.
    rewrite nth_overflow in Hq by exact Hk.
    destruct Hq as [->|Hq]; [|discriminate Hq]. rewrite kright_IdR. reflexivity.
  - assert (Hk : (k < length g)%nat) by lia.
    assert (IH' := IH (S k) ltac:(lia)). clear IH.
    destruct (H k) as (H1 & _ & H3 & _ & H5). rewrite Rw_step by exact Hk.
    destruct q as [|t q].
    + rewrite kright_IdR. rewrite out_app. rewrite out_nil_in.
      * cbn [app out filter eL lL lR key_eqb flat_map eR]. rewrite app_nil_r.
        change IdR with (kright []) at 1. rewrite (IH' [] (or_introl eq_refl)). reflexivity.
      * intros e He. exact (proj2 (ok_ends k e (H1 e He))).
    + destruct Hq as [Hq|Hq]; [discriminate Hq|].
      apply exited_true in Hq. destruct Hq as (e & He & Ee).
      destruct (ok_outof_right k e t q (H1 e He) Ee) as [Ec Hts].
      rewrite out_app, out_loops, app_nil_r; [|apply kright_nIdL|apply kright_cons_nIdR].
      rewrite (out_unique _ _ e (H3 t q) He Ee). cbn [flat_map]. rewrite app_nil_r.
      assert (Htgt : forall q', eR e = kright q' -> q' = [] \/ exited (nth (S k) g []) (kright q') = true).
      { intros [|t' q''] E; [left; reflexivity|right]. rewrite <- E. exact (H5 e t' q'' He E). }
      unfold canonR in Ec. destruct (Nat.eqb k (tsite t)) eqn:Ek.
      * apply Nat.eqb_eq in Ek. subst e. cbn [eR] in *. rewrite (IH' q (Htgt q eq_refl)).
        cbn [map rword]. unfold mstep. cbn [fst snd eop ew]. rewrite cmul_1_r.
        rewrite <- Ek. replace (k - k)%nat with 0%nat by lia. reflexivity.
      * apply Nat.eqb_neq in Ek. subst e. cbn [eR] in *. rewrite (IH' (t :: q) (Htgt (t :: q) eq_refl)).
        cbn [map rword]. unfold mstep. cbn [fst snd eop ew]. rewrite cmul_1_r.
        replace (tsite t - k)%nat with (S (tsite t - S k)) by lia.
        cbn [wstring]. rewrite consop_app. reflexivity.
Qed.

(* ================================================================== 4. the insertions *)
Definition gle (g g' : graph) : Prop :=
  length g' = length g /\ forall k e, In e (nth k g []) -> In e (nth k g' []).
Lemma gle_refl g : gle g g.
Proof. split; auto. Qed.
Lemma gle_trans g1 g2 g3 : gle g1 g2 -> gle g2 g3 -> gle g1 g3.
Proof. intros [L1 H1] [L2 H2]. split; [congruence|]. intros k e He. apply H2, H1, He. Qed.
Lemma entered_gle g g' k x : gle g g' -> entered (nth k g []) x = true -> entered (nth k g' []) x = true.
Proof.
  intros [_ H] He. apply entered_true in He. destruct He as (e & He & E).
  apply entered_true. exists e. split; [apply H, He|exact E].
Qed.
Lemma entered_prevs_gle g g' k x : gle g g' -> entered (prevs g k) x = true -> entered (prevs g' k) x = true.
Proof. destruct k as [|k]; cbn [prevs]; [auto|apply entered_gle]. Qed.
Lemma exited_gle g g' k x : gle g g' -> exited (nth k g []) x = true -> exited (nth k g' []) x = true.
Proof.
  intros [_ H] He. apply exited_true in He. destruct He as (e & He & E).
  apply exited_true. exists e. split; [apply H, He|exact E].
Qed.

Lemma nth_add_edge g k e k' : (k < length g)%nat ->
  nth k' (add_edge k e g) [] = if Nat.eqb k' k then nth k g [] ++ [e] else nth k' g [].
Proof. intro H. unfold add_edge. apply nth_upd_site. exact H. Qed.
Lemma length_add_edge g k e : length (add_edge k e g) = length g.
Proof. apply length_upd_site. Qed.
Lemma add_edge_gle g k e : (k < length g)%nat -> gle g (add_edge k e g).
Proof.
  intro H. split; [apply length_add_edge|]. intros k' e' He. rewrite nth_add_edge by exact H.
  destruct (Nat.eqb k' k) eqn:E; [|exact He]. apply Nat.eqb_eq in E. subst k'.
  apply in_or_app. left. exact He.
Qed.
Lemma nth_add_edge_same g k e : (k < length g)%nat -> nth k (add_edge k e g) [] = nth k g [] ++ [e].
Proof. intro H. rewrite nth_add_edge by exact H. rewrite Nat.eqb_refl. reflexivity. Qed.

Lemma mwf_add_edge g k e : mwf g -> (k < length g)%nat -> edge_ok k e ->
  (forall t p, eR e = kleft (t :: p) -> into (kleft (t :: p)) (nth k g []) = []) ->
  (forall t q, eL e = kright (t :: q) -> out (kright (t :: q)) (nth k g []) = []) ->
  (forall t p, eL e = kleft (t :: p) -> entered (prevs g k) (eL e) = true) ->
  (forall t q, eR e = kright (t :: q) -> exited (nth (S k) g []) (eR e) = true) ->
  mwf (add_edge k e g).
Proof.
  intros H Hk Hok Hin Hout Hent Hex k'.
  assert (G := add_edge_gle g k e Hk).
  destruct (H k') as (H1 & H2 & H3 & H4 & H5).
  assert (M4 : forall e' t p, In e' (nth k' g []) -> eL e' = kleft (t :: p) ->
               entered (prevs (add_edge k e g) k') (eL e') = true).
  { intros e' t p He' E. apply (entered_prevs_gle g); [exact G|]. exact (H4 e' t p He' E). }
  assert (M5 : forall e' t q, In e' (nth k' g []) -> eR e' = kright (t :: q) ->
               exited (nth (S k') (add_edge k e g) []) (eR e') = true).
  { intros e' t q He' E. apply (exited_gle g); [exact G|]. exact (H5 e' t q He' E). }
  unfold site_ok. rewrite (nth_add_edge g k e k' Hk).
  destruct (Nat.eqb k' k) eqn:Ek.
  - apply Nat.eqb_eq in Ek. subst k'. repeat split.
    + intros e' He'. apply in_app_or in He'. destruct He' as [He'|[<-|[]]]; [apply H1, He'|exact Hok].
    + intros t p. rewrite into_app, app_length. unfold into at 2. cbn [filter].
      destruct (key_eqb (eR e) (kleft (t :: p))) eqn:E; cbn [length].
      * apply key_eqb_eq in E. rewrite (Hin t p E). cbn [length]. lia.
      * specialize (H2 t p). lia.
    + intros t q. change (outof (kright (t :: q)) (nth k g [] ++ [e])) with (out (kright (t :: q)) (nth k g [] ++ [e])).
      rewrite out_app, app_length. unfold out at 2. cbn [filter].
      destruct (key_eqb (eL e) (kright (t :: q))) eqn:E; cbn [length].
      * apply key_eqb_eq in E. rewrite (Hout t q E). cbn [length]. lia.
      * specialize (H3 t q). unfold outof in H3. unfold out. lia.
    + intros e' t p He' E. apply in_app_or in He'. destruct He' as [He'|[<-|[]]]; [exact (M4 e' t p He' E)|].
      apply (entered_prevs_gle g); [exact G|]. exact (Hent t p E).
    + intros e' t q He' E. apply in_app_or in He'. destruct He' as [He'|[<-|[]]]; [exact (M5 e' t q He' E)|].
      apply (exited_gle g); [exact G|]. exact (Hex t q E).
  - repeat split; assumption.
Qed.

Lemma pmul3_nil_r Lp k e : pmul3 Lp k e [] = [].
Proof. unfold pmul3. apply flat_map_nil_in. reflexivity. Qed.

(* (L) a missing left-structure edge *)
Lemma absent_into g k t p : mwf g -> ~ In (canonL k t p) (nth k g []) ->
  forall e, In e (nth k g []) -> eR e <> kleft (t :: p).
Proof.
  intros H Hn e He E. destruct (H k) as (H1 & _).
  destruct (ok_into_left k e t p (H1 e He) E) as [-> _]. exact (Hn He).
Qed.

Lemma add_low g k t p : mwf g -> (k < length g)%nat -> (tsite t <= k)%nat ->
  ~ In (canonL k t p) (nth k g []) ->
  (forall t' p', eL (canonL k t p) = kleft (t' :: p') -> entered (prevs g k) (eL (canonL k t p)) = true) ->
  mwf (add_edge k (canonL k t p) g) /\
  peq (denote (cl (add_edge k (canonL k t p) g))) (denote (cl g)).
Proof.
  intros H Hk Hts Hn Hent. split.
  - apply mwf_add_edge; try assumption.
    + left. exists t, p. split; [apply eR_canonL|]. auto.
    + intros t' p' E. rewrite eR_canonL in E. apply kleft_inj in E. injection E as <- <-.
      apply into_nil_in. apply absent_into; assumption.
    + intros t' q E. exfalso. destruct (eL_canonL k t p) as [p' Hp]. rewrite Hp in E.
      exact (kleft_kright _ _ E).
    + intros t' q E. exfalso. rewrite eR_canonL in E. exact (kleft_kright _ _ E).
  - eapply peq_trans; [apply through_edge; exact Hk|].
    rewrite eR_canonL. rewrite (Rw_left_dead g (S k) t p H).
    + rewrite pmul3_nil_r, app_nil_r. apply peq_refl.
    + cbn [prevs]. apply entered_false. apply absent_into; assumption.
Qed.

(* (R) a missing right-structure edge *)
Lemma absent_outof g k t q : mwf g -> ~ In (canonR k t q) (nth k g []) ->
  forall e, In e (nth k g []) -> eL e <> kright (t :: q).
Proof.
  intros H Hn e He E. destruct (H k) as (H1 & _).
  destruct (ok_outof_right k e t q (H1 e He) E) as [-> _]. exact (Hn He).
Qed.

Lemma add_high g k t q : mwf g -> (k < length g)%nat -> (k <= tsite t)%nat ->
  ~ In (canonR k t q) (nth k g []) ->
  (forall t' q', eR (canonR k t q) = kright (t' :: q') -> exited (nth (S k) g []) (eR (canonR k t q)) = true) ->
  mwf (add_edge k (canonR k t q) g) /\
  peq (denote (cl (add_edge k (canonR k t q) g))) (denote (cl g)).
Proof.
  intros H Hk Hts Hn Hex. split.
  - apply mwf_add_edge; try assumption.
    + right. left. exists t, q. split; [apply eL_canonR|]. auto.
    + intros t' p E. exfalso. destruct (eR_canonR k t q) as [q' Hq]. rewrite Hq in E.
      symmetry in E. exact (kleft_kright _ _ E).
    + intros t' q' E. rewrite eL_canonR in E. apply kright_inj in E. injection E as <- <-.
      apply out_nil_in. apply absent_outof; assumption.
    + intros t' p E. exfalso. rewrite eL_canonR in E. symmetry in E. exact (kleft_kright _ _ E).
  - eapply peq_trans; [apply through_edge; exact Hk|].
    rewrite eL_canonR. rewrite (Lw_right_dead g k t q H).
    + unfold pmul3. cbn [flat_map]. rewrite app_nil_r. apply peq_refl.
    + lia.
    + apply exited_false. apply absent_outof; assumption.
Qed.

(* (C) a connection between live states *)
Lemma add_conn g k p q op w : mwf g -> (k < length g)%nat ->
  (p = [] \/ entered (prevs g k) (kleft p) = true) ->
  (q = [] \/ exited (nth (S k) g []) (kright q) = true) ->
  mwf (add_edge k (mkE (kleft p) (kright q) op w) g) /\
  peq (denote (cl (add_edge k (mkE (kleft p) (kright q) op w) g)))
      (denote (cl g) ++ [(w, lword p k ++ consop k op (rword q (S k)))]).
Proof.
  intros H Hk Hp Hq. split.
  - apply mwf_add_edge; try assumption; cbn [eL eR].
    + right. right. exists p, q. auto.
    + intros t p' E. exfalso. symmetry in E. exact (kleft_kright _ _ E).
    + intros t q' E. exfalso. exact (kleft_kright _ _ E).
    + intros t p' E. destruct Hp as [->|Hp]; [|exact Hp].
      exfalso. rewrite kleft_IdL in E. symmetry in E. exact (kleft_cons_nIdL _ _ E).
    + intros t q' E. destruct Hq as [->|Hq]; [|exact Hq].
      exfalso. rewrite kright_IdR in E. symmetry in E. exact (kright_cons_nIdR _ _ E).
  - eapply peq_trans; [apply through_edge; exact Hk|]. cbn [eL eR].
    rewrite (Lw_live g H k (Nat.lt_le_incl _ _ Hk) p Hp).
    rewrite (Rw_live g H _ (S k) eq_refl q Hq).
    unfold pmul3, ext1. cbn [flat_map map app fst snd ew eop].
    rewrite cmul_1_l, cmul_1_r. apply peq_refl.
Qed.

(* ---- has_edge on graphs with the invariant *)
Lemma has_edge_true k a b g : has_edge k a b g = true <-> exists e, In e (nth k g []) /\ eL e = a /\ eR e = b.
Proof.
  unfold has_edge. rewrite existsb_exists. split; intros (e & He & E); exists e; split; try exact He.
  - apply andb_true_iff in E. rewrite !key_eqb_eq in E. exact E.
  - apply andb_true_iff. rewrite !key_eqb_eq. exact E.
Qed.
Lemma has_edge_op_true k a b op g :
  has_edge_op k a b op g = true <-> exists e, In e (nth k g []) /\ eL e = a /\ eR e = b /\ eop e = op.
Proof.
  unfold has_edge_op. rewrite existsb_exists. split; intros (e & He & E); exists e; split; try exact He.
  - apply andb_true_iff in E. destruct E as [E E3]. apply andb_true_iff in E. rewrite !key_eqb_eq in E.
    destruct E as [E1 E2]. split; [exact E1|]. split; [exact E2|]. lia.
  - destruct E as (E1 & E2 & E3). rewrite !andb_true_iff, !key_eqb_eq. split; [split; assumption|]. lia.
Qed.

Definition good (g g' : graph) : Prop :=
  mwf g' /\ peq (denote (cl g')) (denote (cl g)) /\ gle g g'.
Lemma good_refl g : mwf g -> good g g.
Proof. intro H. split; [exact H|]. split; [apply peq_refl|apply gle_refl]. Qed.
Lemma good_trans g1 g2 g3 : good g1 g2 -> good g2 g3 -> good g1 g3.
Proof.
  intros (_ & P1 & G1) (M2 & P2 & G2). split; [exact M2|]. split.
  - eapply peq_trans; eassumption.
  - eapply gle_trans; eassumption.
Qed.

(* operator string to the right of a left state *)
Lemma lstring_steps t p n : forall k g, mwf g -> (tsite t < k)%nat -> (k + n <= length g)%nat ->
  entered (prevs g k) (kleft (t :: p)) = true ->
  good g (add_string k n (kleft (t :: p)) (tstr t) g) /\
  entered (prevs (add_string k n (kleft (t :: p)) (tstr t) g) (k + n)) (kleft (t :: p)) = true.
Proof.
  induction n as [|n IH]; intros k g H Hts Hk He; cbn [add_string].
  - rewrite Nat.add_0_r. split; [apply good_refl; exact H|exact He].
  - replace (k + S n)%nat with (S k + n)%nat by lia.
    assert (Ec : mkE (kleft (t :: p)) (kleft (t :: p)) (tstr t) c1 = canonL k t p).
    { unfold canonL. replace (Nat.eqb k (tsite t)) with false; [reflexivity|].
      symmetry. apply Nat.eqb_neq. lia. }
    destruct (has_edge k (kleft (t :: p)) (kleft (t :: p)) g) eqn:E.
    + apply has_edge_true in E. destruct E as (e & Hi & _ & E2).
      apply IH; try assumption; try lia. cbn [prevs]. apply entered_true. exists e. auto.
    + rewrite Ec.
      assert (Hn : ~ In (canonL k t p) (nth k g [])).
      { intro Hi. assert (E' : has_edge k (kleft (t :: p)) (kleft (t :: p)) g = true).
        { apply has_edge_true. exists (canonL k t p). rewrite <- Ec at 2 3. cbn [eL eR]. auto. }
        congruence. }
      destruct (add_low g k t p H ltac:(lia) ltac:(lia) Hn) as [M P].
      { intros t' p' _. rewrite <- Ec. cbn [eL]. exact He. }
      assert (G := add_edge_gle g k (canonL k t p) ltac:(lia)).
      destruct (IH (S k) (add_edge k (canonL k t p) g) M ltac:(lia)) as [Gd Hent].
      { rewrite length_add_edge. lia. }
      { cbn [prevs]. rewrite nth_add_edge_same by lia. rewrite entered_app.
        cbn [entered existsb]. rewrite eR_canonL, key_eqb_refl. apply orb_true_iff. right. reflexivity. }
      split; [|exact Hent]. eapply good_trans; [|exact Gd]. split; [exact M|]. split; assumption.
Qed.

Definition lstate (p : list triple) (g : graph) (upto : nat) : Prop :=
  match p with
  | [] => True
  | t :: _ => entered (nth (tsite t) g []) (kleft p) = true /\ (tsite t < upto)%nat
  end.

Lemma lstring_ok g p upto : mwf g -> (upto <= length g)%nat -> lstate p g upto ->
  good g (lstring p upto g) /\ (p = [] \/ entered (prevs (lstring p upto g) upto) (kleft p) = true).
Proof.
  intros H Hu Hp. destruct p as [|t p]; cbn [lstring].
  - split; [apply good_refl; exact H|left; reflexivity].
  - destruct Hp as [He Hts].
    destruct (lstring_steps t p (upto - tsite t - 1) (S (tsite t)) g H ltac:(lia) ltac:(lia) He) as [Gd Hent].
    split; [exact Gd|right]. replace (S (tsite t) + (upto - tsite t - 1))%nat with upto in Hent by lia.
    exact Hent.
Qed.

(* the edge  p --op--> t :: p *)
Lemma add_skip_low g t p : mwf g -> (tsite t < length g)%nat ->
  (p = [] \/ entered (prevs g (tsite t)) (kleft p) = true) ->
  let g' := add_skip (tsite t) (mkE (kleft p) (kleft (t :: p)) (top t) c1) g in
  good g g' /\ entered (nth (tsite t) g' []) (kleft (t :: p)) = true.
Proof.
  intros H Hk Hp.
  assert (Ec : mkE (kleft p) (kleft (t :: p)) (top t) c1 = canonL (tsite t) t p).
  { unfold canonL. rewrite Nat.eqb_refl. reflexivity. }
  unfold add_skip. cbn [eL eR eop].
  destruct (has_edge_op (tsite t) (kleft p) (kleft (t :: p)) (top t) g) eqn:E; cbv zeta.
  - apply has_edge_op_true in E. destruct E as (e & Hi & _ & E2 & _).
    split; [apply good_refl; exact H|]. apply entered_true. exists e. auto.
  - rewrite Ec.
    assert (Hn : ~ In (canonL (tsite t) t p) (nth (tsite t) g [])).
    { intro Hi. assert (E' : has_edge_op (tsite t) (kleft p) (kleft (t :: p)) (top t) g = true).
      { apply has_edge_op_true. exists (canonL (tsite t) t p). rewrite <- Ec at 2 3 4. cbn [eL eR eop]. auto. }
      congruence. }
    destruct (add_low g (tsite t) t p H Hk (Nat.le_refl _) Hn) as [M P].
    { intros t' p' E'. rewrite <- Ec in *. cbn [eL] in *. destruct Hp as [->|Hp]; [|exact Hp].
      exfalso. rewrite kleft_IdL in E'. symmetry in E'. exact (kleft_cons_nIdL _ _ E'). }
    split.
    + split; [exact M|]. split; [exact P|]. apply add_edge_gle. exact Hk.
    + rewrite nth_add_edge_same by exact Hk. rewrite entered_app.
      cbn [entered existsb]. rewrite eR_canonL, key_eqb_refl. apply orb_true_iff. right. reflexivity.
Qed.

Definition plo (p : list triple) : nat := match p with [] => 0%nat | t :: _ => S (tsite t) end.

Lemma good_len g g' : good g g' -> length g' = length g.
Proof. intros (_ & _ & [L _]). exact L. Qed.

Lemma ins_left_ok rest : forall p g sw, mwf g -> (sw <= length g)%nat -> lstate p g sw ->
  asc (plo p) rest sw = true ->
  good g (fst (ins_left p rest sw g)) /\
  snd (ins_left p rest sw g) = kleft (rev rest ++ p) /\
  (rev rest ++ p = [] \/
   entered (prevs (fst (ins_left p rest sw g)) sw) (kleft (rev rest ++ p)) = true).
Proof.
  induction rest as [|t rest IH]; intros p g sw H Hsw Hp Hasc; cbn [ins_left].
  - cbn [fst snd rev app]. destruct (lstring_ok g p sw H Hsw Hp) as [Gd He]. auto.
  - cbn [asc] in Hasc. apply andb_true_iff in Hasc. destruct Hasc as [Hasc Hrest].
    assert (Ht : (plo p <= tsite t < sw)%nat) by lia. clear Hasc.
    assert (Hp1 : lstate p g (tsite t)).
    { destruct p as [|u p]; [exact I|]. destruct Hp as [He _]. split; [exact He|]. cbn [plo] in Ht. lia. }
    destruct (lstring_ok g p (tsite t) H ltac:(lia) Hp1) as [Gd1 He1].
    set (g1 := lstring p (tsite t) g) in *.
    assert (L1 := good_len _ _ Gd1).
    destruct (add_skip_low g1 t p (proj1 Gd1) ltac:(lia) He1) as [Gd2 He2].
    set (g2 := add_skip (tsite t) (mkE (kleft p) (kleft (t :: p)) (top t) c1) g1) in *.
    assert (L2 := good_len _ _ Gd2).
    destruct (IH (t :: p) g2 sw (proj1 Gd2) ltac:(lia)) as (Gd3 & Ek & He3).
    { split; [exact He2|lia]. }
    { exact Hrest. }
    cbn [rev]. rewrite <- app_assoc. cbn [app].
    split; [|split; assumption].
    eapply good_trans; [exact Gd1|]. eapply good_trans; [exact Gd2|exact Gd3].
Qed.

(* ---- mirror image: operator string to the left of a right state *)
Lemma rstring_steps t q n : forall j g, mwf g -> (j <= tsite t)%nat -> (n <= j)%nat -> (j <= length g)%nat ->
  exited (nth j g []) (kright (t :: q)) = true ->
  good g (add_string_r j n (kright (t :: q)) (tstr t) g) /\
  exited (nth (j - n) (add_string_r j n (kright (t :: q)) (tstr t) g) []) (kright (t :: q)) = true.
Proof.
  induction n as [|n IH]; intros j g H Hts Hn Hj He; cbn [add_string_r].
  - rewrite Nat.sub_0_r. split; [apply good_refl; exact H|exact He].
  - destruct j as [|j]; [lia|]. cbn [pred]. replace (S j - S n)%nat with (j - n)%nat by lia.
    assert (Ec : mkE (kright (t :: q)) (kright (t :: q)) (tstr t) c1 = canonR j t q).
    { unfold canonR. replace (Nat.eqb j (tsite t)) with false; [reflexivity|].
      symmetry. apply Nat.eqb_neq. lia. }
    destruct (has_edge j (kright (t :: q)) (kright (t :: q)) g) eqn:E.
    + apply has_edge_true in E. destruct E as (e & Hi & E1 & _).
      apply IH; try assumption; try lia. apply exited_true. exists e. auto.
    + rewrite Ec.
      assert (Hni : ~ In (canonR j t q) (nth j g [])).
      { intro Hi. assert (E' : has_edge j (kright (t :: q)) (kright (t :: q)) g = true).
        { apply has_edge_true. exists (canonR j t q). rewrite <- Ec at 2 3. cbn [eL eR]. auto. }
        congruence. }
      destruct (add_high g j t q H ltac:(lia) ltac:(lia) Hni) as [M P].
      { intros t' q' _. rewrite <- Ec. cbn [eR]. exact He. }
      assert (G := add_edge_gle g j (canonR j t q) ltac:(lia)).
      destruct (IH j (add_edge j (canonR j t q) g) M ltac:(lia) ltac:(lia)) as [Gd Hex].
      { rewrite length_add_edge. lia. }
      { rewrite nth_add_edge_same by lia. unfold exited. rewrite existsb_app.
        cbn [existsb]. rewrite eL_canonR, key_eqb_refl. apply orb_true_iff. right. reflexivity. }
      split; [|exact Hex]. eapply good_trans; [|exact Gd]. split; [exact M|]. split; assumption.
Qed.

Definition rstate (q : list triple) (g : graph) (downto : nat) : Prop :=
  match q with
  | [] => True
  | t :: _ => exited (nth (tsite t) g []) (kright q) = true /\ (downto < tsite t)%nat /\ (tsite t < length g)%nat
  end.

Lemma rstring_ok g q downto : mwf g -> rstate q g downto ->
  good g (rstring q downto g) /\
  (q = [] \/ exited (nth (S downto) (rstring q downto g) []) (kright q) = true).
Proof.
  intros H Hq. destruct q as [|t q]; cbn [rstring].
  - split; [apply good_refl; exact H|left; reflexivity].
  - destruct Hq as (He & Hts & Hl).
    destruct (rstring_steps t q (tsite t - downto - 1) (tsite t) g H ltac:(lia) ltac:(lia) ltac:(lia) He) as [Gd Hex].
    split; [exact Gd|right]. replace (tsite t - (tsite t - downto - 1))%nat with (S downto) in Hex by lia.
    exact Hex.
Qed.

Lemma add_skip_high g t q : mwf g -> (tsite t < length g)%nat ->
  (q = [] \/ exited (nth (S (tsite t)) g []) (kright q) = true) ->
  let g' := add_skip (tsite t) (mkE (kright (t :: q)) (kright q) (top t) c1) g in
  good g g' /\ exited (nth (tsite t) g' []) (kright (t :: q)) = true.
Proof.
  intros H Hk Hq.
  assert (Ec : mkE (kright (t :: q)) (kright q) (top t) c1 = canonR (tsite t) t q).
  { unfold canonR. rewrite Nat.eqb_refl. reflexivity. }
  unfold add_skip. cbn [eL eR eop].
  destruct (has_edge_op (tsite t) (kright (t :: q)) (kright q) (top t) g) eqn:E; cbv zeta.
  - apply has_edge_op_true in E. destruct E as (e & Hi & E1 & _).
    split; [apply good_refl; exact H|]. apply exited_true. exists e. auto.
  - rewrite Ec.
    assert (Hn : ~ In (canonR (tsite t) t q) (nth (tsite t) g [])).
    { intro Hi. assert (E' : has_edge_op (tsite t) (kright (t :: q)) (kright q) (top t) g = true).
      { apply has_edge_op_true. exists (canonR (tsite t) t q). rewrite <- Ec at 2 3 4. cbn [eL eR eop]. auto. }
      congruence. }
    destruct (add_high g (tsite t) t q H Hk (Nat.le_refl _) Hn) as [M P].
    { intros t' q' E'. rewrite <- Ec in *. cbn [eR] in *. destruct Hq as [->|Hq]; [|exact Hq].
      exfalso. rewrite kright_IdR in E'. symmetry in E'. exact (kright_cons_nIdR _ _ E'). }
    split.
    + split; [exact M|]. split; [exact P|]. apply add_edge_gle. exact Hk.
    + rewrite nth_add_edge_same by exact Hk. unfold exited. rewrite existsb_app.
      cbn [existsb]. rewrite eL_canonR, key_eqb_refl. apply orb_true_iff. right. reflexivity.
Qed.

Definition qhi (q : list triple) (L : nat) : nat := match q with [] => L | t :: _ => tsite t end.

Lemma ins_right_ok rest : forall q g sw, mwf g -> rstate q g sw ->
  desc (qhi q (length g)) rest sw = true ->
  good g (fst (ins_right q rest sw g)) /\
  snd (ins_right q rest sw g) = kright (rev rest ++ q) /\
  (rev rest ++ q = [] \/
   exited (nth (S sw) (fst (ins_right q rest sw g)) []) (kright (rev rest ++ q)) = true).
Proof.
  induction rest as [|t rest IH]; intros q g sw H Hq Hdesc; cbn [ins_right].
  - cbn [fst snd rev app]. destruct (rstring_ok g q sw H Hq) as [Gd He]. auto.
  - cbn [desc] in Hdesc. apply andb_true_iff in Hdesc. destruct Hdesc as [Hd Hrest].
    assert (Ht : (tsite t < qhi q (length g) /\ sw < tsite t)%nat) by lia. clear Hd.
    assert (Hl : (tsite t < length g)%nat).
    { destruct q as [|u q]; cbn [qhi] in Ht; [lia|]. destruct Hq as (_ & _ & Hl). lia. }
    assert (Hq1 : rstate q g (tsite t)).
    { destruct q as [|u q]; [exact I|]. destruct Hq as (He & _ & Hu). cbn [qhi] in Ht.
      split; [exact He|]. split; [lia|exact Hu]. }
    destruct (rstring_ok g q (tsite t) H Hq1) as [Gd1 He1].
    set (g1 := rstring q (tsite t) g) in *.
    assert (L1 := good_len _ _ Gd1).
    destruct (add_skip_high g1 t q (proj1 Gd1) ltac:(lia) He1) as [Gd2 He2].
    set (g2 := add_skip (tsite t) (mkE (kright (t :: q)) (kright q) (top t) c1) g1) in *.
    assert (L2 := good_len _ _ Gd2).
    destruct (IH (t :: q) g2 sw (proj1 Gd2)) as (Gd3 & Ek & He3).
    { split; [exact He2|]. split; lia. }
    { cbn [qhi]. exact Hrest. }
    cbn [rev]. rewrite <- app_assoc. cbn [app].
    split; [|split; assumption].
    eapply good_trans; [exact Gd1|]. eapply good_trans; [exact Gd2|exact Gd3].
Qed.

(* ---- MultiCouplingTerms.add_to_graph, one term *)
Lemma length_add_mterm_aux g t : mwf g -> mterm_ok (length g) t = true ->
  mwf (add_mterm g t) /\ length (add_mterm g t) = length g /\
  peq (denote (cl (add_mterm g t))) (nf_mterm t :: denote (cl g)).
Proof.
  intros H Hok. unfold mterm_ok in Hok. apply andb_true_iff in Hok. destruct Hok as [Hok Hdesc].
  apply andb_true_iff in Hok. destruct Hok as [Hsw Hasc].
  assert (Hsw' : (mt_sw t < length g)%nat) by lia. clear Hsw.
  unfold add_mterm.
  destruct (ins_left_ok (mt_left t) [] g (mt_sw t) H ltac:(lia) I Hasc) as (Gd1 & Ek1 & He1).
  destruct (ins_left [] (mt_left t) (mt_sw t) g) as [g1 kl]. cbn [fst snd] in *.
  assert (L1 := good_len _ _ Gd1).
  destruct (ins_right_ok (mt_right t) [] g1 (mt_sw t) (proj1 Gd1) I) as (Gd2 & Ek2 & He2).
  { cbn [qhi]. rewrite L1. exact Hdesc. }
  destruct (ins_right [] (mt_right t) (mt_sw t) g1) as [g2 kr]. cbn [fst snd] in *.
  assert (L2 := good_len _ _ Gd2).
  rewrite app_nil_r in *. subst kl kr.
  assert (He1' : rev (mt_left t) = [] \/ entered (prevs g2 (mt_sw t)) (kleft (rev (mt_left t))) = true).
  { destruct He1 as [E|E]; [left; exact E|right]. apply (entered_prevs_gle g1); [apply Gd2|exact E]. }
  destruct (add_conn g2 (mt_sw t) (rev (mt_left t)) (rev (mt_right t)) (mt_op t) (mt_w t) (proj1 Gd2)
              ltac:(lia) He1' He2) as [M P].
  split; [exact M|]. split; [rewrite length_add_edge; lia|].
  eapply peq_trans; [exact P|].
  eapply peq_trans; [apply peq_perm; apply Permutation_sym; apply Permutation_cons_append|].
  apply peq_cons. eapply peq_trans; [apply Gd2|apply Gd1].
Qed.

Lemma add_to_graph_multi g t : mwf g -> mterm_ok (length g) t = true ->
  mwf (add_mterm g t) /\
  peq (denote (close (add_mterm g t))) (nf_mterm t :: denote (close g)).
Proof.
  intros H Hok. destruct (length_add_mterm_aux g t H Hok) as (M & _ & P).
  split; [exact M|]. rewrite (close_mwf _ M), (close_mwf _ H). exact P.
Qed.

Lemma length_add_mterm g t : mwf g -> mterm_ok (length g) t = true -> length (add_mterm g t) = length g.
Proof. intros H Hok. apply (length_add_mterm_aux g t H Hok). Qed.

(* ================================================================== 5. from_terms_m *)
Lemma nth_repeat_nil {A} L k : nth k (repeat (@nil A) L) [] = [].
Proof. revert k. induction L as [|L IH]; intros [|k]; cbn [repeat nth]; auto. Qed.

Lemma mwf_empty L : mwf (empty_graph L).
Proof.
  intro k. unfold empty_graph. rewrite !nth_repeat_nil.
  assert (E : prevs (repeat [] L) k = []) by (destruct k; [reflexivity|apply nth_repeat_nil]).
  rewrite E. unfold site_ok. cbn [In into outof filter length]. repeat split; try contradiction; lia.
Qed.

Lemma fold_mterms L mts : forall g, mwf g -> length g = L -> forallb (mterm_ok L) mts = true ->
  mwf (fold_left add_mterm mts g) /\
  peq (denote (close (fold_left add_mterm mts g))) (denote (close g) ++ map nf_mterm mts).
Proof.
  induction mts as [|t mts IH]; intros g H HL Hok; cbn [fold_left map].
  - split; [exact H|]. rewrite app_nil_r. apply peq_refl.
  - cbn [forallb] in Hok. apply andb_true_iff in Hok. destruct Hok as [Ht Hok]. rewrite <- HL in Ht.
    destruct (add_to_graph_multi g t H Ht) as [M P].
    destruct (IH (add_mterm g t) M ltac:(rewrite length_add_mterm; assumption) Hok) as [M' P'].
    split; [exact M'|]. eapply peq_trans; [exact P'|].
    eapply peq_trans; [apply peq_app; [exact P|apply peq_refl]|].
    apply peq_perm. cbn [app]. apply Permutation_middle.
Qed.

Lemma fold_cterm_as_mterm cts : forall g, fold_left add_cterm cts g = fold_left add_mterm (map mterm_of_cterm cts) g.
Proof. induction cts as [|t cts IH]; intro g; cbn [fold_left map]; [reflexivity|]. rewrite add_cterm_as_mterm. apply IH. Qed.
Lemma fold_oterm_as_mterm ots : forall g, fold_left add_oterm ots g = fold_left add_mterm (map mterm_of_oterm ots) g.
Proof. induction ots as [|t ots IH]; intro g; cbn [fold_left map]; [reflexivity|]. rewrite add_oterm_as_mterm. apply IH. Qed.

Lemma cterm_ok_mterm L t : cterm_ok L t = true -> mterm_ok L (mterm_of_cterm t) = true.
Proof.
  unfold cterm_ok, mterm_ok, mterm_of_cterm. cbn [mt_sw mt_left mt_right asc desc tsite fst]. lia.
Qed.
Lemma oterm_ok_mterm L t : oterm_ok L t = true -> mterm_ok L (mterm_of_oterm t) = true.
Proof.
  unfold oterm_ok, mterm_ok, mterm_of_oterm. cbn [mt_sw mt_left mt_right asc desc]. lia.
Qed.

Lemma forallb_map {A B} (f : A -> B) (p : B -> bool) (q : A -> bool) l :
  (forall x, q x = true -> p (f x) = true) -> forallb q l = true -> forallb p (map f l) = true.
Proof.
  intro H. induction l as [|x l IH]; cbn [forallb map]; [auto|].
  intro E. apply andb_true_iff in E. destruct E as [E1 E2]. rewrite (H x E1), (IH E2). reflexivity.
Qed.

Lemma from_terms_m_all L ots cts mts :
  forallb (oterm_ok L) ots = true -> forallb (cterm_ok L) cts = true -> forallb (mterm_ok L) mts = true ->
  mwf (fold_left add_mterm mts (fold_left add_cterm cts (fold_left add_oterm ots (empty_graph L)))) /\
  peq (denote (from_terms_m L ots cts mts)) (map nf_oterm ots ++ map nf_cterm cts ++ map nf_mterm mts).
Proof.
  intros Ho Hc Hm. unfold from_terms_m.
  rewrite fold_oterm_as_mterm, fold_cterm_as_mterm, <- !fold_left_app.
  destruct (fold_mterms L (map mterm_of_oterm ots ++ map mterm_of_cterm cts ++ mts) (empty_graph L))
    as [M P].
  - apply mwf_empty.
  - apply repeat_length.
  - rewrite !forallb_app. rewrite (forallb_map _ _ _ _ (oterm_ok_mterm L) Ho).
    rewrite (forallb_map _ _ _ _ (cterm_ok_mterm L) Hc), Hm. reflexivity.
  - split; [exact M|]. eapply peq_trans; [exact P|]. rewrite denote_empty. cbn [app].
    rewrite !map_app, !map_map.
    assert (E : map nf_cterm cts = map (fun t => nf_mterm (mterm_of_cterm t)) cts)
      by (apply map_ext; exact nf_cterm_as_mterm).
    rewrite E. apply peq_refl.
Qed.

Lemma from_terms_m_denote L ots cts mts :
  forallb (oterm_ok L) ots = true -> forallb (cterm_ok L) cts = true -> forallb (mterm_ok L) mts = true ->
  peq (denote (from_terms_m L ots cts mts)) (map nf_oterm ots ++ map nf_cterm cts ++ map nf_mterm mts).
Proof. intros Ho Hc Hm. apply (from_terms_m_all L ots cts mts Ho Hc Hm). Qed.

(* without multi-site terms from_terms_m is from_terms *)
Lemma from_terms_m_nil L ots cts : from_terms_m L ots cts [] = from_terms L ots cts.
Proof. reflexivity. Qed.

(* ---- summary statements used by Props/C10.v *)
Lemma multi_key_names :
  (forall p p', kleft p = kleft p' -> p = p') /\ (forall q q', kright q = kright q' -> q = q') /\
  (forall p q, kleft p <> kright q) /\ kleft [] = IdL /\ kright [] = IdR /\
  (forall i a s, kleft [(i, a, s)] = Lbl i a s).
Proof.
  split; [intros p p'; apply kleft_inj|]. split; [intros q q'; apply kright_inj|].
  split; [apply kleft_kright|]. split; [apply kleft_IdL|]. split; [apply kright_IdR|].
  intros i a s. apply (kleft_single (i, a, s)).
Qed.

Lemma multi_special_cases :
  (forall g t, add_cterm g t = add_mterm g (mterm_of_cterm t)) /\
  (forall g t, add_oterm g t = add_mterm g (mterm_of_oterm t)) /\
  (forall t, nf_cterm t = nf_mterm (mterm_of_cterm t)) /\
  (forall t, nf_oterm t = nf_mterm (mterm_of_oterm t)) /\
  (forall L t, cterm_ok L t = true -> mterm_ok L (mterm_of_cterm t) = true) /\
  (forall L t, oterm_ok L t = true -> mterm_ok L (mterm_of_oterm t) = true).
Proof.
  split; [exact add_cterm_as_mterm|]. split; [exact add_oterm_as_mterm|].
  split; [exact nf_cterm_as_mterm|]. split; [exact nf_oterm_as_mterm|].
  split; [exact cterm_ok_mterm|exact oterm_ok_mterm].
Qed.

(* ---- examples: A0 s9 B2 C3 D5  +  A0 s9 B2 s2 C4 D5 (shared left states, shared right state of D5),
   a two-site term entered as multi term, a term without left part; L = 6 *)
Definition ex_mts : list mterm :=
  [ split_term [(0%nat, 5); (2%nat, 6); (3%nat, 7); (5%nat, 8)] [9; 0; 0] 3 (3, 1);
    split_term [(0%nat, 5); (2%nat, 6); (4%nat, 7); (5%nat, 8)] [9; 2; 0] 3 (1, 0);
    mkMT [(0%nat, 5, 9)] [] 2 6 (2, 0);
    mkMT [] [(3%nat, 4, 1)] 1 5 (0, 1) ].

Example ex_split_term :
  split_term [(0%nat, 5); (2%nat, 6); (4%nat, 7); (5%nat, 8)] [9; 2; 0] 3 (1, 0) =
    mkMT [(0%nat, 5, 9); (2%nat, 6, 2)] [(5%nat, 8, 0); (4%nat, 7, 2)] 3 2 (1, 0) /\
  nf_mterm (split_term [(0%nat, 5); (2%nat, 6); (4%nat, 7); (5%nat, 8)] [9; 2; 0] 3 (1, 0)) =
    ((1, 0), term_word [(0%nat, 5); (2%nat, 6); (4%nat, 7); (5%nat, 8)] [9; 2; 0]) /\
  nf_mterm (split_term [(0%nat, 5); (2%nat, 6); (3%nat, 7); (5%nat, 8)] [9; 0; 0] 3 (3, 1)) =
    ((3, 1), term_word [(0%nat, 5); (2%nat, 6); (3%nat, 7); (5%nat, 8)] [9; 0; 0]).
Proof. vm_compute. repeat split; reflexivity. Qed.

Example ex_multi_ok : forallb (mterm_ok 6) ex_mts = true.
Proof. vm_compute. reflexivity. Qed.

Example ex_multi_mwf : mwf (fold_left add_mterm ex_mts (empty_graph 6)).
Proof.
  apply (fold_mterms 6 ex_mts (empty_graph 6)); [apply mwf_empty|apply repeat_length|exact ex_multi_ok].
Qed.

Example ex_from_terms_m :
  let g := from_terms_m 6 [mkOT 1 4 (7, 0)] [mkCT 0 5 9 3 7 (1, 1)] ex_mts in
  std_form g = true /\ map (@length edge) g = [3; 5; 7; 6; 4; 3]%nat /\
  normalize (denote g) =
    [((2, 0), [(0%nat, 5); (1%nat, 9); (2%nat, 6)]);
     ((1, 0), [(0%nat, 5); (1%nat, 9); (2%nat, 6); (3%nat, 2); (4%nat, 7); (5%nat, 8)]);
     ((3, 1), [(0%nat, 5); (1%nat, 9); (2%nat, 6); (3%nat, 7); (5%nat, 8)]);
     ((1, 1), [(0%nat, 5); (1%nat, 9); (2%nat, 9); (3%nat, 7)]);
     ((7, 0), [(1%nat, 4)]); ((0, 1), [(1%nat, 5); (2%nat, 1); (3%nat, 4)])] /\
  peqb (denote g) (map nf_oterm [mkOT 1 4 (7, 0)] ++ map nf_cterm [mkCT 0 5 9 3 7 (1, 1)] ++
                   map nf_mterm ex_mts) = true.
Proof. vm_compute. repeat split; reflexivity. Qed.

Print Assumptions add_to_graph_multi.
Print Assumptions from_terms_m_all.
Print Assumptions multi_key_names.
