(* Proofs about Model/PropUI.v : MPO.make_U_I is first order exact (property C11).
   T11_UI_order0 / T11_UI_order1 / T11_UI_eval (+ order 2), for every graph in standard sum form. *)
From TenpyV Require Import Base.Prelude Model.Automaton Proofs.AutomatonP Model.PropUI.
Open Scope Z_scope.

(* ------------------------------------------------------------------ unfolding lemmas *)
Lemma rden_cons_if es g i k :
  rden (es :: g) i k =
  flat_map (fun e => if key_eqb (eL e) k then map (mstep i e) (rden g (S i) (eR e)) else []) es.
Proof.
  unfold rden. cbn [paths]. rewrite ending_flat_map. apply flat_map_ext_in'. intros e _.
  destruct (key_eqb (eL e) k); [apply ending_pstep|reflexivity].
Qed.

Lemma gending_flat_map {A} kf d (f : A -> list gpath) l :
  gending kf d (flat_map f l) = flat_map (fun x => gending kf d (f x)) l.
Proof. unfold gending. rewrite filter_flat_map, map_flat_map. reflexivity. Qed.

Lemma gending_gpstep kf d i x l :
  gending kf d (map (gpstep i x) l) =
  if (snd x <=? d)%nat then map (mstep i (fst x)) (gending kf (d - snd x) l) else [].
Proof.
  unfold gending. rewrite filter_map_comm, map_map.
  destruct (snd x <=? d)%nat eqn:E.
  - rewrite map_map.
    rewrite (filter_ext_in' _ (fun p => key_eqb (snd (fst p)) kf && Nat.eqb (snd p) (d - snd x)) l).
    + apply map_ext. intros [[[c w] kq] n]. reflexivity.
    + intros [[[c w] kq] n] _. cbn [gpstep pstep fst snd]. f_equal.
      apply Nat.leb_le in E.
      destruct (Nat.eqb (snd x + n) d) eqn:E1, (Nat.eqb n (d - snd x)) eqn:E2; try reflexivity;
        try apply Nat.eqb_eq in E1; try apply Nat.eqb_eq in E2;
        try apply Nat.eqb_neq in E1; try apply Nat.eqb_neq in E2; lia.
  - rewrite filter_nil_in; [reflexivity|].
    intros [[[c w] kq] n] _. cbn [gpstep pstep fst snd].
    apply Nat.leb_gt in E.
    destruct (Nat.eqb (snd x + n) d) eqn:E1; [apply Nat.eqb_eq in E1; lia|apply andb_false_r].
Qed.

Lemma ui_rden_nil d i k :
  ui_rden d [] i k = if key_eqb k IdL && Nat.eqb 0 d then [(c1, [])] else [].
Proof.
  unfold ui_rden, gending. cbn [ui_graph map gpaths filter fst snd].
  destruct (key_eqb k IdL && Nat.eqb 0 d); reflexivity.
Qed.

Lemma ui_rden_cons d es g i k :
  ui_rden d (es :: g) i k =
  flat_map (fun e => match ui_edge e with
                     | None => []
                     | Some x =>
                       if key_eqb (eL (fst x)) k
                       then (if (snd x <=? d)%nat
                             then map (mstep i (fst x)) (ui_rden (d - snd x) g (S i) (eR (fst x)))
                             else [])
                       else []
                     end) es.
Proof.
  unfold ui_rden. cbn [ui_graph map gpaths]. unfold ui_site.
  rewrite flat_map_flat_map, gending_flat_map. apply flat_map_ext_in'. intros e _.
  destruct (ui_edge e) as [x|]; cbn [flat_map]; [|reflexivity].
  rewrite app_nil_r. destruct (key_eqb (eL (fst x)) k); [|reflexivity].
  apply gending_gpstep.
Qed.

Lemma std_form_cons es g : std_form (es :: g) = true -> std_site es = true /\ std_form g = true.
Proof. cbn [std_form forallb]. intro H. apply andb_true_iff in H. exact H. Qed.

Lemma filter_nil_all {A} (p : A -> bool) l : filter p l = [] -> forall x, In x l -> p x = false.
Proof.
  induction l as [|y l IH]; intros H x Hx; [contradiction|]. cbn [filter] in H.
  destruct (p y) eqn:E; [discriminate H|]. destruct Hx as [->|Hx]; [exact E|apply IH; assumption].
Qed.

(* a flat_map in which exactly one element (the one selected by p) contributes *)
Lemma flat_map_single {A B} (p : A -> bool) (f : A -> list B) l a :
  filter p l = [a] -> (forall x, In x l -> p x = false -> f x = []) -> flat_map f l = f a.
Proof.
  induction l as [|y l IH]; intros Hf Hn; [discriminate Hf|]. cbn [filter] in Hf. cbn [flat_map].
  destruct (p y) eqn:E.
  - injection Hf as -> Hf. rewrite flat_map_nil_in; [apply app_nil_r|].
    intros x Hx. apply Hn; [right; exact Hx|]. apply (filter_nil_all p l Hf). exact Hx.
  - rewrite (Hn y (or_introl eq_refl) E). cbn [app]. apply IH; [exact Hf|].
    intros x Hx. apply Hn. right. exact Hx.
Qed.

(* ------------------------------------------------------------------ order 0 *)
(* from a state other than IdL no path of degree 0 ends in IdL: nothing but the identity loop
   enters IdL in a graph in standard form, and redirected edges have degree 1 *)
Lemma ui_rden0_other g : std_form g = true -> forall i k, k <> IdL -> ui_rden 0 g i k = [].
Proof.
  induction g as [|es g IH]; intros Hs i k Hk.
  - rewrite ui_rden_nil. apply key_eqb_neq in Hk. rewrite Hk. reflexivity.
  - apply std_form_cons in Hs. destruct Hs as [Hs Hg].
    destruct (std_site_inv es Hs) as (_ & _ & Hall).
    rewrite ui_rden_cons. apply flat_map_nil_in. intros e He. unfold ui_edge.
    destruct (key_eqb (eL e) IdR) eqn:E1; [reflexivity|].
    destruct (key_eqb (eR e) IdR) eqn:E2; cbn [fst snd eL eR].
    + destruct (key_eqb (eL e) k); reflexivity.
    + destruct (key_eqb (eL e) k) eqn:E3; [|reflexivity]. cbn [Nat.leb Nat.sub].
      rewrite IH; [reflexivity|exact Hg|].
      intro E. apply (Hall e He) in E. apply id_loop_inv in E. destruct E as (E & _).
      apply key_eqb_eq in E3. congruence.
Qed.

Lemma ui_rden0_IdL g : std_form g = true -> forall i, ui_rden 0 g i IdL = [(c1, [])].
Proof.
  induction g as [|es g IH]; intros Hs i.
  - reflexivity.
  - apply std_form_cons in Hs. destruct Hs as [Hs Hg].
    destruct (std_site_inv es Hs) as ([l Hl] & _ & Hall).
    rewrite ui_rden_cons.
    rewrite (flat_map_single (id_loop IdL) _ es l Hl).
    + destruct (filter_single_in _ _ _ Hl) as [_ Hll].
      destruct (id_loop_inv _ _ Hll) as (EL & ER & _).
      unfold ui_edge. rewrite EL, ER. cbn [key_eqb fst snd]. rewrite EL, ER. cbn [key_eqb Nat.leb Nat.sub].
      rewrite (mstep_id_loop _ _ _ _ Hll). apply IH. exact Hg.
    + intros e He Hn. unfold ui_edge.
      destruct (key_eqb (eL e) IdR) eqn:E1; [reflexivity|].
      destruct (key_eqb (eR e) IdR) eqn:E2; cbn [fst snd eL eR].
      * destruct (key_eqb (eL e) IdL); reflexivity.
      * destruct (key_eqb (eL e) IdL) eqn:E3; [|reflexivity]. cbn [Nat.leb Nat.sub].
        rewrite (ui_rden0_other g Hg); [reflexivity|].
        intro E. apply (Hall e He) in E. congruence.
Qed.

(* ------------------------------------------------------------------ order 1 *)
Lemma ui_rden1_eq g : std_form g = true -> forall i k, k <> IdR -> ui_rden 1 g i k = rden g i k.
Proof.
  induction g as [|es g IH]; intros Hs i k Hk.
  - rewrite ui_rden_nil, rden_nil. apply key_eqb_neq in Hk. rewrite Hk.
    cbn [Nat.eqb]. rewrite andb_false_r. reflexivity.
  - apply std_form_cons in Hs. destruct Hs as [Hs Hg].
    rewrite ui_rden_cons, rden_cons_if. apply flat_map_ext_in'. intros e He. unfold ui_edge.
    destruct (key_eqb (eL e) IdR) eqn:E1.
    + apply key_eqb_eq in E1. destruct (key_eqb (eL e) k) eqn:E3; [|reflexivity].
      apply key_eqb_eq in E3. congruence.
    + destruct (key_eqb (eR e) IdR) eqn:E2; cbn [fst snd eL eR].
      * destruct (key_eqb (eL e) k); [|reflexivity]. cbn [Nat.leb Nat.sub].
        apply key_eqb_eq in E2. rewrite E2, (ui_rden0_IdL g Hg), (rden_IdR_std g Hg). reflexivity.
      * destruct (key_eqb (eL e) k); [|reflexivity]. cbn [Nat.leb Nat.sub].
        rewrite IH; [reflexivity|exact Hg|]. apply key_eqb_neq. exact E2.
Qed.

Theorem UI_order0_eq g : std_form g = true -> ui_den 0 g = [(c1, [])].
Proof. intro Hs. apply ui_rden0_IdL. exact Hs. Qed.

Theorem UI_order1_eq g : std_form g = true -> ui_den 1 g = denote g.
Proof. intro Hs. apply ui_rden1_eq; [exact Hs|discriminate]. Qed.

Theorem UI_order0 g : std_form g = true -> peq (ui_den 0 g) [(c1, [])].
Proof. intro Hs. rewrite (UI_order0_eq g Hs). apply peq_refl. Qed.

Theorem UI_order1 g : std_form g = true -> g <> [] -> peq (ui_den 1 g) (denote g).
Proof. intros Hs _. rewrite (UI_order1_eq g Hs). apply peq_refl. Qed.

(* ------------------------------------------------------------------ evaluation at a time step t *)
(* weight c * t^n of a graded path *)
Definition gw (t : C) (p : gpath) : C * word * key :=
  (cmul (cpow t (snd p)) (fst (fst (fst p))), snd (fst (fst p)), snd (fst p)).

Lemma ui_eval_cons t es g : ui_eval t (es :: g) = ui_eval_site t es :: ui_eval t g.
Proof. reflexivity. Qed.
Lemma ui_graph_cons es g : ui_graph (es :: g) = ui_site es :: ui_graph g.
Proof. reflexivity. Qed.

Lemma paths_ui_eval t g : forall i k,
  paths (ui_eval t g) i k = map (gw t) (gpaths (ui_graph g) i k).
Proof.
  induction g as [|es g IH]; intros i k.
  - reflexivity.
  - rewrite ui_eval_cons, ui_graph_cons. cbn [paths gpaths]. unfold ui_eval_site, ui_site.
    rewrite !flat_map_flat_map, map_flat_map. apply flat_map_ext_in'. intros e _.
    unfold ui_eval_edge, ui_edge.
    destruct (key_eqb (eL e) IdR); [reflexivity|].
    destruct (key_eqb (eR e) IdR); cbn [flat_map fst snd eL eR]; rewrite !app_nil_r;
      (destruct (key_eqb (eL e) k); [|reflexivity]); rewrite IH, !map_map; apply map_ext;
      intros [[[c w] kf] n]; unfold gw, gpstep, pstep; cbn [fst snd eL eR eop ew Nat.add cpow];
      f_equal; f_equal; csolve.
Qed.

Lemma flat_map_seq_hit {X} (h : nat -> list X) n len : forall a,
  flat_map (fun d => if Nat.eqb n d then h d else []) (seq a len) =
  if ((a <=? n) && (n <? a + len))%nat then h n else [].
Proof.
  induction len as [|len IH]; intro a; cbn [seq flat_map].
  - destruct (a <=? n)%nat eqn:E1, (n <? a + 0)%nat eqn:E2; try reflexivity.
    apply Nat.leb_le in E1. apply Nat.ltb_lt in E2. lia.
  - rewrite IH. destruct (Nat.eqb n a) eqn:E.
    + apply Nat.eqb_eq in E. subst a.
      assert (E1 : ((S n <=? n) && (n <? S n + len))%nat = false).
      { destruct (S n <=? n)%nat eqn:E1; [apply Nat.leb_le in E1; lia|reflexivity]. }
      assert (E2 : ((n <=? n) && (n <? n + S len))%nat = true).
      { apply andb_true_iff. split; [apply Nat.leb_le|apply Nat.ltb_lt]; lia. }
      rewrite E1, E2. apply app_nil_r.
    + apply Nat.eqb_neq in E. cbn [app].
      assert (E3 : ((S a <=? n) && (n <? S a + len))%nat = ((a <=? n) && (n <? a + S len))%nat).
      { destruct (S a <=? n)%nat eqn:E1, (n <? S a + len)%nat eqn:E2,
                 (a <=? n)%nat eqn:E3, (n <? a + S len)%nat eqn:E4; try reflexivity;
          try apply Nat.leb_le in E1; try apply Nat.leb_gt in E1;
          try apply Nat.ltb_lt in E2; try apply Nat.ltb_ge in E2;
          try apply Nat.leb_le in E3; try apply Nat.leb_gt in E3;
          try apply Nat.ltb_lt in E4; try apply Nat.ltb_ge in E4; lia. }
      rewrite E3. reflexivity.
Qed.

(* sorting the paths by their degree *)
Lemma taylor_split t kf N l : Forall (fun p : gpath => (snd p <= N)%nat) l ->
  peq (ending kf (map (gw t) l))
      (flat_map (fun d => pscale (cpow t d) (gending kf d l)) (seq 0 (S N))).
Proof.
  induction 1 as [|p l Hp Hl IH].
  - rewrite flat_map_nil_in; [apply peq_refl|]. intros d _. reflexivity.
  - destruct p as [[[c w] kq] n]. cbn [snd] in Hp.
    set (A := fun d : nat => if key_eqb kq kf then
                               (if Nat.eqb n d then [(cmul (cpow t d) c, w)] else []) else []).
    set (B := fun d : nat => pscale (cpow t d) (gending kf d l)).
    apply peq_trans with (flat_map (fun d => A d ++ B d) (seq 0 (S N))).
    2:{ rewrite (flat_map_ext_in' (fun d => A d ++ B d)
                   (fun d => pscale (cpow t d) (gending kf d ((c, w, kq, n) :: l)))); [apply peq_refl|].
        intros d _. unfold A, B, gending. cbn [filter fst snd].
        destruct (key_eqb kq kf); cbn [andb]; [|reflexivity].
        destruct (Nat.eqb n d); reflexivity. }
    eapply peq_trans; [|apply peq_sym, peq_perm, perm_flat_map_split].
    change (map (gw t) ((c, w, kq, n) :: l)) with ([gw t (c, w, kq, n)] ++ map (gw t) l).
    rewrite ending_app. apply peq_app; [|exact IH].
    unfold A, ending, gw. cbn [map filter fst snd].
    destruct (key_eqb kq kf).
    + rewrite flat_map_seq_hit.
      assert (E : ((0 <=? n) && (n <? 0 + S N))%nat = true).
      { apply andb_true_iff. split; [apply Nat.leb_le|apply Nat.ltb_lt]; lia. }
      rewrite E. apply peq_refl.
    + rewrite flat_map_nil_in; [apply peq_refl|]. intros d _. reflexivity.
Qed.

Lemma ui_edge_deg e x : ui_edge e = Some x -> (snd x <= 1)%nat.
Proof.
  unfold ui_edge. destruct (key_eqb (eL e) IdR); [discriminate|].
  destruct (key_eqb (eR e) IdR); intro H; injection H as <-; cbn [snd]; lia.
Qed.

(* degrees above the number of sites are impossible *)
Lemma gdeg_bound g : forall i k,
  Forall (fun p : gpath => (snd p <= length g)%nat) (gpaths (ui_graph g) i k).
Proof.
  induction g as [|es g IH]; intros i k.
  - cbn [ui_graph map gpaths length]. constructor; [cbn [snd]; lia|constructor].
  - rewrite ui_graph_cons. cbn [gpaths length]. apply Forall_forall. intros p Hp.
    apply in_flat_map in Hp. destruct Hp as [x [Hx Hp]].
    destruct (key_eqb (eL (fst x)) k); [|contradiction].
    apply in_map_iff in Hp. destruct Hp as [q [<- Hq]].
    pose proof (IH (S i) (eR (fst x))) as Hb. rewrite Forall_forall in Hb. specialize (Hb q Hq).
    unfold ui_site in Hx. apply in_flat_map in Hx. destruct Hx as [e [_ Hx]].
    destruct (ui_edge e) as [y|] eqn:Ey; [|contradiction].
    destruct Hx as [->|[]]. apply ui_edge_deg in Ey. cbn [gpstep snd]. lia.
Qed.

(* the graded semantics is the Taylor expansion of the evaluated U_I graph (any graph g) *)
Theorem UI_eval t g : peq (denote_to IdL (ui_eval t g)) (ui_taylor t g).
Proof.
  unfold denote_to, ui_taylor, ui_den, ui_rden. rewrite paths_ui_eval.
  apply taylor_split. apply gdeg_bound.
Qed.

(* every single path of degree d contributes with weight t^d * c, and the evaluated graph has
   exactly these paths *)
Theorem UI_eval_paths t g i k :
  paths (ui_eval t g) i k =
  map (fun p : gpath => (cmul (cpow t (snd p)) (fst (fst (fst p))), snd (fst (fst p)), snd (fst p)))
      (gpaths (ui_graph g) i k).
Proof. apply paths_ui_eval. Qed.

Lemma pscale_c1 p : pscale c1 p = p.
Proof.
  unfold pscale. rewrite <- (map_id p) at 2. apply map_ext. intros [c w]. cbn [fst snd].
  rewrite cmul_1_l. reflexivity.
Qed.

Lemma cpow_1 t : cpow t 1 = t.
Proof. cbn [cpow]. apply cmul_1_r. Qed.

(* U_I(t) = 1 + t * H + (terms of degree 2 .. L) *)
Theorem UI_first_order t g : std_form g = true ->
  peq (denote_to IdL (ui_eval t g))
      ((c1, []) :: pscale t (denote g) ++
       flat_map (fun d => pscale (cpow t d) (ui_den d g)) (seq 2 (length g - 1))).
Proof.
  intro Hs. eapply peq_trans; [apply UI_eval|]. unfold ui_taylor.
  destruct g as [|es g].
  - cbn [length seq flat_map Nat.sub pscale map app denote rden paths ending filter snd key_eqb].
    rewrite (UI_order0_eq [] Hs). cbn [pscale map cpow fst snd]. rewrite cmul_1_l. apply peq_refl.
  - cbn [length]. replace (S (length g) - 1)%nat with (length g) by lia.
    cbn [seq flat_map]. rewrite (UI_order0_eq _ Hs), (UI_order1_eq _ Hs), cpow_1.
    cbn [cpow]. rewrite pscale_c1. apply peq_refl.
Qed.

(* ------------------------------------------------------------------ order 2 *)
Lemma peq_flat_map_pointwise {A} (f h : A -> poly) l :
  (forall x, In x l -> peq (f x) (h x)) -> peq (flat_map f l) (flat_map h l).
Proof.
  induction l as [|x l IH]; intro H; cbn [flat_map]; [apply peq_refl|].
  apply peq_app; [apply H; left; reflexivity|]. apply IH. intros y Hy. apply H. right. exact Hy.
Qed.

Lemma coef_map_mstep i e p w :
  coef (map (mstep i e) p) w =
  if eop e =? 0 then cmul (ew e) (coef p w)
  else match w with
       | [] => c0
       | l :: v => if letter_eqb (i, eop e) l then cmul (ew e) (coef p v) else c0
       end.
Proof.
  induction p as [|[c u] p IH]; cbn [map coef].
  - destruct (eop e =? 0); [symmetry; apply cmul_0_r|].
    destruct w as [|l v]; [reflexivity|]. destruct (letter_eqb (i, eop e) l); [symmetry; apply cmul_0_r|reflexivity].
  - unfold mstep at 1. cbn [fst snd]. unfold consop. rewrite IH. destruct (eop e =? 0).
    + destruct (word_eqb u w); [symmetry; apply cmul_cadd_distr_l|reflexivity].
    + destruct w as [|l v]; cbn [word_eqb]; [reflexivity|].
      destruct (letter_eqb (i, eop e) l); cbn [andb]; [|reflexivity].
      destruct (word_eqb u v); [symmetry; apply cmul_cadd_distr_l|reflexivity].
Qed.

Lemma peq_map_mstep i e p q : peq p q -> peq (map (mstep i e) p) (map (mstep i e) q).
Proof.
  intros H w. rewrite !coef_map_mstep. destruct (eop e =? 0); [rewrite (H w); reflexivity|].
  destruct w as [|l v]; [reflexivity|]. rewrite (H v). reflexivity.
Qed.

Lemma perm_flat_map_swap {A B X} (h : A -> B -> list X) la lb :
  Permutation (flat_map (fun a => flat_map (fun b => h a b) lb) la)
              (flat_map (fun b => flat_map (fun a => h a b) la) lb).
Proof.
  induction la as [|a la IH]; cbn [flat_map].
  - rewrite flat_map_nil_in; [constructor|]. intros b _. reflexivity.
  - eapply perm_trans; [|apply Permutation_sym, perm_flat_map_split].
    apply Permutation_app_head. exact IH.
Qed.

Lemma paths_IdR_std g : std_form g = true -> forall i p, In p (paths g i IdR) -> snd p = IdR.
Proof.
  induction g as [|es g IH]; intros Hs i p Hp.
  - cbn [paths] in Hp. destruct Hp as [<-|[]]. reflexivity.
  - apply std_form_cons in Hs. destruct Hs as [Hs Hg].
    destruct (std_site_inv es Hs) as (_ & _ & Hall).
    cbn [paths] in Hp. apply in_flat_map in Hp. destruct Hp as [e [He Hp]].
    destruct (key_eqb (eL e) IdR) eqn:E; [|contradiction]. apply key_eqb_eq in E.
    apply (Hall e He) in E. apply id_loop_inv in E. destruct E as (_ & E & _). rewrite E in Hp.
    apply in_map_iff in Hp. destruct Hp as [q [<- Hq]]. cbn [pstep snd]. exact (IH Hg (S i) q Hq).
Qed.

Lemma std_form_firstn m : forall g, std_form g = true -> std_form (firstn m g) = true.
Proof.
  induction m as [|m IH]; intros [|es g] H; try reflexivity.
  apply std_form_cons in H. destruct H as [H1 H2]. cbn [firstn std_form forallb].
  apply andb_true_iff. split; [exact H1|]. apply IH. exact H2.
Qed.

Lemma std_form_skipn m : forall g, std_form g = true -> std_form (skipn m g) = true.
Proof.
  induction m as [|m IH]; intros [|es g] H; try reflexivity; try exact H.
  apply std_form_cons in H. destruct H as [H1 H2]. cbn [skipn]. apply IH. exact H2.
Qed.

Lemma ui_split_IdR R g : std_form g = true -> forall i, ui_split R g i IdR = [].
Proof.
  intros Hs i. unfold ui_split. apply flat_map_nil_in. intros m _. unfold ui_split_at.
  apply flat_map_nil_in. intros p Hp.
  rewrite (paths_IdR_std _ (std_form_firstn m g Hs) i p Hp). reflexivity.
Qed.

Lemma ui_split_at_0 R es g i k : k <> IdR ->
  ui_split_at R (es :: g) i k 0 =
  flat_map (fun e => if key_eqb (eL e) k && key_eqb (eR e) IdR
                     then map (mstep i e) (R g (S i)) else []) es.
Proof.
  intro Hk. apply key_eqb_neq in Hk. unfold ui_split_at.
  cbn [firstn paths flat_map snd nth skipn]. rewrite Hk, app_nil_r, Nat.add_0_r, Nat.add_1_r.
  apply flat_map_ext_in'. intros e _.
  destruct (key_eqb (eL e) k && key_eqb (eR e) IdR); [|reflexivity].
  apply map_ext. intros [c w]. unfold pmono, mstep. cbn [fst snd app]. rewrite cmul_1_l. reflexivity.
Qed.

Lemma ui_split_at_S R es g i k m :
  ui_split_at R (es :: g) i k (S m) =
  flat_map (fun e => if key_eqb (eL e) k
                     then map (mstep i e) (ui_split_at R g (S i) (eR e) m) else []) es.
Proof.
  unfold ui_split_at. cbn [firstn paths nth skipn]. rewrite flat_map_flat_map.
  apply flat_map_ext_in'. intros e _. destruct (key_eqb (eL e) k); [|reflexivity].
  rewrite flat_map_map, map_flat_map. apply flat_map_ext_in'. intros [[c w] kq] _.
  cbn [pstep snd fst]. destruct (key_eqb kq IdR); [reflexivity|].
  rewrite map_flat_map. apply flat_map_ext_in'. intros e' _.
  destruct (key_eqb (eL e') kq && key_eqb (eR e') IdR); [|reflexivity].
  rewrite map_map.
  replace (i + S m)%nat with (S i + m)%nat by lia.
  replace (i + S (S m))%nat with (S i + S m)%nat by lia.
  apply map_ext. intros [d v]. unfold pmono, mstep, pstep. cbn [fst snd].
  rewrite !cmul_assoc, consop_app. reflexivity.
Qed.

Lemma ui_split_cons R es g i k : k <> IdR ->
  peq (ui_split R (es :: g) i k)
      (flat_map (fun e =>
         (if key_eqb (eL e) k && key_eqb (eR e) IdR
          then map (mstep i e) (R g (S i)) else []) ++
         (if key_eqb (eL e) k then map (mstep i e) (ui_split R g (S i) (eR e)) else [])) es).
Proof.
  intro Hk. unfold ui_split at 1. cbn [length seq flat_map]. rewrite (ui_split_at_0 R es g i k Hk).
  rewrite <- seq_shift, flat_map_map.
  eapply peq_trans; [|apply peq_sym, peq_perm, perm_flat_map_split].
  apply peq_app; [apply peq_refl|].
  rewrite (flat_map_ext_in' (fun m => ui_split_at R (es :: g) i k (S m))
             (fun m => flat_map (fun e => if key_eqb (eL e) k
                                          then map (mstep i e) (ui_split_at R g (S i) (eR e) m) else []) es))
    by (intros m _; apply ui_split_at_S).
  eapply peq_trans; [apply peq_perm, perm_flat_map_swap|].
  rewrite (flat_map_ext_in'
             (fun e => flat_map (fun m => if key_eqb (eL e) k
                                          then map (mstep i e) (ui_split_at R g (S i) (eR e) m) else [])
                                (seq 0 (length g)))
             (fun e => if key_eqb (eL e) k then map (mstep i e) (ui_split R g (S i) (eR e)) else []));
    [apply peq_refl|].
  intros e _. destruct (key_eqb (eL e) k).
  - unfold ui_split. rewrite map_flat_map. reflexivity.
  - apply flat_map_nil_in. intros m _. reflexivity.
Qed.

Lemma ui_rden2_pairs g : std_form g = true -> forall i k, k <> IdR ->
  peq (ui_rden 2 g i k) (ui_pairs g i k).
Proof.
  unfold ui_pairs.
  induction g as [|es g IH]; intros Hs i k Hk.
  - rewrite ui_rden_nil. cbn [Nat.eqb]. rewrite andb_false_r. apply peq_refl.
  - apply std_form_cons in Hs. destruct Hs as [Hs Hg].
    eapply peq_trans; [|apply peq_sym, ui_split_cons; exact Hk].
    rewrite ui_rden_cons. apply peq_flat_map_pointwise. intros e He. unfold ui_edge.
    destruct (key_eqb (eL e) IdR) eqn:E1.
    + apply key_eqb_eq in E1. destruct (key_eqb (eL e) k) eqn:E3.
      * apply key_eqb_eq in E3. congruence.
      * cbn [andb app]. apply peq_refl.
    + destruct (key_eqb (eR e) IdR) eqn:E2; cbn [fst snd eL eR].
      * destruct (key_eqb (eL e) k); cbn [andb app Nat.leb Nat.sub]; [|apply peq_refl].
        apply key_eqb_eq in E2. rewrite E2, (ui_split_IdR _ g Hg), (ui_rden1_eq g Hg) by discriminate.
        cbn [map]. rewrite app_nil_r. apply peq_refl.
      * destruct (key_eqb (eL e) k); cbn [andb app Nat.leb Nat.sub]; [|apply peq_refl].
        apply peq_map_mstep. apply IH; [exact Hg|]. apply key_eqb_neq. exact E2.
Qed.

(* every complete term enters IdR on exactly one site *)
Lemma rden_terms_split g : std_form g = true -> forall i k, k <> IdR ->
  peq (rden g i k) (flat_map (ui_terms_at g i k) (seq 0 (length g))).
Proof.
  change (std_form g = true -> forall i k, k <> IdR ->
          peq (rden g i k) (ui_split (fun _ _ => [(c1, [])]) g i k)).
  induction g as [|es g IH]; intros Hs i k Hk.
  - rewrite rden_nil. apply key_eqb_neq in Hk. rewrite Hk. apply peq_refl.
  - apply std_form_cons in Hs. destruct Hs as [Hs Hg].
    eapply peq_trans; [|apply peq_sym, ui_split_cons; exact Hk].
    rewrite rden_cons_if. apply peq_flat_map_pointwise. intros e He.
    destruct (key_eqb (eL e) k); cbn [andb app]; [|apply peq_refl].
    destruct (key_eqb (eR e) IdR) eqn:E2.
    + apply key_eqb_eq in E2. rewrite E2, (ui_split_IdR _ g Hg), (rden_IdR_std g Hg).
      cbn [map]. rewrite app_nil_r. apply peq_refl.
    + cbn [app]. apply peq_map_mstep. apply IH; [exact Hg|]. apply key_eqb_neq. exact E2.
Qed.

Lemma pmul_flat_map {A} (f : A -> poly) l q :
  pmul (flat_map f l) q = flat_map (fun x => pmul (f x) q) l.
Proof. unfold pmul. apply flat_map_flat_map. Qed.

Lemma ui_pairs_at_pmul g i k m :
  ui_pairs_at g i k m = pmul (ui_terms_at g i k m) (rden (skipn (S m) g) (i + S m) IdL).
Proof.
  unfold ui_pairs_at, ui_terms_at, ui_split_at. rewrite pmul_flat_map.
  apply flat_map_ext_in'. intros [[c w] kq] _. cbn [fst snd].
  destruct (key_eqb kq IdR); [reflexivity|]. rewrite pmul_flat_map.
  apply flat_map_ext_in'. intros e _.
  destruct (key_eqb (eL e) kq && key_eqb (eR e) IdR); [|reflexivity].
  unfold pmul. cbn [map flat_map]. rewrite app_nil_r. apply map_ext. intros [d v].
  unfold pmono. cbn [fst snd]. rewrite cmul_1_r, cmul_assoc, <- app_assoc, <- consop_app. reflexivity.
Qed.

(* coefficient of t^2 : the sum over all pairs (T1, T2) of complete terms of H such that T1 enters IdR
   on some site m and T2 lies entirely on the sites after m (no overlap, T1 left of T2) *)
Theorem UI_order2_pairs g : std_form g = true -> peq (ui_den 2 g) (ui_pairs g 0 IdL).
Proof. intro Hs. apply ui_rden2_pairs; [exact Hs|discriminate]. Qed.

Theorem UI_order2 g : std_form g = true -> peq (ui_den 2 g) (ui_order2 g).
Proof.
  intro Hs. eapply peq_trans; [apply UI_order2_pairs; exact Hs|].
  unfold ui_pairs, ui_split, ui_order2, denote_from.
  rewrite (flat_map_ext_in' (ui_split_at (fun g' j => rden g' j IdL) g 0 IdL)
             (fun m => pmul (ui_terms_at g 0 IdL m) (rden (skipn (S m) g) (S m) IdL)));
    [apply peq_refl|].
  intros m _. apply (ui_pairs_at_pmul g 0 IdL m).
Qed.

(* the first factors of ui_order2 are exactly the terms of H, sorted by the site on which they end *)
Theorem UI_terms_split g : std_form g = true ->
  peq (denote g) (flat_map (ui_terms_at g 0 IdL) (seq 0 (length g))).
Proof. intro Hs. apply rden_terms_split; [exact Hs|discriminate]. Qed.

(* ------------------------------------------------------------------ examples *)
(* 4 sites; onsite terms on sites 0, 1, 3; couplings 0-2, 1-2 and 1-3 (with string operator 9 on site 2) *)
Definition ui_ex_g : graph :=
  from_terms 4 [mkOT 0 4 (2,0); mkOT 1 4 (7,0); mkOT 3 4 (1,1)]
               [mkCT 0 5 0 2 6 (3,2); mkCT 1 5 0 2 6 (1,0); mkCT 1 5 9 3 6 (0,1)].
(* the graph suggested for C11: 3 sites *)
Definition ui_ex_g3 : graph :=
  from_terms 3 [mkOT 1 4 (7,0)] [mkCT 0 5 0 2 6 (3,2); mkCT 1 5 0 2 6 (1,0)].

Example ui_ex_std : std_form ui_ex_g = true /\ std_form ui_ex_g3 = true /\ ui_ex_g <> [].
Proof. split; [vm_compute; reflexivity|]. split; [vm_compute; reflexivity|discriminate]. Qed.

Example ui_ex_order0 : ui_den 0 ui_ex_g = [(c1, [])] /\ ui_den 0 ui_ex_g3 = [(c1, [])].
Proof. split; vm_compute; reflexivity. Qed.

Example ui_ex_order1 :
  ui_den 1 ui_ex_g = denote ui_ex_g /\
  normalize (ui_den 1 ui_ex_g) = normalize (denote ui_ex_g) /\
  normalize (ui_den 1 ui_ex_g) =
    [((2, 0), [(0%nat, 4)]); ((3, 2), [(0%nat, 5); (2%nat, 6)]); ((7, 0), [(1%nat, 4)]);
     ((1, 0), [(1%nat, 5); (2%nat, 6)]); ((0, 1), [(1%nat, 5); (2%nat, 9); (3%nat, 6)]);
     ((1, 1), [(3%nat, 4)])] /\
  normalize (ui_den 1 ui_ex_g3) = normalize (denote ui_ex_g3) /\
  normalize (ui_den 1 ui_ex_g3) =
    [((3, 2), [(0%nat, 5); (2%nat, 6)]); ((7, 0), [(1%nat, 4)]); ((1, 0), [(1%nat, 5); (2%nat, 6)])].
Proof. repeat split; vm_compute; reflexivity. Qed.

(* second order: only products of terms that do not overlap, the left one first; e.g. onsite(1) is
   not combined with itself, onsite(0)*onsite(1) has strength 2*7 *)
Example ui_ex_order2 :
  normalize (ui_den 2 ui_ex_g) =
    [((14, 0), [(0%nat, 4); (1%nat, 4)]);
     ((2, 0), [(0%nat, 4); (1%nat, 5); (2%nat, 6)]);
     ((0, 2), [(0%nat, 4); (1%nat, 5); (2%nat, 9); (3%nat, 6)]);
     ((2, 2), [(0%nat, 4); (3%nat, 4)]);
     ((1, 5), [(0%nat, 5); (2%nat, 6); (3%nat, 4)]);
     ((7, 7), [(1%nat, 4); (3%nat, 4)]);
     ((1, 1), [(1%nat, 5); (2%nat, 6); (3%nat, 4)])] /\
  normalize (ui_order2 ui_ex_g) = normalize (ui_den 2 ui_ex_g) /\
  normalize (ui_pairs ui_ex_g 0 IdL) = normalize (ui_den 2 ui_ex_g) /\
  normalize (flat_map (ui_terms_at ui_ex_g 0 IdL) (seq 0 (length ui_ex_g))) = normalize (denote ui_ex_g) /\
  normalize (ui_den 3 ui_ex_g) =
    [((14, 14), [(0%nat, 4); (1%nat, 4); (3%nat, 4)]);
     ((2, 2), [(0%nat, 4); (1%nat, 5); (2%nat, 6); (3%nat, 4)])] /\
  normalize (ui_den 4 ui_ex_g) = [] /\
  (* on 3 sites every pair of terms of ui_ex_g3 overlaps *)
  normalize (ui_den 2 ui_ex_g3) = [].
Proof. repeat split; vm_compute; reflexivity. Qed.

Example ui_ex_eval :
  peqb (denote_to IdL (ui_eval (2, 1) ui_ex_g)) (ui_taylor (2, 1) ui_ex_g) = true /\
  check_UI ((2, 1), ui_ex_g, ui_eval (2, 1) ui_ex_g) = true /\
  normalize (denote_to IdL (ui_eval (2, 1) ui_ex_g3)) =
    [((1, 0), []); ((4, 7), [(0%nat, 5); (2%nat, 6)]); ((14, 7), [(1%nat, 4)]);
     ((2, 1), [(1%nat, 5); (2%nat, 6)])].
Proof. repeat split; vm_compute; reflexivity. Qed.

(* the hypothesis std_form is needed: with a second edge entering IdL the zeroth order is not 1 *)
Definition ui_ex_bad : graph :=
  [[mkE IdL IdL 0 c1; mkE IdR IdR 0 c1; mkE IdL (Oth 1) 3 c1];
   [mkE IdL IdL 0 c1; mkE IdR IdR 0 c1; mkE (Oth 1) IdL 4 c1]].
Example ui_ex_nonstd :
  std_form ui_ex_bad = false /\ peqb (ui_den 0 ui_ex_bad) [(c1, [])] = false.
Proof. split; vm_compute; reflexivity. Qed.

Print Assumptions UI_order0_eq.
Print Assumptions UI_order1_eq.
Print Assumptions UI_order0.
Print Assumptions UI_order1.
Print Assumptions UI_eval.
Print Assumptions UI_eval_paths.
Print Assumptions UI_first_order.
Print Assumptions UI_order2_pairs.
Print Assumptions UI_order2.
Print Assumptions UI_terms_split.
