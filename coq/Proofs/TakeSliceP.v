(* take_slice on one axis: dense form, well-formedness of the result (removing a constant column keeps the rows distinct and
   lexsorted), total charge reduced by the charge of the removed index. *)
From TenpyV Require Import Base.Prelude Model.Charge Model.Tensor Model.TensorOps Model.TakeSlice.
From TenpyV Require Import Proofs.ChargeP Proofs.TensorP Proofs.TensorP2.
Open Scope Z_scope.

(* ---- get_qindex finds the block *)
Lemma in1_exists l i : (i < ind_len l)%nat -> exists q, (q < length (bsz l))%nat /\ in1 l q i = true.
Proof.
  unfold ind_len, in1, bstart, bsize. generalize (bsz l) as s. intros s. revert i.
  induction s as [|x s IH] using rev_ind; intros i Hi; [cbn in Hi; lia|].
  assert (Hsum : list_sum (s ++ [x]) = (list_sum s + x)%nat).
  { rewrite list_sum_app. cbn [list_sum fold_right]. lia. }
  rewrite Hsum in Hi. destruct (Nat.lt_ge_cases i (list_sum s)) as [Hlt|Hge].
  - destruct (IH i Hlt) as [q [Hq H]]. exists q. rewrite app_length. cbn [length]. split; [lia|].
    rewrite firstn_app. replace (q - length s)%nat with 0%nat by lia. cbn [firstn]. rewrite app_nil_r.
    rewrite app_nth1 by exact Hq. exact H.
  - exists (length s). rewrite app_length. cbn [length]. split; [lia|].
    rewrite firstn_app, Nat.sub_diag, firstn_all. cbn [firstn]. rewrite app_nil_r.
    rewrite app_nth2, Nat.sub_diag by lia. cbn [nth].
    apply andb_true_iff. split; [apply Nat.leb_le|apply Nat.ltb_lt]; lia.
Qed.

Lemma get_qindex_spec l i : (i < ind_len l)%nat -> in1 l (get_qindex l i) i = true.
Proof.
  intros Hi. unfold get_qindex. destruct (find _ _) as [q|] eqn:E.
  - apply find_some in E. exact (proj2 E).
  - destruct (in1_exists l i Hi) as [q [Hq H]]. pose proof (find_none _ _ E q) as N.
    rewrite N in H; [discriminate|]. apply in_seq. lia.
Qed.

(* ---- lists with one position removed / inserted *)
Lemma split_at {A} (ax : nat) (l : list A) d : (ax < length l)%nat ->
  l = firstn ax l ++ nth ax l d :: skipn (S ax) l /\ length (firstn ax l) = ax.
Proof.
  intros H. split; [|rewrite firstn_length; lia].
  rewrite <- (firstn_skipn ax l) at 1. f_equal.
  revert ax H. induction l as [|x l IH]; intros [|ax] H; cbn [length] in H; try lia; cbn [skipn nth]; [reflexivity|].
  apply IH. lia.
Qed.

Lemma inb_cons1 l ls q qs x idx : inb (l :: ls) (q :: qs) (x :: idx) = in1 l q x && inb ls qs idx.
Proof.
  change (inb ([l] ++ ls) ([q] ++ qs) ([x] ++ idx) = in1 l q x && inb ls qs idx).
  rewrite inb_app by reflexivity. f_equal. unfold inb. cbn [length seq forallb nth]. apply andb_true_r.
Qed.
Lemma loc_cons1 l ls q qs x idx : loc (l :: ls) (q :: qs) (x :: idx) = (x - bstart l q)%nat :: loc ls qs idx.
Proof.
  change (loc ([l] ++ ls) ([q] ++ qs) ([x] ++ idx) = (x - bstart l q)%nat :: loc ls qs idx).
  rewrite loc_app by reflexivity. reflexivity.
Qed.

Lemma loc_len ls qs idx : length (loc ls qs idx) = length ls.
Proof. unfold loc. rewrite map_length, seq_length. reflexivity. Qed.

(* one stored block: its value at the index with i inserted *)
Lemma bval_slice l1 l l2 r1 q r2 i1 i2 i qi f :
  length r1 = length l1 -> length i1 = length l1 -> in1 l qi i = true ->
  bval (l1 ++ l :: l2) (i1 ++ i :: i2) (r1 ++ q :: r2, f)
  = if (q =? qi)%nat then bval (l1 ++ l2) (i1 ++ i2) (r1 ++ r2, fun idx => f (insert_at (length l1) (i - bstart l qi)%nat idx))
    else None.
Proof.
  intros Hr Hi Hin. unfold bval. cbn [fst snd].
  rewrite !inb_app, !loc_app by assumption. rewrite inb_cons1, loc_cons1.
  destruct (q =? qi)%nat eqn:E.
  - apply Nat.eqb_eq in E. subst q. rewrite Hin. cbn [andb].
    destruct (inb l1 r1 i1 && inb l2 r2 i2); [|reflexivity]. f_equal. f_equal.
    unfold insert_at. rewrite <- (loc_len l1 r1 i1). rewrite firstn_app_len, skipn_app_len. reflexivity.
  - apply Nat.eqb_neq in E. rewrite (in1_disjoint l qi q i) by (auto). rewrite andb_false_r. reflexivity.
Qed.

Lemma skipn_S_app {A} (l1 : list A) x l2 : skipn (S (length l1)) (l1 ++ x :: l2) = l2.
Proof. induction l1 as [|y l1 IH]; [reflexivity|exact IH]. Qed.

Lemma remove_at_app {A} (l1 : list A) x l2 : remove_at (length l1) (l1 ++ x :: l2) = l1 ++ l2.
Proof. unfold remove_at. rewrite firstn_app_len, skipn_S_app. reflexivity. Qed.

Lemma insert_at_app {A} (l1 : list A) x l2 : insert_at (length l1) x (l1 ++ l2) = l1 ++ x :: l2.
Proof. unfold insert_at. rewrite firstn_app_len, skipn_app_len. reflexivity. Qed.

(* ---- C01: dense form.  res[idx] = a[idx with i inserted at position ax] *)
Theorem take_slice_dense_sum ci ax i a idx : rows_shape a -> (ax < rank a)%nat -> (i < ind_len (nth ax (legs a) dleg))%nat ->
  (ax <= length idx)%nat ->
  dense_sum (take_slice ci ax i a) idx = dense_sum a (insert_at ax i idx).
Proof.
  intros Sa Hax Hi Hidx. unfold rank in *.
  set (l := nth ax (legs a) dleg). set (qi := get_qindex l i).
  pose proof (get_qindex_spec l i Hi) as Hin. fold qi in Hin.
  destruct (split_at ax (legs a) dleg Hax) as [Hl Hl1]. fold l in Hl.
  set (l1 := firstn ax (legs a)) in *. set (l2 := skipn (S ax) (legs a)) in *.
  set (i1 := firstn ax idx). set (i2 := skipn ax idx).
  assert (Hi1 : length i1 = length l1) by (unfold i1; rewrite firstn_length; lia).
  unfold dense_sum, take_slice. cbn [legs blks]. fold l qi.
  unfold insert_at at 2. fold i1 i2. rewrite <- (firstn_skipn ax idx). fold i1 i2.
  rewrite Hl. rewrite <- Hl1 at 1. rewrite remove_at_app.
  assert (Sa' : forall b, In b (blks a) -> length (fst b) = length (legs a)) by (intros b Hb; apply Sa; apply in_map; exact Hb).
  induction (blks a) as [|b bs IH]; [reflexivity|].
  cbn [filter map]. rewrite osum_cons.
  pose proof (Sa' b (or_introl eq_refl)) as Lb.
  destruct (split_at ax (fst b) 0%nat ltac:(lia)) as [Hb Hb1].
  destruct b as [r f]. cbn [fst snd] in *.
  set (r1 := firstn ax r) in *. set (r2 := skipn (S ax) r) in *. set (q := nth ax r 0%nat) in *.
  assert (Hr1 : length r1 = length l1) by lia.
  rewrite Hb at 2. rewrite (bval_slice l1 l l2 r1 q r2 i1 i2 i qi f Hr1 Hi1 Hin).
  destruct (q =? qi)%nat eqn:E.
  - cbn [map]. rewrite osum_cons. cbn [fst snd].
    assert (Hrem : remove_at ax r = r1 ++ r2) by (rewrite Hb, <- Hb1; apply remove_at_app).
    rewrite Hrem. rewrite Hl1. rewrite IH by (intros b' Hb'; apply Sa'; right; exact Hb'). reflexivity.
  - apply IH. intros b' Hb'. apply Sa'. right. exact Hb'.
Qed.

Theorem take_slice_dense ci ax i a idx : WF ci a -> (ax < rank a)%nat -> (i < ind_len (nth ax (legs a) dleg))%nat ->
  (ax <= length idx)%nat -> NoDup (rows (take_slice ci ax i a)) -> rows_shape (take_slice ci ax i a) ->
  to_ndarray (take_slice ci ax i a) idx = to_ndarray a (insert_at ax i idx).
Proof.
  intros [A1 A2 A3 A4 A5] Hax Hi Hidx Hn Hs. rewrite to_ndarray_sum by assumption.
  rewrite (to_ndarray_sum a) by assumption. apply take_slice_dense_sum; assumption.
Qed.

(* ---- C02: rows of the result = rows with qindex qi at position ax, that column removed *)
Lemma take_slice_rows ci ax i a :
  rows (take_slice ci ax i a)
  = map (remove_at ax) (filter (fun r => (nth ax r 0 =? get_qindex (nth ax (legs a) dleg) i)%nat) (rows a)).
Proof.
  unfold take_slice, rows. cbn [blks]. rewrite map_map. cbn [fst].
  induction (blks a) as [|b bs IH]; [reflexivity|]. cbn [filter map].
  destruct (nth ax (fst b) 0 =? _)%nat; cbn [map]; rewrite IH; reflexivity.
Qed.

Lemma app_inj_len2 {A} (x x' y y' : list A) : length x = length x' -> x ++ y = x' ++ y' -> x = x' /\ y = y'.
Proof.
  revert x'. induction x as [|c x IH]; intros [|c' x'] Hl H; cbn [length app] in *; try discriminate.
  - auto.
  - injection H as -> H. destruct (IH x') as [-> ->]; [lia|exact H|]. auto.
Qed.

Lemma remove_at_inj ax (r r' : list nat) : (ax < length r)%nat -> length r = length r' ->
  nth ax r 0%nat = nth ax r' 0%nat -> remove_at ax r = remove_at ax r' -> r = r'.
Proof.
  intros H Hl Hq He. destruct (split_at ax r 0%nat H) as [E1 L1]. destruct (split_at ax r' 0%nat ltac:(lia)) as [E2 L2].
  unfold remove_at in He. apply app_inj_len2 in He; [|lia]. destruct He as [Ha Hb].
  rewrite E1, E2, Ha, Hb, Hq. reflexivity.
Qed.

Lemma NoDup_filter_own {A} (f : A -> bool) l : NoDup l -> NoDup (filter f l).
Proof.
  induction 1 as [|x l Hx Hn IH]; cbn [filter]; [constructor|]. destruct (f x); [|exact IH].
  constructor; [|exact IH]. intros H. apply filter_In in H. exact (Hx (proj1 H)).
Qed.

(* removing a constant column keeps the lexicographic order of the rows *)
Lemma lex_lt_mid p p' q s s' : length p = length p' -> lex_lt (p ++ q :: s) (p' ++ q :: s') = lex_lt (p ++ s) (p' ++ s').
Proof.
  revert p'. induction p as [|x p IH]; intros [|y p'] Hl; cbn [length] in Hl; try discriminate.
  - cbn [app lex_lt]. rewrite Nat.ltb_irrefl, Nat.eqb_refl. reflexivity.
  - cbn [app lex_lt]. rewrite IH by lia. reflexivity.
Qed.

Lemma row_lt_remove ax r r' : (ax < length r)%nat -> length r = length r' -> nth ax r 0%nat = nth ax r' 0%nat ->
  row_lt (remove_at ax r) (remove_at ax r') = row_lt r r'.
Proof.
  intros H Hl Hq. destruct (split_at ax r 0%nat H) as [E1 L1]. destruct (split_at ax r' 0%nat ltac:(lia)) as [E2 L2].
  unfold row_lt. rewrite E1 at 2. rewrite E2 at 2. unfold remove_at. rewrite Hq.
  rewrite !rev_app_distr. cbn [rev]. rewrite <- !app_assoc. cbn [app]. symmetry. apply lex_lt_mid.
  rewrite !rev_length, !skipn_length. lia.
Qed.

Lemma ssorted_filter f l : ssorted l -> ssorted (filter f l).
Proof.
  induction l as [|x l IH]; intros H; [exact I|]. destruct H as [H1 H2]. cbn [filter].
  destruct (f x); [|apply IH; exact H2]. split; [|apply IH; exact H2].
  intros y Hy. apply filter_In in Hy. apply H1. exact (proj1 Hy).
Qed.

Lemma ssorted_map_remove ax qi n l : (ax < n)%nat ->
  (forall r, In r l -> length r = n /\ nth ax r 0%nat = qi) -> ssorted l -> ssorted (map (remove_at ax) l).
Proof.
  intros Hax. induction l as [|x l IH]; intros Hall H; [exact I|]. destruct H as [H1 H2]. cbn [map]. split.
  - intros y Hy. apply in_map_iff in Hy. destruct Hy as [r [<- Hr]].
    destruct (Hall x (or_introl eq_refl)) as [Lx Qx]. destruct (Hall r (or_intror Hr)) as [Lr Qr].
    rewrite row_lt_remove by lia. apply H1. exact Hr.
  - apply IH; [|exact H2]. intros r Hr. apply Hall. right. exact Hr.
Qed.

(* charges *)
Lemma nth_leg_charge l q j : nth j (leg_charge l q) 0 = chg l q j.
Proof.
  unfold leg_charge, chg, vscale. generalize (nth q (bch l) []) as row. intros row. revert j.
  induction row as [|x row IH]; intros [|j]; cbn [map nth]; try lia; try apply IH.
Qed.

Lemma row_charge_split l1 l l2 r1 q r2 j : length r1 = length l1 ->
  row_charge (l1 ++ l :: l2) (r1 ++ q :: r2) j = row_charge (l1 ++ l2) (r1 ++ r2) j + chg l q j.
Proof.
  intros H. rewrite !row_charge_app by exact H.
  change (l :: l2) with ([l] ++ l2). change (q :: r2) with ([q] ++ r2). rewrite row_charge_app by reflexivity.
  unfold row_charge at 2. cbn [length seq map nth sumZ]. lia.
Qed.

Theorem wf_take_slice ci ax i a : valid_ci ci -> WF ci a -> (ax < rank a)%nat ->
  length (nth (get_qindex (nth ax (legs a) dleg) i) (bch (nth ax (legs a) dleg)) []) = length ci ->
  WF ci (take_slice ci ax i a).
Proof.
  intros Hv [A1 A2 A3 A4 A5] Hax Hch. unfold rank in *.
  set (l := nth ax (legs a) dleg) in *. set (qi := get_qindex l i) in *.
  assert (Hlc : length (leg_charge l qi) = length ci) by (unfold leg_charge, vscale; rewrite map_length; exact Hch).
  assert (Hrank : rank (take_slice ci ax i a) = (length (legs a) - 1)%nat).
  { unfold rank, take_slice, remove_at. cbn [legs]. rewrite app_length, firstn_length, skipn_length. lia. }
  assert (Hin : forall r, In r (filter (fun r => (nth ax r 0 =? qi)%nat) (rows a)) ->
                          In r (rows a) /\ length r = length (legs a) /\ nth ax r 0%nat = qi).
  { intros r Hr. apply filter_In in Hr. destruct Hr as [Hr Hq]. apply Nat.eqb_eq in Hq. split; [exact Hr|]. split; [apply A2; exact Hr|exact Hq]. }
  constructor.
  - unfold take_slice. cbn [qtot]. fold l. fold qi. apply make_valid_length. rewrite vadd_length; unfold vneg; rewrite ?map_length; lia.
  - intros r Hr. rewrite take_slice_rows in Hr. apply in_map_iff in Hr. destruct Hr as [r0 [<- Hr0]].
    destruct (Hin r0 Hr0) as [_ [L _]]. rewrite Hrank. unfold remove_at. rewrite app_length, firstn_length, skipn_length. lia.
  - rewrite take_slice_rows. apply NoDup_map_in; [|apply NoDup_filter_own; exact A3].
    intros x y Hx Hy E. destruct (Hin x Hx) as [_ [Lx Qx]]. destruct (Hin y Hy) as [_ [Ly Qy]].
    apply (remove_at_inj ax); try lia. exact E.
  - intros r Hr. rewrite take_slice_rows in Hr. apply in_map_iff in Hr. destruct Hr as [r0 [<- Hr0]].
    destruct (Hin r0 Hr0) as [I0 [L0 Q0]]. pose proof (A4 r0 I0) as Hok.
    intros j Hj. specialize (Hok j Hj). unfold take_slice. cbn [legs qtot]. fold l. fold qi.
    destruct (split_at ax (legs a) dleg Hax) as [El Ll]. fold l in El.
    destruct (split_at ax r0 0%nat ltac:(lia)) as [Er Lr]. rewrite Q0 in Er.
    rewrite El, Er in Hok. rewrite row_charge_split in Hok by lia.
    rewrite nth_make_valid by (rewrite ?vadd_length; unfold vneg; rewrite ?map_length; lia).
    rewrite nth_vadd by (unfold vneg; rewrite ?map_length; lia). rewrite nth_vneg, nth_leg_charge, <- Hok.
    unfold remove_at.
    set (rc := row_charge (firstn ax (legs a) ++ skipn (S ax) (legs a)) (firstn ax r0 ++ skipn (S ax) r0) j).
    rewrite mv1_add_l by (apply valid_ci_nth; exact Hv). f_equal. lia.
  - intros Hq. unfold take_slice in Hq. cbn [qsorted] in Hq. apply strictly_of_ssorted. rewrite take_slice_rows.
    apply (ssorted_map_remove ax qi (length (legs a))); [exact Hax| |].
    + intros r Hr. destruct (Hin r Hr) as [_ [L Q]]. auto.
    + apply ssorted_filter. apply ssorted_of_strictly. apply A5. exact Hq.
Qed.

Lemma take_slice_qtotal ci ax i a :
  qtot (take_slice ci ax i a)
  = make_valid ci (vadd (qtot a) (vneg (leg_charge (nth ax (legs a) dleg) (get_qindex (nth ax (legs a) dleg) i)))) /\
  legs (take_slice ci ax i a) = remove_at ax (legs a) /\ qsorted (take_slice ci ax i a) = qsorted a.
Proof. repeat split; reflexivity. Qed.

(* the two statements together: for a well-formed operand the result is well-formed and its dense form is the slice *)
Theorem take_slice_full ci ax i a : valid_ci ci -> WF ci a -> (ax < rank a)%nat -> (i < ind_len (nth ax (legs a) dleg))%nat ->
  length (nth (get_qindex (nth ax (legs a) dleg) i) (bch (nth ax (legs a) dleg)) []) = length ci ->
  WF ci (take_slice ci ax i a) /\
  (forall idx, (ax <= length idx)%nat -> to_ndarray (take_slice ci ax i a) idx = to_ndarray a (insert_at ax i idx)).
Proof.
  intros Hv Wa Hax Hi Hch. pose proof (wf_take_slice ci ax i a Hv Wa Hax Hch) as W. split; [exact W|].
  intros idx Hidx. apply (take_slice_dense ci); try assumption; [apply (wf_nodup ci _ W)|apply (wf_shape ci _ W)].
Qed.
