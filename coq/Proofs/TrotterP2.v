(* C14, T14_trotter_merge: the N-step Suzuki-Trotter schedule is the N-fold repetition of the one-step
   pattern after merging adjacent entries of equal parity (all N >= 1, by induction). *)
From TenpyV Require Import Base.Prelude Base.PyLib Model.Trotter Model.TrotterMerge Gen.G_trotter Proofs.TrotterP.
From Coq Require Import QArith Qfield String.
Open Scope Z_scope.

(* ------------------------------------------------------------------ polynomial equality *)
Lemma tpeq_refl p : tpeq p p.
Proof. intros i. reflexivity. Qed.
Lemma tpeq_sym p q : tpeq p q -> tpeq q p.
Proof. intros H i. symmetry. apply H. Qed.
Lemma tpeq_trans p q r : tpeq p q -> tpeq q r -> tpeq p r.
Proof. intros H1 H2 i. rewrite (H1 i). apply H2. Qed.

Lemma nth_nil_Q i : nth i (@nil Q) 0%Q = 0%Q.
Proof. destruct i; reflexivity. Qed.

Lemma padd_nth a : forall b i, (nth i (padd a b) 0 == nth i a 0 + nth i b 0)%Q.
Proof.
  induction a as [|x a IH]; intros b i.
  - cbn [padd]. rewrite nth_nil_Q. ring.
  - destruct b as [|y b]; cbn [padd].
    + rewrite nth_nil_Q. ring.
    + destruct i as [|i]; cbn [nth]; [reflexivity|apply IH].
Qed.

Lemma padd_compat a a' b b' : tpeq a a' -> tpeq b b' -> tpeq (padd a b) (padd a' b').
Proof. intros Ha Hb i. rewrite !padd_nth, (Ha i), (Hb i). reflexivity. Qed.

Lemma padd_assoc a b c : tpeq (padd a (padd b c)) (padd (padd a b) c).
Proof. intros i. rewrite !padd_nth. ring. Qed.

Lemma peval_padd a x : forall b, (peval (padd a b) x == peval a x + peval b x)%Q.
Proof.
  induction a as [|c a IH]; intros b.
  - cbn [padd peval]. ring.
  - destruct b as [|d b]; cbn [padd peval]; [ring|]. rewrite IH. ring.
Qed.

(* the boolean test of PyLib decides coefficientwise equality *)
Lemma pzero_spec a : pzero a = true <-> tpeq a [].
Proof.
  induction a as [|c a IH]; cbn [pzero].
  - split; [intros _; apply tpeq_refl|reflexivity].
  - rewrite andb_true_iff, Qeq_bool_iff, IH. split.
    + intros [Hc Ha] [|i]; cbn [nth]; [exact Hc|]. rewrite (Ha i), nth_nil_Q. reflexivity.
    + intros H. split; [exact (H O)|]. intros i. rewrite nth_nil_Q. exact (H (S i)).
Qed.

Lemma peqb_spec a : forall b, peqb a b = true <-> tpeq a b.
Proof.
  induction a as [|x a IH]; intros b.
  - cbn [peqb]. rewrite pzero_spec. split; apply tpeq_sym.
  - destruct b as [|y b]; cbn [peqb].
    + apply (pzero_spec (x :: a)).
    + rewrite andb_true_iff, Qeq_bool_iff, IH. split.
      * intros [Hx Ha] [|i]; cbn [nth]; [exact Hx|apply Ha].
      * intros H. split; [exact (H O)|]. intros i. exact (H (S i)).
Qed.

(* ------------------------------------------------------------------ schedule equality *)
Lemma ent_eq_refl e : ent_eq e e.
Proof. split; [apply tpeq_refl|reflexivity]. Qed.
Lemma sched_eq_refl l : sched_eq l l.
Proof. induction l as [|e l IH]; constructor; [apply ent_eq_refl|exact IH]. Qed.
Lemma sched_eq_sym a b : sched_eq a b -> sched_eq b a.
Proof.
  induction 1 as [|x y a b [H1 H2] _ IH]; constructor; [|exact IH].
  split; [apply tpeq_sym; exact H1|symmetry; exact H2].
Qed.
Lemma sched_eq_trans a b : sched_eq a b -> forall c, sched_eq b c -> sched_eq a c.
Proof.
  induction 1 as [|x y a b [H1 H2] _ IH]; intros c Hc; inversion Hc as [|y' z b' c' [H3 H4] Hbc]; subst;
    constructor; [|apply IH; exact Hbc].
  split; [exact (tpeq_trans _ _ _ H1 H3)|congruence].
Qed.

Lemma ent_eqb_spec u v : ent_eqb u v = true <-> ent_eq u v.
Proof. unfold ent_eqb, ent_eq. rewrite andb_true_iff, peqb_spec, Z.eqb_eq. reflexivity. Qed.

Lemma sched_eqb_spec a : forall b, sched_eqb a b = true <-> sched_eq a b.
Proof.
  induction a as [|x a IH]; intros [|y b]; cbn [sched_eqb].
  - split; [constructor|reflexivity].
  - split; [discriminate|intros H; inversion H].
  - split; [discriminate|intros H; inversion H].
  - rewrite andb_true_iff, ent_eqb_spec, IH. split.
    + intros [H1 H2]. constructor; assumption.
    + intros H. inversion H; subst. split; assumption.
Qed.

(* ------------------------------------------------------------------ merge *)
Lemma mcons_proper e e' m m' : ent_eq e e' -> sched_eq m m' -> sched_eq (mcons e m) (mcons e' m').
Proof.
  intros He Hm. destruct Hm as [|[q k] [q' k'] t t' [Hq Hk] Ht]; cbn [mcons].
  - constructor; [exact He|constructor].
  - cbn [fst snd] in Hq, Hk. subst k'. destruct He as [Hp Hs]. rewrite <- Hs.
    destruct (snd e =? k).
    + constructor; [|exact Ht]. split; [cbn [fst]; apply padd_compat; assumption|reflexivity].
    + constructor; [split; assumption|]. constructor; [split; [exact Hq|reflexivity]|exact Ht].
Qed.

Lemma merge_proper l l' : sched_eq l l' -> sched_eq (merge l) (merge l').
Proof.
  induction 1 as [|x y a b Hxy _ IH]; cbn [merge]; [constructor|].
  apply mcons_proper; assumption.
Qed.

Lemma merge_app_congr l x y : sched_eq (merge x) (merge y) -> sched_eq (merge (l ++ x)) (merge (l ++ y)).
Proof.
  intros H. induction l as [|e l IH]; cbn [app merge]; [exact H|].
  apply mcons_proper; [apply ent_eq_refl|exact IH].
Qed.

(* two adjacent entries of equal parity act as one entry with the sum of the times *)
Lemma mcons_mcons p q k m : sched_eq (mcons (p, k) (mcons (q, k) m)) (mcons (padd p q, k) m).
Proof.
  destruct m as [|[r k'] t]; cbn [mcons fst snd].
  - rewrite Z.eqb_refl. apply sched_eq_refl.
  - destruct (k =? k') eqn:E; cbn [mcons fst snd].
    + rewrite E. constructor; [|apply sched_eq_refl]. split; [cbn [fst]; apply padd_assoc|reflexivity].
    + rewrite Z.eqb_refl. apply sched_eq_refl.
Qed.

Lemma merge_join l p q k r :
  sched_eq (merge (l ++ (p, k) :: (q, k) :: r)) (merge (l ++ (padd p q, k) :: r)).
Proof. apply merge_app_congr. cbn [merge]. apply mcons_mcons. Qed.

(* merge yields the normal form, and leaves normal forms alone *)
Lemma mcons_alternating e m : alternating m = true -> alternating (mcons e m) = true.
Proof.
  destruct m as [|[q k'] t]; intros H; cbn [mcons]; [reflexivity|].
  destruct (snd e =? k') eqn:E.
  - destruct t as [|e' t']; [reflexivity|]. exact H.
  - change (negb (snd e =? k') && alternating ((q, k') :: t) = true). rewrite E, H. reflexivity.
Qed.

Lemma merge_alternating l : alternating (merge l) = true.
Proof. induction l as [|e l IH]; cbn [merge]; [reflexivity|]. apply mcons_alternating. exact IH. Qed.

Lemma alternating_tail e l : alternating (e :: l) = true -> alternating l = true.
Proof. destruct l as [|e' l]; [reflexivity|]. cbn [alternating]. rewrite andb_true_iff. tauto. Qed.

Lemma merge_fixed l : alternating l = true -> merge l = l.
Proof.
  induction l as [|e l IH]; intros H; cbn [merge]; [reflexivity|].
  rewrite (IH (alternating_tail _ _ H)). destruct l as [|[q k'] t]; [reflexivity|].
  cbn [alternating] in H. apply andb_prop in H. destruct H as [H _]. cbn [snd] in H.
  cbn [mcons]. destruct (snd e =? k'); [discriminate|reflexivity].
Qed.

Lemma merge_idempotent l : merge (merge l) = merge l.
Proof. apply merge_fixed, merge_alternating. Qed.

(* merging does not change the time applied to either parity class *)
Lemma mcons_time x k e m : (sched_time x k (mcons e m) == ent_weight x k e + sched_time x k m)%Q.
Proof.
  destruct m as [|[q k'] t]; cbn [mcons]; [reflexivity|].
  destruct (snd e =? k') eqn:E; [|reflexivity].
  apply Z.eqb_eq in E. unfold sched_time. cbn [map sumQ]. unfold ent_weight. cbn [fst snd]. rewrite E.
  destruct (k' =? k); [rewrite peval_padd|]; ring.
Qed.

Lemma merge_time x k l : (sched_time x k (merge l) == sched_time x k l)%Q.
Proof.
  induction l as [|e l IH]; cbn [merge]; [reflexivity|].
  rewrite mcons_time, IH. reflexivity.
Qed.

Lemma timed_time ds x k steps : sched_time x k (timed ds steps) = parity_time ds x k steps.
Proof. unfold sched_time, parity_time, timed. rewrite map_map. reflexivity. Qed.

Lemma merge_normal_form l :
  alternating (merge l) = true /\ (alternating l = true -> merge l = l) /\ merge (merge l) = merge l /\
  forall x k, (sched_time x k (merge l) == sched_time x k l)%Q.
Proof.
  split; [apply merge_alternating|]. split; [apply merge_fixed|]. split; [apply merge_idempotent|].
  intros x k. apply merge_time.
Qed.

(* ------------------------------------------------------------------ the repetition pattern *)
Lemma concat_repeat {A} (l : list A) n : List.concat (repeat l n) = repeat_nat l n.
Proof. induction n as [|n IH]; cbn [repeat List.concat repeat_nat]; [reflexivity|]. rewrite IH. reflexivity. Qed.

Lemma timed_app ds a b : timed ds (a ++ b) = timed ds a ++ timed ds b.
Proof. apply map_app. Qed.

Lemma timed_repeat_nat ds l n : timed ds (repeat_nat l n) = repeat_nat (timed ds l) n.
Proof. induction n as [|n IH]; cbn [repeat_nat]; [reflexivity|]. rewrite timed_app, IH. reflexivity. Qed.

Section Pattern.
  Variables (pa pc : poly) (k : Z) (X : sched).
  Hypothesis Hc : tpeq pc (padd pa pa).
  Let A : poly * Z := (pa, k).
  Let C : poly * Z := (pc, k).
  Let B : sched := A :: X ++ [A].

  Lemma pattern_tail n : forall P,
    sched_eq (merge (P ++ repeat_nat (C :: X) n ++ [A])) (merge (P ++ [A] ++ repeat_nat B n)).
  Proof.
    induction n as [|n IH]; intros P; cbn [repeat_nat app].
    - apply sched_eq_refl.
    - (* right-hand side: A, A join into C *)
      apply sched_eq_sym.
      apply (sched_eq_trans _ (merge (P ++ (padd pa pa, k) :: X ++ [A] ++ repeat_nat B n))).
      { unfold B at 1. cbn [app]. rewrite <- (app_assoc X [A]). apply (merge_join P pa pa k). }
      apply (sched_eq_trans _ (merge (P ++ C :: X ++ [A] ++ repeat_nat B n))).
      { apply merge_proper. apply Forall2_app; [apply sched_eq_refl|].
        constructor; [|apply sched_eq_refl]. split; [apply tpeq_sym; exact Hc|reflexivity]. }
      apply sched_eq_sym.
      specialize (IH (P ++ C :: X)). rewrite <- !app_assoc in IH. cbn [app] in IH.
      rewrite <- app_assoc. exact IH.
  Qed.

  Lemma pattern_merge n :
    sched_eq (merge ((A :: X) ++ repeat_nat (C :: X) n ++ [A])) (merge (List.concat (repeat B (S n)))).
  Proof.
    assert (E : List.concat (repeat B (S n)) = repeat_nat B (S n)) by apply concat_repeat. rewrite E. cbn [repeat_nat]. unfold B at 1.
    replace ((A :: X ++ [A]) ++ repeat_nat B n) with ((A :: X) ++ [A] ++ repeat_nat B n)
      by (cbn [app]; rewrite <- app_assoc; reflexivity).
    apply pattern_tail.
  Qed.
End Pattern.

(* in terms of the code's tables: first entry a (half step), repeated entry c (its double), palindromic middle X *)
Lemma timed_pattern ds (a c : Z * Z) (X : list (Z * Z)) n :
  snd c = snd a ->
  peqb (nth (Z.to_nat (fst c)) ds []) (padd (nth (Z.to_nat (fst a)) ds []) (nth (Z.to_nat (fst a)) ds [])) = true ->
  sched_eqb (merge (timed ds ((a :: X) ++ repeat_nat (c :: X) n ++ [a])))
            (merge (List.concat (repeat (timed ds (a :: X ++ [a])) (S n)))) = true.
Proof.
  intros Hk Hp. apply sched_eqb_spec. apply peqb_spec in Hp.
  change (a :: X ++ [a]) with ((a :: X) ++ [a]).
  rewrite !timed_app, timed_repeat_nat.
  cbn [timed map]. rewrite Hk.
  apply pattern_merge. exact Hp.
Qed.

Definition trotter_merge_stmt (o : pyorder) : Prop := forall N, 1 <= N ->
  exists ds stepsN steps1,
    time_steps_gen o = Some ds /\ decomposition_gen o N = Some stepsN /\
    decomposition_gen o 1 = Some steps1 /\
    sched_eqb (merge (timed ds stepsN))
              (merge (List.concat (repeat (timed ds steps1) (Z.to_nat N)))) = true.

Ltac merge_case a c X :=
  intros N HN; eexists;
  exists ((a :: X) ++ repeat_nat (c :: X) (Z.to_nat (N - 1)) ++ [a]), (a :: X ++ [a]);
  split; [vm_compute; reflexivity|]; split; [|split];
  [ unfold decomposition_gen; let E := fresh in destruct (N =? 0) eqn:E; [lia|];
    cbn [order_eqb Z.eqb Pos.eqb String.eqb Ascii.eqb Bool.eqb]; unfold list_repeat;
    rewrite <- ?app_assoc; reflexivity
  | reflexivity
  | replace (Z.to_nat N) with (S (Z.to_nat (N - 1))) by lia;
    apply timed_pattern; [reflexivity|vm_compute; reflexivity] ].

Lemma trotter_merge_2 : trotter_merge_stmt (OInt 2).
Proof. unfold trotter_merge_stmt. merge_case (0, 1) (1, 1) [(1, 0)]. Qed.
Lemma trotter_merge_4 : trotter_merge_stmt (OInt 4).
Proof. unfold trotter_merge_stmt.
  merge_case (0, 1) (1, 1) [(1, 0); (1, 1); (1, 0); (2, 1); (3, 0); (2, 1); (1, 0); (1, 1); (1, 0)]. Qed.
Lemma trotter_merge_4opt : trotter_merge_stmt (OStr "4_opt").
Proof. unfold trotter_merge_stmt.
  merge_case (0, 1) (6, 1) [(1, 0); (2, 1); (3, 0); (4, 1); (5, 0); (4, 1); (3, 0); (2, 1); (1, 0)]. Qed.

(* order 1: the schedule IS the repetition, nothing to merge across the seams *)
Lemma trotter_merge_1 : trotter_merge_stmt (OInt 1).
Proof.
  intros N HN. eexists. exists (repeat_nat [(0, 1); (0, 0)] (Z.to_nat N)), [(0, 1); (0, 0)].
  split; [vm_compute; reflexivity|]. split; [|split].
  - unfold decomposition_gen. destruct (N =? 0) eqn:E; [lia|]. reflexivity.
  - reflexivity.
  - apply sched_eqb_spec. rewrite concat_repeat, timed_repeat_nat. apply sched_eq_refl.
Qed.

Lemma trotter_merge_all o : In o orders -> trotter_merge_stmt o.
Proof.
  unfold orders. cbn [In]. intros [<-|[<-|[<-|[<-|[]]]]];
  [apply trotter_merge_1|apply trotter_merge_2|apply trotter_merge_4|apply trotter_merge_4opt].
Qed.
