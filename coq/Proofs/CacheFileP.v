(* Proofs about Model/CacheFile.v: every container of a file system meets the storage contract of Model/Cache.v,
   containers are isolated, close() closes everything below, closed is absorbing (property C20). *)
From TenpyV Require Import Base.Prelude Model.Cache Proofs.CacheP Model.CacheFile.
Open Scope Z_scope.

Lemma lZ_eqb_true_iff a : forall b, lZ_eqb a b = true <-> a = b.
Proof.
  induction a as [|x a IH]; intros [|y b]; cbn [lZ_eqb]; split; intro H; try congruence; try reflexivity.
  - apply andb_true_iff in H. destruct H as [H1 H2]. apply Z.eqb_eq in H1. apply IH in H2. congruence.
  - inversion H; subst. apply andb_true_iff. split; [apply Z.eqb_refl | apply IH; reflexivity].
Qed.
Lemma lZ_eqb_refl a : lZ_eqb a a = true.
Proof. apply lZ_eqb_true_iff. reflexivity. Qed.
Lemma lZ_eqb_neq a b : a <> b -> lZ_eqb a b = false.
Proof. intro H. destruct (lZ_eqb a b) eqn:E; [|reflexivity]. apply lZ_eqb_true_iff in E. contradiction. Qed.

Lemma prefix_b_app p : forall r, prefix_b p (p ++ r) = true.
Proof. induction p as [|x p IH]; intro r; cbn; [reflexivity|]. rewrite Z.eqb_refl. apply IH. Qed.
Lemma prefix_b_refl p : prefix_b p p = true.
Proof. rewrite <- (app_nil_r p) at 2. apply prefix_b_app. Qed.

Lemma fs_find_path q : forall fs c, fs_find q fs = Some c -> fc_path c = q.
Proof.
  induction fs as [|x fs IH]; intros c H; cbn in H; [discriminate|].
  destruct (lZ_eqb (fc_path x) q) eqn:E.
  - inversion H; subst. apply lZ_eqb_true_iff. exact E.
  - apply IH. exact H.
Qed.

Lemma fs_find_map g : (forall c, fc_path (g c) = fc_path c) ->
  forall q fs, fs_find q (map g fs) = option_map g (fs_find q fs).
Proof.
  intros Hg q fs. induction fs as [|x fs IH]; cbn; [reflexivity|].
  rewrite Hg. destruct (lZ_eqb (fc_path x) q); [reflexivity | exact IH].
Qed.

Lemma fs_find_app q c : forall fs,
  fs_find q (fs ++ [c]) = match fs_find q fs with
                          | Some x => Some x
                          | None => if lZ_eqb (fc_path c) q then Some c else None
                          end.
Proof.
  induction fs as [|x fs IH]; cbn; [reflexivity|].
  destruct (lZ_eqb (fc_path x) q); [reflexivity | exact IH].
Qed.

Definition set_files_fn (p : list Z) (f : list (Z * Z) -> list (Z * Z)) (c : fcont) : fcont :=
  if lZ_eqb (fc_path c) p then mkFC (fc_path c) (f (fc_files c)) (fc_opened c) else c.
Definition close_fn (p : list Z) (c : fcont) : fcont :=
  if prefix_b p (fc_path c) then mkFC (fc_path c) (match p with [] => [] | _ => fc_files c end) false else c.

Lemma set_files_fn_path p f c : fc_path (set_files_fn p f c) = fc_path c.
Proof. unfold set_files_fn. destruct (lZ_eqb (fc_path c) p); reflexivity. Qed.
Lemma close_fn_path p c : fc_path (close_fn p c) = fc_path c.
Proof. unfold close_fn. destruct (prefix_b p (fc_path c)); reflexivity. Qed.

Lemma fs_find_set_files q p f fs :
  fs_find q (fs_set_files p f fs) = option_map (set_files_fn p f) (fs_find q fs).
Proof. unfold fs_set_files. apply (fs_find_map (set_files_fn p f)). apply set_files_fn_path. Qed.
Lemma fs_find_close q p fs : fs_find q (fs_close p fs) = option_map (close_fn p) (fs_find q fs).
Proof. unfold fs_close. apply (fs_find_map (close_fn p)). apply close_fn_path. Qed.

Lemma is_open_set_files q p f fs : fs_is_open q (fs_set_files p f fs) = fs_is_open q fs.
Proof.
  unfold fs_is_open. rewrite fs_find_set_files. destruct (fs_find q fs) as [c|]; cbn; [|reflexivity].
  unfold set_files_fn. destruct (lZ_eqb (fc_path c) p); reflexivity.
Qed.
Lemma closed_set_files q p f fs : fs_closed q (fs_set_files p f fs) = fs_closed q fs.
Proof.
  unfold fs_closed. rewrite fs_find_set_files. destruct (fs_find q fs) as [c|]; cbn; [|reflexivity].
  unfold set_files_fn. destruct (lZ_eqb (fc_path c) p); reflexivity.
Qed.
Lemma files_set_files_eq p f fs : fs_is_open p fs = true -> fs_files p (fs_set_files p f fs) = f (fs_files p fs).
Proof.
  unfold fs_is_open, fs_files. rewrite fs_find_set_files. destruct (fs_find p fs) as [c|] eqn:E; [|discriminate].
  intros _. cbn. unfold set_files_fn. rewrite (fs_find_path _ _ _ E), lZ_eqb_refl. reflexivity.
Qed.
Lemma files_set_files_neq q p f fs : q <> p -> fs_files q (fs_set_files p f fs) = fs_files q fs.
Proof.
  intro H. unfold fs_files. rewrite fs_find_set_files. destruct (fs_find q fs) as [c|] eqn:E; [|reflexivity].
  cbn. unfold set_files_fn. rewrite (fs_find_path _ _ _ E), (lZ_eqb_neq _ _ H). reflexivity.
Qed.

Lemma is_open_close q p fs : fs_is_open q (fs_close p fs) = fs_is_open q fs && negb (prefix_b p q).
Proof.
  unfold fs_is_open. rewrite fs_find_close. destruct (fs_find q fs) as [c|] eqn:E; [|reflexivity].
  cbn. unfold close_fn. rewrite (fs_find_path _ _ _ E). destruct (prefix_b p q); cbn.
  - rewrite andb_false_r. reflexivity.
  - rewrite andb_true_r. reflexivity.
Qed.
Lemma closed_close q p fs : fs_closed q fs = true -> fs_closed q (fs_close p fs) = true.
Proof.
  unfold fs_closed. rewrite fs_find_close. destruct (fs_find q fs) as [c|] eqn:E; [|discriminate].
  cbn. unfold close_fn. destruct (prefix_b p (fc_path c)); cbn; auto.
Qed.
Lemma files_close_other q p fs : prefix_b p q = false -> fs_files q (fs_close p fs) = fs_files q fs.
Proof.
  intro H. unfold fs_files. rewrite fs_find_close. destruct (fs_find q fs) as [c|] eqn:E; [|reflexivity].
  cbn. unfold close_fn. rewrite (fs_find_path _ _ _ E), H. reflexivity.
Qed.
Lemma files_close_top q fs : fs_files q (fs_close [] fs) = [].
Proof.
  unfold fs_files. rewrite fs_find_close. destruct (fs_find q fs) as [c|]; reflexivity.
Qed.

(* ---- the steps of an open / a closed target *)
Lemma fs_step_closed fs op : fs_is_open (f_target op) fs = false -> fs_step fs op = (fs, FValueError).
Proof. intro H. unfold fs_step. rewrite H. reflexivity. Qed.
Lemma closed_not_open q fs : fs_closed q fs = true -> fs_is_open q fs = false.
Proof.
  unfold fs_closed, fs_is_open. destruct (fs_find q fs) as [c|]; [|reflexivity].
  destruct (fc_opened c); [discriminate | reflexivity].
Qed.

Lemma step_load_open p k fs : fs_is_open p fs = true ->
  fs_step fs (FLoad p k) = (fs, match d_get k (fs_files p fs) with Some v => FVal v | None => FMissing end).
Proof. intro H. unfold fs_step. cbn [f_target]. rewrite H. reflexivity. Qed.
Lemma step_save_open p k v fs : fs_is_open p fs = true ->
  fs_step fs (FSave p k v) = (fs_set_files p (d_set k v) fs, FNone).
Proof. intro H. unfold fs_step. cbn [f_target]. rewrite H. reflexivity. Qed.
Lemma step_delete_open p k fs : fs_is_open p fs = true ->
  fs_step fs (FDelete p k) = (fs_set_files p (d_del k) fs, FNone).
Proof. intro H. unfold fs_step. cbn [f_target]. rewrite H. reflexivity. Qed.
Lemma step_preload_open p k fs : fs_is_open p fs = true -> fs_step fs (FPreload p k) = (fs, FNone).
Proof. intro H. unfold fs_step. cbn [f_target]. rewrite H. reflexivity. Qed.
Lemma step_close_open p fs : fs_is_open p fs = true -> fs_step fs (FClose p) = (fs_close p fs, FNone).
Proof. intro H. unfold fs_step. cbn [f_target]. rewrite H. reflexivity. Qed.

(* ---- the contract *)
Lemma file_storage_ok : forall p, storage_ok (fs_ops p) (fs_abs p) (fs_inv p).
Proof.
  intro p. unfold storage_ok, fs_inv, fs_abs. cbn [s_load s_save s_delete s_preload fs_ops]. repeat split.
  - rewrite (step_load_open p k s H). cbn [snd]. rewrite H in H0. rewrite H0. reflexivity.
  - rewrite (step_load_open p k s H). exact H.
  - rewrite (step_load_open p k s H). reflexivity.
  - rewrite (step_save_open p k v s H). cbn [fst]. rewrite is_open_set_files. exact H.
  - rewrite (step_save_open p k v s H). cbn [fst]. rewrite is_open_set_files, H.
    rewrite (files_set_files_eq p _ s H). apply d_get_set_eq.
  - intros k' Hk. rewrite (step_save_open p k v s H). cbn [fst]. rewrite is_open_set_files, H.
    rewrite (files_set_files_eq p _ s H). apply d_get_set_neq. exact Hk.
  - rewrite (step_delete_open p k s H). cbn [fst]. rewrite is_open_set_files. exact H.
  - intros k' Hk. rewrite (step_delete_open p k s H). cbn [fst]. rewrite is_open_set_files, H.
    rewrite (files_set_files_eq p _ s H), d_get_del. destruct (k' =? k) eqn:E; [lia | reflexivity].
  - rewrite (step_preload_open p k s H). exact H.
  - rewrite (step_preload_open p k s H). reflexivity.
Qed.

(* a DictCache on an open container of a file system is a dictionary *)
Lemma dictcache_over_file_storage : forall p fs, fs_is_open p fs = true ->
  forall ops, snd (c_run (fs_ops p) (c_empty fs) ops) = snd (d_run [] ops).
Proof.
  intros p fs H ops. exact (dictcache_refines_dict fsys (fs_ops p) (fs_abs p) (fs_inv p) (file_storage_ok p) fs H ops).
Qed.

(* ---- isolation: the operations on container p change neither the content nor the flag of another container *)
Lemma step_other q fs op : q <> f_target op -> (forall p, op <> FClose p) -> (forall p n, op <> FSub p n) ->
  fs_is_open q (fst (fs_step fs op)) = fs_is_open q fs /\
  forall k, fs_abs q (fst (fs_step fs op)) k = fs_abs q fs k.
Proof.
  intros Hq Hc Hs. destruct (fs_is_open (f_target op) fs) eqn:E.
  2:{ rewrite (fs_step_closed fs op E). split; reflexivity. }
  unfold fs_abs. destruct op as [p k|p k v|p k|p k|p n|p]; cbn [f_target] in *.
  - rewrite (step_load_open p k fs E). split; reflexivity.
  - rewrite (step_save_open p k v fs E). cbn [fst]. rewrite is_open_set_files. split; [reflexivity|].
    intro k'. rewrite (files_set_files_neq q p _ fs Hq). reflexivity.
  - rewrite (step_delete_open p k fs E). cbn [fst]. rewrite is_open_set_files. split; [reflexivity|].
    intro k'. rewrite (files_set_files_neq q p _ fs Hq). reflexivity.
  - rewrite (step_preload_open p k fs E). split; reflexivity.
  - exfalso. exact (Hs p n eq_refl).
  - exfalso. exact (Hc p eq_refl).
Qed.

Lemma file_subcontainers_isolated : forall p q fs k v k', q <> p ->
  fs_abs q (s_save (fs_ops p) fs k v) k' = fs_abs q fs k' /\
  fs_abs q (s_delete (fs_ops p) fs k) k' = fs_abs q fs k' /\
  fs_abs q (fst (s_load (fs_ops p) fs k)) k' = fs_abs q fs k' /\
  fs_abs q (s_preload (fs_ops p) fs k) k' = fs_abs q fs k' /\
  fs_is_open q (s_save (fs_ops p) fs k v) = fs_is_open q fs /\
  fs_is_open q (s_delete (fs_ops p) fs k) = fs_is_open q fs /\
  fs_is_open q (fst (s_load (fs_ops p) fs k)) = fs_is_open q fs /\
  fs_is_open q (s_preload (fs_ops p) fs k) = fs_is_open q fs.
Proof.
  intros p q fs k v k' H. cbn [s_load s_save s_delete s_preload fs_ops fst].
  assert (A : forall op, f_target op = p -> (forall p0, op <> FClose p0) -> (forall p0 n, op <> FSub p0 n) ->
              fs_is_open q (fst (fs_step fs op)) = fs_is_open q fs /\ fs_abs q (fst (fs_step fs op)) k' = fs_abs q fs k').
  { intros op Ht Hc Hs. destruct (step_other q fs op) as [A1 A2]; [rewrite Ht; exact H | exact Hc | exact Hs |].
    split; [exact A1 | apply A2]. }
  destruct (A (FSave p k v)) as [S1 S2]; [reflexivity | discriminate | discriminate |].
  destruct (A (FDelete p k)) as [D1 D2]; [reflexivity | discriminate | discriminate |].
  destruct (A (FLoad p k)) as [L1 L2]; [reflexivity | discriminate | discriminate |].
  destruct (A (FPreload p k)) as [P1 P2]; [reflexivity | discriminate | discriminate |].
  repeat split; assumption.
Qed.

(* ---- close() closes the container and everything below it and nothing else *)
Lemma file_close_closes_subcontainers : forall p fs, fs_is_open p fs = true ->
  fs_step fs (FClose p) = (fs_close p fs, FNone) /\
  (forall r, fs_is_open (p ++ r) (fs_close p fs) = false /\
             forall k, fs_abs (p ++ r) (fs_close p fs) k = None /\
                       snd (s_load (fs_ops (p ++ r)) (fs_close p fs) k) = None) /\
  (forall q, prefix_b p q = false ->
             fs_is_open q (fs_close p fs) = fs_is_open q fs /\
             forall k, fs_abs q (fs_close p fs) k = fs_abs q fs k) /\
  (p = [] -> forall q, fs_files q (fs_close p fs) = []).
Proof.
  intros p fs H. split; [apply step_close_open; exact H|]. split; [|split].
  - intro r. assert (C : fs_is_open (p ++ r) (fs_close p fs) = false).
    { rewrite is_open_close, prefix_b_app. apply andb_false_r. }
    split; [exact C|]. intro k. split.
    + unfold fs_abs. rewrite C. reflexivity.
    + cbn [s_load fs_ops snd]. rewrite (fs_step_closed (fs_close p fs) (FLoad (p ++ r) k) C). reflexivity.
  - intros q Hq. assert (C : fs_is_open q (fs_close p fs) = fs_is_open q fs).
    { rewrite is_open_close, Hq. apply andb_true_r. }
    split; [exact C|]. intro k. unfold fs_abs. rewrite C, (files_close_other q p fs Hq). reflexivity.
  - intros -> q. apply files_close_top.
Qed.

(* ---- closed is absorbing *)
Lemma closed_step q fs op : fs_closed q fs = true ->
  fs_closed q (fst (fs_step fs op)) = true /\ (f_target op = q -> snd (fs_step fs op) = FValueError).
Proof.
  intro H. split.
  - destruct (fs_is_open (f_target op) fs) eqn:E.
    2:{ rewrite (fs_step_closed fs op E). exact H. }
    destruct op as [p k|p k v|p k|p k|p n|p]; cbn [f_target] in E.
    + rewrite (step_load_open p k fs E). exact H.
    + rewrite (step_save_open p k v fs E). cbn [fst]. rewrite closed_set_files. exact H.
    + rewrite (step_delete_open p k fs E). cbn [fst]. rewrite closed_set_files. exact H.
    + rewrite (step_preload_open p k fs E). exact H.
    + unfold fs_step. cbn [f_target]. rewrite E. cbn [negb]. destruct (fs_find (p ++ [n]) fs); [exact H|].
      cbn [fst]. unfold fs_closed in *. rewrite fs_find_app. destruct (fs_find q fs); [exact H | discriminate].
    + rewrite (step_close_open p fs E). cbn [fst]. apply closed_close. exact H.
  - intros <-. rewrite (fs_step_closed fs op (closed_not_open _ _ H)). reflexivity.
Qed.

Lemma fs_run_cons fs op t :
  fs_run fs (op :: t) = (fst (fs_run (fst (fs_step fs op)) t), snd (fs_step fs op) :: snd (fs_run (fst (fs_step fs op)) t)).
Proof. cbn [fs_run]. destruct (fs_step fs op) as [fs1 o]. cbn [fst snd]. destruct (fs_run fs1 t). reflexivity. Qed.

Lemma file_closed_forever : forall q ops fs, fs_closed q fs = true ->
  fs_closed q (fst (fs_run fs ops)) = true /\
  Forall2 (fun op o => f_target op = q -> o = FValueError) ops (snd (fs_run fs ops)).
Proof.
  intros q ops. induction ops as [|op t IH]; intros fs H.
  - cbn. split; [exact H | constructor].
  - rewrite fs_run_cons. cbn [fst snd]. destruct (closed_step q fs op H) as [C1 C2].
    destruct (IH _ C1) as [I1 I2]. split; [exact I1 | constructor; assumption].
Qed.
