(* Lemmas about Model/FactorDense2.v (C05): eigenpairs of the assembled eigh / eig result; dense product of factors whose
   blocks are paired through distinct blocks of the inner leg (qr, lq). *)
From TenpyV Require Import Base.Prelude Model.FactorDense Model.FactorDense2 Proofs.FactorDenseP.
Open Scope Z_scope.

Lemma dense_diag_col rs (fm' : sblock -> dmat) es r m e t :
  nth_error es m = Some e -> inblk rs m t = true ->
  dense rs rs (asm (fun m _ => m) (fun m _ => m) (fun _ e => fm' e) 0 es) r t = bval rs rs r t (m, m, fm' e).
Proof.
  intros Hm Ht. unfold dense. rewrite (asm_single _ _ _ _ es 0%nat m e Hm); [reflexivity|].
  intros k' e' Hne _. cbn [Nat.add]. unfold bval.
  destruct (inblk rs k' t) eqn:E; [exfalso; apply Hne; exact (inblk_unique rs k' m t E Ht)|].
  rewrite andb_false_r. reflexivity.
Qed.

Theorem eig_pairs es :
  let rs := inner_sizes es in
  (forall e, In e es -> forall x y, (x < f_n (sb_fac e))%nat -> (y < f_n (sb_fac e))%nat ->
     sumn (f_n (sb_fac e)) (fun b => f_V (sb_fac e) x b * f_U (sb_fac e) b y) = f_U (sb_fac e) x y * f_S (sb_fac e) y) ->
  forall r c, (c < list_sum rs)%nat ->
  sumn (list_sum rs) (fun x => dense rs rs (eig_A es) r x * dense rs rs (eig_V es) x c)
  = dense rs rs (eig_V es) r c * svd_S es c.
Proof.
  intros rs Hp r c Hc. destruct (locate_ex rs c Hc) as [q Hq].
  assert (Lrs : length rs = length es) by (unfold rs, inner_sizes; apply map_length).
  destruct (nth_error es q) as [e|] eqn:He; [|apply nth_error_None in He; apply inblk_lt in Hq; lia].
  pose proof (bsize_inner es q e He) as Bq. fold rs in Bq.
  pose proof Hq as Hq'. apply inblk_iff in Hq'. rewrite Bq in Hq'.
  set (y := (c - boff rs q)%nat).
  assert (Ew : svd_S es c = f_S (sb_fac e) y).
  { replace c with (boff rs q + y)%nat by (unfold y; lia). apply svd_S_at; [exact He|unfold y; lia]. }
  unfold eig_V. rewrite (dense_diag_col rs (fun e => f_U (sb_fac e)) es r q e c He Hq).
  rewrite (sumn_ext _ _ (fun x => if inblk rs q x
     then (if inblk rs q r then f_V (sb_fac e) (r - boff rs q)%nat (x - boff rs q)%nat * f_U (sb_fac e) (x - boff rs q)%nat y else 0)
     else 0)).
  2:{ intros x _. rewrite (dense_diag_col rs (fun e => f_U (sb_fac e)) es x q e c He Hq).
      unfold bval. rewrite Hq, andb_true_r. fold y.
      destruct (inblk rs q x) eqn:Ex; [|lia].
      unfold eig_A. rewrite (dense_diag_col rs (fun e => f_V (sb_fac e)) es r q e x He Ex).
      unfold bval. rewrite Ex, andb_true_r. destruct (inblk rs q r); reflexivity. }
  pose proof (sumn_inblk rs q (fun b => if inblk rs q r then f_V (sb_fac e) (r - boff rs q)%nat b * f_U (sb_fac e) b y else 0)) as SI.
  cbv beta in SI. rewrite SI. clear SI. rewrite Bq.
  unfold bval. rewrite Hq, andb_true_r. fold y. destruct (inblk rs q r) eqn:Er.
  - rewrite Ew. apply inblk_iff in Er. rewrite Bq in Er.
    apply Hp; [apply (nth_error_In _ _ He)|lia|unfold y; lia].
  - rewrite sumn_zero by reflexivity. lia.
Qed.

(* a sector without stored block: A = 0 there, resv keeps the identity, resw keeps 0 *)
Lemma eig_pairs_identity n x y : (x < n)%nat -> (y < n)%nat ->
  sumn n (fun b => (fun _ _ => 0) x b * delta b y) = delta x y * (fun _ : nat => 0) y.
Proof. intros _ _. rewrite sumn_zero by (intros; lia). lia. Qed.

Lemma sumZ_map_add {A} (f g : A -> Z) l : sumZ (map (fun e => f e + g e) l) = sumZ (map f l) + sumZ (map g l).
Proof. induction l as [|x l IH]; cbn [map sumZ]; [reflexivity|]. rewrite IH. lia. Qed.

Lemma sumZ_map_scale {A} c (f : A -> Z) l : c * sumZ (map f l) = sumZ (map (fun e => c * f e) l).
Proof. induction l as [|x l IH]; cbn [map sumZ]; [lia|]. rewrite <- IH. lia. Qed.

Lemma sumn_sumZ {A} n (f : nat -> A -> Z) l :
  sumn n (fun t => sumZ (map (f t) l)) = sumZ (map (fun e => sumn n (fun t => f t e)) l).
Proof.
  induction n as [|n IH]; cbn [sumn].
  - symmetry. apply sumZ_map_zero. reflexivity.
  - rewrite IH, <- sumZ_map_add. reflexivity.
Qed.

Lemma prod_of_sums {A} (key : A -> nat) (u v : A -> Z) l : NoDup (map key l) ->
  (forall e e', In e l -> In e' l -> key e <> key e' -> u e * v e' = 0) ->
  sumZ (map u l) * sumZ (map v l) = sumZ (map (fun e => u e * v e) l).
Proof.
  induction l as [|e0 l IH]; intros ND H; [reflexivity|]. cbn [map] in ND. inversion ND as [|? ? Hni ND']; subst.
  cbn [map sumZ].
  assert (K : forall e, In e l -> key e0 <> key e) by (intros e He E; apply Hni; rewrite E; apply in_map, He).
  assert (Z1 : u e0 * sumZ (map v l) = 0).
  { rewrite sumZ_map_scale. apply sumZ_map_zero. intros e He. apply H; [left; reflexivity|right; exact He|apply K, He]. }
  assert (Z2 : v e0 * sumZ (map u l) = 0).
  { rewrite sumZ_map_scale. apply sumZ_map_zero. intros e He. rewrite Z.mul_comm.
    apply H; [right; exact He|left; reflexivity|]. intros E. apply (K e He). symmetry. exact E. }
  rewrite <- IH; [|exact ND'|intros e e' He He'; apply H; right; assumption].
  replace ((u e0 + sumZ (map u l)) * (v e0 + sumZ (map v l)))
    with (u e0 * v e0 + u e0 * sumZ (map v l) + v e0 * sumZ (map u l) + sumZ (map u l) * sumZ (map v l)) by ring.
  rewrite Z1, Z2. lia.
Qed.

(* blocks of the two factors are paired through distinct blocks of the inner leg: the dense product is the block
   matrix of the per-pair products *)
Theorem matched_product rs ns cs ps r c : NoDup (map p_x ps) ->
  mmul (list_sum ns) (dense rs ns (pairs_L ps)) (dense ns cs (pairs_R ps)) r c = dense rs cs (pairs_prod ns ps) r c.
Proof.
  intros ND. unfold mmul, dense, pairs_L, pairs_R, pairs_prod. rewrite !map_map.
  rewrite (sumn_ext _ _ (fun t => sumZ (map (fun p => bval rs ns r t (p_i p, p_x p, p_A p) * bval ns cs t c (p_x p, p_j p, p_B p)) ps))).
  2:{ intros t _. rewrite !map_map.
      apply (prod_of_sums p_x (fun p => bval rs ns r t (p_i p, p_x p, p_A p)) (fun p => bval ns cs t c (p_x p, p_j p, p_B p))); [exact ND|]. intros e e' _ _ NE. unfold bval.
      destruct (inblk ns (p_x e) t) eqn:E1; [|rewrite andb_false_r; lia].
      destruct (inblk ns (p_x e') t) eqn:E2; [|cbn [andb]; lia].
      exfalso. apply NE. exact (inblk_unique ns _ _ t E1 E2). }
  rewrite (sumn_sumZ (list_sum ns) (fun t p => bval rs ns r t (p_i p, p_x p, p_A p) * bval ns cs t c (p_x p, p_j p, p_B p))).
  f_equal. apply map_ext. intros p. unfold bval.
  rewrite (sumn_ext _ _ (fun t => if inblk ns (p_x p) t
      then (if inblk rs (p_i p) r && inblk cs (p_j p) c
            then p_A p (r - boff rs (p_i p))%nat (t - boff ns (p_x p))%nat * p_B p (t - boff ns (p_x p))%nat (c - boff cs (p_j p))%nat else 0)
      else 0)).
  2:{ intros t _. destruct (inblk ns (p_x p) t), (inblk rs (p_i p) r), (inblk cs (p_j p) c); cbn [andb]; lia. }
  pose proof (sumn_inblk ns (p_x p) (fun b => if inblk rs (p_i p) r && inblk cs (p_j p) c
            then p_A p (r - boff rs (p_i p))%nat b * p_B p b (c - boff cs (p_j p))%nat else 0)) as SI.
  cbv beta in SI. rewrite SI. clear SI.
  destruct (inblk rs (p_i p) r && inblk cs (p_j p) c); [reflexivity|]. apply sumn_zero. reflexivity.
Qed.

(* qr / lq: per-pair exact products give the dense input *)
Theorem matched_reconstruct rs ns cs ps (a : list bent) r c : NoDup (map p_x ps) ->
  Forall2 (fun p (e : bent) => fst (fst e) = p_i p /\ snd (fst e) = p_j p /\
     forall x y, (x < bsize rs (p_i p))%nat -> (y < bsize cs (p_j p))%nat ->
       mmul (bsize ns (p_x p)) (p_A p) (p_B p) x y = snd e x y) ps a ->
  mmul (list_sum ns) (dense rs ns (pairs_L ps)) (dense ns cs (pairs_R ps)) r c = dense rs cs a r c.
Proof.
  intros ND F. rewrite matched_product by exact ND. unfold dense, pairs_prod. rewrite map_map. f_equal.
  clear ND. induction F as [|p [[i j] M] ps a (Ei & Ej & Hm) F IH]; [reflexivity|]. cbn [map]. f_equal; [|exact IH].
  cbn [fst snd] in *. subst i j. unfold bval.
  destruct (inblk rs (p_i p) r) eqn:Er; [|reflexivity]. destruct (inblk cs (p_j p) c) eqn:Ec; [|reflexivity]. cbn [andb].
  apply inblk_iff in Er. apply inblk_iff in Ec. apply Hm; lia.
Qed.
