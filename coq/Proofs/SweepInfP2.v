(* Infinite environments (Model/SweepInf.v): the unit cell of two sites optimised by the two-site engine (L = n = 2, the
   standard iDMRG set-up), which Proofs/SweepInfP.v (n < L) leaves out. *)
From TenpyV Require Import Base.Prelude Model.Sweep Model.SweepInf Proofs.SweepInfP.

Lemma fix_ok_2_2 : fix_ok 2 2.
Proof. unfold fix_ok; split; [|split]; vm_compute; reflexivity. Qed.

Lemma no_stale_inf_2_2 : forall k, no_stale_inf 2 2 k = true.
Proof. exact (all_sweeps_of_fix 2 2 fix_ok_2_2). Qed.
