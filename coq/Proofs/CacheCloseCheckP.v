(* The replay of Model/CacheCloseCheck.v only takes steps of the transition system of Model/CacheClose.v: the state it
   reaches is `cl_run` of the fine-grained schedule it reports (property C20). *)
From TenpyV Require Import Base.Prelude Model.Cache Model.CacheThread Model.CacheClose Model.CacheCloseCheck.
Open Scope Z_scope.

Lemma cl_run_app qmax fail_at a b st : cl_run qmax fail_at (a ++ b) st = cl_run qmax fail_at b (cl_run qmax fail_at a st).
Proof. unfold cl_run. apply fold_left_app. Qed.

Lemma cl_settle_run qmax fail_at : forall fuel st acc st' acc', cl_settle qmax fail_at fuel st acc = (st', acc') ->
  exists sch, acc' = rev sch ++ acc /\ st' = cl_run qmax fail_at sch st.
Proof.
  induction fuel as [|f IH]; intros st acc st' acc' H; cbn [cl_settle] in H.
  - inversion H; subst. exists []. split; reflexivity.
  - destruct (cl_choice qmax st) as [c|].
    + destruct (IH _ _ _ _ H) as [sch [E1 E2]]. exists (c :: sch). split.
      * rewrite E1. cbn [rev]. rewrite <- app_assoc. reflexivity.
      * exact E2.
    + inversion H; subst. exists []. split; reflexivity.
Qed.

Lemma cl_tok_run qmax fail_at st c st' sch e : cl_tok qmax fail_at st c = (st', sch, e) ->
  st' = cl_run qmax fail_at (rev sch) st.
Proof.
  unfold cl_tok. intro H. destruct c.
  - destruct (caller_busy st); [inversion H; subst; reflexivity|].
    destruct (c_prog st) as [|item rest]; [inversion H; subst; reflexivity|].
    destruct (cl_settle qmax fail_at (cl_fuel (cl_step qmax fail_at st true)) (cl_step qmax fail_at st true) [true])
      as [st2 sch2] eqn:E.
    inversion H; subst. destruct (cl_settle_run _ _ _ _ _ _ _ E) as [s [E1 E2]]. subst.
    rewrite rev_app_distr, rev_involutive. reflexivity.
  - destruct (t_status (c_base st)); try (inversion H; subst; reflexivity).
    destruct (cl_settle qmax fail_at (cl_fuel (cl_step qmax fail_at st false)) (cl_step qmax fail_at st false) [false])
      as [st2 sch2] eqn:E.
    inversion H; subst. destruct (cl_settle_run _ _ _ _ _ _ _ E) as [s [E1 E2]]. subst.
    rewrite rev_app_distr, rev_involutive. reflexivity.
Qed.

Lemma cl_replay_is_run : forall qmax fail_at toks st st' fine es,
  cl_replay qmax fail_at st toks = (st', fine, es) -> st' = cl_run qmax fail_at fine st.
Proof.
  intros qmax fail_at. induction toks as [|c t IH]; intros st st' fine es H; cbn [cl_replay] in H.
  - inversion H; subst. reflexivity.
  - destruct (cl_tok qmax fail_at st c) as [[st1 sch] e] eqn:E1.
    destruct (cl_replay qmax fail_at st1 t) as [[st2 fine2] es2] eqn:E2.
    inversion H; subst. rewrite cl_run_app, <- (cl_tok_run _ _ _ _ _ _ _ E1). apply (IH _ _ _ _ E2).
Qed.
