(* Lemmas about Model/Charge.v *)
From TenpyV Require Import Base.Prelude Model.Charge.
Open Scope Z_scope.

Lemma mv1_idem m x : 1 <= m -> mv1 m (mv1 m x) = mv1 m x.
Proof.
  intros Hm. unfold mv1. destruct (m =? 1) eqn:E; [reflexivity|].
  apply Z.mod_mod. lia.
Qed.

Lemma mv1_add m x y : 1 <= m -> mv1 m (x + y) = mv1 m (mv1 m x + mv1 m y).
Proof.
  intros Hm. unfold mv1. destruct (m =? 1) eqn:E; [reflexivity|].
  apply Zplus_mod.
Qed.

Lemma mv1_add_r m x y : 1 <= m -> mv1 m (x + mv1 m y) = mv1 m (x + y).
Proof.
  intros Hm. unfold mv1. destruct (m =? 1) eqn:E; [reflexivity|].
  apply Zplus_mod_idemp_r.
Qed.

Lemma mv1_add_l m x y : 1 <= m -> mv1 m (mv1 m x + y) = mv1 m (x + y).
Proof.
  intros Hm. unfold mv1. destruct (m =? 1) eqn:E; [reflexivity|].
  apply Zplus_mod_idemp_l.
Qed.

Lemma mv1_opp m x : 1 <= m -> mv1 m (- mv1 m x) = mv1 m (- x).
Proof.
  intros Hm. unfold mv1. destruct (m =? 1) eqn:E; [reflexivity|].
  replace (- (x mod m)) with (0 - x mod m) by lia.
  replace (- x) with (0 - x) by lia.
  apply Zminus_mod_idemp_r.
Qed.

Lemma mv1_mul_r m s x : 1 <= m -> mv1 m (s * mv1 m x) = mv1 m (s * x).
Proof.
  intros Hm. unfold mv1. destruct (m =? 1) eqn:E; [reflexivity|].
  apply Zmult_mod_idemp_r.
Qed.

Lemma mv1_congr_add m x x' y y' : 1 <= m -> mv1 m x = mv1 m x' -> mv1 m y = mv1 m y' -> mv1 m (x + y) = mv1 m (x' + y').
Proof.
  intros Hm Hx Hy. rewrite (mv1_add m x y), (mv1_add m x' y') by assumption. rewrite Hx, Hy. reflexivity.
Qed.

Lemma mv1_range m x : 1 < m -> 0 <= mv1 m x < m.
Proof.
  intros Hm. unfold mv1. destruct (m =? 1) eqn:E; [lia|]. apply Z.mod_pos_bound. lia.
Qed.

(* ---- vectors *)
Lemma make_valid_length ci q : length q = length ci -> length (make_valid ci q) = length ci.
Proof.
  revert q. induction ci as [|m ci IH]; intros [|x q] H; cbn in *; try lia. rewrite IH; lia.
Qed.

Lemma make_valid_idem ci q : valid_ci ci -> make_valid ci (make_valid ci q) = make_valid ci q.
Proof.
  intros Hv. revert q. induction Hv as [|m ci Hm _ IH]; intros [|x q]; cbn; try reflexivity.
  rewrite mv1_idem by assumption. f_equal. apply IH.
Qed.

Lemma make_valid_add_r ci a b : valid_ci ci -> make_valid ci (vadd a (make_valid ci b)) = make_valid ci (vadd a b).
Proof.
  intros Hv. revert a b. induction Hv as [|m ci Hm _ IH]; intros [|x a] [|y b]; cbn; try reflexivity.
  rewrite mv1_add_r by assumption. f_equal. apply IH.
Qed.

Lemma make_valid_add_l ci a b : valid_ci ci -> make_valid ci (vadd (make_valid ci a) b) = make_valid ci (vadd a b).
Proof.
  intros Hv. revert a b. induction Hv as [|m ci Hm _ IH]; intros [|x a] [|y b]; cbn; try reflexivity.
  rewrite mv1_add_l by assumption. f_equal. apply IH.
Qed.

Lemma make_valid_neg ci a : valid_ci ci -> make_valid ci (vneg (make_valid ci a)) = make_valid ci (vneg a).
Proof.
  intros Hv. revert a. induction Hv as [|m ci Hm _ IH]; intros [|x a]; cbn; try reflexivity.
  rewrite mv1_opp by assumption. f_equal. apply IH.
Qed.

(* conj twice gives the total charge back *)
Lemma make_valid_neg_neg ci a : valid_ci ci -> make_valid ci (vneg (make_valid ci (vneg a))) = make_valid ci a.
Proof.
  intros Hv. rewrite make_valid_neg by assumption. f_equal. unfold vneg. rewrite map_map.
  rewrite <- (map_id a) at 2. apply map_ext. intros; lia.
Qed.

Lemma nth_make_valid ci q j : (j < length ci)%nat -> (j < length q)%nat ->
  nth j (make_valid ci q) 0 = mv1 (nth j ci 1) (nth j q 0).
Proof.
  revert q j. induction ci as [|m ci IH]; intros [|x q] [|j] H1 H2; cbn in *; try lia; try reflexivity.
  apply IH; lia.
Qed.

Lemma nth_vadd a b j : (j < length a)%nat -> (j < length b)%nat -> nth j (vadd a b) 0 = nth j a 0 + nth j b 0.
Proof.
  revert b j. induction a as [|x a IH]; intros [|y b] [|j] H1 H2; cbn in *; try lia.
  apply IH; lia.
Qed.

Lemma vadd_length a b : length a = length b -> length (vadd a b) = length a.
Proof.
  revert b. induction a as [|x a IH]; intros [|y b] H; cbn in *; try lia. rewrite IH; lia.
Qed.

Lemma nth_vneg a j : nth j (vneg a) 0 = - nth j a 0.
Proof.
  unfold vneg. revert j. induction a as [|x a IH]; intros [|j]; cbn; try reflexivity; try apply IH.
Qed.

Lemma valid_ci_nth ci j : valid_ci ci -> 1 <= nth j ci 1.
Proof.
  intros Hv. revert j. induction Hv as [|m ci Hm _ IH]; intros [|j]; cbn; try lia; try apply IH.
Qed.

Lemma make_valid_laws ci a b : valid_ci ci ->
  make_valid ci (make_valid ci a) = make_valid ci a /\
  make_valid ci (vadd a (make_valid ci b)) = make_valid ci (vadd a b) /\
  make_valid ci (vadd (make_valid ci a) b) = make_valid ci (vadd a b) /\
  make_valid ci (vneg (make_valid ci a)) = make_valid ci (vneg a) /\
  make_valid ci (vneg (make_valid ci (vneg a))) = make_valid ci a.
Proof.
  intros Hv. repeat split.
  - apply make_valid_idem; exact Hv.
  - apply make_valid_add_r; exact Hv.
  - apply make_valid_add_l; exact Hv.
  - apply make_valid_neg; exact Hv.
  - apply make_valid_neg_neg; exact Hv.
Qed.
