(* Lemmas about Model/Corr.v and the _term_to_ops_list model of Model/JW.v. *)
From TenpyV Require Import Base.Prelude Model.JW Model.Corr Proofs.JWP.
Open Scope Z_scope.

Lemma site_word_app l1 l2 k : site_word (l1 ++ l2) k = site_word l1 k ++ site_word l2 k.
Proof. unfold site_word. apply flat_map_app. Qed.

Lemma site_word_range (s : Z -> letter) n : forall a k,
  site_word (map (fun r => (s r, r)) (zrange a n)) k =
  if (a <=? k) && (k <? a + Z.of_nat n) then [s k] else [].
Proof.
  induction n as [|n IH]; intros a k.
  - replace ((a <=? k) && (k <? a + Z.of_nat 0)) with false by lia. reflexivity.
  - cbn [zrange map]. unfold site_word in *. cbn [flat_map snd fst]. rewrite IH.
    destruct (a =? k) eqn:E1.
    + apply Z.eqb_eq in E1. subst k.
      replace ((a + 1 <=? a) && (a <? a + 1 + Z.of_nat n)) with false by lia.
      replace ((a <=? a) && (a <? a + Z.of_nat (S n))) with true by lia. reflexivity.
    + cbn [app].
      destruct ((a + 1 <=? k) && (k <? a + 1 + Z.of_nat n)) eqn:E2;
        destruct ((a <=? k) && (k <? a + Z.of_nat (S n))) eqn:E3; try reflexivity; lia.
Qed.

Lemma site_word_str opstr a b k : a <= b ->
  site_word (str_factors opstr a b) k = if (a <=? k) && (k <? b) then str_word opstr k else [].
Proof.
  intros Hab. unfold str_factors, str_word. destruct opstr as [s|].
  - rewrite site_word_range. rewrite Z2Nat.id by lia. replace (a + (b - a)) with b by lia. reflexivity.
  - cbn. destruct ((a <=? k) && (k <? b)); reflexivity.
Qed.

Ltac zb := repeat match goal with
  | H : (_ =? _) = true |- _ => apply Z.eqb_eq in H
  | H : (_ =? _) = false |- _ => apply Z.eqb_neq in H
  | H : (_ <? _) = true |- _ => apply Z.ltb_lt in H
  | H : (_ <? _) = false |- _ => apply Z.ltb_ge in H
  | H : (_ <=? _) = true |- _ => apply Z.leb_le in H
  | H : (_ <=? _) = false |- _ => apply Z.leb_gt in H
  end.

Lemma corr_order op1 op2 opstr sof i j k :
  corr_words op1 op2 opstr sof i j k = site_word (doc_factors op1 op2 opstr sof i j) k.
Proof.
  unfold corr_words, doc_factors.
  destruct (i <? j) eqn:Eij; [|destruct (j <? i) eqn:Eji].
  - rewrite !site_word_app. rewrite site_word_str by (destruct sof; lia).
    unfold site_word. cbn [flat_map snd fst app]. rewrite !app_nil_r.
    destruct (k =? i) eqn:E1.
    + zb. subst k. rewrite Z.eqb_refl. replace (j =? i) with false by lia. rewrite app_nil_r. cbn [app].
      destruct sof.
      * replace ((i <=? i) && (i <? j)) with true by lia. reflexivity.
      * replace ((i + 1 <=? i) && (i <? j)) with false by lia. reflexivity.
    + replace (i =? k) with false by lia. cbn [app].
      destruct ((i <? k) && (k <? j)) eqn:E2.
      * replace (j =? k) with false by lia. rewrite app_nil_r.
        destruct sof; [replace ((i <=? k) && (k <? j)) with true by lia | replace ((i + 1 <=? k) && (k <? j)) with true by lia];
          reflexivity.
      * destruct (k =? j) eqn:E3.
        -- zb. subst k. rewrite Z.eqb_refl.
           destruct sof; [replace ((i <=? j) && (j <? j)) with false by lia | replace ((i + 1 <=? j) && (j <? j)) with false by lia];
             reflexivity.
        -- replace (j =? k) with false by lia.
           destruct sof; [replace ((i <=? k) && (k <? j)) with false by lia | replace ((i + 1 <=? k) && (k <? j)) with false by lia];
             reflexivity.
  - rewrite !site_word_app. rewrite site_word_str by (destruct sof; lia).
    unfold site_word. cbn [flat_map snd fst app]. rewrite !app_nil_r.
    destruct (k =? j) eqn:E1.
    + zb. subst k. rewrite Z.eqb_refl. replace (i =? j) with false by lia. cbn [app].
      destruct sof.
      * replace ((j <=? j) && (j <? i)) with true by lia. reflexivity.
      * replace ((j + 1 <=? j) && (j <? i)) with false by lia. reflexivity.
    + replace (j =? k) with false by lia. rewrite app_nil_r.
      destruct ((j <? k) && (k <? i)) eqn:E2.
      * replace (i =? k) with false by lia. rewrite app_nil_r.
        destruct sof; [replace ((j <=? k) && (k <? i)) with true by lia | replace ((j + 1 <=? k) && (k <? i)) with true by lia];
          reflexivity.
      * destruct (k =? i) eqn:E3.
        -- zb. subst k. rewrite Z.eqb_refl.
           destruct sof; [replace ((j <=? i) && (i <? i)) with false by lia | replace ((j + 1 <=? i) && (i <? i)) with false by lia];
             reflexivity.
        -- replace (i =? k) with false by lia.
           destruct sof; [replace ((j <=? k) && (k <? i)) with false by lia | replace ((j + 1 <=? k) && (k <? i)) with false by lia];
             reflexivity.
  - assert (i = j) by lia. subst j. unfold site_word. cbn [flat_map snd fst app].
    destruct (k =? i) eqn:E1.
    + zb. subst k. rewrite Z.eqb_refl. reflexivity.
    + replace (i =? k) with false by lia. reflexivity.
Qed.

(* fermionic correlation function: with opstr = JW the contracted words are the Jordan-Wigner product c-type_i c-type_j *)
Lemma corr_fermion a b i j k :
  let cw := corr_words (fun _ => Op a true) (fun _ => Op b true) (Some (fun _ => JWl)) true i j k in
  let pw := phys_word [mkItem a i true; mkItem b j true] k in
  (Z.min i j <= k -> cw = pw) /\ (k < Z.min i j -> cw = [] /\ nf pw = (false, false, [])).
Proof.
  cbv zeta. unfold corr_words, phys_word, phys_letters, str_word. cbn [flat_map it_site it_f it_op andb app].
  rewrite app_nil_r. split.
  - intros Hk.
    destruct (i <? j) eqn:Eij; [|destruct (j <? i) eqn:Eji].
    + destruct (k =? i) eqn:E1.
      * zb. subst k. rewrite Z.eqb_refl. replace (j =? i) with false by lia. replace (i <? j) with true by lia. reflexivity.
      * replace (i =? k) with false by lia.
        destruct ((i <? k) && (k <? j)) eqn:E2.
        -- replace (k <? i) with false by lia. replace (j =? k) with false by lia. replace (k <? j) with true by lia. reflexivity.
        -- destruct (k =? j) eqn:E3.
           ++ zb. subst k. rewrite Z.eqb_refl. replace (j <? i) with false by lia. reflexivity.
           ++ replace (j =? k) with false by lia. replace (k <? i) with false by lia. replace (k <? j) with false by lia. reflexivity.
    + destruct (k =? j) eqn:E1.
      * zb. subst k. rewrite Z.eqb_refl. replace (i =? j) with false by lia. replace (j <? i) with true by lia. reflexivity.
      * replace (j =? k) with false by lia.
        destruct ((j <? k) && (k <? i)) eqn:E2.
        -- replace (i =? k) with false by lia. replace (k <? i) with true by lia. replace (k <? j) with false by lia. reflexivity.
        -- destruct (k =? i) eqn:E3.
           ++ zb. subst k. rewrite Z.eqb_refl. replace (i <? j) with false by lia. reflexivity.
           ++ replace (i =? k) with false by lia. replace (k <? i) with false by lia. replace (k <? j) with false by lia. reflexivity.
    + assert (i = j) by lia. subst j. destruct (k =? i) eqn:E1.
      * zb. subst k. rewrite Z.eqb_refl. reflexivity.
      * replace (i =? k) with false by lia. replace (k <? i) with false by lia. reflexivity.
  - intros Hk. replace (i =? k) with false by lia. replace (j =? k) with false by lia.
    replace (k <? i) with true by lia. replace (k <? j) with true by lia.
    split; [|reflexivity].
    destruct (i <? j) eqn:Eij; [|destruct (j <? i) eqn:Eji].
    + replace (k =? i) with false by lia. replace (i <? k) with false by lia. replace (k =? j) with false by lia. reflexivity.
    + replace (k =? j) with false by lia. replace (j <? k) with false by lia. replace (k =? i) with false by lia. reflexivity.
    + replace (k =? i) with false by lia. reflexivity.
Qed.

(* ---------- _term_to_ops_list ---------- *)
Lemma app_at_length ops : forall j x, length (app_at ops j x) = length ops.
Proof. induction ops as [|w r IH]; intros [|j] x; cbn [app_at length]; try reflexivity. rewrite IH. reflexivity. Qed.

Lemma app_below_length ops : forall j x, length (app_below ops j x) = length ops.
Proof. induction ops as [|w r IH]; intros [|j] x; cbn [app_below length]; try reflexivity. rewrite IH. reflexivity. Qed.

Lemma app_at_nth ops : forall j x m, (m < length ops)%nat ->
  nth m (app_at ops j x) [] = nth m ops [] ++ (if Nat.eqb m j then [x] else []).
Proof.
  induction ops as [|w r IH]; intros j x m Hm; [cbn in Hm; lia|].
  destruct j as [|j], m as [|m]; cbn [app_at nth Nat.eqb]; try (rewrite app_nil_r; reflexivity); try reflexivity.
  apply IH. cbn [length] in Hm. lia.
Qed.

Lemma app_below_nth ops : forall j x m, (m < length ops)%nat ->
  nth m (app_below ops j x) [] = nth m ops [] ++ (if Nat.ltb m j then [x] else []).
Proof.
  induction ops as [|w r IH]; intros j x m Hm; [cbn in Hm; lia|].
  destruct j as [|j], m as [|m]; cbn [app_below nth]; try (rewrite app_nil_r; reflexivity); try reflexivity.
  change (S m <? S j)%nat with (m <? j)%nat. apply IH. cbn [length] in Hm. lia.
Qed.

Lemma tol_fold imin n : forall term ops par, length ops = n ->
  (forall t, In t term -> imin <= it_site t < imin + Z.of_nat n) ->
  let st := fold_left (tol_step true imin) term (ops, par) in
  length (fst st) = n /\
  (forall m, (m < n)%nat -> nth m (fst st) [] = nth m ops [] ++ phys_word term (imin + Z.of_nat m)) /\
  snd st = xorb par (total_parity term).
Proof.
  induction term as [|t r IH]; intros ops par Hl Hin; cbv zeta.
  - cbn [fold_left fst snd total_parity fold_right]. repeat split; [exact Hl | | destruct par; reflexivity].
    intros m _. unfold phys_word. cbn. rewrite app_nil_r. reflexivity.
  - destruct t as [o s f]. cbn [fold_left].
    set (j := Z.to_nat (s - imin)).
    assert (Ht : imin <= s < imin + Z.of_nat n) by (apply (Hin (mkItem o s f)); left; reflexivity).
    set (ops1 := app_at ops j (Op o f)).
    assert (Hl1 : length ops1 = n) by (unfold ops1; rewrite app_at_length; exact Hl).
    assert (Hstep : tol_step true imin (ops, par) (mkItem o s f) = if f then (app_below ops1 j JWl, negb par) else (ops1, par))
      by reflexivity.
    rewrite Hstep. clear Hstep.
    destruct f; cbv beta iota.
    + specialize (IH (app_below ops1 j JWl) (negb par)).
      rewrite app_below_length in IH. specialize (IH Hl1 (fun t' H' => Hin t' (or_intror H'))). cbv zeta in IH.
      destruct IH as (H1 & H2 & H3). repeat split; [exact H1 | |].
      * intros m Hm. rewrite (H2 m Hm). rewrite app_below_nth by lia. unfold ops1. rewrite app_at_nth by lia.
        unfold phys_word. cbn [flat_map]. unfold phys_letters at 2. cbn [it_op it_site it_f andb].
        rewrite <- !app_assoc. f_equal. rewrite app_assoc. f_equal.
        destruct (Nat.eqb m j) eqn:E1.
        -- apply Nat.eqb_eq in E1. replace (s =? imin + Z.of_nat m) with true by (unfold j in E1; lia).
           replace (m <? j)%nat with false by lia. reflexivity.
        -- apply Nat.eqb_neq in E1. replace (s =? imin + Z.of_nat m) with false by (unfold j in E1; lia).
           destruct (m <? j)%nat eqn:E2.
           ++ replace (imin + Z.of_nat m <? s) with true by (unfold j in E2; lia). reflexivity.
           ++ replace (imin + Z.of_nat m <? s) with false by (unfold j in E2, E1; lia). reflexivity.
      * rewrite H3. cbn [total_parity fold_right it_f]. fold (total_parity r). destruct par, (total_parity r); reflexivity.
    + specialize (IH ops1 par Hl1 (fun t' H' => Hin t' (or_intror H'))). cbv zeta in IH.
      destruct IH as (H1 & H2 & H3). repeat split; [exact H1 | |].
      * intros m Hm. rewrite (H2 m Hm). unfold ops1. rewrite app_at_nth by lia.
        unfold phys_word. cbn [flat_map]. unfold phys_letters at 2. cbn [it_op it_site it_f andb].
        rewrite <- !app_assoc. f_equal. f_equal.
        destruct (Nat.eqb m j) eqn:E1.
        -- apply Nat.eqb_eq in E1. replace (s =? imin + Z.of_nat m) with true by (unfold j in E1; lia). reflexivity.
        -- apply Nat.eqb_neq in E1. replace (s =? imin + Z.of_nat m) with false by (unfold j in E1; lia). reflexivity.
      * rewrite H3. cbn [total_parity fold_right it_f]. fold (total_parity r). destruct par, (total_parity r); reflexivity.
Qed.

Lemma min_site_le term : forall d t, In t term -> fold_right (fun t m => Z.min (it_site t) m) d term <= it_site t.
Proof. induction term as [|x r IH]; intros d t Hin; [destruct Hin|]. destruct Hin as [H|H]; cbn [fold_right]; [subst; lia | specialize (IH d t H); lia]. Qed.
Lemma max_site_ge term : forall d t, In t term -> it_site t <= fold_right (fun t m => Z.max (it_site t) m) d term.
Proof. induction term as [|x r IH]; intros d t Hin; [destruct Hin|]. destruct Hin as [H|H]; cbn [fold_right]; [subst; lia | specialize (IH d t H); lia]. Qed.

Lemma nth_map_app (ops : list (list letter)) x m : (m < length ops)%nat ->
  nth m (map (fun w => w ++ [x]) ops) [] = nth m ops [] ++ [x].
Proof.
  revert m. induction ops as [|w r IH]; intros m Hm; [cbn in Hm; lia|].
  destruct m; cbn [map nth]; [reflexivity|]. apply IH. cbn [length] in Hm. lia.
Qed.

(* main statement about _term_to_ops_list(term, autoJW=True, JW_from_right) *)
Lemma term_to_ops_list_spec term jfr : term <> [] ->
  let '(ops, imin, extra) := term_to_ops_list term true jfr in
  let from_right := match jfr with Some b => b | None => total_parity term end in
  imin = min_site term /\
  Z.of_nat (length ops) = max_site term - min_site term + 1 /\
  (forall k, min_site term <= k <= max_site term ->
     nth (Z.to_nat (k - imin)) ops [] = phys_word term k ++ (if from_right then [JWl] else [])) /\
  extra = match jfr with Some b => xorb (total_parity term) b | None => total_parity term end.
Proof.
  intros Hne. unfold term_to_ops_list. cbv beta iota zeta.
  set (imin := min_site term). set (n := Z.to_nat (max_site term - imin + 1)).
  assert (Hb : forall t, In t term -> imin <= it_site t <= max_site term).
  { intros t Ht. split; [apply min_site_le; exact Ht | apply max_site_ge; exact Ht]. }
  assert (Hmm : imin <= max_site term).
  { destruct term as [|t r]; [congruence|]. specialize (Hb t (or_introl eq_refl)). lia. }
  pose proof (tol_fold imin n term (repeat [] n) false (repeat_length _ _)) as HF.
  assert (Hin : forall t, In t term -> imin <= it_site t < imin + Z.of_nat n).
  { intros t Ht. specialize (Hb t Ht). unfold n. lia. }
  specialize (HF Hin). cbv zeta in HF. destruct HF as (H1 & H2 & H3). unfold word in *.
  match type of H1 with length (fst ?S0) = _ => set (st := S0) in * end.
  rewrite xorb_false_l in H3.
  assert (Hnth0 : forall m, (m < n)%nat -> nth m (repeat (@nil letter) n) [] = []).
  { intros m Hm. apply nth_repeat. }
  assert (Hw : forall k, imin <= k <= max_site term ->
            nth (Z.to_nat (k - imin)) (fst st) [] = phys_word term k /\ (Z.to_nat (k - imin) < length (fst st))%nat).
  { intros k Hk. assert (Hm : (Z.to_nat (k - imin) < n)%nat) by (unfold n; lia). split; [|rewrite H1; exact Hm].
    rewrite (H2 _ Hm). rewrite Hnth0 by exact Hm. cbn [app]. f_equal. lia. }
  assert (Hlen : Z.of_nat (length (fst st)) = max_site term - imin + 1) by (rewrite H1; unfold n; lia).
  split; [reflexivity|].
  destruct jfr as [[|]|]; cbv beta iota.
  - split; [rewrite map_length; exact Hlen|]. split; [|rewrite H3; reflexivity].
    intros k Hk. destruct (Hw k Hk) as [Hw1 Hw2]. rewrite nth_map_app by exact Hw2. rewrite Hw1. reflexivity.
  - split; [exact Hlen|]. split; [|rewrite H3; reflexivity].
    intros k Hk. destruct (Hw k Hk) as [Hw1 Hw2]. rewrite Hw1, app_nil_r. reflexivity.
  - rewrite H3. destruct (total_parity term); cbv beta iota.
    + split; [rewrite map_length; exact Hlen|]. split; [|reflexivity].
      intros k Hk. destruct (Hw k Hk) as [Hw1 Hw2]. rewrite nth_map_app by exact Hw2. rewrite Hw1. reflexivity.
    + split; [exact Hlen|]. split; [|reflexivity].
      intros k Hk. destruct (Hw k Hk) as [Hw1 Hw2]. rewrite Hw1, app_nil_r. reflexivity.
Qed.

(* ---------- further statements of Props/C08.v ---------- *)
Lemma no_string_left_of_term : forall term k, total_parity term = false ->
  (forall t, In t term -> k < it_site t) -> nf (phys_word term k) = (false, false, []).
Proof.
  intros term k Hp Hk. rewrite nf_phys.
  assert (H : forall r, (forall t, In t r -> k < it_site t) -> sgn_at r k = false /\ jw_gt r k = total_parity r /\ ops_at r k = []).
  { induction r as [|t r IH]; intros Hr; [repeat split|].
    destruct (IH (fun t' H' => Hr t' (or_intror H'))) as (H1 & H2 & H3).
    pose proof (Hr t (or_introl eq_refl)) as Ht.
    unfold ops_at in *. cbn [sgn_at jw_gt filter total_parity fold_right]. fold (total_parity r).
    replace (it_site t =? k) with false by lia. replace (k <? it_site t) with true by lia.
    unfold ops_at. rewrite H1, H2, H3. cbn [map odd_count]. rewrite !andb_false_r, andb_true_r. repeat split. }
  destruct (H term Hk) as (H1 & H2 & H3). rewrite H1, H2, H3, Hp. reflexivity.
Qed.

Lemma auto_opstr_spec : forall need sof,
  (forallb (fun b => negb b) need = true -> auto_opstr need sof = Some None) /\
  (need <> [] -> forallb (fun b => b) need = true -> sof = true -> exists s, auto_opstr need sof = Some (Some s) /\ forall k, s k = JWl).
Proof.
  intros need sof. split.
  - intros H. unfold auto_opstr. replace (existsb (fun b => b) need) with false; [reflexivity|].
    induction need as [|b r IH]; [reflexivity|]. cbn [forallb existsb] in *. apply andb_prop in H. destruct H as [H1 H2].
    destruct b; [discriminate|]. cbn [orb]. apply IH. exact H2.
  - intros Hne H ->. unfold auto_opstr. rewrite H.
    destruct need as [|b r]; [congruence|]. cbn [forallb] in H. apply andb_prop in H. destruct H as [H1 _]. rewrite H1.
    cbn [existsb orb]. eexists. split; [reflexivity | intros k; reflexivity].
Qed.

Lemma hermitian_only_equal_sites : forall flag s1 s2, use_hermitian flag s1 s2 = true -> flag = true /\ s1 = s2.
Proof.
  intros flag s1 s2 H. unfold use_hermitian in H. apply andb_prop in H. destruct H as [H1 H2]. split; [exact H1|].
  revert s2 H2. induction s1 as [|x r IH]; intros [|y r2] H2; cbn [zlist_eqb] in H2; try discriminate; [reflexivity|].
  apply andb_prop in H2. destruct H2 as [Hx Hr]. f_equal; [lia | apply IH; exact Hr].
Qed.
