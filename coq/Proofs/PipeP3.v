(* C06, last layout clause of q_map: within one outgoing block (equal I_s) the rows are ordered
   lexicographically (strictly) by the incoming block tuple; rows are ordered by I_s.
   Route: the C-order grid is strictly lexsorted; the stable insertion sort of Model/Pipe.v keeps the
   relative order of rows with equal charge; rows of one outgoing block have equal charge. *)
From TenpyV Require Import Base.Prelude Model.ChargeL Model.Leg Model.Pipe Model.PipeMaps
  Proofs.LegP Proofs.PipeP Proofs.PipeP2.
Open Scope Z_scope.

(* strict lexicographic order of block tuples (first leg most significant), as np.lexsort(q_map[:, 3:].T[::-1]) *)
Fixpoint lex_lt (a b : list nat) : Prop :=
  match a, b with
  | x :: a', y :: b' => (x < y)%nat \/ (x = y /\ lex_lt a' b')
  | _, _ => False
  end.
Fixpoint lex_ltb (a b : list nat) : bool :=
  match a, b with
  | x :: a', y :: b' => Nat.ltb x y || (Nat.eqb x y && lex_ltb a' b')
  | _, _ => false
  end.

Lemma lex_ltb_spec a : forall b, lex_ltb a b = true <-> lex_lt a b.
Proof.
  induction a as [|x a IH]; intros [|y b]; cbn [lex_ltb lex_lt]; try (split; [discriminate|intros []]).
  rewrite orb_true_iff, andb_true_iff, Nat.ltb_lt, Nat.eqb_eq, IH. reflexivity.
Qed.

Lemma lex_lt_irrefl a : ~ lex_lt a a.
Proof. induction a as [|x a IH]; cbn [lex_lt]; [tauto|]. intros [H|[_ H]]; [lia|exact (IH H)]. Qed.

Lemma lex_lt_trans a : forall b c, lex_lt a b -> lex_lt b c -> lex_lt a c.
Proof.
  induction a as [|x a IH]; intros [|y b] [|z c]; cbn [lex_lt]; try tauto.
  intros [H1|[H1 H1']] [H2|[H2 H2']]; try (left; lia). right. split; [lia|]. eapply IH; eassumption.
Qed.

(* ---------------------------------------------------------------- generic facts on StronglySorted *)
Section SS.
  Context {A : Type} (R : A -> A -> Prop).

  Lemma ss_app (a b : list A) : StronglySorted R a -> StronglySorted R b ->
    (forall x y, In x a -> In y b -> R x y) -> StronglySorted R (a ++ b).
  Proof.
    induction 1 as [|x a Ha IH Hx]; intros Hb Hab; [exact Hb|]. cbn [app]. constructor.
    - apply IH; [exact Hb|]. intros u v Hu Hv. apply Hab; [right; exact Hu|exact Hv].
    - apply Forall_app. split; [exact Hx|]. apply Forall_forall. intros y Hy. apply Hab; [left; reflexivity|exact Hy].
  Qed.

  Lemma ss_nth (l : list A) d : StronglySorted R l -> forall i j, (i < j)%nat -> (j < length l)%nat ->
    R (nth i l d) (nth j l d).
  Proof.
    induction 1 as [|x l Hl IH Hx]; intros i j Hij Hj; cbn [length] in Hj; [lia|].
    destruct j as [|j]; [lia|]. destruct i as [|i]; cbn [nth].
    - rewrite Forall_forall in Hx. apply Hx, nth_In. lia.
    - apply IH; lia.
  Qed.

  Lemma nth_ss (l : list A) d :
    (forall i j, (i < j)%nat -> (j < length l)%nat -> R (nth i l d) (nth j l d)) -> StronglySorted R l.
  Proof.
    induction l as [|x l IH]; intros H; constructor.
    - apply IH. intros i j Hij Hj. apply (H (S i) (S j)); cbn [length]; lia.
    - apply Forall_forall. intros y Hy. destruct (In_nth _ _ d Hy) as (k & Hk & <-).
      apply (H 0%nat (S k)); cbn [length]; lia.
  Qed.

  Lemma ss_filter (f : A -> bool) (l : list A) : StronglySorted R l -> StronglySorted R (filter f l).
  Proof.
    induction 1 as [|x l Hl IH Hx]; cbn [filter]; [constructor|]. destruct (f x); [|exact IH].
    constructor; [exact IH|]. rewrite Forall_forall in *. intros y Hy. apply filter_In in Hy. apply Hx, Hy.
  Qed.

  Lemma ss_perm_forall (x : A) (l l' : list A) : Permutation l l' -> Forall (R x) l -> Forall (R x) l'.
  Proof.
    intros P H. rewrite Forall_forall in *. intros y Hy. apply H. eapply Permutation_in; [apply Permutation_sym, P|exact Hy].
  Qed.
End SS.

Lemma ss_map {A B} (R : A -> A -> Prop) (Q : B -> B -> Prop) (f : A -> B) l :
  (forall x y, R x y -> Q (f x) (f y)) -> StronglySorted R l -> StronglySorted Q (map f l).
Proof.
  intros H. induction 1 as [|x l Hl IH Hx]; cbn [map]; constructor; [exact IH|].
  rewrite Forall_forall in *. intros y Hy. apply in_map_iff in Hy. destruct Hy as (z & <- & Hz). apply H, Hx, Hz.
Qed.

Lemma ss_weaken {A} (R Q : A -> A -> Prop) l : (forall x y, R x y -> Q x y) -> StronglySorted R l -> StronglySorted Q l.
Proof. intros H S0. rewrite <- (map_id l). eapply ss_map; [|exact S0]. exact H. Qed.

(* ---------------------------------------------------------------- the C-order grid is strictly lexsorted *)
Lemma grid_lexsorted shape : StronglySorted lex_lt (grid shape).
Proof.
  induction shape as [|n t IH]; cbn [grid]; [repeat constructor|].
  generalize 0%nat. induction n as [|n IHn]; intros s; cbn [seq flat_map]; [constructor|].
  apply ss_app.
  - eapply ss_map; [|exact IH]. intros x y Hxy. cbn [lex_lt]. right. split; [reflexivity|exact Hxy].
  - apply IHn.
  - intros x y Hx Hy. apply in_map_iff in Hx. destruct Hx as (x0 & <- & _).
    apply in_flat_map in Hy. destruct Hy as (i & Hi & Hy). apply in_seq in Hi.
    apply in_map_iff in Hy. destruct Hy as (y0 & <- & _). cbn [lex_lt]. left. lia.
Qed.

(* ---------------------------------------------------------------- stability of the sort *)
(* rows with equal charge appear in lexicographic order of their block tuples *)
Definition rstable (x y : row) : Prop := r_ch x = r_ch y -> lex_lt (r_q x) (r_q y).

Lemma key_leb_refl a : key_leb a a = true.
Proof. destruct (key_leb a a) eqn:E; [reflexivity|]. pose proof (key_leb_total _ _ E) as E'. congruence. Qed.

Lemma rinsert_stable x l : Forall (rstable x) l -> StronglySorted rstable l -> StronglySorted rstable (rinsert x l).
Proof.
  intros Hx Hl. revert Hx. induction Hl as [|y t Ht IH Hy]; intros Hx; cbn [rinsert]; [repeat constructor|].
  destruct (key_leb (r_ch x) (r_ch y)) eqn:E.
  - constructor; [constructor; assumption|exact Hx].
  - inversion Hx as [|? ? Hxy Hxt]; subst. constructor; [apply IH, Hxt|].
    eapply ss_perm_forall; [apply Permutation_sym, rinsert_perm|]. constructor; [|exact Hy].
    intros Heq. rewrite Heq, key_leb_refl in E. discriminate.
Qed.

Lemma rsort_stable l : StronglySorted rstable l -> StronglySorted rstable (rsort l).
Proof.
  induction 1 as [|x t Ht IH Hx]; [constructor|]. cbn [rsort fold_right]. apply rinsert_stable; [|exact IH].
  eapply ss_perm_forall; [apply Permutation_sym, rsort_perm|exact Hx].
Qed.

Lemma rows0_stable ci legs qconj : StronglySorted rstable (rows0 ci legs qconj).
Proof.
  unfold rows0. eapply ss_map; [|apply grid_lexsorted]. intros x y Hxy _. exact Hxy.
Qed.

Lemma pipe_rows_stable ci legs qconj srt : StronglySorted rstable (pipe_rows ci legs qconj srt).
Proof.
  unfold pipe_rows. destruct (srt && negb (Nat.eqb (length ci) 0)); [apply rsort_stable|]; apply rows0_stable.
Qed.

(* without sort the rows are the grid itself: strictly lexsorted as a whole *)
Lemma pipe_rows_unsorted_lex ci legs qconj : StronglySorted lex_lt (map r_q (pipe_rows ci legs qconj false)).
Proof. unfold pipe_rows. cbn [andb]. rewrite rows0_q. apply grid_lexsorted. Qed.

(* ---------------------------------------------------------------- I_s is nondecreasing along q_map *)
Lemma tag_from_ge gs : forall I0 x, In x (tag_from I0 gs) -> (I0 <= x)%nat.
Proof.
  induction gs as [|g gs IH]; intros I0 x H; cbn [tag_from] in H; [destruct H|].
  apply in_app_or in H. destruct H as [H|H]; [apply repeat_spec in H; lia|]. apply IH in H. lia.
Qed.

Lemma tag_from_sorted gs : forall I0, StronglySorted le (tag_from I0 gs).
Proof.
  induction gs as [|g gs IH]; intros I0; cbn [tag_from]; [constructor|]. apply ss_app; [|apply IH|].
  - generalize (length g). intros n. induction n as [|n IHn]; cbn [repeat]; constructor; [exact IHn|].
    apply Forall_forall. intros y Hy. apply repeat_spec in Hy. lia.
  - intros x y Hx Hy. apply repeat_spec in Hx. apply tag_from_ge in Hy. lia.
Qed.

(* ---------------------------------------------------------------- the theorem *)
Definition qrow0 : qrow := mkQ 0 0 O [].

Lemma qmap_nth ci legs qconj srt bun j :
  let p := pipe_init ci legs qconj srt bun in
  (j < length (p_rows p))%nat ->
  q_q (nth j (p_qmap p) qrow0) = r_q (nth j (p_rows p) row0) /\
  q_Is (nth j (p_qmap p) qrow0) = nth j (tag_from 0 (group_rows bun (p_rows p))) O.
Proof.
  cbv zeta. unfold pipe_init. cbn [p_rows p_qmap]. intros Hj. unfold qrow0.
  rewrite nth_map_seq by exact Hj. cbn [q_q q_Is]. split; reflexivity.
Qed.

Lemma qmap_length ci legs qconj srt bun :
  length (p_qmap (pipe_init ci legs qconj srt bun)) = length (p_rows (pipe_init ci legs qconj srt bun)).
Proof. unfold pipe_init. cbn [p_qmap p_rows]. rewrite map_length, seq_length. reflexivity. Qed.

Theorem qmap_rows_lexsorted ci legs qconj srt bun :
  let p := pipe_init ci legs qconj srt bun in
  (forall i j, (i < j)%nat -> (j < length (p_qmap p))%nat ->
     let qi := nth i (p_qmap p) qrow0 in
     let qj := nth j (p_qmap p) qrow0 in
     (q_Is qi <= q_Is qj)%nat /\ (q_Is qi = q_Is qj -> lex_lt (q_q qi) (q_q qj))) /\
  (forall I, StronglySorted lex_lt (map q_q (qmap_rows_of p I))).
Proof.
  intros p.
  assert (M : forall i j, (i < j)%nat -> (j < length (p_qmap p))%nat ->
     (q_Is (nth i (p_qmap p) qrow0) <= q_Is (nth j (p_qmap p) qrow0))%nat /\
     (q_Is (nth i (p_qmap p) qrow0) = q_Is (nth j (p_qmap p) qrow0) ->
      lex_lt (q_q (nth i (p_qmap p) qrow0)) (q_q (nth j (p_qmap p) qrow0)))).
  { intros i j Hij Hj. unfold p in *. rewrite qmap_length in Hj.
    destruct (qmap_nth ci legs qconj srt bun i ltac:(lia)) as [Qi Ti].
    destruct (qmap_nth ci legs qconj srt bun j Hj) as [Qj Tj]. split.
    - rewrite Ti, Tj. apply (ss_nth le _ O (tag_from_sorted _ 0%nat)); [exact Hij|].
      rewrite tag_from_length, group_concat. exact Hj.
    - intros HI. rewrite Qi, Qj.
      pose proof (qmap_block_charge ci legs qconj srt bun i ltac:(lia)) as Ci.
      pose proof (qmap_block_charge ci legs qconj srt bun j Hj) as Cj. cbv zeta in Ci, Cj.
      fold qrow0 in Ci, Cj. rewrite HI, Cj in Ci.
      cbn [pipe_init p_rows] in *.
      apply (ss_nth rstable _ row0 (pipe_rows_stable ci legs qconj srt) i j Hij Hj). symmetry. exact Ci. }
  split; [exact M|]. intros I. unfold qmap_rows_of.
  eapply ss_map with (R := fun a b => lex_lt (q_q a) (q_q b)); [intros x y H; exact H|].
  assert (S1 : StronglySorted (fun a b => q_Is a = q_Is b -> lex_lt (q_q a) (q_q b)) (p_qmap p)).
  { apply (nth_ss _ _ qrow0). intros i j Hij Hj. apply M; assumption. }
  apply (ss_filter _ (fun qr => Nat.eqb (q_Is qr) I)) in S1.
  revert S1. generalize (fun a => @filter_In _ (fun qr => Nat.eqb (q_Is qr) I) a (p_qmap p)).
  generalize (filter (fun qr => Nat.eqb (q_Is qr) I) (p_qmap p)). intros l Hin S1.
  assert (F : Forall (fun qr => q_Is qr = I) l).
  { apply Forall_forall. intros a Ha. apply Hin in Ha. destruct Ha as [_ Ha]. apply Nat.eqb_eq. exact Ha. }
  clear Hin. induction S1 as [|x l Hl IH Hx]; constructor.
  - apply IH. inversion F; assumption.
  - inversion F as [|? ? Fx Fl]; subst. rewrite Forall_forall in *. intros y Hy.
    apply Hx; [exact Hy|]. rewrite (Fl y Hy). reflexivity.
Qed.
