(* Proofs about Model/SwapSign.v: the sign table of MPS.swap_sites(swap_op='auto'). *)
From TenpyV Require Import Base.Prelude Model.Perms Proofs.PermsP Model.SwapSign.
Open Scope Z_scope.

Lemma n_i_length jwL jwR : length (n_i jwL jwR) = (length jwL * length jwR)%nat.
Proof.
  unfold n_i. induction jwL as [|x jwL IH]; cbn [flat_map length]; [reflexivity|].
  rewrite app_length, map_length, IH. lia.
Qed.

Lemma combine_const_mul x (l : list Z) :
  map (fun p : Z * Z => fst p * snd p) (combine (map (fun _ => x) l) l) = map (fun y => x * y) l.
Proof. induction l as [|z l IHl]; cbn [map combine fst snd]; [reflexivity|]. rewrite IHl. reflexivity. Qed.

Lemma n_prod_cons x jwL jwR : n_prod (x :: jwL) jwR = map (fun y => x * y) jwR ++ n_prod jwL jwR.
Proof.
  unfold n_prod, n_i, n_j. cbn [flat_map].
  rewrite combine_app_eq by (rewrite map_length; reflexivity).
  rewrite map_app, combine_const_mul. reflexivity.
Qed.

Lemma swap_diag_cons x jwL jwR :
  swap_diag (x :: jwL) jwR = map (fun y => pow_m1 (x * y)) jwR ++ swap_diag jwL jwR.
Proof. unfold swap_diag. rewrite n_prod_cons, map_app, map_map. reflexivity. Qed.

Lemma swap_diag_length jwL jwR : length (swap_diag jwL jwR) = (length jwL * length jwR)%nat.
Proof.
  induction jwL as [|x jwL IH]; [reflexivity|].
  rewrite swap_diag_cons, app_length, map_length, IH. cbn [length]. lia.
Qed.

Lemma pow_m1_mul x y : pow_m1 (x * y) = if Z.odd x && Z.odd y then -1 else 1.
Proof. unfold pow_m1. rewrite Z.odd_mul. reflexivity. Qed.

Lemma swap_diag_nth jwL jwR : forall a b, (a < length jwL)%nat -> (b < length jwR)%nat ->
  nth (a * length jwR + b) (swap_diag jwL jwR) 0 = sign_ab jwL jwR a b.
Proof.
  induction jwL as [|x jwL IH]; intros a b Ha Hb; [cbn [length] in Ha; lia|].
  rewrite swap_diag_cons. destruct a as [|a].
  - cbn [Nat.mul Nat.add]. rewrite app_nth1 by (rewrite map_length; exact Hb).
    rewrite (nth_indep _ 0 (pow_m1 (x * 0))) by (rewrite map_length; exact Hb).
    rewrite (map_nth (fun y => pow_m1 (x * y)) jwR 0 b).
    rewrite pow_m1_mul. unfold sign_ab. cbn [nth]. reflexivity.
  - cbn [length] in Ha.
    replace (Datatypes.S a * length jwR + b)%nat with (length jwR + (a * length jwR + b))%nat by lia.
    rewrite app_nth2 by (rewrite map_length; lia).
    rewrite map_length.
    replace (length jwR + (a * length jwR + b) - length jwR)%nat with (a * length jwR + b)%nat by lia.
    rewrite IH by lia. unfold sign_ab. cbn [nth]. reflexivity.
Qed.

(* every index of the diagonal is of the form a*dR+b *)
Lemma index_split dL dR k : (k < dL * dR)%nat ->
  exists a b, (a < dL)%nat /\ (b < dR)%nat /\ k = (a * dR + b)%nat.
Proof.
  intros Hk. assert (HdR : (dR <> 0)%nat) by (intros ->; lia).
  exists (k / dR)%nat, (k mod dR)%nat. split; [|split].
  - apply Nat.div_lt_upper_bound; [exact HdR|]. rewrite Nat.mul_comm. exact Hk.
  - apply Nat.mod_upper_bound. exact HdR.
  - rewrite (Nat.div_mod k dR HdR) at 1. lia.
Qed.

Lemma index_unique dR a b a' b' : (b < dR)%nat -> (b' < dR)%nat ->
  (a * dR + b = a' * dR + b')%nat -> a = a' /\ b = b'.
Proof.
  intros Hb Hb' H.
  destruct (Nat.lt_trichotomy a a') as [H1|[H1|H1]].
  - assert (H2 : ((a + 1) * dR <= a' * dR)%nat) by (apply Nat.mul_le_mono_r; lia). lia.
  - subst a'. split; [reflexivity|lia].
  - assert (H2 : ((a' + 1) * dR <= a * dR)%nat) by (apply Nat.mul_le_mono_r; lia). lia.
Qed.

(* ---- Fock space sign *)
Lemma countb_repeat_gt x y n : countb (fun z => (z <? x)%nat) (repeat y n) = if (y <? x)%nat then n else 0%nat.
Proof.
  induction n as [|n IH]; cbn [repeat countb]; [destruct (y <? x)%nat; reflexivity|].
  rewrite IH. destruct (y <? x)%nat; lia.
Qed.

Lemma ginv_repeat_zero n : ginv (fun x y => (y <? x)%nat) (repeat 0%nat n) = 0%nat.
Proof.
  induction n as [|n IH]; cbn [repeat ginv]; [reflexivity|].
  rewrite IH, countb_repeat_gt. reflexivity.
Qed.

Lemma exchange_inversions na nb : ginv (fun x y => (y <? x)%nat) (exchange_word na nb) = (na * nb)%nat.
Proof.
  unfold exchange_word. induction na as [|na IH]; cbn [repeat app].
  - apply ginv_repeat_zero.
  - cbn [ginv]. rewrite IH, countb_app, !countb_repeat_gt. cbn. lia.
Qed.

Lemma odd_of_nat n : Z.odd (Z.of_nat n) = Nat.odd n.
Proof.
  assert (H : Z.odd (Z.of_nat n) = Nat.odd n /\ Z.even (Z.of_nat n) = Nat.even n).
  { induction n as [|n [IHo IHe]]; [split; reflexivity|].
    rewrite Nat2Z.inj_succ, Z.odd_succ, Z.even_succ, Nat.odd_succ, Nat.even_succ. split; assumption. }
  exact (proj1 H).
Qed.

Lemma fock_exchange_sign_spec na nb :
  fock_exchange_sign na nb = if Nat.odd na && Nat.odd nb then -1 else 1.
Proof.
  unfold fock_exchange_sign. rewrite exchange_inversions, Nat2Z.inj_mul, pow_m1_mul, !odd_of_nat. reflexivity.
Qed.

(* ---- the table *)
Lemma sign_ab_m1 jwL jwR a b :
  sign_ab jwL jwR a b = -1 <-> Z.odd (nth a jwL 0) = true /\ Z.odd (nth b jwR 0) = true.
Proof.
  unfold sign_ab. destruct (Z.odd (nth a jwL 0)), (Z.odd (nth b jwR 0)); cbn [andb];
    (split; [intros H; first [split; reflexivity | discriminate H] | intros [H1 H2]; first [reflexivity | discriminate]]).
Qed.

Lemma swap_entry_fock jwL jwR a b na nb : (a < length jwL)%nat -> (b < length jwR)%nat ->
  Nat.odd na = Z.odd (nth a jwL 0) -> Nat.odd nb = Z.odd (nth b jwR 0) ->
  nth (a * length jwR + b) (swap_diag jwL jwR) 0 = fock_exchange_sign na nb.
Proof.
  intros Ha Hb Hna Hnb. rewrite swap_diag_nth by assumption.
  rewrite fock_exchange_sign_spec, Hna, Hnb. reflexivity.
Qed.

Lemma swap_diag_identity_iff jwL jwR :
  Forall (fun x => x = 1) (swap_diag jwL jwR) <-> no_odd_pair jwL jwR.
Proof.
  split.
  - intros HF a b Ha Hb.
    assert (Hk : (a * length jwR + b < length (swap_diag jwL jwR))%nat) by (rewrite swap_diag_length; nia).
    rewrite Forall_forall in HF. specialize (HF _ (nth_In _ 0 Hk)).
    rewrite swap_diag_nth in HF by assumption. unfold sign_ab in HF.
    destruct (Z.odd (nth a jwL 0) && Z.odd (nth b jwR 0)); [discriminate|reflexivity].
  - intros Hno. apply Forall_forall. intros x Hx.
    destruct (In_nth _ _ 0 Hx) as [k [Hk Hnth]]. rewrite swap_diag_length in Hk.
    destruct (index_split _ _ _ Hk) as [a [b [Ha [Hb ->]]]].
    rewrite swap_diag_nth in Hnth by assumption. unfold sign_ab in Hnth.
    rewrite (Hno a b Ha Hb) in Hnth. symmetry. exact Hnth.
Qed.

Lemma n_prod_nth jwL jwR : forall a b, (a < length jwL)%nat -> (b < length jwR)%nat ->
  nth (a * length jwR + b) (n_prod jwL jwR) 0 = nth a jwL 0 * nth b jwR 0.
Proof.
  induction jwL as [|x jwL IH]; intros a b Ha Hb; [cbn [length] in Ha; lia|].
  rewrite n_prod_cons. destruct a as [|a].
  - cbn [Nat.mul Nat.add]. rewrite app_nth1 by (rewrite map_length; exact Hb).
    rewrite (nth_indep _ 0 (x * 0)) by (rewrite map_length; exact Hb).
    rewrite (map_nth (fun y => x * y) jwR 0 b). reflexivity.
  - cbn [length] in Ha.
    replace (Datatypes.S a * length jwR + b)%nat with (length jwR + (a * length jwR + b))%nat by lia.
    rewrite app_nth2 by (rewrite map_length; lia).
    rewrite map_length.
    replace (length jwR + (a * length jwR + b) - length jwR)%nat with (a * length jwR + b)%nat by lia.
    rewrite IH by lia. reflexivity.
Qed.

Lemma n_prod_length jwL jwR : length (n_prod jwL jwR) = (length jwL * length jwR)%nat.
Proof. rewrite <- swap_diag_length. unfold swap_diag. rewrite map_length. reflexivity. Qed.

(* np.any(...) is False  <->  all products vanish *)
Lemma np_any_false_iff jwL jwR :
  np_any (n_prod jwL jwR) = false <->
  (forall a b, (a < length jwL)%nat -> (b < length jwR)%nat -> nth a jwL 0 * nth b jwR 0 = 0).
Proof.
  unfold np_any. split.
  - intros HE a b Ha Hb.
    assert (Hk : (a * length jwR + b < length (n_prod jwL jwR))%nat) by (rewrite n_prod_length; nia).
    destruct (nth a jwL 0 * nth b jwR 0 =? 0) eqn:E; [lia|].
    assert (HT : existsb (fun x => negb (x =? 0)) (n_prod jwL jwR) = true).
    { apply existsb_exists. exists (nth (a * length jwR + b) (n_prod jwL jwR) 0). split; [apply nth_In; exact Hk|].
      rewrite n_prod_nth by assumption. rewrite E. reflexivity. }
    rewrite HT in HE. discriminate.
  - intros H0. destruct (existsb (fun x => negb (x =? 0)) (n_prod jwL jwR)) eqn:E; [|reflexivity].
    apply existsb_exists in E. destruct E as [x [Hx Hne]].
    destruct (In_nth _ _ 0 Hx) as [k [Hk Hnth]]. rewrite n_prod_length in Hk.
    destruct (index_split _ _ _ Hk) as [a [b [Ha [Hb ->]]]].
    rewrite n_prod_nth in Hnth by assumption. rewrite (H0 a b Ha Hb) in Hnth. subst x. discriminate.
Qed.

Lemma is_parity_nth jw a : is_parity jw -> nth a jw 0 = 0 \/ nth a jw 0 = 1.
Proof.
  intros H. destruct (Nat.lt_ge_cases a (length jw)) as [Ha|Ha].
  - unfold is_parity in H. rewrite Forall_forall in H. apply H. apply nth_In. exact Ha.
  - left. apply nth_overflow. exact Ha.
Qed.

Lemma swap_op_none_sound jwL jwR : swap_op_auto jwL jwR = None -> no_odd_pair jwL jwR.
Proof.
  unfold swap_op_auto. destruct (np_any (n_prod jwL jwR)) eqn:E; [discriminate|]. intros _.
  rewrite np_any_false_iff in E. intros a b Ha Hb. specialize (E a b Ha Hb).
  rewrite <- Z.odd_mul, E. reflexivity.
Qed.

Lemma swap_op_none_iff jwL jwR : is_parity jwL -> is_parity jwR ->
  (swap_op_auto jwL jwR = None <-> no_odd_pair jwL jwR).
Proof.
  intros HL HR. split; [apply swap_op_none_sound|].
  intros Hno. unfold swap_op_auto.
  assert (E : np_any (n_prod jwL jwR) = false).
  { apply np_any_false_iff. intros a b Ha Hb. specialize (Hno a b Ha Hb).
    destruct (is_parity_nth jwL a HL) as [-> | Ea]; [lia|].
    destruct (is_parity_nth jwR b HR) as [-> | Eb]; [lia|].
    rewrite Ea, Eb in Hno. discriminate. }
  rewrite E. reflexivity.
Qed.

Lemma swap_op_some jwL jwR dg : swap_op_auto jwL jwR = Some dg -> dg = swap_diag jwL jwR.
Proof. unfold swap_op_auto. destruct (np_any _); intros H; inversion H. reflexivity. Qed.

(* the labelled 4-leg array *)
Lemma swap_op_entry_spec jwL jwR a b a' b' :
  (a < length jwL)%nat -> (b < length jwR)%nat -> (a' < length jwL)%nat -> (b' < length jwR)%nat ->
  swap_op_entry jwL jwR b a a' b' = if ((a =? a') && (b =? b'))%nat then sign_ab jwL jwR a b else 0.
Proof.
  intros Ha Hb Ha' Hb'. unfold swap_op_entry, diag_reshape.
  destruct (a * length jwR + b =? a' * length jwR + b')%nat eqn:E.
  - apply Nat.eqb_eq in E. destruct (index_unique _ _ _ _ _ Hb Hb' E) as [-> ->].
    rewrite !Nat.eqb_refl. cbn [andb]. apply swap_diag_nth; assumption.
  - apply Nat.eqb_neq in E. destruct (a =? a')%nat eqn:Ea; [|reflexivity].
    destruct (b =? b')%nat eqn:Eb; [|reflexivity].
    apply Nat.eqb_eq in Ea, Eb. subst. congruence.
Qed.

(* link to Model/Perms.v: the sign one swap of the permute_sites loop collects is this table's entry *)
Lemma step_sign_is_table s s' jwL jwR a b :
  step s = Some s' ->
  (nth (Datatypes.S (p_i s)) (p_perm s) 0 <? nth (p_i s) (p_perm s) 0) = true ->
  (a < length jwL)%nat -> (b < length jwR)%nat ->
  parity_at (p_arr s) (p_i s) = Z.odd (nth a jwL 0) ->
  parity_at (p_arr s) (Datatypes.S (p_i s)) = Z.odd (nth b jwR 0) ->
  p_sign s' = xorb (p_sign s) (nth (a * length jwR + b) (swap_diag jwL jwR) 0 =? -1).
Proof.
  intros Hs Hlt Ha Hb HpL HpR. unfold step in Hs.
  destruct (Datatypes.S (p_i s) <? length (p_perm s))%nat; [|discriminate].
  rewrite Hlt in Hs. inversion Hs; subst s'; clear Hs. cbn [p_sign].
  rewrite swap_diag_nth by assumption. unfold sign_ab. rewrite HpL, HpR.
  destruct (Z.odd (nth a jwL 0) && Z.odd (nth b jwR 0)); reflexivity.
Qed.

Lemma swap_sign_table : forall (jwL jwR : list Z),
  let dL := length jwL in let dR := length jwR in
  length (swap_diag jwL jwR) = (dL * dR)%nat /\
  (forall a b, (a < dL)%nat -> (b < dR)%nat ->
     let e := nth (a * dR + b) (swap_diag jwL jwR) 0 in
     e = sign_ab jwL jwR a b /\
     (e = -1 <-> Z.odd (nth a jwL 0) = true /\ Z.odd (nth b jwR 0) = true) /\
     (forall na nb, Nat.odd na = Z.odd (nth a jwL 0) -> Nat.odd nb = Z.odd (nth b jwR 0) ->
        e = fock_exchange_sign na nb) /\
     (forall a' b', (a' < dL)%nat -> (b' < dR)%nat ->
        swap_op_entry jwL jwR b a a' b' = if ((a =? a') && (b =? b'))%nat then e else 0) /\
     (forall s s', step s = Some s' ->
        (nth (Datatypes.S (p_i s)) (p_perm s) 0 <? nth (p_i s) (p_perm s) 0) = true ->
        parity_at (p_arr s) (p_i s) = Z.odd (nth a jwL 0) ->
        parity_at (p_arr s) (Datatypes.S (p_i s)) = Z.odd (nth b jwR 0) ->
        p_sign s' = xorb (p_sign s) (e =? -1))) /\
  (Forall (fun x => x = 1) (swap_diag jwL jwR) <-> no_odd_pair jwL jwR) /\
  (swap_op_auto jwL jwR = None -> no_odd_pair jwL jwR) /\
  (forall dg, swap_op_auto jwL jwR = Some dg -> dg = swap_diag jwL jwR) /\
  (is_parity jwL -> is_parity jwR -> (swap_op_auto jwL jwR = None <-> no_odd_pair jwL jwR)).
Proof.
  intros jwL jwR dL dR. split; [apply swap_diag_length|]. split.
  - intros a b Ha Hb e. subst dL dR.
    assert (He : e = sign_ab jwL jwR a b) by (apply swap_diag_nth; assumption).
    split; [exact He|]. split; [rewrite He; apply sign_ab_m1|]. split.
    + intros na nb Hna Hnb. apply swap_entry_fock; assumption.
    + split.
      * intros a' b' Ha' Hb'. rewrite He. apply swap_op_entry_spec; assumption.
      * intros s s' Hs Hlt HpL HpR. apply step_sign_is_table; assumption.
  - split; [apply swap_diag_identity_iff|]. split; [apply swap_op_none_sound|].
    split; [apply swap_op_some|apply swap_op_none_iff].
Qed.
