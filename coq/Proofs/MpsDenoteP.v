(* Proofs about Model/MpsDenote.v: form conversions change the recorded exponents and the stored tensor consistently,
   so the dense denotation is invariant under every history of form conversions (C07). *)
From TenpyV Require Import Base.Prelude Model.MpsIndex Model.MpsForm Model.MpsDenote Proofs.MpsIndexP Proofs.MpsFormP.
Open Scope Z_scope.

(* ---------------------------------------------------------------- bond addresses *)
Lemma site_pos_range fin st i p : 0 < len st -> site_pos fin st i = Some p ->
  Z.of_nat p = i mod len st /\ (p < length st)%nat.
Proof.
  intros HL. unfold site_pos, to_valid_site_index.
  assert (Hm : 0 <= i mod len st < len st) by (apply Z.mod_pos_bound; lia).
  destruct (fin && negb ((if fin && (i / len st =? -1) then 0 else i / len st) =? 0)); [discriminate|].
  intros H. injection H as <-. unfold len in *. split; lia.
Qed.

(* the bonds used by get_SL(i) / get_SR(i) are bondL / bondR of the position of site i *)
Lemma bond_address fin st i p : 0 < len st -> site_pos fin st i = Some p ->
  exists c c', to_valid_bond_index fin (len st) i true = Some (bondL p, c) /\
               to_valid_bond_index fin (len st) i false = Some (bondR fin (len st) p, c').
Proof.
  intros HL Hp. destruct (site_pos_range fin st i p HL Hp) as [Hr _].
  unfold bondL, bondR. rewrite Hr.
  unfold site_pos in Hp. unfold to_valid_bond_index.
  destruct fin.
  - destruct (to_valid_site_index true (len st) i) as [[r c]|] eqn:E; [|discriminate].
    assert (r = i mod len st).
    { unfold to_valid_site_index in E.
      destruct (true && negb ((if true && (i / len st =? -1) then 0 else i / len st) =? 0)); [discriminate|].
      injection E as <- _. reflexivity. }
    subst r. exists 0, 0. split; f_equal; f_equal; lia.
  - unfold to_valid_site_index. cbn [andb negb]. eexists. eexists. split.
    + rewrite Z.add_0_r. reflexivity.
    + rewrite Zplus_mod_idemp_l. reflexivity.
Qed.

Lemma site_pos_len fin st st' i : length st = length st' -> site_pos fin st i = site_pos fin st' i.
Proof. intros H. unfold site_pos, len. rewrite H. reflexivity. Qed.

Section DenoteP.
  Variable M : Type.
  Variable mul : M -> M -> M.
  Variable one : M.
  Variable sv : Z -> Z -> M.
  Hypothesis mul_assoc : forall a b c, mul a (mul b c) = mul (mul a b) c.
  Hypothesis mul_1_l : forall a, mul one a = a.
  Hypothesis mul_1_r : forall a, mul a one = a.
  Hypothesis sv_0 : forall b, sv b 0 = one.
  Hypothesis sv_add : forall b x y, sv b (x + y) = mul (sv b x) (sv b y).

  Notation vsite := (vsite M).
  Notation vmps := (vmps M).
  Notation erase := (erase M).
  Notation vget_B := (vget_B M mul sv).
  Notation vconv := (vconv M mul sv).
  Notation vconvert_from := (vconvert_from M mul sv).
  Notation vset_nth := (vset_nth M).
  Notation vlen := (vlen M).
  Notation vapply_op := (vapply_op M mul sv).
  Notation vrun_ops := (vrun_ops M mul sv).
  Notation vget_B_at := (vget_B_at M mul sv).
  Notation window_den := (window_den M mul sv).
  Notation chain_den := (chain_den M mul sv).
  Notation gsite := (gsite M mul sv).
  Notation gamma_window := (gamma_window M mul sv one).
  Notation denotes_at := (denotes_at M mul sv).
  Notation denotes := (denotes M mul sv).

  (* ---------------------------------------------------------------- erasure: the values ride on MpsForm.apply_op *)
  Lemma erase_length (st : vmps) : length (erase st) = length st.
  Proof. apply map_length. Qed.

  Lemma len_erase (st : vmps) : len (erase st) = vlen st.
  Proof. unfold len, MpsDenote.vlen. rewrite erase_length. reflexivity. Qed.

  Lemma erase_vset_nth p x (st : vmps) : erase (vset_nth p x st) = set_nth p (fst x) (erase st).
  Proof.
    revert p. induction st as [|y t IH]; intros p; destruct p; cbn [MpsDenote.vset_nth MpsDenote.erase map set_nth]; auto.
    f_equal. apply IH.
  Qed.

  Lemma vset_nth_length p x (st : vmps) : length (vset_nth p x st) = length st.
  Proof. revert p. induction st as [|y t IH]; intros p; destruct p; cbn [MpsDenote.vset_nth length]; auto. Qed.

  Lemma vconv_inv bl br (s s' : vsite) f : vconv bl br s f = Some s' ->
    exists ol orr, lab (fst s) = Some (ol, orr) /\
      fst s' = mkSite (Some f) (fst (act (fst s)) + (fst f - ol), snd (act (fst s)) + (snd f - orr))
                      (pdim (fst s)) (chiL (fst s)) (chiR (fst s)) /\
      get_B_act (fst s) (full f) = Some (act (fst s')) /\
      snd s' = mul (mul (sv bl (fst f - ol)) (snd s)) (sv br (snd f - orr)).
  Proof.
    unfold MpsDenote.vconv, MpsDenote.vget_B, get_B_act, full.
    destruct (lab (fst s)) as [[ol orr]|]; [|discriminate].
    cbn [scale1 MpsDenote.vscale_l MpsDenote.vscale_r]. intros H. injection H as <-.
    exists ol, orr. cbn [fst snd act]. auto.
  Qed.

  Lemma vconvert_erase fin L : forall fs p (st st' : vmps),
    vconvert_from fin L p fs st = Some st' -> convert_all fs (erase st) = Some (erase st').
  Proof.
    induction fs as [|f fs IH]; intros p st st' H; destruct st as [|s st]; cbn [MpsDenote.vconvert_from] in H;
      try discriminate.
    - injection H as <-. reflexivity.
    - destruct (vconv (bondL p) (bondR fin L p) s f) as [s1|] eqn:Ec; [|discriminate].
      destruct (vconvert_from fin L (Datatypes.S p) fs st) as [r|] eqn:Er; [|discriminate].
      injection H as <-.
      destruct (vconv_inv _ _ _ _ _ Ec) as [ol [orr [Hl [Hf [Hg _]]]]].
      cbn [MpsDenote.erase map convert_all]. fold (erase st). rewrite Hg, (IH _ _ _ Er).
      fold (erase r). f_equal. f_equal. rewrite Hf. reflexivity.
  Qed.

  Lemma vapply_erase fin op (st st' : vmps) :
    vapply_op fin op st = Some st' -> apply_op fin op (erase st) = Some (erase st').
  Proof.
    destruct op as [fs|i f|i| |k|n|]; cbn [MpsDenote.vapply_op apply_op]; try discriminate.
    - apply vconvert_erase.
    - destruct (site_pos fin (erase st) i) as [p|]; [|discriminate].
      destruct (nth_error st p) as [s|] eqn:En; [|discriminate].
      destruct (vconv (bondL p) (bondR fin (vlen st) p) s f) as [s1|] eqn:Ec; [|discriminate].
      intros H. injection H as <-.
      destruct (vconv_inv _ _ _ _ _ Ec) as [ol [orr [Hl [Hf [Hg _]]]]].
      unfold MpsDenote.erase at 1. rewrite (map_nth_error fst p st En). rewrite Hg.
      f_equal. rewrite erase_vset_nth. unfold set_B. fold (erase st).
      unfold MpsDenote.erase at 1. rewrite (map_nth_error fst p st En). fold (erase st).
      f_equal. rewrite Hf. reflexivity.
  Qed.

  Lemma vrun_erase fin ops : forall (st st' : vmps),
    vrun_ops fin ops st = Some st' -> run_ops fin ops (erase st) = Some (erase st').
  Proof.
    induction ops as [|op ops IH]; intros st st' H; cbn [MpsDenote.vrun_ops run_ops] in *.
    - injection H as <-. reflexivity.
    - destruct (vapply_op fin op st) as [st1|] eqn:E; [|discriminate].
      rewrite (vapply_erase _ _ _ _ E). apply IH. exact H.
  Qed.

  (* the values never make a conversion fail that the form model accepts *)
  Definition is_conv (op : fop) : bool :=
    match op with OConvert _ => true | OSetBScaled _ _ => true | _ => false end.

  Lemma vconv_progress bl br (s : vsite) f a :
    get_B_act (fst s) (full f) = Some a -> exists s', vconv bl br s f = Some s'.
  Proof.
    unfold MpsDenote.vconv, MpsDenote.vget_B, get_B_act, full.
    destruct (lab (fst s)) as [[ol orr]|]; [|discriminate]. intros _. eexists. reflexivity.
  Qed.

  Lemma vconvert_progress fin L : forall fs p (st : vmps) r,
    convert_all fs (erase st) = Some r -> exists st', vconvert_from fin L p fs st = Some st'.
  Proof.
    induction fs as [|f fs IH]; intros p st r H; destruct st as [|s st];
      cbn [MpsDenote.erase map convert_all MpsDenote.vconvert_from] in *; try discriminate.
    - eexists. reflexivity.
    - fold (erase st) in H.
      destruct (get_B_act (fst s) (full f)) as [a|] eqn:Ea; [|discriminate].
      destruct (convert_all fs (erase st)) as [r1|] eqn:Er; [|discriminate].
      destruct (vconv_progress (bondL p) (bondR fin L p) s f a Ea) as [s1 ->].
      destruct (IH (Datatypes.S p) st r1 Er) as [st1 ->]. eexists. reflexivity.
  Qed.

  Lemma vapply_progress fin op (st : vmps) r :
    is_conv op = true -> apply_op fin op (erase st) = Some r -> exists st', vapply_op fin op st = Some st'.
  Proof.
    destruct op as [fs|i f|i| |k|n|]; cbn [is_conv]; try discriminate; intros _;
      cbn [MpsDenote.vapply_op apply_op].
    - apply vconvert_progress.
    - destruct (site_pos fin (erase st) i) as [p|]; [|discriminate].
      destruct (nth_error st p) as [s|] eqn:En.
      + unfold MpsDenote.erase at 1. rewrite (map_nth_error fst p st En).
        destruct (get_B_act (fst s) (full f)) as [a|] eqn:Ea; [|discriminate]. intros _.
        destruct (vconv_progress (bondL p) (bondR fin (vlen st) p) s f a Ea) as [s1 ->]. eexists. reflexivity.
      + assert (Hn : nth_error (erase st) p = None).
        { apply nth_error_None. rewrite erase_length. apply nth_error_None. exact En. }
        rewrite Hn. discriminate.
  Qed.

  (* ---------------------------------------------------------------- lengths, which labels are present *)
  Definition shape (st : vmps) : list bool := map (fun s => is_some (lab (fst s))) st.

  Lemma shape_length (st st' : vmps) : shape st = shape st' -> length st = length st'.
  Proof. intros H. apply (f_equal (@length bool)) in H. unfold shape in H. rewrite !map_length in H. exact H. Qed.

  Lemma vconv_shape bl br (s s' : vsite) f : vconv bl br s f = Some s' ->
    is_some (lab (fst s')) = is_some (lab (fst s)).
  Proof.
    intros H. destruct (vconv_inv _ _ _ _ _ H) as [ol [orr [Hl [Hf _]]]]. rewrite Hf, Hl. reflexivity.
  Qed.

  Lemma vconvert_shape fin L : forall fs p (st st' : vmps),
    vconvert_from fin L p fs st = Some st' -> shape st' = shape st.
  Proof.
    induction fs as [|f fs IH]; intros p st st' H; destruct st as [|s st]; cbn [MpsDenote.vconvert_from] in H;
      try discriminate.
    - injection H as <-. reflexivity.
    - destruct (vconv (bondL p) (bondR fin L p) s f) as [s1|] eqn:Ec; [|discriminate].
      destruct (vconvert_from fin L (Datatypes.S p) fs st) as [r|] eqn:Er; [|discriminate].
      injection H as <-. unfold shape. cbn [map]. f_equal; [eapply vconv_shape; eauto|].
      apply (IH _ _ _ Er).
  Qed.

  Lemma vset_nth_shape : forall p (x s : vsite) (st : vmps), nth_error st p = Some s ->
    is_some (lab (fst x)) = is_some (lab (fst s)) -> shape (vset_nth p x st) = shape st.
  Proof.
    induction p as [|p IH]; intros x s st Hn Hx; destruct st as [|y t]; cbn [nth_error] in Hn; try discriminate;
      cbn [MpsDenote.vset_nth]; unfold shape; cbn [map].
    - injection Hn as ->. f_equal. exact Hx.
    - f_equal. apply (IH x s t Hn Hx).
  Qed.

  Lemma vapply_shape fin op (st st' : vmps) : vapply_op fin op st = Some st' -> shape st' = shape st.
  Proof.
    destruct op as [fs|i f|i| |k|n|]; cbn [MpsDenote.vapply_op]; try discriminate.
    - apply vconvert_shape.
    - destruct (site_pos fin (erase st) i) as [p|]; [|discriminate].
      destruct (nth_error st p) as [s|] eqn:En; [|discriminate].
      destruct (vconv (bondL p) (bondR fin (vlen st) p) s f) as [s1|] eqn:Ec; [|discriminate].
      intros H. injection H as <-. eapply vset_nth_shape; eauto. eapply vconv_shape; eauto.
  Qed.

  (* ---------------------------------------------------------------- the stored tensor stays s^nuL Gamma s^nuR *)
  Lemma vconv_denotes fin L G p (s s' : vsite) f :
    denotes_at fin L G p s -> vconv (bondL p) (bondR fin L p) s f = Some s' -> denotes_at fin L G p s'.
  Proof.
    unfold MpsDenote.denotes_at. intros Hd Hc.
    destruct (vconv_inv _ _ _ _ _ Hc) as [ol [orr [Hl [Hf [_ Hv]]]]].
    rewrite Hv, Hf, Hd. cbn [act fst snd].
    rewrite (Z.add_comm (fst (act (fst s))) (fst f - ol)). rewrite !sv_add. rewrite !mul_assoc. reflexivity.
  Qed.

  Lemma vconvert_denotes fin L G : forall fs p0 (st st' : vmps),
    (forall k s, nth_error st k = Some s -> denotes_at fin L G (p0 + k) s) ->
    vconvert_from fin L p0 fs st = Some st' ->
    (forall k s, nth_error st' k = Some s -> denotes_at fin L G (p0 + k) s).
  Proof.
    induction fs as [|f fs IH]; intros p0 st st' Hd H; destruct st as [|s st]; cbn [MpsDenote.vconvert_from] in H;
      try discriminate.
    - injection H as <-. intros k s Hk. destruct k; discriminate.
    - destruct (vconv (bondL p0) (bondR fin L p0) s f) as [s1|] eqn:Ec; [|discriminate].
      destruct (vconvert_from fin L (Datatypes.S p0) fs st) as [r|] eqn:Er; [|discriminate].
      injection H as <-. intros k s2 Hk. destruct k as [|k]; cbn [nth_error] in Hk.
      + injection Hk as <-. rewrite Nat.add_0_r. eapply vconv_denotes; [|exact Ec].
        specialize (Hd 0%nat s eq_refl). rewrite Nat.add_0_r in Hd. exact Hd.
      + replace (p0 + Datatypes.S k)%nat with (Datatypes.S p0 + k)%nat by lia.
        eapply (IH (Datatypes.S p0) st r); [|exact Er|exact Hk].
        intros k' s' Hk'. replace (Datatypes.S p0 + k')%nat with (p0 + Datatypes.S k')%nat by lia.
        apply Hd. exact Hk'.
  Qed.

  Lemma nth_error_vset_nth : forall p (x : vsite) (st : vmps) k s,
    nth_error (vset_nth p x st) k = Some s ->
    (k = p /\ s = x /\ (p < length st)%nat) \/ (k <> p /\ nth_error st k = Some s).
  Proof.
    induction p as [|p IH]; intros x st k s H; destruct st as [|y t]; cbn [MpsDenote.vset_nth] in H.
    - destruct k; discriminate.
    - destruct k as [|k]; cbn [nth_error] in *.
      + injection H as <-. left. cbn [length]. repeat split; lia.
      + right. split; [lia|exact H].
    - destruct k; discriminate.
    - destruct k as [|k]; cbn [nth_error] in *.
      + right. split; [lia|exact H].
      + destruct (IH x t k s H) as [[-> [-> Hl]]|[Hne Hk]].
        * left. cbn [length]. repeat split; lia.
        * right. split; [lia|exact Hk].
  Qed.

  Lemma vapply_denotes fin G op (st st' : vmps) :
    denotes fin G st -> vapply_op fin op st = Some st' -> denotes fin G st'.
  Proof.
    intros Hd H.
    assert (Hlen : vlen st' = vlen st).
    { unfold MpsDenote.vlen. rewrite (shape_length _ _ (vapply_shape _ _ _ _ H)). reflexivity. }
    unfold MpsDenote.denotes. rewrite Hlen.
    destruct op as [fs|i f|i| |k|n|]; cbn [MpsDenote.vapply_op] in H; try discriminate.
    - intros p s Hp. apply (vconvert_denotes fin (vlen st) G fs 0%nat st st'); auto.
    - destruct (site_pos fin (erase st) i) as [p|]; [|discriminate].
      destruct (nth_error st p) as [s|] eqn:En; [|discriminate].
      destruct (vconv (bondL p) (bondR fin (vlen st) p) s f) as [s1|] eqn:Ec; [|discriminate].
      injection H as <-. intros k s2 Hk.
      destruct (nth_error_vset_nth _ _ _ _ _ Hk) as [[-> [-> _]]|[_ Hk']].
      + eapply vconv_denotes; [|exact Ec]. apply Hd. exact En.
      + apply Hd. exact Hk'.
  Qed.

  (* ---------------------------------------------------------------- the value of get_B does not depend on the stored form *)
  Lemma vget_B_value fin L G p (s : vsite) l f :
    truthful (fst s) -> denotes_at fin L G p s -> lab (fst s) = Some l ->
    vget_B (bondL p) (bondR fin L p) s (full f) =
      Some (mul (mul (sv (bondL p) (fst f)) (G p)) (sv (bondR fin L p) (snd f))).
  Proof.
    intros Ht Hd Hl. unfold MpsDenote.vget_B, full. rewrite Hl. destruct l as [ol orr].
    cbn [MpsDenote.vscale_l MpsDenote.vscale_r]. unfold MpsDenote.denotes_at in Hd. rewrite Hd.
    rewrite (Ht _ Hl). cbn [fst snd]. f_equal.
    replace (fst f) with ((fst f - ol) + ol) at 2 by lia.
    replace (snd f) with (orr + (snd f - orr)) at 2 by lia.
    rewrite !sv_add. rewrite !mul_assoc. reflexivity.
  Qed.

  (* every stored tensor has a Gamma: needs the inverse scalings, i.e. sv_add at negative exponents *)
  Lemma denotes_exists fin (st : vmps) : exists G, denotes fin G st.
  Proof.
    exists (fun p => match nth_error st p with
                     | Some s => mul (mul (sv (bondL p) (- fst (act (fst s)))) (snd s))
                                     (sv (bondR fin (vlen st) p) (- snd (act (fst s))))
                     | None => one
                     end).
    intros p s Hp. unfold MpsDenote.denotes_at. rewrite Hp.
    set (a := fst (act (fst s))). set (b := snd (act (fst s))).
    rewrite !mul_assoc. rewrite <- sv_add. rewrite <- (mul_assoc _ (sv _ (- b)) (sv _ b)). rewrite <- sv_add.
    replace (a + - a) with 0 by lia. replace (- b + b) with 0 by lia.
    rewrite !sv_0, mul_1_l, mul_1_r. reflexivity.
  Qed.

  (* ---------------------------------------------------------------- histories *)
  Record conv_inv (fin : bool) (G : nat -> M) (st st' : vmps) : Prop := mkConvInv {
    ci_erase_truthful : Forall truthful (erase st');
    ci_denotes : denotes fin G st';
    ci_shape : shape st' = shape st
  }.

  Lemma vrun_inv fin G ops : forall (st st' : vmps),
    Forall truthful (erase st) -> denotes fin G st -> vrun_ops fin ops st = Some st' -> conv_inv fin G st st'.
  Proof.
    induction ops as [|op ops IH]; intros st st' Ht Hd H; cbn [MpsDenote.vrun_ops] in H.
    - injection H as <-. constructor; auto.
    - destruct (vapply_op fin op st) as [st1|] eqn:E; [|discriminate].
      assert (Ht1 : Forall truthful (erase st1)).
      { eapply apply_op_truthful; [exact Ht|]. apply vapply_erase. exact E. }
      destruct (IH st1 st' Ht1 (vapply_denotes _ _ _ _ _ Hd E) H) as [H1 H2 H3].
      constructor; auto. rewrite H3. eapply vapply_shape; eauto.
  Qed.

  Lemma shape_nth (st st' : vmps) p s : shape st' = shape st -> nth_error st p = Some s ->
    exists s', nth_error st' p = Some s' /\ is_some (lab (fst s')) = is_some (lab (fst s)).
  Proof.
    intros Hs Hn. assert (Hl := shape_length _ _ Hs).
    destruct (nth_error st' p) as [s'|] eqn:En'.
    - exists s'. split; [reflexivity|].
      assert (H1 : nth_error (shape st') p = Some (is_some (lab (fst s')))) 
        by (exact (map_nth_error (fun x : vsite => is_some (lab (fst x))) p st' En')).
      assert (H2 : nth_error (shape st) p = Some (is_some (lab (fst s))))
        by (exact (map_nth_error (fun x : vsite => is_some (lab (fst x))) p st Hn)).
      rewrite Hs in H1. congruence.
    - apply nth_error_None in En'. assert (p < length st)%nat by (apply nth_error_Some; congruence). lia.
  Qed.

  Lemma vget_B_at_inv fin G (st st' : vmps) i f :
    Forall truthful (erase st) -> denotes fin G st -> conv_inv fin G st st' ->
    vget_B_at fin st' i (full f) = vget_B_at fin st i (full f).
  Proof.
    intros Ht Hd [Ht' Hd' Hs]. assert (Hl := shape_length _ _ Hs).
    unfold MpsDenote.vget_B_at.
    rewrite (site_pos_len fin (erase st') (erase st) i) by (rewrite !erase_length; exact Hl).
    assert (Hv : vlen st' = vlen st) by (unfold MpsDenote.vlen; rewrite Hl; reflexivity).
    rewrite Hv.
    destruct (site_pos fin (erase st) i) as [p|]; [|reflexivity].
    destruct (nth_error st p) as [s|] eqn:En.
    - destruct (shape_nth st st' p s Hs En) as [s' [En' Hlab]]. rewrite En'.
      assert (Hts : truthful (fst s)).
      { rewrite Forall_forall in Ht. apply Ht. apply in_map. eapply nth_error_In; eauto. }
      assert (Hts' : truthful (fst s')).
      { rewrite Forall_forall in Ht'. apply Ht'. apply in_map. eapply nth_error_In; eauto. }
      pose proof (Hd p s En) as Hds. pose proof (Hd' p s' En') as Hds'. rewrite Hv in Hds'.
      destruct (lab (fst s)) as [l|] eqn:El; destruct (lab (fst s')) as [l'|] eqn:El'; cbn [is_some] in Hlab;
        try discriminate.
      + rewrite (vget_B_value fin (vlen st) G p s l f Hts Hds El).
        rewrite (vget_B_value fin (vlen st) G p s' l' f Hts' Hds' El'). reflexivity.
      + unfold MpsDenote.vget_B, full. rewrite El, El'. reflexivity.
    - assert (En' : nth_error st' p = None).
      { apply nth_error_None. rewrite Hl. apply nth_error_None. exact En. }
      rewrite En'. reflexivity.
  Qed.

  Lemma window_den_inv fin (st st' : vmps) :
    (forall i f, vget_B_at fin st' i (full f) = vget_B_at fin st i (full f)) ->
    forall n i, window_den fin st' i n = window_den fin st i n.
  Proof.
    intros Hg. induction n as [|n IH]; intros i; [reflexivity|].
    cbn [MpsDenote.window_den]. destruct n as [|n]; [apply Hg|].
    rewrite Hg, (IH (i + 1)). reflexivity.
  Qed.

  (* T07_convert_preserves_denotation *)
  Theorem convert_preserves_denotation : forall fin ops (st st' : vmps),
    Forall truthful (erase st) -> vrun_ops fin ops st = Some st' ->
    run_ops fin ops (erase st) = Some (erase st') /\
    Forall truthful (erase st') /\
    (forall G, denotes fin G st -> denotes fin G st') /\
    (forall i f, vget_B_at fin st' i (full f) = vget_B_at fin st i (full f)) /\
    (forall i n, window_den fin st' i n = window_den fin st i n) /\
    chain_den fin st' = chain_den fin st.
  Proof.
    intros fin ops st st' Ht H.
    destruct (denotes_exists fin st) as [G0 HG0].
    pose proof (vrun_inv fin G0 ops st st' Ht HG0 H) as Hinv.
    assert (Hg : forall i f, vget_B_at fin st' i (full f) = vget_B_at fin st i (full f)).
    { intros i f. eapply vget_B_at_inv; eauto. }
    split; [apply vrun_erase; exact H|].
    split; [apply (ci_erase_truthful _ _ _ _ Hinv)|].
    split; [intros G HG; apply (ci_denotes _ _ _ _ (vrun_inv fin G ops st st' Ht HG H))|].
    split; [exact Hg|].
    split; [intros i n; apply window_den_inv; exact Hg|].
    unfold MpsDenote.chain_den. rewrite (shape_length _ _ (ci_shape _ _ _ _ Hinv)).
    apply window_den_inv. exact Hg.
  Qed.

  (* the closed form: on a canonically labelled chain get_B(i, (f1, f2)) IS s^f1 Gamma s^f2 with the bonds of
     Model/MpsIndex.v, for every integer i (infinite bc: every unit cell), whatever the stored forms are *)
  Theorem get_B_closed_form : forall fin G (st : vmps) i p f,
    Forall canonical (erase st) -> denotes fin G st -> site_pos fin (erase st) i = Some p -> (p < length st)%nat ->
    vget_B_at fin st i (full f) =
      Some (mul (mul (sv (bondL p) (fst f)) (G p)) (sv (bondR fin (vlen st) p) (snd f))).
  Proof.
    intros fin G st i p f Hc Hd Hp Hlt. unfold MpsDenote.vget_B_at. rewrite Hp.
    destruct (nth_error st p) as [s|] eqn:En; [|apply nth_error_None in En; lia].
    assert (Hcs : canonical (fst s)).
    { rewrite Forall_forall in Hc. apply Hc. apply in_map. eapply nth_error_In; eauto. }
    destruct Hcs as [l [Hl Ha]].
    eapply vget_B_value; eauto. apply canonical_truthful. exists l. auto.
  Qed.

  Lemma site_pos_some fin (st : mps) i : 0 < len st -> (fin = true -> 0 <= i < len st) ->
    site_pos fin st i = Some (Z.to_nat (i mod len st)).
  Proof.
    intros HL Hi. unfold site_pos. destruct fin.
    - destruct (index_finite_rejects (len st) i HL) as [_ [H _]]. destruct (H (Hi eq_refl)) as [-> _].
      rewrite Z.mod_small by (apply Hi; reflexivity). reflexivity.
    - destruct (index_infinite (len st) i HL) as [-> _]. reflexivity.
  Qed.

  (* the window / the whole chain is Gamma s Gamma s ... with exponent exactly 1 on every bond to the right of a site *)
  Theorem window_den_closed : forall fin G (st : vmps),
    Forall canonical (erase st) -> denotes fin G st -> 0 < vlen st ->
    forall n i, (0 < n)%nat -> (fin = true -> 0 <= i /\ i + Z.of_nat n <= vlen st) ->
    window_den fin st i n = Some (gamma_window fin (vlen st) G i n).
  Proof.
    intros fin G st Hc Hd HL.
    assert (Hsite : forall i, (fin = true -> 0 <= i < vlen st) ->
              vget_B_at fin st i (full fB) = Some (gsite fin (vlen st) G i)).
    { intros i Hi. rewrite <- len_erase in HL, Hi.
      pose proof (site_pos_some fin (erase st) i HL Hi) as Hp.
      assert (Hm : 0 <= i mod len (erase st) < len (erase st)) by (apply Z.mod_pos_bound; lia).
      rewrite (get_B_closed_form fin G st i _ fB Hc Hd Hp).
      - unfold MpsDenote.gsite, fB. cbn [fst snd]. rewrite sv_0, mul_1_l. rewrite len_erase. reflexivity.
      - rewrite len_erase in Hm. unfold MpsDenote.vlen in Hm. rewrite len_erase. unfold MpsDenote.vlen. lia. }
    induction n as [|n IH]; intros i Hn Hi; [lia|].
    cbn [MpsDenote.window_den MpsDenote.gamma_window]. destruct n as [|n].
    - apply Hsite. intros Hf. specialize (Hi Hf). lia.
    - rewrite Hsite by (intros Hf; specialize (Hi Hf); lia).
      rewrite (IH (i + 1)) by (try lia; intros Hf; specialize (Hi Hf); lia). reflexivity.
  Qed.
End DenoteP.
