(* Proofs about Model/Sweep.v (property C13). *)
From TenpyV Require Import Base.Prelude Model.Sweep.

Lemma nth_repeat_lt {A} (a d : A) m k : (k < m)%nat -> nth k (repeat a m) d = a.
Proof.
  revert k. induction m as [|m IH]; intros k H; [lia|].
  destruct k as [|k]; cbn [repeat nth]; [reflexivity|]. apply IH. lia.
Qed.

Lemma i0s_length m : length (i0s m) = (2 * m)%nat.
Proof. unfold i0s. rewrite app_length, rev_length, !seq_length. lia. Qed.

Lemma move_rights_length m : length (move_rights m) = (2 * m)%nat.
Proof. unfold move_rights. rewrite app_length, !repeat_length. lia. Qed.

Lemma i0s_nth m k : (k < 2 * m)%nat ->
  nth k (i0s m) 0%nat = if (k <? m)%nat then k else (2 * m - k)%nat.
Proof.
  intros H. unfold i0s. destruct (Nat.ltb_spec k m) as [Hlt|Hge].
  - rewrite app_nth1 by (rewrite seq_length; exact Hlt). rewrite seq_nth by exact Hlt. reflexivity.
  - rewrite app_nth2 by (rewrite seq_length; exact Hge). rewrite seq_length.
    rewrite rev_nth by (rewrite seq_length; lia). rewrite seq_length.
    rewrite seq_nth by lia. lia.
Qed.

Lemma move_rights_nth m k : (k < 2 * m)%nat -> nth k (move_rights m) false = (k <? m)%nat.
Proof.
  intros H. unfold move_rights. destruct (Nat.ltb_spec k m) as [Hlt|Hge].
  - rewrite app_nth1 by (rewrite repeat_length; exact Hlt). apply nth_repeat_lt. exact Hlt.
  - rewrite app_nth2 by (rewrite repeat_length; exact Hge). rewrite repeat_length.
    apply nth_repeat_lt. lia.
Qed.

(* every position is optimised moving right (0..m-1) and moving left (1..m); consecutive entries - cyclically,
   i.e. including the step into the next sweep - differ by one site in the direction move_right announces *)
Lemma schedule_covers m : (1 <= m)%nat ->
  (forall i, (i < m)%nat -> nth i (i0s m) 0%nat = i /\ nth i (move_rights m) false = true) /\
  (forall i, (1 <= i <= m)%nat ->
     nth (2 * m - i) (i0s m) 0%nat = i /\ nth (2 * m - i) (move_rights m) false = false) /\
  (forall k, (k < 2 * m)%nat ->
     nth ((k + 1) mod (2 * m)) (i0s m) 0%nat =
     if nth k (move_rights m) false then (nth k (i0s m) 0 + 1)%nat else (nth k (i0s m) 0 - 1)%nat).
Proof.
  intros Hm. split; [|split].
  - intros i Hi. rewrite i0s_nth by lia. rewrite move_rights_nth by lia.
    destruct (Nat.ltb_spec i m); [split; reflexivity|lia].
  - intros i Hi. rewrite i0s_nth by lia. rewrite move_rights_nth by lia.
    destruct (Nat.ltb_spec (2 * m - i) m); [lia|]. split; [lia|reflexivity].
  - intros k Hk. rewrite (i0s_nth m k) by exact Hk. rewrite move_rights_nth by exact Hk.
    destruct (Nat.eq_dec k (2 * m - 1)) as [He|Hne].
    + subst k. replace (2 * m - 1 + 1)%nat with (2 * m)%nat by lia.
      rewrite Nat.mod_same by lia. rewrite i0s_nth by lia.
      destruct (Nat.ltb_spec 0 m); [|lia].
      destruct (Nat.ltb_spec (2 * m - 1) m); lia.
    + rewrite Nat.mod_small by lia. rewrite i0s_nth by lia.
      destruct (Nat.ltb_spec k m); destruct (Nat.ltb_spec (k + 1) m); lia.
Qed.

(* the entries of the schedule are these lists (finite and infinite bc, n = 1, 2) *)
Lemma map_fst_combine {A B} (l1 : list A) (l2 : list B) : length l1 = length l2 -> map fst (combine l1 l2) = l1.
Proof.
  revert l2. induction l1 as [|x t IH]; intros [|y u] H; cbn in *; try reflexivity; try discriminate.
  f_equal. apply IH. lia.
Qed.

Lemma map_snd_combine {A B} (l1 : list A) (l2 : list B) : length l1 = length l2 -> map snd (combine l1 l2) = l2.
Proof.
  revert l2. induction l1 as [|x t IH]; intros [|y u] H; cbn in *; try reflexivity; try discriminate.
  f_equal. apply IH. lia.
Qed.

Lemma map_combine_l {A B C} (g : A -> C) (l1 : list A) (l2 : list B) : length l1 = length l2 ->
  map (fun p => g (fst p)) (combine l1 l2) = map g l1.
Proof.
  revert l2. induction l1 as [|x t IH]; intros [|y u] H; cbn in *; try reflexivity; try discriminate.
  f_equal. apply IH. lia.
Qed.

Lemma flags_length (fin : bool) (L n : nat) : (n = 1 \/ n = 2)%nat -> (n < L)%nat ->
  length (if fin then flags_finite (right_moves fin L n) else if (n =? 2)%nat then flags_inf2 L else flags_inf1 L)
  = (2 * right_moves fin L n)%nat.
Proof.
  intros Hn HL. destruct fin; cbn [right_moves].
  - unfold flags_finite. rewrite app_length, !repeat_length. lia.
  - destruct Hn as [-> | ->]; cbn [Nat.eqb].
    + unfold flags_inf1. cbn [length]. rewrite app_length. cbn [length]. rewrite !repeat_length. lia.
    + unfold flags_inf2. rewrite !app_length, !repeat_length. lia.
Qed.

Lemma schedule_lists fin L n : (n = 1 \/ n = 2)%nat -> (n < L)%nat ->
  map (fun e : entry => fst (fst e)) (schedule fin L n) = i0s (right_moves fin L n) /\
  map (fun e : entry => snd (fst e)) (schedule fin L n) = move_rights (right_moves fin L n).
Proof.
  intros Hn HL. unfold schedule.
  set (m := right_moves fin L n).
  assert (Hl : length (combine (i0s m) (move_rights m)) = (2 * m)%nat)
    by (rewrite combine_length, i0s_length, move_rights_length; lia).
  pose proof (flags_length fin L n Hn HL) as Hf. fold m in Hf.
  split.
  - etransitivity; [apply (map_combine_l (fun p : nat * bool => fst p)); lia|].
    apply map_fst_combine. rewrite i0s_length, move_rights_length. reflexivity.
  - etransitivity; [apply (map_combine_l (fun p : nat * bool => snd p)); lia|].
    apply map_snd_combine. rewrite i0s_length, move_rights_length. reflexivity.
Qed.

Lemma schedule_covers_full fin L n : (n = 1 \/ n = 2)%nat -> (n < L)%nat ->
  let m := right_moves fin L n in
  let is := map (fun e : entry => fst (fst e)) (schedule fin L n) in
  let ms := map (fun e : entry => snd (fst e)) (schedule fin L n) in
  length (schedule fin L n) = (2 * m)%nat /\
  (forall i, (i < m)%nat -> nth i is 0%nat = i /\ nth i ms false = true) /\
  (forall i, (1 <= i <= m)%nat -> nth (2 * m - i) is 0%nat = i /\ nth (2 * m - i) ms false = false) /\
  (forall k, (k < 2 * m)%nat ->
     nth ((k + 1) mod (2 * m)) is 0%nat =
     if nth k ms false then (nth k is 0 + 1)%nat else (nth k is 0 - 1)%nat).
Proof.
  intros Hn HL m is ms. destruct (schedule_lists fin L n Hn HL) as [Hi Hmr].
  unfold is, ms. rewrite Hi, Hmr. fold m.
  assert (Hm : (1 <= m)%nat) by (unfold m, right_moves; destruct fin; lia).
  split.
  - rewrite <- (map_length (fun e : entry => fst (fst e))). rewrite Hi. apply i0s_length.
  - apply schedule_covers. exact Hm.
Qed.

(* environments: finite chains up to 24 sites, three consecutive sweeps, by evaluation of the model *)
Lemma no_stale_2 : forall L, (3 <= L <= 24)%nat -> no_stale L 2 3 = true.
Proof.
  assert (H : forallb (fun L => no_stale L 2 3) (seq 3 22) = true) by (vm_compute; reflexivity).
  intros L HL. rewrite forallb_forall in H. apply H. apply in_seq. lia.
Qed.
Lemma no_stale_1 : forall L, (2 <= L <= 24)%nat -> no_stale L 1 3 = true.
Proof.
  assert (H : forallb (fun L => no_stale L 1 3) (seq 2 23) = true) by (vm_compute; reflexivity).
  intros L HL. rewrite forallb_forall in H. apply H. apply in_seq. lia.
Qed.
Lemma no_stale_bounded : forall L n, (n = 1 \/ n = 2)%nat -> (n < L <= 24)%nat -> no_stale L n 3 = true.
Proof.
  intros L n [-> | ->] H; [apply no_stale_1|apply no_stale_2]; lia.
Qed.

(* Rayleigh-Ritz in an eigenbasis (diagonal Hamiltonian d, integer amplitudes x) *)
Open Scope Z_scope.
Fixpoint e_num (d x : list Z) : Z :=
  match d, x with di :: d', xi :: x' => di * xi * xi + e_num d' x' | _, _ => 0 end.
Fixpoint e_den (d x : list Z) : Z :=
  match d, x with _ :: d', xi :: x' => xi * xi + e_den d' x' | _, _ => 0 end.
Lemma energy_variational_diag E0 d x : Forall (fun di => E0 <= di) d -> E0 * e_den d x <= e_num d x.
Proof.
  intros H. revert x. induction H as [|di d Hd _ IH]; intros x; [cbn; lia|].
  destruct x as [|xi x]; cbn [e_num e_den]; [lia|].
  specialize (IH x). assert (0 <= xi * xi) by nia. nia.
Qed.
