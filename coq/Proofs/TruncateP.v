(* Proofs about Model/Truncate.v (property C15). *)
From TenpyV Require Import Base.Prelude Base.PyLib Model.Truncate.
Open Scope Z_scope.

Definition le_fst (a b : Z * nat) : Prop := fst a <= fst b.

(* ------------------------------------------------------------------ sorting *)
Lemma insert_perm x l : Permutation (insert x l) (x :: l).
Proof.
  induction l as [|y t IH]; cbn [insert]; [apply Permutation_refl|].
  destruct (fst x <=? fst y); [apply Permutation_refl|].
  eapply perm_trans; [apply perm_skip, IH|apply perm_swap].
Qed.

Lemma isort_perm l : Permutation (isort l) l.
Proof.
  induction l as [|x t IH]; cbn [isort fold_right]; [constructor|].
  eapply perm_trans; [apply insert_perm|]. apply perm_skip. exact IH.
Qed.

Lemma insert_sorted x l : StronglySorted le_fst l -> StronglySorted le_fst (insert x l).
Proof.
  induction 1 as [|y t Ht IH Hy]; cbn [insert].
  - constructor; constructor.
  - destruct (fst x <=? fst y) eqn:E.
    + constructor; [constructor; assumption|].
      constructor; [unfold le_fst; lia|].
      eapply Forall_impl; [|exact Hy]. unfold le_fst. intros a Ha. lia.
    + constructor; [exact IH|].
      assert (Hp := insert_perm x t).
      eapply Permutation_Forall; [apply Permutation_sym; exact Hp|].
      constructor; [unfold le_fst; lia|exact Hy].
Qed.

Lemma isort_sorted l : StronglySorted le_fst (isort l).
Proof.
  induction l as [|x t IH]; cbn [isort fold_right]; [constructor|].
  apply insert_sorted. exact IH.
Qed.

Lemma sorted_app_le (l1 l2 : list (Z * nat)) :
  StronglySorted le_fst (l1 ++ l2) -> forall a b, In a l1 -> In b l2 -> fst a <= fst b.
Proof.
  induction l1 as [|x t IH]; cbn [app]; intros H a b Ha Hb; [destruct Ha|].
  inversion H as [|? ? Ht Hx]; subst.
  destruct Ha as [<-|Ha].
  - rewrite Forall_forall in Hx. apply (Hx b). apply in_or_app. right. exact Hb.
  - eapply IH; eassumption.
Qed.

(* the sorted pairs are (value, index) pairs of the spectrum *)
Lemma combine_seq_nth (xs : list Z) k : forall vi, In vi (combine xs (seq k (length xs))) ->
  (k <= snd vi < k + length xs)%nat /\ nth (snd vi - k) xs 0 = fst vi.
Proof.
  revert k. induction xs as [|x t IH]; cbn [combine seq length]; intros k vi H; [destruct H|].
  destruct H as [<-|H]; cbn [fst snd].
  - split; [lia|]. replace (k - k)%nat with 0%nat by lia. reflexivity.
  - destruct (IH (Datatypes.S k) vi H) as [Hr Hn]. split; [lia|].
    replace (snd vi - k)%nat with (Datatypes.S (snd vi - Datatypes.S k)) by lia. exact Hn.
Qed.

Lemma sorted_pairs_nth xs vi : In vi (sorted_pairs xs) ->
  (snd vi < length xs)%nat /\ nthZ xs (snd vi) = fst vi.
Proof.
  intros H. unfold sorted_pairs in H.
  apply (Permutation_in _ (isort_perm _)) in H.
  destruct (combine_seq_nth xs 0 vi H) as [Hr Hn]. split; [lia|].
  unfold nthZ. replace (snd vi) with (snd vi - 0)%nat at 1 by lia. exact Hn.
Qed.

Lemma map_snd_combine_seq (xs : list Z) k : map snd (combine xs (seq k (length xs))) = seq k (length xs).
Proof.
  revert k; induction xs as [|x t IH]; intros k; cbn [combine seq length map snd]; [reflexivity|].
  f_equal. apply IH.
Qed.

Lemma map_fst_combine_seq (xs : list Z) k : map fst (combine xs (seq k (length xs))) = xs.
Proof.
  revert k; induction xs as [|x t IH]; intros k; cbn [combine seq length map fst]; [reflexivity|].
  f_equal. apply IH.
Qed.

Lemma piv_perm xs : Permutation (map snd (sorted_pairs xs)) (seq 0 (length xs)).
Proof.
  unfold sorted_pairs. rewrite <- (map_snd_combine_seq xs 0) at 2.
  apply Permutation_map, isort_perm.
Qed.

Lemma sorted_pairs_length xs : length (sorted_pairs xs) = length xs.
Proof.
  unfold sorted_pairs. rewrite (Permutation_length (isort_perm _)).
  rewrite combine_length, seq_length. lia.
Qed.

(* ------------------------------------------------------------------ masks *)
Lemma andl_length a b : length a = length b -> length (andl a b) = length a.
Proof.
  revert b; induction a as [|x a IH]; intros [|y b] H; cbn [andl length] in *; try lia.
  rewrite IH; lia.
Qed.

Lemma combine_constraints_length g1 g2 : length g1 = length g2 ->
  length (combine_constraints g1 g2) = length g1.
Proof.
  intros H. unfold combine_constraints. destruct (anyb _); [apply andl_length, H|reflexivity].
Qed.

Lemma combine_constraints_any g1 g2 : anyb g1 = true -> anyb (combine_constraints g1 g2) = true.
Proof. intros H. unfold combine_constraints. destruct (anyb (andl g1 g2)) eqn:E; assumption. Qed.

Lemma andl_nth a b k : nth k (andl a b) false = true -> nth k a false = true /\ nth k b false = true.
Proof.
  revert b k; induction a as [|x a IH]; intros [|y b] [|k]; cbn [andl nth]; intros H; try discriminate.
  - apply andb_prop in H. exact H.
  - apply IH. exact H.
Qed.

Lemma nth_andl a b k : nth k a false = true -> nth k b false = true -> nth k (andl a b) false = true.
Proof.
  revert b k; induction a as [|x a IH]; intros [|y b] [|k]; cbn [andl nth]; intros H1 H2; try discriminate.
  - rewrite H1, H2. reflexivity.
  - apply IH; assumption.
Qed.

(* shrinking: every accepted cut of the result was accepted before *)
Lemma combine_constraints_sub g1 g2 k :
  nth k (combine_constraints g1 g2) false = true -> nth k g1 false = true.
Proof.
  unfold combine_constraints. destruct (anyb _); [|tauto]. intros H. apply andl_nth in H. tauto.
Qed.

(* a satisfiable constraint is honoured *)
Lemma combine_constraints_sat g1 g2 k : anyb (andl g1 g2) = true ->
  nth k (combine_constraints g1 g2) false = true -> nth k g2 false = true.
Proof.
  unfold combine_constraints. intros ->. intros H. apply andl_nth in H. tauto.
Qed.

Lemma anyb_nth l : anyb l = true <-> exists k, nth k l false = true.
Proof.
  unfold anyb. rewrite existsb_exists. split.
  - intros [b [Hin ->]]. destruct (In_nth _ _ false Hin) as [k [_ Hk]]. exists k. exact Hk.
  - intros [k Hk]. exists true. split; [|reflexivity].
    destruct (Nat.lt_ge_cases k (length l)) as [Hl|Hl].
    + rewrite <- Hk. apply nth_In. exact Hl.
    + rewrite nth_overflow in Hk by exact Hl. discriminate.
Qed.

Lemma first_true_spec l : anyb l = true ->
  (first_true l < length l)%nat /\ nth (first_true l) l false = true /\
  forall k, (k < first_true l)%nat -> nth k l false = false.
Proof.
  induction l as [|b t IH]; cbn [anyb existsb first_true length nth]; [discriminate|].
  destruct b; cbn [orb].
  - intros _. split; [lia|]. split; [reflexivity|]. intros k Hk. lia.
  - intros H. destruct (IH H) as [H1 [H2 H3]]. split; [lia|]. split; [exact H2|].
    intros [|k] Hk; [reflexivity|]. apply H3. lia.
Qed.

(* ------------------------------------------------------------------ stages of final_good *)
Section Stages.
  Variable ss : list Z.
  Variable o : opts.
  Let n := length ss.
  Definition st0 := map (fun _ : Z => true) ss.
  Definition st1 := opt_apply (chi_max o) (good_chi_max n) st0.
  Definition st2 := match chi_min o with
            | Some m => if 1 <? m then combine_constraints st1 (good_chi_min n m) else st1
            | None => st1 end.
  Definition st3 := opt_apply (deg_tol o) (fun pq => good_deg ss (fst pq) (snd pq)) st2.
  Definition st4 := opt_apply (svd_min o) (good_svd_min ss) st3.
  Definition st5 := opt_apply (trunc_cut2 o) (good_trunc_cut ss) st4.

  Lemma final_good_st5 : final_good ss o = st5.
  Proof. reflexivity. Qed.

  Lemma cumsum_sq_length acc l : length (cumsum_sq acc l) = length l.
  Proof. revert acc; induction l as [|x t IH]; intros acc; cbn [cumsum_sq length]; [reflexivity|]. rewrite IH. reflexivity. Qed.

  Lemma len_chi_max m : length (good_chi_max n m) = n.
  Proof. unfold good_chi_max, idxs. rewrite map_length, seq_length. reflexivity. Qed.
  Lemma len_chi_min m : length (good_chi_min n m) = n.
  Proof. unfold good_chi_min, idxs. rewrite map_length, seq_length. reflexivity. Qed.
  Lemma len_deg p q : length (good_deg ss p q) = n.
  Proof. unfold good_deg, idxs. rewrite map_length, seq_length. reflexivity. Qed.
  Lemma len_svd m : length (good_svd_min ss m) = n.
  Proof. unfold good_svd_min. rewrite map_length. reflexivity. Qed.
  Lemma len_tc t : length (good_trunc_cut ss t) = n.
  Proof. unfold good_trunc_cut. rewrite map_length, cumsum_sq_length. reflexivity. Qed.

  Lemma len_st0 : length st0 = n. Proof. unfold st0. rewrite map_length. reflexivity. Qed.
  Lemma len_st1 : length st1 = n.
  Proof. unfold st1, opt_apply. destruct (chi_max o); [|apply len_st0].
         rewrite combine_constraints_length; rewrite len_st0; [reflexivity|]. symmetry; apply len_chi_max. Qed.
  Lemma len_st2 : length st2 = n.
  Proof. unfold st2. destruct (chi_min o); [|apply len_st1]. destruct (1 <? z); [|apply len_st1].
         rewrite combine_constraints_length; rewrite len_st1; [reflexivity|]. symmetry; apply len_chi_min. Qed.
  Lemma len_st3 : length st3 = n.
  Proof. unfold st3, opt_apply. destruct (deg_tol o); [|apply len_st2].
         rewrite combine_constraints_length; rewrite len_st2; [reflexivity|]. symmetry; apply len_deg. Qed.
  Lemma len_st4 : length st4 = n.
  Proof. unfold st4, opt_apply. destruct (svd_min o); [|apply len_st3].
         rewrite combine_constraints_length; rewrite len_st3; [reflexivity|]. symmetry; apply len_svd. Qed.
  Lemma len_st5 : length st5 = n.
  Proof. unfold st5, opt_apply. destruct (trunc_cut2 o); [|apply len_st4].
         rewrite combine_constraints_length; rewrite len_st4; [reflexivity|]. symmetry; apply len_tc. Qed.

  Hypothesis nonempty : ss <> [].

  Lemma any_st0 : anyb st0 = true.
  Proof. unfold st0. destruct ss as [|x t]; [congruence|]. reflexivity. Qed.
  Lemma any_st1 : anyb st1 = true.
  Proof. unfold st1, opt_apply. destruct (chi_max o); [apply combine_constraints_any|]; apply any_st0. Qed.
  Lemma any_st2 : anyb st2 = true.
  Proof. unfold st2. destruct (chi_min o); [|apply any_st1]. destruct (1 <? z); [|apply any_st1].
         apply combine_constraints_any, any_st1. Qed.
  Lemma any_st3 : anyb st3 = true.
  Proof. unfold st3, opt_apply. destruct (deg_tol o); [apply combine_constraints_any|]; apply any_st2. Qed.
  Lemma any_st4 : anyb st4 = true.
  Proof. unfold st4, opt_apply. destruct (svd_min o); [apply combine_constraints_any|]; apply any_st3. Qed.
  Lemma any_st5 : anyb st5 = true.
  Proof. unfold st5, opt_apply. destruct (trunc_cut2 o); [apply combine_constraints_any|]; apply any_st4. Qed.

  (* monotone shrinking of the accepted set *)
  Lemma sub_54 k : nth k st5 false = true -> nth k st4 false = true.
  Proof. unfold st5, opt_apply. destruct (trunc_cut2 o); [apply combine_constraints_sub|tauto]. Qed.
  Lemma sub_43 k : nth k st4 false = true -> nth k st3 false = true.
  Proof. unfold st4, opt_apply. destruct (svd_min o); [apply combine_constraints_sub|tauto]. Qed.
  Lemma sub_32 k : nth k st3 false = true -> nth k st2 false = true.
  Proof. unfold st3, opt_apply. destruct (deg_tol o); [apply combine_constraints_sub|tauto]. Qed.
  Lemma sub_21 k : nth k st2 false = true -> nth k st1 false = true.
  Proof. unfold st2. destruct (chi_min o); [|tauto]. destruct (1 <? z); [apply combine_constraints_sub|tauto]. Qed.

  Definition cut := first_true st5.

  Lemma cut_lt : (cut < n)%nat.
  Proof. destruct (first_true_spec st5 any_st5) as [H _]. rewrite len_st5 in H. exact H. Qed.
  Lemma cut_in5 : nth cut st5 false = true.
  Proof. destruct (first_true_spec st5 any_st5) as [_ [H _]]. exact H. Qed.
  Lemma cut_min k : (k < cut)%nat -> nth k st5 false = false.
  Proof. destruct (first_true_spec st5 any_st5) as [_ [_ H]]. apply H. Qed.
End Stages.

(* nth of a map over seq *)
Lemma nth_map_seq (f : nat -> bool) n k : (k < n)%nat -> nth k (map f (seq 0 n)) false = f k.
Proof.
  intros H. rewrite (nth_indep _ false (f 0%nat)) by (rewrite map_length, seq_length; exact H).
  rewrite map_nth. rewrite seq_nth by exact H. reflexivity.
Qed.

(* ------------------------------------------------------------------ the function truncate *)
Lemma existsb_eqb_In i l : existsb (Nat.eqb i) l = true <-> In i l.
Proof.
  rewrite existsb_exists. split.
  - intros [x [Hx E]]. apply Nat.eqb_eq in E. subst. exact Hx.
  - intros H. exists i. split; [exact H|apply Nat.eqb_refl].
Qed.

Lemma StronglySorted_nth (l : list Z) : StronglySorted Z.le l ->
  forall i j, (i <= j < length l)%nat -> nth i l 0 <= nth j l 0.
Proof.
  induction 1 as [|x t Ht IH Hx]; cbn [length]; intros i j Hij; [lia|].
  destruct i as [|i], j as [|j]; cbn [nth]; try lia.
  - rewrite Forall_forall in Hx. apply Hx. apply nth_In. lia.
  - apply IH. lia.
Qed.

Lemma sorted_map_fst sl : StronglySorted le_fst sl -> StronglySorted Z.le (map fst sl).
Proof.
  induction 1 as [|x t Ht IH Hx]; cbn [map]; constructor; [exact IH|].
  rewrite Forall_forall in *. intros v Hv. apply in_map_iff in Hv. destruct Hv as [y [<- Hy]].
  apply (Hx y Hy).
Qed.

Lemma nth_map_true (l : list Z) k : (k < length l)%nat -> nth k (map (fun _ => true) l) false = true.
Proof. revert k; induction l as [|x t IH]; intros [|k]; cbn [length map nth]; intros H; try lia; try reflexivity; apply IH; lia. Qed.

Lemma nth_map_Z (f : Z -> bool) (l : list Z) k : (k < length l)%nat -> nth k (map f l) false = f (nth k l 0).
Proof. revert k; induction l as [|x t IH]; intros [|k]; cbn [length map nth]; intros H; try lia; try reflexivity; apply IH; lia. Qed.

Lemma nth_skipn_Z (l : list Z) c k : nth k (skipn c l) 0 = nth (c + k) l 0.
Proof. revert l; induction c as [|c IH]; intros l; [reflexivity|]. destruct l as [|x t]; [destruct k; reflexivity|]. cbn [skipn Nat.add nth]. apply IH. Qed.

Section Trunc.
  Variable xs : list Z.
  Variable o : opts.
  Hypothesis nonempty : xs <> [].
  Let sl := sorted_pairs xs.
  Let ss := map fst sl.
  Let piv := map snd sl.
  Let c := cut ss o.
  Let n := length xs.

  Lemma ss_len : length ss = n.
  Proof. unfold ss, sl. rewrite map_length. apply sorted_pairs_length. Qed.
  Lemma ss_nonempty : ss <> [].
  Proof. intros E. assert (H := ss_len). rewrite E in H. unfold n in H. destruct xs; [congruence|discriminate]. Qed.
  Lemma c_lt : (c < n)%nat.
  Proof. unfold c. rewrite <- ss_len. apply cut_lt. exact ss_nonempty. Qed.

  Lemma ss_sorted : StronglySorted Z.le ss.
  Proof. apply sorted_map_fst. apply isort_sorted. Qed.

  Lemma mask_nth i : (i < n)%nat ->
    nth i (r_mask (truncate xs o)) false = existsb (Nat.eqb i) (skipn c piv).
  Proof. intros H. cbn [truncate r_mask]. rewrite nth_map_seq by exact H. reflexivity. Qed.

  Lemma kept_eq : r_kept (truncate xs o) = skipn c ss.
  Proof. reflexivity. Qed.

  Lemma kept_length : length (r_kept (truncate xs o)) = (n - c)%nat.
  Proof. rewrite kept_eq, skipn_length, ss_len. reflexivity. Qed.

  Lemma in_keep_pair i : In i (skipn c piv) -> In (nthZ xs i, i) (skipn c sl).
  Proof.
    unfold piv. rewrite skipn_map. intros H. apply in_map_iff in H. destruct H as [[v k] [E Hin]].
    cbn [snd] in E. subst k.
    assert (Hs : In (v, i) sl) by (rewrite <- (firstn_skipn c sl); apply in_or_app; right; exact Hin).
    destruct (sorted_pairs_nth xs _ Hs) as [_ Hv]. cbn [fst snd] in Hv. rewrite Hv. exact Hin.
  Qed.

  Lemma in_drop_pair j : (j < n)%nat -> ~ In j (skipn c piv) -> In (nthZ xs j, j) (firstn c sl).
  Proof.
    intros Hj Hn.
    assert (Hp : In j piv).
    { apply (Permutation_in _ (Permutation_sym (piv_perm xs))). apply in_seq. unfold n in Hj. lia. }
    rewrite <- (firstn_skipn c piv) in Hp. apply in_app_or in Hp. destruct Hp as [Hp|Hp]; [|contradiction].
    unfold piv in Hp. rewrite firstn_map in Hp. apply in_map_iff in Hp. destruct Hp as [[v k] [E Hin]].
    cbn [snd] in E. subst k.
    assert (Hs : In (v, j) sl) by (rewrite <- (firstn_skipn c sl); apply in_or_app; left; exact Hin).
    destruct (sorted_pairs_nth xs _ Hs) as [_ Hv]. cbn [fst snd] in Hv. rewrite Hv. exact Hin.
  Qed.

  (* no discarded value is larger than a kept one *)
  Lemma threshold i j : (i < n)%nat -> (j < n)%nat ->
    nth i (r_mask (truncate xs o)) false = true ->
    nth j (r_mask (truncate xs o)) false = false ->
    nthZ xs j <= nthZ xs i.
  Proof.
    intros Hi Hj Mi Mj. rewrite mask_nth in Mi, Mj by assumption.
    apply existsb_eqb_In in Mi.
    assert (Nj : ~ In j (skipn c piv)) by (intros X; apply existsb_eqb_In in X; congruence).
    apply in_keep_pair in Mi. apply (in_drop_pair j Hj) in Nj.
    assert (Hs : StronglySorted le_fst (firstn c sl ++ skipn c sl))
      by (rewrite firstn_skipn; apply isort_sorted).
    apply (sorted_app_le _ _ Hs _ _ Nj Mi).
  Qed.

  Lemma keeps_one : (1 <= length (r_kept (truncate xs o)))%nat.
  Proof. rewrite kept_length. assert (H := c_lt). lia. Qed.

  Lemma nth_st0 k : (k < n)%nat -> nth k (st0 ss) false = true.
  Proof. intros H. unfold st0. apply nth_map_true. rewrite ss_len. exact H. Qed.

  Lemma c_in5 : nth c (st5 ss o) false = true.
  Proof. apply cut_in5. exact ss_nonempty. Qed.
  Lemma c_in4 : nth c (st4 ss o) false = true. Proof. apply sub_54, c_in5. Qed.
  Lemma c_in3 : nth c (st3 ss o) false = true. Proof. apply sub_43, c_in4. Qed.
  Lemma c_in2 : nth c (st2 ss o) false = true. Proof. apply sub_32, c_in3. Qed.
  Lemma c_in1 : nth c (st1 ss o) false = true. Proof. apply sub_21, c_in2. Qed.

  Lemma nth_good_chi_max m k : (k < n)%nat ->
    nth k (good_chi_max (length ss) m) false = (slice_start (Z.of_nat n) (- m) <=? Z.of_nat k).
  Proof. intros H. unfold good_chi_max, idxs. rewrite ss_len. rewrite nth_map_seq by exact H. reflexivity. Qed.

  Lemma nth_good_chi_min m k : (k < n)%nat ->
    nth k (good_chi_min (length ss) m) false = negb (slice_start (Z.of_nat n) (- m + 1) <=? Z.of_nat k).
  Proof. intros H. unfold good_chi_min, idxs. rewrite ss_len. rewrite nth_map_seq by exact H. reflexivity. Qed.

  (* chi_max >= 1 is always honoured *)
  Lemma chi_max_bound m : chi_max o = Some m -> 1 <= m ->
    Z.of_nat (length (r_kept (truncate xs o))) <= m.
  Proof.
    intros Hm H1. rewrite kept_length. assert (Hc := c_lt). assert (Hn : (0 < n)%nat) by lia.
    assert (Hin := c_in1). unfold st1, opt_apply in Hin. rewrite Hm in Hin.
    apply combine_constraints_sat in Hin.
    - rewrite nth_good_chi_max in Hin by exact Hc. unfold slice_start in Hin.
      destruct (- m <? 0) eqn:E; lia.
    - apply anyb_nth. exists (n - 1)%nat. apply nth_andl.
      + apply nth_st0. lia.
      + rewrite nth_good_chi_max by lia. unfold slice_start. destruct (- m <? 0) eqn:E; lia.
  Qed.

  (* chi_min is honoured whenever compatible with chi_max and the length *)
  Lemma chi_min_bound m : chi_min o = Some m -> m <= Z.of_nat n ->
    (chi_max o = None \/ exists M, chi_max o = Some M /\ m <= M) ->
    m <= Z.of_nat (length (r_kept (truncate xs o))).
  Proof.
    intros Hm Hn HM. rewrite kept_length. assert (Hc := c_lt).
    destruct (Z.leb_spec m 1) as [Hle|Hgt]; [lia|].
    assert (Hin := c_in2). unfold st2 in Hin. rewrite Hm in Hin.
    destruct (Z.ltb_spec 1 m) as [_|]; [|lia].
    apply combine_constraints_sat in Hin.
    - rewrite nth_good_chi_min in Hin by exact Hc. unfold slice_start in Hin.
      destruct (- m + 1 <? 0) eqn:E; lia.
    - apply anyb_nth. exists (n - Z.to_nat m)%nat. apply nth_andl.
      + unfold st1, opt_apply. destruct HM as [->|[M [-> HM]]].
        * apply nth_st0. lia.
        * unfold combine_constraints.
          assert (W : nth (n - Z.to_nat m) (andl (st0 ss) (good_chi_max (length ss) M)) false = true).
          { apply nth_andl; [apply nth_st0; lia|]. rewrite nth_good_chi_max by lia.
            unfold slice_start. destruct (- M <? 0) eqn:E; lia. }
          assert (A : anyb (andl (st0 ss) (good_chi_max (length ss) M)) = true)
            by (apply anyb_nth; eexists; exact W).
          rewrite A. exact W.
      + rewrite nth_good_chi_min by lia. unfold slice_start. destruct (- m + 1 <? 0) eqn:E; lia.
  Qed.

  (* svd_min: honoured whenever satisfiable together with the accepted earlier constraints *)
  Lemma svd_min_bound m : svd_min o = Some m ->
    anyb (andl (st3 ss o) (good_svd_min ss m)) = true ->
    forall v, In v (r_kept (truncate xs o)) -> m <= v.
  Proof.
    intros Hm Hsat v Hv. assert (Hc := c_lt).
    assert (Hin := c_in4). unfold st4, opt_apply in Hin. rewrite Hm in Hin.
    apply (combine_constraints_sat _ _ _ Hsat) in Hin.
    unfold good_svd_min in Hin.
    rewrite nth_map_Z in Hin by (rewrite ss_len; exact Hc).
    rewrite kept_eq in Hv. destruct (In_nth _ _ 0 Hv) as [k [Hk Hnth]].
    rewrite skipn_length, ss_len in Hk. rewrite nth_skipn_Z in Hnth.
    assert (H := StronglySorted_nth ss ss_sorted c (c + k)%nat). rewrite ss_len in H.
    specialize (H ltac:(lia)). lia.
  Qed.

  (* degeneracy: no cut inside a multiplet, whenever satisfiable *)
  Lemma deg_bound p q : deg_tol o = Some (p, q) ->
    anyb (andl (st2 ss o) (good_deg ss p q)) = true ->
    c = 0%nat \/ deg_ok p q (nthZ ss (c - 1)) (nthZ ss c) = true.
  Proof.
    intros Hd Hsat. assert (Hc := c_lt).
    assert (Hin := c_in3). unfold st3, opt_apply in Hin. rewrite Hd in Hin. cbn [fst snd] in Hin.
    apply (combine_constraints_sat _ _ _ Hsat) in Hin.
    unfold good_deg, idxs in Hin. rewrite ss_len in Hin. rewrite nth_map_seq in Hin by exact Hc.
    destruct c as [|c']; [left; reflexivity|right].
    replace (Datatypes.S c' - 1)%nat with c' by lia. exact Hin.
  Qed.
End Trunc.

(* ------------------------------------------------------------------ error accounting *)
Lemma combine_map_seq (f : nat -> bool) (xs : list Z) k :
  combine (map f (seq k (length xs))) xs = map (fun vi => (f (snd vi), fst vi)) (combine xs (seq k (length xs))).
Proof.
  revert k; induction xs as [|x t IH]; intros k; cbn [length seq map combine fst snd]; [reflexivity|].
  f_equal. apply IH.
Qed.

Lemma sumZ_map_ext {A} (f g : A -> Z) l : (forall a, In a l -> f a = g a) -> sumZ (map f l) = sumZ (map g l).
Proof.
  induction l as [|a t IH]; intros H; cbn [map sumZ]; [reflexivity|].
  rewrite (H a (or_introl eq_refl)), IH; [reflexivity|]. intros b Hb. apply H. right. exact Hb.
Qed.

Lemma sumZ_map_zero {A} (f : A -> Z) l : (forall a, In a l -> f a = 0) -> sumZ (map f l) = 0.
Proof.
  induction l as [|a t IH]; intros H; cbn [map sumZ]; [reflexivity|].
  rewrite (H a (or_introl eq_refl)), IH; [reflexivity|]. intros b Hb. apply H. right. exact Hb.
Qed.

Section Err.
  Variable xs : list Z.
  Variable o : opts.
  Hypothesis nonempty : xs <> [].
  Let sl := sorted_pairs xs.
  Let ss := map fst sl.
  Let piv := map snd sl.
  Let c := cut ss o.
  Let n := length xs.
  Let inkeep (i : nat) := existsb (Nat.eqb i) (skipn c piv).

  Lemma piv_nodup : NoDup piv.
  Proof. apply (Permutation_NoDup (Permutation_sym (piv_perm xs))). apply seq_NoDup. Qed.

  Lemma firstn_not_keep vi : In vi (firstn c sl) -> inkeep (snd vi) = false.
  Proof.
    intros H. destruct (inkeep (snd vi)) eqn:E; [|reflexivity]. exfalso.
    apply existsb_eqb_In in E.
    assert (H1 : In (snd vi) (firstn c piv)) by (unfold piv; rewrite firstn_map; apply in_map; exact H).
    assert (ND := piv_nodup). rewrite <- (firstn_skipn c piv) in ND.
    revert H1 E. generalize (firstn c piv) (skipn c piv) ND. clear.
    intros l1 l2 ND H1 H2. induction l1 as [|a l1 IH]; [destruct H1|].
    cbn [app] in ND. inversion ND as [|? ? Hn ND']; subst.
    destruct H1 as [->|H1]; [apply Hn, in_or_app; right; exact H2|apply IH; assumption].
  Qed.

  Lemma skipn_keep vi : In vi (skipn c sl) -> inkeep (snd vi) = true.
  Proof. intros H. apply existsb_eqb_In. unfold piv. rewrite skipn_map. apply in_map. exact H. Qed.

  Lemma sel_sum (b : bool) :
    sumZ (map (fun mb : bool * Z => if Bool.eqb (fst mb) b then sq (snd mb) else 0)
              (combine (map inkeep (seq 0 n)) xs))
    = sumZ (map (fun vi : Z * nat => if Bool.eqb (inkeep (snd vi)) b then sq (fst vi) else 0) sl).
  Proof.
    unfold n. rewrite combine_map_seq, map_map. cbn [fst snd].
    apply sumZ_perm. apply Permutation_map. apply Permutation_sym. apply isort_perm.
  Qed.

  Lemma eps_sorted : r_eps (truncate xs o) = sumZ (map sq (firstn c ss)).
  Proof.
    cbn [truncate r_eps]. fold sl. fold ss. fold piv. fold c. fold n.
    change (fun i : nat => existsb (Nat.eqb i) (skipn c piv)) with inkeep.
    rewrite sel_sum. rewrite <- (firstn_skipn c sl) at 1. rewrite map_app, sumZ_app.
    rewrite (sumZ_map_zero _ (skipn c sl)).
    - rewrite (sumZ_map_ext _ (fun vi => sq (fst vi)) (firstn c sl)).
      + unfold ss. rewrite firstn_map, map_map. lia.
      + intros vi Hvi. rewrite (firstn_not_keep vi Hvi). reflexivity.
    - intros vi Hvi. rewrite (skipn_keep vi Hvi). reflexivity.
  Qed.

  Lemma norm_sorted : r_norm2 (truncate xs o) = sumZ (map sq (skipn c ss)).
  Proof.
    cbn [truncate r_norm2]. fold sl. fold ss. fold piv. fold c. fold n.
    change (fun i : nat => existsb (Nat.eqb i) (skipn c piv)) with inkeep.
    rewrite sel_sum. rewrite <- (firstn_skipn c sl) at 1. rewrite map_app, sumZ_app.
    rewrite (sumZ_map_zero _ (firstn c sl)).
    - rewrite (sumZ_map_ext _ (fun vi => sq (fst vi)) (skipn c sl)).
      + unfold ss. rewrite skipn_map, map_map. lia.
      + intros vi Hvi. rewrite (skipn_keep vi Hvi). reflexivity.
    - intros vi Hvi. rewrite (firstn_not_keep vi Hvi). reflexivity.
  Qed.

  Lemma ss_perm : Permutation ss xs.
  Proof.
    unfold ss, sl, sorted_pairs. eapply perm_trans; [apply Permutation_map, isort_perm|].
    rewrite map_fst_combine_seq. apply Permutation_refl.
  Qed.

  Lemma total_split : r_eps (truncate xs o) + r_norm2 (truncate xs o) = sumZ (map sq xs).
  Proof.
    rewrite eps_sorted, norm_sorted. rewrite <- sumZ_app, <- map_app, firstn_skipn.
    apply sumZ_perm, Permutation_map, ss_perm.
  Qed.
End Err.

Lemma cumsum_sq_nth l : forall acc k, (k < length l)%nat ->
  nth k (cumsum_sq acc l) 0 = acc + sumZ (map sq (firstn (Datatypes.S k) l)).
Proof.
  induction l as [|x t IH]; intros acc k H; cbn [length] in H; [lia|].
  destruct k as [|k]; cbn [cumsum_sq nth firstn map sumZ].
  - unfold sq. lia.
  - rewrite IH by lia. cbn [firstn map sumZ]. unfold sq. lia.
Qed.

Lemma firstn_S_snoc (l : list Z) k : (k < length l)%nat -> firstn (Datatypes.S k) l = firstn k l ++ [nthZ l k].
Proof.
  revert k. induction l as [|x t IH]; intros k Hk; cbn [length] in Hk; [lia|].
  destruct k as [|k]; [reflexivity|]. cbn [firstn app]. f_equal. unfold nthZ. cbn [nth]. apply IH. lia.
Qed.

(* trunc_cut alone: discarded weight <= trunc_cut^2, and discarding one more would exceed it *)
Lemma trunc_cut_only xs t : xs <> [] -> 0 <= t ->
  let o := mkOpts None None None None (Some t) in
  r_eps (truncate xs o) <= t /\
  (t < sumZ (map sq xs) ->
   t < r_eps (truncate xs o) + sq (nthZ (map fst (sorted_pairs xs)) (cut (map fst (sorted_pairs xs)) o))).
Proof.
  intros Hne Ht o. set (ss := map fst (sorted_pairs xs)). set (c := cut ss o).
  assert (Hlen : length ss = length xs) by (unfold ss; rewrite map_length; apply sorted_pairs_length).
  assert (Hss : ss <> []) by (intros E; rewrite E in Hlen; destruct xs; [congruence|discriminate]).
  assert (Hc : (c < length ss)%nat) by (apply cut_lt; exact Hss).
  rewrite (eps_sorted xs o). fold ss. fold c.
  assert (G : forall k, (k < length ss)%nat ->
              nth k (good_trunc_cut ss t) false = (t <? sumZ (map sq (firstn (Datatypes.S k) ss)))).
  { intros k Hk. unfold good_trunc_cut.
    rewrite nth_map_Z by (rewrite cumsum_sq_length; exact Hk).
    rewrite cumsum_sq_nth by exact Hk. f_equal. }
  assert (S5 : st5 ss o = combine_constraints (st0 ss) (good_trunc_cut ss t)) by reflexivity.
  assert (All0 : forall k, (k < length ss)%nat -> nth k (st0 ss) false = true)
    by (intros k Hk; unfold st0; apply nth_map_true; exact Hk).
  destruct (anyb (andl (st0 ss) (good_trunc_cut ss t))) eqn:A.
  - (* satisfiable *)
    assert (Hin : nth c (good_trunc_cut ss t) false = true).
    { apply (combine_constraints_sat (st0 ss)); [exact A|]. rewrite <- S5. apply cut_in5. exact Hss. }
    rewrite G in Hin by exact Hc.
    split.
    + destruct c as [|c'] eqn:Ec; [cbn [firstn map sumZ]; lia|].
      assert (Hm : nth c' (st5 ss o) false = false) by (apply cut_min; [exact Hss|fold c; lia]).
      rewrite S5 in Hm. unfold combine_constraints in Hm. rewrite A in Hm.
      destruct (nth c' (good_trunc_cut ss t) false) eqn:E.
      * rewrite nth_andl in Hm; [discriminate|apply All0; lia|exact E].
      * rewrite G in E by lia. lia.
    + intros _. assert (E : firstn (Datatypes.S c) ss = firstn c ss ++ [nthZ ss c]).
      { apply firstn_S_snoc. exact Hc. }
      rewrite E, map_app, sumZ_app in Hin. cbn [map sumZ] in Hin. lia.
  - (* unsatisfiable: every partial sum <= t, nothing is discarded *)
    assert (C0 : c = 0%nat).
    { unfold c, cut. rewrite S5. unfold combine_constraints. rewrite A.
      unfold st0. destruct ss as [|x l]; [congruence|reflexivity]. }
    rewrite C0. cbn [firstn map sumZ]. split; [lia|].
    intros Hlt. exfalso.
    assert (Hl : (length ss - 1 < length ss)%nat) by lia.
    assert (W : nth (length ss - 1) (andl (st0 ss) (good_trunc_cut ss t)) false = true).
    { apply nth_andl; [apply All0; exact Hl|]. rewrite G by exact Hl.
      replace (Datatypes.S (length ss - 1)) with (length ss) by lia. rewrite firstn_all.
      assert (P : sumZ (map sq ss) = sumZ (map sq xs)) by (apply sumZ_perm, Permutation_map, ss_perm).
      lia. }
    assert (A' : anyb (andl (st0 ss) (good_trunc_cut ss t)) = true) by (apply anyb_nth; eexists; exact W).
    congruence.
Qed.

(* ------------------------------------------------------------------ unsorted input *)
Lemma insert_fst x l : map fst (insert x l) =
  (fix ins (v : Z) (l : list Z) := match l with [] => [v] | y :: t => if v <=? y then v :: l else y :: ins v t end)
    (fst x) (map fst l).
Proof. induction l as [|y t IH]; cbn [insert map]; [reflexivity|]. destruct (fst x <=? fst y); cbn [map]; [reflexivity|]. f_equal. exact IH. Qed.

Lemma sorted_perm_eq (l1 l2 : list Z) : StronglySorted Z.le l1 -> StronglySorted Z.le l2 ->
  Permutation l1 l2 -> l1 = l2.
Proof.
  revert l2. induction l1 as [|x t IH]; intros l2 S1 S2 P.
  - apply Permutation_nil in P. congruence.
  - destruct l2 as [|y u]; [apply Permutation_sym, Permutation_nil in P; discriminate|].
    inversion S1 as [|? ? S1t Hx]; inversion S2 as [|? ? S2u Hy]; subst.
    assert (x = y).
    { assert (Hxin : In x (y :: u)) by (apply (Permutation_in _ P); left; reflexivity).
      assert (Hyin : In y (x :: t)) by (apply (Permutation_in _ (Permutation_sym P)); left; reflexivity).
      rewrite Forall_forall in Hx, Hy.
      destruct Hxin as [->|Hxin]; [reflexivity|]. destruct Hyin as [->|Hyin]; [reflexivity|].
      specialize (Hx _ Hyin). specialize (Hy _ Hxin). lia. }
    subst y. f_equal. apply IH; [assumption|assumption|]. apply (Permutation_cons_inv P).
Qed.

Lemma sorted_values_perm xs ys : Permutation xs ys ->
  map fst (sorted_pairs xs) = map fst (sorted_pairs ys).
Proof.
  intros P. apply sorted_perm_eq.
  - apply sorted_map_fst, isort_sorted.
  - apply sorted_map_fst, isort_sorted.
  - eapply perm_trans; [apply ss_perm|]. eapply perm_trans; [exact P|]. apply Permutation_sym, ss_perm.
Qed.

Lemma unsorted_input xs ys o : xs <> [] -> Permutation xs ys ->
  r_kept (truncate xs o) = r_kept (truncate ys o) /\
  r_eps (truncate xs o) = r_eps (truncate ys o) /\
  r_norm2 (truncate xs o) = r_norm2 (truncate ys o).
Proof.
  intros Hx P.
  assert (Hy : ys <> []) by (intros E; subst; apply Permutation_sym, Permutation_nil in P; congruence).
  rewrite !eps_sorted, !norm_sorted. rewrite !kept_eq.
  rewrite (sorted_values_perm xs ys P). repeat split.
Qed.
