(* C02 / C01 over whole programs (Model/TensorProg.v): well-formedness at every intermediate step of every history of the modelled
   operations, and agreement of the block-sparse run with the dense (numpy-level) run of the same program. *)
From TenpyV Require Import Base.Prelude Model.Charge Model.Tensor Model.TensorOps Model.TensorDot Model.TakeSlice Model.TensorProg.
From TenpyV Require Import Proofs.ChargeP Proofs.TensorP Proofs.TensorP2 Proofs.TensorP3 Proofs.TensorDotP Proofs.TakeSliceP.
From TenpyV Require Import Proofs.TensorProgP2.
Open Scope Z_scope.

(* ------------------------------------------------------------------ environments *)
Lemma get_in (e : list arr) x : (x < length e)%nat -> In (get e x) e.
Proof. intros H. unfold get. apply nth_In. exact H. Qed.

Lemma get_wf ci e x : Forall (WF ci) e -> (x < length e)%nat -> WF ci (get e x).
Proof. intros HF Hx. rewrite Forall_forall in HF. apply HF. apply get_in. exact Hx. Qed.

Lemma Forall_replace_at {A} (P : A -> Prop) d r l : Forall P l -> P r -> Forall P (replace_at d r l).
Proof.
  intros HF Hr. revert d. induction HF as [|x l Hx HF IH]; intros d; cbn [replace_at]; [constructor|].
  destruct d as [|d]; constructor; auto.
Qed.

Lemma Forall_store {A} (P : A -> Prop) dst r l : Forall P l -> P r -> Forall P (store dst r l).
Proof.
  intros HF Hr. destruct dst as [d|]; cbn [store].
  - apply Forall_replace_at; assumption.
  - apply Forall_app. split; [exact HF|]. constructor; [exact Hr|constructor].
Qed.

Lemma Forall2_replace_at {A B} (R : A -> B -> Prop) d r r' l l' :
  Forall2 R l l' -> R r r' -> Forall2 R (replace_at d r l) (replace_at d r' l').
Proof.
  intros HF Hr. revert d. induction HF as [|x y l l' Hx HF IH]; intros d; cbn [replace_at]; [constructor|].
  destruct d as [|d]; constructor; auto.
Qed.

Lemma Forall2_store {A B} (R : A -> B -> Prop) dst r r' l l' :
  Forall2 R l l' -> R r r' -> Forall2 R (store dst r l) (store dst r' l').
Proof.
  intros HF Hr. destruct dst as [d|]; cbn [store].
  - apply Forall2_replace_at; assumption.
  - apply Forall2_app; [exact HF|]. constructor; [exact Hr|constructor].
Qed.

Lemma map_replace_at {A B} (f : A -> B) d r l : map f (replace_at d r l) = replace_at d (f r) (map f l).
Proof.
  revert d. induction l as [|x l IH]; intros d; cbn [replace_at map]; [reflexivity|].
  destruct d as [|d]; cbn [map]; [reflexivity|]. rewrite IH. reflexivity.
Qed.

Lemma map_store {A B} (f : A -> B) dst r l : map f (store dst r l) = store dst (f r) (map f l).
Proof.
  destruct dst as [d|]; cbn [store]; [apply map_replace_at|]. rewrite map_app. reflexivity.
Qed.

Lemma run_app ci p1 p2 e : run ci (p1 ++ p2) e = run ci p2 (run ci p1 e).
Proof. revert e. induction p1 as [|ins p1 IH]; intros e; cbn [run app]; [reflexivity|]. apply IH. Qed.

Lemma applicable_prog_app ci p1 p2 e :
  applicable_prog ci (p1 ++ p2) e <-> applicable_prog ci p1 e /\ applicable_prog ci p2 (run ci p1 e).
Proof.
  revert e. induction p1 as [|ins p1 IH]; intros e; cbn [applicable_prog run app]; [tauto|].
  rewrite IH. tauto.
Qed.

(* ------------------------------------------------------------------ C02: one step *)
Lemma step_wf ci o e : valid_ci ci -> Forall (WF ci) e -> applicable ci o e -> WF ci (step ci o e).
Proof.
  intros Hv HF Ha. destruct o as [x p|x|x s|x y alpha|x y|x y k|x ax i|x i j|x ax newq newqc]; cbn [step applicable] in *.
  - destruct Ha as [Hx HP]. apply wf_transpose; [exact HP|]. apply get_wf; assumption.
  - apply wf_conj; [exact Hv|]. apply get_wf; assumption.
  - apply wf_scale. apply get_wf; assumption.
  - destruct Ha as [Hx [Hy [Hl Hq]]]. apply wf_add; try assumption; apply get_wf; assumption.
  - destruct Ha as [Hx Hy]. apply wf_outer; [exact Hv| |]; apply get_wf; assumption.
  - destruct Ha as [Hx [Hy [Hka [Hkb Hc]]]]. apply wf_tensordot; try assumption; apply get_wf; assumption.
  - destruct Ha as [Hx [Hax [Hi Hc]]]. apply wf_take_slice; try assumption. apply get_wf; assumption.
  - destruct Ha as [Hx [Hi Hj]]. apply wf_iswapaxes; try assumption. apply get_wf; assumption.
  - destruct Ha as [Hx [Hax [Hnq [Hoq [Hnqc [Hch Hrng]]]]]]. apply wf_gauge; try assumption. apply get_wf; assumption.
Qed.

Lemma step_qtot ci o e : qtot (step ci o e) = qtot_doc ci o e.
Proof.
  destruct o as [x p|x|x s|x y alpha|x y|x y k|x ax i|x i j|x ax newq newqc]; cbn [step qtot_doc]; try reflexivity.
  - unfold scale. destruct (ceqb s c0); reflexivity.
  - unfold iswapaxes. destruct (i =? j)%nat; reflexivity.
Qed.

Lemma exec_wf ci ins e : valid_ci ci -> Forall (WF ci) e -> applicable ci (fst ins) e -> Forall (WF ci) (exec ci ins e).
Proof. intros Hv HF Ha. unfold exec. apply Forall_store; [exact HF|]. apply step_wf; assumption. Qed.

Lemma run_wf ci prog e : valid_ci ci -> Forall (WF ci) e -> applicable_prog ci prog e -> Forall (WF ci) (run ci prog e).
Proof.
  intros Hv. revert e. induction prog as [|ins prog IH]; intros e HF Ha; cbn [run applicable_prog] in *; [exact HF|].
  destruct Ha as [Ha1 Ha2]. apply IH; [|exact Ha2]. apply exec_wf; assumption.
Qed.

Lemma nth_error_split_firstn {A} (l : list A) n x : nth_error l n = Some x -> l = firstn n l ++ x :: skipn (S n) l.
Proof.
  revert n. induction l as [|y l IH]; intros n H; destruct n as [|n]; cbn in H; try discriminate.
  - injection H as ->. reflexivity.
  - cbn [firstn skipn app]. f_equal. apply IH. exact H.
Qed.

Lemma firstn_S_nth_error {A} (l : list A) n x : nth_error l n = Some x -> firstn (S n) l = firstn n l ++ [x].
Proof.
  revert n. induction l as [|y l IH]; intros n H; destruct n as [|n]; cbn in H; try discriminate.
  - injection H as ->. reflexivity.
  - cbn [firstn app]. f_equal. apply IH. exact H.
Qed.

(* C02 over histories: every entry of every intermediate environment is well-formed, every instruction finds its preconditions
   (so the next theorem applies to it), and the total charge of each result is the documented function of its operands *)
Theorem history_wf ci prog e : valid_ci ci -> Forall (WF ci) e -> applicable_prog ci prog e ->
  Forall (WF ci) (run ci prog e) /\
  forall n o dst, nth_error prog n = Some (o, dst) ->
    let en := run ci (firstn n prog) e in
    Forall (WF ci) en /\ applicable ci o en /\ WF ci (step ci o en) /\ qtot (step ci o en) = qtot_doc ci o en /\
    run ci (firstn (S n) prog) e = store dst (step ci o en) en.
Proof.
  intros Hv HF Ha. split; [apply run_wf; assumption|].
  intros n o dst Hn en.
  pose proof (nth_error_split_firstn _ _ _ Hn) as Hsplit.
  rewrite Hsplit in Ha. apply applicable_prog_app in Ha. destruct Ha as [Ha1 Ha2].
  cbn [applicable_prog fst] in Ha2. destruct Ha2 as [Ha2 _].
  assert (Hen : Forall (WF ci) en) by (apply run_wf; assumption).
  split; [exact Hen|]. split; [exact Ha2|]. split; [apply step_wf; assumption|]. split; [apply step_qtot|].
  rewrite (firstn_S_nth_error _ _ _ Hn), run_app. reflexivity.
Qed.

(* ------------------------------------------------------------------ C01: dense arrays *)
Lemma deq_refl A : deq A A.
Proof. split; [reflexivity|]. intros idx _. reflexivity. Qed.

Lemma deq_trans A B D : deq A B -> deq B D -> deq A D.
Proof.
  intros [H1 H2] [H3 H4]. split; [congruence|]. intros idx Hl. rewrite H2 by exact Hl. apply H4. rewrite <- H1. exact Hl.
Qed.

Lemma to_dense_darr : to_dense darr = ddense.
Proof. reflexivity. Qed.

Lemma dget_map e x : dget (map to_dense e) x = to_dense (get e x).
Proof. unfold dget, get. rewrite <- to_dense_darr. apply map_nth. Qed.

Lemma Forall2_nth {A B} (R : A -> B -> Prop) l l' da db x : Forall2 R l l' -> (x < length l)%nat -> R (nth x l da) (nth x l' db).
Proof.
  intros HF. revert x. induction HF as [|a b l l' Hab HF IH]; intros x Hx; cbn [length] in Hx; [lia|].
  destruct x as [|x]; cbn [nth]; [exact Hab|]. apply IH. lia.
Qed.

Lemma index_of_nth p k : NoDup p -> (k < length p)%nat -> index_of (nth k p 0%nat) p = k.
Proof.
  revert k. induction p as [|x p IH]; intros k Hnd Hk; cbn [length] in Hk; [lia|].
  inversion Hnd as [|x' p' Hnin Hnd']; subst. destruct k as [|k]; cbn [nth index_of].
  - rewrite Nat.eqb_refl. reflexivity.
  - destruct (x =? nth k p 0%nat)%nat eqn:E.
    + apply Nat.eqb_eq in E. exfalso. apply Hnin. rewrite E. apply nth_In. lia.
    + f_equal. apply IH; [exact Hnd'|lia].
Qed.

Lemma invperm_length p : length (invperm p) = length p.
Proof. unfold invperm. rewrite map_length, seq_length. reflexivity. Qed.

(* gather p (gather (invperm p) j) = j: the other inverse law *)
Lemma gather_inv_r p r (j : list nat) : Permutation p (seq 0 r) -> length j = r ->
  gather 0%nat p (gather 0%nat (invperm p) j) = j.
Proof.
  intros HP Hj. pose proof (perm_seq_length _ _ HP) as Hl.
  assert (Hnd : NoDup p) by (apply (Permutation_NoDup (Permutation_sym HP)); apply seq_NoDup).
  apply (nth_ext _ _ 0%nat 0%nat).
  - rewrite gather_length. lia.
  - intros k Hk. rewrite gather_length in Hk. rewrite nth_gather by exact Hk.
    assert (Hpk : (nth k p 0 < length p)%nat).
    { rewrite Hl. apply (perm_seq_lt p r); [exact HP|]. apply nth_In. exact Hk. }
    rewrite nth_gather by (rewrite invperm_length; exact Hpk).
    unfold invperm. rewrite (nth_map_in (fun k0 => index_of k0 p) (seq 0 (length p)) _ 0%nat 0%nat) by (rewrite seq_length; exact Hpk).
    rewrite seq_nth by exact Hpk. cbn [Nat.add]. rewrite index_of_nth by assumption. reflexivity.
Qed.

Lemma transpose_dense_inv p a idx : Permutation p (seq 0 (rank a)) -> length idx = rank a ->
  to_ndarray (transpose p a) idx = to_ndarray a (gather 0%nat (invperm p) idx).
Proof.
  intros HP Hl. rewrite <- (gather_inv_r p (rank a) idx HP Hl) at 1.
  apply (transpose_dense p a (gather 0%nat (invperm p) idx) HP).
Qed.

Lemma map_gather {A B} (f : A -> B) da db p l : (forall k, In k p -> (k < length l)%nat) ->
  map f (gather da p l) = gather db p (map f l).
Proof.
  intros H. unfold gather. rewrite map_map. apply map_ext_in. intros k Hk.
  symmetry. apply nth_map_in. apply H. exact Hk.
Qed.

Lemma remove_at_map {A B} (f : A -> B) ax l : map f (remove_at ax l) = remove_at ax (map f l).
Proof. unfold remove_at. rewrite map_app, firstn_map, skipn_map. reflexivity. Qed.

Lemma remove_at_length {A} ax (l : list A) : (ax < length l)%nat -> length (remove_at ax l) = (length l - 1)%nat.
Proof. intros H. unfold remove_at. rewrite app_length, firstn_length, skipn_length. lia. Qed.

Lemma insert_at_length {A} ax (x : A) l : (ax <= length l)%nat -> length (insert_at ax x l) = S (length l).
Proof. intros H. unfold insert_at. rewrite app_length. cbn [length]. rewrite firstn_length, skipn_length. lia. Qed.

Lemma ind_len_conj ls : map ind_len (map conj_leg ls) = map ind_len ls.
Proof. rewrite map_map. apply map_ext. intros l. reflexivity. Qed.

(* one step: the dense form of the block-sparse result is the numpy-level operation on the dense forms of the operands *)
Lemma step_dense ci o e : valid_ci ci -> Forall (WF ci) e -> applicable ci o e ->
  deq (to_dense (step ci o e)) (d_step o (map to_dense e)).
Proof.
  intros Hv HF Ha. destruct o as [x p|x|x s|x y alpha|x y|x y k|x ax i|x i j|x ax newq newqc]; cbn [step d_step applicable] in *;
    rewrite ?dget_map.
  - destruct Ha as [Hx HP]. set (a := get e x) in *. pose proof (perm_seq_length _ _ HP) as Hl. split.
    + cbn [to_dense d_transpose fst transpose legs]. apply map_gather. intros k Hk. apply (perm_seq_lt p (rank a)); assumption.
    + cbn [to_dense d_transpose fst snd]. intros idx Hidx. apply transpose_dense_inv; [exact HP|].
      rewrite Hidx. unfold transpose. cbn [legs]. rewrite map_length, gather_length. exact Hl.
  - split.
    + cbn [to_dense d_conj fst conj legs]. apply ind_len_conj.
    + cbn [to_dense d_conj fst snd]. intros idx _. apply conj_dense.
  - split.
    + cbn [to_dense d_scale fst]. rewrite scale_legs. reflexivity.
    + cbn [to_dense d_scale fst snd]. intros idx _. apply scale_dense.
  - destruct Ha as [Hx [Hy [Hl Hq]]]. split.
    + reflexivity.
    + cbn [to_dense d_add fst snd]. intros idx _. apply (add_dense ci); try assumption; apply get_wf; assumption.
  - destruct Ha as [Hx Hy]. split.
    + cbn [to_dense d_outer fst outer legs]. apply map_app.
    + cbn [to_dense d_outer fst snd]. intros idx Hidx. rewrite map_length. fold (rank (get e x)).
      apply outer_dense; try (apply get_wf; assumption).
      rewrite Hidx. unfold outer. cbn [legs]. rewrite map_length, app_length. unfold rank. lia.
  - destruct Ha as [Hx [Hy [Hka [Hkb Hc]]]]. set (a := get e x) in *. set (b := get e y) in *. split.
    + cbn [to_dense d_tdot fst tensordot legs]. unfold tdot_legs. rewrite map_length. fold (rank a).
      rewrite map_app, firstn_map, skipn_map. reflexivity.
    + unfold to_dense, d_tdot. cbn [fst snd]. intros idx Hidx. rewrite map_length in *. fold (rank a) in *. rewrite skipn_map.
      apply tensordot_dense; try assumption; try (apply get_wf; assumption).
      rewrite Hidx. unfold tensordot, tdot_legs. cbn [legs]. rewrite app_length, firstn_length. unfold rank. lia.
  - destruct Ha as [Hx [Hax [Hi Hc]]]. set (a := get e x) in *. split.
    + cbn [to_dense d_take_slice fst take_slice legs]. apply remove_at_map.
    + cbn [to_dense d_take_slice fst snd]. intros idx Hidx.
      apply (take_slice_full ci ax i a); try assumption; [apply get_wf; assumption|].
      rewrite Hidx. unfold take_slice. cbn [legs]. rewrite map_length, remove_at_length by exact Hax. unfold rank in Hax. lia.
  - destruct Ha as [Hx [Hi Hj]]. set (a := get e x) in *. pose proof (get_wf ci e x HF Hx) as W. fold a in W.
    pose proof (swap_perm_perm (rank a) i j Hi Hj) as HP. pose proof (perm_seq_length _ _ HP) as Hl.
    destruct (wf_iswapaxes ci i j a Hi Hj W) as [_ [_ [Hid Hd]]].
    assert (Hra : length (fst (to_dense a)) = rank a) by (cbn [to_dense fst]; apply map_length). rewrite Hra.
    assert (Hrk : rank (iswapaxes i j a) = rank a).
    { unfold iswapaxes. destruct (i =? j)%nat; [reflexivity|]. unfold transpose, rank. cbn [legs]. rewrite gather_length. exact Hl. }
    split.
    + cbn [to_dense d_transpose fst]. unfold iswapaxes. destruct (i =? j)%nat eqn:E.
      * apply Nat.eqb_eq in E. subst j. rewrite swap_perm_id. unfold gather. unfold rank. rewrite <- (map_length ind_len (legs a)).
        symmetry. apply map_nth_seq.
      * cbn [transpose legs]. apply map_gather. intros k Hk. apply (perm_seq_lt (swap_perm (rank a) i j) (rank a)); assumption.
    + cbn [to_dense d_transpose fst snd]. intros idx Hidx. rewrite map_length in Hidx. fold (rank (iswapaxes i j a)) in Hidx.
      rewrite Hrk in Hidx. rewrite <- (gather_inv_r _ (rank a) idx HP Hidx) at 1. apply Hd.
      rewrite gather_length, invperm_length. exact Hl.
  - destruct Ha as [Hx [Hax [Hnq [Hoq [Hnqc [Hch Hrng]]]]]]. set (a := get e x) in *. pose proof (get_wf ci e x HF Hx) as W. fold a in W.
    destruct (wf_gauge ci ax newq newqc a Hv W Hax Hnq Hoq Hnqc Hch Hrng) as [_ [_ [_ Hd]]]. split.
    + cbn [to_dense fst]. unfold gauge_total_charge, gauge_gen. cbn [legs].
      apply (map_replace_at_same ind_len ax _ (legs a) dleg). reflexivity.
    + cbn [to_dense fst snd]. intros idx _. apply Hd.
Qed.

(* the numpy-level operations respect equality of dense arrays *)
Lemma d_step_congr ci o e E' : applicable ci o e -> Forall2 deq (map to_dense e) E' ->
  deq (d_step o (map to_dense e)) (d_step o E').
Proof.
  intros Ha HE.
  assert (Hg : forall x, (x < length e)%nat -> deq (to_dense (get e x)) (dget E' x)).
  { intros x Hx. rewrite <- dget_map. unfold dget. apply Forall2_nth; [exact HE|]. rewrite map_length. exact Hx. }
  destruct o as [x p|x|x s|x y alpha|x y|x y k|x ax i|x i j|x ax newq newqc]; cbn [d_step applicable] in *; rewrite ?dget_map.
  - destruct Ha as [Hx HP]. destruct (Hg x Hx) as [H1 H2]. pose proof (perm_seq_length _ _ HP) as Hl. split.
    + cbn [d_transpose fst]. rewrite H1. reflexivity.
    + cbn [d_transpose fst snd]. intros idx Hidx. apply H2. rewrite !gather_length, invperm_length in *.
      cbn [to_dense fst]. rewrite map_length. exact Hl.
  - destruct (Hg x Ha) as [H1 H2]. split; [exact H1|]. cbn [d_conj fst snd]. intros idx Hidx. rewrite H2 by exact Hidx. reflexivity.
  - destruct (Hg x Ha) as [H1 H2]. split; [exact H1|]. cbn [d_scale fst snd]. intros idx Hidx. rewrite H2 by exact Hidx. reflexivity.
  - destruct Ha as [Hx [Hy [Hl Hq]]]. destruct (Hg x Hx) as [H1 H2]. destruct (Hg y Hy) as [H3 H4]. split; [exact H1|].
    cbn [d_add fst snd]. intros idx Hidx. rewrite H2 by exact Hidx. rewrite H4; [reflexivity|].
    cbn [to_dense fst] in *. rewrite <- Hl. exact Hidx.
  - destruct Ha as [Hx Hy]. destruct (Hg x Hx) as [H1 H2]. destruct (Hg y Hy) as [H3 H4]. split.
    + cbn [d_outer fst]. rewrite H1, H3. reflexivity.
    + cbn [d_outer fst snd]. intros idx Hidx. rewrite app_length in Hidx. rewrite <- H1.
      rewrite H2 by (rewrite firstn_length; lia). rewrite H4 by (rewrite skipn_length; lia). reflexivity.
  - destruct Ha as [Hx [Hy [Hka [Hkb Hc]]]]. destruct (Hg x Hx) as [H1 H2]. destruct (Hg y Hy) as [H3 H4]. split.
    + cbn [d_tdot fst]. rewrite H1, H3. reflexivity.
    + cbn [d_tdot fst snd]. intros idx Hidx. rewrite <- H1. unfold d_tensordot. apply csum_ext. intros c Hcin.
      apply multi_idx_length in Hcin. rewrite skipn_length in Hcin.
      rewrite app_length, firstn_length, skipn_length in Hidx.
      assert (Hra : length (fst (to_dense (get e x))) = rank (get e x)) by (cbn [to_dense fst]; apply map_length).
      assert (Hrb : length (fst (to_dense (get e y))) = rank (get e y)) by (cbn [to_dense fst]; apply map_length).
      rewrite H2 by (rewrite app_length, firstn_length; lia).
      rewrite H4 by (rewrite app_length, skipn_length; lia). reflexivity.
  - destruct Ha as [Hx [Hax [Hi Hc]]]. destruct (Hg x Hx) as [H1 H2]. split.
    + cbn [d_take_slice fst]. rewrite H1. reflexivity.
    + cbn [d_take_slice fst snd]. intros idx Hidx. apply H2.
      assert (Hra : length (fst (to_dense (get e x))) = rank (get e x)) by (cbn [to_dense fst]; apply map_length).
      rewrite remove_at_length in Hidx by lia. rewrite insert_at_length by lia. lia.
  - destruct Ha as [Hx [Hi Hj]]. destruct (Hg x Hx) as [H1 H2]. rewrite <- H1.
    assert (Hra : length (fst (to_dense (get e x))) = rank (get e x)) by (cbn [to_dense fst]; apply map_length).
    pose proof (swap_perm_perm _ i j Hi Hj) as HP. pose proof (perm_seq_length _ _ HP) as Hl. rewrite Hra. split.
    + cbn [d_transpose fst]. rewrite H1. reflexivity.
    + cbn [d_transpose fst snd]. intros idx Hidx. apply H2. rewrite !gather_length, invperm_length in *. lia.
  - destruct Ha as [Hx _]. exact (Hg x Hx).
Qed.

Lemma run_dense_gen ci prog : valid_ci ci -> forall e E', Forall (WF ci) e -> applicable_prog ci prog e ->
  Forall2 deq (map to_dense e) E' -> Forall2 deq (map to_dense (run ci prog e)) (d_run prog E').
Proof.
  intros Hv. induction prog as [|ins prog IH]; intros e E' HF Ha HE; cbn [run d_run applicable_prog] in *; [exact HE|].
  destruct Ha as [Ha1 Ha2]. apply IH; [apply exec_wf; assumption|exact Ha2|].
  unfold exec, d_exec. rewrite map_store. apply Forall2_store; [exact HE|].
  apply (deq_trans _ (d_step (fst ins) (map to_dense e))); [apply step_dense; assumption|].
  apply (d_step_congr ci); assumption.
Qed.

Lemma Forall2_deq_refl E : Forall2 deq E E.
Proof. induction E as [|A E IH]; constructor; [apply deq_refl|exact IH]. Qed.

(* C01 over programs: to_ndarray commutes with running any applicable program *)
Theorem program_dense ci prog e : valid_ci ci -> Forall (WF ci) e -> applicable_prog ci prog e ->
  Forall2 deq (map to_dense (run ci prog e)) (d_run prog (map to_dense e)).
Proof. intros Hv HF Ha. apply (run_dense_gen ci prog Hv e); try assumption. apply Forall2_deq_refl. Qed.

(* ... read off entry by entry *)
Corollary program_dense_entry ci prog e x idx : valid_ci ci -> Forall (WF ci) e -> applicable_prog ci prog e ->
  (x < length (run ci prog e))%nat ->
  map ind_len (legs (get (run ci prog e) x)) = fst (dget (d_run prog (map to_dense e)) x) /\
  (length idx = rank (get (run ci prog e) x) ->
   to_ndarray (get (run ci prog e) x) idx = snd (dget (d_run prog (map to_dense e)) x) idx).
Proof.
  intros Hv HF Ha Hx. pose proof (program_dense ci prog e Hv HF Ha) as H.
  pose proof (Forall2_nth deq _ _ ddense ddense x H) as Hn. rewrite map_length in Hn. specialize (Hn Hx).
  fold (dget (map to_dense (run ci prog e)) x) in Hn. rewrite dget_map in Hn. destruct Hn as [H1 H2]. split; [exact H1|].
  intros Hl. apply H2. cbn [to_dense fst]. rewrite map_length. exact Hl.
Qed.
