(* Proofs about Model/Automaton.v (property C10), part 2: the model of MPOGraph.from_terms,
   OnsiteTerms.add_to_graph and CouplingTerms.add_to_graph. *)
From TenpyV Require Import Base.Prelude Model.Automaton Proofs.AutomatonP.
Open Scope Z_scope.

(* ------------------------------------------------------------------ closing with both loops *)
Definition lL : edge := mkE IdL IdL 0 c1.
Definition lR : edge := mkE IdR IdR 0 c1.
Definition cl (g : graph) : graph := map (fun es => es ++ [lL; lR]) g.
(* denotation of a state of the closed graph *)
Definition D (g : graph) (k : nat) (x : key) : poly := rden (cl g) k x.
Definition step (g : graph) (k : nat) (e : edge) : poly := map (mstep k e) (D g (S k) (eR e)).

Lemma D_nil k x : D [] k x = if key_eqb x IdR then [(c1, [])] else [].
Proof. apply rden_nil. Qed.

Lemma D_cons es g k x :
  D (es :: g) k x = flat_map (step g k) (out x es) ++
                    (if key_eqb IdL x then D g (S k) IdL else []) ++
                    (if key_eqb IdR x then D g (S k) IdR else []).
Proof.
  unfold D. cbn [cl map]. rewrite rden_cons, out_app, flat_map_app. f_equal.
  unfold out. cbn [filter eL lL lR].
  assert (EL : forall p, map (mstep k lL) p = p) by (intro p; apply (mstep_id_loop IdL); reflexivity).
  assert (ER : forall p, map (mstep k lR) p = p) by (intro p; apply (mstep_id_loop IdR); reflexivity).
  destruct (key_eqb IdL x), (key_eqb IdR x); cbn [flat_map eR lL lR app]; rewrite ?EL, ?ER, ?app_nil_r;
    reflexivity.
Qed.

Lemma out_single_eq x e : eL e = x -> out x [e] = [e].
Proof. intro H. unfold out. cbn [filter]. rewrite H, key_eqb_refl. reflexivity. Qed.
Lemma out_single_neq x e : eL e <> x -> out x [e] = [].
Proof. intro H. unfold out. cbn [filter]. apply key_eqb_neq in H. rewrite H. reflexivity. Qed.
Lemma out_nil_in x es : (forall e, In e es -> eL e <> x) -> out x es = [].
Proof. intro H. apply filter_nil_in. intros e He. apply key_eqb_neq. apply H. exact He. Qed.

(* ------------------------------------------------------------------ consequences of wf *)
Lemma wf_from_cons k prev es g :
  wf_from k prev (es :: g) = true <-> wf_site k prev es = true /\ wf_from (S k) es g = true.
Proof. cbn [wf_from]. apply andb_true_iff. Qed.

Lemma wf_site_iff k prev es : wf_site k prev es = true <->
  (forall e, In e es -> wf_edge k e = true) /\ nodup_keys (lbl_targets es) = true /\
  (forall e, In e es -> is_lbl (eL e) = true -> entered prev (eL e) = true).
Proof.
  unfold wf_site. rewrite !andb_true_iff, !forallb_forall. split.
  - intros [[H1 H2] H3]. split; [exact H1|]. split; [exact H2|]. intros e He Hl.
    specialize (H3 e He). rewrite Hl in H3. exact H3.
  - intros (H1 & H2 & H3). split; [split; assumption|]. intros e He.
    destruct (is_lbl (eL e)) eqn:E; [|reflexivity]. apply H3; assumption.
Qed.

Lemma wf_edge_inv k e : wf_edge k e = true ->
  (eL e = IdL /\ eR e = IdR) \/
  (exists a s, eL e = IdL /\ eR e = Lbl k a s /\ eop e = a /\ ew e = c1) \/
  (exists i a s, eL e = Lbl i a s /\ eR e = Lbl i a s /\ (i < k)%nat /\ eop e = s /\ ew e = c1) \/
  (exists i a s, eL e = Lbl i a s /\ eR e = IdR /\ (i < k)%nat).
Proof.
  unfold wf_edge. destruct e as [l r op w]. cbn [eL eR eop ew].
  destruct l as [| |i a s|n|l|l], r as [| |i' a' s'|n'|r|r]; intro H; try discriminate H.
  - left. auto.
  - right. left. apply andb_true_iff in H. destruct H as [H H3]. apply ceqb_eq in H3.
    assert (i' = k /\ op = a') as [-> ->] by lia. exists a', s'. auto.
  - right. right. right. exists i, a, s. split; [reflexivity|]. split; [reflexivity|]. lia.
  - right. right. left. apply andb_true_iff in H. destruct H as [H H3]. apply ceqb_eq in H3.
    assert (i = i' /\ a = a' /\ s = s' /\ (i < k)%nat /\ op = s) as (-> & -> & -> & Hk & ->) by lia.
    exists i', a', s'. auto.
Qed.

Lemma entered_true es x : entered es x = true <-> exists e, In e es /\ eR e = x.
Proof.
  unfold entered. rewrite existsb_exists. split; intros [e [He H]]; exists e; split; try assumption;
    apply key_eqb_eq; exact H.
Qed.

Lemma entered_false es x : entered es x = false <-> forall e, In e es -> eR e <> x.
Proof.
  split.
  - intros H e He E. assert (H' : entered es x = true) by (apply entered_true; exists e; auto).
    congruence.
  - intro H. destruct (entered es x) eqn:E; [|reflexivity].
    apply entered_true in E. destruct E as [e [He E]]. exfalso. exact (H e He E).
Qed.

Lemma entered_app es fs x : entered (es ++ fs) x = entered es x || entered fs x.
Proof. apply existsb_app. Qed.

Lemma existsb_ext_in {A} (p q : A -> bool) l : (forall x, In x l -> p x = q x) -> existsb p l = existsb q l.
Proof.
  induction l as [|x l IH]; intro H; cbn [existsb]; [reflexivity|].
  rewrite (H x (or_introl eq_refl)), IH; [reflexivity|]. intros y Hy. apply H. right. exact Hy.
Qed.

Lemma wf_mono k prev prev' g : wf_from k prev g = true ->
  (forall x, entered prev x = true -> entered prev' x = true) -> wf_from k prev' g = true.
Proof.
  destruct g as [|es g]; intros H Hm; [reflexivity|].
  apply wf_from_cons in H. destruct H as [Hs Hg]. apply wf_from_cons. split; [|exact Hg].
  apply wf_site_iff in Hs. destruct Hs as (H1 & H2 & H3). apply wf_site_iff.
  split; [exact H1|]. split; [exact H2|]. intros e He Hl. apply Hm. apply H3; assumption.
Qed.

Lemma D_IdR g : forall k prev, wf_from k prev g = true -> D g k IdR = [(c1, [])].
Proof.
  induction g as [|es g IH]; intros k prev H; [reflexivity|].
  apply wf_from_cons in H. destruct H as [Hs Hg]. apply wf_site_iff in Hs. destruct Hs as (H1 & _ & _).
  rewrite D_cons. rewrite out_nil_in.
  - cbn [flat_map key_eqb app]. eapply IH. exact Hg.
  - intros e He E. apply H1 in He. apply wf_edge_inv in He.
    destruct He as [[He _]|[(a & s & He & _)|[(i & a & s & He & _)|(i & a & s & He & _)]]]; congruence.
Qed.

Lemma lbl_not_Id x : is_lbl x = true -> key_eqb IdL x = false /\ key_eqb IdR x = false /\ key_eqb x IdR = false.
Proof. destruct x; intro H; try discriminate H. auto. Qed.

(* no orphan states: a label that is not entered on the previous site denotes nothing *)
Lemma D_orphan g k prev x : wf_from k prev g = true -> is_lbl x = true -> entered prev x = false ->
  D g k x = [].
Proof.
  intros H Hx Hp. destruct (lbl_not_Id x Hx) as (E1 & E2 & E3). destruct g as [|es g].
  - rewrite D_nil, E3. reflexivity.
  - apply wf_from_cons in H. destruct H as [Hs _]. apply wf_site_iff in Hs. destruct Hs as (_ & _ & H3).
    rewrite D_cons, E1, E2, out_nil_in; [reflexivity|].
    intros e He E. specialize (H3 e He). rewrite E in H3. specialize (H3 Hx). congruence.
Qed.

(* at most one edge per site enters a label *)
Lemma lbl_targets_cons e es :
  lbl_targets (e :: es) = if is_lbl (eR e) then eR e :: lbl_targets es else lbl_targets es.
Proof. reflexivity. Qed.

Lemma lbl_targets_entered es x : entered es x = false -> existsb (key_eqb x) (lbl_targets es) = false.
Proof.
  induction es as [|e es IH]; intro H; [reflexivity|].
  unfold entered in H. cbn [existsb] in H. apply orb_false_iff in H. destruct H as [H1 H2].
  rewrite lbl_targets_cons. destruct (is_lbl (eR e)); [|apply IH; exact H2].
  cbn [existsb]. rewrite key_eqb_sym, H1. apply IH. exact H2.
Qed.

Lemma nodup_target_unique es x : nodup_keys (lbl_targets es) = true -> is_lbl x = true ->
  entered es x = true -> exists e0, filter (fun e => key_eqb (eR e) x) es = [e0].
Proof.
  induction es as [|e es IH]; intros Hn Hx He; [discriminate He|].
  rewrite lbl_targets_cons in Hn. cbn [filter]. destruct (key_eqb (eR e) x) eqn:E.
  - apply key_eqb_eq in E. rewrite E, Hx in Hn. cbn [nodup_keys] in Hn.
    apply andb_true_iff in Hn. destruct Hn as [Hn _]. exists e. f_equal.
    apply filter_nil_in. intros e' He'.
    destruct (entered es x) eqn:E2.
      destruct (key_eqb (eR e') x) eqn:E3; [|reflexivity]. exfalso.
      apply key_eqb_eq in E3.
      assert (Hin : existsb (key_eqb x) (lbl_targets es) = true).
      { apply existsb_exists. exists x. split; [|apply key_eqb_refl].
        unfold lbl_targets. apply filter_In. split; [|exact Hx]. apply in_map_iff. exists e'. auto. }
      rewrite Hin in Hn. discriminate Hn.
    + apply key_eqb_neq. rewrite entered_false in E2. apply E2. exact He'.
  - unfold entered in He. cbn [existsb] in He. rewrite E in He. cbn [orb] in He.
    apply IH; try assumption.
    destruct (is_lbl (eR e)); [|exact Hn]. cbn [nodup_keys] in Hn.
    apply andb_true_iff in Hn. apply Hn.
Qed.

Lemma flat_map_filter_nil {A B} (p : A -> bool) (h : A -> list B) l :
  (forall y, p y = false -> h y = []) -> flat_map h l = flat_map h (filter p l).
Proof.
  intro H. induction l as [|y l IH]; cbn [flat_map filter]; [reflexivity|].
  destruct (p y) eqn:E; cbn [flat_map]; rewrite IH; [reflexivity|]. rewrite (H y E). reflexivity.
Qed.

(* ------------------------------------------------------------------ the generic site step *)
Lemma site_step (l x : key) (op : Z) es T g' k new' :
  is_lbl l = true ->
  Permutation (D T (S k) l) (D g' (S k) l ++ [new']) ->
  (forall y, y <> l -> D T (S k) y = D g' (S k) y) ->
  nodup_keys (lbl_targets es) = true ->
  (forall e, In e es -> eR e = l -> eL e = x /\ eop e = op /\ ew e = c1) ->
  (entered es l = false -> D g' (S k) l = []) ->
  Permutation (D ((if entered es l then es else es ++ [mkE x l op c1]) :: T) k x)
              (D (es :: g') k x ++ [mstep k (mkE x l op c1) new']).
Proof.
  intros Hl HP HU Hn Hsh Ho.
  assert (HlL : l <> IdL) by (intro E; subst l; discriminate Hl).
  assert (HlR : l <> IdR) by (intro E; subst l; discriminate Hl).
  rewrite !D_cons. rewrite !(HU IdL), !(HU IdR) by congruence.
  set (tl := (if key_eqb IdL x then D g' (S k) IdL else []) ++ (if key_eqb IdR x then D g' (S k) IdR else [])).
  set (m := mstep k (mkE x l op c1) new').
  assert (Main : Permutation (flat_map (step T k) (out x (if entered es l then es else es ++ [mkE x l op c1])))
                             (flat_map (step g' k) (out x es) ++ [m])).
  { destruct (entered es l) eqn:En.
    - set (H := fun e => if key_eqb (eR e) l then [mstep k e new'] else []).
      apply perm_trans with (flat_map (fun e => step g' k e ++ H e) (out x es)).
      + apply perm_flat_map_pointwise. intros e _. unfold H, step.
        destruct (key_eqb (eR e) l) eqn:E.
        * apply key_eqb_eq in E. rewrite E.
          change [mstep k e new'] with (map (mstep k e) [new']). rewrite <- map_app.
          apply Permutation_map. exact HP.
        * apply key_eqb_neq in E. rewrite (HU _ E), app_nil_r. apply Permutation_refl.
      + eapply perm_trans; [apply perm_flat_map_split|]. apply Permutation_app_head.
        destruct (nodup_target_unique es l Hn Hl En) as [e0 He0].
        destruct (filter_single_in _ _ _ He0) as [Hin0 HR0]. apply key_eqb_eq in HR0.
        destruct (Hsh e0 Hin0 HR0) as (HL0 & Hop0 & Hw0).
        rewrite (flat_map_filter_nil (fun e => key_eqb (eR e) l) H).
        2:{ intros y Hy. unfold H. rewrite Hy. reflexivity. }
        unfold out. rewrite filter_filter.
        rewrite (filter_ext_in' _ (fun e => key_eqb (eR e) l && key_eqb (eL e) x)) by (intros; apply andb_comm).
        rewrite <- filter_filter, He0. cbn [filter]. rewrite HL0, key_eqb_refl. cbn [flat_map].
        unfold H. rewrite HR0, key_eqb_refl. cbn [app]. unfold m.
        replace e0 with (mkE x l op c1); [apply Permutation_refl|].
        destruct e0 as [a1 a2 a3 a4]. cbn [eL eR eop ew] in *. subst. reflexivity.
    - rewrite out_app, flat_map_app, (out_single_eq x) by reflexivity. cbn [flat_map]. rewrite app_nil_r.
      apply Permutation_app.
      + rewrite (flat_map_ext_in' (step T k) (step g' k)); [apply Permutation_refl|].
        intros e He. apply in_out in He. destruct He as [He _]. unfold step. rewrite HU; [reflexivity|].
        rewrite entered_false in En. apply En. exact He.
      + unfold step, m. cbn [eR]. change [mstep k (mkE x l op c1) new'] with (map (mstep k (mkE x l op c1)) [new']).
        apply Permutation_map. rewrite (Ho eq_refl) in HP. exact HP. }
  eapply perm_trans; [apply Permutation_app_tail; exact Main|].
  rewrite <- !app_assoc. apply Permutation_app_head. apply Permutation_app_comm.
Qed.

(* ------------------------------------------------------------------ one coupling term *)
Section Coupling.
Variables (i0 : nat) (a s b : Z) (w : C).
Local Notation lbl := (Lbl i0 a s).

(* per-site form of add_cterm: relative indices, structural recursion over the sites *)
Definition site_start (es : list edge) : list edge :=
  if existsb (fun e => key_eqb (eL e) IdL && key_eqb (eR e) lbl && (eop e =? a)) es then es
  else es ++ [mkE IdL lbl a c1].
Definition site_str (es : list edge) : list edge :=
  if existsb (fun e => key_eqb (eL e) lbl && key_eqb (eR e) lbl) es then es
  else es ++ [mkE lbl lbl s c1].
Fixpoint tailg (n : nat) (g : graph) {struct g} : graph :=
  match g with
  | [] => []
  | es :: g' => match n with
                | O => (es ++ [mkE lbl IdR b w]) :: g'
                | S n' => site_str es :: tailg n' g'
                end
  end.
Fixpoint addc (i n : nat) (g : graph) {struct g} : graph :=
  match g with
  | [] => []
  | es :: g' => match i with
                | O => site_start es :: tailg n g'
                | S i' => es :: addc i' n g'
                end
  end.

(* shapes of the edges around the label *)
Lemma edge_into_lbl k e : wf_edge k e = true -> k <> i0 -> eR e = lbl ->
  eL e = lbl /\ eop e = s /\ ew e = c1.
Proof.
  intros H Hk E. apply wf_edge_inv in H.
  destruct H as [[_ H]|[(a' & s' & _ & H & _)|[(i & a' & s' & H1 & H2 & _ & H3 & H4)|(i & a' & s' & _ & H & _)]]];
    try congruence.
  rewrite H2 in E. injection E as Ei Ea Es. rewrite H1, H3, H4, Ei, Ea, Es. auto.
Qed.

Lemma edge_into_lbl_start e : wf_edge i0 e = true -> eR e = lbl ->
  eL e = IdL /\ eop e = a /\ ew e = c1.
Proof.
  intros H E. apply wf_edge_inv in H.
  destruct H as [[_ H]|[(a' & s' & H1 & H2 & H3 & H4)|[(i & a' & s' & H1 & H2 & Hlt & _)|(i & a' & s' & _ & H & _)]]];
    try congruence.
  - rewrite H2 in E. injection E as Ea Es. rewrite H1, H3, H4, Ea. auto.
  - rewrite H2 in E. injection E as Ei Ea Es. lia.
Qed.

Lemma edge_from_other k e : wf_edge k e = true -> eL e <> IdL -> eL e <> lbl ->
  eR e <> lbl /\ eR e <> IdL.
Proof.
  intros H H1 H2. apply wf_edge_inv in H.
  destruct H as [[H _]|[(a' & s' & H & _)|[(i & a' & s' & E1 & E2 & _)|(i & a' & s' & _ & E & _)]]];
    try congruence.
  - rewrite E2, <- E1. split; [exact H2|]. rewrite E1. discriminate.
  - rewrite E. split; discriminate.
Qed.

Lemma edge_from_IdL k e : wf_edge k e = true -> eL e = IdL -> k <> i0 -> eR e <> lbl /\ eR e <> IdL.
Proof.
  intros H H1 Hk. apply wf_edge_inv in H.
  destruct H as [[_ H]|[(a' & s' & _ & H & _)|[(i & a' & s' & E1 & _)|(i & a' & s' & E1 & _)]]];
    try congruence.
  - rewrite H. split; discriminate.
  - rewrite H. split; [|discriminate]. intro E. injection E as Ei _ _. congruence.
Qed.

Lemma str_test_eq k es : (forall e, In e es -> wf_edge k e = true) -> k <> i0 ->
  existsb (fun e => key_eqb (eL e) lbl && key_eqb (eR e) lbl) es = entered es lbl.
Proof.
  intros H Hk. unfold entered. apply existsb_ext_in. intros e He.
  destruct (key_eqb (eR e) lbl) eqn:E; [|apply andb_false_r]. rewrite andb_true_r.
  apply key_eqb_eq in E. destruct (edge_into_lbl k e (H e He) Hk E) as (-> & _). apply key_eqb_refl.
Qed.

Lemma start_test_eq es : (forall e, In e es -> wf_edge i0 e = true) ->
  existsb (fun e => key_eqb (eL e) IdL && key_eqb (eR e) lbl && (eop e =? a)) es = entered es lbl.
Proof.
  intros H. unfold entered. apply existsb_ext_in. intros e He.
  destruct (key_eqb (eR e) lbl) eqn:E; [|rewrite andb_false_r; reflexivity].
  apply key_eqb_eq in E. destruct (edge_into_lbl_start e (H e He) E) as (-> & -> & _).
  cbn [key_eqb andb]. apply Z.eqb_refl.
Qed.

(* states other than the label are not affected by the string / closing edges *)
Lemma tail_unch g : forall n k prev x, wf_from k prev g = true -> (i0 < k)%nat -> x <> lbl ->
  D (tailg n g) k x = D g k x.
Proof.
  induction g as [|es g IH]; intros n k prev x H Hk Hx; [reflexivity|].
  apply wf_from_cons in H. destruct H as [Hs Hg]. apply wf_site_iff in Hs. destruct Hs as (H1 & _ & _).
  assert (Hxl : lbl <> x) by congruence.
  destruct n as [|n]; cbn [tailg]; rewrite !D_cons.
  - rewrite out_app, (out_single_neq x) by exact Hxl. rewrite app_nil_r. reflexivity.
  - assert (Eo : out x (site_str es) = out x es).
    { unfold site_str. destruct (existsb _ es); [reflexivity|].
      rewrite out_app, (out_single_neq x) by exact Hxl. apply app_nil_r. }
    rewrite Eo. f_equal; [|f_equal].
    + apply flat_map_ext_in'. intros e He. apply in_out in He. destruct He as [He HeL].
      unfold step. rewrite (IH n (S k) es); [reflexivity|exact Hg|lia|].
      intro E. destruct (edge_into_lbl k e (H1 e He)) as (E' & _); [lia|exact E|congruence].
    + destruct (key_eqb IdL x); [|reflexivity]. apply (IH n (S k) es); [exact Hg|lia|discriminate].
    + destruct (key_eqb IdR x); [|reflexivity]. apply (IH n (S k) es); [exact Hg|lia|discriminate].
Qed.

Lemma tail_perm g : forall n k prev, wf_from k prev g = true -> (i0 < k)%nat -> (n < length g)%nat ->
  Permutation (D (tailg n g) k lbl)
              (D g k lbl ++ [(w, wstring k n s ++ consop (k + n) b [])]).
Proof.
  induction g as [|es g IH]; intros n k prev H Hk Hn; [cbn [length] in Hn; lia|].
  apply wf_from_cons in H. destruct H as [Hs Hg]. apply wf_site_iff in Hs. destruct Hs as (H1 & H2 & _).
  destruct n as [|n]; cbn [tailg].
  - rewrite !D_cons, out_app, flat_map_app, (out_single_eq lbl) by reflexivity.
    cbn [key_eqb flat_map app wstring]. unfold step at 2. cbn [eR]. rewrite (D_IdR g (S k) es Hg).
    cbn [map mstep]. unfold mstep. cbn [ew eop fst snd]. rewrite cmul_1_r, Nat.add_0_r, !app_nil_r.
    apply Permutation_refl.
  - unfold site_str. rewrite (str_test_eq k es H1) by lia.
    set (new' := (w, wstring (S k) n s ++ consop (S k + n) b [])).
    assert (Em : mstep k (mkE lbl lbl s c1) new' = (w, wstring k (S n) s ++ consop (k + S n) b [])).
    { unfold mstep, new'. cbn [ew eop fst snd wstring]. rewrite cmul_1_l, consop_app.
      replace (k + S n)%nat with (S k + n)%nat by lia. reflexivity. }
    rewrite <- Em. apply site_step.
    + reflexivity.
    + apply (IH n (S k) es); [exact Hg|lia|cbn [length] in Hn; lia].
    + intros y Hy. apply (tail_unch g n (S k) es); [exact Hg|lia|exact Hy].
    + exact H2.
    + intros e He E. apply (edge_into_lbl k e (H1 e He)); [lia|exact E].
    + intro En. apply (D_orphan g (S k) es); [exact Hg|reflexivity|exact En].
Qed.

(* states other than IdL and the label are not affected at all *)
Lemma addc_unch g : forall i n k prev x, wf_from k prev g = true -> i0 = (k + i)%nat ->
  x <> lbl -> x <> IdL -> D (addc i n g) k x = D g k x.
Proof.
  induction g as [|es g IH]; intros i n k prev x H Hi Hx HxL; [reflexivity|].
  apply wf_from_cons in H. destruct H as [Hs Hg]. apply wf_site_iff in Hs. destruct Hs as (H1 & _ & _).
  assert (EL : key_eqb IdL x = false) by (apply key_eqb_neq; congruence).
  destruct i as [|i]; cbn [addc]; rewrite !D_cons, EL.
  - assert (Eo : out x (site_start es) = out x es).
    { unfold site_start. destruct (existsb _ es); [reflexivity|].
      rewrite out_app, (out_single_neq x) by (cbn [eL]; congruence). apply app_nil_r. }
    rewrite Eo. f_equal; [|f_equal].
    + apply flat_map_ext_in'. intros e He. apply in_out in He. destruct He as [He HeL].
      unfold step. rewrite (tail_unch g n (S k) es); [reflexivity|exact Hg|lia|].
      apply (edge_from_other k e (H1 e He)); congruence.
    + destruct (key_eqb IdR x); [|reflexivity]. apply (tail_unch g n (S k) es); [exact Hg|lia|discriminate].
  - f_equal; [|f_equal].
    + apply flat_map_ext_in'. intros e He. apply in_out in He. destruct He as [He HeL].
      unfold step. destruct (edge_from_other k e (H1 e He)) as [E1 E2]; try congruence.
      rewrite (IH i n (S k) es); [reflexivity|exact Hg|lia|exact E1|exact E2].
    + destruct (key_eqb IdR x); [|reflexivity]. apply (IH i n (S k) es); [exact Hg|lia|discriminate|discriminate].
Qed.

Lemma addc_perm g : forall i n k prev, wf_from k prev g = true -> i0 = (k + i)%nat ->
  (i + S n < length g)%nat ->
  Permutation (D (addc i n g) k IdL)
              (D g k IdL ++ [(w, consop i0 a (wstring (S i0) n s ++ consop (S i0 + n) b []))]).
Proof.
  induction g as [|es g IH]; intros i n k prev H Hi Hn; [cbn [length] in Hn; lia|].
  apply wf_from_cons in H. destruct H as [Hs Hg]. apply wf_site_iff in Hs. destruct Hs as (H1 & H2 & _).
  cbn [length] in Hn.
  destruct i as [|i]; cbn [addc].
  - assert (k = i0) by lia. subst k. unfold site_start. rewrite (start_test_eq es H1).
    set (new' := (w, wstring (S i0) n s ++ consop (S i0 + n) b [])).
    assert (Em : mstep i0 (mkE IdL lbl a c1) new' =
                 (w, consop i0 a (wstring (S i0) n s ++ consop (S i0 + n) b []))).
    { unfold mstep, new'. cbn [ew eop fst snd]. rewrite cmul_1_l. reflexivity. }
    rewrite <- Em. apply site_step.
    + reflexivity.
    + apply (tail_perm g n (S i0) es); [exact Hg|lia|lia].
    + intros y Hy. apply (tail_unch g n (S i0) es); [exact Hg|lia|exact Hy].
    + exact H2.
    + intros e He E. apply (edge_into_lbl_start e (H1 e He) E).
    + intro En. apply (D_orphan g (S i0) es); [exact Hg|reflexivity|exact En].
  - rewrite !D_cons. cbn [key_eqb]. rewrite !app_nil_r, <- app_assoc.
    apply Permutation_app.
    + rewrite (flat_map_ext_in' (step (addc i n g) k) (step g k)); [apply Permutation_refl|].
      intros e He. apply in_out in He. destruct He as [He HeL]. unfold step.
      destruct (edge_from_IdL k e (H1 e He) HeL) as [E1 E2]; [lia|].
      rewrite (addc_unch g i n (S k) es); [reflexivity|exact Hg|lia|exact E1|exact E2].
    + apply (IH i n (S k) es); [exact Hg|lia|lia].
Qed.

(* ---- preservation of well-formedness *)
Lemma nodup_keys_snoc l x : nodup_keys l = true -> existsb (key_eqb x) l = false ->
  nodup_keys (l ++ [x]) = true.
Proof.
  induction l as [|y l IH]; intros Hn Hx; [reflexivity|].
  cbn [nodup_keys app] in *. cbn [existsb] in Hx.
  apply andb_true_iff in Hn. destruct Hn as [Hy Hn]. apply orb_false_iff in Hx. destruct Hx as [Hxy Hx].
  apply andb_true_iff. split; [|apply IH; assumption].
  rewrite existsb_app. cbn [existsb]. rewrite key_eqb_sym, Hxy. rewrite orb_false_r. exact Hy.
Qed.

Lemma lbl_targets_app es fs : lbl_targets (es ++ fs) = lbl_targets es ++ lbl_targets fs.
Proof. unfold lbl_targets. rewrite map_app, filter_app. reflexivity. Qed.

Lemma wf_site_snoc k prev es e : wf_site k prev es = true -> wf_edge k e = true ->
  (is_lbl (eR e) = true -> entered es (eR e) = false) ->
  (is_lbl (eL e) = true -> entered prev (eL e) = true) ->
  wf_site k prev (es ++ [e]) = true.
Proof.
  intros Hs He HR HL. apply wf_site_iff in Hs. destruct Hs as (H1 & H2 & H3). apply wf_site_iff.
  split; [|split].
  - intros f Hf. apply in_app_or in Hf. destruct Hf as [Hf|[<-|[]]]; [apply H1; exact Hf|exact He].
  - rewrite lbl_targets_app. unfold lbl_targets at 2. cbn [map filter].
    destruct (is_lbl (eR e)) eqn:E; [|rewrite app_nil_r; exact H2].
    apply nodup_keys_snoc; [exact H2|]. apply lbl_targets_entered. apply HR. reflexivity.
  - intros f Hf. apply in_app_or in Hf. destruct Hf as [Hf|[<-|[]]]; [apply H3; exact Hf|exact HL].
Qed.

Lemma entered_snoc_mono es e x : entered es x = true -> entered (es ++ [e]) x = true.
Proof. intro H. rewrite entered_app, H. reflexivity. Qed.

Lemma wf_tail g : forall n k prev, wf_from k prev g = true -> (i0 < k)%nat -> entered prev lbl = true ->
  wf_from k prev (tailg n g) = true.
Proof.
  induction g as [|es g IH]; intros n k prev H Hk Hp; [reflexivity|].
  apply wf_from_cons in H. destruct H as [Hs Hg].
  assert (Hlt : (i0 <? k)%nat = true) by (apply Nat.ltb_lt; exact Hk).
  destruct n as [|n]; cbn [tailg]; apply wf_from_cons.
  - split.
    + apply wf_site_snoc; [exact Hs|exact Hlt|discriminate|intros _; exact Hp].
    + apply (wf_mono (S k) es); [exact Hg|]. intro x. apply entered_snoc_mono.
  - assert (H1 := proj1 (proj1 (wf_site_iff k prev es) Hs)).
    unfold site_str. rewrite (str_test_eq k es H1) by lia. destruct (entered es lbl) eqn:En.
    + split; [exact Hs|]. apply IH; [exact Hg|lia|exact En].
    + split.
      * apply wf_site_snoc; [exact Hs| |intros _; exact En|intros _; exact Hp].
        unfold wf_edge. cbn [eL eR eop ew]. rewrite Hlt, Nat.eqb_refl, !Z.eqb_refl. reflexivity.
      * apply IH; [|lia|].
        -- apply (wf_mono (S k) es); [exact Hg|]. intro x. apply entered_snoc_mono.
        -- rewrite entered_app. cbn [entered existsb eR]. rewrite key_eqb_refl. apply orb_true_r.
Qed.

Lemma wf_addc g : forall i n k prev, wf_from k prev g = true -> i0 = (k + i)%nat ->
  wf_from k prev (addc i n g) = true.
Proof.
  induction g as [|es g IH]; intros i n k prev H Hi; [reflexivity|].
  apply wf_from_cons in H. destruct H as [Hs Hg].
  destruct i as [|i]; cbn [addc]; apply wf_from_cons.
  - assert (k = i0) by lia. subst k.
    assert (H1 := proj1 (proj1 (wf_site_iff i0 prev es) Hs)).
    unfold site_start. rewrite (start_test_eq es H1). destruct (entered es lbl) eqn:En.
    + split; [exact Hs|]. apply wf_tail; [exact Hg|lia|exact En].
    + split.
      * apply wf_site_snoc; [exact Hs| |intros _; exact En|discriminate].
        unfold wf_edge. cbn [eL eR eop ew]. rewrite Nat.eqb_refl, Z.eqb_refl. reflexivity.
      * apply wf_tail; [|lia|].
        -- apply (wf_mono (S i0) es); [exact Hg|]. intro x. apply entered_snoc_mono.
        -- rewrite entered_app. cbn [entered existsb eR]. rewrite key_eqb_refl. apply orb_true_r.
  - split; [exact Hs|]. apply IH; [exact Hg|lia].
Qed.

(* ---- the per-site form is the model's add_cterm *)
Lemma upd_site_nil j f : upd_site j f [] = [].
Proof. destruct j; reflexivity. Qed.

Lemma add_string_nil k n ky op : add_string k n ky op [] = [].
Proof.
  revert k. induction n as [|n IH]; intro k; cbn [add_string]; [reflexivity|].
  destruct (has_edge k ky ky []); [apply IH|]. unfold add_edge. rewrite upd_site_nil. apply IH.
Qed.

Lemma add_string_cons n : forall k ky op es g,
  add_string (S k) n ky op (es :: g) = es :: add_string k n ky op g.
Proof.
  induction n as [|n IH]; intros k ky op es g; cbn [add_string]; [reflexivity|].
  change (has_edge (S k) ky ky (es :: g)) with (has_edge k ky ky g).
  destruct (has_edge k ky ky g); [apply IH|].
  change (add_edge (S k) (mkE ky ky op c1) (es :: g)) with (es :: add_edge k (mkE ky ky op c1) g).
  apply IH.
Qed.

Definition tailfull (n : nat) (g : graph) : graph :=
  add_edge n (mkE lbl IdR b w) (add_string 0 n lbl s g).
Definition fullc (i n : nat) (g : graph) : graph :=
  add_edge (i + S n) (mkE lbl IdR b w) (add_string (S i) n lbl s (add_skip i (mkE IdL lbl a c1) g)).

Lemma tailfull_eq n : forall g, tailfull n g = tailg n g.
Proof.
  induction n as [|n IH]; intros [|es g]; unfold tailfull.
  - reflexivity.
  - reflexivity.
  - rewrite add_string_nil. apply upd_site_nil.
  - cbn [add_string tailg]. unfold site_str.
    change (has_edge 0 lbl lbl (es :: g))
      with (existsb (fun e => key_eqb (eL e) lbl && key_eqb (eR e) lbl) es).
    destruct (existsb (fun e => key_eqb (eL e) lbl && key_eqb (eR e) lbl) es).
    + rewrite add_string_cons. unfold add_edge. cbn [upd_site]. f_equal. apply IH.
    + unfold add_edge at 2. cbn [upd_site]. rewrite add_string_cons.
      unfold add_edge. cbn [upd_site]. f_equal. apply IH.
Qed.

Lemma fullc_eq g : forall i n, fullc i n g = addc i n g.
Proof.
  induction g as [|es g IH]; intros i n; unfold fullc.
  - assert (E : add_skip i (mkE IdL lbl a c1) [] = []).
    { unfold add_skip. destruct (has_edge_op _ _ _ _ _); [reflexivity|]. apply upd_site_nil. }
    rewrite E, add_string_nil. apply upd_site_nil.
  - destruct i as [|i]; cbn [addc].
    + unfold add_skip, site_start. cbn [eL eR eop].
      change (has_edge_op 0 IdL lbl a (es :: g))
        with (existsb (fun e => key_eqb (eL e) IdL && key_eqb (eR e) lbl && (eop e =? a)) es).
      destruct (existsb (fun e => key_eqb (eL e) IdL && key_eqb (eR e) lbl && (eop e =? a)) es).
      * rewrite add_string_cons. unfold add_edge. cbn [upd_site Nat.add]. f_equal. apply tailfull_eq.
      * unfold add_edge at 2. cbn [upd_site]. rewrite add_string_cons.
        unfold add_edge. cbn [upd_site Nat.add]. f_equal. apply tailfull_eq.
    + assert (E : add_skip (S i) (mkE IdL lbl a c1) (es :: g) = es :: add_skip i (mkE IdL lbl a c1) g).
      { unfold add_skip.
        change (has_edge_op (S i) (eL (mkE IdL lbl a c1)) (eR (mkE IdL lbl a c1)) (eop (mkE IdL lbl a c1)) (es :: g))
          with (has_edge_op i (eL (mkE IdL lbl a c1)) (eR (mkE IdL lbl a c1)) (eop (mkE IdL lbl a c1)) g).
        destruct (has_edge_op i _ _ _ g); reflexivity. }
      rewrite E, add_string_cons. unfold add_edge. cbn [upd_site Nat.add]. f_equal. apply IH.
Qed.

End Coupling.

(* ------------------------------------------------------------------ close on well-formed graphs *)
Lemma wf_edge_ends k e : wf_edge k e = true -> eR e <> IdL /\ eL e <> IdR.
Proof.
  intro H. apply wf_edge_inv in H.
  destruct H as [[H1 H2]|[(a & s & H1 & H2 & _)|[(i & a & s & H1 & H2 & _)|(i & a & s & H1 & H2 & _)]]];
    rewrite H1, H2; split; discriminate.
Qed.

Lemma close_site_wf k es : (forall e, In e es -> wf_edge k e = true) -> close_site es = es ++ [lL; lR].
Proof.
  intro H. unfold close_site.
  assert (E1 : existsb (fun e => key_eqb (eL e) IdL && key_eqb (eR e) IdL) es = false).
  { apply not_true_is_false. intro E. apply existsb_exists in E.
    destruct E as [e [He E]]. apply andb_true_iff in E. destruct E as [_ E]. apply key_eqb_eq in E.
    destruct (wf_edge_ends k e (H e He)) as [H1 _]. contradiction. }
  assert (E2 : existsb (fun e => key_eqb (eL e) IdR && key_eqb (eR e) IdR) es = false).
  { apply not_true_is_false. intro E. apply existsb_exists in E.
    destruct E as [e [He E]]. apply andb_true_iff in E. destruct E as [E _]. apply key_eqb_eq in E.
    destruct (wf_edge_ends k e (H e He)) as [_ H1]. contradiction. }
  rewrite E1, existsb_app, E2. cbn [existsb eL eR key_eqb andb orb]. rewrite <- app_assoc. reflexivity.
Qed.

Lemma close_wf g : forall k prev, wf_from k prev g = true -> close g = cl g.
Proof.
  induction g as [|es g IH]; intros k prev H; [reflexivity|].
  apply wf_from_cons in H. destruct H as [Hs Hg]. apply wf_site_iff in Hs. destruct Hs as (H1 & _ & _).
  cbn [close cl map]. rewrite (close_site_wf k es H1). f_equal. apply (IH (S k) es Hg).
Qed.

Lemma coef_cons m p w : coef (m :: p) w = cadd (coef [m] w) (coef p w).
Proof. apply (coef_app [m] p w). Qed.

(* ------------------------------------------------------------------ coupling terms *)
Lemma add_cterm_addc g t : (ct_i t < ct_j t)%nat ->
  add_cterm g t = addc (ct_i t) (ct_a t) (ct_s t) (ct_b t) (ct_w t) (ct_i t) (ct_j t - ct_i t - 1) g.
Proof.
  intro H. rewrite <- fullc_eq. unfold add_cterm, fullc.
  replace (ct_i t + S (ct_j t - ct_i t - 1))%nat with (ct_j t) by lia. reflexivity.
Qed.

Lemma add_to_graph_coupling g t : wf g = true -> cterm_ok (length g) t = true ->
  wf (add_cterm g t) = true /\
  peq (denote (close (add_cterm g t))) (nf_cterm t :: denote (close g)).
Proof.
  intros Hwf Hok. unfold cterm_ok in Hok.
  assert (Hij : (ct_i t < ct_j t)%nat /\ (ct_j t < length g)%nat) by lia. destruct Hij as [Hi Hj].
  rewrite add_cterm_addc by exact Hi.
  assert (Hwf' : wf (addc (ct_i t) (ct_a t) (ct_s t) (ct_b t) (ct_w t) (ct_i t) (ct_j t - ct_i t - 1) g) = true).
  { apply wf_addc; [exact Hwf|reflexivity]. }
  split; [exact Hwf'|].
  rewrite (close_wf _ 0%nat [] Hwf'), (close_wf _ 0%nat [] Hwf).
  apply peq_perm. eapply perm_trans.
  - apply (addc_perm (ct_i t) (ct_a t) (ct_s t) (ct_b t) (ct_w t) g (ct_i t) (ct_j t - ct_i t - 1) 0%nat []);
      [exact Hwf|reflexivity|lia].
  - unfold nf_cterm. replace (S (ct_i t) + (ct_j t - ct_i t - 1))%nat with (ct_j t) by lia.
    apply Permutation_sym. apply Permutation_cons_append.
Qed.

(* ------------------------------------------------------------------ onsite terms *)
Lemma wf_add_os op w' g : forall i k prev, wf_from k prev g = true ->
  wf_from k prev (add_edge i (mkE IdL IdR op w') g) = true.
Proof.
  induction g as [|es g IH]; intros i k prev H; unfold add_edge; [rewrite upd_site_nil; reflexivity|].
  apply wf_from_cons in H. destruct H as [Hs Hg].
  destruct i as [|i]; cbn [upd_site]; apply wf_from_cons.
  - split.
    + apply wf_site_snoc; [exact Hs|reflexivity|discriminate|discriminate].
    + apply (wf_mono (S k) es); [exact Hg|]. intro x. apply entered_snoc_mono.
  - split; [exact Hs|]. apply IH. exact Hg.
Qed.

Lemma add_os_unch op w' g : forall i k prev x, wf_from k prev g = true -> x <> IdL ->
  D (add_edge i (mkE IdL IdR op w') g) k x = D g k x.
Proof.
  induction g as [|es g IH]; intros i k prev x H Hx; unfold add_edge; [rewrite upd_site_nil; reflexivity|].
  apply wf_from_cons in H. destruct H as [Hs Hg]. apply wf_site_iff in Hs. destruct Hs as (H1 & _ & _).
  assert (EL : key_eqb IdL x = false) by (apply key_eqb_neq; congruence).
  destruct i as [|i]; cbn [upd_site]; rewrite !D_cons, EL.
  - rewrite out_app, (out_single_neq x) by (cbn [eL]; congruence). rewrite app_nil_r. reflexivity.
  - f_equal; [|f_equal].
    + apply flat_map_ext_in'. intros e He. apply in_out in He. destruct He as [He _]. unfold step.
      rewrite <- (IH i (S k) es (eR e) Hg); [reflexivity|]. apply (wf_edge_ends k e (H1 e He)).
    + destruct (key_eqb IdR x); [|reflexivity]. apply (IH i (S k) es IdR Hg). discriminate.
Qed.

Lemma D_add_os op w' g : forall i k prev, wf_from k prev g = true -> (i < length g)%nat ->
  Permutation (D (add_edge i (mkE IdL IdR op w') g) k IdL)
              (D g k IdL ++ [(w', consop (k + i) op [])]).
Proof.
  induction g as [|es g IH]; intros i k prev H Hi; [cbn [length] in Hi; lia|].
  apply wf_from_cons in H. destruct H as [Hs Hg]. cbn [length] in Hi.
  unfold add_edge. destruct i as [|i]; cbn [upd_site]; rewrite !D_cons; cbn [key_eqb]; rewrite !app_nil_r.
  - rewrite out_app, flat_map_app, (out_single_eq IdL) by reflexivity. cbn [flat_map]. rewrite app_nil_r.
    unfold step at 2. cbn [eR]. rewrite (D_IdR g (S k) es Hg). cbn [map]. unfold mstep. cbn [ew eop fst snd].
    rewrite cmul_1_r, Nat.add_0_r, <- !app_assoc. apply Permutation_app_head. apply Permutation_app_comm.
  - assert (H1 := proj1 (proj1 (wf_site_iff k prev es) Hs)).
    rewrite <- app_assoc. apply Permutation_app.
    + rewrite (flat_map_ext_in' (step (upd_site i (fun es0 => es0 ++ [mkE IdL IdR op w']) g) k) (step g k));
        [apply Permutation_refl|].
      intros e He. apply in_out in He. destruct He as [He _]. unfold step.
      rewrite <- (add_os_unch op w' g i (S k) es (eR e) Hg); [reflexivity|].
      apply (wf_edge_ends k e (H1 e He)).
    + replace (k + S i)%nat with (S k + i)%nat by lia. apply (IH i (S k) es); [exact Hg|lia].
Qed.

Lemma add_to_graph_onsite g t : wf g = true -> oterm_ok (length g) t = true ->
  wf (add_oterm g t) = true /\
  peq (denote (close (add_oterm g t))) (nf_oterm t :: denote (close g)).
Proof.
  intros Hwf Hok. unfold oterm_ok in Hok. assert (Hi : (ot_i t < length g)%nat) by lia.
  assert (Hwf' : wf (add_oterm g t) = true) by (apply wf_add_os; exact Hwf).
  split; [exact Hwf'|].
  rewrite (close_wf _ 0%nat [] Hwf'), (close_wf _ 0%nat [] Hwf).
  apply peq_perm. eapply perm_trans.
  - apply (D_add_os (ot_op t) (ot_w t) g (ot_i t) 0%nat []); [exact Hwf|exact Hi].
  - unfold nf_oterm. cbn [Nat.add]. apply Permutation_sym. apply Permutation_cons_append.
Qed.

(* ------------------------------------------------------------------ from_terms *)
Lemma length_upd_site f g : forall j, length (upd_site j f g) = length g.
Proof.
  induction g as [|es g IH]; intros [|j]; cbn [upd_site length]; try reflexivity. rewrite IH. reflexivity.
Qed.

Lemma length_add_string n : forall k ky op g, length (add_string k n ky op g) = length g.
Proof.
  induction n as [|n IH]; intros k ky op g; cbn [add_string]; [reflexivity|].
  rewrite IH. destruct (has_edge k ky ky g); [reflexivity|]. apply length_upd_site.
Qed.

Lemma length_add_cterm g t : length (add_cterm g t) = length g.
Proof.
  unfold add_cterm, add_edge. rewrite length_upd_site, length_add_string. unfold add_skip.
  destruct (has_edge_op _ _ _ _ g); [reflexivity|]. apply length_upd_site.
Qed.

Lemma length_add_oterm g t : length (add_oterm g t) = length g.
Proof. apply length_upd_site. Qed.

Lemma wf_empty L : forall k prev, wf_from k prev (repeat [] L) = true.
Proof. induction L as [|L IH]; intros k prev; cbn [repeat wf_from]; [reflexivity|]. apply IH. Qed.

Lemma D_empty L : forall k, D (repeat [] L) k IdL = [].
Proof.
  induction L as [|L IH]; intro k; cbn [repeat]; [reflexivity|].
  rewrite D_cons. cbn [out filter flat_map key_eqb app]. rewrite app_nil_r. apply IH.
Qed.

Lemma denote_empty L : denote (close (empty_graph L)) = [].
Proof.
  unfold empty_graph. rewrite (close_wf _ 0%nat [] (wf_empty L 0%nat [])). apply D_empty.
Qed.

Lemma fold_oterms L ots : forall g, wf g = true -> length g = L -> forallb (oterm_ok L) ots = true ->
  wf (fold_left add_oterm ots g) = true /\ length (fold_left add_oterm ots g) = L /\
  peq (denote (close (fold_left add_oterm ots g))) (denote (close g) ++ map nf_oterm ots).
Proof.
  induction ots as [|t ots IH]; intros g Hw Hl Hok; cbn [fold_left map forallb] in *.
  - split; [exact Hw|]. split; [exact Hl|]. rewrite app_nil_r. apply peq_refl.
  - apply andb_true_iff in Hok. destruct Hok as [Ht Hok]. rewrite <- Hl in Ht.
    destruct (add_to_graph_onsite g t Hw Ht) as [Hw1 Hp1].
    destruct (IH (add_oterm g t) Hw1 (eq_trans (length_add_oterm g t) Hl) Hok) as (Hw2 & Hl2 & Hp2).
    split; [exact Hw2|]. split; [exact Hl2|].
    intro w0. rewrite (Hp2 w0), !coef_app, (Hp1 w0).
    rewrite (coef_cons (nf_oterm t) (denote (close g))), (coef_cons (nf_oterm t) (map nf_oterm ots)).
    csolve.
Qed.

Lemma fold_cterms L cts : forall g, wf g = true -> length g = L -> forallb (cterm_ok L) cts = true ->
  wf (fold_left add_cterm cts g) = true /\ length (fold_left add_cterm cts g) = L /\
  peq (denote (close (fold_left add_cterm cts g))) (denote (close g) ++ map nf_cterm cts).
Proof.
  induction cts as [|t cts IH]; intros g Hw Hl Hok; cbn [fold_left map forallb] in *.
  - split; [exact Hw|]. split; [exact Hl|]. rewrite app_nil_r. apply peq_refl.
  - apply andb_true_iff in Hok. destruct Hok as [Ht Hok]. rewrite <- Hl in Ht.
    destruct (add_to_graph_coupling g t Hw Ht) as [Hw1 Hp1].
    destruct (IH (add_cterm g t) Hw1 (eq_trans (length_add_cterm g t) Hl) Hok) as (Hw2 & Hl2 & Hp2).
    split; [exact Hw2|]. split; [exact Hl2|].
    intro w0. rewrite (Hp2 w0), !coef_app, (Hp1 w0).
    rewrite (coef_cons (nf_cterm t) (denote (close g))), (coef_cons (nf_cterm t) (map nf_cterm cts)).
    csolve.
Qed.

Lemma from_terms_wf L ots cts : forallb (oterm_ok L) ots = true -> forallb (cterm_ok L) cts = true ->
  wf (fold_left add_cterm cts (fold_left add_oterm ots (empty_graph L))) = true.
Proof.
  intros Ho Hc.
  destruct (fold_oterms L ots (empty_graph L) (wf_empty L 0%nat []) (repeat_length _ L) Ho) as (W1 & L1 & _).
  exact (proj1 (fold_cterms L cts _ W1 L1 Hc)).
Qed.

Lemma from_terms_denote L ots cts : forallb (oterm_ok L) ots = true -> forallb (cterm_ok L) cts = true ->
  peq (denote (from_terms L ots cts)) (map nf_oterm ots ++ map nf_cterm cts).
Proof.
  intros Ho Hc. unfold from_terms.
  destruct (fold_oterms L ots (empty_graph L) (wf_empty L 0%nat []) (repeat_length _ L) Ho) as (W1 & L1 & P1).
  destruct (fold_cterms L cts _ W1 L1 Hc) as (_ & _ & P2).
  rewrite denote_empty in P1. cbn [app] in P1.
  intro w0. rewrite (P2 w0), !coef_app, (P1 w0). reflexivity.
Qed.
