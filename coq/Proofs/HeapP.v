(* C17 - proofs about Model/Heap.v: a memoised depth-first copy yields an isomorphic heap (sharing and cycles
   included), isomorphisms compose (save then load), saving is total with fuel = number of nodes + 1. *)
From TenpyV Require Import Base.Prelude Model.Heap.

(* ---------------------------------------------------------------- lists *)

Lemma nodup_app_disj {A} (a b : list A) x : NoDup (a ++ b) -> In x a -> In x b -> False.
Proof.
  induction a as [|y a IH]; cbn; intros ND Ha Hb; [contradiction|].
  inversion ND as [|? ? Hn ND']; subst. destruct Ha as [->|Ha].
  - apply Hn. apply in_or_app. right. exact Hb.
  - exact (IH ND' Ha Hb).
Qed.

Lemma forall2_len {A B} (R : A -> B -> Prop) a b : Forall2 R a b -> length a = length b.
Proof. induction 1; cbn; congruence. Qed.

Lemma firstn_len_app {A} (a b : list A) : firstn (length a) (a ++ b) = a.
Proof. induction a as [|x a IH]; cbn; [reflexivity|]. rewrite IH. reflexivity. Qed.

Lemma skipn_len_app {A} (a b : list A) : skipn (length a) (a ++ b) = b.
Proof. induction a as [|x a IH]; cbn; [reflexivity|]. exact IH. Qed.

Lemma map_fst_combine {A B} (a : list A) (b : list B) : length a = length b -> map fst (combine a b) = a.
Proof.
  revert b. induction a as [|x a IH]; intros [|y b]; cbn; intros H; try discriminate; [reflexivity|].
  f_equal. apply IH. lia.
Qed.

Lemma map_snd_combine {A B} (a : list A) (b : list B) : length a = length b -> map snd (combine a b) = b.
Proof.
  revert b. induction a as [|x a IH]; intros [|y b]; cbn; intros H; try discriminate; [reflexivity|].
  f_equal. apply IH. lia.
Qed.

Lemma set_nth_length l i v : length (set_nth l i v) = length l.
Proof. revert i. induction l as [|a l IH]; intros [|i]; cbn; try reflexivity. rewrite IH. reflexivity. Qed.

Lemma set_nth_same l i v : i < length l -> nth_error (set_nth l i v) i = Some v.
Proof.
  revert i. induction l as [|a l IH]; intros [|i]; cbn; intros H; try lia; [reflexivity|].
  apply IH. lia.
Qed.

Lemma set_nth_other l i j v : j <> i -> nth_error (set_nth l i v) j = nth_error l j.
Proof.
  revert i j. induction l as [|a l IH]; intros [|i] [|j]; cbn; intros H; try reflexivity; try congruence.
  apply IH. congruence.
Qed.

Lemma filter_length_le {A} (p : A -> bool) l : length (filter p l) <= length l.
Proof. induction l as [|a l IH]; cbn; [lia|]. destruct (p a); cbn; lia. Qed.

Lemma filter_le {A} (p q : A -> bool) l :
  (forall x, In x l -> p x = true -> q x = true) -> length (filter p l) <= length (filter q l).
Proof.
  induction l as [|a l IH]; cbn; intros H; [lia|].
  assert (IH' := IH (fun x Hx => H x (or_intror Hx))).
  destruct (p a) eqn:Pa.
  - rewrite (H a (or_introl eq_refl) Pa). cbn. lia.
  - destruct (q a); cbn; lia.
Qed.

Lemma filter_lt {A} (p q : A -> bool) l x :
  (forall y, In y l -> p y = true -> q y = true) -> In x l -> p x = false -> q x = true ->
  length (filter p l) < length (filter q l).
Proof.
  induction l as [|a l IH]; cbn; intros H Hin Px Qx; [contradiction|].
  destruct Hin as [->|Hin].
  - rewrite Px, Qx. cbn. pose proof (filter_le p q l (fun y Hy => H y (or_intror Hy))). lia.
  - assert (IH' := IH (fun y Hy => H y (or_intror Hy)) Hin Px Qx).
    destruct (p a) eqn:Pa.
    + rewrite (H a (or_introl eq_refl) Pa). cbn. lia.
    + destruct (q a); cbn; lia.
Qed.

(* ---------------------------------------------------------------- lookup *)

Lemma lookup_in_keys x m v : lookup x m = Some v -> In x (map fst m).
Proof.
  induction m as [|[k w] t IH]; cbn; [discriminate|].
  destruct (Nat.eqb k x) eqn:E.
  - intros _. left. apply Nat.eqb_eq in E. exact E.
  - intros H. right. auto.
Qed.

Lemma lookup_none_notin x m : lookup x m = None -> ~ In x (map fst m).
Proof.
  induction m as [|[k w] t IH]; cbn; [tauto|].
  destruct (Nat.eqb k x) eqn:E; [discriminate|].
  intros H [K|K].
  - subst. rewrite Nat.eqb_refl in E. discriminate.
  - exact (IH H K).
Qed.

Lemma lookup_app x a b :
  lookup x (a ++ b) = match lookup x a with Some v => Some v | None => lookup x b end.
Proof.
  induction a as [|[k w] t IH]; cbn; [reflexivity|].
  destruct (Nat.eqb k x); [reflexivity|exact IH].
Qed.

Lemma lookup_some_in x m v : lookup x m = Some v -> In (x, v) m.
Proof.
  induction m as [|[k w] t IH]; cbn; [discriminate|].
  destruct (Nat.eqb k x) eqn:E; intros H.
  - apply Nat.eqb_eq in E. subst. inversion H; subst. left. reflexivity.
  - right. auto.
Qed.

Lemma lookup_in x m v : NoDup (map fst m) -> In (x, v) m -> lookup x m = Some v.
Proof.
  induction m as [|[k w] t IH]; cbn; intros ND H; [contradiction|].
  inversion ND as [|? ? Hn ND']; subst. destruct H as [H|H].
  - inversion H; subst. rewrite Nat.eqb_refl. reflexivity.
  - destruct (Nat.eqb k x) eqn:E.
    + apply Nat.eqb_eq in E. subst. exfalso. apply Hn. apply in_map_iff.
      exists (x, v). split; [reflexivity|exact H].
    + apply IH; assumption.
Qed.

Lemma nodup_snd_inj (m : memo) x y v : NoDup (map snd m) -> In (x, v) m -> In (y, v) m -> x = y.
Proof.
  induction m as [|[k w] t IH]; cbn; intros ND Hx Hy; [contradiction|].
  inversion ND as [|? ? Hn ND']; subst.
  destruct Hx as [Hx|Hx]; destruct Hy as [Hy|Hy].
  - congruence.
  - inversion Hx; subst. exfalso. apply Hn. apply in_map_iff. exists (y, v). split; [reflexivity|exact Hy].
  - inversion Hy; subst. exfalso. apply Hn. apply in_map_iff. exists (x, v). split; [reflexivity|exact Hx].
  - exact (IH ND' Hx Hy).
Qed.

(* ---------------------------------------------------------------- node relations *)

Lemma with_children_rel m n cs' : rel_ids m (children n) cs' -> node_rel m n (with_children n cs').
Proof.
  destruct n as [v|cs|cs|cs|kvs|c ats]; cbn; unfold rel_ids; intros H.
  - reflexivity.
  - exact H.
  - exact H.
  - exact H.
  - apply Forall2_app_inv_l in H. destruct H as (l1 & l2 & H1 & H2 & ->).
    assert (E1 : length l1 = length kvs).
    { apply forall2_len in H1. rewrite map_length in H1. auto. }
    assert (E2 : length l2 = length kvs).
    { apply forall2_len in H2. rewrite map_length in H2. auto. }
    rewrite <- E1. rewrite firstn_len_app, skipn_len_app.
    rewrite map_fst_combine, map_snd_combine by lia. split; assumption.
  - assert (E : length cs' = length ats).
    { apply forall2_len in H. rewrite map_length in H. auto. }
    split; [reflexivity|]. split.
    + rewrite map_fst_combine; [reflexivity|rewrite map_length; lia].
    + rewrite map_snd_combine; [exact H|rewrite map_length; lia].
Qed.

Definition comp (m1 m2 : nat -> option nat) (x : nat) : option nat :=
  match m1 x with Some y => m2 y | None => None end.

Lemma rel_ids_comp m1 m2 a b c : rel_ids m1 a b -> rel_ids m2 b c -> rel_ids (comp m1 m2) a c.
Proof.
  unfold rel_ids. intros H. revert c.
  induction H as [|x y a b Hxy _ IH]; intros c H2; inversion H2; subst; constructor.
  - unfold comp. rewrite Hxy. assumption.
  - apply IH. assumption.
Qed.

Lemma node_rel_comp m1 m2 n n1 n2 :
  node_rel m1 n n1 -> node_rel m2 n1 n2 -> node_rel (comp m1 m2) n n2.
Proof.
  destruct n, n1; cbn; try contradiction; destruct n2; cbn; try contradiction.
  - intros; congruence.
  - apply rel_ids_comp.
  - apply rel_ids_comp.
  - apply rel_ids_comp.
  - intros [A B] [C D]. split; eapply rel_ids_comp; eassumption.
  - intros (A & B & C) (D & E & F). split; [congruence|]. split; [congruence|].
    eapply rel_ids_comp; eassumption.
Qed.

Lemma iso_comp m1 m2 h r h1 r1 h2 r2 :
  iso m1 h r h1 r1 -> iso m2 h1 r1 h2 r2 -> iso (comp m1 m2) h r h2 r2.
Proof.
  intros [R1 N1 I1 S1] [R2 N2 I2 S2]. constructor.
  - unfold comp. rewrite R1. exact R2.
  - intros x x' H. unfold comp in H. destruct (m1 x) as [y|] eqn:E; [|discriminate].
    destruct (N1 x y E) as (n & n1 & A & B & C).
    destruct (N2 y x' H) as (n1' & n2 & A' & B' & C').
    rewrite B in A'. inversion A'; subst n1'.
    exists n, n2. split; [exact A|]. split; [exact B'|]. eapply node_rel_comp; eassumption.
  - intros x y v Hx Hy. unfold comp in Hx, Hy.
    destruct (m1 x) as [x1|] eqn:Ex; [|discriminate].
    destruct (m1 y) as [y1|] eqn:Ey; [|discriminate].
    assert (x1 = y1) by (eapply I2; eassumption). subst y1. eapply I1; eassumption.
  - intros i Hi. destruct (S2 i Hi) as [y Hy].
    destruct (N2 y i Hy) as (n1 & n2 & A & _ & _).
    assert (Hlt : y < length h1) by (apply nth_error_Some; rewrite A; discriminate).
    destruct (S1 y Hlt) as [x Hx]. exists x. unfold comp. rewrite Hx. exact Hy.
Qed.

(* ---------------------------------------------------------------- invariants of the traversal *)

Definition WF (st : state) : Prop :=
  NoDup (map fst (st_memo st)) /\ NoDup (map snd (st_memo st)) /\
  (forall i, In i (map snd (st_memo st)) <-> i < length (st_out st)).

Definition ext (st st' : state) : Prop := exists new, st_memo st' = new ++ st_memo st.

Lemma lookup_ext st st' c c' :
  WF st' -> ext st st' -> lookup c (st_memo st) = Some c' -> lookup c (st_memo st') = Some c'.
Proof.
  intros [ND _] [new E] H. rewrite E, lookup_app. destruct (lookup c new) eqn:L; [|exact H].
  exfalso. rewrite E, map_app in ND. apply lookup_in_keys in L. apply lookup_in_keys in H.
  exact (nodup_app_disj _ _ _ ND L H).
Qed.

Lemma forall2_ext st st' cs cs' : WF st' -> ext st st' ->
  Forall2 (fun c c' => lookup c (st_memo st) = Some c') cs cs' ->
  Forall2 (fun c c' => lookup c (st_memo st') = Some c') cs cs'.
Proof.
  intros W E F. induction F as [|c c' cs cs' H _ IH]; constructor; [|exact IH].
  eapply lookup_ext; eassumption.
Qed.

Lemma WF_init : WF (mkState [] []).
Proof.
  split; [constructor|]. split; [constructor|]. intros i. cbn. split; [contradiction|lia].
Qed.

Lemma WF_alloc st x v : WF st -> lookup x (st_memo st) = None ->
  WF (mkState ((x, length (st_out st)) :: st_memo st) (st_out st ++ [v])).
Proof.
  intros (ND1 & ND2 & Hiff) L. split; [|split]; cbn.
  - constructor; [apply lookup_none_notin; exact L|exact ND1].
  - constructor; [|exact ND2]. intros K. apply Hiff in K. lia.
  - intros i. rewrite app_length. cbn. split.
    + intros [<-|K]; [lia|]. apply Hiff in K. lia.
    + intros Hi. destruct (Nat.eq_dec (length (st_out st)) i) as [E|E]; [left; exact E|].
      right. apply Hiff. lia.
Qed.

Section Spec.
  Variable late : node -> bool.
  Variable h : heap.

  (* the copy of y at y' is complete: right kind, children are the memoised images in order *)
  Definition done (st' : state) (y y' : nat) : Prop :=
    exists n cs', nth_error h y = Some n /\
      nth_error (st_out st') y' = Some (with_children n cs') /\
      Forall2 (fun c c' => lookup c (st_memo st') = Some c') (children n) cs'.

  Definition step_ok (st st' : state) : Prop :=
    WF st' /\ ext st st' /\
    length (st_out st) <= length (st_out st') /\
    (forall i, i < length (st_out st) -> nth_error (st_out st') i = nth_error (st_out st) i) /\
    (forall y y', lookup y (st_memo st') = Some y' -> lookup y (st_memo st) = None ->
                  length (st_out st) <= y' /\ done st' y y').

  Lemma step_ok_refl st : WF st -> step_ok st st.
  Proof.
    intros W. split; [exact W|]. split; [exists []; reflexivity|]. split; [lia|]. split; [reflexivity|].
    intros y y' A B. rewrite A in B. discriminate.
  Qed.

  Lemma done_ext st1 st2 y y1 : done st1 y y1 -> step_ok st1 st2 -> done st2 y y1.
  Proof.
    intros (n & cs' & Hn & Ho & F) (W & E & _ & Hold & _).
    assert (Hlt : y1 < length (st_out st1)) by (apply nth_error_Some; rewrite Ho; discriminate).
    exists n, cs'. split; [exact Hn|]. split.
    - rewrite Hold; assumption.
    - eapply forall2_ext; eassumption.
  Qed.

  Lemma step_ok_trans st st1 st2 : step_ok st st1 -> step_ok st1 st2 -> step_ok st st2.
  Proof.
    intros (W1 & [n1 E1] & L1 & O1 & N1) S2. pose proof S2 as (W2 & [n2 E2] & L2 & O2 & N2).
    split; [exact W2|]. split.
    { exists (n2 ++ n1). rewrite E2, E1, app_assoc. reflexivity. }
    split; [lia|]. split.
    - intros i Hi. rewrite O2 by lia. apply O1. exact Hi.
    - intros y y' Hy Hnone. destruct (lookup y (st_memo st1)) as [y1|] eqn:L.
      + destruct (N1 y y1 L Hnone) as [Hge Hd].
        assert (y' = y1).
        { pose proof (lookup_ext st1 st2 y y1 W2 (ex_intro _ n2 E2) L) as K.
          rewrite K in Hy. inversion Hy. reflexivity. }
        subst y'. split; [exact Hge|]. eapply done_ext; eassumption.
      + destruct (N2 y y' Hy L) as [Hge Hd]. split; [lia|exact Hd].
  Qed.

  Definition visit_spec (f : nat -> state -> option (state * nat)) : Prop :=
    forall x st st' x', WF st -> f x st = Some (st', x') ->
      step_ok st st' /\ lookup x (st_memo st') = Some x'.

  Lemma visit_list_ok f : visit_spec f -> forall cs st st' cs', WF st ->
    visit_list f cs st = Some (st', cs') ->
    step_ok st st' /\ Forall2 (fun c c' => lookup c (st_memo st') = Some c') cs cs'.
  Proof.
    intros Hf. induction cs as [|c t IH]; intros st st' cs' W H; cbn in H.
    - inversion H; subst. split; [apply step_ok_refl; exact W|constructor].
    - destruct (f c st) as [[st1 c1]|] eqn:F; [|discriminate].
      destruct (visit_list f t st1) as [[st2 t']|] eqn:V; [|discriminate].
      inversion H; subst. destruct (Hf _ _ _ _ W F) as [S1 L1].
      assert (W1 : WF st1) by (destruct S1 as [W1 _]; exact W1).
      destruct (IH _ _ _ W1 V) as [S2 F2].
      split; [eapply step_ok_trans; eassumption|].
      constructor; [|exact F2]. destruct S2 as (W2 & E2 & _). eapply lookup_ext; eassumption.
  Qed.

  (* a late node: allocated after its children *)
  Lemma alloc_late_ok st1 x nd cs' : WF st1 -> lookup x (st_memo st1) = None ->
    nth_error h x = Some nd ->
    Forall2 (fun c c' => lookup c (st_memo st1) = Some c') (children nd) cs' ->
    step_ok st1 (mkState ((x, length (st_out st1)) :: st_memo st1) (st_out st1 ++ [with_children nd cs'])) /\
    lookup x ((x, length (st_out st1)) :: st_memo st1) = Some (length (st_out st1)).
  Proof.
    intros W L Hn F.
    assert (W' := WF_alloc st1 x (with_children nd cs') W L).
    assert (E' : ext st1 (mkState ((x, length (st_out st1)) :: st_memo st1) (st_out st1 ++ [with_children nd cs']))).
    { exists [(x, length (st_out st1))]. reflexivity. }
    split; [|cbn; rewrite Nat.eqb_refl; reflexivity].
    split; [exact W'|]. split; [exact E'|]. cbn. split; [rewrite app_length; lia|]. split.
    - intros i Hi. apply nth_error_app1. exact Hi.
    - intros y y' Hy Hnone. destruct (Nat.eqb x y) eqn:E.
      + apply Nat.eqb_eq in E. subst y. inversion Hy; subst y'. split; [lia|].
        exists nd, cs'. split; [exact Hn|]. split.
        * cbn. rewrite nth_error_app2 by lia. rewrite Nat.sub_diag. reflexivity.
        * eapply forall2_ext; [exact W'|exact E'|exact F].
      + rewrite Hy in Hnone. discriminate.
  Qed.

  (* an early node: allocated (with a placeholder) before its children, completed afterwards *)
  Lemma finish_early_ok st x nd st1 cs' : WF st -> lookup x (st_memo st) = None ->
    nth_error h x = Some nd ->
    step_ok (mkState ((x, length (st_out st)) :: st_memo st) (st_out st ++ [nd])) st1 ->
    Forall2 (fun c c' => lookup c (st_memo st1) = Some c') (children nd) cs' ->
    step_ok st (mkState (st_memo st1) (set_nth (st_out st1) (length (st_out st)) (with_children nd cs'))) /\
    lookup x (st_memo st1) = Some (length (st_out st)).
  Proof.
    intros W L Hn S1 F.
    assert (Lx : lookup x (st_memo st1) = Some (length (st_out st))).
    { destruct S1 as (W1 & E1 & _). eapply lookup_ext; [exact W1|exact E1|].
      cbn. rewrite Nat.eqb_refl. reflexivity. }
    split; [|exact Lx].
    destruct S1 as (W1 & [new E1] & L1 & O1 & N1). cbn in E1, L1, O1, N1.
    rewrite app_length in L1, O1, N1. cbn in L1, O1, N1.
    split.
    { destruct W1 as (A & B & C). split; [exact A|]. split; [exact B|]. cbn.
      intros i. rewrite set_nth_length. apply C. }
    split.
    { exists (new ++ [(x, length (st_out st))]). cbn. rewrite E1, <- app_assoc. reflexivity. }
    cbn. rewrite set_nth_length. split; [lia|]. split.
    - intros i Hi. rewrite set_nth_other by lia. rewrite O1 by lia. apply nth_error_app1. exact Hi.
    - intros y y' Hy Hnone. destruct (Nat.eq_dec y x) as [->|Hne].
      + rewrite Lx in Hy. inversion Hy; subst y'. split; [lia|].
        exists nd, cs'. split; [exact Hn|]. split; [|exact F].
        cbn. apply set_nth_same. lia.
      + assert (Hnone0 : lookup y ((x, length (st_out st)) :: st_memo st) = None).
        { cbn. destruct (Nat.eqb x y) eqn:E; [apply Nat.eqb_eq in E; congruence|exact Hnone]. }
        destruct (N1 y y' Hy Hnone0) as [Hge (n0 & cs0 & A & B & C)].
        split; [lia|]. exists n0, cs0. split; [exact A|]. split; [|exact C].
        cbn. rewrite set_nth_other by lia. exact B.
  Qed.

  Lemma visit_ok : forall fuel, visit_spec (visit late h fuel).
  Proof.
    induction fuel as [|f IH]; intros x st st' x' W H.
    - cbn in H. destruct (lookup x (st_memo st)) eqn:L; [|discriminate].
      inversion H; subst. split; [apply step_ok_refl; exact W|exact L].
    - cbn [visit] in H. destruct (lookup x (st_memo st)) as [v|] eqn:L.
      { inversion H; subst. split; [apply step_ok_refl; exact W|exact L]. }
      destruct (nth_error h x) as [nd|] eqn:Hn; [|discriminate].
      destruct (late nd) eqn:Hl.
      + destruct (visit_list (visit late h f) (children nd) st) as [[st1 cs']|] eqn:V; [|discriminate].
        destruct (visit_list_ok _ IH _ _ _ _ W V) as [S1 F1].
        destruct (lookup x (st_memo st1)) as [v|] eqn:L1.
        * inversion H; subst. split; assumption.
        * inversion H; subst. clear H.
          assert (W1 : WF st1) by (destruct S1 as [W1 _]; exact W1).
          destruct (alloc_late_ok st1 x nd cs' W1 L1 Hn F1) as [S2 Lx].
          split; [eapply step_ok_trans; eassumption|exact Lx].
      + match type of H with context [visit_list ?f ?cs ?s] =>
          destruct (visit_list f cs s) as [[st1 cs']|] eqn:V; [|discriminate] end.
        inversion H; subst. clear H.
        assert (W0 := WF_alloc st x nd W L).
        destruct (visit_list_ok _ IH _ _ _ _ W0 V) as [S1 F1].
        exact (finish_early_ok st x nd st1 cs' W L Hn S1 F1).
  Qed.
End Spec.

(* ---------------------------------------------------------------- the main statements *)

Lemma copy_iso late fuel h r h' r' :
  copy late fuel h r = Some (h', r') -> exists m, iso m h r h' r'.
Proof.
  unfold copy. destruct (visit late h fuel r (mkState [] [])) as [[st r1]|] eqn:V; [|discriminate].
  intros H. inversion H; subst. clear H.
  destruct (visit_ok late h fuel r _ _ _ WF_init V) as [(W & _ & _ & _ & N) Lr].
  exists (fun x => lookup x (st_memo st)). constructor.
  - exact Lr.
  - intros x x' Hx. destruct (N x x' Hx eq_refl) as [_ (n & cs' & A & B & C)].
    exists n, (with_children n cs'). split; [exact A|]. split; [exact B|].
    apply with_children_rel. exact C.
  - intros x y v Hx Hy. destruct W as (_ & ND2 & _).
    cbv beta in Hx, Hy.
    exact (nodup_snd_inj _ x y v ND2 (lookup_some_in _ _ _ Hx) (lookup_some_in _ _ _ Hy)).
  - intros i Hi. destruct W as (ND1 & _ & Hiff). apply Hiff in Hi. apply in_map_iff in Hi.
    destruct Hi as [[x v] [E Hin]]. cbn in E. subst v. exists x. apply lookup_in; assumption.
Qed.

Lemma roundtrip_iso f1 f2 h r h2 r2 :
  roundtrip f1 f2 h r = Some (h2, r2) -> exists m, iso m h r h2 r2.
Proof.
  unfold roundtrip, save, load. destruct (copy never f1 h r) as [[h1 r1]|] eqn:S; [|discriminate].
  intros L. destruct (copy_iso _ _ _ _ _ _ S) as [m1 I1]. destruct (copy_iso _ _ _ _ _ _ L) as [m2 I2].
  exists (comp m1 m2). eapply iso_comp; eassumption.
Qed.

(* identity pattern: two references are the same object after the round trip iff they were before *)
Lemma iso_identity m h r h' r' x y x' y' :
  iso m h r h' r' -> m x = Some x' -> m y = Some y' -> (x = y <-> x' = y').
Proof.
  intros [_ _ I _] Hx Hy. split.
  - intros ->. rewrite Hx in Hy. inversion Hy. reflexivity.
  - intros ->. eapply I; eassumption.
Qed.

(* ---------------------------------------------------------------- totality of saving (fuel = nodes + 1) *)

Definition unvisited (N : nat) (m : memo) : nat :=
  length (filter (fun i => match lookup i m with None => true | Some _ => false end) (seq 0 N)).

Lemma unvisited_le N m : unvisited N m <= N.
Proof. unfold unvisited. etransitivity; [apply filter_length_le|]. rewrite seq_length. lia. Qed.

Lemma unvisited_ext N new m : unvisited N (new ++ m) <= unvisited N m.
Proof.
  unfold unvisited. apply filter_le. intros x _. rewrite lookup_app.
  destruct (lookup x new); [discriminate|]. auto.
Qed.

Lemma unvisited_cons N x v m : x < N -> lookup x m = None -> unvisited N ((x, v) :: m) < unvisited N m.
Proof.
  intros Hx L. unfold unvisited. apply filter_lt with (x := x).
  - intros y _. cbn. destruct (Nat.eqb x y); [discriminate|]. auto.
  - apply in_seq. lia.
  - cbn. rewrite Nat.eqb_refl. reflexivity.
  - rewrite L. reflexivity.
Qed.

Lemma visit_total h : closed h -> forall fuel x st, WF st -> x < length h ->
  unvisited (length h) (st_memo st) < fuel ->
  exists st' x', visit never h fuel x st = Some (st', x').
Proof.
  intros Hc. induction fuel as [|f IH]; intros x st W Hx Hu; [lia|].
  cbn [visit]. destruct (lookup x (st_memo st)) as [v|] eqn:L; [eauto|].
  destruct (nth_error h x) as [nd|] eqn:Hn; [|apply nth_error_None in Hn; lia].
  unfold never at 1. cbv beta.
  assert (W0 := WF_alloc st x nd W L).
  assert (Hu0 : unvisited (length h) ((x, length (st_out st)) :: st_memo st) < f).
  { pose proof (unvisited_cons (length h) x (length (st_out st)) (st_memo st) Hx L). lia. }
  assert (Hcs := Hc x nd Hn).
  assert (HL : forall cs st0, Forall (fun c => c < length h) cs -> WF st0 ->
             unvisited (length h) (st_memo st0) < f ->
             exists st1 cs', visit_list (visit never h f) cs st0 = Some (st1, cs')).
  { induction cs as [|c t IHc]; intros st0 Fc W1 U1; cbn; [eauto|].
    inversion Fc as [|? ? Hc1 Ft]; subst.
    destruct (IH c st0 W1 Hc1 U1) as (st1 & c1 & V1). rewrite V1.
    destruct (visit_ok never h f c st0 st1 c1 W1 V1) as [(W2 & [new E2] & _) _].
    assert (U2 : unvisited (length h) (st_memo st1) < f).
    { rewrite E2. pose proof (unvisited_ext (length h) new (st_memo st0)). lia. }
    destruct (IHc st1 Ft W2 U2) as (st2 & t' & V2). rewrite V2. eauto. }
  destruct (HL (children nd) _ Hcs W0 Hu0) as (st1 & cs' & V). rewrite V. eauto.
Qed.

Lemma save_total h r : closed h -> r < length h -> exists h1 r1, save (S (length h)) h r = Some (h1, r1).
Proof.
  intros Hc Hr. unfold save, copy.
  destruct (visit_total h Hc (S (length h)) r (mkState [] []) WF_init Hr) as (st & r1 & V).
  { cbn. pose proof (unvisited_le (length h) []). lia. }
  rewrite V. eauto.
Qed.
