(* Proofs about Model/TruncBook.v: renormalisation bookkeeping of svd_theta / eigh_rho, TruncationError. *)
From TenpyV Require Import Base.Prelude Base.PyLib Model.Truncate Model.TruncBook Proofs.TruncateP.
From Coq Require Import QArith.
Open Scope Q_scope.

(* ------------------------------------------------------------------ lists of rationals *)
Lemma select_map {A B} (f : A -> B) m : forall l, select m (map f l) = map f (select m l).
Proof.
  induction m as [|b m IH]; intros [|x t]; cbn [select map]; try reflexivity.
  destruct b; cbn [map]; rewrite IH; reflexivity.
Qed.

Lemma select_length_le {A} m : forall l : list A, (length (select m l) <= length l)%nat.
Proof.
  induction m as [|b m IH]; intros [|x t]; cbn [select length]; try lia.
  destruct b; cbn [length]; specialize (IH t); lia.
Qed.

Lemma sumQ_ext {A} (f g : A -> Q) l : (forall x, f x == g x) -> sumQ (map f l) == sumQ (map g l).
Proof. intros H. induction l as [|x t IH]; cbn [map sumQ]; [reflexivity|]. rewrite IH, H. reflexivity. Qed.

Lemma sumQ_scale c l : sumQ (map (fun x => x * c) l) == sumQ l * c.
Proof. induction l as [|x t IH]; cbn [map sumQ]; [ring|]. rewrite IH. ring. Qed.

Lemma sumQ_sq_scale c l : sumQ (map qsq (map (fun x => x * c) l)) == sumQ (map qsq l) * (c * c).
Proof. induction l as [|x t IH]; cbn [map sumQ]; [ring|]. rewrite IH. unfold qsq. ring. Qed.

Lemma sumQ_split m : forall l, length m = length l ->
  sumQ (select m l) + sumQ (select (nmask m) l) == sumQ l.
Proof.
  induction m as [|b m IH]; intros [|x t] H; cbn [length] in H; try discriminate;
    cbn [nmask map select sumQ]; [ring|].
  assert (IHt := IH t ltac:(lia)). unfold nmask in IHt.
  destruct b; cbn [negb sumQ]; rewrite <- IHt; ring.
Qed.

Lemma sumQ_inj {A} (f : A -> Z) l : sumQ (map (fun x => inject_Z (f x)) l) == inject_Z (sumZ (map f l)).
Proof.
  induction l as [|x t IH]; cbn [map sumQ sumZ]; [reflexivity|].
  rewrite inject_Z_plus, IH. reflexivity.
Qed.

Lemma qsq_inj x : qsq (inject_Z x) == inject_Z (sq x).
Proof. unfold qsq, sq. rewrite inject_Z_mult. reflexivity. Qed.

Lemma sumQ_sq_inj l : sumQ (map qsq (map inject_Z l)) == inject_Z (sumZ (map sq l)).
Proof.
  rewrite map_map. rewrite (sumQ_ext _ (fun x => inject_Z (sq x))) by (intros x; apply qsq_inj).
  apply sumQ_inj.
Qed.

Lemma inj_pos z : (0 < z)%Z -> 0 < inject_Z z.
Proof. intros H. change 0 with (inject_Z 0). rewrite <- Zlt_Qlt. exact H. Qed.

Lemma pos_neq0 q : 0 < q -> ~ q == 0.
Proof. intros H E. rewrite E in H. exact (Qlt_irrefl _ H). Qed.

Lemma sq_neq0 q : ~ q == 0 -> ~ q * q == 0.
Proof. intros H E. apply Qmult_integral in E. tauto. Qed.

Lemma Forall2_map_l {A B} (P : B -> A -> Prop) (f : A -> B) l :
  (forall x, P (f x) x) -> Forall2 P (map f l) l.
Proof. intros H. induction l as [|x t IH]; cbn [map]; constructor; [apply H|exact IH]. Qed.

Lemma Forall2_map_r {A B C} (P : A -> C -> Prop) (f : B -> C) l : forall k,
  Forall2 P l (map f k) -> Forall2 (fun a b => P a (f b)) l k.
Proof.
  induction l as [|a l IH]; intros [|b k] H; cbn [map] in H; inversion H; subst; constructor;
    [assumption|apply IH; assumption].
Qed.

(* ------------------------------------------------------------------ svd_theta *)
Lemma svd_book_any S0 r mask nn :
  length mask = length S0 -> ~ r == 0 -> ~ nn == 0 ->
  r * r == sumQ (map qsq S0) ->
  nn * nn == sumQ (map qsq (select mask (map (fun x => x / r) S0))) ->
  let out := svd_theta_book S0 r mask nn in
  Forall2 (fun s x => s * so_renorm out == x) (so_S out) (select mask S0) /\
  sumQ (map qsq (so_S out)) == 1 /\
  so_eps out == sumQ (map qsq (select (nmask mask) S0)) / sumQ (map qsq S0) /\
  qsq (so_renorm out) == sumQ (map qsq (select mask S0)) /\
  so_eps out == 1 - qsq (so_renorm out) / (r * r).
Proof.
  intros Hlen Hr0 Hn0 Hr Hnn out.
  assert (E1 : Forall2 (fun s x => s * so_renorm out == x) (so_S out) (select mask S0)).
  { unfold out, svd_theta_book. cbn [so_S so_renorm]. rewrite select_map, map_map.
    apply Forall2_map_l. intros x. field. split; assumption. }
  assert (E2 : sumQ (map qsq (so_S out)) == 1).
  { unfold out, svd_theta_book. cbn [so_S]. unfold Qdiv at 1.
    rewrite (sumQ_sq_scale (/ nn)). rewrite <- Hnn. field. exact Hn0. }
  assert (E3 : so_eps out == sumQ (map qsq (select (nmask mask) S0)) / sumQ (map qsq S0)).
  { unfold out, svd_theta_book. cbn [so_eps]. unfold Qdiv at 1. rewrite select_map.
    rewrite (sumQ_sq_scale (/ r)). rewrite <- Hr. field. exact Hr0. }
  assert (E4 : qsq (so_renorm out) == sumQ (map qsq (select mask S0))).
  { unfold out, svd_theta_book. cbn [so_renorm]. unfold Qdiv in Hnn. rewrite select_map in Hnn.
    rewrite (sumQ_sq_scale (/ r)) in Hnn.
    setoid_replace (qsq (r * nn)) with (r * r * (nn * nn)) by (unfold qsq; ring).
    rewrite Hnn. field. exact Hr0. }
  split; [exact E1|]. split; [exact E2|]. split; [exact E3|]. split; [exact E4|].
  rewrite E3, E4, Hr.
  assert (Hs := sumQ_split mask (map qsq S0) ltac:(rewrite map_length; exact Hlen)).
  rewrite !select_map in Hs.
  assert (HT : ~ sumQ (map qsq S0) == 0) by (rewrite <- Hr; apply sq_neq0; exact Hr0).
  revert HT. rewrite <- Hs. intros HT. field. exact HT.
Qed.

Lemma mask_length xs o : length (r_mask (truncate xs o)) = length xs.
Proof. cbn [truncate r_mask]. rewrite map_length, seq_length. reflexivity. Qed.

Lemma sel_true_Q mask : forall xs,
  sumQ (map qsq (select mask (map inject_Z xs))) ==
  inject_Z (sumZ (map (fun mb : bool * Z => if Bool.eqb (fst mb) true then sq (snd mb) else 0%Z) (combine mask xs))).
Proof.
  induction mask as [|b m IH]; intros [|x t]; cbn [select map combine sumZ sumQ]; try reflexivity.
  cbn [fst snd]. destruct b; cbn [Bool.eqb map sumQ].
  - rewrite IH, inject_Z_plus, qsq_inj. reflexivity.
  - rewrite IH, inject_Z_plus. cbn [inject_Z]. ring.
Qed.

Lemma sel_false_Q mask : forall xs,
  sumQ (map qsq (select (nmask mask) (map inject_Z xs))) ==
  inject_Z (sumZ (map (fun mb : bool * Z => if Bool.eqb (fst mb) false then sq (snd mb) else 0%Z) (combine mask xs))).
Proof.
  induction mask as [|b m IH]; intros [|x t]; cbn [nmask select map combine sumZ sumQ]; try reflexivity.
  cbn [fst snd]. specialize (IH t). unfold nmask in IH. destruct b; cbn [negb Bool.eqb map sumQ].
  - rewrite IH, inject_Z_plus. cbn [inject_Z]. ring.
  - rewrite IH, inject_Z_plus, qsq_inj. reflexivity.
Qed.

Lemma norm2_Q xs o :
  sumQ (map qsq (select (r_mask (truncate xs o)) (map inject_Z xs))) == inject_Z (r_norm2 (truncate xs o)).
Proof. rewrite sel_true_Q. reflexivity. Qed.

Lemma eps_Q xs o :
  sumQ (map qsq (select (nmask (r_mask (truncate xs o))) (map inject_Z xs))) == inject_Z (r_eps (truncate xs o)).
Proof. rewrite sel_false_Q. reflexivity. Qed.

(* the mask is the one chosen by truncate (for every option set, scaled like the spectrum) *)
Lemma svd_book_truncate xs o r nn :
  let S0 := map inject_Z xs in
  let mask := r_mask (truncate xs o) in
  ~ r == 0 -> ~ nn == 0 ->
  r * r == inject_Z (sumZ (map sq xs)) ->
  nn * nn == sumQ (map qsq (select mask (map (fun x => x / r) S0))) ->
  let out := svd_theta_book S0 r mask nn in
  Forall2 (fun s x => s * so_renorm out == x) (so_S out) (select mask S0) /\
  sumQ (map qsq (so_S out)) == 1 /\
  so_eps out == inject_Z (r_eps (truncate xs o)) / inject_Z (sumZ (map sq xs)) /\
  qsq (so_renorm out) == inject_Z (r_norm2 (truncate xs o)) /\
  so_eps out == 1 - qsq (so_renorm out) / (r * r).
Proof.
  intros S0 mask Hr0 Hn0 Hr Hnn out.
  assert (Hlen : length mask = length S0) by (unfold mask, S0; rewrite mask_length, map_length; reflexivity).
  assert (Hr' : r * r == sumQ (map qsq S0)) by (unfold S0; rewrite sumQ_sq_inj; exact Hr).
  destruct (svd_book_any S0 r mask nn Hlen Hr0 Hn0 Hr' Hnn) as [E1 [E2 [E3 [E4 E5]]]].
  fold out in E1, E2, E3, E4, E5.
  split; [exact E1|]. split; [exact E2|]. split; [|split; [|exact E5]].
  - rewrite E3. unfold S0, mask. rewrite eps_Q, sumQ_sq_inj. reflexivity.
  - rewrite E4. unfold S0, mask. apply norm2_Q.
Qed.

(* squares only, every integer spectrum, no hypothesis on roots *)
Lemma svd_book_sq_ok xs mask : length mask = length xs ->
  (0 < sumZ (map sq xs))%Z -> (0 < sumZ (map sq (select mask xs)))%Z ->
  Forall2 (fun s x => s * snd (fst (svd_book_sq xs mask)) == inject_Z (sq x))
          (fst (fst (svd_book_sq xs mask))) (select mask xs) /\
  sumQ (fst (fst (svd_book_sq xs mask))) == 1 /\
  snd (svd_book_sq xs mask) == inject_Z (sumZ (map sq (select (nmask mask) xs))) / inject_Z (sumZ (map sq xs)) /\
  snd (fst (svd_book_sq xs mask)) == inject_Z (sumZ (map sq (select mask xs))).
Proof.
  intros Hlen HT HK. unfold svd_book_sq. cbn [fst snd].
  set (R2 := inject_Z (sumZ (map sq xs))).
  assert (HR : ~ R2 == 0) by (apply pos_neq0, inj_pos; exact HT).
  assert (Hsel : forall m, sumQ (select m (map (fun x => inject_Z (sq x) / R2) xs))
                           == inject_Z (sumZ (map sq (select m xs))) / R2).
  { intros m. rewrite select_map. unfold Qdiv.
    rewrite <- (map_map (fun x => inject_Z (sq x)) (fun q => q * / R2)).
    rewrite sumQ_scale, sumQ_inj. reflexivity. }
  set (nn2 := sumQ (select mask (map (fun x => inject_Z (sq x) / R2) xs))).
  assert (Hnn2 : nn2 == inject_Z (sumZ (map sq (select mask xs))) / R2) by apply Hsel.
  assert (Hn0 : ~ nn2 == 0).
  { apply pos_neq0. rewrite Hnn2. apply Qlt_shift_div_l; [apply inj_pos; exact HT|].
    rewrite Qmult_0_l. apply inj_pos. exact HK. }
  split; [|split; [|split]].
  - rewrite select_map, map_map.
    apply Forall2_map_l. intros x. field. split; assumption.
  - unfold Qdiv at 1. rewrite sumQ_scale. fold nn2. field. exact Hn0.
  - apply Hsel.
  - rewrite Hnn2. field. exact HR.
Qed.

(* ------------------------------------------------------------------ eigh_rho *)
Lemma eigh_core W0 mask n2 :
  length mask = length W0 -> ~ sumQ W0 == 0 -> ~ n2 == 0 ->
  n2 == sumQ (select mask (map (fun w => w / sumQ W0) W0)) ->
  let Wn := map (fun w => w / n2 * sumQ W0) (select mask (map (fun w => w / sumQ W0) W0)) in
  let e := sumQ (select (nmask mask) (map (fun w => w / sumQ W0) W0)) in
  sumQ Wn == sumQ W0 /\
  e == sumQ (select (nmask mask) W0) / sumQ W0 /\
  Forall2 (fun w w0 => w * (1 - e) == w0) Wn (select mask W0).
Proof.
  intros Hlen HR Hn0 Hn Wn e. set (R := sumQ W0) in *.
  assert (Hs := sumQ_split mask (map (fun w => w / R) W0) ltac:(rewrite map_length; exact Hlen)).
  fold e in Hs. rewrite <- Hn in Hs.
  assert (H1 : sumQ (map (fun w => w / R) W0) == 1).
  { unfold Qdiv. rewrite sumQ_scale. fold R. field. exact HR. }
  rewrite H1 in Hs.
  split; [|split].
  - unfold Wn. rewrite (sumQ_ext _ (fun w => w * (/ n2 * R))) by (intros w; field; exact Hn0).
    rewrite sumQ_scale, <- Hn. field. exact Hn0.
  - unfold e. rewrite select_map. unfold Qdiv. rewrite sumQ_scale. reflexivity.
  - assert (He : 1 - e == n2) by (rewrite <- Hs; ring).
    unfold Wn. rewrite select_map, map_map.
    apply Forall2_map_l. intros w. rewrite He. field. split; assumption.
Qed.

Lemma eigh_book_any W0 mask nn :
  length mask = length W0 -> ~ sumQ W0 == 0 -> ~ nn == 0 ->
  nn * nn == sumQ (select mask (map (fun w => w / sumQ W0) W0)) ->
  let out := eigh_rho_book W0 mask nn in
  sumQ (eo_W out) == sumQ W0 /\
  eo_eps out == sumQ (select (nmask mask) W0) / sumQ W0 /\
  Forall2 (fun w w0 => w * (1 - eo_eps out) == w0) (eo_W out) (select mask W0).
Proof.
  intros Hlen HR Hn0 Hn out.
  exact (eigh_core W0 mask (nn * nn) Hlen HR (sq_neq0 nn Hn0) Hn).
Qed.

Lemma eigh_book_z_ok ws mask :
  length mask = length ws -> (0 < sumZ ws)%Z -> (0 < sumZ (select mask ws))%Z ->
  sumQ (fst (eigh_book_z ws mask)) == inject_Z (sumZ ws) /\
  snd (eigh_book_z ws mask) == inject_Z (sumZ (select (nmask mask) ws)) / inject_Z (sumZ ws) /\
  Forall2 (fun w w0 => w * (1 - snd (eigh_book_z ws mask)) == inject_Z w0) (fst (eigh_book_z ws mask)) (select mask ws).
Proof.
  intros Hlen HT HK. unfold eigh_book_z. cbn [fst snd].
  set (W0 := map inject_Z ws).
  assert (Hsum : forall l, sumQ (map inject_Z l) == inject_Z (sumZ l)).
  { intros l. rewrite <- (map_id l) at 2. apply (sumQ_inj (fun z => z)). }
  assert (HR : ~ sumQ W0 == 0) by (unfold W0; rewrite Hsum; apply pos_neq0, inj_pos; exact HT).
  assert (Hl : length mask = length W0) by (unfold W0; rewrite map_length; exact Hlen).
  set (n2 := sumQ (select mask (map (fun w => w / sumQ W0) W0))).
  assert (Hn0 : ~ n2 == 0).
  { apply pos_neq0. unfold n2. rewrite select_map. unfold Qdiv. rewrite sumQ_scale.
    unfold W0 at 1. rewrite select_map, Hsum.
    apply Qmult_lt_0_compat; [apply inj_pos; exact HK|].
    apply Qinv_lt_0_compat. unfold W0. rewrite Hsum. apply inj_pos. exact HT. }
  destruct (eigh_core W0 mask n2 Hl HR Hn0 ltac:(reflexivity)) as [E1 [E2 E3]].
  split; [|split].
  - rewrite E1. unfold W0. apply Hsum.
  - rewrite E2. unfold W0. rewrite select_map, !Hsum. reflexivity.
  - apply (Forall2_map_r (fun w w0 : Q => w * (1 - sumQ (select (nmask mask) (map (fun w1 : Q => w1 / sumQ W0) W0))) == w0) inject_Z).
    rewrite <- (select_map inject_Z). exact E3.
Qed.

(* eigenvalues = squares of an integer spectrum xs, mask chosen by truncate on xs (= sqrt(W), scaled) *)
Lemma eigh_book_truncate xs o nn :
  let W0 := map (fun x => inject_Z (sq x)) xs in
  let mask := r_mask (truncate xs o) in
  (0 < sumZ (map sq xs))%Z -> ~ nn == 0 ->
  nn * nn == sumQ (select mask (map (fun w => w / sumQ W0) W0)) ->
  let out := eigh_rho_book W0 mask nn in
  sumQ (eo_W out) == inject_Z (sumZ (map sq xs)) /\
  eo_eps out == inject_Z (r_eps (truncate xs o)) / inject_Z (sumZ (map sq xs)) /\
  Forall2 (fun w w0 => w * (1 - eo_eps out) == w0) (eo_W out) (select mask W0).
Proof.
  intros W0 mask HT Hn0 Hn out.
  assert (HW : sumQ W0 == inject_Z (sumZ (map sq xs))) by (unfold W0; apply sumQ_inj).
  assert (HR : ~ sumQ W0 == 0) by (rewrite HW; apply pos_neq0, inj_pos; exact HT).
  assert (Hlen : length mask = length W0) by (unfold mask, W0; rewrite mask_length, map_length; reflexivity).
  destruct (eigh_book_any W0 mask nn Hlen HR Hn0 Hn) as [E1 [E2 E3]]. fold out in E1, E2, E3.
  split; [rewrite E1; exact HW|]. split; [|exact E3].
  rewrite E2, HW.
  assert (HD : sumQ (select (nmask mask) W0) == inject_Z (r_eps (truncate xs o))).
  { unfold mask. rewrite <- eps_Q. rewrite !select_map, map_map.
    unfold W0. rewrite select_map. apply sumQ_ext. intros x. symmetry. apply qsq_inj. }
  rewrite HD. reflexivity.
Qed.

(* ------------------------------------------------------------------ TruncationError *)
Lemma te_fold_eps l : forall a, te_eps (fold_left te_add l a) == te_eps a + sumQ (map te_eps l).
Proof.
  induction l as [|x t IH]; intros a; cbn [fold_left map sumQ]; [ring|].
  rewrite IH. cbn [te_add te_eps]. ring.
Qed.

Lemma te_fold_ov l : forall a, te_ov (fold_left te_add l a) == te_ov a * prodQ (map te_ov l).
Proof.
  induction l as [|x t IH]; intros a; cbn [fold_left map prodQ]; [ring|].
  rewrite IH. cbn [te_add te_ov]. ring.
Qed.

Lemma te_sum_ok l :
  te_eps (te_sum l) == sumQ (map te_eps l) /\ te_ov (te_sum l) == prodQ (map te_ov l).
Proof.
  unfold te_sum. split; [rewrite te_fold_eps|rewrite te_fold_ov]; cbn [te_zero te_eps te_ov]; ring.
Qed.

Lemma te_sum_app l1 l2 :
  te_eps (te_sum (l1 ++ l2)) == te_eps (te_sum l1) + te_eps (te_sum l2).
Proof.
  destruct (te_sum_ok (l1 ++ l2)) as [-> _]. destruct (te_sum_ok l1) as [-> _]. destruct (te_sum_ok l2) as [-> _].
  rewrite map_app. induction l1 as [|x t IH]; cbn [app map sumQ]; [ring|]. rewrite IH. ring.
Qed.

Lemma te_from_norm_from_S nn no disc :
  ~ no == 0 -> no * no == nn * nn + sumQ (map qsq disc) ->
  te_eps (te_from_norm nn no) == te_eps (te_from_S disc (Some no)) /\
  te_ov (te_from_norm nn no) == te_ov (te_from_S disc (Some no)).
Proof.
  intros H0 H. unfold te_from_norm, te_from_S.
  destruct (Qeq_bool no 0) eqn:E; [apply Qeq_bool_iff in E; contradiction|].
  assert (HD : sumQ (map qsq disc) == no * no - nn * nn) by (rewrite H; ring).
  assert (He : 1 - nn * nn / (no * no) == sumQ (map qsq disc) / (no * no)) by (rewrite HD; field; exact H0).
  cbn [te_make te_eps te_ov]. split; [exact He|]. rewrite He. reflexivity.
Qed.

(* normalised old state (norm_old = 1, the default of from_norm; from_S without norm_old) *)
Lemma te_from_norm_from_S_1 nn disc :
  1 == nn * nn + sumQ (map qsq disc) ->
  te_eps (te_from_norm nn 1) == te_eps (te_from_S disc None) /\
  te_ov (te_from_norm nn 1) == te_ov (te_from_S disc None).
Proof.
  intros H. unfold te_from_norm, te_from_S. cbn [te_make te_eps te_ov].
  assert (He : 1 - nn * nn / (1 * 1) == sumQ (map qsq disc)).
  { assert (HD : sumQ (map qsq disc) == 1 - nn * nn) by (rewrite H; ring). rewrite HD. field. }
  split; [exact He|]. rewrite He. reflexivity.
Qed.
