(* C14: any split of the total number of time steps into run() calls schedules the same evolution
   (after merging adjacent entries of equal parity) as one run() call with the total. *)
From TenpyV Require Import Base.Prelude Base.PyLib Gen.G_trotter.
From TenpyV Require Import Model.Trotter Model.TrotterMerge Model.TrotterMergeCheck Proofs.TrotterP Proofs.TrotterP2.
From Coq Require Import QArith String.
Open Scope Z_scope.

(* ------------------------------------------------------------------ merge is a congruence for ++ *)
Lemma merge_mcons_app e m b : sched_eq (merge (mcons e m ++ b)) (mcons e (merge (m ++ b))).
Proof.
  destruct m as [|[q k'] t]; cbn [mcons].
  - cbn [app merge]. apply sched_eq_refl.
  - destruct e as [p k]. cbn [fst snd]. destruct (k =? k') eqn:E.
    + apply Z.eqb_eq in E. subst k'. cbn [app merge].
      apply sched_eq_sym. apply mcons_mcons.
    + cbn [app merge]. apply sched_eq_refl.
Qed.

Lemma merge_merge_app_l a b : sched_eq (merge (merge a ++ b)) (merge (a ++ b)).
Proof.
  induction a as [|e a IH]; cbn [merge app]; [apply sched_eq_refl|].
  apply (sched_eq_trans _ (mcons e (merge (merge a ++ b)))); [apply merge_mcons_app|].
  apply mcons_proper; [apply ent_eq_refl|exact IH].
Qed.

Lemma merge_app_congr_l a a' b : sched_eq (merge a) (merge a') -> sched_eq (merge (a ++ b)) (merge (a' ++ b)).
Proof.
  intros H.
  apply (sched_eq_trans _ (merge (merge a ++ b))); [apply sched_eq_sym; apply merge_merge_app_l|].
  apply (sched_eq_trans _ (merge (merge a' ++ b))); [|apply merge_merge_app_l].
  apply merge_proper. apply Forall2_app; [exact H|apply sched_eq_refl].
Qed.

Lemma merge_app_congr2 a a' b b' :
  sched_eq (merge a) (merge a') -> sched_eq (merge b) (merge b') -> sched_eq (merge (a ++ b)) (merge (a' ++ b')).
Proof.
  intros Ha Hb.
  apply (sched_eq_trans _ (merge (a' ++ b))); [apply merge_app_congr_l; exact Ha|].
  apply merge_app_congr; exact Hb.
Qed.

Lemma repeat_nat_add {A} (l : list A) n m : repeat_nat l (n + m) = repeat_nat l n ++ repeat_nat l m.
Proof. induction n as [|n IH]; cbn [repeat_nat Nat.add app]; [reflexivity|]. rewrite IH, app_assoc. reflexivity. Qed.

Lemma sumZ_nonneg ns : Forall (fun n => 0 <= n) ns -> 0 <= sumZ ns.
Proof. induction 1 as [|x l Hx _ IHl]; cbn [sumZ]; lia. Qed.

(* ------------------------------------------------------------------ the schedule of several run() calls *)
Section Splits.
  Variables (o : pyorder) (ds : list poly) (s1 : list (Z * Z)).
  Hypothesis Ho : In o orders.
  Hypothesis Hds : time_steps_gen o = Some ds.
  Hypothesis Hs1 : decomposition_gen o 1 = Some s1.

  (* every n >= 0: the n-step schedule exists and merges to the merged n-fold repetition of the one-step one *)
  Lemma steps_rep n : 0 <= n -> exists s, decomposition_gen o n = Some s /\
    sched_eq (merge (timed ds s)) (merge (repeat_nat (timed ds s1) (Z.to_nat n))).
  Proof.
    intros Hn. destruct (Z.eq_dec n 0) as [->|Hn0].
    - exists []. split; [apply trotter_zero; exact Ho|]. cbn. apply sched_eq_refl.
    - destruct (trotter_merge_all o Ho n ltac:(lia)) as (ds' & sN & s1' & E1 & E2 & E3 & E4).
      rewrite Hds in E1. injection E1 as <-. rewrite Hs1 in E3. injection E3 as <-.
      exists sN. split; [exact E2|]. apply sched_eqb_spec in E4. rewrite concat_repeat in E4. exact E4.
  Qed.

  Lemma run_sched_rep ns : Forall (fun n => 0 <= n) ns -> exists r, run_sched o ds ns = Some r /\
    sched_eq (merge r) (merge (repeat_nat (timed ds s1) (Z.to_nat (sumZ ns)))).
  Proof.
    induction 1 as [|n ns Hn Hns IH]; cbn [run_sched sumZ].
    - exists []. split; [reflexivity|]. cbn. apply sched_eq_refl.
    - destruct IH as (r & Er & Hr). destruct (steps_rep n Hn) as (s & Es & Hs).
      rewrite Es, Er. eexists. split; [reflexivity|].
      assert (Hsum : 0 <= sumZ ns) by (apply sumZ_nonneg; exact Hns).
      replace (Z.to_nat (n + sumZ ns)) with (Z.to_nat n + Z.to_nat (sumZ ns))%nat by lia.
      rewrite repeat_nat_add. apply merge_app_congr2; assumption.
  Qed.

  Lemma splits_merge ns : Forall (fun n => 0 <= n) ns -> exists steps runs,
    decomposition_gen o (sumZ ns) = Some steps /\ run_sched o ds ns = Some runs /\
    sched_eqb (merge runs) (merge (timed ds steps)) = true.
  Proof.
    intros H. destruct (run_sched_rep ns H) as (r & Er & Hr).
    assert (Hsum : 0 <= sumZ ns) by (apply sumZ_nonneg; exact H).
    destruct (steps_rep (sumZ ns) Hsum) as (s & Es & Hs).
    exists s, r. split; [exact Es|]. split; [exact Er|].
    apply sched_eqb_spec. apply (sched_eq_trans _ _ Hr). apply sched_eq_sym. exact Hs.
  Qed.
End Splits.

Lemma orders_tables o : In o orders -> exists ds s1, time_steps_gen o = Some ds /\ decomposition_gen o 1 = Some s1.
Proof.
  unfold orders. cbn [In]. intros [<-|[<-|[<-|[<-|[]]]]]; eexists; eexists; split; vm_compute; reflexivity.
Qed.

Lemma trotter_merge_splits o : In o orders -> forall ns, Forall (fun n => 0 <= n) ns ->
  exists ds steps runs,
    time_steps_gen o = Some ds /\ decomposition_gen o (sumZ ns) = Some steps /\
    run_sched o ds ns = Some runs /\
    sched_eqb (merge runs) (merge (timed ds steps)) = true.
Proof.
  intros Ho ns H. destruct (orders_tables o Ho) as (ds & s1 & Hds & Hs1).
  destruct (splits_merge o ds s1 Ho Hds Hs1 ns H) as (steps & runs & E1 & E2 & E3).
  exists ds, steps, runs. repeat split; assumption.
Qed.

(* the congruence itself, as a statement about merge *)
Lemma merge_congruence a a' b b' :
  sched_eq (merge a) (merge a') -> sched_eq (merge b) (merge b') -> sched_eq (merge (a ++ b)) (merge (a' ++ b')).
Proof. exact (merge_app_congr2 a a' b b'). Qed.
