(* Property C13, charge sector: make_valid(sum_i B_i.qtotal) = MPS.get_total_charge() is invariant under every
   local update of Model/SweepCharge.v (two-site and one-site engine, no mixer / DensityMatrixMixer /
   SubspaceExpansion, any update_LP_RP flags), hence along every sweep schedule, for every chinfo. *)
From TenpyV Require Import Base.Prelude Model.Charge Model.Sweep Model.SweepCharge Proofs.ChargeP Proofs.SweepP Proofs.SweepP2.
Open Scope Z_scope.

(* ---- vectors of length = length ci *)
Definition vl (ci : chinfo) (q : charge) : Prop := length q = length ci.
Definition wfq (ci : chinfo) (qs : list charge) : Prop := Forall (vl ci) qs.

Lemma vl_vadd ci a b : vl ci a -> vl ci b -> vl ci (vadd a b).
Proof. unfold vl. intros Ha Hb. rewrite vadd_length; lia. Qed.
Lemma vl_vneg ci a : vl ci a -> vl ci (vneg a).
Proof. unfold vl, vneg. rewrite map_length. auto. Qed.
Lemma vl_vsub ci a b : vl ci a -> vl ci b -> vl ci (vsub a b).
Proof. intros. apply vl_vadd; [|apply vl_vneg]; assumption. Qed.
Lemma vl_mv ci a : vl ci a -> vl ci (make_valid ci a).
Proof. unfold vl. apply make_valid_length. Qed.
Lemma vl_zero ci : vl ci (zero_charge ci).
Proof. unfold vl, zero_charge. apply map_length. Qed.
#[local] Hint Resolve vl_vadd vl_vneg vl_vsub vl_mv vl_zero : vl.

Lemma vec_ext (n : nat) (a b : list Z) : length a = n -> length b = n ->
  (forall c, (c < n)%nat -> nth c a 0 = nth c b 0) -> a = b.
Proof.
  revert a b. induction n as [|n IH]; intros [|x a] [|y b] Ha Hb H; cbn [length] in *; try lia; try reflexivity.
  f_equal.
  - apply (H 0%nat). lia.
  - apply IH; try lia. intros c Hc. apply (H (S c)). lia.
Qed.

Lemma nth_zero_charge ci c : nth c (zero_charge ci) 0 = 0.
Proof.
  unfold zero_charge. revert c. induction ci as [|m ci IH]; intros [|c]; cbn [map nth]; auto.
Qed.

(* raw identities *)
Lemma vadd_vsub_cancel ci a b : vl ci a -> vl ci b -> vadd a (vsub b a) = b.
Proof.
  intros Ha Hb. apply (vec_ext (length ci)); [apply vl_vadd; auto with vl|exact Hb|].
  intros c Hc. unfold vsub. rewrite !nth_vadd, nth_vneg; try lia; unfold vl in *;
    rewrite ?vadd_length; unfold vneg; rewrite ?map_length; lia.
Qed.

Lemma list_eqb_refl a : list_eqb a a = true.
Proof. induction a as [|x a IH]; cbn [list_eqb]; [reflexivity|]. rewrite Z.eqb_refl. exact IH. Qed.
Lemma list_eqb_eq a : forall b, list_eqb a b = true -> a = b.
Proof.
  induction a as [|x a IH]; intros [|y b] H; cbn [list_eqb] in H; try discriminate; try reflexivity.
  apply andb_prop in H. destruct H as [H1 H2]. f_equal; [lia|apply IH; exact H2].
Qed.

(* ---- congruence modulo the charge lattice *)
Definition ceq (ci : chinfo) (a b : charge) : Prop := make_valid ci a = make_valid ci b.

Lemma ceq_mv ci a : valid_ci ci -> ceq ci (make_valid ci a) a.
Proof. intros Hv. unfold ceq. apply make_valid_idem. exact Hv. Qed.
Lemma ceq_trans ci a b c : ceq ci a b -> ceq ci b c -> ceq ci a c.
Proof. unfold ceq. congruence. Qed.
Lemma ceq_sym ci a b : ceq ci a b -> ceq ci b a.
Proof. unfold ceq. congruence. Qed.
Lemma ceq_vadd ci a a' b b' : valid_ci ci -> ceq ci a a' -> ceq ci b b' -> ceq ci (vadd a b) (vadd a' b').
Proof.
  unfold ceq. intros Hv Ha Hb.
  rewrite <- (make_valid_add_l ci a b), <- (make_valid_add_r ci _ b) by exact Hv.
  rewrite Ha, Hb. rewrite make_valid_add_l, make_valid_add_r by exact Hv. reflexivity.
Qed.
Lemma ceq_vneg ci a a' : valid_ci ci -> ceq ci a a' -> ceq ci (vneg a) (vneg a').
Proof.
  unfold ceq. intros Hv Ha. rewrite <- (make_valid_neg ci a), Ha by exact Hv. apply make_valid_neg. exact Hv.
Qed.

(* component view *)
Lemma ceq_nth ci a b c : vl ci a -> vl ci b -> ceq ci a b -> (c < length ci)%nat ->
  mv1 (nth c ci 1) (nth c a 0) = mv1 (nth c ci 1) (nth c b 0).
Proof.
  unfold vl, ceq. intros Ha Hb H Hc.
  rewrite <- !nth_make_valid by lia. rewrite H. reflexivity.
Qed.

(* a + (b - a) ~ b   and   a + (mv (mv (0 + a) - a)) ~ a, used below *)
Lemma ceq_cancel ci a b : valid_ci ci -> vl ci a -> vl ci b -> ceq ci (vadd a (vsub b a)) b.
Proof. intros _ Ha Hb. unfold ceq. rewrite (vadd_vsub_cancel ci) by assumption. reflexivity. Qed.

Lemma vadd_comm_raw a : forall b, vadd a b = vadd b a.
Proof. induction a as [|x a IH]; intros [|y b]; cbn [vadd]; try reflexivity. f_equal; [lia|apply IH]. Qed.

Lemma vadd_zero_l ci a : vl ci a -> vadd (zero_charge ci) a = a.
Proof.
  intros Ha. apply (vec_ext (length ci)); [apply vl_vadd; auto with vl|exact Ha|].
  intros c Hc. rewrite nth_vadd, nth_zero_charge; [lia| |unfold vl in Ha; lia].
  pose proof (vl_zero ci) as Hz. unfold vl in Hz. lia.
Qed.
Lemma vsub_self ci a : vl ci a -> vsub a a = zero_charge ci.
Proof.
  intros Ha. apply (vec_ext (length ci)); [apply vl_vsub; assumption|apply vl_zero|].
  intros c Hc. unfold vsub. rewrite nth_vadd, nth_vneg, nth_zero_charge; unfold vl in Ha; unfold vneg; rewrite ?map_length; lia.
Qed.
Lemma vadd_zero_r ci a : vl ci a -> vadd a (zero_charge ci) = a.
Proof. intros Ha. rewrite vadd_comm_raw. apply vadd_zero_l. exact Ha. Qed.

(* ---- results of the decompositions: lengths and  U.qtotal + VH.qtotal ~ a.qtotal *)
Lemma svd_q_spec ci a ql qr u vh : valid_ci ci -> vl ci a ->
  match ql with Some l => vl ci l | None => True end -> match qr with Some r => vl ci r | None => True end ->
  svd_q ci a ql qr = Some (u, vh) -> vl ci u /\ vl ci vh /\ ceq ci (vadd u vh) a.
Proof.
  intros Hv Ha Hl Hr H. unfold svd_q in H. destruct ql as [l|], qr as [r|].
  - destruct (list_eqb a (make_valid ci (vadd l r))) eqn:E; [|discriminate]. inversion H; subst u vh; clear H.
    apply list_eqb_eq in E. repeat split; auto with vl.
    unfold ceq. rewrite make_valid_add_l, make_valid_add_r by exact Hv. rewrite E, make_valid_idem by exact Hv. reflexivity.
  - inversion H; subst u vh; clear H. repeat split; auto with vl.
    eapply ceq_trans; [apply ceq_vadd; [exact Hv|apply ceq_mv; exact Hv|]|apply ceq_cancel; assumption].
    eapply ceq_trans; apply ceq_mv; exact Hv.
  - inversion H; subst u vh; clear H. repeat split; auto with vl.
    rewrite vadd_comm_raw.
    eapply ceq_trans; [apply ceq_vadd; [exact Hv|apply ceq_mv; exact Hv|]|apply ceq_cancel; assumption].
    eapply ceq_trans; apply ceq_mv; exact Hv.
  - inversion H; subst u vh; clear H. repeat split; auto with vl.
    rewrite vadd_comm_raw.
    eapply ceq_trans; [apply ceq_vadd; [exact Hv|apply ceq_mv; exact Hv|]|apply ceq_cancel; assumption].
    eapply ceq_trans; apply ceq_mv; exact Hv.
Qed.

Lemma svd_q_some_one ci a l : svd_q ci a (Some l) None <> None /\ svd_q ci a None (Some l) <> None.
Proof. split; cbn; discriminate. Qed.

Lemma determine_q_spec ci th ql qr l r : vl ci th ->
  match ql with Some l => vl ci l | None => True end -> match qr with Some r => vl ci r | None => True end ->
  determine_q ci th ql qr = Some (l, r) -> vl ci l /\ vl ci r /\ vadd l r = th.
Proof.
  intros Ht Hl Hr H. unfold determine_q in H.
  destruct (list_eqb _ th) eqn:E; [|discriminate]. apply list_eqb_eq in E. inversion H as [H1]; clear H.
  destruct ql as [l0|], qr as [r0|]; inversion H1; subst; cbn [fst snd] in *; repeat split; auto with vl.
Qed.

Lemma dm2_q_spec ci th ql qr u vh : valid_ci ci -> vl ci th ->
  match ql with Some l => vl ci l | None => True end -> match qr with Some r => vl ci r | None => True end ->
  dm2_q ci th ql qr = Some (u, vh) -> vl ci u /\ vl ci vh /\ ceq ci (vadd u vh) th.
Proof.
  intros Hv Ht Hl Hr H. unfold dm2_q in H. destruct (determine_q ci th ql qr) as [[l r]|] eqn:E; [|discriminate].
  inversion H; subst u vh; clear H. destruct (determine_q_spec _ _ _ _ _ _ Ht Hl Hr E) as (Hl' & Hr' & Hs).
  repeat split; auto with vl. rewrite <- Hs. apply ceq_vadd; [exact Hv|apply ceq_mv; exact Hv..].
Qed.

Lemma tdot_zero ci th : valid_ci ci -> vl ci th -> ceq ci (tdot_q ci (env_q ci) th) th.
Proof.
  intros Hv Ht. unfold tdot_q, env_q. rewrite vadd_zero_l by exact Ht. apply ceq_mv. exact Hv.
Qed.

Lemma sub1_q_spec ci th mr u vh : valid_ci ci -> vl ci th ->
  sub1_q ci th mr = Some (u, vh) -> vl ci u /\ vl ci vh /\ ceq ci (vadd u vh) th.
Proof.
  intros Hv Ht H. unfold sub1_q in H.
  assert (Hte : vl ci (tdot_q ci (env_q ci) th)) by (unfold tdot_q, env_q; auto with vl).
  destruct mr.
  - destruct (svd_q_spec ci _ (Some th) None u vh Hv Hte Ht I H) as (A & B & C).
    repeat split; auto. eapply ceq_trans; [exact C|apply tdot_zero; assumption].
  - destruct (svd_q_spec ci _ None (Some th) u vh Hv Hte I Ht H) as (A & B & C).
    repeat split; auto. eapply ceq_trans; [exact C|apply tdot_zero; assumption].
Qed.

Lemma sub2_q_spec ci th ml mrr ql qr u vh : valid_ci ci -> vl ci th ->
  match ql with Some l => vl ci l | None => True end -> match qr with Some r => vl ci r | None => True end ->
  sub2_q ci th ml mrr ql qr = Some (u, vh) -> vl ci u /\ vl ci vh /\ ceq ci (vadd u vh) th.
Proof.
  intros Hv Ht Hl Hr H. unfold sub2_q in H. destruct ml, mrr; cbn [andb] in H.
  - destruct (determine_q ci th ql qr) as [[l r]|] eqn:E; [|discriminate].
    destruct (sub1_q ci th true); [|discriminate]. destruct (sub1_q ci th false); [|discriminate].
    inversion H; subst u vh; clear H. destruct (determine_q_spec _ _ _ _ _ _ Ht Hl Hr E) as (Hl' & Hr' & Hs).
    repeat split; auto with vl. rewrite <- Hs. apply ceq_vadd; [exact Hv|apply ceq_mv; exact Hv..].
  - eapply sub1_q_spec; eassumption.
  - eapply sub1_q_spec; eassumption.
  - discriminate.
Qed.

(* ---- sums over the sites, component by component *)
Definition comp (c : nat) (qs : list charge) : list Z := map (fun q => nth c q 0) qs.

Lemma nth_vsum ci qs c : wfq ci qs -> (c < length ci)%nat -> nth c (vsum ci qs) 0 = sumZ (comp c qs).
Proof.
  intros Hw Hc. induction Hw as [|q qs Hq Hw IH]; cbn [vsum fold_right comp map sumZ].
  - apply nth_zero_charge.
  - fold (vsum ci qs). fold (comp c qs). rewrite nth_vadd.
    + rewrite IH. reflexivity.
    + unfold vl in Hq. lia.
    + assert (Hl : vl ci (vsum ci qs)).
      { clear IH. induction Hw as [|q' qs' Hq' _ IH']; cbn [vsum fold_right]; auto with vl. }
      unfold vl in Hl. lia.
Qed.

Lemma vl_vsum ci qs : wfq ci qs -> vl ci (vsum ci qs).
Proof. intros Hw. induction Hw as [|q qs Hq _ IH]; cbn [vsum fold_right]; auto with vl. Qed.

Lemma sumZ_set_nth (l : list Z) k y : (k < length l)%nat -> sumZ (set_nth l k y) = sumZ l - nth k l 0 + y.
Proof.
  revert k. induction l as [|x l IH]; intros [|k] H; cbn [set_nth sumZ nth length] in *; try lia.
  rewrite IH by lia. lia.
Qed.

Lemma comp_set_nth c qs k q : comp c (set_nth qs k q) = set_nth (comp c qs) k (nth c q 0).
Proof.
  unfold comp. revert k. induction qs as [|x qs IH]; intros [|k]; cbn [set_nth map]; try reflexivity.
  f_equal. apply IH.
Qed.

Lemma wfq_set_nth ci qs k q : wfq ci qs -> vl ci q -> wfq ci (set_nth qs k q).
Proof.
  unfold wfq. intros Hw Hq. revert k. induction Hw as [|x qs Hx Hw IH]; intros [|k]; cbn [set_nth]; constructor; auto.
Qed.

Lemma wfq_nth ci qs k : wfq ci qs -> (k < length qs)%nat -> vl ci (nth k qs []).
Proof.
  intros Hw. revert k. induction Hw as [|x qs Hx Hw IH]; intros [|k] H; cbn [nth length] in *; try lia; auto.
  apply IH. lia.
Qed.

(* replacing two different sites by a pair with a congruent sum keeps the total charge *)
Lemma total_set2 ci qs i j u v : valid_ci ci -> wfq ci qs -> (i < length qs)%nat -> (j < length qs)%nat -> i <> j ->
  vl ci u -> vl ci v -> ceq ci (vadd u v) (vadd (nth i qs []) (nth j qs [])) ->
  total_charge ci (set_nth (set_nth qs i u) j v) = total_charge ci qs.
Proof.
  intros Hv Hw Hi Hj Hij Hu Hvv Hc. unfold total_charge.
  assert (Hw' : wfq ci (set_nth (set_nth qs i u) j v)) by (apply wfq_set_nth; [apply wfq_set_nth|]; assumption).
  pose proof (wfq_nth ci qs i Hw Hi) as Hqi. pose proof (wfq_nth ci qs j Hw Hj) as Hqj.
  apply (vec_ext (length ci)); [apply vl_mv, vl_vsum; assumption..|].
  intros c Hcl. pose proof (vl_vsum ci _ Hw) as L1. pose proof (vl_vsum ci _ Hw') as L2. unfold vl in L1, L2.
  rewrite !nth_make_valid by lia. rewrite !nth_vsum by assumption.
  rewrite !comp_set_nth. rewrite sumZ_set_nth by (rewrite set_nth_length; unfold comp; rewrite map_length; exact Hj).
  rewrite nth_set_nth_neq by (intro; apply Hij; congruence).
  rewrite sumZ_set_nth by (unfold comp; rewrite map_length; exact Hi).
  assert (Hn : forall k, nth k (comp c qs) 0 = nth c (nth k qs []) 0).
  { intros k. unfold comp. destruct (Nat.lt_ge_cases k (length qs)) as [Hk|Hk].
    - rewrite (nth_indep _ 0 ((fun q => nth c q 0) [])) by (rewrite map_length; exact Hk).
      exact (map_nth (fun q : list Z => nth c q 0) qs [] k).
    - rewrite (nth_overflow (map _ qs)) by (rewrite map_length; lia). rewrite (nth_overflow qs) by lia.
      destruct c; reflexivity. }
  rewrite !Hn.
  pose proof (ceq_nth ci _ _ c (vl_vadd _ _ _ Hu Hvv) (vl_vadd _ _ _ Hqi Hqj) Hc Hcl) as E.
  unfold vl in Hu, Hvv, Hqi, Hqj. rewrite !nth_vadd in E by lia.
  pose proof (valid_ci_nth ci c Hv) as Hm.
  set (m := nth c ci 1) in *. set (s := sumZ (comp c qs)) in *.
  replace (s - nth c (nth i qs []) 0 + nth c u 0 - nth c (nth j qs []) 0 + nth c v 0)
    with ((s - nth c (nth i qs []) 0 - nth c (nth j qs []) 0) + (nth c u 0 + nth c v 0)) by lia.
  rewrite (mv1_congr_add m _ (s - nth c (nth i qs []) 0 - nth c (nth j qs []) 0) _
             (nth c (nth i qs []) 0 + nth c (nth j qs []) 0) Hm eq_refl E).
  f_equal. lia.
Qed.

(* ---- one local update *)
Definition keeps (c : cfg) : Prop := snd c = None.
(* the two updated sites are different sites of the chain *)
Definition wf_entry (n : nat) (e : entry) : Prop :=
  match e with (i0, mr, _) => n = 2%nat \/ mr = true \/ (1 <= i0)%nat end.

Lemma mod_succ_neq i L : (2 <= L)%nat -> (i mod L <> (i + 1) mod L)%nat.
Proof.
  intros HL H.
  pose proof (Nat.div_mod i L ltac:(lia)) as E1. pose proof (Nat.div_mod (i + 1) L ltac:(lia)) as E2.
  pose proof (Nat.mod_upper_bound i L ltac:(lia)). pose proof (Nat.mod_upper_bound (i + 1) L ltac:(lia)).
  rewrite <- H in E2. assert (E : (L * ((i + 1) / L) = L * (i / L) + 1)%nat) by lia.
  assert (Hd : ((i + 1) / L = i / L \/ (i + 1) / L > i / L \/ (i + 1) / L < i / L)%nat) by lia.
  destruct Hd as [Hd|[Hd|Hd]]; nia.
Qed.

Lemma setq2_total ci qs i u v : valid_ci ci -> wfq ci qs -> (2 <= length qs)%nat -> vl ci u -> vl ci v ->
  ceq ci (vadd u v) (vadd (getq qs i) (getq qs (i + 1))) ->
  let qs' := setq (setq qs i u) (i + 1) v in
  wfq ci qs' /\ length qs' = length qs /\ total_charge ci qs' = total_charge ci qs.
Proof.
  intros Hv Hw HL Hu Hvv Hc. cbn zeta. unfold setq, getq in *. rewrite !set_nth_length.
  split; [apply wfq_set_nth; [apply wfq_set_nth|]; assumption|]. split; [reflexivity|].
  apply total_set2; try assumption; try (apply Nat.mod_upper_bound; lia). apply mod_succ_neq. exact HL.
Qed.

Lemma vl_getq ci qs i : wfq ci qs -> (2 <= length qs)%nat -> vl ci (getq qs i).
Proof. intros Hw HL. unfold getq. apply wfq_nth; [exact Hw|apply Nat.mod_upper_bound; lia]. Qed.

Lemma upd2_q_total ci qs i0 upl upr c qs' : valid_ci ci -> wfq ci qs -> (2 <= length qs)%nat -> keeps c ->
  upd2_q ci qs i0 upl upr c = Some qs' ->
  wfq ci qs' /\ length qs' = length qs /\ total_charge ci qs' = total_charge ci qs.
Proof.
  intros Hv Hw HL Hk H. unfold upd2_q in H. destruct c as [mk dg]. unfold keeps in Hk. cbn [fst snd] in *. subst dg.
  cbn [diag_q] in H.
  pose proof (vl_getq ci qs i0 Hw HL) as H0. pose proof (vl_getq ci qs (i0 + 1) Hw HL) as H1.
  set (th := tdot_q ci (getq qs i0) (getq qs (i0 + 1))) in *.
  assert (Ht : vl ci th) by (unfold th, tdot_q; auto with vl).
  assert (Hth : ceq ci th (vadd (getq qs i0) (getq qs (i0 + 1)))) by (apply ceq_mv; exact Hv).
  assert (G : forall u vh, vl ci u /\ vl ci vh /\ ceq ci (vadd u vh) th ->
              Some (setq (setq qs i0 u) (i0 + 1) vh) = Some qs' ->
              wfq ci qs' /\ length qs' = length qs /\ total_charge ci qs' = total_charge ci qs).
  { intros u vh (A & B & C) E. inversion E; subst qs'. apply setq2_total; try assumption.
    eapply ceq_trans; eassumption. }
  destruct mk.
  - destruct (svd_q ci th (Some (getq qs i0)) None) as [[u vh]|] eqn:E; [|discriminate].
    apply (G u vh); [|exact H]. exact (svd_q_spec ci th (Some (getq qs i0)) None u vh Hv Ht H0 I E).
  - destruct (dm2_q ci th _ _) as [[u vh]|] eqn:E; [|discriminate].
    apply (G u vh); [|exact H].
    exact (dm2_q_spec ci th (Some (getq qs i0)) (Some (vsub th (getq qs i0))) u vh Hv Ht H0 (vl_vsub _ _ _ Ht H0) E).
  - destruct (sub2_q ci th _ _ _ _) as [[u vh]|] eqn:E; [|discriminate].
    apply (G u vh); [|exact H].
    exact (sub2_q_spec ci th upl upr (Some (getq qs i0)) (Some (vsub th (getq qs i0))) u vh Hv Ht H0 (vl_vsub _ _ _ Ht H0) E).
Qed.

Lemma upd1_q_total ci qs i0 mr upl upr c qs' : valid_ci ci -> wfq ci qs -> (2 <= length qs)%nat -> keeps c ->
  mr = true \/ (1 <= i0)%nat ->
  upd1_q ci qs i0 mr upl upr c = Some qs' ->
  wfq ci qs' /\ length qs' = length qs /\ total_charge ci qs' = total_charge ci qs.
Proof.
  intros Hv Hw HL Hk Hwf H. unfold upd1_q in H. destruct c as [mk dg]. unfold keeps in Hk. cbn [fst snd] in *. subst dg.
  cbn [diag_q] in H.
  (* normalise to iL, iL + 1 *)
  set (iL := if mr then i0 else (i0 - 1)%nat) in *.
  assert (EL : fst (env_inds 1 i0 mr) = iL) by (unfold env_inds, iL; destruct mr; reflexivity).
  assert (ER : snd (env_inds 1 i0 mr) = (iL + 1)%nat).
  { unfold env_inds, iL. destruct mr; cbn [Nat.eqb orb fst snd]; [lia|]. destruct Hwf as [Hwf|Hwf]; [discriminate|lia]. }
  rewrite EL, ER in H. clear EL ER.
  pose proof (vl_getq ci qs iL Hw HL) as H0. pose proof (vl_getq ci qs (iL + 1) Hw HL) as H1.
  assert (G : forall u vh, vl ci u -> vl ci vh -> ceq ci (vadd u vh) (vadd (getq qs iL) (getq qs (iL + 1))) ->
              Some (setq (setq qs iL u) (iL + 1) vh) = Some qs' ->
              wfq ci qs' /\ length qs' = length qs /\ total_charge ci qs' = total_charge ci qs).
  { intros u vh A B C E. inversion E; subst qs'. apply setq2_total; assumption. }
  destruct mr.
  - (* right move: theta on iL = i0, next_B on iL + 1 *)
    subst iL. set (th := getq qs i0) in *. set (nx := getq qs (i0 + 1)) in *.
    destruct mk.
    + destruct (svd_q ci th (Some th) None) as [[u vh]|] eqn:E; [|discriminate].
      destruct (svd_q_spec ci th (Some th) None u vh Hv H0 H0 I E) as (A & B & C).
      apply (G u (tdot_q ci vh nx)); [exact A|unfold tdot_q; auto with vl| |exact H].
      (* u = mv th, vh ~ 0 *)
      cbn [svd_q] in E. inversion E; subst u vh.
      unfold tdot_q. apply ceq_vadd; [exact Hv|apply ceq_mv; exact Hv|].
      eapply ceq_trans; [apply ceq_mv; exact Hv|].
      rewrite <- (vadd_zero_l ci nx H1) at 2. apply ceq_vadd; [exact Hv| |reflexivity].
      eapply ceq_trans; [apply ceq_mv; exact Hv|]. eapply ceq_trans; [apply ceq_mv; exact Hv|].
      rewrite (vsub_self ci) by exact H0. reflexivity.
    + destruct (dm2_q ci _ _ _) as [[u vh]|] eqn:E; [|discriminate].
      assert (Ht2 : vl ci (tdot_q ci th nx)) by (unfold tdot_q; auto with vl).
      destruct (dm2_q_spec ci _ (Some th) (Some nx) u vh Hv Ht2 H0 H1 E) as (A & B & C).
      apply (G u vh A B); [|exact H]. eapply ceq_trans; [exact C|apply ceq_mv; exact Hv].
    + destruct (sub1_q ci th true) as [[u vh]|] eqn:E; [|discriminate].
      destruct (sub1_q_spec ci th true u vh Hv H0 E) as (A & B & C).
      apply (G u nx A H1); [|exact H].
      unfold sub1_q in E. cbn [svd_q] in E. inversion E; subst u vh.
      apply ceq_vadd; [exact Hv|apply ceq_mv; exact Hv|reflexivity].
  - (* left move: next_A on iL = i0 - 1, theta on iL + 1 = i0 *)
    assert (Ei : (i0 = iL + 1)%nat) by (subst iL; destruct Hwf as [Hwf|Hwf]; [discriminate|lia]).
    replace (i0 - 1)%nat with iL in H by reflexivity.
    rewrite Ei in H. set (th := getq qs (iL + 1)) in *. set (nx := getq qs iL) in *.
    destruct mk.
    + destruct (svd_q ci th None (Some th)) as [[u vh]|] eqn:E; [|discriminate].
      destruct (svd_q_spec ci th None (Some th) u vh Hv H1 I H1 E) as (A & B & C).
      apply (G (tdot_q ci nx u) vh); [unfold tdot_q; auto with vl|exact B| |exact H].
      cbn [svd_q] in E. inversion E; subst u vh.
      unfold tdot_q. apply ceq_vadd; [exact Hv| |apply ceq_mv; exact Hv].
      eapply ceq_trans; [apply ceq_mv; exact Hv|].
      rewrite <- (vadd_zero_r ci nx H0) at 2. apply ceq_vadd; [exact Hv|reflexivity|].
      eapply ceq_trans; [apply ceq_mv; exact Hv|]. eapply ceq_trans; [apply ceq_mv; exact Hv|].
      rewrite (vsub_self ci) by exact H1. reflexivity.
    + destruct (dm2_q ci _ _ _) as [[u vh]|] eqn:E; [|discriminate].
      assert (Ht2 : vl ci (tdot_q ci nx th)) by (unfold tdot_q; auto with vl).
      destruct (dm2_q_spec ci _ (Some nx) (Some th) u vh Hv Ht2 H0 H1 E) as (A & B & C).
      apply (G u vh A B); [|exact H]. eapply ceq_trans; [exact C|apply ceq_mv; exact Hv].
    + destruct (sub1_q ci th false) as [[u vh]|] eqn:E; [|discriminate].
      destruct (sub1_q_spec ci th false u vh Hv H1 E) as (A & B & C).
      apply (G nx vh H0 B); [|exact H].
      unfold sub1_q in E. cbn [svd_q] in E. inversion E; subst u vh.
      apply ceq_vadd; [exact Hv|reflexivity|apply ceq_mv; exact Hv].
Qed.

Lemma upd_q_total ci n qs e c qs' : valid_ci ci -> wfq ci qs -> (2 <= length qs)%nat -> keeps c -> wf_entry n e ->
  upd_q ci n qs e c = Some qs' ->
  wfq ci qs' /\ length qs' = length qs /\ total_charge ci qs' = total_charge ci qs.
Proof.
  intros Hv Hw HL Hk He H. destruct e as [[i0 mr] [upl upr]]. unfold upd_q in H. unfold wf_entry in He.
  destruct (n =? 2)%nat eqn:En.
  - eapply upd2_q_total; eassumption.
  - eapply upd1_q_total; try eassumption. destruct He as [He|He]; [apply Nat.eqb_neq in En; contradiction|exact He].
Qed.

(* ---- every list of updates *)
Theorem run_q_total ci n : valid_ci ci -> forall es cs qs qs', wfq ci qs -> (2 <= length qs)%nat ->
  Forall keeps cs -> Forall (wf_entry n) es ->
  run_q ci n qs es cs = Some qs' ->
  wfq ci qs' /\ length qs' = length qs /\ total_charge ci qs' = total_charge ci qs.
Proof.
  intros Hv es. induction es as [|e es IH]; intros cs qs qs' Hw HL Hk He H.
  - cbn [run_q] in H. inversion H; subst. auto.
  - destruct cs as [|c cs]; cbn [run_q] in H; [inversion H; subst; auto|].
    destruct (upd_q ci n qs e c) as [q1|] eqn:E; [|discriminate].
    inversion Hk as [|? ? Hc Hk']; subst. inversion He as [|? ? He1 He']; subst.
    destruct (upd_q_total ci n qs e c q1 Hv Hw HL Hc He1 E) as (W1 & L1 & T1).
    destruct (IH cs q1 qs' W1 ltac:(lia) Hk' He' H) as (W2 & L2 & T2).
    split; [exact W2|]. split; [lia|]. rewrite T2. exact T1.
Qed.

(* ---- the entries of every schedule are well-formed *)
Lemma nth_map_lt {A B} (f : A -> B) (l : list A) k d d' : (k < length l)%nat -> nth k (map f l) d' = f (nth k l d).
Proof.
  revert k. induction l as [|x l IH]; intros [|k] H; cbn [map nth length] in *; try lia; try reflexivity.
  apply IH. lia.
Qed.
Lemma schedule_wf fin L n : (n = 1 \/ n = 2)%nat -> (n < L)%nat -> Forall (wf_entry n) (schedule fin L n).
Proof.
  intros Hn HL. apply Forall_forall. intros e Hin.
  destruct (In_nth _ _ (0%nat, true, (true, true)) Hin) as (k & Hk & Ek).
  pose proof (schedule_covers_full fin L n Hn HL) as Hc. cbn zeta in Hc. destruct Hc as (Hlen & Hr & Hl & _).
  set (m := right_moves fin L n) in *.
  assert (Hk' : (k < 2 * m)%nat) by (rewrite <- Hlen; exact Hk). clear Hk. rename Hk' into Hk.
  destruct e as [[i0 mr] fl]. unfold wf_entry.
  destruct (Nat.lt_ge_cases k m) as [Hkm|Hkm].
  - right. left. destruct (Hr k Hkm) as [_ H2].
    rewrite (nth_map_lt _ _ k (0%nat, true, (true, true))) in H2 by (clear - Hlen Hk Hkm; change (length (schedule fin L n) = (2 * m)%nat) in Hlen; unfold entry in *; lia).
    rewrite Ek in H2. exact H2.
  - right. right. destruct (Hl (2 * m - k)%nat ltac:(lia)) as [H1 _].
    replace (2 * m - (2 * m - k))%nat with k in H1 by lia.
    rewrite (nth_map_lt _ _ k (0%nat, true, (true, true))) in H1 by (clear - Hlen Hk Hkm; unfold entry in *; lia).
    rewrite Ek in H1. cbn [fst] in H1. lia.
Qed.

Lemma Forall_repeat_list {A} (P : A -> Prop) l k : Forall P l -> Forall P (repeat_list l k).
Proof. intros H. induction k as [|k IH]; cbn [repeat_list]; [constructor|]. apply Forall_app. split; assumption. Qed.

Lemma Forall_firstn {A} (P : A -> Prop) l k : Forall P l -> Forall P (firstn k l).
Proof.
  intros H. revert k. induction H as [|x l Hx _ IH]; intros [|k]; cbn [firstn]; constructor; auto.
Qed.

(* Charge sector: every prefix (p local updates) of any number k of sweeps, finite or infinite schedule, two-site or
   one-site engine, any mixer at every step, eigensolver keeping the sector: get_total_charge is unchanged. *)
Theorem charge_sector_all : forall (ci : chinfo) (fin : bool) (L n k p : nat) (cs : list cfg) (qs qs' : list charge),
  valid_ci ci -> (n = 1 \/ n = 2)%nat -> (n < L)%nat -> length qs = L -> wfq ci qs -> Forall keeps cs ->
  run_q ci n qs (firstn p (repeat_list (schedule fin L n) k)) cs = Some qs' ->
  total_charge ci qs' = total_charge ci qs /\ length qs' = L /\ wfq ci qs'.
Proof.
  intros ci fin L n k p cs qs qs' Hv Hn HL Hlen Hw Hk H.
  destruct (run_q_total ci n Hv _ cs qs qs' Hw ltac:(lia) Hk
              (Forall_firstn _ _ p (Forall_repeat_list _ _ k (schedule_wf fin L n Hn HL))) H) as (A & B & C).
  repeat split; [exact C|lia|exact A].
Qed.

(* ---- when can an update raise?  Only the raw `qL + qR == theta_qtotal` test of Mixer.determine_qtotal_L_R in the
   one-site engine with a DensityMatrixMixer (two-site fallback), and SubspaceExpansion with update_LP_RP = (F, F). *)
Definition never_raises_cfg (n : nat) (e : entry) (c : cfg) : Prop :=
  match e with (_, _, (upl, upr)) =>
    match fst c with
    | MixNone => True
    | MixDM => n = 2%nat
    | MixSub => n = 2%nat -> (upl || upr)%bool = true
    end end.

Lemma determine_q_diff ci th l : vl ci th -> vl ci l ->
  determine_q ci th (Some l) (Some (vsub th l)) = Some (l, vsub th l).
Proof.
  intros Ht Hl. unfold determine_q. cbn [fst snd]. rewrite (vadd_vsub_cancel ci) by assumption.
  rewrite list_eqb_refl. reflexivity.
Qed.

Lemma upd_q_no_raise ci n qs e c : valid_ci ci -> wfq ci qs -> (2 <= length qs)%nat -> keeps c ->
  never_raises_cfg n e c -> upd_q ci n qs e c <> None.
Proof.
  intros Hv Hw HL Hk Hn. destruct e as [[i0 mr] [upl upr]]. destruct c as [mk dg]. unfold keeps in Hk.
  cbn [fst snd] in *. subst dg. unfold upd_q. unfold never_raises_cfg in Hn. cbn [fst] in Hn.
  destruct (n =? 2)%nat eqn:En.
  - unfold upd2_q. cbn [fst snd diag_q].
    pose proof (vl_getq ci qs i0 Hw HL) as H0. pose proof (vl_getq ci qs (i0 + 1) Hw HL) as H1.
    set (th := tdot_q ci (getq qs i0) (getq qs (i0 + 1))).
    assert (Ht : vl ci th) by (unfold th, tdot_q; auto with vl).
    destruct mk.
    + cbn [svd_q]. discriminate.
    + unfold dm2_q. rewrite (determine_q_diff ci) by assumption. discriminate.
    + unfold sub2_q. rewrite (determine_q_diff ci) by assumption. unfold sub1_q. cbn [svd_q].
      apply Nat.eqb_eq in En. specialize (Hn En). destruct upl, upr; cbn [andb orb] in *; discriminate.
  - unfold upd1_q. cbn [fst snd diag_q]. destruct mk.
    + destruct mr; cbn [svd_q]; discriminate.
    + apply Nat.eqb_neq in En. contradiction.
    + unfold sub1_q. destruct mr; cbn [svd_q]; discriminate.
Qed.

Theorem run_q_no_raise ci n : valid_ci ci -> forall es cs qs, wfq ci qs -> (2 <= length qs)%nat ->
  Forall keeps cs -> Forall (wf_entry n) es -> length cs = length es ->
  Forall (fun ec => never_raises_cfg n (fst ec) (snd ec)) (combine es cs) ->
  exists qs', run_q ci n qs es cs = Some qs'.
Proof.
  intros Hv es. induction es as [|e es IH]; intros cs qs Hw HL Hk He Hlen Hn.
  - exists qs. reflexivity.
  - destruct cs as [|c cs]; [discriminate|]. cbn [run_q].
    inversion Hk as [|? ? Hc Hk']; subst. inversion He as [|? ? He1 He']; subst.
    cbn [combine] in Hn. inversion Hn as [|? ? Hn1 Hn']; subst. cbn [fst snd] in Hn1.
    destruct (upd_q ci n qs e c) as [q1|] eqn:E.
    + destruct (upd_q_total ci n qs e c q1 Hv Hw HL Hc He1 E) as (W1 & L1 & _).
      apply IH; auto. lia.
    + exfalso. eapply upd_q_no_raise; eassumption.
Qed.

(* The raw test does raise: Z_2, both site tensors odd, one-site engine with DensityMatrixMixer. *)
Lemma dm_one_site_raises : upd_q [2] 1 [[1]; [1]; [0]] (0%nat, true, (true, false)) (MixDM, None) = None.
Proof. vm_compute. reflexivity. Qed.

Lemma dm_one_site_raises_ex : exists ci qs e,
  valid_ci ci /\ wfq ci qs /\ forallb (check_valid ci) qs = true /\ wf_entry 1 e /\ upd_q ci 1 qs e (MixDM, None) = None.
Proof.
  exists [2], [[1]; [1]; [0]], (0%nat, true, (true, false)).
  split; [repeat constructor; lia|]. split; [repeat constructor|]. split; [reflexivity|]. split; [right; left; reflexivity|].
  exact dm_one_site_raises.
Qed.

(* ---- accounting when the eigensolver changes the sector (diag_method = 'ED_all'), two-site engine, no mixer:
   the new total is the old one with theta's old charge replaced by the new one. *)
Lemma upd2_ed_all ci qs i0 upl upr q qs' : valid_ci ci -> wfq ci qs -> (2 <= length qs)%nat -> vl ci q ->
  upd2_q ci qs i0 upl upr (MixNone, Some q) = Some qs' ->
  ceq ci (vadd (getq qs' i0) (getq qs' (i0 + 1))) q.
Proof.
  intros Hv Hw HL Hq H. unfold upd2_q in H. cbn [fst snd diag_q] in H.
  pose proof (vl_getq ci qs i0 Hw HL) as H0.
  destruct (svd_q ci (make_valid ci q) (Some (getq qs i0)) None) as [[u vh]|] eqn:E; [|discriminate].
  destruct (svd_q_spec ci _ (Some (getq qs i0)) None u vh Hv (vl_mv _ _ Hq) H0 I E) as (A & B & C).
  inversion H; subst qs'. unfold getq, setq. rewrite !set_nth_length.
  pose proof (mod_succ_neq i0 (length qs) HL) as Hne.
  rewrite nth_set_nth_eq by (rewrite set_nth_length; apply Nat.mod_upper_bound; lia).
  rewrite nth_set_nth_neq by exact Hne.
  rewrite nth_set_nth_eq by (apply Nat.mod_upper_bound; lia).
  eapply ceq_trans; [exact C|apply ceq_mv; exact Hv].
Qed.
