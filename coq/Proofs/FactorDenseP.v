(* Lemmas about Model/FactorDense.v (C05): the dense product of the assembled block factors of svd is the
   dense input, the assembled U / VH are isometries (reduced mode), full_matrices with a missing block is
   not; phase bookkeeping of qr(pos_diag_R=True). *)
From TenpyV Require Import Base.Prelude Model.ChargeL Model.Leg Model.Factor Model.FactorDense.
Open Scope Z_scope.

(* ---------------------------------------------------------------- finite sums *)
Lemma sumn_ext n f g : (forall t, (t < n)%nat -> f t = g t) -> sumn n f = sumn n g.
Proof.
  induction n as [|n IH]; intros H; [reflexivity|]. cbn [sumn]. rewrite IH by (intros t Ht; apply H; lia).
  rewrite (H n) by lia. reflexivity.
Qed.

Lemma sumn_zero n f : (forall t, (t < n)%nat -> f t = 0) -> sumn n f = 0.
Proof.
  induction n as [|n IH]; intros H; [reflexivity|]. cbn [sumn]. rewrite IH by (intros t Ht; apply H; lia).
  rewrite (H n) by lia. reflexivity.
Qed.

Lemma sumn_split a b f : sumn (a + b) f = sumn a f + sumn b (fun t => f (a + t)%nat).
Proof.
  induction b as [|b IH]; [rewrite Nat.add_0_r; cbn [sumn]; lia|].
  rewrite Nat.add_succ_r. cbn [sumn]. rewrite IH. lia.
Qed.

Lemma sumn_scale n c f : sumn n (fun t => c * f t) = c * sumn n f.
Proof. induction n as [|n IH]; cbn [sumn]; [lia|]. rewrite IH. lia. Qed.

Lemma sumZ_map_zero {A} (h : A -> Z) l : (forall x, In x l -> h x = 0) -> sumZ (map h l) = 0.
Proof.
  induction l as [|x l IH]; intros H; [reflexivity|]. cbn [map sumZ]. rewrite IH by (intros y Hy; apply H; right; exact Hy).
  rewrite (H x) by (left; reflexivity). reflexivity.
Qed.

Lemma sumZ_filter_zero {A} (h : A -> Z) (p : A -> bool) l : (forall x, In x l -> p x = false -> h x = 0) ->
  sumZ (map h (filter p l)) = sumZ (map h l).
Proof.
  induction l as [|x l IH]; intros H; [reflexivity|]. cbn [filter map sumZ].
  assert (IH' := IH (fun y Hy => H y (or_intror Hy))).
  destruct (p x) eqn:E; cbn [map sumZ]; rewrite IH'; [reflexivity|]. rewrite (H x (or_introl eq_refl) E). reflexivity.
Qed.

Lemma map_nth_seq' {A B} (f : A -> B) (d : A) (l : list A) :
  map (fun i => f (nth i l d)) (seq 0 (length l)) = map f l.
Proof.
  induction l as [|x l IH]; [reflexivity|]. cbn [length seq map nth]. f_equal.
  rewrite <- seq_shift, map_map. exact IH.
Qed.

(* ---------------------------------------------------------------- slices *)
Lemma boff_nil q : boff [] q = 0%nat.
Proof. unfold boff. rewrite firstn_nil. reflexivity. Qed.
Lemma boff_0 ns : boff ns 0 = 0%nat.
Proof. reflexivity. Qed.
Lemma boff_cons n ns q : boff (n :: ns) (S q) = (n + boff ns q)%nat.
Proof. reflexivity. Qed.
Lemma bsize_cons n ns q : bsize (n :: ns) (S q) = bsize ns q.
Proof. reflexivity. Qed.

Lemma boff_S ns : forall q, boff ns (S q) = (boff ns q + bsize ns q)%nat.
Proof.
  induction ns as [|n ns IH]; intros q.
  - rewrite !boff_nil. unfold bsize. destruct q; reflexivity.
  - destruct q.
    + rewrite boff_cons, !boff_0. unfold bsize. cbn [nth]. lia.
    + rewrite !boff_cons, IH, bsize_cons. lia.
Qed.

Lemma boff_mono ns q q' : (q <= q')%nat -> (boff ns q <= boff ns q')%nat.
Proof. induction 1 as [|q' _ IH]; [lia|]. rewrite boff_S. lia. Qed.

Lemma boff_end_le ns q : (boff ns q + bsize ns q <= list_sum ns)%nat.
Proof.
  rewrite <- boff_S. destruct (le_lt_dec (S q) (length ns)) as [L|L].
  - replace (list_sum ns) with (boff ns (length ns)) by (unfold boff; rewrite firstn_all; reflexivity).
    apply boff_mono, L.
  - unfold boff. rewrite firstn_all2 by lia. lia.
Qed.

Lemma inblk_iff ns q x : inblk ns q x = true <-> (boff ns q <= x < boff ns q + bsize ns q)%nat.
Proof. unfold inblk. lia. Qed.

Lemma inblk_unique ns q q' x : inblk ns q x = true -> inblk ns q' x = true -> q = q'.
Proof.
  rewrite !inblk_iff. intros H H'. destruct (lt_eq_lt_dec q q') as [[L|E]|L]; [|exact E|]; exfalso.
  - pose proof (boff_mono ns (S q) q' L) as M. rewrite boff_S in M. lia.
  - pose proof (boff_mono ns (S q') q L) as M. rewrite boff_S in M. lia.
Qed.

Lemma inblk_lt ns q x : inblk ns q x = true -> (x < list_sum ns /\ q < length ns)%nat.
Proof.
  rewrite inblk_iff. intros H. pose proof (boff_end_le ns q). split; [lia|].
  destruct (le_lt_dec (length ns) q) as [L|L]; [|exact L]. unfold bsize in H. rewrite nth_overflow in H by exact L. lia.
Qed.

Lemma locate_ex ns : forall x, (x < list_sum ns)%nat -> exists q, inblk ns q x = true.
Proof.
  induction ns as [|n ns IH]; intros x H.
  - cbn in H. lia.
  - change (list_sum (n :: ns)) with (n + list_sum ns)%nat in H. destruct (lt_dec x n) as [L|L].
    + exists 0%nat. apply inblk_iff. rewrite boff_0. unfold bsize. cbn [nth]. lia.
    + destruct (IH (x - n)%nat ltac:(lia)) as [q Hq]. exists (S q). apply inblk_iff. apply inblk_iff in Hq.
      rewrite boff_cons, bsize_cons. lia.
Qed.

(* sum over a leg of a function supported on one block = sum over that block *)
Lemma sumn_inblk ns q g :
  sumn (list_sum ns) (fun t => if inblk ns q t then g (t - boff ns q)%nat else 0) = sumn (bsize ns q) g.
Proof.
  pose proof (boff_end_le ns q) as H.
  replace (list_sum ns) with (boff ns q + (bsize ns q + (list_sum ns - boff ns q - bsize ns q)))%nat by lia.
  rewrite !sumn_split.
  rewrite (sumn_zero (boff ns q)).
  2:{ intros t Ht. destruct (inblk ns q t) eqn:E; [apply inblk_iff in E; lia|reflexivity]. }
  rewrite (sumn_zero (list_sum ns - boff ns q - bsize ns q)).
  2:{ intros t Ht. destruct (inblk ns q _) eqn:E; [apply inblk_iff in E; lia|reflexivity]. }
  rewrite Z.add_0_l, Z.add_0_r. apply sumn_ext. intros t Ht.
  replace (inblk ns q (boff ns q + t)) with true by (symmetry; apply inblk_iff; lia).
  f_equal. lia.
Qed.

(* sum over a leg = sum over its blocks *)
Lemma sumn_blocks ns : forall g,
  sumn (list_sum ns) g = sumZ (map (fun m => sumn (bsize ns m) (fun a => g (boff ns m + a)%nat)) (seq 0 (length ns))).
Proof.
  induction ns as [|n ns IH]; intros g; [reflexivity|].
  change (list_sum (n :: ns)) with (n + list_sum ns)%nat. cbn [length seq map sumZ]. rewrite sumn_split. f_equal.
  rewrite IH, <- seq_shift, map_map. f_equal. apply map_ext. intros m. rewrite bsize_cons.
  apply sumn_ext. intros a Ha. rewrite boff_cons. f_equal. lia.
Qed.

(* ---------------------------------------------------------------- assembled entry lists *)
Lemma asm_zero (h : bent -> Z) fx fy fm ks : forall m0,
  (forall k e, nth_error ks k = Some e -> h (fx (m0 + k)%nat e, fy (m0 + k)%nat e, fm (m0 + k)%nat e) = 0) ->
  sumZ (map h (asm fx fy fm m0 ks)) = 0.
Proof.
  induction ks as [|e0 t IH]; intros m0 H; [reflexivity|]. cbn [asm map sumZ]. rewrite IH.
  - specialize (H 0%nat e0 eq_refl). rewrite Nat.add_0_r in H. rewrite H. reflexivity.
  - intros k e Hk. specialize (H (S k) e Hk). rewrite Nat.add_succ_r in H. exact H.
Qed.

Lemma asm_single (h : bent -> Z) fx fy fm ks : forall m0 k e, nth_error ks k = Some e ->
  (forall k' e', k' <> k -> nth_error ks k' = Some e' ->
     h (fx (m0 + k')%nat e', fy (m0 + k')%nat e', fm (m0 + k')%nat e') = 0) ->
  sumZ (map h (asm fx fy fm m0 ks)) = h (fx (m0 + k)%nat e, fy (m0 + k)%nat e, fm (m0 + k)%nat e).
Proof.
  induction ks as [|e0 t IH]; intros m0 k e Hk H; [destruct k; discriminate|]. destruct k as [|k].
  - injection Hk as <-. cbn [asm map sumZ]. rewrite asm_zero, Nat.add_0_r; [lia|].
    intros k e Hk'. specialize (H (S k) e ltac:(lia) Hk'). rewrite Nat.add_succ_r in H. exact H.
  - cbn [nth_error] in Hk. cbn [asm map sumZ]. rewrite (IH (S m0) k e Hk).
    + specialize (H 0%nat e0 ltac:(lia) eq_refl). rewrite Nat.add_0_r in H. rewrite H, Nat.add_succ_r. reflexivity.
    + intros k' e' Hne Hk'. specialize (H (S k') e' ltac:(lia) Hk'). rewrite Nat.add_succ_r in H. exact H.
Qed.

(* entries whose column (row) block is the position in the list: at an index of inner block m only entry m counts *)
Lemma dense_posR_at rs ns (fx' : sblock -> nat) (fm' : sblock -> dmat) ks r m e t :
  nth_error ks m = Some e -> inblk ns m t = true ->
  dense rs ns (asm (fun _ e => fx' e) (fun m _ => m) (fun _ e => fm' e) 0 ks) r t = bval rs ns r t (fx' e, m, fm' e).
Proof.
  intros Hm Ht. unfold dense. rewrite (asm_single _ _ _ _ ks 0%nat m e Hm); [reflexivity|].
  intros k' e' Hne _. cbn [Nat.add]. unfold bval.
  destruct (inblk ns k' t) eqn:E; [exfalso; apply Hne; exact (inblk_unique ns k' m t E Ht)|].
  rewrite andb_false_r. reflexivity.
Qed.

Lemma dense_posL_at ns cs (fy' : sblock -> nat) (fm' : sblock -> dmat) ks c m e t :
  nth_error ks m = Some e -> inblk ns m t = true ->
  dense ns cs (asm (fun m _ => m) (fun _ e => fy' e) (fun _ e => fm' e) 0 ks) t c = bval ns cs t c (m, fy' e, fm' e).
Proof.
  intros Hm Ht. unfold dense. rewrite (asm_single _ _ _ _ ks 0%nat m e Hm); [reflexivity|].
  intros k' e' Hne _. cbn [Nat.add]. unfold bval.
  destruct (inblk ns k' t) eqn:E; [exfalso; apply Hne; exact (inblk_unique ns k' m t E Ht)|].
  reflexivity.
Qed.

Lemma dense_T ns cs (fy' : sblock -> nat) (fm' : sblock -> dmat) ks t c : forall m0,
  dense ns cs (asm (fun m _ => m) (fun _ e => fy' e) (fun _ e => fm' e) m0 ks) t c =
  dense cs ns (asm (fun _ e => fy' e) (fun m _ => m) (fun _ e => mT (fm' e)) m0 ks) c t.
Proof.
  unfold dense. induction ks as [|e0 ks IH]; intros m0; [reflexivity|]. cbn [asm map sumZ]. f_equal; [|apply IH].
  unfold bval, mT. rewrite andb_comm. reflexivity.
Qed.

Lemma bsize_inner ks : forall m e, nth_error ks m = Some e -> bsize (inner_sizes ks) m = f_n (sb_fac e).
Proof.
  induction ks as [|e0 t IH]; intros m e H; [destruct m; discriminate|]. destruct m as [|m].
  - injection H as <-. reflexivity.
  - cbn [nth_error] in H. cbn [inner_sizes map]. rewrite bsize_cons. apply IH, H.
Qed.

Lemma svd_S_at ks : forall m e a, nth_error ks m = Some e -> (a < f_n (sb_fac e))%nat ->
  svd_S ks (boff (inner_sizes ks) m + a)%nat = f_S (sb_fac e) a.
Proof.
  induction ks as [|e0 t IH]; intros m e a Hm Ha; [destruct m; discriminate|]. destruct m as [|m].
  - injection Hm as <-. rewrite boff_0. cbn [svd_S Nat.add]. destruct (a <? f_n (sb_fac e0))%nat eqn:E; [reflexivity|lia].
  - cbn [nth_error] in Hm. cbn [inner_sizes map]. fold (inner_sizes t). rewrite boff_cons. cbn [svd_S].
    destruct (_ <? f_n (sb_fac e0))%nat eqn:E; [lia|].
    replace (f_n (sb_fac e0) + boff (inner_sizes t) m + a - f_n (sb_fac e0))%nat with (boff (inner_sizes t) m + a)%nat by lia.
    apply IH; assumption.
Qed.

Definition sb0 : sblock := (0%nat, 0%nat, mkFac3 0 (fun _ _ => 0) (fun _ => 0) (fun _ _ => 0)).

(* ---------------------------------------------------------------- svd: reconstruction *)
(* algebraic core: the dense product of the assembled factors is the dense matrix of the per-block products *)
Theorem svd_product_kept rs cs ks r c :
  usv (list_sum (inner_sizes ks)) (dense rs (inner_sizes ks) (svd_U ks)) (svd_S ks) (dense (inner_sizes ks) cs (svd_V ks)) r c
  = dense rs cs (map prod_ent ks) r c.
Proof.
  set (ns := inner_sizes ks).
  assert (ER : dense rs cs (map prod_ent ks) r c =
               sumZ (map (fun m => bval rs cs r c (prod_ent (nth m ks sb0))) (seq 0 (length ks)))).
  { unfold dense. rewrite map_map. symmetry. f_equal. apply (map_nth_seq' (fun e => bval rs cs r c (prod_ent e)) sb0 ks). }
  rewrite ER. unfold usv. rewrite sumn_blocks.
  replace (length ns) with (length ks) by (unfold ns, inner_sizes; rewrite map_length; reflexivity).
  f_equal. apply map_ext_in. intros m Hm. apply in_seq in Hm.
  destruct (nth_error ks m) as [e|] eqn:He; [|apply nth_error_None in He; lia].
  rewrite (nth_error_nth _ _ sb0 He). unfold ns. rewrite (bsize_inner ks m e He). fold ns.
  transitivity (sumn (f_n (sb_fac e)) (fun a =>
      (if inblk rs (sb_row e) r then f_U (sb_fac e) (r - boff rs (sb_row e))%nat a else 0) * f_S (sb_fac e) a *
      (if inblk cs (sb_col e) c then f_V (sb_fac e) a (c - boff cs (sb_col e))%nat else 0))).
  - apply sumn_ext. intros a Ha.
    assert (Ht : inblk ns m (boff ns m + a) = true).
    { apply inblk_iff. unfold ns. rewrite (bsize_inner ks m e He). lia. }
    unfold svd_U, svd_V.
    rewrite (dense_posR_at rs ns sb_row (fun e => f_U (sb_fac e)) ks r m e _ He Ht).
    rewrite (dense_posL_at ns cs sb_col (fun e => f_V (sb_fac e)) ks c m e _ He Ht).
    pose proof (svd_S_at ks m e a He Ha) as HS. fold ns in HS. rewrite HS.
    unfold bval. rewrite Ht, andb_true_r. cbn [andb].
    replace (boff ns m + a - boff ns m)%nat with a by lia. reflexivity.
  - unfold prod_ent, bval, fac_prod, usv.
    destruct (inblk rs (sb_row e) r), (inblk cs (sb_col e) c); cbn [andb]; try reflexivity;
      apply sumn_zero; intros; lia.
Qed.

(* blocks without kept values are dropped from U, S, VH: their product is the zero block *)
Theorem svd_product rs cs fs r c :
  let ks := kept fs in
  usv (list_sum (inner_sizes ks)) (dense rs (inner_sizes ks) (svd_U ks)) (svd_S ks) (dense (inner_sizes ks) cs (svd_V ks)) r c
  = dense rs cs (map prod_ent fs) r c.
Proof.
  intros ks. rewrite svd_product_kept. unfold dense, ks, kept. rewrite !map_map.
  apply (sumZ_filter_zero (fun e => bval rs cs r c (prod_ent e))).
  intros e _ He. assert (f_n (sb_fac e) = 0%nat) as E0 by lia.
  unfold prod_ent, bval, fac_prod, usv. rewrite E0. cbn [sumn]. destruct (_ && _); reflexivity.
Qed.

Section Reconstruct.
  (* the LAPACK call (+ cutoff) on a block of shape (nr, nc) *)
  Variable fac : nat -> nat -> dmat -> fac3.
  Hypothesis fac_exact : forall nr nc M x y, (x < nr)%nat -> (y < nc)%nat -> fac_prod (fac nr nc M) x y = M x y.

  Definition factor_blocks (rs cs : list nat) (a : list bent) : list sblock :=
    map (fun e : bent => let '(i, j, M) := e in (i, j, fac (bsize rs i) (bsize cs j) M)) a.

  Theorem svd_reconstruct rs cs a r c :
    let ks := kept (factor_blocks rs cs a) in
    usv (list_sum (inner_sizes ks)) (dense rs (inner_sizes ks) (svd_U ks)) (svd_S ks) (dense (inner_sizes ks) cs (svd_V ks)) r c
    = dense rs cs a r c.
  Proof.
    intros ks. unfold ks. rewrite svd_product. unfold dense, factor_blocks. rewrite !map_map. f_equal.
    apply map_ext. intros [[i j] M]. unfold prod_ent, sb_row, sb_col, sb_fac, bval. cbn [fst snd].
    destruct (inblk rs i r) eqn:Er; [|reflexivity]. destruct (inblk cs j c) eqn:Ec; [|reflexivity]. cbn [andb].
    apply inblk_iff in Er. apply inblk_iff in Ec. apply fac_exact; lia.
  Qed.
End Reconstruct.

(* ---------------------------------------------------------------- svd: isometry (reduced mode) *)
Lemma delta_shift o a b : delta (o + a) (o + b) = delta a b.
Proof. unfold delta. destruct (Nat.eqb a b) eqn:E; destruct (Nat.eqb (o + a) (o + b)) eqn:E'; try reflexivity; lia. Qed.

Theorem asm_isometry rs (fx' : sblock -> nat) (fm' : sblock -> dmat) ks :
  let ns := inner_sizes ks in
  let D := dense rs ns (asm (fun _ e => fx' e) (fun m _ => m) (fun _ e => fm' e) 0 ks) in
  NoDup (map fx' ks) ->
  (forall e, In e ks -> forall a b, (a < f_n (sb_fac e))%nat -> (b < f_n (sb_fac e))%nat ->
     sumn (bsize rs (fx' e)) (fun x => fm' e x a * fm' e x b) = delta a b) ->
  forall t t', (t < list_sum ns)%nat -> (t' < list_sum ns)%nat ->
  sumn (list_sum rs) (fun r => D r t * D r t') = delta t t'.
Proof.
  intros ns D ND Hiso t t' Ht Ht'.
  destruct (locate_ex ns t Ht) as [m Hm]. destruct (locate_ex ns t' Ht') as [m' Hm'].
  assert (Lns : length ns = length ks) by (unfold ns, inner_sizes; apply map_length).
  destruct (nth_error ks m) as [e|] eqn:He; [|apply nth_error_None in He; apply inblk_lt in Hm; lia].
  destruct (nth_error ks m') as [e'|] eqn:He'; [|apply nth_error_None in He'; apply inblk_lt in Hm'; lia].
  rewrite (sumn_ext _ _ (fun r => bval rs ns r t (fx' e, m, fm' e) * bval rs ns r t' (fx' e', m', fm' e'))).
  2:{ intros r _. unfold D. rewrite (dense_posR_at rs ns fx' fm' ks r m e t He Hm).
      rewrite (dense_posR_at rs ns fx' fm' ks r m' e' t' He' Hm'). reflexivity. }
  unfold bval. rewrite Hm, Hm'.
  destruct (Nat.eq_dec m m') as [E|NE].
  - subst m'. rewrite He in He'. injection He' as <-.
    rewrite (sumn_ext _ _ (fun r => if inblk rs (fx' e) r
               then fm' e (r - boff rs (fx' e))%nat (t - boff ns m)%nat * fm' e (r - boff rs (fx' e))%nat (t' - boff ns m)%nat else 0)).
    2:{ intros r _. destruct (inblk rs (fx' e) r); cbn [andb]; [reflexivity|lia]. }
    pose proof (sumn_inblk rs (fx' e) (fun x => fm' e x (t - boff ns m)%nat * fm' e x (t' - boff ns m)%nat)) as SI.
    cbv beta in SI. rewrite SI. clear SI. apply inblk_iff in Hm. apply inblk_iff in Hm'.
    unfold ns in Hm, Hm'. rewrite (bsize_inner ks m e He) in Hm, Hm'. fold ns in Hm, Hm'.
    rewrite Hiso; [|apply (nth_error_In _ _ He)|lia|lia].
    rewrite <- (delta_shift (boff ns m)). f_equal; lia.
  - assert (NX : fx' e <> fx' e').
    { intros EX. apply NE. apply (proj1 (NoDup_nth_error (map fx' ks)) ND).
      - rewrite map_length. apply nth_error_Some. rewrite He. discriminate.
      - rewrite (map_nth_error fx' _ _ He), (map_nth_error fx' _ _ He'), EX. reflexivity. }
    rewrite sumn_zero.
    + unfold delta. destruct (Nat.eqb t t') eqn:E; [|reflexivity]. apply Nat.eqb_eq in E. subst t'.
      exfalso. apply NE. exact (inblk_unique ns m m' t Hm Hm').
    + intros r _. destruct (inblk rs (fx' e) r) eqn:E1; cbn [andb]; [|lia].
      destruct (inblk rs (fx' e') r) eqn:E2; cbn [andb]; [|lia].
      exfalso. apply NX. exact (inblk_unique rs _ _ r E1 E2).
Qed.

(* U^T U = 1 on the new leg: per-block isometries + one stored block per row sector *)
Theorem svd_U_isometry rs ks :
  let ns := inner_sizes ks in
  NoDup (map sb_row ks) ->
  (forall e, In e ks -> forall a b, (a < f_n (sb_fac e))%nat -> (b < f_n (sb_fac e))%nat ->
     sumn (bsize rs (sb_row e)) (fun x => f_U (sb_fac e) x a * f_U (sb_fac e) x b) = delta a b) ->
  forall t t', (t < list_sum ns)%nat -> (t' < list_sum ns)%nat ->
  sumn (list_sum rs) (fun r => dense rs ns (svd_U ks) r t * dense rs ns (svd_U ks) r t') = delta t t'.
Proof. exact (asm_isometry rs sb_row (fun e => f_U (sb_fac e)) ks). Qed.

(* VH VH^T = 1 *)
Theorem svd_V_isometry cs ks :
  let ns := inner_sizes ks in
  NoDup (map sb_col ks) ->
  (forall e, In e ks -> forall a b, (a < f_n (sb_fac e))%nat -> (b < f_n (sb_fac e))%nat ->
     sumn (bsize cs (sb_col e)) (fun y => f_V (sb_fac e) a y * f_V (sb_fac e) b y) = delta a b) ->
  forall t t', (t < list_sum ns)%nat -> (t' < list_sum ns)%nat ->
  sumn (list_sum cs) (fun c => dense ns cs (svd_V ks) t c * dense ns cs (svd_V ks) t' c) = delta t t'.
Proof.
  intros ns ND Hiso t t' Ht Ht'.
  rewrite (sumn_ext _ _ (fun c =>
     dense cs ns (asm (fun _ e => sb_col e) (fun m _ => m) (fun _ e => mT (f_V (sb_fac e))) 0 ks) c t *
     dense cs ns (asm (fun _ e => sb_col e) (fun m _ => m) (fun _ e => mT (f_V (sb_fac e))) 0 ks) c t')).
  2:{ intros c _. unfold svd_V. rewrite !dense_T. reflexivity. }
  apply (asm_isometry cs sb_col (fun e => mT (f_V (sb_fac e))) ks ND); assumption.
Qed.

(* full_matrices=True: U.legs[1] = legs[0].conj() but only the stored blocks get a (square, unitary) U_b:
   a row sector without stored block is a zero row/column of U *)
Definition gram (n : nat) (A : dmat) : dmat := fun t t' => sumn n (fun r => A r t * A r t').

Theorem svd_full_refuted : exists rs fs,
  NoDup (map sb_row fs) /\
  (forall e, In e fs -> forall a b, (a < bsize rs (sb_row e))%nat -> (b < bsize rs (sb_row e))%nat ->
     sumn (bsize rs (sb_row e)) (fun x => f_U (sb_fac e) x a * f_U (sb_fac e) x b) = delta a b) /\
  exists t, (t < list_sum rs)%nat /\ gram (list_sum rs) (dense rs rs (svd_U_full fs)) t t <> delta t t.
Proof.
  exists [1%nat; 1%nat], [(0%nat, 0%nat, mkFac3 1 (of_rows [[1]]) (of_list [1]) (of_rows [[1]]))].
  split; [repeat constructor; cbn; tauto|]. split.
  - intros e [<-|[]] a b Ha Hb. cbn in Ha, Hb. assert (a = 0%nat) by lia. assert (b = 0%nat) by lia. subst. reflexivity.
  - exists 1%nat. split; [cbn; lia|]. vm_compute. discriminate.
Qed.

(* ---------------------------------------------------------------- link to the charge plan of Model/Factor.v *)
Lemma svd_rows_kept ci a qR iq fs :
  map (fun r : krow => (fst (fst r), snd (fst r), fst (snd r)))
      (svd_rows ci a qR iq (map (fun e => (sb_row e, sb_col e)) fs) (map (fun e => Z.of_nat (f_n (sb_fac e))) fs))
  = map (fun e => (sb_row e, sb_col e, Z.of_nat (f_n (sb_fac e)))) (kept fs).
Proof.
  induction fs as [|e fs IH]; [reflexivity|]. cbn [map svd_rows kept filter]. fold (kept fs).
  rewrite map_app.
  destruct (0 <? Z.of_nat (f_n (sb_fac e))) eqn:E; destruct (0 <? f_n (sb_fac e))%nat eqn:E'; try lia.
  - cbn [map app fst snd]. f_equal. exact IH.
  - cbn [map app]. exact IH.
Qed.

Theorem svd_plan_link ci a fs oL oR iq p :
  mdata a = map (fun e => (sb_row e, sb_col e)) fs ->
  svd_charges ci a (map (fun e => Z.of_nat (f_n (sb_fac e))) fs) oL oR iq = Some p ->
  map (fun r : krow => (fst (fst r), snd (fst r), fst (snd r))) (s_rows p)
    = map (fun e => (sb_row e, sb_col e, Z.of_nat (f_n (sb_fac e)))) (kept fs) /\
  bsz (s_legR p) = map Z.of_nat (inner_sizes (kept fs)).
Proof.
  intros Hd. unfold svd_charges. destruct (resolve_LR ci a oL oR) as [[qL qR]|]; [|discriminate].
  intros H. injection H as <-. cbn [s_rows s_legR]. rewrite Hd.
  pose proof (svd_rows_kept ci a qR iq fs) as K. split; [exact K|].
  unfold bsz. cbn [blocks]. rewrite map_map. unfold inner_sizes. rewrite map_map.
  transitivity (map (fun x : nat * nat * Z => snd x) (map (fun r : krow => (fst (fst r), snd (fst r), fst (snd r)))
     (svd_rows ci a qR iq (map (fun e => (sb_row e, sb_col e)) fs) (map (fun e => Z.of_nat (f_n (sb_fac e))) fs)))).
  - rewrite map_map. reflexivity.
  - rewrite K, map_map. reflexivity.
Qed.

(* ---------------------------------------------------------------- qr: pos_diag_R *)
Lemma all_some_map {A B} (f : A -> option B) (g : A -> B) l :
  (forall x, In x l -> f x = Some (g x)) -> all_some (map f l) = Some (map g l).
Proof.
  induction l as [|x l IH]; intros H; [reflexivity|]. cbn [map all_some].
  rewrite (H x (or_introl eq_refl)), IH by (intros y Hy; apply H; right; exact Hy). reflexivity.
Qed.

Definition phase (K : nat) (R : dmat) (k : nat) : Z := if (k <? K)%nat then Z.sgn (R k k) else 1.

Lemma phases_ok K R : (forall k, (k < K)%nat -> R k k <> 0) ->
  phases K R = Some (map (fun k => Z.sgn (R k k)) (seq 0 K)).
Proof.
  intros H. unfold phases. apply all_some_map. intros k Hk. apply in_seq in Hk. unfold phase_of.
  destruct (R k k =? 0) eqn:E; [|reflexivity]. exfalso. apply (H k); lia.
Qed.

Lemma nth_phase K R k : nth k (map (fun k => Z.sgn (R k k)) (seq 0 K)) 1 = phase K R k.
Proof.
  unfold phase. destruct (k <? K)%nat eqn:E.
  - rewrite (nth_indep _ 1 ((fun k => Z.sgn (R k k)) 0%nat)) by (rewrite map_length, seq_length; lia).
    rewrite (map_nth (fun k => Z.sgn (R k k))), seq_nth by lia. reflexivity.
  - apply nth_overflow. rewrite map_length, seq_length. lia.
Qed.

Lemma phase_sq K R k : (forall k, (k < K)%nat -> R k k <> 0) -> phase K R k * phase K R k = 1.
Proof.
  intros H. unfold phase. destruct (k <? K)%nat eqn:E; [|reflexivity]. specialize (H k ltac:(lia)).
  destruct (R k k); cbn; try reflexivity. contradiction.
Qed.

Theorem qr_pos_diag_ok P N Q R : (forall k, (k < Nat.min P N)%nat -> R k k <> 0) ->
  exists Q' R', pos_diag P N Q R = Some (Q', R') /\
    (forall r c, sumn P (fun k => Q' r k * R' k c) = sumn P (fun k => Q r k * R k c)) /\
    (forall k, (k < Nat.min P N)%nat -> 0 < R' k k) /\
    (forall k c, R k c = 0 -> R' k c = 0) /\
    (forall M, (forall k k', (k < P)%nat -> (k' < P)%nat -> sumn M (fun r => Q r k * Q r k') = delta k k') ->
               forall k k', (k < P)%nat -> (k' < P)%nat -> sumn M (fun r => Q' r k * Q' r k') = delta k k').
Proof.
  intros H. set (K := Nat.min P N) in *. set (ph := map (fun k => Z.sgn (R k k)) (seq 0 K)).
  exists (fun r k => Q r k * nth k ph 1), (fun k c => nth k ph 1 * R k c).
  split; [|split; [|split; [|split]]].
  - unfold pos_diag. fold K. rewrite (phases_ok K R H). reflexivity.
  - intros r c. apply sumn_ext. intros k _. unfold ph. rewrite nth_phase. pose proof (phase_sq K R k H) as SQ.
    replace (Q r k * phase K R k * (phase K R k * R k c)) with (Q r k * R k c * (phase K R k * phase K R k)) by ring.
    rewrite SQ. ring.
  - intros k Hk. unfold ph. rewrite nth_phase. unfold phase. replace (k <? K)%nat with true by lia.
    specialize (H k Hk). destruct (R k k); cbn; lia.
  - intros k c E. rewrite E. lia.
  - intros M HQ k k' Hk Hk'. unfold ph. rewrite !nth_phase.
    rewrite (sumn_ext _ _ (fun r => (phase K R k * phase K R k') * (Q r k * Q r k'))) by (intros; ring).
    rewrite sumn_scale, HQ by assumption. unfold delta. destruct (Nat.eqb k k') eqn:E; [|lia].
    apply Nat.eqb_eq in E. subst k'. rewrite (phase_sq K R k H). reflexivity.
Qed.

(* ---------------------------------------------------------------- satisfiability witnesses for the examples *)
Lemma sumn_delta n x g : (x < n)%nat -> sumn n (fun t => delta x t * g t) = g x.
Proof.
  induction n as [|n IH]; intros H; [lia|]. cbn [sumn]. destruct (Nat.eq_dec x n) as [->|NE].
  - rewrite sumn_zero; [unfold delta; rewrite Nat.eqb_refl; lia|].
    intros t Ht. unfold delta. destruct (Nat.eqb n t) eqn:E; [apply Nat.eqb_eq in E; lia|lia].
  - rewrite IH by lia. unfold delta. destruct (Nat.eqb x n) eqn:E; [apply Nat.eqb_eq in E; lia|lia].
Qed.

(* an exact factorisation exists for every block: U = 1, S = 1, VH = M *)
Definition triv_fac (nr nc : nat) (M : dmat) : fac3 := mkFac3 nr delta (fun _ => 1) M.
Lemma triv_fac_exact nr nc M x y : (x < nr)%nat -> (y < nc)%nat -> fac_prod (triv_fac nr nc M) x y = M x y.
Proof.
  intros Hx _. unfold fac_prod, usv, triv_fac. cbn [f_n f_U f_S f_V].
  transitivity (sumn nr (fun t => delta x t * M t y)); [apply sumn_ext; intros t _; ring|].
  exact (sumn_delta nr x (fun t => M t y) Hx).
Qed.
