(* Proofs about Model/LatticeTransform.v (property C19): enlarging the MPS unit cell does not change the index maps;
   the unit cell indices of the MultiSpeciesLattice pairs carry the species / simple sites they are named after. *)
From TenpyV Require Import Base.Prelude Model.Lattice Model.LatticeTransform Proofs.LatticeP.
Open Scope Z_scope.

(* ---------------------------------------------------------------------------------------------------- *)
(* flat_map of blocks of equal length *)

Lemma nth_error_flat_map_const {A B} (g : A -> list B) (n : nat) :
  (forall x, length (g x) = n) ->
  forall (l : list A) (q r : nat), (r < n)%nat ->
  nth_error (flat_map g l) (q * n + r) =
  match nth_error l q with Some x => nth_error (g x) r | None => None end.
Proof.
  intros Hlen l. induction l as [|a l IH]; intros q r Hr.
  - cbn [flat_map]. destruct q; cbn [nth_error]; destruct (_ + r)%nat; reflexivity.
  - cbn [flat_map]. destruct q as [|q].
    + cbn [Nat.mul Nat.add nth_error]. apply nth_error_app1. rewrite Hlen. exact Hr.
    + cbn [nth_error]. rewrite nth_error_app2 by (rewrite Hlen; lia).
      rewrite Hlen. replace (S q * n + r - n)%nat with (q * n + r)%nat by lia.
      apply IH. exact Hr.
Qed.

Lemma nth_error_seq0 (f q : nat) : (q < f)%nat -> nth_error (seq 0 f) q = Some q.
Proof.
  intros H. rewrite (nth_error_nth' (seq 0 f) 0%nat) by (rewrite seq_length; exact H).
  rewrite seq_nth by exact H. reflexivity.
Qed.

Lemma enlarge_order_length f l0 o : length (enlarge_order f l0 o) = (f * length o)%nat.
Proof.
  unfold enlarge_order. rewrite (length_flat_map_const _ _ (length o)).
  - rewrite seq_length. reflexivity.
  - intros x. apply map_length.
Qed.

Lemma enlarge_order_nth f l0 o q r : (q < f)%nat -> (r < length o)%nat ->
  nth_error (enlarge_order f l0 o) (q * length o + r) =
  option_map (shift_site (Z.of_nat q * l0)) (nth_error o r).
Proof.
  intros Hq Hr. unfold enlarge_order.
  rewrite (nth_error_flat_map_const _ (length o)) by (try (intros x; apply map_length); exact Hr).
  rewrite nth_error_seq0 by exact Hq. apply nth_error_map.
Qed.

(* ---------------------------------------------------------------------------------------------------- *)
(* enlarge_mps_unit_cell keeps mps2lat_idx *)

Lemma enlarge_mps2lat : forall (f : nat) lat,
  (0 < f)%nat -> infinite lat = true -> lorder lat <> [] ->
  forall i, mps2lat (enlarge f lat) i = mps2lat lat i.
Proof.
  intros f lat Hf Hinf Hne i.
  unfold mps2lat, enlarge, nsites. cbn [infinite lorder L0]. rewrite Hinf.
  rewrite enlarge_order_length.
  set (o := lorder lat). set (Nn := length o).
  assert (HN : (0 < Nn)%nat).
  { subst Nn o. destruct (lorder lat); [congruence|cbn; lia]. }
  set (n := Z.of_nat Nn). set (F := Z.of_nat f).
  assert (Hn : 0 < n) by (subst n; lia).
  assert (HF : 0 < F) by (subst F; lia).
  replace (Z.of_nat (f * Nn)) with (F * n) by (subst F n; lia).
  set (i' := i mod (F * n)).
  assert (Hi' : 0 <= i' < F * n) by (subst i'; apply Z.mod_pos_bound; nia).
  set (qz := i' / n). set (rz := i' mod n).
  assert (Hdm : i' = n * qz + rz) by (subst qz rz; apply Z.div_mod; lia).
  assert (Hrz : 0 <= rz < n) by (subst rz; apply Z.mod_pos_bound; lia).
  assert (Hqz : 0 <= qz < F).
  { split; [subst qz; apply Z.div_pos; lia|]. subst qz. apply Z.div_lt_upper_bound; [lia|]. nia. }
  assert (Hnat : Z.to_nat i' = (Z.to_nat qz * Nn + Z.to_nat rz)%nat) by (subst n; nia).
  rewrite Hnat.
  rewrite enlarge_order_nth by (subst F n; lia).
  (* i mod n = rz *)
  assert (Hk : exists k, i = k * (F * n) + i').
  { exists (i / (F * n)). subst i'. rewrite Z.mul_comm. apply Z.div_mod. nia. }
  destruct Hk as [k Hk].
  assert (Himod : i mod n = rz).
  { symmetry. apply (Z.mod_unique_pos i n (k * F + qz) rz); [exact Hrz|]. rewrite Hk, Hdm. ring. }
  rewrite Himod. rewrite Z2Nat.id by lia.
  destruct (nth_error o (Z.to_nat rz)) as [[[x0 xr] u]|] eqn:Hnth; cbn [option_map shift_site].
  - f_equal. f_equal. f_equal.
    replace (i - i') with (k * (F * n)) by lia.
    replace (k * (F * n) * (F * L0 lat)) with (k * F * L0 lat * (F * n)) by ring.
    rewrite Z.div_mul by nia.
    replace (i - rz) with ((k * F + qz) * n) by (rewrite Hk, Hdm; ring).
    replace ((k * F + qz) * n * L0 lat) with ((k * F + qz) * L0 lat * n) by ring.
    rewrite Z.div_mul by lia. ring.
  - reflexivity.
Qed.

(* the enlarged lattice has factor * N_sites sites, the rows i + q * N_sites being the rows i shifted by q * Ls[0] *)
Lemma enlarge_nsites f lat : nsites (enlarge f lat) = Z.of_nat f * nsites lat.
Proof. unfold nsites, enlarge. cbn [lorder]. rewrite enlarge_order_length. lia. Qed.

(* ---------------------------------------------------------------------------------------------------- *)
(* MultiSpeciesLattice index arithmetic *)

Lemma ms_u_inverse nsp su sp : 0 <= sp < nsp ->
  ms_simple_u nsp (ms_u nsp su sp) = su /\ ms_species nsp (ms_u nsp su sp) = sp.
Proof.
  intros H. unfold ms_simple_u, ms_species, ms_u. split.
  - symmetry. apply (Z.div_unique_pos (su * nsp + sp) nsp su sp); [exact H|ring].
  - symmetry. apply (Z.mod_unique_pos (su * nsp + sp) nsp su sp); [exact H|ring].
Qed.

Lemma ms_u_surj nsp u : 0 < nsp -> ms_u nsp (ms_simple_u nsp u) (ms_species nsp u) = u.
Proof.
  intros H. unfold ms_simple_u, ms_species, ms_u.
  rewrite (Z.div_mod u nsp) at 3 by lia. ring.
Qed.

Lemma ms_u_range nsp slu su sp : 0 <= su < slu -> 0 <= sp < nsp -> 0 <= ms_u nsp su sp < slu * nsp.
Proof. intros H1 H2. unfold ms_u. nia. Qed.

Lemma ms_pairs_sp_spec nsp a b ps : 0 <= a < nsp -> 0 <= b < nsp ->
  forall u1 u2 dx,
  In (u1, u2, dx) (ms_pairs_sp nsp a b ps) <->
  ms_species nsp u1 = a /\ ms_species nsp u2 = b /\ In (ms_simple_u nsp u1, ms_simple_u nsp u2, dx) ps.
Proof.
  intros Ha Hb u1 u2 dx. unfold ms_pairs_sp. rewrite in_map_iff. split.
  - intros ([[v1 v2] dy] & Heq & Hin). inversion Heq; subst.
    destruct (ms_u_inverse nsp v1 a Ha) as [E1 E2]. destruct (ms_u_inverse nsp v2 b Hb) as [E3 E4].
    rewrite E1, E2, E3, E4. auto.
  - intros (E1 & E2 & Hin). exists (ms_simple_u nsp u1, ms_simple_u nsp u2, dx). split; [|exact Hin].
    rewrite <- E1 at 1. rewrite <- E2 at 1. rewrite !ms_u_surj by lia. reflexivity.
Qed.

Lemma ms_pairs_all_spec nsp ps : forall u1 u2 dx,
  In (u1, u2, dx) (ms_pairs_all nsp ps) <->
  0 < nsp /\ In (ms_simple_u nsp u1, ms_simple_u nsp u2, dx) ps.
Proof.
  intros u1 u2 dx. unfold ms_pairs_all. rewrite in_flat_map. split.
  - intros (a & Ha & Hin). apply in_flat_map in Hin. destruct Hin as (b & Hb & Hin).
    unfold zrange in Ha, Hb. apply in_map_iff in Ha. destruct Ha as (na & <- & Hna). apply in_seq in Hna.
    apply in_map_iff in Hb. destruct Hb as (nb & <- & Hnb). apply in_seq in Hnb.
    apply ms_pairs_sp_spec in Hin; [|lia|lia]. split; [lia|tauto].
  - intros (Hn & Hin).
    assert (Hr : forall u, In (ms_species nsp u) (zrange nsp)).
    { intros u. unfold zrange, ms_species. apply in_map_iff. exists (Z.to_nat (u mod nsp)).
      pose proof (Z.mod_pos_bound u nsp Hn). split; [lia|]. apply in_seq. lia. }
    exists (ms_species nsp u1). split; [apply Hr|]. apply in_flat_map.
    exists (ms_species nsp u2). split; [apply Hr|].
    apply ms_pairs_sp_spec; [unfold ms_species; apply Z.mod_pos_bound; lia|unfold ms_species; apply Z.mod_pos_bound; lia|].
    auto.
Qed.

Lemma ms_onsite_spec nsp slu dim a b : 0 <= a < nsp -> 0 <= b < nsp ->
  forall u1 u2 dx,
  In (u1, u2, dx) (ms_onsite nsp slu dim a b) <->
  ms_species nsp u1 = a /\ ms_species nsp u2 = b /\ ms_simple_u nsp u1 = ms_simple_u nsp u2 /\
  0 <= ms_simple_u nsp u1 < slu /\ dx = repeat 0 dim.
Proof.
  intros Ha Hb u1 u2 dx. unfold ms_onsite. rewrite in_map_iff. split.
  - intros (su & Heq & Hin). inversion Heq; subst.
    destruct (ms_u_inverse nsp su a Ha) as [E1 E2]. destruct (ms_u_inverse nsp su b Hb) as [E3 E4].
    rewrite E1, E2, E3, E4. unfold zrange in Hin. apply in_map_iff in Hin. destruct Hin as (k & <- & Hk).
    apply in_seq in Hk. repeat split; lia.
  - intros (E1 & E2 & E3 & Hr & ->). exists (ms_simple_u nsp u1). split.
    + rewrite <- E1 at 1. rewrite E3 at 2. rewrite <- E2 at 1. rewrite !ms_u_surj by lia. reflexivity.
    + unfold zrange. apply in_map_iff. exists (Z.to_nat (ms_simple_u nsp u1)). split; [lia|]. apply in_seq. lia.
Qed.

(* ---------------------------------------------------------------------------------------------------- *)
(* statements used by Props/C19.v *)

Lemma enlarge_keeps_index_map : forall (f : nat) lat,
  (0 < f)%nat -> infinite lat = true -> lorder lat <> [] ->
  nsites (enlarge f lat) = Z.of_nat f * nsites lat /\
  L0 (enlarge f lat) = Z.of_nat f * L0 lat /\
  forall i, mps2lat (enlarge f lat) i = mps2lat lat i.
Proof.
  intros f lat Hf Hinf Hne. split; [apply enlarge_nsites|]. split; [reflexivity|].
  apply enlarge_mps2lat; assumption.
Qed.

Lemma species_index_bijection : forall nsp slu, 0 < nsp ->
  (forall su sp, 0 <= su < slu -> 0 <= sp < nsp ->
     0 <= ms_u nsp su sp < slu * nsp /\ ms_simple_u nsp (ms_u nsp su sp) = su /\ ms_species nsp (ms_u nsp su sp) = sp) /\
  (forall u, 0 <= u < slu * nsp ->
     0 <= ms_simple_u nsp u < slu /\ 0 <= ms_species nsp u < nsp /\ ms_u nsp (ms_simple_u nsp u) (ms_species nsp u) = u).
Proof.
  intros nsp slu Hn. split.
  - intros su sp Hsu Hsp. split; [apply ms_u_range; assumption|]. apply ms_u_inverse. exact Hsp.
  - intros u Hu. split; [|split].
    + unfold ms_simple_u. split; [apply Z.div_pos; lia|]. apply Z.div_lt_upper_bound; [lia|]. nia.
    + unfold ms_species. apply Z.mod_pos_bound. exact Hn.
    + apply ms_u_surj. exact Hn.
Qed.

Lemma species_pairs : forall nsp slu dim ps, 0 < nsp ->
  (forall a b, 0 <= a < nsp -> 0 <= b < nsp -> forall u1 u2 dx,
     In (u1, u2, dx) (ms_pairs_sp nsp a b ps) <->
     ms_species nsp u1 = a /\ ms_species nsp u2 = b /\ In (ms_simple_u nsp u1, ms_simple_u nsp u2, dx) ps) /\
  (forall u1 u2 dx,
     In (u1, u2, dx) (ms_pairs_all nsp ps) <-> In (ms_simple_u nsp u1, ms_simple_u nsp u2, dx) ps) /\
  (forall a b, 0 <= a < nsp -> 0 <= b < nsp -> forall u1 u2 dx,
     In (u1, u2, dx) (ms_onsite nsp slu dim a b) <->
     ms_species nsp u1 = a /\ ms_species nsp u2 = b /\ ms_simple_u nsp u1 = ms_simple_u nsp u2 /\
     0 <= ms_simple_u nsp u1 < slu /\ dx = repeat 0 dim).
Proof.
  intros nsp slu dim ps Hn. split; [|split].
  - intros a b Ha Hb. apply ms_pairs_sp_spec; assumption.
  - intros u1 u2 dx. rewrite ms_pairs_all_spec. tauto.
  - intros a b Ha Hb. apply ms_onsite_spec; assumption.
Qed.
