(* Proofs about Model/Lattice.v (property C19). *)
From TenpyV Require Import Base.Prelude Model.Lattice.
Open Scope Z_scope.

(* ================================================================================================ *)
(* Part A: get_order enumerates the box                                                              *)
(* ================================================================================================ *)

Lemma in_zrange x L : In x (zrange L) <-> 0 <= x < L.
Proof.
  unfold zrange. rewrite in_map_iff. split.
  - intros (n & Hn & Hin). apply in_seq in Hin. lia.
  - intros Hx. exists (Z.to_nat x). split; [lia|]. apply in_seq. lia.
Qed.

Lemma nodup_zrange L : NoDup (zrange L).
Proof.
  unfold zrange. apply FinFun.Injective_map_NoDup.
  - intros a b Hab. lia.
  - apply seq_NoDup.
Qed.

Lemma length_zrange L : length (zrange L) = Z.to_nat L.
Proof. unfold zrange. rewrite map_length, seq_length. reflexivity. Qed.

Lemma cstyle_in shape : forall row, In row (cstyle shape) <-> in_box row shape.
Proof.
  induction shape as [|L r IH]; intros row; cbn [cstyle].
  - split.
    + intros [<-|[]]. constructor.
    + intros H. inversion H. now left.
  - rewrite in_flat_map. split.
    + intros (x & Hx & Hin). apply in_map_iff in Hin. destruct Hin as (t & <- & Ht).
      constructor; [now apply in_zrange | now apply IH].
    + intros H. inversion H as [|x L' t r' Hx Ht]; subst.
      exists x. split; [now apply in_zrange|]. apply in_map. now apply IH.
Qed.

Lemma nodup_map_cons (x : Z) (l : list (list Z)) : NoDup l -> NoDup (map (cons x) l).
Proof.
  intros H. apply FinFun.Injective_map_NoDup; [|exact H]. intros a b Hab. now inversion Hab.
Qed.

Lemma nodup_app {A} (l1 l2 : list A) :
  NoDup l1 -> NoDup l2 -> (forall a, In a l1 -> In a l2 -> False) -> NoDup (l1 ++ l2).
Proof.
  induction l1 as [|a l1 IH]; intros H1 H2 H12; cbn [app]; [exact H2|].
  inversion H1 as [|a' l' Ha Hl1]; subst. constructor.
  - rewrite in_app_iff. intros [H|H]; [now apply Ha|]. apply (H12 a); [now left|exact H].
  - apply IH; [exact Hl1|exact H2|]. intros b Hb1 Hb2. apply (H12 b); [now right|exact Hb2].
Qed.

Lemma nodup_blocks (f : Z -> list (list Z)) (l : list Z) :
  NoDup l -> (forall x, NoDup (f x)) -> (forall x row, In row (f x) -> hd_error row = Some x) ->
  NoDup (flat_map f l).
Proof.
  intros Hl Hf Hhd. induction Hl as [|x l Hx Hl IH]; cbn [flat_map]; [constructor|].
  apply nodup_app; [apply Hf|exact IH|].
  intros row H1 H2. apply in_flat_map in H2. destruct H2 as (y & Hy & Hin).
  apply Hhd in H1. apply Hhd in Hin. rewrite H1 in Hin. inversion Hin. subst. contradiction.
Qed.

Lemma cstyle_nodup shape : NoDup (cstyle shape).
Proof.
  induction shape as [|L r IH]; cbn [cstyle].
  - constructor; [intros []|constructor].
  - apply nodup_blocks.
    + apply nodup_zrange.
    + intros x. now apply nodup_map_cons.
    + intros x row Hin. apply in_map_iff in Hin. destruct Hin as (t & <- & _). reflexivity.
Qed.

Lemma length_flat_map_const {A B} (f : A -> list B) (l : list A) n :
  (forall x, length (f x) = n) -> length (flat_map f l) = (length l * n)%nat.
Proof.
  intros H. induction l as [|a l IH]; cbn [flat_map length]; [reflexivity|].
  rewrite app_length, H, IH. lia.
Qed.

Lemma cstyle_length shape : length (cstyle shape) = nprod shape.
Proof.
  induction shape as [|L r IH]; cbn [cstyle nprod]; [reflexivity|].
  rewrite (length_flat_map_const _ _ (nprod r)).
  - now rewrite length_zrange.
  - intros x. now rewrite map_length.
Qed.

Lemma perm_flat_map_pointwise {A B} (f g : A -> list B) (l : list A) :
  (forall x, Permutation (f x) (g x)) -> Permutation (flat_map f l) (flat_map g l).
Proof.
  intros H. induction l as [|a l IH]; cbn [flat_map]; [constructor|].
  apply Permutation_app; [apply H|exact IH].
Qed.

Lemma snake_perm shape : forall flags, Permutation (snake flags shape) (cstyle shape).
Proof.
  induction shape as [|L r IH]; intros flags; cbn [snake cstyle]; [apply Permutation_refl|].
  apply perm_flat_map_pointwise. intros x. apply Permutation_map.
  destruct (hd false (tl flags) && Z.odd x).
  - eapply Permutation_trans; [apply Permutation_sym, Permutation_rev|apply IH].
  - apply IH.
Qed.

(* every lattice index of the box exactly once, for all snake flags, dimensions and sizes *)
Lemma get_order_perm flags shape :
  NoDup (snake flags shape) /\
  (forall row, In row (snake flags shape) <-> in_box row shape) /\
  length (snake flags shape) = nprod shape.
Proof.
  pose proof (snake_perm shape flags) as HP. split; [|split].
  - eapply Permutation_NoDup; [apply Permutation_sym, HP|apply cstyle_nodup].
  - intros row. rewrite <- cstyle_in. split; intros H.
    + eapply Permutation_in; [exact HP|exact H].
    + eapply Permutation_in; [apply Permutation_sym, HP|exact H].
  - rewrite (Permutation_length HP). apply cstyle_length.
Qed.

(* ================================================================================================ *)
(* Part B: lat2mps_idx and mps2lat_idx are mutually inverse                                          *)
(* ================================================================================================ *)

Lemma radix_inj L x x' a a' : 0 <= x < L -> 0 <= x' < L -> x + L * a = x' + L * a' -> x = x' /\ a = a'.
Proof. intros Hx Hx' H. assert (a = a') by nia. subst. lia. Qed.

Lemma flat_r_inj Ls : forall xs xs' t t',
  Forall2 (fun x L => 0 <= x < L) xs Ls -> Forall2 (fun x L => 0 <= x < L) xs' Ls ->
  flat_r xs Ls t = flat_r xs' Ls t' -> xs = xs' /\ t = t'.
Proof.
  induction Ls as [|L Ls IH]; intros xs xs' t t' H1 H2 He.
  - inversion H1; inversion H2; subst. cbn [flat_r] in He. now split.
  - inversion H1 as [|x L1 xt Lt Hx Hxt]; inversion H2 as [|x' L2 xt' Lt' Hx' Hxt']; subst.
    cbn [flat_r] in He. rewrite !Z.mod_small in He by lia.
    apply radix_inj in He; [|lia|lia]. destruct He as [-> He].
    apply IH in He; [|assumption|assumption]. destruct He as [-> ->]. now split.
Qed.

Lemma flat_inj lat s s' : site_in_box lat s -> site_in_box lat s' -> flat lat s = flat lat s' -> s = s'.
Proof.
  destruct s as [[x0 xr] u], s' as [[x0' xr'] u']. cbn [site_in_box flat].
  intros (Hx & Hr & Hu) (Hx' & Hr' & Hu') He.
  rewrite !Z.mod_small in He by lia.
  apply radix_inj in He; [|lia|lia]. destruct He as [-> He].
  apply flat_r_inj in He; [|assumption|assumption]. destruct He as [-> ->]. reflexivity.
Qed.

Lemma find_pos_some f l k : find_pos f l = Some k -> nth_error l k = Some f.
Proof.
  revert k. induction l as [|y t IH]; intros k H; cbn [find_pos] in H; [discriminate|].
  destruct (f =? y) eqn:E.
  - inversion H. subst. cbn. f_equal. lia.
  - destruct (find_pos f t) as [k'|]; [|discriminate]. cbn in H. inversion H. subst. cbn. now apply IH.
Qed.

Lemma find_pos_nth f l k : NoDup l -> nth_error l k = Some f -> find_pos f l = Some k.
Proof.
  revert k. induction l as [|y t IH]; intros k Hnd H; [destruct k; discriminate|].
  inversion Hnd as [|y' t' Hy Ht]; subst. cbn [find_pos]. destruct k as [|k]; cbn in H.
  - inversion H. subst. now rewrite Z.eqb_refl.
  - destruct (f =? y) eqn:E.
    + exfalso. apply Hy. assert (f = y) by lia. subst. eapply nth_error_In. exact H.
    + rewrite (IH k Ht H). reflexivity.
Qed.

Lemma nodup_map_flat lat l : Forall (site_in_box lat) l -> NoDup l -> NoDup (map (flat lat) l).
Proof.
  induction l as [|s t IH]; intros HB HN; cbn [map]; [constructor|].
  inversion HB as [|s' t' Hs Ht]; inversion HN as [|s'' t'' Hns Hnt]; subst. constructor.
  - intros Hin. apply in_map_iff in Hin. destruct Hin as (s2 & He & Hin2).
    assert (s2 = s).
    { apply (flat_inj lat); [|exact Hs|exact He]. rewrite Forall_forall in Ht. now apply Ht. }
    subst. contradiction.
  - now apply IH.
Qed.

Section Index.
Variable lat : lattice.
Hypothesis Hwf : wf lat.

Let N := nsites lat.

Lemma lookup_of_nth k s : nth_error (lorder lat) k = Some s -> perm_lookup lat s = Some (Z.of_nat k).
Proof.
  intros H. unfold perm_lookup.
  rewrite (find_pos_nth (flat lat s) (map (flat lat) (lorder lat)) k); [reflexivity| |].
  - apply nodup_map_flat; [apply (wf_box lat Hwf)|apply (wf_nodup lat Hwf)].
  - rewrite nth_error_map, H. reflexivity.
Qed.

Lemma nth_in_box k s : nth_error (lorder lat) k = Some s -> site_in_box lat s.
Proof.
  intros H. pose proof (wf_box lat Hwf) as HB. rewrite Forall_forall in HB. apply HB.
  eapply nth_error_In. exact H.
Qed.

Lemma nth_of_lookup s i : site_in_box lat s -> perm_lookup lat s = Some i ->
  0 <= i < N /\ nth_error (lorder lat) (Z.to_nat i) = Some s.
Proof.
  intros HB H. unfold perm_lookup in H.
  destruct (find_pos (flat lat s) (map (flat lat) (lorder lat))) as [k|] eqn:E; [|discriminate].
  cbn in H. inversion H. subst i. apply find_pos_some in E. rewrite nth_error_map in E.
  destruct (nth_error (lorder lat) k) as [s2|] eqn:E2; [|discriminate]. cbn in E. inversion E as [He].
  assert (s2 = s).
  { apply (flat_inj lat); [eapply nth_in_box; exact E2|exact HB|exact He]. }
  subst. rewrite Nat2Z.id. split; [|exact E2].
  assert (k < length (lorder lat))%nat by (apply nth_error_Some; congruence). unfold N, nsites. lia.
Qed.

Lemma in_order_nth s : In s (lorder lat) -> exists k, nth_error (lorder lat) k = Some s /\ 0 <= Z.of_nat k < N.
Proof.
  intros H. apply In_nth_error in H. destruct H as (k & Hk). exists k. split; [exact Hk|].
  assert (k < length (lorder lat))%nat by (apply nth_error_Some; congruence). unfold N, nsites. lia.
Qed.

(* ---- finite MPS *)
Lemma fin_m2l_l2m : infinite lat = false -> forall i s, mps2lat lat i = Some s -> lat2mps lat s = Some i.
Proof.
  intros Hf i s H. unfold mps2lat in H. rewrite Hf in H.
  destruct ((0 <=? i) && (i <? nsites lat)) eqn:E; [|discriminate].
  destruct s as [[x0 xr] u]. unfold lat2mps. rewrite Hf.
  rewrite (lookup_of_nth _ _ H). f_equal. lia.
Qed.

Lemma fin_l2m_m2l : infinite lat = false -> forall s i, site_in_box lat s -> lat2mps lat s = Some i ->
  mps2lat lat i = Some s.
Proof.
  intros Hf s i HB H. destruct s as [[x0 xr] u]. unfold lat2mps in H. rewrite Hf in H.
  apply nth_of_lookup in H; [|exact HB]. destruct H as (Hi & Hn).
  unfold mps2lat. rewrite Hf. fold N.
  replace ((0 <=? i) && (i <? N)) with true by lia. exact Hn.
Qed.

(* ---- infinite MPS *)
Lemma Npos : infinite lat = true -> 0 < N.
Proof.
  intros Hi. destruct (wf_inf lat Hwf Hi) as (_ & Hne). unfold N, nsites.
  destruct (lorder lat); [congruence|cbn [length]; lia].
Qed.

Lemma mps2lat_shift : infinite lat = true -> forall k m x0 xr u,
  nth_error (lorder lat) k = Some (x0, xr, u) ->
  mps2lat lat (Z.of_nat k + m * N) = Some (x0 + m * L0 lat, xr, u).
Proof.
  intros Hi k m x0 xr u Hk. pose proof (Npos Hi) as HN.
  assert (Hlt : Z.of_nat k < N).
  { assert (k < length (lorder lat))%nat by (apply nth_error_Some; congruence). unfold N, nsites. lia. }
  unfold mps2lat. rewrite Hi. fold N.
  rewrite Z.mod_add by lia. rewrite Z.mod_small by lia. rewrite Nat2Z.id, Hk.
  replace (Z.of_nat k + m * N - Z.of_nat k) with (m * N) by lia.
  replace (m * N * L0 lat) with (m * L0 lat * N) by ring.
  rewrite Z.div_mul by lia. reflexivity.
Qed.

Lemma inf_decomp i : 0 < N -> i = Z.of_nat (Z.to_nat (i mod N)) + (i / N) * N.
Proof. intros HN. pose proof (Z.mod_pos_bound i N HN). rewrite Z2Nat.id by lia. pose proof (Z.div_mod i N). lia. Qed.

Lemma lat2mps_shift : infinite lat = true -> forall k m x0 xr u,
  nth_error (lorder lat) k = Some (x0, xr, u) ->
  lat2mps lat (x0 + m * L0 lat, xr, u) = Some (Z.of_nat k + m * N).
Proof.
  intros Hi k m x0 xr u Hk. pose proof (wf_L0 lat Hwf) as HL.
  pose proof (nth_in_box _ _ Hk) as HB. cbn [site_in_box] in HB. destruct HB as (Hx0 & _).
  unfold lat2mps. rewrite Hi. fold N.
  rewrite Z.mod_add by lia. rewrite Z.mod_small by lia.
  replace (x0 + m * L0 lat - (x0 + m * L0 lat - x0)) with x0 by lia.
  rewrite (lookup_of_nth _ _ Hk). cbn [option_map]. f_equal.
  replace (x0 + m * L0 lat - x0) with (m * L0 lat) by lia.
  replace (m * L0 lat * N) with (m * N * L0 lat) by ring.
  rewrite Z.div_mul by lia. reflexivity.
Qed.

Lemma inf_m2l_l2m : infinite lat = true -> forall i s, mps2lat lat i = Some s -> lat2mps lat s = Some i.
Proof.
  intros Hi i s H. pose proof (Npos Hi) as HN.
  unfold mps2lat in H. rewrite Hi in H. fold N in H.
  destruct (nth_error (lorder lat) (Z.to_nat (i mod N))) as [[[x0 xr] u]|] eqn:E; [|discriminate].
  pose proof (mps2lat_shift Hi _ (i / N) _ _ _ E) as H2. rewrite <- (inf_decomp i HN) in H2.
  assert (Hs : s = (x0 + i / N * L0 lat, xr, u)).
  { unfold mps2lat in H2. rewrite Hi in H2. fold N in H2. rewrite E in H2. congruence. }
  subst s. rewrite (lat2mps_shift Hi _ (i / N) _ _ _ E). f_equal. symmetry. apply (inf_decomp i HN).
Qed.

Lemma inf_l2m_m2l : infinite lat = true -> forall s i, site_exists lat s -> lat2mps lat s = Some i ->
  mps2lat lat i = Some s.
Proof.
  intros Hi [[X0 xr] u] i HE H. pose proof (wf_L0 lat Hwf) as HL.
  cbn [site_exists] in HE. rewrite Hi in HE. apply in_order_nth in HE. destruct HE as (k & Hk & _).
  pose proof (lat2mps_shift Hi k (X0 / L0 lat) _ _ _ Hk) as H2.
  assert (HX : X0 mod L0 lat + X0 / L0 lat * L0 lat = X0) by (pose proof (Z.div_mod X0 (L0 lat)); lia).
  rewrite HX in H2. rewrite H2 in H. inversion H. subst i.
  rewrite (mps2lat_shift Hi k (X0 / L0 lat) _ _ _ Hk). rewrite HX. reflexivity.
Qed.

Lemma inf_m2l_total : infinite lat = true -> forall i, exists s, mps2lat lat i = Some s /\ site_exists lat s.
Proof.
  intros Hi i. pose proof (Npos Hi) as HN. pose proof (wf_L0 lat Hwf) as HL.
  pose proof (Z.mod_pos_bound i N HN) as Hb.
  destruct (nth_error (lorder lat) (Z.to_nat (i mod N))) as [[[x0 xr] u]|] eqn:E.
  - exists (x0 + i / N * L0 lat, xr, u). split.
    + rewrite (inf_decomp i HN) at 1. now apply mps2lat_shift.
    + cbn [site_exists]. rewrite Hi. rewrite Z.mod_add by lia.
      pose proof (nth_in_box _ _ E) as HB. cbn [site_in_box] in HB. rewrite Z.mod_small by lia.
      eapply nth_error_In. exact E.
  - exfalso. apply nth_error_None in E. remember (i mod N) as r. clear Heqr. unfold N, nsites in Hb. lia.
Qed.

Lemma inf_l2m_total : infinite lat = true -> forall s, site_exists lat s -> exists i, lat2mps lat s = Some i.
Proof.
  intros Hi [[X0 xr] u] HE. cbn [site_exists] in HE. rewrite Hi in HE.
  apply in_order_nth in HE. destruct HE as (k & Hk & _).
  pose proof (lat2mps_shift Hi k (X0 / L0 lat) _ _ _ Hk) as H2.
  assert (HX : X0 mod L0 lat + X0 / L0 lat * L0 lat = X0) by (pose proof (Z.div_mod X0 (L0 lat)); lia).
  rewrite HX in H2. eauto.
Qed.

(* ---- both cases together *)
Lemma exists_in_box s : infinite lat = false -> site_exists lat s -> site_in_box lat s.
Proof.
  intros Hf HE. destruct s as [[x0 xr] u]. cbn [site_exists] in HE. rewrite Hf in HE.
  pose proof (wf_box lat Hwf) as HB. rewrite Forall_forall in HB. now apply HB.
Qed.

Lemma index_inverse :
  (forall i s, mps2lat lat i = Some s -> lat2mps lat s = Some i /\ site_exists lat s) /\
  (forall s i, site_exists lat s -> lat2mps lat s = Some i -> mps2lat lat i = Some s) /\
  (forall i, (if infinite lat then True else 0 <= i < N) -> exists s, mps2lat lat i = Some s) /\
  (forall s, site_exists lat s -> exists i, lat2mps lat s = Some i).
Proof.
  destruct (infinite lat) eqn:Hi.
  - split; [|split; [|split]].
    + intros i s H. split; [now apply inf_m2l_l2m|].
      destruct (inf_m2l_total Hi i) as (s' & H1 & H2). congruence.
    + now apply inf_l2m_m2l.
    + intros i _. destruct (inf_m2l_total Hi i) as (s & H & _). eauto.
    + now apply inf_l2m_total.
  - split; [|split; [|split]].
    + intros i s H. split; [now apply fin_m2l_l2m|].
      unfold mps2lat in H. rewrite Hi in H. destruct ((0 <=? i) && (i <? nsites lat)); [|discriminate].
      destruct s as [[x0 xr] u]. cbn [site_exists]. rewrite Hi. eapply nth_error_In. exact H.
    + intros s i HE H. apply fin_l2m_m2l; [exact Hi|now apply exists_in_box|exact H].
    + intros i Hb. unfold mps2lat. rewrite Hi. fold N. replace ((0 <=? i) && (i <? N)) with true by lia.
      destruct (nth_error (lorder lat) (Z.to_nat i)) eqn:E; [eauto|].
      apply nth_error_None in E. unfold N, nsites in Hb. lia.
    + intros [[x0 xr] u] HE. cbn [site_exists] in HE. rewrite Hi in HE.
      apply in_order_nth in HE. destruct HE as (k & Hk & _).
      exists (Z.of_nat k). unfold lat2mps. rewrite Hi. now apply lookup_of_nth.
Qed.

End Index.

(* ================================================================================================ *)
(* Part C: possible_couplings enumerates exactly the coupled pairs, each once                        *)
(* ================================================================================================ *)

Lemma mod_unique_k L y k sh : 0 < L -> 0 <= y < L -> sh = y + k * L -> sh mod L = y /\ (sh - y) / L = k.
Proof.
  intros HL Hy ->. split.
  - rewrite Z.mod_add by lia. apply Z.mod_small. lia.
  - replace (y + k * L - y) with (k * L) by lia. apply Z.div_mul. lia.
Qed.

Lemma mod_decomp sh L : 0 < L -> sh = sh mod L + (sh / L) * L /\ 0 <= sh mod L < L.
Proof. intros HL. pose proof (Z.div_mod sh L). pose proof (Z.mod_pos_bound sh L HL). split; lia. Qed.

Lemma wrap1_spec L o x d y k : 0 < L ->
  (wrap1 L o x d = Some (y, k) <-> (0 <= y < L /\ x + d = y + k * L /\ (o = true -> k = 0))).
Proof.
  intros HL. unfold wrap1. destruct (mod_decomp (x + d) L HL) as (Hdec & Hb).
  remember ((x + d) mod L) as m eqn:Hm. remember ((x + d) / L) as q eqn:Hq.
  assert (Hk : (x + d - m) / L = q).
  { replace (x + d - m) with (q * L) by lia. apply Z.div_mul. lia. }
  split.
  - destruct (o && negb (x + d =? m)) eqn:E; [discriminate|]. intros H. inversion H. subst y k.
    split; [lia|]. split; [lia|]. intros ->. cbn in E.
    assert (x + d = m) by lia. assert (q * L = 0) by lia. nia.
  - intros (Hy & He & Ho).
    destruct (mod_unique_k L y k (x + d) HL Hy He) as (Hm2 & Hk2).
    rewrite <- Hm in Hm2. subst y. rewrite Hk in Hk2. subst k.
    destruct o; cbn [andb negb].
    + rewrite (Ho eq_refl) in He. replace (x + d =? m) with true by lia. cbn. rewrite Hk. reflexivity.
    + rewrite Hk. reflexivity.
Qed.

Lemma wrap_rest_sound Ls : Forall (fun L => 0 < L) Ls -> forall os ss xs ds ys tot,
  wrap_rest Ls os ss xs ds = Some (ys, tot) -> conn_rest Ls os ss xs ds ys tot.
Proof.
  induction 1 as [|L Ls HL HLs IH]; intros os ss xs ds ys tot H.
  - destruct os, ss, xs, ds; cbn in H; try discriminate. inversion H. constructor.
  - destruct os as [|o os], ss as [|s ss], xs as [|x xs], ds as [|d ds]; cbn [wrap_rest] in H; try discriminate.
    destruct (wrap1 L o x d) as [[y k]|] eqn:E1; [|discriminate].
    destruct (wrap_rest Ls os ss xs ds) as [[ys' tot']|] eqn:E2; [|discriminate].
    inversion H. subst. apply wrap1_spec in E1; [|exact HL]. destruct E1 as (Hy & He & Ho).
    constructor; auto.
Qed.

Lemma wrap_rest_complete Ls os ss xs ds ys tot : Forall (fun L => 0 < L) Ls ->
  conn_rest Ls os ss xs ds ys tot -> wrap_rest Ls os ss xs ds = Some (ys, tot).
Proof.
  intros HLs HC. induction HC as [|L o s x d y k Ls os ss xs ds ys tot Hy He Ho HC IH]; [reflexivity|].
  inversion HLs as [|L' Ls' HL HLs']; subst. cbn [wrap_rest].
  rewrite (proj2 (wrap1_spec L o x d y k HL)) by auto. rewrite (IH HLs'). reflexivity.
Qed.

Lemma conn_rest_box Ls os ss xs ds ys tot :
  conn_rest Ls os ss xs ds ys tot -> Forall2 (fun x L => 0 <= x < L) ys Ls.
Proof. induction 1; constructor; auto. Qed.

Lemma in_zenum {A} (l : list A) k s :
  In (k, s) (zenum l) <-> exists n, k = Z.of_nat n /\ nth_error l n = Some s.
Proof.
  unfold zenum.
  assert (G : forall a, In (k, s) (combine (map Z.of_nat (seq a (length l))) l) <->
                        exists n, k = Z.of_nat (a + n) /\ nth_error l n = Some s).
  { induction l as [|y t IH]; intros a; cbn [length seq map combine].
    - split; [intros []|]. intros (n & _ & Hn). destruct n; discriminate.
    - cbn [In]. rewrite IH. split.
      + intros [H|(n & Hk & Hn)].
        * inversion H. subst. exists O. split; [f_equal; lia|reflexivity].
        * exists (S n). split; [rewrite Hk; f_equal; lia|exact Hn].
      + intros (n & Hk & Hn). destruct n as [|n].
        * left. cbn in Hn. inversion Hn. subst. f_equal. f_equal. lia.
        * right. exists n. split; [rewrite Hk; f_equal; lia|exact Hn]. }
  rewrite (G O). split; intros (n & Hk & Hn); exists n; (split; [rewrite Hk; f_equal|exact Hn]).
Qed.

Section Couplings.
Variable lat : lattice.
Hypothesis Hwf : wf lat.
Variables u1 u2 dx0 : Z.
Variable dxr : list Z.
Hypothesis Hu2 : 0 <= u2 < Lu lat.

Let N := nsites lat.
Let cs := coupling_shape lat dx0 dxr.

Lemma target_spec x0 xr sh0 y0 yr :
  target lat x0 xr dx0 dxr = Some (sh0, y0, yr) <->
  exists tot, conn_rest (Lr lat) (openr lat) (shiftr lat) xr dxr yr tot /\
              sh0 = x0 + dx0 - tot /\ y0 = sh0 mod L0 lat /\ (open0 lat = true -> sh0 = y0).
Proof.
  unfold target. split.
  - destruct (wrap_rest (Lr lat) (openr lat) (shiftr lat) xr dxr) as [[yr' tot]|] eqn:E; [|discriminate].
    destruct (open0 lat && negb (x0 + dx0 - tot =? (x0 + dx0 - tot) mod L0 lat)) eqn:E2; [discriminate|].
    intros H. inversion H. subst. exists tot. split; [|split; [reflexivity|split; [reflexivity|]]].
    + apply wrap_rest_sound; [apply (wf_Lr lat Hwf)|exact E].
    + intros Ho. rewrite Ho in E2. cbn in E2. lia.
  - intros (tot & HC & -> & -> & Ho).
    rewrite (wrap_rest_complete _ _ _ _ _ _ _ (wf_Lr lat Hwf) HC).
    destruct (open0 lat) eqn:Eo; cbn [andb].
    + rewrite <- (Ho eq_refl). rewrite Z.eqb_refl. reflexivity.
    + reflexivity.
Qed.

(* what one row of the enumeration yields *)
Definition row_out (k : Z) (sh0 y0 j0 : Z) : Z * Z :=
  if infinite lat then
    let jsh := (sh0 - y0) * N / L0 lat in
    let ijs := if jsh <? 0 then - jsh else 0 in (k + ijs, j0 + jsh + ijs)
  else (k, j0).

Lemma row_in k x0 xr u i j li :
  In (i, j, li) (coupling_row lat u1 u2 dx0 dxr cs (k, (x0, xr, u))) <->
  u = u1 /\ exists sh0 y0 yr j0, target lat x0 xr dx0 dxr = Some (sh0, y0, yr) /\
     perm_lookup lat (y0, yr, u2) = Some j0 /\ (i, j) = row_out k sh0 y0 j0 /\
     li = zip3 (fun x d s => (x + Z.min 0 d) mod s) (x0 :: xr) (dx0 :: dxr) cs.
Proof.
  unfold coupling_row, row_out. fold N. split.
  - destruct (u =? u1) eqn:Eu; [|intros []]. 
    destruct (target lat x0 xr dx0 dxr) as [[[sh0 y0] yr]|] eqn:Et; [|intros []].
    destruct (perm_lookup lat (y0, yr, u2)) as [j0|] eqn:El; [|intros []].
    intros H. split; [lia|]. exists sh0, y0, yr, j0. split; [reflexivity|]. split; [exact El|].
    destruct (infinite lat); destruct H as [H|[]]; inversion H; subst; split; reflexivity.
  - intros (-> & sh0 & y0 & yr & j0 & Et & El & Hij & ->). rewrite Z.eqb_refl, Et, El.
    destruct (infinite lat); inversion Hij; subst; left; reflexivity.
Qed.

Lemma pairs_in i j : existsb (fun s => s =? 0) cs = false ->
  (In (i, j) (coupling_pairs lat u1 u2 dx0 dxr) <->
   exists n x0 xr sh0 y0 yr j0, nth_error (lorder lat) n = Some (x0, xr, u1) /\
     target lat x0 xr dx0 dxr = Some (sh0, y0, yr) /\ perm_lookup lat (y0, yr, u2) = Some j0 /\
     (i, j) = row_out (Z.of_nat n) sh0 y0 j0).
Proof.
  intros Hcs. unfold coupling_pairs, possible_couplings. fold cs. rewrite Hcs.
  rewrite in_map_iff. split.
  - intros ([[i' j'] li] & Hf & Hin). cbn in Hf. inversion Hf. subst i' j'.
    apply in_flat_map in Hin. destruct Hin as ([k [[x0 xr] u]] & Hz & Hrow).
    apply in_zenum in Hz. destruct Hz as (n & -> & Hn).
    apply row_in in Hrow. destruct Hrow as (-> & sh0 & y0 & yr & j0 & Et & El & Hij & _).
    exists n, x0, xr, sh0, y0, yr, j0. auto.
  - intros (n & x0 & xr & sh0 & y0 & yr & j0 & Hn & Et & El & Hij).
    exists (i, j, zip3 (fun x d s => (x + Z.min 0 d) mod s) (x0 :: xr) (dx0 :: dxr) cs). split; [reflexivity|].
    apply in_flat_map. exists (Z.of_nat n, (x0, xr, u1)). split.
    + apply in_zenum. eauto.
    + apply row_in. split; [reflexivity|]. exists sh0, y0, yr, j0. auto.
Qed.

Lemma nth_bound n (s : site) : nth_error (lorder lat) n = Some s -> 0 <= Z.of_nat n < N.
Proof.
  intros H. assert (n < length (lorder lat))%nat by (apply nth_error_Some; congruence). unfold N, nsites. lia.
Qed.

Lemma jsh_eq q y0 : 0 < N -> (y0 + q * L0 lat - y0) * N / L0 lat = q * N.
Proof.
  intros HN. pose proof (wf_L0 lat Hwf). replace ((y0 + q * L0 lat - y0) * N) with (q * N * L0 lat) by ring.
  apply Z.div_mul. lia.
Qed.

(* ---- soundness: every enumerated pair is a coupling *)
Lemma pairs_sound i j : existsb (fun s => s =? 0) cs = false ->
  In (i, j) (coupling_pairs lat u1 u2 dx0 dxr) -> coupled lat u1 u2 dx0 dxr i j.
Proof.
  intros Hcs Hin. apply pairs_in in Hin; [|exact Hcs].
  destruct Hin as (n & x0 & xr & sh0 & y0 & yr & j0 & Hn & Et & El & Hij).
  apply target_spec in Et. destruct Et as (tot & HC & Hsh & Hy0 & Ho).
  pose proof (wf_L0 lat Hwf) as HL.
  destruct (mod_decomp sh0 (L0 lat) HL) as (Hdec & Hyb). rewrite <- Hy0 in Hdec, Hyb.
  assert (HBy : site_in_box lat (y0, yr, u2)).
  { cbn [site_in_box]. split; [exact Hyb|]. split; [eapply conn_rest_box; exact HC|exact Hu2]. }
  destruct (nth_of_lookup lat Hwf _ _ HBy El) as (Hj0 & Hnj). fold N in Hj0.
  pose proof (nth_bound _ _ Hn) as Hnb.
  unfold row_out in Hij. fold N in Hij. destruct (infinite lat) eqn:Hi.
  - (* infinite *)
    pose proof (Npos lat Hwf Hi) as HN. fold N in HN.
    remember (sh0 / L0 lat) as q eqn:Hq.
    assert (Hjsh : (sh0 - y0) * N / L0 lat = q * N).
    { rewrite Hdec at 1. apply jsh_eq. exact HN. }
    rewrite Hjsh in Hij.
    pose proof (mps2lat_shift lat Hwf Hi n) as Hsx.
    pose proof (mps2lat_shift lat Hwf Hi (Z.to_nat j0)) as Hsy. fold N in Hsx, Hsy.
    rewrite Z2Nat.id in Hsy by lia.
    destruct (q * N <? 0) eqn:Eq; inversion Hij; subst i j.
    + (* j is in an earlier unit cell: shift both *)
      assert (q < 0) by nia. assert (- q * N >= N) by nia.
      exists (x0 + - q * L0 lat), xr, (y0 + 0 * L0 lat), yr. split; [|split; [|split]].
      * replace (Z.of_nat n + - (q * N)) with (Z.of_nat n + - q * N) by ring. now apply Hsx.
      * replace (j0 + q * N + - (q * N)) with (j0 + 0 * N) by ring. now apply Hsy.
      * exists tot, 0. split; [exact HC|]. split; [lia|auto].
      * intros _. lia.
    + assert (0 <= q * N) by lia.
      exists (x0 + 0 * L0 lat), xr, (y0 + q * L0 lat), yr. split; [|split; [|split]].
      * replace (Z.of_nat n + 0) with (Z.of_nat n + 0 * N) by ring. now apply Hsx.
      * replace (j0 + q * N + 0) with (j0 + q * N) by ring. now apply Hsy.
      * exists tot, 0. split; [exact HC|]. split; [lia|auto].
      * intros _. lia.
  - (* finite *)
    inversion Hij; subst i j.
    exists x0, xr, y0, yr. split; [|split; [|split]].
    + unfold mps2lat. rewrite Hi. fold N. replace ((0 <=? Z.of_nat n) && (Z.of_nat n <? N)) with true by lia.
      rewrite Nat2Z.id. exact Hn.
    + unfold mps2lat. rewrite Hi. fold N. replace ((0 <=? j0) && (j0 <? N)) with true by lia. exact Hnj.
    + exists tot, (sh0 / L0 lat). split; [exact HC|]. split; [lia|].
      intros [Ho'|Hc]; [|congruence]. specialize (Ho Ho'). assert (sh0 / L0 lat * L0 lat = 0) by lia. nia.
    + intros Hc. congruence.
Qed.

(* ---- completeness: every coupling is enumerated *)
Lemma mps2lat_inf_inv : infinite lat = true -> forall i X0 xr u, mps2lat lat i = Some (X0, xr, u) ->
  exists k m x0, i = Z.of_nat k + m * N /\ X0 = x0 + m * L0 lat /\ nth_error (lorder lat) k = Some (x0, xr, u).
Proof.
  intros Hi i X0 xr u H. pose proof (Npos lat Hwf Hi) as HN. fold N in HN.
  pose proof (inf_decomp lat i HN) as Hd. fold N in Hd.
  unfold mps2lat in H. rewrite Hi in H. fold N in H.
  destruct (nth_error (lorder lat) (Z.to_nat (i mod N))) as [[[x0 xr'] u']|] eqn:E; [|discriminate].
  pose proof (mps2lat_shift lat Hwf Hi _ (i / N) _ _ _ E) as H2. fold N in H2. rewrite <- Hd in H2.
  unfold mps2lat in H2. rewrite Hi in H2. fold N in H2. rewrite E in H2.
  rewrite H in H2. inversion H2. subst.
  exists (Z.to_nat (i mod N)), (i / N), x0. auto.
Qed.

Lemma pairs_complete i j : existsb (fun s => s =? 0) cs = false ->
  coupled lat u1 u2 dx0 dxr i j -> In (i, j) (coupling_pairs lat u1 u2 dx0 dxr).
Proof.
  intros Hcs (X0 & xr & Y0 & yr & Hmi & Hmj & (tot & k0 & HC & He & Hk0) & Hmin).
  apply pairs_in; [exact Hcs|]. pose proof (wf_L0 lat Hwf) as HL.
  destruct (infinite lat) eqn:Hi.
  - pose proof (Npos lat Hwf Hi) as HN. fold N in HN.
    destruct (wf_inf lat Hwf Hi) as (Hop & _).
    destruct (mps2lat_inf_inv Hi _ _ _ _ Hmi) as (ki & mi & x0 & Hdi & HX & Hni).
    destruct (mps2lat_inf_inv Hi _ _ _ _ Hmj) as (kj & mj & y0 & Hdj & HY & Hnj).
    rewrite (Hk0 (or_intror eq_refl)) in He.
    pose proof (nth_in_box lat Hwf _ _ Hnj) as HBy. cbn [site_in_box] in HBy. destruct HBy as (Hy0 & _).
    pose proof (nth_bound _ _ Hni) as Hbi. pose proof (nth_bound _ _ Hnj) as Hbj.
    set (sh0 := x0 + dx0 - tot).
    assert (Hsh : sh0 = y0 + (mj - mi) * L0 lat) by (unfold sh0; lia).
    destruct (mod_unique_k (L0 lat) y0 (mj - mi) sh0 HL Hy0 Hsh) as (Hm & _).
    exists ki, x0, xr, sh0, y0, yr, (Z.of_nat kj). split; [exact Hni|]. split; [|split].
    + apply target_spec. exists tot. split; [exact HC|]. split; [reflexivity|]. split; [now rewrite Hm|].
      rewrite Hop. discriminate.
    + now apply lookup_of_nth.
    + unfold row_out. rewrite Hi. fold N. rewrite Hsh. rewrite jsh_eq by exact HN.
      specialize (Hmin eq_refl). subst i j.
      destruct ((mj - mi) * N <? 0) eqn:Eq.
      * assert (mj < mi) by nia.
        assert (mj = 0).
        { assert (mj <= -1 \/ mj = 0 \/ mj >= 1) as [Hc|[Hc|Hc]] by lia; [exfalso|exact Hc|exfalso].
          - assert (mj * N <= - N) by nia. lia.
          - assert (mj * N >= N) by nia. assert (mi * N >= N) by nia. lia. }
        subst mj. f_equal; ring.
      * assert (mi <= mj) by nia.
        assert (mi = 0).
        { assert (mi <= -1 \/ mi = 0 \/ mi >= 1) as [Hc|[Hc|Hc]] by lia; [exfalso|exact Hc|exfalso].
          - assert (mi * N <= - N) by nia. lia.
          - assert (mi * N >= N) by nia. assert (mj * N >= N) by nia. lia. }
        subst mi. f_equal; ring.
  - unfold mps2lat in Hmi, Hmj. rewrite Hi in Hmi, Hmj. fold N in Hmi, Hmj.
    destruct ((0 <=? i) && (i <? N)) eqn:Ei; [|discriminate].
    destruct ((0 <=? j) && (j <? N)) eqn:Ej; [|discriminate].
    pose proof (nth_in_box lat Hwf _ _ Hmj) as HBy. cbn [site_in_box] in HBy. destruct HBy as (Hy0 & _).
    set (sh0 := X0 + dx0 - tot).
    assert (Hsh : sh0 = Y0 + k0 * L0 lat) by (unfold sh0; lia).
    destruct (mod_unique_k (L0 lat) Y0 k0 sh0 HL Hy0 Hsh) as (Hm & _).
    exists (Z.to_nat i), X0, xr, sh0, Y0, yr, j. split; [exact Hmi|]. split; [|split].
    + apply target_spec. exists tot. split; [exact HC|]. split; [reflexivity|]. split; [now rewrite Hm|].
      intros Ho. rewrite (Hk0 (or_introl Ho)) in Hsh. lia.
    + rewrite (lookup_of_nth lat Hwf _ _ Hmj). f_equal. lia.
    + unfold row_out. rewrite Hi. f_equal. lia.
Qed.

End Couplings.

(* ---- each pair once; the early return on an empty coupling_shape; the final statement *)
Lemma map_fst_zenum {A} (l : list A) : map fst (zenum l) = map Z.of_nat (seq 0 (length l)).
Proof.
  unfold zenum. generalize 0%nat. induction l as [|y t IH]; intros a; cbn [length seq map combine]; [reflexivity|].
  cbn [fst]. now rewrite IH.
Qed.

Lemma nodup_map_inv {A B} (f : A -> B) (l : list A) : NoDup (map f l) -> NoDup l.
Proof.
  induction l as [|a l IH]; intros H; [constructor|]. cbn [map] in H. inversion H as [|b l' Hb Hl]; subst.
  constructor; [|now apply IH]. intros Hin. apply Hb. now apply in_map.
Qed.

Section Couplings2.
Variable lat : lattice.
Hypothesis Hwf : wf lat.
Variables u1 u2 dx0 : Z.
Variable dxr : list Z.
Hypothesis Hu2 : 0 <= u2 < Lu lat.

Let N := nsites lat.
Let cs := coupling_shape lat dx0 dxr.
Let row := coupling_row lat u1 u2 dx0 dxr cs.

Definition pkey (p : Z * Z * list Z) : Z := if infinite lat then fst (fst p) mod N else fst (fst p).

Lemma row_cases ks : row ks = [] \/ exists e, row ks = [e].
Proof.
  destruct ks as [k [[x0 xr] u]]. unfold row, coupling_row.
  destruct (u =? u1); [|now left].
  destruct (target lat x0 xr dx0 dxr) as [[[sh0 y0] yr]|]; [|now left].
  destruct (perm_lookup lat (y0, yr, u2)); [|now left].
  destruct (infinite lat); right; eauto.
Qed.

Lemma row_key k s e : 0 <= k < N -> In e (row (k, s)) -> pkey e = k.
Proof.
  intros Hk Hin. destruct s as [[x0 xr] u]. destruct e as [[i j] li]. unfold row in Hin.
  apply (row_in lat u1 u2 dx0 dxr) in Hin.
  destruct Hin as (_ & sh0 & y0 & yr & j0 & Et & _ & Hij & _).
  apply (target_spec lat Hwf) in Et. destruct Et as (tot & _ & _ & Hy0 & _).
  unfold pkey, row_out in *. cbn [fst]. destruct (infinite lat) eqn:Hi.
  - pose proof (Npos lat Hwf Hi) as HN. fold N in HN. pose proof (wf_L0 lat Hwf) as HL.
    destruct (mod_decomp sh0 (L0 lat) HL) as (Hdec & _). rewrite <- Hy0 in Hdec.
    assert (Hjsh : (sh0 - y0) * nsites lat / L0 lat = sh0 / L0 lat * N).
    { rewrite Hdec at 1. apply (jsh_eq lat Hwf). exact HN. }
    rewrite Hjsh in Hij. inversion Hij as [[Hi' Hj']].
    destruct (sh0 / L0 lat * N <? 0).
    + replace (k + - (sh0 / L0 lat * N)) with (k + - (sh0 / L0 lat) * N) by ring.
      rewrite Z.mod_add by lia. apply Z.mod_small. lia.
    + rewrite Z.add_0_r. apply Z.mod_small. lia.
  - now inversion Hij.
Qed.

Lemma keys_sub l : (forall k s, In (k, s) l -> 0 <= k < N) ->
  forall x, In x (map pkey (flat_map row l)) -> In x (map fst l).
Proof.
  intros Hb x Hin. apply in_map_iff in Hin. destruct Hin as (e & <- & Hin).
  apply in_flat_map in Hin. destruct Hin as ([k s] & Hks & He).
  rewrite (row_key k s e (Hb k s Hks) He). apply in_map_iff. exists (k, s). auto.
Qed.

Lemma nodup_keys l : NoDup (map fst l) -> (forall k s, In (k, s) l -> 0 <= k < N) ->
  NoDup (map pkey (flat_map row l)).
Proof.
  induction l as [|[k s] l IH]; intros Hnd Hb; cbn [flat_map map]; [constructor|].
  cbn [map fst] in Hnd. inversion Hnd as [|k' l' Hk Hl]; subst.
  assert (Hb' : forall k0 s0, In (k0, s0) l -> 0 <= k0 < N) by (intros; apply (Hb k0 s0); now right).
  specialize (IH Hl Hb'). rewrite map_app.
  destruct (row_cases (k, s)) as [E|(e & E)]; rewrite E; cbn [map app]; [exact IH|].
  constructor; [|exact IH]. intros Hin.
  assert (pkey e = k). { apply (row_key k s); [apply (Hb k s); now left|rewrite E; now left]. }
  apply Hk. rewrite <- H. now apply keys_sub.
Qed.

Lemma pairs_nodup : NoDup (coupling_pairs lat u1 u2 dx0 dxr).
Proof.
  unfold coupling_pairs, possible_couplings. fold cs. destruct (existsb (fun s => s =? 0) cs); [constructor|].
  fold row.
  apply (nodup_map_inv (fun p : Z * Z => if infinite lat then fst p mod N else fst p)).
  rewrite map_map.
  replace (map (fun x => if infinite lat then fst (fst x) mod N else fst (fst x)) (flat_map row (zenum (lorder lat))))
    with (map pkey (flat_map row (zenum (lorder lat)))) by reflexivity.
  apply nodup_keys.
  - rewrite map_fst_zenum. apply FinFun.Injective_map_NoDup; [intros a b; lia|apply seq_NoDup].
  - intros k s Hin. apply in_zenum in Hin. destruct Hin as (n & -> & Hn).
    assert (n < length (lorder lat))%nat by (apply nth_error_Some; congruence). unfold N, nsites. lia.
Qed.

(* ---- the early return: coupling_shape has an entry 0 *)
Lemma conn_zero_shape Ls os ss xs ds ys tot :
  conn_rest Ls os ss xs ds ys tot -> Forall2 (fun x L => 0 <= x < L) xs Ls ->
  existsb (fun s => s =? 0) (zip3 cshape1 Ls os ds) = true -> False.
Proof.
  induction 1 as [|L o s x d y k Ls os ss xs ds ys tot Hy He Ho HC IH]; intros HB Hz; [discriminate|].
  inversion HB as [|x' L' xs' Ls' Hx HB']; subst. cbn [zip3 existsb] in Hz.
  apply orb_true_iff in Hz. destruct Hz as [Hz|Hz]; [|now apply IH].
  unfold cshape1 in Hz. destruct o.
  - rewrite (Ho eq_refl) in He. lia.
  - lia.
Qed.

Lemma conn_noshift Ls os ss xs ds ys tot :
  conn_rest Ls os ss xs ds ys tot -> Forall (fun s => s = 0) ss -> tot = 0.
Proof.
  induction 1 as [|L o s x d y k Ls os ss xs ds ys tot Hy He Ho HC IH]; intros Hs; [reflexivity|].
  inversion Hs; subst. rewrite IH by assumption. lia.
Qed.

Lemma m2l_box i X0 xr u : mps2lat lat i = Some (X0, xr, u) ->
  Forall2 (fun x L => 0 <= x < L) xr (Lr lat) /\ (infinite lat = false -> 0 <= X0 < L0 lat).
Proof.
  intros H. destruct (infinite lat) eqn:Hi.
  - destruct (mps2lat_inf_inv lat Hwf Hi _ _ _ _ H) as (k & m & x0 & _ & _ & Hn).
    pose proof (nth_in_box lat Hwf _ _ Hn) as HB. cbn [site_in_box] in HB. split; [tauto|discriminate].
  - unfold mps2lat in H. rewrite Hi in H. destruct ((0 <=? i) && (i <? nsites lat)); [|discriminate].
    pose proof (nth_in_box lat Hwf _ _ H) as HB. cbn [site_in_box] in HB. split; [tauto|intros _; tauto].
Qed.

Lemma empty_shape_no_coupling i j :
  (open0 lat = true -> Forall (fun s => s = 0) (shiftr lat) \/ Z.abs dx0 < L0 lat) ->
  existsb (fun s => s =? 0) cs = true -> ~ coupled lat u1 u2 dx0 dxr i j.
Proof.
  intros Hsh Hz (X0 & xr & Y0 & yr & Hmi & Hmj & (tot & k0 & HC & He & Hk0) & _).
  destruct (m2l_box _ _ _ _ Hmi) as (HBx & HX). destruct (m2l_box _ _ _ _ Hmj) as (_ & HY).
  unfold cs, coupling_shape in Hz. cbn [zip3 existsb] in Hz. apply orb_true_iff in Hz.
  pose proof (wf_L0 lat Hwf) as HL. destruct Hz as [Hz|Hz].
  - unfold cshape1 in Hz. destruct (open0 lat) eqn:Ho; [|lia].
    assert (Hf : infinite lat = false).
    { destruct (infinite lat) eqn:Hi; [|reflexivity]. destruct (wf_inf lat Hwf Hi). congruence. }
    destruct (Hsh eq_refl) as [Hs|Hs]; [|lia].
    rewrite (conn_noshift _ _ _ _ _ _ _ HC Hs) in He. rewrite (Hk0 (or_introl eq_refl)) in He.
    specialize (HX Hf). specialize (HY Hf). lia.
  - eapply conn_zero_shape; eauto.
Qed.

Lemma couplings_exact :
  (open0 lat = true -> Forall (fun s => s = 0) (shiftr lat) \/ Z.abs dx0 < L0 lat) ->
  NoDup (coupling_pairs lat u1 u2 dx0 dxr) /\
  forall i j, In (i, j) (coupling_pairs lat u1 u2 dx0 dxr) <-> coupled lat u1 u2 dx0 dxr i j.
Proof.
  intros Hsh. split; [apply pairs_nodup|]. intros i j.
  destruct (existsb (fun s => s =? 0) cs) eqn:Hz.
  - split.
    + unfold coupling_pairs, possible_couplings. fold cs. rewrite Hz. intros [].
    + intros HC. exfalso. eapply empty_shape_no_coupling; eauto.
  - split; [now apply pairs_sound|now apply pairs_complete].
Qed.

End Couplings2.

(* ---- the restriction on bc_shift in couplings_exact is necessary: finite lattice, open x-direction,
        periodic y-direction with shift 2, dx = (2, 1): (0,1) + (2,1) = (2,2) ~ (0,0) exists, but the
        enumeration (as tenpy's) returns nothing because coupling_shape = (0, 2). *)
Definition shift_witness : lattice :=
  mkLat 2 [2] 1 true [false] [2] false [(0, [0], 0); (0, [1], 0); (1, [0], 0); (1, [1], 0)].

Lemma shift_witness_wf : wf shift_witness.
Proof.
  constructor; cbn; try lia; try discriminate.
  all: repeat constructor; cbn; try lia; try (intuition congruence).
Qed.

Lemma couplings_shift_refuted :
  exists lat u1 u2 dx0 dxr i j, wf lat /\ 0 <= u2 < Lu lat /\
    coupled lat u1 u2 dx0 dxr i j /\ coupling_pairs lat u1 u2 dx0 dxr = [].
Proof.
  exists shift_witness, 0, 0, 2, [1], 1, 0. split; [apply shift_witness_wf|]. split; [cbn; lia|]. split.
  - exists 0, [1], 0, [0]. split; [reflexivity|]. split; [reflexivity|]. split.
    + exists (1 * 2 + 0), 0. split.
      * apply (conn_cons 2 false 2 1 1 0 1); [lia|lia|discriminate|constructor].
      * split; [cbn; lia|reflexivity].
    + discriminate.
  - vm_compute. reflexivity.
Qed.
