(* Proofs about Model/KernelsPyCy.v: the compiled and the pure-Python algorithm of each kernel compute
   the same function on the stated ranges. *)
From TenpyV Require Import Base.Prelude Model.KernelsPyCy.
Open Scope Z_scope.

(* ---- int64 wrap-around is the identity inside the int64 range *)
Lemma wrap64_id x : - two63 <= x < two63 -> wrap64 x = x.
Proof.
  intros Hx. unfold wrap64. rewrite Z.mod_small; [lia|].
  unfold two63, two64 in *. lia.
Qed.

Lemma fits64_true x : - two63 <= x < two63 -> fits64 x = true.
Proof. intros Hx. unfold fits64. lia. Qed.

(* ---- make_valid *)
Lemma mv1_eq m q : 1 <= m < two62 -> - two62 < q < two62 -> mv1_cy m q = mv1_py m q.
Proof.
  intros Hm Hq. unfold mv1_cy, mv1_py.
  destruct (m =? 1) eqn:E1; [reflexivity|].
  assert (Hm1 : 1 < m) by lia.
  assert (Hqr : q = m * Z.quot q m + Z.rem q m) by (apply Z.quot_rem'; lia).
  assert (Hr : - m < Z.rem q m < m).
  { pose proof (Z.rem_bound_abs q m ltac:(lia)). lia. }
  assert (Hsgn : 0 <= q -> 0 <= Z.rem q m).
  { intros H0. pose proof (Z.rem_bound_pos q m H0 ltac:(lia)). lia. }
  assert (Hsgn2 : q <= 0 -> Z.rem q m <= 0).
  { intros H0. pose proof (Z.rem_opp_l q m ltac:(lia)) as Ho.
    pose proof (Z.rem_bound_pos (- q) m ltac:(lia) ltac:(lia)). lia. }
  assert (Hw : wrap64 (Z.rem q m) = Z.rem q m).
  { apply wrap64_id. unfold two62, two63 in *. lia. }
  rewrite Hw.
  destruct (Z.rem q m <? 0) eqn:E2.
  - rewrite wrap64_id by (unfold two62, two63 in *; lia).
    apply (Z.mod_unique_pos q m (Z.quot q m - 1)); lia.
  - apply (Z.mod_unique_pos q m (Z.quot q m)); lia.
Qed.

Lemma row_map2_eq mods : forall row,
  Forall (fun m => 1 <= m < two62) mods -> Forall (fun q => - two62 < q < two62) row ->
  row_map2 mv1_cy mods row = row_map2 mv1_py mods row.
Proof.
  induction mods as [|m ms IH]; intros row Hm Hr; [reflexivity|].
  destruct row as [|q qs]; [reflexivity|].
  inversion Hm as [|? ? Hm1 Hm2]; inversion Hr as [|? ? Hr1 Hr2]; subst.
  cbn [row_map2]. rewrite (mv1_eq m q Hm1 Hr1), (IH qs Hm2 Hr2). reflexivity.
Qed.

Lemma make_valid_eq mods rows :
  Forall (fun m => 1 <= m < two62) mods ->
  Forall (Forall (fun q => - two62 < q < two62)) rows ->
  make_valid_cy mods rows = make_valid_py mods rows.
Proof.
  intros Hm Hr. unfold make_valid_cy, make_valid_py.
  induction Hr as [|row rows Hrow _ IH]; [reflexivity|].
  cbn [map]. rewrite (row_map2_eq mods row Hm Hrow), IH. reflexivity.
Qed.

(* the results are valid charges (range of the mathematical modulo) - sanity of the model *)
Lemma mv1_py_range m q : 1 < m -> 0 <= mv1_py m q < m.
Proof. intros Hm. unfold mv1_py. destruct (m =? 1) eqn:E; [lia|]. apply Z.mod_pos_bound. lia. Qed.

(* ---- check_valid *)
Lemma cv_rows_spec m j rows :
  cv_rows m j rows = forallb (fun row => (0 <=? nthZ row j) && (nthZ row j <? m)) rows.
Proof.
  induction rows as [|row t IH]; [reflexivity|].
  cbn [cv_rows forallb]. rewrite <- IH.
  destruct (nthZ row j <? 0) eqn:E1; destruct (m <=? nthZ row j) eqn:E2; cbn [orb];
    destruct (0 <=? nthZ row j) eqn:E3; destruct (nthZ row j <? m) eqn:E4; cbn [andb]; try reflexivity; lia.
Qed.

Lemma cv_cols_iff mods : forall j0 rows,
  cv_cols mods j0 rows = true <->
  (forall k, (k < length mods)%nat -> forall row, In row rows -> ok1 (nth k mods 1) (nthZ row (j0 + k)) = true).
Proof.
  induction mods as [|m ms IH]; intros j0 rows.
  - cbn [cv_cols length]. split; [intros _ k Hk; lia|reflexivity].
  - cbn [cv_cols].
    assert (Hhead : (if m =? 1 then true else cv_rows m j0 rows) = true <->
                    forall row, In row rows -> ok1 m (nthZ row j0) = true).
    { unfold ok1. destruct (m =? 1) eqn:E1.
      - split; [intros _ row _; reflexivity|reflexivity].
      - rewrite cv_rows_spec, forallb_forall. cbn [orb]. reflexivity. }
    assert (Hstep : (if m =? 1 then cv_cols ms (S j0) rows
                     else if cv_rows m j0 rows then cv_cols ms (S j0) rows else false) = true <->
                    ((if m =? 1 then true else cv_rows m j0 rows) = true /\ cv_cols ms (S j0) rows = true)).
    { destruct (m =? 1); [tauto|]. destruct (cv_rows m j0 rows); [tauto|]. split; [discriminate|intros [H _]; discriminate]. }
    rewrite Hstep, Hhead, (IH (S j0) rows). split.
    + intros [H0 Hrest] k Hk row Hin. destruct k as [|k].
      * cbn [nth]. rewrite Nat.add_0_r. apply H0, Hin.
      * cbn [nth]. replace (j0 + S k)%nat with (S j0 + k)%nat by lia. apply Hrest; [cbn [length] in Hk; lia|exact Hin].
    + intros H. split.
      * intros row Hin. specialize (H 0%nat ltac:(cbn [length]; lia) row Hin). cbn [nth] in H.
        rewrite Nat.add_0_r in H. exact H.
      * intros k Hk row Hin. specialize (H (S k) ltac:(cbn [length]; lia) row Hin). cbn [nth] in H.
        replace (j0 + S k)%nat with (S j0 + k)%nat in H by lia. exact H.
Qed.

Lemma check_valid_py_iff mods rows :
  check_valid_py mods rows = true <->
  (forall k, (k < length mods)%nat -> forall row, In row rows -> ok1 (nth k mods 1) (nthZ row (0 + k)) = true).
Proof.
  unfold check_valid_py. rewrite forallb_forall. split.
  - intros H k Hk row Hin. specialize (H row Hin). rewrite forallb_forall in H.
    apply H. apply in_seq. lia.
  - intros H row Hin. rewrite forallb_forall. intros k Hk. apply in_seq in Hk.
    apply (H k ltac:(lia) row Hin).
Qed.

Lemma check_valid_eq mods rows : check_valid_cy mods rows = check_valid_py mods rows.
Proof.
  unfold check_valid_cy.
  pose proof (cv_cols_iff mods 0%nat rows) as H1. pose proof (check_valid_py_iff mods rows) as H2.
  destruct (cv_cols mods 0 rows) eqn:E1; destruct (check_valid_py mods rows) eqn:E2; try reflexivity.
  - symmetry. apply H2, H1. reflexivity.
  - apply H1, H2. reflexivity.
Qed.

(* check_valid says what the docstring says: every constrained charge lies in [0, mod) *)
Lemma check_valid_py_spec mods rows :
  check_valid_py mods rows = true <->
  forall row, In row rows -> forall k, (k < length mods)%nat -> nth k mods 1 = 1 \/ 0 <= nthZ row k < nth k mods 1.
Proof.
  rewrite check_valid_py_iff. split.
  - intros H row Hin k Hk. specialize (H k Hk row Hin). unfold ok1 in H. cbn [Nat.add] in H. lia.
  - intros H k Hk row Hin. specialize (H row Hin k Hk). unfold ok1. cbn [Nat.add]. lia.
Qed.

(* ---- _find_row_differences *)
Lemma nthZ_app_len l1 x t : nthZ (l1 ++ x :: t) (length l1) = x.
Proof. unfold nthZ. rewrite app_nth2 by lia. rewrite Nat.sub_diag. reflexivity. Qed.

Lemma rows_equal_cy_spec : forall r1 r2 l1 l2,
  length l1 = length l2 -> length r1 = length r2 ->
  rows_equal_cy (length r1) (length l1) (l1 ++ r1) (l2 ++ r2) = negb (row_neq r2 r1).
Proof.
  induction r1 as [|x t1 IH]; intros r2 l1 l2 Hl Hr.
  - destruct r2; [reflexivity|discriminate].
  - destruct r2 as [|y t2]; [discriminate|].
    cbn [length rows_equal_cy row_neq].
    rewrite nthZ_app_len. rewrite Hl, nthZ_app_len.
    destruct (x =? y) eqn:E.
    + assert (Hyx : (y =? x) = true) by lia. rewrite Hyx. cbn [negb orb].
      replace (l1 ++ x :: t1) with ((l1 ++ [x]) ++ t1) by (rewrite <- app_assoc; reflexivity).
      replace (l2 ++ y :: t2) with ((l2 ++ [y]) ++ t2) by (rewrite <- app_assoc; reflexivity).
      replace (S (length l2)) with (length (l1 ++ [x])) by (rewrite app_length; cbn [length]; lia).
      apply IH; [rewrite !app_length; cbn [length]; lia|cbn [length] in Hr; lia].
    + assert (Hyx : (y =? x) = false) by lia. rewrite Hyx. reflexivity.
Qed.

Lemma rows_equal_cy_0 M r1 r2 : length r1 = M -> length r2 = M ->
  rows_equal_cy M 0 r1 r2 = negb (row_neq r2 r1).
Proof.
  intros H1 H2. subst M.
  apply (rows_equal_cy_spec r1 r2 [] []); [reflexivity|lia].
Qed.

Lemma frd_loop_spec M : forall rest prev i,
  length prev = M -> Forall (fun r => length r = M) rest ->
  frd_loop M i prev rest = nonzero_from i (changes prev rest).
Proof.
  induction rest as [|r t IH]; intros prev i Hp Hr; [reflexivity|].
  inversion Hr as [|? ? Hr1 Hr2]; subst.
  cbn [frd_loop changes nonzero_from].
  rewrite (rows_equal_cy_0 (length prev) prev r eq_refl Hr1).
  destruct (row_neq r prev); cbn [negb]; rewrite (IH r (i + 1) Hr1 Hr2); reflexivity.
Qed.

Lemma nonzero_from_app : forall a b k,
  nonzero_from k (a ++ b) = nonzero_from k a ++ nonzero_from (k + Z.of_nat (length a)) b.
Proof.
  induction a as [|x a IH]; intros b k.
  - cbn [app nonzero_from length]. rewrite Z.add_0_r. reflexivity.
  - cbn [app nonzero_from length]. rewrite IH.
    replace (k + 1 + Z.of_nat (length a)) with (k + Z.of_nat (S (length a))) by lia.
    destruct x; reflexivity.
Qed.

Lemma changes_length : forall rest prev, length (changes prev rest) = length rest.
Proof. induction rest as [|r t IH]; intros prev; [reflexivity|]. cbn [changes length]. rewrite IH. reflexivity. Qed.

Lemma last_repeat_true n : last (true :: repeat true n) true = true.
Proof. induction n as [|n IH]; [reflexivity|]. cbn [repeat]. cbn [last] in *. exact IH. Qed.

Lemma find_row_differences_eq M rows :
  0 <= M -> Forall (fun r => length r = Z.to_nat M) rows ->
  frd_cy M rows = frd_py M rows.
Proof.
  intros HM Hrows. unfold frd_cy, frd_py.
  destruct (M =? 0) eqn:E0; [reflexivity|].
  destruct rows as [|r t]; [reflexivity|].
  inversion Hrows as [|? ? Hr1 Hr2]; subst.
  cbn [length repeat].
  change (assign_inner (true :: true :: repeat true (length t)) (changes r t))
    with (true :: changes r t ++ [last (true :: repeat true (length t)) true]).
  rewrite last_repeat_true.
  cbn [nonzero_from]. f_equal.
  rewrite nonzero_from_app, changes_length.
  rewrite (frd_loop_spec (Z.to_nat M) t r 1 Hr1 Hr2).
  cbn [nonzero_from]. cbn [Z.add]. f_equal. f_equal. lia.
Qed.

(* on an empty array with columns both implementations return [0] (not the [0, 0] of the docstring's formula
   [0] + [i for i in 1..L-1 if rows differ] + [L]) *)
Lemma find_row_differences_empty : frd_cy 1 [] = [0] /\ frd_py 1 [] = [0].
Proof. vm_compute. split; reflexivity. Qed.

(* ---- _make_stride *)
Lemma prod_max_pos l : 1 <= prodZ (map (Z.max 1) l).
Proof.
  induction l as [|x l IH]; cbn [map prodZ]; [lia|].
  assert (Ha : 1 <= Z.max 1 x) by lia.
  generalize dependent (Z.max 1 x). intros a Ha.
  generalize dependent (prodZ (map (Z.max 1) l)). intros p Hp. nia.
Qed.

Lemma prodZ_app l1 l2 : prodZ (l1 ++ l2) = prodZ l1 * prodZ l2.
Proof. induction l1 as [|x l1 IH]; cbn [app prodZ]; [lia|]. rewrite IH. lia. Qed.

Lemma prodZ_rev l : prodZ (rev l) = prodZ l.
Proof. induction l as [|x l IH]; [reflexivity|]. cbn [rev]. rewrite prodZ_app, IH. cbn [prodZ]. lia. Qed.

Lemma step_bound s d a P B : 0 <= s -> 0 <= d -> d <= a -> 1 <= P -> s * (a * P) < B ->
  0 <= s * d /\ s * d < B /\ (s * d) * P < B.
Proof.
  intros Hs Hd Hda HP Hb.
  assert (H1 : 0 <= s * d) by (apply Z.mul_nonneg_nonneg; assumption).
  assert (H2 : s * d <= s * a) by (apply Z.mul_le_mono_nonneg_l; assumption).
  assert (H3 : s * d * P <= s * a * P) by (apply Z.mul_le_mono_nonneg_r; lia).
  assert (H4 : s * d * 1 <= s * d * P) by (apply Z.mul_le_mono_nonneg_l; lia).
  rewrite Z.mul_assoc in Hb. lia.
Qed.

Lemma c_loop_eq : forall ds s res,
  0 <= s -> Forall (fun d => 0 <= d) ds -> s * prodZ (map (Z.max 1) ds) < two63 ->
  c_loop_py ds s res = Some (c_loop_cy ds s res).
Proof.
  induction ds as [|d t IH]; intros s res Hs Hds Hb; [reflexivity|].
  inversion Hds as [|? ? Hd Ht]; subst.
  cbn [c_loop_py c_loop_cy]. cbn [map prodZ] in Hb.
  pose proof (prod_max_pos t) as Hp.
  destruct (step_bound s d (Z.max 1 d) (prodZ (map (Z.max 1) t)) two63 Hs Hd ltac:(lia) Hp Hb) as [H1 [H3 H2]].
  rewrite fits64_true by (unfold two63 in *; lia).
  rewrite wrap64_id by (unfold two63 in *; lia).
  apply IH; [exact H1|exact Ht|lia].
Qed.

Lemma f_loop_eq : forall ds s res,
  0 <= s -> Forall (fun d => 0 <= d) ds -> s * prodZ (map (Z.max 1) ds) < two63 ->
  f_loop_py ds s res = Some (f_loop_cy ds s res).
Proof.
  induction ds as [|d t IH]; intros s res Hs Hds Hb; [reflexivity|].
  inversion Hds as [|? ? Hd Ht]; subst.
  cbn [f_loop_py f_loop_cy]. cbn [map prodZ] in Hb.
  pose proof (prod_max_pos t) as Hp.
  destruct (step_bound s d (Z.max 1 d) (prodZ (map (Z.max 1) t)) two63 Hs Hd ltac:(lia) Hp Hb) as [H1 [H3 H2]].
  rewrite fits64_true by (unfold two63 in *; lia).
  rewrite wrap64_id by (unfold two63 in *; lia).
  apply IH; [exact H1|exact Ht|lia].
Qed.

Lemma Forall_rev {A} (P : A -> Prop) l : Forall P l -> Forall P (rev l).
Proof. intros H. apply Forall_forall. intros x Hx. apply in_rev in Hx. rewrite Forall_forall in H. auto. Qed.

Lemma make_stride_eq shape cstyle :
  shape <> [] -> Forall (fun d => 0 <= d) shape -> prodZ (map (Z.max 1) shape) < two63 ->
  make_stride_cy shape cstyle = make_stride_py shape cstyle.
Proof.
  intros Hne Hpos Hb. unfold make_stride_cy, make_stride_py. destruct cstyle.
  - destruct shape as [|d0 t]; [contradiction|]. cbn [tl].
    inversion Hpos as [|? ? Hd Ht]; subst. cbn [map prodZ] in Hb.
    symmetry. apply c_loop_eq; [lia|apply Forall_rev, Ht|].
    rewrite map_rev, prodZ_rev. pose proof (prod_max_pos t) as Hp.
    assert (Ha : 1 <= Z.max 1 d0) by lia.
    generalize dependent (Z.max 1 d0). intros a Hb Ha.
    generalize dependent (prodZ (map (Z.max 1) t)). intros p Hb Hp.
    assert (1 * p <= a * p) by (apply Z.mul_le_mono_nonneg_r; lia). lia.
  - destruct (exists_last Hne) as [l [x Hx]]. subst shape.
    rewrite removelast_last.
    apply Forall_app in Hpos. destruct Hpos as [Hl _].
    rewrite map_app, prodZ_app in Hb. cbn [map prodZ] in Hb.
    symmetry. apply f_loop_eq; [lia|exact Hl|].
    pose proof (prod_max_pos l) as Hp.
    assert (Ha : 1 <= Z.max 1 x) by lia.
    generalize dependent (Z.max 1 x). intros a Hb Ha.
    generalize dependent (prodZ (map (Z.max 1) l)). intros p Hb Hp.
    assert (p * 1 <= p * (a * 1)) by (apply Z.mul_le_mono_nonneg_l; lia). lia.
Qed.

(* what the strides are (C order): the model computes the suffix products numpy documents *)
Lemma c_loop_cy_example : make_stride_cy [2; 3; 4] true = Some [12; 4; 1] /\ make_stride_cy [2; 3; 4] false = Some [1; 2; 6].
Proof. vm_compute. split; reflexivity. Qed.

(* ---- _map_blocks *)
Lemma firstn_app_len {A} (a b : list A) : firstn (length a) (a ++ b) = a.
Proof. rewrite firstn_app, Nat.sub_diag, firstn_all. cbn [firstn]. apply app_nil_r. Qed.

Lemma skipn_app_len {A} (a b : list A) : skipn (length a) (a ++ b) = b.
Proof. rewrite skipn_app, Nat.sub_diag, skipn_all. reflexivity. Qed.

Lemma fill_app : forall n a b c v, length b = n ->
  fill (a ++ b ++ c) (length a) n v = a ++ repeat v n ++ c.
Proof.
  induction n as [|n IH]; intros a b c v Hb.
  - destruct b; [reflexivity|discriminate].
  - destruct b as [|x b']; [discriminate|]. cbn [fill].
    rewrite firstn_app_len.
    replace (S (length a)) with (length (a ++ [x])) by (rewrite app_length; cbn [length]; lia).
    replace (a ++ (x :: b') ++ c) with ((a ++ [x]) ++ b' ++ c) by (rewrite <- app_assoc; reflexivity).
    rewrite skipn_app_len.
    replace (a ++ v :: b' ++ c) with ((a ++ [v]) ++ b' ++ c) by (rewrite <- app_assoc; reflexivity).
    replace (length (a ++ [x])) with (length (a ++ [v])) by (rewrite !app_length; reflexivity).
    rewrite IH by (cbn [length] in Hb; lia).
    cbn [repeat]. rewrite <- app_assoc. reflexivity.
Qed.

Lemma repeat_scaled v n : map (fun one => one * v) (repeat 1 n) = repeat v n.
Proof. induction n as [|n IH]; [reflexivity|]. cbn [repeat map]. rewrite IH. f_equal. lia. Qed.

Lemma sumZ_nonneg' l : Forall (fun b => 0 <= b) l -> 0 <= sumZ l.
Proof. induction 1 as [|x l Hx _ IH]; cbn [sumZ]; lia. Qed.

Lemma mb_cy_spec : forall bs i done zeros,
  Forall (fun b => 0 <= b) bs -> length zeros = Z.to_nat (sumZ bs) ->
  mb_cy i (length done) bs (done ++ zeros) = done ++ mb_py i bs.
Proof.
  induction bs as [|b t IH]; intros i done zeros Hpos Hlen.
  - cbn [mb_cy mb_py]. cbn [sumZ] in Hlen. destruct zeros; [reflexivity|discriminate].
  - inversion Hpos as [|? ? Hb Ht]; subst. cbn [mb_cy mb_py]. cbn [sumZ] in Hlen.
    pose proof (sumZ_nonneg' t Ht) as Hs.
    rewrite Z2Nat.inj_add in Hlen by lia.
    rewrite <- (firstn_skipn (Z.to_nat b) zeros).
    rewrite fill_app by (apply firstn_length_le; lia).
    replace (length done + Z.to_nat b)%nat with (length (done ++ repeat i (Z.to_nat b)))
      by (rewrite app_length, repeat_length; reflexivity).
    rewrite app_assoc.
    rewrite IH; [|exact Ht|rewrite skipn_length; lia].
    rewrite repeat_scaled, <- app_assoc. reflexivity.
Qed.

Lemma map_blocks_eq bs : Forall (fun b => 0 <= b) bs -> map_blocks_cy bs = map_blocks_py bs.
Proof.
  intros Hpos. unfold map_blocks_cy, map_blocks_py.
  apply (mb_cy_spec bs 0 [] (repeat 0 (Z.to_nat (sumZ bs))) Hpos). apply repeat_length.
Qed.
