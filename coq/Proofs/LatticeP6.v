(* Proofs about Model/Lattice.v (property C19), part I: the multi-couplings do not depend on the order in which
   the operators are listed: permuting the operators permutes the columns of mps_ijkl and nothing else. *)
From TenpyV Require Import Base.Prelude Model.Lattice Model.LatticeMulti.
From TenpyV Require Import Proofs.LatticeP Proofs.LatticeP3.
Open Scope Z_scope.

Lemma Forall2_combine {A B} (P : A -> B -> Prop) : forall l l',
  Forall2 P l l' <-> length l = length l' /\ Forall (fun p => P (fst p) (snd p)) (combine l l').
Proof.
  induction l as [|a l IH]; intros [|b l']; cbn [length combine].
  - split; [intros _; split; [reflexivity|constructor]|intros _; constructor].
  - split; [intros H; inversion H|intros [H _]; discriminate].
  - split; [intros H; inversion H|intros [H _]; discriminate].
  - split.
    + intros H. inversion H as [|? ? ? ? Hab Hr]; subst. apply IH in Hr. destruct Hr as [Hl Hf].
      split; [now f_equal|]. constructor; [exact Hab|exact Hf].
    + intros [Hl Hf]. inversion Hf as [|? ? Hab Hr]; subst. constructor; [exact Hab|].
      apply IH. split; [now injection Hl|exact Hr].
Qed.

Lemma map_snd_combine_eq {A B} : forall (l : list A) (l' : list B),
  length l = length l' -> map snd (combine l l') = l'.
Proof.
  induction l as [|a l IH]; intros [|b l'] H; cbn in *; try discriminate; [reflexivity|].
  f_equal. apply IH. now injection H.
Qed.

Lemma zmin_l_perm l l' : Permutation l l' -> zmin_l l = zmin_l l'.
Proof.
  intros HP. destruct l as [|a t].
  - apply Permutation_nil in HP. now subst.
  - assert (Hne : a :: t <> []) by discriminate.
    assert (Hne' : l' <> []).
    { intros ->. apply Permutation_sym, Permutation_nil in HP. discriminate. }
    destruct (zmin_l_spec _ Hne) as [Hi Hle]. destruct (zmin_l_spec _ Hne') as [Hi' Hle'].
    pose proof (Hle' _ (Permutation_in _ HP Hi)).
    pose proof (Hle _ (Permutation_in _ (Permutation_sym HP) Hi')). lia.
Qed.

Lemma multi_coupled_perm_half lat ops ijkl ops' ijkl' :
  length ops = length ijkl -> length ops' = length ijkl' ->
  Permutation (combine ops ijkl) (combine ops' ijkl') ->
  multi_coupled lat ops ijkl -> multi_coupled lat ops' ijkl'.
Proof.
  intros Hl Hl' HP (b0 & br & HF & Hm). exists b0, br. split.
  - apply Forall2_combine. split; [exact Hl'|].
    apply Forall2_combine in HF. destruct HF as [_ HF].
    eapply Permutation_Forall; [exact HP|exact HF].
  - intros Hinf. specialize (Hm Hinf).
    assert (E : zmin_l ijkl' = zmin_l ijkl).
    { rewrite <- (map_snd_combine_eq ops ijkl Hl), <- (map_snd_combine_eq ops' ijkl' Hl').
      apply zmin_l_perm, Permutation_map, Permutation_sym, HP. }
    rewrite E. exact Hm.
Qed.

Lemma multi_operator_order : forall lat, wf lat -> forall ops ijkl ops' ijkl',
  length ops = length ijkl -> length ops' = length ijkl' ->
  Permutation (combine ops ijkl) (combine ops' ijkl') ->
  (multi_coupled lat ops ijkl <-> multi_coupled lat ops' ijkl') /\
  (ops_wf lat ops -> ops_wf lat ops' ->
   (open0 lat = true -> Forall (fun s => s = 0) (shiftr lat)) ->
   (In ijkl (multi_ijkl lat ops) <-> In ijkl' (multi_ijkl lat ops'))).
Proof.
  intros lat Hwf ops ijkl ops' ijkl' Hl Hl' HP.
  assert (HS : multi_coupled lat ops ijkl <-> multi_coupled lat ops' ijkl').
  { split; [now apply multi_coupled_perm_half|].
    apply multi_coupled_perm_half; [exact Hl'|exact Hl|now apply Permutation_sym]. }
  split; [exact HS|]. intros Ho Ho' Hsh.
  destruct (multi_couplings_exact lat Hwf ops Ho Hsh) as [_ HA].
  destruct (multi_couplings_exact lat Hwf ops' Ho' Hsh) as [_ HB].
  rewrite HA, HB. exact HS.
Qed.
