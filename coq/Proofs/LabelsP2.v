(* _conj_leg_label on ALL labels of the grammar Model/LabelGrammar.v (arbitrary nesting):
   the code's algorithm (insert '*' after every atom, then str.replace('**', '')) computes the structural conjugation,
   and is an involution. *)
From TenpyV Require Import Base.Prelude Model.Labels Model.LabelGrammar Proofs.LabelsP.
From Coq Require Import Ascii.
Open Scope char_scope.

(* ---- induction principle for the nested type *)
Section LtreeInd.
  Variable P : ltree -> Prop.
  Hypothesis Hatom : forall a st, P (LAtom a st).
  Hypothesis Hpipe : forall ts, Forall P ts -> P (LPipe ts).
  Fixpoint ltree_ind2 (t : ltree) : P t :=
    match t with
    | LAtom a st => Hatom a st
    | LPipe ts => Hpipe ts ((fix go (l : list ltree) : Forall P l :=
                               match l with [] => Forall_nil P | x :: r => Forall_cons x (ltree_ind2 x) (go r) end) ts)
    end.
End LtreeInd.

(* ---- str.replace('**', '') without fuel *)
Fixpoint rm2 (s : label) : label :=
  match s with
  | [] => []
  | c :: r => match r with
              | d :: r' => if is_c c "*" && is_c d "*" then rm2 r' else c :: rm2 r
              | [] => s
              end
  end.

Lemma rm_fuel_rm2 n s : (length s <= n)%nat -> rm_dstar_fuel n s = rm2 s.
Proof.
  revert s. induction n as [|n IH]; intros s Hl.
  - destruct s; [reflexivity|cbn in Hl; lia].
  - destruct s as [|c [|d r']]; cbn [rm_dstar_fuel rm2]; try reflexivity.
    cbn [length] in Hl. destruct (is_c c "*" && is_c d "*").
    + apply IH. lia.
    + f_equal. apply IH. cbn [length]. lia.
Qed.

Lemma rm_dstar_rm2 s : rm_dstar s = rm2 s.
Proof. apply rm_fuel_rm2. lia. Qed.

Lemma rm2_cons_nostar c s : Ascii.eqb c "*" = false -> rm2 (c :: s) = c :: rm2 s.
Proof. intros H. destruct s as [|d r]; cbn [rm2]; [reflexivity|]. unfold is_c. rewrite H. reflexivity. Qed.

Lemma rm2_atoms a s : forallb atom_char a = true -> rm2 (a ++ s) = a ++ rm2 s.
Proof.
  induction a as [|c a IH]; intros H; [reflexivity|].
  cbn [forallb] in H. apply andb_true_iff in H. destruct H as [H1 H2].
  destruct (atom_char_spec c H1) as [_ [_ [_ Hs]]].
  cbn [app]. rewrite rm2_cons_nostar by exact Hs. rewrite IH by exact H2. reflexivity.
Qed.

(* a continuation that does not begin with '*' *)
Definition nostar_head (s : label) : Prop := match s with [] => True | c :: _ => Ascii.eqb c "*" = false end.

Lemma rm2_star1 s : nostar_head s -> rm2 ("*" :: s) = "*" :: rm2 s.
Proof.
  destruct s as [|d r]; intros H; [reflexivity|]. cbn [nostar_head] in H.
  cbn [rm2]. unfold is_c. rewrite H. cbn [Ascii.eqb Bool.eqb andb]. reflexivity.
Qed.

Lemma rm2_star2 s : rm2 ("*" :: "*" :: s) = rm2 s.
Proof. reflexivity. Qed.

(* ---- step 1 of the algorithm: the string with '*' appended to every atom *)
Fixpoint render1 (t : ltree) : label :=
  match t with
  | LAtom a st => a ++ (if st then ["*"; "*"] else ["*"])
  | LPipe ts => combine_labels (map render1 ts)
  end.

Definition sep_char (c : ascii) : Prop := c = "." \/ c = ")".

Lemma last_indep {A} (l : list A) d d' : l <> [] -> last l d = last l d'.
Proof.
  induction l as [|x l IH]; intros H; [contradiction|]. destruct l as [|y l']; [reflexivity|].
  change (last (y :: l') d = last (y :: l') d'). apply IH. discriminate.
Qed.

Lemma star_atoms_atomchars p a s : forallb atom_char a = true -> star_atoms p (a ++ s) = a ++ star_atoms (last a p) s.
Proof.
  revert p. induction a as [|c a IH]; intros p H; [reflexivity|].
  cbn [forallb] in H. apply andb_true_iff in H. destruct H as [H1 H2].
  destruct (atom_char_spec c H1) as [_ [Hb [Hc _]]].
  cbn [app star_atoms]. rewrite Hb, Hc. cbn [orb andb]. rewrite IH by exact H2.
  destruct a as [|c2 a']; [reflexivity|].
  rewrite (last_indep (c2 :: a') c p) by discriminate. reflexivity.
Qed.

Lemma last_atoms_noclose a p : a <> [] -> forallb atom_char a = true -> Ascii.eqb (last a p) ")" = false.
Proof.
  intros Hne H. apply last_plain; [exact Hne|]. apply atoms_plain. exact H.
Qed.

Lemma twf_atom a st : twf (LAtom a st) = true -> a <> [] /\ forallb atom_char a = true.
Proof.
  cbn [twf]. intros H. apply andb_true_iff in H. destruct H as [H1 H2]. split; [|exact H2].
  intros ->. discriminate H1.
Qed.

Lemma twf_pipe ts : twf (LPipe ts) = true -> ts <> [] /\ Forall (fun t => twf t = true) ts.
Proof.
  cbn [twf]. intros H. apply andb_true_iff in H. destruct H as [H1 H2]. split.
  - intros ->. discriminate H1.
  - apply Forall_forall. apply forallb_forall. exact H2.
Qed.

(* star_atoms over a whole label followed by a separator: the '*' of the last atom is inserted when the separator is read *)
Lemma star_atoms_tree t : twf t = true -> forall p c rest, sep_char c ->
  star_atoms p (render t ++ c :: rest) = render1 t ++ c :: star_atoms c rest.
Proof.
  induction t as [a st|ts IH] using ltree_ind2; intros Hwf p c rest Hc.
  - destruct (twf_atom a st Hwf) as [Hne Ha]. cbn [render render1].
    assert (Hsep : (Ascii.eqb c "." || Ascii.eqb c ")") = true).
    { destruct Hc as [->| ->]; reflexivity. }
    rewrite <- !app_assoc. rewrite star_atoms_atomchars by exact Ha.
    pose proof (last_atoms_noclose a p Hne Ha) as Hl.
    destruct st; cbn [app star_atoms Ascii.eqb Bool.eqb orb andb negb].
    + rewrite Hsep. cbn [andb]. reflexivity.
    + rewrite Hsep, Hl. cbn [andb negb]. reflexivity.
  - destruct (twf_pipe ts Hwf) as [Hne HF]. cbn [render render1]. unfold combine_labels.
    cbn [app star_atoms Ascii.eqb Bool.eqb orb andb]. f_equal.
    rewrite <- !app_assoc. cbn [app].
    (* the body of the pipe, for any previous character *)
    assert (Hbody : forall q, star_atoms q (join (map render ts) ++ ")" :: c :: rest)
                              = join (map render1 ts) ++ ")" :: c :: star_atoms c rest).
    { clear Hwf. induction ts as [|t ts' IHts]; [contradiction|].
      inversion IH as [|x y IHt IHts']; subst. inversion HF as [|x y Ht Hts']; subst. intros q.
      destruct ts' as [|t2 ts''].
      - cbn [map join]. rewrite (IHt Ht q ")" (c :: rest)) by (right; reflexivity). f_equal. f_equal.
        cbn [star_atoms]. assert (Hsep : (Ascii.eqb c "." || Ascii.eqb c ")") = true).
        { destruct Hc as [->| ->]; reflexivity. }
        rewrite Hsep. cbn [Ascii.eqb Bool.eqb negb andb]. reflexivity.
      - change (join (map render (t :: t2 :: ts''))) with (render t ++ "." :: join (map render (t2 :: ts''))).
        change (join (map render1 (t :: t2 :: ts''))) with (render1 t ++ "." :: join (map render1 (t2 :: ts''))).
        rewrite <- !app_assoc. cbn [app].
        rewrite (IHt Ht q "." _) by (left; reflexivity). f_equal. f_equal.
        apply IHts; try assumption; discriminate. }
    apply Hbody.
Qed.

(* step 3: removing '**' from the starred string gives the structurally conjugated label *)
Lemma rm2_tree t : twf t = true -> forall rest, nostar_head rest -> rm2 (render1 t ++ rest) = render (tconj t) ++ rm2 rest.
Proof.
  induction t as [a st|ts IH] using ltree_ind2; intros Hwf rest Hr.
  - destruct (twf_atom a st Hwf) as [Hne Ha]. cbn [render1 tconj render].
    rewrite <- !app_assoc. rewrite rm2_atoms by exact Ha. f_equal.
    destruct st; cbn [negb app].
    + apply rm2_star2.
    + apply rm2_star1. exact Hr.
  - destruct (twf_pipe ts Hwf) as [Hne HF]. cbn [render1 tconj render]. unfold combine_labels.
    cbn [app]. rewrite rm2_cons_nostar by reflexivity. f_equal.
    rewrite <- !app_assoc. cbn [app].
    clear Hwf. induction ts as [|t ts' IHts]; [contradiction|].
    inversion IH as [|x y IHt IHts']; subst. inversion HF as [|x y Ht Hts']; subst.
    destruct ts' as [|t2 ts''].
    + cbn [map join]. rewrite (IHt Ht) by reflexivity. f_equal. apply rm2_cons_nostar. reflexivity.
    + change (join (map render1 (t :: t2 :: ts''))) with (render1 t ++ "." :: join (map render1 (t2 :: ts''))).
      change (map render (map tconj (t :: t2 :: ts''))) with (render (tconj t) :: map render (map tconj (t2 :: ts''))).
      change (join (render (tconj t) :: map render (map tconj (t2 :: ts''))))
        with (render (tconj t) ++ "." :: join (map render (map tconj (t2 :: ts'')))).
      rewrite <- !app_assoc. cbn [app]. rewrite (IHt Ht) by reflexivity. f_equal.
      rewrite rm2_cons_nostar by reflexivity. f_equal.
      apply IHts; try assumption; discriminate.
Qed.

Lemma last_app_single {A} (s : list A) x d : last (s ++ [x]) d = x.
Proof. induction s as [|c s IH]; [reflexivity|]. cbn [app]. destruct (s ++ [x]) eqn:E; [destruct s; discriminate|exact IH]. Qed.

(* ---- the code's algorithm computes the structural conjugation *)
Theorem conj_label_tree t : twf t = true -> conj_label (render t) = render (tconj t).
Proof.
  intros Hwf. destruct t as [a st|ts].
  - destruct (twf_atom a st Hwf) as [Hne Ha]. destruct (conj_label_atom a Hne Ha) as [H1 H2].
    destruct st; cbn [render tconj negb]; rewrite ?app_nil_r; assumption.
  - pose proof (star_atoms_tree (LPipe ts) Hwf) as Hs. pose proof (rm2_tree (LPipe ts) Hwf [] I) as Hr.
    destruct (twf_pipe ts Hwf) as [Hne HF].
    (* redo the top level by hand: the outermost ')' is the end of the string *)
    cbn [render]. unfold combine_labels, conj_label.
    assert (Hbody : star_atoms "(" (join (map render ts) ++ [")"]) = join (map render1 ts) ++ [")"]).
    { clear Hs Hr Hwf. revert HF Hne. generalize "("%char as q. induction ts as [|t ts' IHts]; intros q HF Hne; [contradiction|].
      inversion HF as [|x y Ht Hts']; subst. destruct ts' as [|t2 ts''].
      - cbn [map join]. rewrite (star_atoms_tree t Ht q ")" []) by (right; reflexivity). reflexivity.
      - change (join (map render (t :: t2 :: ts''))) with (render t ++ "." :: join (map render (t2 :: ts''))).
        change (join (map render1 (t :: t2 :: ts''))) with (render1 t ++ "." :: join (map render1 (t2 :: ts''))).
        rewrite <- !app_assoc. cbn [app]. rewrite (star_atoms_tree t Ht q "." _) by (left; reflexivity).
        f_equal. f_equal. apply IHts; try assumption; discriminate. }
    rewrite Hbody.
    change ("(" :: join (map render1 ts) ++ [")"]) with (("(" :: join (map render1 ts)) ++ [")"]).
    rewrite last_app_single. cbn [Ascii.eqb Bool.eqb].
    rewrite rm_dstar_rm2. cbn [render1 tconj render] in Hr. unfold combine_labels in Hr.
    rewrite !app_nil_r in Hr. exact Hr.
Qed.

Lemma tconj_invol t : tconj (tconj t) = t.
Proof.
  induction t as [a st|ts IH] using ltree_ind2; cbn [tconj].
  - rewrite negb_involutive. reflexivity.
  - f_equal. rewrite map_map. rewrite <- (map_id ts) at 2. apply map_ext_in. intros t Ht.
    rewrite Forall_forall in IH. apply IH. exact Ht.
Qed.

Lemma twf_tconj t : twf t = true -> twf (tconj t) = true.
Proof.
  induction t as [a st|ts IH] using ltree_ind2; cbn [tconj twf]; intros H; [exact H|].
  apply andb_true_iff in H. destruct H as [H1 H2]. rewrite map_length, H1. cbn [andb].
  rewrite forallb_forall in *. intros t Ht. apply in_map_iff in Ht. destruct Ht as [t0 [<- Ht0]].
  rewrite Forall_forall in IH. apply IH; [exact Ht0|]. apply H2. exact Ht0.
Qed.

Theorem conj_label_involutive t : twf t = true ->
  conj_label (render t) = render (tconj t) /\ twf (tconj t) = true /\ conj_label (conj_label (render t)) = render t.
Proof.
  intros H. split; [apply conj_label_tree; exact H|]. split; [apply twf_tconj; exact H|].
  rewrite (conj_label_tree t H), (conj_label_tree (tconj t) (twf_tconj t H)), tconj_invol. reflexivity.
Qed.

(* rendered trees are labels in the sense of Model/Labels.wf_label (balanced parentheses, '.' only inside) *)
Lemma scan_atoms a d : forallb atom_char a = true -> scan a d = Some d.
Proof.
  revert d. induction a as [|c a IH]; intros d H; [reflexivity|].
  cbn [forallb] in H. apply andb_true_iff in H. destruct H as [H1 H2].
  destruct (atom_char_spec c H1) as [Ha [Hb [Hc _]]]. cbn [scan]. rewrite Ha, Hb, Hc. apply IH. exact H2.
Qed.

Lemma scan_app w1 w2 d d1 : scan w1 d = Some d1 -> scan (w1 ++ w2) d = scan w2 d1.
Proof.
  revert d. induction w1 as [|c w IH]; intros d H; cbn [scan app] in *.
  - injection H as <-. reflexivity.
  - destruct (Ascii.eqb c "("); [apply IH; exact H|].
    destruct (Ascii.eqb c ")"); [destruct d; [discriminate|apply IH; exact H]|].
    destruct (Ascii.eqb c "."); [destruct d; [discriminate|apply IH; exact H]|]. apply IH. exact H.
Qed.

Lemma scan_render t : twf t = true -> forall d, scan (render t) d = Some d.
Proof.
  induction t as [a st|ts IH] using ltree_ind2; intros Hwf d.
  - destruct (twf_atom a st Hwf) as [_ Ha]. cbn [render]. rewrite (scan_app a _ d d (scan_atoms a d Ha)).
    destruct st; reflexivity.
  - destruct (twf_pipe ts Hwf) as [Hne HF]. cbn [render]. unfold combine_labels.
    cbn [scan Ascii.eqb Bool.eqb]. clear Hwf.
    induction ts as [|t ts' IHts]; [contradiction|].
    inversion IH as [|x y IHt IHts']; subst. inversion HF as [|x y Ht Hts']; subst.
    destruct ts' as [|t2 ts''].
    + cbn [map join]. rewrite (scan_app _ _ _ _ (IHt Ht (S d))). reflexivity.
    + change (join (map render (t :: t2 :: ts''))) with (render t ++ "." :: join (map render (t2 :: ts''))).
      rewrite <- app_assoc. rewrite (scan_app _ _ _ _ (IHt Ht (S d))). cbn [app scan Ascii.eqb Bool.eqb].
      apply IHts; try assumption; discriminate.
Qed.

Lemma render_wf_label t : twf t = true -> wf_label (render t).
Proof.
  intros H. split; [apply scan_render; exact H|]. destruct t as [a st|ts].
  - destruct (twf_atom a st H) as [Hne _]. cbn [render]. destruct a; [contradiction|discriminate].
  - cbn [render]. unfold combine_labels. discriminate.
Qed.
