(* Proofs about the block merge of iadd_prefactor_other (Model/KernelsPyCy2.v, part (d)). *)
From TenpyV Require Import Base.Prelude Model.KernelsPyCy Model.KernelsPyCy2 Proofs.KernelsPyCyP.
Open Scope Z_scope.

Lemma map_nth_seq {A} (d : A) l : map (fun k => nth k l d) (seq 0 (length l)) = l.
Proof.
  induction l as [|x l IH]; [reflexivity|]. cbn [length seq map nth]. f_equal.
  rewrite <- seq_shift, map_map. exact IH.
Qed.

Lemma copy_row_id rank row : length row = rank -> copy_row rank row = row.
Proof. intros <-. unfold copy_row, nthZ. apply map_nth_seq. Qed.

Lemma set_row_app (done rest : list (list Z)) row :
  set_row (done ++ rest) (length done) row = (done ++ [row]) ++ tl rest.
Proof.
  unfold set_row. rewrite firstn_app_len. rewrite <- app_assoc. f_equal. cbn [app]. f_equal.
  destruct rest as [|r rest]; cbn [tl].
  - rewrite app_nil_r. apply skipn_all2. lia.
  - replace (done ++ r :: rest) with ((done ++ [r]) ++ rest) by (rewrite <- app_assoc; reflexivity).
    replace (S (length done)) with (length (done ++ [r])) by (rewrite app_length; cbn [length]; lia).
    apply skipn_app_len.
Qed.

Lemma row_len rank (q : list (list Z)) i :
  Forall (fun r => length r = rank) q -> (i < length q)%nat -> length (rowZ q i) = rank.
Proof. intros HF Hi. rewrite Forall_forall in HF. apply HF. unfold rowZ. apply nth_In. exact Hi. Qed.

(* ---- the compiled loop (preallocated table + row counter) computes what the python loop (append) computes *)
Lemma merge_cy_py rank ak bk aq bq :
  Forall (fun r => length r = rank) aq -> Forall (fun r => length r = rank) bq ->
  forall fuel i j done rest data,
    merge_cy fuel rank ak bk aq bq i j (done ++ rest) (length done) data
    = merge_py fuel ak bk aq bq i j done data.
Proof.
  intros Ha Hb. induction fuel as [|f IH]; intros i j done rest data.
  - cbn [merge_cy merge_py]. destruct ((i <? length aq)%nat || (j <? length bq)%nat); [reflexivity|].
    rewrite firstn_app_len. reflexivity.
  - cbn [merge_cy merge_py].
    destruct ((i <? length aq)%nat || (j <? length bq)%nat) eqn:E0;
      [|rewrite firstn_app_len; reflexivity].
    destruct ((i <? length aq)%nat && (j <? length bq)%nat && (nthZ ak i =? nthZ bk j)) eqn:E1.
    { rewrite copy_row_id by (apply row_len; [exact Ha|lia]).
      rewrite set_row_app.
      replace (S (length done)) with (length (done ++ [rowZ aq i])) by (rewrite app_length; cbn [length]; lia).
      apply IH. }
    destruct ((length aq <=? i)%nat || ((j <? length bq)%nat && (nthZ ak i >? nthZ bk j))) eqn:E2.
    { rewrite copy_row_id by (apply row_len; [exact Hb|lia]).
      rewrite set_row_app.
      replace (S (length done)) with (length (done ++ [rowZ bq j])) by (rewrite app_length; cbn [length]; lia).
      apply IH. }
    destruct ((length bq <=? j)%nat || (nthZ ak i <? nthZ bk j)) eqn:E3; [|reflexivity].
    rewrite copy_row_id by (apply row_len; [exact Ha|lia]).
    rewrite set_row_app.
    replace (S (length done)) with (length (done ++ [rowZ aq i])) by (rewrite app_length; cbn [length]; lia).
    apply IH.
Qed.

Lemma iadd_merge_eq junk rank stride aq bq :
  Forall (fun r => length r = rank) aq -> Forall (fun r => length r = rank) bq ->
  iadd_merge_cy junk rank stride aq bq = iadd_merge_py stride aq bq.
Proof.
  intros Ha Hb. unfold iadd_merge_cy, iadd_merge_py. destruct (same_qdata aq bq); [reflexivity|].
  exact (merge_cy_py rank _ _ aq bq Ha Hb _ 0%nat 0%nat [] _ []).
Qed.

(* ---- the F-strided key is the mixed-radix number of the row: it orders like np.lexsort *)
Lemma fkey_nil_l stride : fkey stride [] = 0.
Proof. reflexivity. Qed.

Lemma fkey_cons s st x r : fkey (s :: st) (x :: r) = x * s + fkey st r.
Proof. reflexivity. Qed.

Lemma fkey_scale : forall shape s row,
  fkey (fstr_from s shape) row = s * fkey (fstr_from 1 shape) row.
Proof.
  induction shape as [|n t IH]; intros s row.
  - destruct row; cbn [fstr_from]; unfold fkey; cbn [row_map2 sumZ]; lia.
  - destruct row as [|x r]; cbn [fstr_from].
    + unfold fkey; cbn [row_map2 sumZ]; lia.
    + rewrite !fkey_cons. rewrite (IH (s * n)), (IH (1 * n)). lia.
Qed.

Lemma fkey_step n t x r : fkey (fstrides (n :: t)) (x :: r) = x + n * fkey (fstrides t) r.
Proof.
  unfold fstrides. cbn [fstr_from]. rewrite fkey_cons, (fkey_scale t (1 * n)). lia.
Qed.

Lemma fkey_nonneg : forall shape row, in_bounds shape row -> 0 <= fkey (fstrides shape) row.
Proof.
  induction shape as [|n t IH]; intros [|x r] H; cbn [in_bounds] in H; try contradiction.
  - unfold fkey; cbn; lia.
  - destruct H as [Hx Hr]. rewrite fkey_step. specialize (IH r Hr). nia.
Qed.

Lemma fkey_inj : forall shape r1 r2, in_bounds shape r1 -> in_bounds shape r2 ->
  fkey (fstrides shape) r1 = fkey (fstrides shape) r2 -> r1 = r2.
Proof.
  induction shape as [|n t IH]; intros [|x r1] [|y r2] H1 H2 E; cbn [in_bounds] in H1, H2; try contradiction.
  - reflexivity.
  - destruct H1 as [Hx H1], H2 as [Hy H2]. rewrite !fkey_step in E.
    assert (Ek : fkey (fstrides t) r1 = fkey (fstrides t) r2) by nia.
    rewrite (IH r1 r2 H1 H2 Ek). f_equal. nia.
Qed.

Lemma fkey_lt_iff : forall shape r1 r2, in_bounds shape r1 -> in_bounds shape r2 ->
  (fkey (fstrides shape) r1 < fkey (fstrides shape) r2 <-> lexlt r1 r2).
Proof.
  induction shape as [|n t IH]; intros [|x r1] [|y r2] H1 H2; cbn [in_bounds] in H1, H2; try contradiction.
  - cbn [lexlt]. unfold fkey; cbn. lia.
  - destruct H1 as [Hx H1], H2 as [Hy H2]. rewrite !fkey_step. cbn [lexlt].
    specialize (IH r1 r2 H1 H2). split.
    + intros Hlt.
      destruct (Z.lt_trichotomy (fkey (fstrides t) r1) (fkey (fstrides t) r2)) as [L|[E|G]].
      * left. apply IH. exact L.
      * right. split; [exact (fkey_inj t r1 r2 H1 H2 E)|nia].
      * exfalso. nia.
    + intros [L|[E L]].
      * apply IH in L. nia.
      * subst r2. lia.
Qed.

Lemma lexsorted_keys shape : forall q, Forall (in_bounds shape) q -> lexsorted q ->
  strictly_inc (fkeys (fstrides shape) q).
Proof.
  induction q as [|r1 q IH]; intros HF HS; [exact I|].
  destruct q as [|r2 q]; [exact I|].
  inversion HF as [|? ? H1 HF']; subst. inversion HF' as [|? ? H2 _]; subst.
  destruct HS as [L HS]. cbn [fkeys map strictly_inc]. split.
  - apply fkey_lt_iff; assumption.
  - apply (IH HF' HS).
Qed.

Lemma keys_lexsorted shape : forall q, Forall (in_bounds shape) q ->
  strictly_inc (fkeys (fstrides shape) q) -> lexsorted q.
Proof.
  induction q as [|r1 q IH]; intros HF HS; [exact I|].
  destruct q as [|r2 q]; [exact I|].
  inversion HF as [|? ? H1 HF']; subst. inversion HF' as [|? ? H2 _]; subst.
  cbn [fkeys map strictly_inc] in HS. destruct HS as [L HS]. split.
  - apply (fkey_lt_iff shape); assumption.
  - apply (IH HF' HS).
Qed.

(* ---- strictly increasing lists *)
Lemma strictly_inc_tl x l : strictly_inc (x :: l) -> strictly_inc l.
Proof. destruct l; [intros; exact I|intros [_ H]; exact H]. Qed.

Lemma strictly_inc_nth : forall l i j, strictly_inc l -> (i < j)%nat -> (j < length l)%nat ->
  nthZ l i < nthZ l j.
Proof.
  unfold nthZ. induction l as [|x l IH]; intros i j HS Hij Hj; cbn [length] in Hj; [lia|].
  destruct j as [|j]; [lia|]. destruct i as [|i].
  - cbn [nth]. clear Hij. revert x j HS Hj IH. induction l as [|y l IHl]; intros x j HS Hj IH; cbn [length] in Hj; [lia|].
    destruct HS as [Hxy HS]. destruct j as [|j]; cbn [nth]; [exact Hxy|].
    assert (y < nth j l 0).
    { apply (IHl y j HS); [lia|]. intros i' j' HS' Hij' Hj'.
      apply (IH (S i') (S j')); [exact HS|lia|cbn [length]; lia]. }
    lia.
  - cbn [nth]. apply IH; [exact (strictly_inc_tl _ _ HS)|lia|lia].
Qed.

Lemma strictly_inc_cons_lb x l : Forall (fun k => x + 1 <= k) l -> strictly_inc l -> strictly_inc (x :: l).
Proof.
  intros HF HS. destruct l as [|y l]; [exact I|]. inversion HF; subst. split; [lia|exact HS].
Qed.

Lemma strictly_inc_NoDup : forall l, strictly_inc l -> NoDup l.
Proof.
  intros l HS. apply NoDup_nth with (d := 0). intros i j Hi Hj E.
  destruct (Nat.lt_trichotomy i j) as [L|[L|L]]; [|exact L|].
  - pose proof (strictly_inc_nth l i j HS L Hj) as H. unfold nthZ in H. lia.
  - pose proof (strictly_inc_nth l j i HS L Hi) as H. unfold nthZ in H. lia.
Qed.

(* ---- the python loop: totality and specification *)
Section MergeSpec.
  Variables (ak bk : list Z) (aq bq : list (list Z)).
  Hypothesis Hla : length ak = length aq.
  Hypothesis Hlb : length bk = length bq.
  Hypothesis Hsa : strictly_inc ak.
  Hypothesis Hsb : strictly_inc bk.

  Lemma merge_py_spec : forall fuel i j lb qd dt,
    (length aq - i + (length bq - j) <= fuel)%nat -> (i <= length aq)%nat -> (j <= length bq)%nat ->
    ((i < length aq)%nat -> lb <= nthZ ak i) -> ((j < length bq)%nat -> lb <= nthZ bk j) ->
    exists q w, merge_py fuel ak bk aq bq i j qd dt = Some (qd ++ q, dt ++ w)
      /\ a_indices w = seq i (length aq - i) /\ b_indices w = seq j (length bq - j)
      /\ Forall2 (tag_ok ak bk aq bq) q w
      /\ strictly_inc (map (key_of ak bk) w) /\ Forall (fun k => lb <= k) (map (key_of ak bk) w).
  Proof.
    induction fuel as [|f IH]; intros i j lb qd dt Hf Hi Hj Hlba Hlbb.
    - exists [], []. cbn [merge_py].
      replace ((i <? length aq)%nat || (j <? length bq)%nat) with false by lia.
      rewrite !app_nil_r. replace (length aq - i)%nat with 0%nat by lia.
      replace (length bq - j)%nat with 0%nat by lia. cbn. repeat split; constructor.
    - cbn [merge_py].
      destruct ((i <? length aq)%nat || (j <? length bq)%nat) eqn:E0.
      2:{ exists [], []. rewrite !app_nil_r. replace (length aq - i)%nat with 0%nat by lia.
          replace (length bq - j)%nat with 0%nat by lia. cbn. repeat split; constructor. }
      destruct ((i <? length aq)%nat && (j <? length bq)%nat && (nthZ ak i =? nthZ bk j)) eqn:E1.
      { (* both *)
        assert (Hi' : (i < length aq)%nat) by lia. assert (Hj' : (j < length bq)%nat) by lia.
        assert (Ek : nthZ ak i = nthZ bk j) by lia.
        destruct (IH (S i) (S j) (nthZ ak i + 1) (qd ++ [rowZ aq i]) (dt ++ [Both i j]))
          as (q & w & Hm & Hai & Hbi & Hok & Hinc & Hlb'); try lia.
        { intros H. pose proof (strictly_inc_nth ak i (S i) Hsa) as X. lia. }
        { intros H. pose proof (strictly_inc_nth bk j (S j) Hsb) as X. lia. }
        exists (rowZ aq i :: q), (Both i j :: w). rewrite Hm, <- !app_assoc. cbn [app].
        split; [reflexivity|]. unfold a_indices, b_indices in *. cbn [flat_map app].
        rewrite Hai, Hbi.
        replace (length aq - i)%nat with (S (length aq - S i)) by lia.
        replace (length bq - j)%nat with (S (length bq - S j)) by lia. cbn [seq].
        repeat split.
        - constructor; [split; [reflexivity|exact Ek]|exact Hok].
        - cbn [map key_of]. apply strictly_inc_cons_lb; assumption.
        - cbn [map key_of]. constructor; [specialize (Hlba Hi'); lia|].
          eapply Forall_impl; [|exact Hlb']. cbn beta. intros k Hk. specialize (Hlba Hi'). lia. }
      destruct ((length aq <=? i)%nat || ((j <? length bq)%nat && (nthZ ak i >? nthZ bk j))) eqn:E2.
      { (* only b *)
        assert (Hj' : (j < length bq)%nat) by lia.
        destruct (IH i (S j) (nthZ bk j + 1) (qd ++ [rowZ bq j]) (dt ++ [OnlyB j]))
          as (q & w & Hm & Hai & Hbi & Hok & Hinc & Hlb'); try lia.
        { intros H. pose proof (strictly_inc_nth bk j (S j) Hsb) as X. lia. }
        exists (rowZ bq j :: q), (OnlyB j :: w). rewrite Hm, <- !app_assoc. cbn [app].
        split; [reflexivity|]. unfold a_indices, b_indices in *. cbn [flat_map app].
        rewrite Hai, Hbi.
        replace (length bq - j)%nat with (S (length bq - S j)) by lia. cbn [seq].
        repeat split.
        - constructor; [reflexivity|exact Hok].
        - cbn [map key_of]. apply strictly_inc_cons_lb; assumption.
        - cbn [map key_of]. constructor; [specialize (Hlbb Hj'); lia|].
          eapply Forall_impl; [|exact Hlb']. cbn beta. intros k Hk. specialize (Hlbb Hj'). lia. }
      destruct ((length bq <=? j)%nat || (nthZ ak i <? nthZ bk j)) eqn:E3.
      2:{ exfalso. lia. }
      { (* only a *)
        assert (Hi' : (i < length aq)%nat) by lia.
        destruct (IH (S i) j (nthZ ak i + 1) (qd ++ [rowZ aq i]) (dt ++ [OnlyA i]))
          as (q & w & Hm & Hai & Hbi & Hok & Hinc & Hlb'); try lia.
        { intros H. pose proof (strictly_inc_nth ak i (S i) Hsa) as X. lia. }
        exists (rowZ aq i :: q), (OnlyA i :: w). rewrite Hm, <- !app_assoc. cbn [app].
        split; [reflexivity|]. unfold a_indices, b_indices in *. cbn [flat_map app].
        rewrite Hai, Hbi.
        replace (length aq - i)%nat with (S (length aq - S i)) by lia. cbn [seq].
        repeat split.
        - constructor; [reflexivity|exact Hok].
        - cbn [map key_of]. apply strictly_inc_cons_lb; assumption.
        - cbn [map key_of]. constructor; [specialize (Hlba Hi'); lia|].
          eapply Forall_impl; [|exact Hlb']. cbn beta. intros k Hk. specialize (Hlba Hi'). lia. }
  Qed.
End MergeSpec.

(* the loop never reaches `assert False` and never runs out of the Na+Nb iterations, sorted or not *)
Lemma merge_py_total ak bk aq bq : forall fuel i j qd dt,
  (length aq - i + (length bq - j) <= fuel)%nat ->
  merge_py fuel ak bk aq bq i j qd dt <> None.
Proof.
  induction fuel as [|f IH]; intros i j qd dt Hf; cbn [merge_py].
  - replace ((i <? length aq)%nat || (j <? length bq)%nat) with false by lia. discriminate.
  - destruct ((i <? length aq)%nat || (j <? length bq)%nat) eqn:E0; [|discriminate].
    destruct ((i <? length aq)%nat && (j <? length bq)%nat && (nthZ ak i =? nthZ bk j)) eqn:E1;
      [apply IH; lia|].
    destruct ((length aq <=? i)%nat || ((j <? length bq)%nat && (nthZ ak i >? nthZ bk j))) eqn:E2;
      [apply IH; lia|].
    destruct ((length bq <=? j)%nat || (nthZ ak i <? nthZ bk j)) eqn:E3; [apply IH; lia|].
    exfalso. lia.
Qed.

Lemma iadd_merge_total stride aq bq : iadd_merge_py stride aq bq <> None.
Proof.
  unfold iadd_merge_py. destruct (same_qdata aq bq); [discriminate|]. apply merge_py_total. lia.
Qed.

Lemma fkeys_nth stride q i : (i < length q)%nat -> nthZ (fkeys stride q) i = fkey stride (rowZ q i).
Proof.
  intros Hi. unfold nthZ, fkeys, rowZ.
  rewrite (nth_indep _ 0 (fkey stride [])) by (rewrite map_length; exact Hi). apply map_nth.
Qed.

Lemma In_seq_flat_a w i : In i (a_indices w) ->
  exists t, In t w /\ (match t with Both i' _ => i' = i | OnlyA i' => i' = i | OnlyB _ => False end).
Proof.
  unfold a_indices. rewrite in_flat_map. intros (t & Ht & Hi). exists t. split; [exact Ht|].
  destruct t; cbn in Hi; intuition.
Qed.

Lemma llz_eqb_true a b : llz_eqb a b = true -> a = b.
Proof. unfold llz_eqb. destruct (list_eq_dec _ a b); [auto|discriminate]. Qed.

Lemma Forall2_seq_both (aq : list (list Z)) : forall k (l : list (list Z)),
  (forall i, (i < length l)%nat -> nth i l [] = rowZ aq (k + i)) ->
  Forall2 (row_ok aq aq) l (map (fun i => Both i i) (seq k (length l))).
Proof.
  intros k l. revert k. induction l as [|r l IH]; intros k H; cbn [length seq map]; constructor.
  - specialize (H 0%nat). cbn [length nth] in H. rewrite Nat.add_0_r in H. split; apply H; lia.
  - apply IH. intros i Hi. specialize (H (S i)). cbn [length nth] in H.
    replace (S k + i)%nat with (k + S i)%nat by lia. apply H. lia.
Qed.

Lemma a_indices_both k n : a_indices (map (fun i => Both i i) (seq k n)) = seq k n.
Proof. revert k. induction n as [|n IH]; intros k; cbn; [reflexivity|]. f_equal. apply IH. Qed.
Lemma b_indices_both k n : b_indices (map (fun i => Both i i) (seq k n)) = seq k n.
Proof. revert k. induction n as [|n IH]; intros k; cbn; [reflexivity|]. f_equal. apply IH. Qed.

(* tags only name rows that exist *)
Lemma tags_in_range (w : list which) na nb :
  a_indices w = seq 0 na -> b_indices w = seq 0 nb ->
  Forall (fun t => match t with Both i j => (i < na)%nat /\ (j < nb)%nat
                           | OnlyA i => (i < na)%nat | OnlyB j => (j < nb)%nat end) w.
Proof.
  intros Ha Hb. apply Forall_forall. intros t Ht.
  assert (A : forall i, In i (a_indices w) -> (i < na)%nat) by (intros i; rewrite Ha, in_seq; lia).
  assert (B : forall j, In j (b_indices w) -> (j < nb)%nat) by (intros j; rewrite Hb, in_seq; lia).
  unfold a_indices in A. unfold b_indices in B.
  destruct t as [i j|i|j].
  - split; [apply A|apply B]; apply in_flat_map; exists (Both i j); (split; [exact Ht|left; reflexivity]).
  - apply A, in_flat_map. exists (OnlyA i). split; [exact Ht|left; reflexivity].
  - apply B, in_flat_map. exists (OnlyB j). split; [exact Ht|left; reflexivity].
Qed.

(* ---- specification of the whole kernel on two lexsorted tables *)
Lemma iadd_merge_spec shape aq bq :
  Forall (in_bounds shape) aq -> Forall (in_bounds shape) bq -> lexsorted aq -> lexsorted bq ->
  exists q w, iadd_merge_py (fstrides shape) aq bq = Some (q, w)
    /\ a_indices w = seq 0 (length aq) /\ b_indices w = seq 0 (length bq)
    /\ Forall2 (row_ok aq bq) q w
    /\ Forall (in_bounds shape) q /\ lexsorted q /\ NoDup q.
Proof.
  intros Ha Hb Sa Sb. unfold iadd_merge_py. destruct (same_qdata aq bq) eqn:Esame.
  - unfold same_qdata in Esame. apply andb_prop in Esame. destruct Esame as [_ E].
    apply llz_eqb_true in E. subst bq. exists aq, (map (fun i => Both i i) (seq 0 (length aq))).
    split; [reflexivity|]. rewrite a_indices_both, b_indices_both. repeat split; try assumption.
    + apply Forall2_seq_both. intros i _. reflexivity.
    + pose proof (strictly_inc_NoDup _ (lexsorted_keys shape aq Ha Sa)) as ND.
      unfold fkeys in ND. exact (NoDup_map_inv _ _ ND).
  - set (ak := fkeys (fstrides shape) aq). set (bk := fkeys (fstrides shape) bq).
    assert (Hla : length ak = length aq) by (unfold ak, fkeys; apply map_length).
    assert (Hlb : length bk = length bq) by (unfold bk, fkeys; apply map_length).
    pose proof (lexsorted_keys shape aq Ha Sa) as Hsa. pose proof (lexsorted_keys shape bq Hb Sb) as Hsb.
    fold ak in Hsa. fold bk in Hsb.
    destruct (merge_py_spec ak bk aq bq Hla Hlb Hsa Hsb (length aq + length bq) 0 0
                (Z.min (nthZ ak 0) (nthZ bk 0)) [] [])
      as (q & w & Hm & Hai & Hbi & Hok & Hinc & _); try lia.
    rewrite !Nat.sub_0_r in *. cbn [app] in Hm. exists q, w. split; [exact Hm|].
    split; [exact Hai|]. split; [exact Hbi|].
    pose proof (tags_in_range w _ _ Hai Hbi) as Hrange.
    (* every output row is an in-bounds row whose key is the key named by the tag *)
    assert (Hrows : Forall2 (fun row t => row_ok aq bq row t /\ in_bounds shape row
                                          /\ fkey (fstrides shape) row = key_of ak bk t) q w).
    { clear Hm Hai Hbi Hinc. induction Hok as [|row t q' w' Hrt Hok IH]; [constructor|].
      inversion Hrange as [|? ? Ht Hrange']; subst. constructor; [|apply IH; exact Hrange'].
      rewrite Forall_forall in Ha, Hb.
      destruct t as [i j|i|j]; cbn [tag_ok row_ok key_of] in *.
      - destruct Hrt as [-> Ek]. destruct Ht as [Hi Hj].
        assert (Ia : in_bounds shape (rowZ aq i)) by (apply Ha, nth_In; exact Hi).
        assert (Ib : in_bounds shape (rowZ bq j)) by (apply Hb, nth_In; exact Hj).
        unfold ak, bk in Ek. rewrite !fkeys_nth in Ek by assumption.
        repeat split; [exact (fkey_inj shape _ _ Ia Ib Ek)|exact Ia|].
        unfold ak. rewrite fkeys_nth by assumption. reflexivity.
      - subst row. repeat split; [apply Ha, nth_In; exact Ht|].
        unfold ak. rewrite fkeys_nth by assumption. reflexivity.
      - subst row. repeat split; [apply Hb, nth_In; exact Ht|].
        unfold bk. rewrite fkeys_nth by assumption. reflexivity. }
    assert (Hq : Forall (in_bounds shape) q).
    { clear -Hrows. induction Hrows as [|? ? ? ? [_ [H _]] _ IH]; constructor; assumption. }
    assert (Hk : fkeys (fstrides shape) q = map (key_of ak bk) w).
    { clear -Hrows. induction Hrows as [|? ? ? ? [_ [_ H]] _ IH]; cbn [fkeys map]; [reflexivity|].
      rewrite H. f_equal. exact IH. }
    rewrite <- Hk in Hinc.
    split; [|split; [exact Hq|split]].
    + clear -Hrows. induction Hrows as [|? ? ? ? [H _] _ IH]; constructor; assumption.
    + exact (keys_lexsorted shape q Hq Hinc).
    + pose proof (strictly_inc_NoDup _ Hinc) as ND. unfold fkeys in ND. exact (NoDup_map_inv _ _ ND).
Qed.

(* without the sort the merge is wrong: a table that is not lexsorted (what `_qdata` is after a transposition,
   cf. the former defect of the compiled version that sorted BEFORE transposing) produces a duplicated row *)
Lemma iadd_merge_unsorted_dup :
  exists shape aq bq q w, Forall (in_bounds shape) aq /\ Forall (in_bounds shape) bq /\ lexsorted bq
    /\ iadd_merge_py (fstrides shape) aq bq = Some (q, w) /\ ~ NoDup q.
Proof.
  exists [2; 2], [[0; 1]; [1; 0]], [[1; 0]], [[1; 0]; [0; 1]; [1; 0]], [OnlyB 0%nat; OnlyA 0%nat; OnlyA 1%nat].
  split; [repeat constructor; cbn; lia|]. split; [repeat constructor; cbn; lia|].
  split; [exact I|]. split; [vm_compute; reflexivity|].
  intros ND. inversion ND as [|? ? Hn _]; subst. apply Hn. cbn. auto.
Qed.
