(* The concrete structure of Model/MpsDenoteCheck.v (dyadic tensors, diagonal powers of two) - the one that is
   executed against the implementation in the stream `valued` of harness/c07.py - satisfies, by Leibniz equality, the
   consequences of the abstract laws that T07_convert_preserves_denotation uses (C07, T07_valued_instance_invariant). *)
From TenpyV Require Import Base.Prelude Model.MpsIndex Model.MpsForm Model.MpsDenote Model.MpsDenoteCheck.
Open Scope Z_scope.

Definition rowR (d : list Z) (v : list dy) : list dy := map (fun ex => dy_shift (fst ex) (snd ex)) (combine d v).
Definition scaleL (d : list Z) (t : tens) : tens := map (fun er => map (map (dy_shift (fst er))) (snd er)) (combine d t).
Definition scaleR (d : list Z) (t : tens) : tens := map (map (rowR d)) t.
Definition pw (ks : list Z) (e : Z) : list Z := map (fun k => k * e) ks.

Lemma xmul_DT d t : xmul (XD d) (XT t) = XT (scaleL d t).
Proof. reflexivity. Qed.
Lemma xmul_TD d t : xmul (XT t) (XD d) = XT (scaleR d t).
Proof. reflexivity. Qed.

Lemma dy_shift_shift e1 e2 x : dy_shift e1 (dy_shift e2 x) = dy_shift (e2 + e1) x.
Proof. unfold dy_shift. cbn [fst snd]. f_equal. lia. Qed.
Lemma dy_shift_0 x : dy_shift 0 x = x.
Proof. destruct x as [m k]. unfold dy_shift. cbn [fst snd]. f_equal. lia. Qed.
Lemma dy_shift_comm e1 e2 x : dy_shift e1 (dy_shift e2 x) = dy_shift e2 (dy_shift e1 x).
Proof. unfold dy_shift. cbn [fst snd]. f_equal. lia. Qed.

Lemma map_ext_all {A B : Type} (f g : A -> B) l : (forall x, f x = g x) -> map f l = map g l.
Proof. intros H. induction l as [|a l IH]; cbn [map]; [reflexivity|]. rewrite H, IH. reflexivity. Qed.

(* ---- composition of scalings *)
Lemma scaleL_scaleL : forall ks e1 e2 t, scaleL (pw ks e1) (scaleL (pw ks e2) t) = scaleL (pw ks (e2 + e1)) t.
Proof.
  induction ks as [|k ks IH]; intros e1 e2 t; [reflexivity|].
  destruct t as [|row t]; [reflexivity|].
  unfold scaleL, pw in *. cbn [map combine fst snd]. f_equal.
  - rewrite map_map. apply map_ext_all. intros v. rewrite map_map. apply map_ext_all. intros x.
    rewrite dy_shift_shift. f_equal. lia.
  - apply IH.
Qed.

Lemma rowR_rowR : forall ks e1 e2 v, rowR (pw ks e1) (rowR (pw ks e2) v) = rowR (pw ks (e2 + e1)) v.
Proof.
  induction ks as [|k ks IH]; intros e1 e2 v; [reflexivity|].
  destruct v as [|x v]; [reflexivity|].
  unfold rowR, pw in *. cbn [map combine fst snd]. f_equal.
  - rewrite dy_shift_shift. f_equal. lia.
  - apply IH.
Qed.

Lemma scaleR_scaleR ks e1 e2 t : scaleR (pw ks e1) (scaleR (pw ks e2) t) = scaleR (pw ks (e2 + e1)) t.
Proof.
  unfold scaleR. rewrite map_map. apply map_ext_all. intros row. rewrite map_map. apply map_ext_all. intros v.
  apply rowR_rowR.
Qed.

Lemma rowR_shift : forall d e v, rowR d (map (dy_shift e) v) = map (dy_shift e) (rowR d v).
Proof.
  induction d as [|a d IH]; intros e v; [reflexivity|].
  destruct v as [|x v]; [reflexivity|].
  unfold rowR in *. cbn [map combine fst snd]. f_equal; [apply dy_shift_comm|apply IH].
Qed.

Lemma scaleL_scaleR_comm : forall d d' t, scaleL d (scaleR d' t) = scaleR d' (scaleL d t).
Proof.
  induction d as [|a d IH]; intros d' t; [reflexivity|].
  destruct t as [|row t]; [reflexivity|].
  unfold scaleL, scaleR in *. cbn [map combine fst snd]. f_equal.
  - rewrite !map_map. apply map_ext_all. intros v. symmetry. apply rowR_shift.
  - apply IH.
Qed.

(* ---- scaling by the exponent 0 is the identity on tensors that fit the bond *)
Lemma rowR_0 : forall ks v, (length v <= length ks)%nat -> rowR (pw ks 0) v = v.
Proof.
  induction ks as [|k ks IH]; intros v H.
  - destruct v; [reflexivity|cbn [length] in H; lia].
  - destruct v as [|x v]; [reflexivity|]. cbn [length] in H.
    unfold rowR, pw in *. cbn [map combine fst snd]. f_equal.
    + replace (k * 0) with 0 by lia. apply dy_shift_0.
    + apply IH. lia.
Qed.

Lemma scaleL_0 : forall ks t, (length t <= length ks)%nat -> scaleL (pw ks 0) t = t.
Proof.
  induction ks as [|k ks IH]; intros t H.
  - destruct t; [reflexivity|cbn [length] in H; lia].
  - destruct t as [|row t]; [reflexivity|]. cbn [length] in H.
    unfold scaleL, pw in *. cbn [map combine fst snd]. f_equal.
    + replace (k * 0) with 0 by lia.
      rewrite <- (map_id row) at 2. apply map_ext_all. intros v.
      rewrite <- (map_id v) at 2. apply map_ext_all. intros x. apply dy_shift_0.
    + apply IH. lia.
Qed.

Definition fits_cols (n : nat) (t : tens) : Prop := Forall (Forall (fun v : list dy => (length v <= n)%nat)) t.

Lemma scaleR_0 ks t : fits_cols (length ks) t -> scaleR (pw ks 0) t = t.
Proof.
  unfold scaleR, fits_cols. intros H. induction H as [|row t Hrow _ IH]; [reflexivity|].
  cbn [map]. f_equal; [|exact IH].
  induction Hrow as [|v row Hv _ IHr]; [reflexivity|]. cbn [map]. f_equal; [apply rowR_0; exact Hv|exact IHr].
Qed.

(* ---- the closed form of get_B on the instance *)
Definition ksof (svlog : list (list Z)) (b : Z) : list Z := nth (Z.to_nat b) svlog [].

Lemma vget_B_instance svlog bl br l a pd cl cr t g :
  vget_B xm xmul (xsv svlog) bl br (mkSite (Some l) a pd cl cr, XT t) (full g) =
  Some (XT (scaleR (pw (ksof svlog br) (snd g - snd l)) (scaleL (pw (ksof svlog bl) (fst g - fst l)) t))).
Proof. destruct l as [l1 l2]. reflexivity. Qed.

(* path independence: after converting a site to ANY form f, get_B(i, g) returns exactly the same tensor as before,
   for every g; and converting back to the original label restores the stored tensor exactly *)
Theorem valued_instance_invariant :
  forall (svlog : list (list Z)) (bl br : Z) (l a : form) (pd cl cr : Z) (t : tens) (f : form),
  exists s' : vsite xm,
    vconv xm xmul (xsv svlog) bl br (mkSite (Some l) a pd cl cr, XT t) f = Some s' /\
    lab (fst s') = Some f /\
    (forall g : form,
       vget_B xm xmul (xsv svlog) bl br s' (full g) =
       vget_B xm xmul (xsv svlog) bl br (mkSite (Some l) a pd cl cr, XT t) (full g)) /\
    ((length t <= length (ksof svlog bl))%nat -> fits_cols (length (ksof svlog br)) t ->
     exists s'' : vsite xm, vconv xm xmul (xsv svlog) bl br s' l = Some s'' /\ snd s'' = XT t /\ lab (fst s'') = Some l).
Proof.
  intros svlog bl br l a pd cl cr t f.
  unfold vconv at 1. rewrite vget_B_instance.
  destruct l as [l1 l2] eqn:El. cbn [get_B_act full lab fst snd scale1]. rewrite <- El.
  eexists. split; [reflexivity|]. cbn [fst snd lab]. split; [reflexivity|]. split.
  - intros g. rewrite !vget_B_instance. f_equal. f_equal.
    rewrite scaleL_scaleR_comm, scaleL_scaleL, scaleR_scaleR.
    subst l. cbn [fst snd].
    replace (fst f - l1 + (fst g - fst f)) with (fst g - l1) by lia.
    replace (snd f - l2 + (snd g - snd f)) with (snd g - l2) by lia. reflexivity.
  - intros HL HR. unfold vconv. rewrite vget_B_instance.
    destruct f as [f1 f2]. cbn [get_B_act full lab fst snd scale1 act pdim chiL chiR].
    eexists. split; [reflexivity|]. cbn [fst snd lab]. split; [|reflexivity].
    f_equal.
    rewrite scaleL_scaleR_comm, scaleL_scaleL, scaleR_scaleR.
    subst l. cbn [fst snd].
    replace (f1 - l1 + (l1 - f1)) with 0 by lia. replace (f2 - l2 + (l2 - f2)) with 0 by lia.
    rewrite scaleL_0 by exact HL. apply scaleR_0. exact HR.
Qed.
