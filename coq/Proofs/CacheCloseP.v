(* Property C20, close(): no deadlock on close from any state and under any schedule, a closed storage stays closed
   (no worker step is ever enabled again), every operation after close() ends in WorkerDied (or is the silent
   preload of a key whose earlier load already raised).  Model: Model/CacheClose.v. *)
From TenpyV Require Import Base.Prelude Model.Cache Model.CacheThread Model.CacheClose.
Open Scope Z_scope.

Ltac brk :=
  repeat match goal with
         | |- context [match ?x with _ => _ end] => destruct x eqn:?
         end.

(* ---- the caller never touches the worker's status; the worker never touches the caller's pc *)
Lemma start_op_status qmax b op : t_status (start_op qmax b op) = t_status b.
Proof.
  unfold start_op, do_put, continue, finish, set_pc, enqueue, set_loaded_waiting, dead.
  destruct op; brk; cbn; reflexivity.
Qed.

Lemma caller_step_status qmax b b' : caller_step qmax b = Some b' -> t_status b' = t_status b.
Proof.
  unfold caller_step. intros H.
  destruct (t_pc b) eqn:Epc.
  - destruct (t_prog b) as [|op rest]; [discriminate|]. inversion H; subst. rewrite start_op_status. reflexivity.
  - destruct (has_space qmax b); [|discriminate]. inversion H; subst.
    unfold continue, finish, set_pc, enqueue. destruct c; reflexivity.
  - inversion H; subst. unfold finish_load, finish, set_pc, set_loaded_waiting, dead. brk; cbn; reflexivity.
  - destruct (Nat.eqb (t_unfinished b) 0); [|discriminate]. inversion H; subst.
    unfold finish_load, finish, set_pc, set_loaded_waiting, dead. brk; cbn; reflexivity.
  - destruct (Nat.eqb (t_unfinished b) 0); [|discriminate]. inversion H; subst.
    unfold do_put, continue, finish, set_pc, enqueue, set_loaded_waiting, dead. brk; cbn; reflexivity.
Qed.

Lemma worker_step_pc fail_at b b' : worker_step fail_at b = Some b' -> t_pc b' = t_pc b.
Proof.
  unfold worker_step, set_worker. intros H. destruct (t_status b).
  - destruct (t_queue b); [discriminate|]. injection H as <-. reflexivity.
  - injection H as <-. brk; reflexivity.
  - destruct (t_queue b); injection H as <-; reflexivity.
  - discriminate.
Qed.

Lemma worker_step_dead fail_at b : t_status b = WDead -> worker_step fail_at b = None.
Proof. unfold worker_step. intros ->. reflexivity. Qed.

(* ---- the worker terminates: every worker step under `exit` decreases wsteps *)
Lemma worker_step_c_dec fail_at st : c_exit st = true -> t_status (c_base st) <> WDead ->
  exists st', worker_step_c fail_at st = Some st' /\ (wsteps (c_base st') < wsteps (c_base st))%nat /\
              c_exit st' = c_exit st /\ c_opened st' = c_opened st /\ c_pc st' = c_pc st /\ c_prog st' = c_prog st /\
              c_outs st' = c_outs st /\ t_pc (c_base st') = t_pc (c_base st).
Proof.
  intros He Hd. unfold worker_step_c. rewrite He.
  destruct (t_status (c_base st)) eqn:Es.
  - eexists. split; [reflexivity|]. unfold with_base, set_status, wsteps. cbn. rewrite Es. repeat split; try reflexivity; try assumption; try lia.
  - unfold worker_step. rewrite Es.
    eexists. split; [reflexivity|]. unfold with_base, wsteps, set_worker. rewrite Es.
    brk; cbn in *; try discriminate; repeat split; try reflexivity; try assumption; try lia.
  - unfold worker_step. rewrite Es. destruct (t_queue (c_base st)) as [|x q] eqn:Eq.
    + eexists. split; [reflexivity|]. unfold with_base, wsteps, set_worker. rewrite Es. cbn. rewrite Eq. cbn. repeat split; try reflexivity; try assumption; try lia.
    + eexists. split; [reflexivity|]. unfold with_base, wsteps, set_worker. rewrite Es. cbn. rewrite Eq. cbn. repeat split; try reflexivity; try assumption; try lia.
  - contradiction.
Qed.

Lemma wsteps_dead b : wsteps b = 0%nat -> t_status b = WDead.
Proof. unfold wsteps. destruct (t_status b); intros; try lia. reflexivity. Qed.

Lemma is_dead_iff b : is_dead b = true <-> t_status b = WDead.
Proof. unfold is_dead. destruct (t_status b); split; intros; try discriminate; reflexivity. Qed.

(* ---- once closed, always closed *)
Lemma d_has_nil k : d_has k [] = false.
Proof. reflexivity. Qed.

Definition post (b : tstate) : Prop := t_status b = WDead /\ t_loaded b = [] /\ pc_quiet b.

(* an operation started after close() *)
Lemma start_op_post qmax b op : t_status b = WDead -> t_loaded b = [] ->
  let b' := start_op qmax b op in
  t_status b' = WDead /\ t_loaded b' = [] /\
  ((t_pc b' = PIdle /\ exists o, t_outs b' = o :: t_outs b /\
     (o = TWorkerDied \/ (o = TOk /\ exists k, op = SPreload k /\ ks_mem k (t_waiting b) = true))) \/
   (exists k, op = SLoad k /\ ks_mem k (t_waiting b) = true /\ t_pc b' = PLoadB k /\ t_outs b' = t_outs b)).
Proof.
  intros Hs Hl. cbn zeta. unfold start_op, do_put, dead, set_loaded_waiting. rewrite Hl.
  destruct op as [k|k|k v|k]; cbn [d_has d_get negb andb orb t_status t_loaded t_waiting].
  - destruct (ks_mem k (t_waiting b)) eqn:Ew; cbn [negb andb]; rewrite ?Hs; cbn.
    + repeat split; auto. right. exists k. repeat split; auto.
    + repeat split; auto. left. split; [reflexivity|]. eexists. split; [reflexivity|]. left. reflexivity.
  - destruct (ks_mem k (t_waiting b)) eqn:Ew; cbn [orb]; rewrite ?Hs; cbn.
    + repeat split; auto. left. split; [reflexivity|]. eexists. split; [reflexivity|]. right. split; [reflexivity|].
      exists k. split; [reflexivity|exact Ew].
    + repeat split; auto. left. split; [reflexivity|]. eexists. split; [reflexivity|]. left. reflexivity.
  - destruct (ks_mem k (t_waiting b)) eqn:Ew; rewrite ?Hs; cbn.
    + repeat split; auto. left. split; [reflexivity|]. eexists. split; [reflexivity|]. left. reflexivity.
    + repeat split; auto. left. split; [reflexivity|]. eexists. split; [reflexivity|]. left. reflexivity.
  - rewrite Hs. cbn. repeat split; auto. left. split; [reflexivity|]. eexists. split; [reflexivity|]. left. reflexivity.
Qed.

(* the second half of a load started after close() *)
Lemma loadb_post qmax b k : t_status b = WDead -> t_loaded b = [] -> t_pc b = PLoadB k ->
  exists b', caller_step qmax b = Some b' /\ t_status b' = WDead /\ t_loaded b' = [] /\ t_pc b' = PIdle /\
             t_outs b' = TWorkerDied :: t_outs b.
Proof.
  intros Hs Hl Hp. unfold caller_step. rewrite Hp, Hl. cbn [d_has d_get]. unfold dead. rewrite Hs.
  eexists. split; [reflexivity|]. cbn. auto.
Qed.

Lemma closed_step qmax fail_at st c : closed_st st ->
  closed_st (cl_step qmax fail_at st c) /\ worker_step_c fail_at st = None /\
  (* results of operations appended by this step: WorkerDied, or the silent preload *)
  (exists l, t_outs (c_base (cl_step qmax fail_at st c)) = l ++ t_outs (c_base st) /\
             Forall (fun o => o = TWorkerDied \/ o = TOk) l).
Proof.
  intros (Ho & Hp & Hs & Hl & Hq).
  assert (Hw : worker_step_c fail_at st = None).
  { unfold worker_step_c. rewrite Hs. rewrite worker_step_dead by exact Hs. destruct (c_exit st); reflexivity. }
  split; [|split; [exact Hw|]].
  - unfold cl_step. destruct c; [|rewrite Hw; repeat split; assumption].
    unfold caller_step_c. rewrite Hp, Ho. destruct Hq as [Hq|[k Hq]]; rewrite Hq.
    + destruct (c_prog st) as [|[op|] rest]; [repeat split; auto; left; exact Hq| |].
      * destruct (start_op_post qmax (c_base st) op Hs Hl) as (A & B & C).
        unfold closed_st. cbn. repeat split; auto.
        destruct C as [[C _]|(k & _ & _ & C & _)]; [left; exact C|right; exists k; exact C].
      * cbn. unfold closed_st. cbn. repeat split; auto. left. exact Hq.
    + destruct (loadb_post qmax (c_base st) k Hs Hl Hq) as (b' & E & A & B & C & D). rewrite E.
      unfold closed_st, with_base. cbn. repeat split; auto. left. exact C.
  - unfold cl_step. destruct c; [|rewrite Hw; exists []; split; [reflexivity|constructor]].
    unfold caller_step_c. rewrite Hp, Ho. destruct Hq as [Hq|[k Hq]]; rewrite Hq.
    + destruct (c_prog st) as [|[op|] rest]; [exists []; split; [reflexivity|constructor]| |].
      * destruct (start_op_post qmax (c_base st) op Hs Hl) as (A & B & C). cbn.
        destruct C as [[_ (o & Eo & Ho')]|(k & _ & _ & _ & Eo)].
        -- exists [o]. split; [exact Eo|]. constructor; [|constructor]. destruct Ho' as [->|[-> _]]; auto.
        -- exists []. split; [exact Eo|constructor].
      * cbn. exists []. split; [reflexivity|constructor].
    + destruct (loadb_post qmax (c_base st) k Hs Hl Hq) as (b' & E & A & B & C & D). rewrite E. cbn.
      exists [TWorkerDied]. split; [exact D|]. constructor; [left; reflexivity|constructor].
Qed.

Theorem closed_forever qmax fail_at : forall sched st, closed_st st ->
  let st' := cl_run qmax fail_at sched st in
  closed_st st' /\ worker_step_c fail_at st' = None /\
  exists l, t_outs (c_base st') = l ++ t_outs (c_base st) /\ Forall (fun o => o = TWorkerDied \/ o = TOk) l.
Proof.
  induction sched as [|c sched IH]; intros st Hc; cbn zeta.
  - cbn [cl_run fold_left]. split; [exact Hc|]. split.
    + destruct Hc as (_ & _ & Hs & _). unfold worker_step_c. rewrite Hs, (worker_step_dead fail_at _ Hs).
      destruct (c_exit st); reflexivity.
    + exists []. split; [reflexivity|constructor].
  - cbn [cl_run fold_left]. destruct (closed_step qmax fail_at st c Hc) as (H1 & _ & l1 & E1 & F1).
    destruct (IH _ H1) as (A & B & l2 & E2 & F2). fold (cl_run qmax fail_at sched (cl_step qmax fail_at st c)).
    split; [exact A|]. split; [exact B|]. exists (l2 ++ l1). split.
    + rewrite E2, E1, app_assoc. reflexivity.
    + apply Forall_app. split; assumption.
Qed.

(* ---- no deadlock on close *)
Definition joining (st : cstate) : Prop :=
  c_opened st = false /\ t_pc (c_base st) = PIdle /\
  ((c_pc st = CJoin /\ c_exit st = true /\ t_loaded (c_base st) = t_loaded (c_base st)) \/
   (closed_st st /\ In CClosedOk (c_outs st))).

Lemma count_worker_cons c sched : count_worker (c :: sched) = ((if c then 0 else 1) + count_worker sched)%nat.
Proof. unfold count_worker. cbn [filter]. destruct c; cbn; reflexivity. Qed.

Definition done (st : cstate) : Prop := closed_st st /\ In CClosedOk (c_outs st).

Lemma done_step qmax fail_at st c : done st -> done (cl_step qmax fail_at st c).
Proof.
  intros [Hc Hin]. split; [apply closed_step; exact Hc|].
  unfold cl_step. destruct c.
  - unfold caller_step_c. destruct Hc as (Ho & Hp & Hs & Hl & Hq). rewrite Hp, Ho.
    destruct (t_pc (c_base st)); try (destruct (caller_step qmax (c_base st)); exact Hin).
    destruct (c_prog st) as [|[op|] rest]; cbn; auto.
  - destruct (worker_step_c fail_at st) as [st'|] eqn:E; [|exact Hin].
    unfold worker_step_c in E. destruct (c_exit st), (t_status (c_base st));
      try (destruct (worker_step fail_at (c_base st)); inversion E; subst; exact Hin); inversion E; subst; exact Hin.
Qed.

Lemma done_run qmax fail_at : forall sched st, done st -> done (cl_run qmax fail_at sched st).
Proof.
  induction sched as [|c l IH]; intros s Hs; cbn [cl_run fold_left]; [exact Hs|].
  apply IH. apply done_step. exact Hs.
Qed.

Lemma join_progress qmax fail_at : forall sched st,
  c_pc st = CJoin -> c_exit st = true -> c_opened st = false -> t_pc (c_base st) = PIdle ->
  (wsteps (c_base st) <= count_worker sched)%nat ->
  done (cl_run qmax fail_at (sched ++ [true]) st).
Proof.
  induction sched as [|c sched IH]; intros st Hp He Ho Hpc Hn.
  - cbn [count_worker filter length] in Hn. assert (Hd : t_status (c_base st) = WDead) by (apply wsteps_dead; unfold count_worker in Hn; cbn in Hn; lia).
    cbn [app cl_run fold_left]. unfold cl_step, caller_step_c. rewrite Hp.
    rewrite (proj2 (is_dead_iff _) Hd). split; [|left; reflexivity].
    unfold closed_st, close_finish, pc_quiet. cbn. repeat split; auto.
  - cbn [app cl_run fold_left]. fold (cl_run qmax fail_at (sched ++ [true]) (cl_step qmax fail_at st c)).
    rewrite count_worker_cons in Hn. destruct c.
    + (* caller: joins if the thread is gone, is blocked otherwise *)
      unfold cl_step, caller_step_c. rewrite Hp. destruct (is_dead (c_base st)) eqn:Ed.
      * apply done_run. apply is_dead_iff in Ed. split; [|left; reflexivity].
        unfold closed_st, close_finish, pc_quiet. cbn. repeat split; auto.
      * apply IH; auto.
    + destruct (t_status (c_base st)) eqn:Es.
      1-3: destruct (worker_step_c_dec fail_at st He ltac:(rewrite Es; discriminate))
        as (st' & E & Hlt & A & B & C & D & F & G);
        unfold cl_step; rewrite E; apply IH; try congruence; lia.
      unfold cl_step, worker_step_c. rewrite He, Es. rewrite (worker_step_dead fail_at _ Es).
      apply IH; auto. unfold wsteps. rewrite Es. lia.
Qed.

(* close() started between two operations, from ANY state of the LTS (not only reachable ones), under ANY schedule that
   gives the worker at least wsteps <= |queue| + 3 turns: close() returns, the thread is gone, the storage is closed *)
Theorem close_no_deadlock qmax fail_at : forall st rest sched,
  c_pc st = CNone -> t_pc (c_base st) = PIdle -> c_prog st = CClose :: rest -> c_opened st = true ->
  (wsteps (c_base st) <= count_worker sched)%nat ->
  let st' := cl_run qmax fail_at (true :: sched ++ [true]) st in
  closed_st st' /\ In CClosedOk (c_outs st') /\ worker_step_c fail_at st' = None.
Proof.
  intros st rest sched Hp Hpc Hprog Ho Hn. cbn zeta.
  assert (Hdone : done (cl_run qmax fail_at (true :: sched ++ [true]) st)).
  { change (cl_run qmax fail_at (true :: sched ++ [true]) st)
      with (cl_run qmax fail_at (sched ++ [true]) (cl_step qmax fail_at st true)).
    assert (E1 : cl_step qmax fail_at st true =
                 if is_dead (c_base st) then mkC (close_finish (c_base st)) (c_exit st) false CNone rest (CClosedOk :: c_outs st)
                 else mkC (c_base st) true false CJoin rest (c_outs st)).
    { unfold cl_step, caller_step_c. rewrite Hp, Hpc, Hprog, Ho. cbn [negb]. destruct (is_dead (c_base st)); reflexivity. }
    rewrite E1. destruct (is_dead (c_base st)) eqn:Ed.
    - apply done_run. apply is_dead_iff in Ed. split; [|left; reflexivity].
      unfold closed_st, close_finish, pc_quiet. cbn. repeat split; auto.
    - apply join_progress; cbn; auto. }
  destruct Hdone as [Hc Hin]. split; [exact Hc|]. split; [exact Hin|].
  destruct Hc as (_ & _ & Hs & _). unfold worker_step_c. rewrite Hs, (worker_step_dead fail_at _ Hs).
  destruct (c_exit _); reflexivity.
Qed.

(* a second close() is the documented error *)
Lemma second_close qmax st rest : closed_st st -> t_pc (c_base st) = PIdle -> c_prog st = CClose :: rest ->
  exists st', caller_step_c qmax st = Some st' /\ c_outs st' = CAlreadyClosed :: c_outs st /\ closed_st st'.
Proof.
  intros (Ho & Hp & Hs & Hl & Hq) Hpc Hprog. unfold caller_step_c. rewrite Hp, Hpc, Hprog, Ho. cbn [negb].
  eexists. split; [reflexivity|]. split; [reflexivity|]. unfold closed_st. cbn. repeat split; auto.
Qed.
