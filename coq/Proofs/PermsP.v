(* Proofs about Model/Perms.v (the loop of MPS.permute_sites): termination within the fuel, sortedness of the
   final perm list, joint permutation of perm/arrangement, the arrangement law new[perm[i]] = old[i], the
   accumulated fermionic sign and the number of swaps. *)
From TenpyV Require Import Base.Prelude Model.Perms.
Open Scope Z_scope.

(* ---- lists: decomposition around an adjacent pair *)
Lemma swap_at_app {A : Type} (l1 : list A) x y l2 i :
  length l1 = i -> swap_at i (l1 ++ x :: y :: l2) = l1 ++ y :: x :: l2.
Proof.
  revert i. induction l1 as [|a l1 IH]; intros i Hlen; cbn [length] in Hlen; subst i; cbn [app swap_at].
  - reflexivity.
  - f_equal. apply IH. reflexivity.
Qed.

Lemma split_two {A : Type} (l : list A) : forall i,
  (Datatypes.S i < length l)%nat -> exists l1 x y l2, l = l1 ++ x :: y :: l2 /\ length l1 = i.
Proof.
  induction l as [|a l IH]; intros i Hi; cbn [length] in Hi.
  - lia.
  - destruct i as [|i].
    + destruct l as [|b l]; cbn [length] in Hi; [lia|]. exists [], a, b, l. split; reflexivity.
    + destruct (IH i) as (l1 & x & y & l2 & He & Hl); [lia|].
      exists (a :: l1), x, y, l2. split; [rewrite He; reflexivity | cbn [length]; lia].
Qed.

Lemma nth_mid0 {A : Type} (l1 : list A) x t d : nth (length l1) (l1 ++ x :: t) d = x.
Proof. rewrite app_nth2, Nat.sub_diag; [reflexivity | lia]. Qed.

Lemma nth_mid1 {A : Type} (l1 : list A) x y t d : nth (Datatypes.S (length l1)) (l1 ++ x :: y :: t) d = y.
Proof.
  rewrite app_nth2 by lia.
  replace (Datatypes.S (length l1) - length l1)%nat with 1%nat by lia. reflexivity.
Qed.

Lemma combine_app_eq {A B : Type} (l1 : list A) : forall (m1 : list B) l2 m2,
  length l1 = length m1 -> combine (l1 ++ l2) (m1 ++ m2) = combine l1 m1 ++ combine l2 m2.
Proof.
  induction l1 as [|a l1 IH]; intros [|b m1] l2 m2 Hl; cbn [length] in Hl; try discriminate; cbn [app combine].
  - reflexivity.
  - f_equal. apply IH. lia.
Qed.

Lemma map_fst_combine_eq {A B : Type} (l : list A) : forall (m : list B),
  length l = length m -> map fst (combine l m) = l.
Proof.
  induction l as [|a l IH]; intros [|b m] Hl; cbn [length] in Hl; try discriminate; cbn [combine map fst].
  - reflexivity.
  - f_equal. apply IH. lia.
Qed.

(* ---- counting inversions *)
Lemma countb_app {A : Type} (f : A -> bool) l1 l2 : countb f (l1 ++ l2) = (countb f l1 + countb f l2)%nat.
Proof. induction l1 as [|a l1 IH]; cbn [app countb]; [reflexivity | rewrite IH; lia]. Qed.

Lemma countb_le_length {A : Type} (f : A -> bool) l : (countb f l <= length l)%nat.
Proof. induction l as [|a l IH]; cbn [countb length]; [lia | destruct (f a); lia]. Qed.

Lemma ginv_le_sq {A : Type} (f : A -> A -> bool) l : (ginv f l <= length l * length l)%nat.
Proof.
  induction l as [|a l IH]; cbn [ginv length]; [lia|].
  pose proof (countb_le_length (f a) l) as Hc. nia.
Qed.

Lemma countb_zero {A : Type} (f : A -> bool) l : Forall (fun y => f y = false) l -> countb f l = 0%nat.
Proof. induction 1 as [|y l Hy _ IH]; cbn [countb]; [reflexivity | rewrite Hy, IH; reflexivity]. Qed.

Lemma ginv_swap {A : Type} (f : A -> A -> bool) l1 x y l2 :
  (ginv f (l1 ++ x :: y :: l2) + (if f y x then 1 else 0) =
   ginv f (l1 ++ y :: x :: l2) + (if f x y then 1 else 0))%nat.
Proof.
  induction l1 as [|a l1 IH]; cbn [app ginv countb].
  - destruct (f x y), (f y x); lia.
  - rewrite !countb_app. cbn [countb]. lia.
Qed.

Lemma ginv_swap_true {A : Type} (f : A -> A -> bool) l1 x y l2 :
  f x y = true -> f y x = false ->
  ginv f (l1 ++ x :: y :: l2) = Datatypes.S (ginv f (l1 ++ y :: x :: l2)).
Proof.
  intros Hxy Hyx. pose proof (ginv_swap f l1 x y l2) as Hg. rewrite Hxy, Hyx in Hg. lia.
Qed.

Lemma ginv_swap_false {A : Type} (f : A -> A -> bool) l1 x y l2 :
  f x y = false -> f y x = false ->
  ginv f (l1 ++ x :: y :: l2) = ginv f (l1 ++ y :: x :: l2).
Proof.
  intros Hxy Hyx. pose proof (ginv_swap f l1 x y l2) as Hg. rewrite Hxy, Hyx in Hg. lia.
Qed.

Lemma ginv_sorted_zero (f : Z * (Z * bool) -> Z * (Z * bool) -> bool) z :
  (forall x y, fst x <= fst y -> f x y = false) -> StronglySorted Z.le (map fst z) -> ginv f z = 0%nat.
Proof.
  intros Hf. induction z as [|x t IH]; intros Hs; cbn [ginv]; [reflexivity|].
  cbn [map] in Hs. apply StronglySorted_inv in Hs as [Hs Hfa].
  rewrite IH by exact Hs. rewrite countb_zero; [reflexivity|].
  rewrite Forall_forall. intros y Hy. apply Hf. rewrite Forall_forall in Hfa. apply Hfa.
  apply in_map. exact Hy.
Qed.

(* ---- sorted lists *)
Lemma ssorted_app_l (l1 l2 : list Z) : StronglySorted Z.le (l1 ++ l2) -> StronglySorted Z.le l1.
Proof.
  induction l1 as [|c l1 IH]; intros Hs; [constructor|].
  cbn [app] in Hs. apply StronglySorted_inv in Hs as [Hs Hf].
  constructor; [apply IH; exact Hs|]. apply Forall_app in Hf. tauto.
Qed.

Lemma ssorted_snoc (l1 : list Z) a b :
  StronglySorted Z.le (l1 ++ [a]) -> a <= b -> StronglySorted Z.le (l1 ++ [a; b]).
Proof.
  intros Hs Hab. induction l1 as [|c l1 IH]; cbn [app] in *.
  - constructor; [constructor; [constructor|constructor] | constructor; [exact Hab|constructor]].
  - apply StronglySorted_inv in Hs as [Hs Hf]. constructor; [apply IH; exact Hs|].
    apply Forall_app in Hf as [Hf1 Hf2]. apply Forall_app. split; [exact Hf1|].
    inversion Hf2 as [|? ? Hca _]; subst. constructor; [lia|]. constructor; [lia|constructor].
Qed.

Lemma iota_sorted n : forall a, StronglySorted Z.le (map Z.of_nat (seq a n)).
Proof.
  induction n as [|n IH]; intros a; cbn [seq map]; constructor.
  - apply IH.
  - rewrite Forall_forall. intros y Hy. apply in_map_iff in Hy as (m & Hm & Hin).
    apply in_seq in Hin. lia.
Qed.

Lemma sorted_perm_eq : forall l1 l2 : list Z,
  StronglySorted Z.le l1 -> StronglySorted Z.le l2 -> Permutation l1 l2 -> l1 = l2.
Proof.
  induction l1 as [|x t1 IH]; intros [|y t2] H1 H2 HP.
  - reflexivity.
  - apply Permutation_nil in HP. discriminate.
  - apply Permutation_sym, Permutation_nil in HP. discriminate.
  - apply StronglySorted_inv in H1 as [H1 F1]. apply StronglySorted_inv in H2 as [H2 F2].
    assert (Hxy : x = y).
    { assert (Hx : In x (y :: t2)) by (eapply Permutation_in; [exact HP | left; reflexivity]).
      assert (Hy : In y (x :: t1))
        by (eapply Permutation_in; [apply Permutation_sym; exact HP | left; reflexivity]).
      rewrite Forall_forall in F1, F2.
      destruct Hx as [Hx|Hx]; [congruence|]. destruct Hy as [Hy|Hy]; [congruence|].
      apply F2 in Hx. apply F1 in Hy. lia. }
    subst y. f_equal. apply IH; try assumption. eapply Permutation_cons_inv. exact HP.
Qed.

Lemma in_combine_iota n : forall a (l : list (Z * bool)) j v d,
  length l = n -> In (Z.of_nat j, v) (combine (map Z.of_nat (seq a n)) l) ->
  v = nth (j - a) l d /\ (a <= j)%nat.
Proof.
  induction n as [|n IH]; intros a l j v d Hl Hin; cbn [seq map combine] in Hin; [destruct Hin|].
  destruct l as [|u l]; cbn [length] in Hl; [discriminate|].
  cbn [combine] in Hin. destruct Hin as [Heq|Hin].
  - inversion Heq as [[Hj Hv]]. apply Nat2Z.inj in Hj. subst j.
    rewrite Nat.sub_diag. cbn [nth]. split; [reflexivity|lia].
  - apply (IH (Datatypes.S a) l j v d) in Hin; [|lia]. destruct Hin as [Hv Hle].
    replace (j - a)%nat with (Datatypes.S (j - Datatypes.S a)) by lia. cbn [nth]. split; [exact Hv|lia].
Qed.

(* ---- loop invariant *)
Definition zs (s : pst) : list (Z * (Z * bool)) := combine (p_perm s) (p_arr s).

Definition pmeas (s : pst) : nat := (2 * ginv inv_key (zs s) + (length (p_perm s) - p_i s))%nat.

Definition pinv (z0 : list (Z * (Z * bool))) (s : pst) : Prop :=
  length (p_arr s) = length (p_perm s) /\
  Permutation z0 (zs s) /\
  StronglySorted Z.le (firstn (Datatypes.S (p_i s)) (p_perm s)) /\
  (length (p_log s) + ginv inv_key (zs s) = ginv inv_key z0)%nat /\
  xorb (p_sign s) (Nat.odd (ginv inv_odd (zs s))) = Nat.odd (ginv inv_odd z0).

Lemma step_inv z0 s s' : pinv z0 s -> step s = Some s' -> pinv z0 s' /\ (pmeas s' < pmeas s)%nat.
Proof.
  destruct s as [i p ar lg sg].
  unfold pinv, pmeas, zs, step. cbn [p_i p_perm p_arr p_log p_sign].
  intros (Hlen & Hperm & Hsort & Hlog & Hsign) Hstep.
  destruct (Datatypes.S i <? length p)%nat eqn:Hlt; [|discriminate].
  apply Nat.ltb_lt in Hlt.
  destruct (split_two p i Hlt) as (l1 & a & b & l2 & Hp & Hl1).
  destruct (split_two ar i) as (m1 & u & v & m2 & Ha & Hm1); [lia|].
  subst p ar i.
  rewrite nth_mid0, nth_mid1 in Hstep.
  assert (Hlen2 : length m2 = length l2).
  { rewrite !app_length in Hlen. cbn [length] in Hlen. lia. }
  rewrite combine_app_eq in Hperm, Hlog, Hsign by lia. cbn [combine] in Hperm, Hlog, Hsign.
  destruct (b <? a) eqn:Hba; inversion Hstep; subst s'; clear Hstep;
    cbn [p_i p_perm p_arr p_log p_sign].
  - (* swap *)
    rewrite (swap_at_app l1 a b l2 (length l1) eq_refl).
    rewrite (swap_at_app m1 u v m2 (length l1) Hm1).
    assert (Hp0 : nth (length l1) (m1 ++ u :: v :: m2) (0, false) = u)
      by (rewrite <- Hm1; apply nth_mid0).
    assert (Hp1 : nth (Datatypes.S (length l1)) (m1 ++ u :: v :: m2) (0, false) = v)
      by (rewrite <- Hm1; apply nth_mid1).
    unfold parity_at. rewrite Hp0, Hp1.
    rewrite !combine_app_eq by lia. cbn [combine].
    assert (Hk1 : inv_key (a, u) (b, v) = true) by (unfold inv_key; cbn [fst]; exact Hba).
    assert (Hk2 : inv_key (b, v) (a, u) = false) by (unfold inv_key; cbn [fst]; lia).
    assert (Ho2 : inv_odd (b, v) (a, u) = false).
    { unfold inv_odd; cbn [fst snd]. destruct (a <? b) eqn:Hab; [lia|reflexivity]. }
    assert (Ho1 : inv_odd (a, u) (b, v) = snd u && snd v).
    { unfold inv_odd; cbn [fst snd]. rewrite Hba. reflexivity. }
    rewrite (ginv_swap_true inv_key _ _ _ _ Hk1 Hk2) in Hlog.
    repeat split.
    + rewrite !app_length in *. cbn [length] in *. lia.
    + eapply perm_trans; [exact Hperm|]. apply Permutation_app_head. apply perm_swap.
    + destruct l1 as [|c l1]; cbn [length Nat.pred].
      * cbn [app firstn]. constructor; constructor.
      * replace (Datatypes.S (length l1)) with (length (c :: l1) + 0)%nat by (cbn [length]; lia).
        rewrite firstn_app_2. cbn [firstn]. rewrite app_nil_r.
        replace (Datatypes.S (length (c :: l1))) with (length (c :: l1) + 1)%nat in Hsort by lia.
        rewrite firstn_app_2 in Hsort. cbn [firstn] in Hsort.
        apply ssorted_app_l in Hsort. exact Hsort.
    + rewrite app_length. cbn [length]. lia.
    + rewrite <- Hsign. destruct (snd u && snd v) eqn:Huv.
      * rewrite (ginv_swap_true inv_odd _ (a, u) (b, v) _); [|exact Ho1|exact Ho2].
        rewrite Nat.odd_succ, <- Nat.negb_odd.
        destruct sg, (Nat.odd (ginv inv_odd (combine l1 m1 ++ (b, v) :: (a, u) :: combine l2 m2)));
          reflexivity.
      * rewrite (ginv_swap_false inv_odd _ (a, u) (b, v) _); [|exact Ho1|exact Ho2].
        destruct sg, (Nat.odd (ginv inv_odd (combine l1 m1 ++ (b, v) :: (a, u) :: combine l2 m2)));
          reflexivity.
    + rewrite (ginv_swap_true inv_key _ _ _ _ Hk1 Hk2).
      rewrite !app_length in *. cbn [length] in *. lia.
  - (* no swap *)
    rewrite !combine_app_eq by lia. cbn [combine].
    repeat split; try assumption.
    + replace (Datatypes.S (Datatypes.S (length l1))) with (length l1 + 2)%nat by lia.
      rewrite firstn_app_2. cbn [firstn].
      replace (Datatypes.S (length l1)) with (length l1 + 1)%nat in Hsort by lia.
      rewrite firstn_app_2 in Hsort. cbn [firstn] in Hsort.
      apply ssorted_snoc; [exact Hsort|lia].
    + lia.
Qed.

Lemma run_inv z0 fuel : forall s,
  pinv z0 s -> (pmeas s < fuel)%nat -> pinv z0 (run fuel s) /\ step (run fuel s) = None.
Proof.
  induction fuel as [|f IH]; intros s Hinv Hm; [lia|].
  cbn [run]. destruct (step s) as [s'|] eqn:Hst.
  - destruct (step_inv z0 s s' Hinv Hst) as [Hinv' Hm']. apply IH; [exact Hinv'|lia].
  - split; assumption.
Qed.

Lemma permute_main (perm : list Z) (arr : list (Z * bool)) :
  length arr = length perm ->
  pinv (combine perm arr) (permute perm arr) /\ step (permute perm arr) = None.
Proof.
  intros Hlen. unfold permute. apply run_inv.
  - unfold pinv, zs, init. cbn [p_i p_perm p_arr p_log p_sign].
    repeat split.
    + exact Hlen.
    + apply Permutation_refl.
    + destruct perm as [|x t]; cbn [firstn]; constructor; constructor.
    + apply xorb_false_l.
  - unfold pmeas, zs, init, fuel_for. cbn [p_i p_perm p_arr].
    pose proof (ginv_le_sq inv_key (combine perm arr)) as Hg.
    rewrite combine_length, Hlen, Nat.min_id in Hg. lia.
Qed.

Lemma step_none_all (s : pst) :
  step s = None -> firstn (Datatypes.S (p_i s)) (p_perm s) = p_perm s.
Proof.
  unfold step. intros Hst.
  destruct (Datatypes.S (p_i s) <? length (p_perm s))%nat eqn:Hlt.
  - destruct (nth (Datatypes.S (p_i s)) (p_perm s) 0 <? nth (p_i s) (p_perm s) 0); discriminate.
  - apply Nat.ltb_ge in Hlt. apply firstn_all2. exact Hlt.
Qed.

Lemma pinv_length z0 s : pinv z0 s -> length (p_perm s) = length z0.
Proof.
  intros (Hlen & Hperm & _). apply Permutation_length in Hperm. unfold zs in Hperm.
  rewrite combine_length, Hlen, Nat.min_id in Hperm. symmetry. exact Hperm.
Qed.

(* ---- the four statements *)
Lemma permute_terminates_sorts : forall (perm : list Z) (arr : list (Z * bool)),
  length arr = length perm ->
  let r := permute perm arr in
  step r = None /\ StronglySorted Z.le (p_perm r) /\
  length (p_perm r) = length perm /\ length (p_arr r) = length perm /\
  Permutation (combine perm arr) (combine (p_perm r) (p_arr r)).
Proof.
  intros perm arr Hlen. cbv zeta.
  destruct (permute_main perm arr Hlen) as [Hinv Hnone].
  pose proof (pinv_length _ _ Hinv) as HL.
  rewrite combine_length, Hlen, Nat.min_id in HL.
  destruct Hinv as (Hl & HP & Hs & _ & _).
  rewrite (step_none_all _ Hnone) in Hs.
  repeat split; try assumption. lia.
Qed.

Lemma permute_arrangement : forall (perm : list Z) (arr : list (Z * bool)) (d : Z * bool),
  length arr = length perm ->
  Permutation perm (map Z.of_nat (seq 0 (length perm))) ->
  let r := permute perm arr in
  p_perm r = map Z.of_nat (seq 0 (length perm)) /\
  forall i, (i < length perm)%nat -> nth (Z.to_nat (nth i perm 0)) (p_arr r) d = nth i arr d.
Proof.
  intros perm arr d Hlen Hiota. cbv zeta.
  destruct (permute_terminates_sorts perm arr Hlen) as (_ & Hs & HLp & HLa & HP).
  cbv zeta in Hs, HLp, HLa, HP.
  set (r := permute perm arr) in *.
  assert (HPk : Permutation perm (p_perm r)).
  { apply (Permutation_map fst) in HP. rewrite !map_fst_combine_eq in HP by lia. exact HP. }
  assert (Hid : p_perm r = map Z.of_nat (seq 0 (length perm))).
  { apply sorted_perm_eq; [exact Hs | apply iota_sorted |].
    eapply perm_trans; [apply Permutation_sym; exact HPk | exact Hiota]. }
  split; [exact Hid|]. intros i Hi.
  assert (Hin : In (nth i perm 0, nth i arr d) (combine perm arr)).
  { rewrite <- combine_nth by lia. apply nth_In. rewrite combine_length. lia. }
  apply (Permutation_in _ HP) in Hin. rewrite Hid in Hin.
  assert (Hk : In (nth i perm 0) (map Z.of_nat (seq 0 (length perm)))).
  { apply (Permutation_in _ Hiota). apply nth_In. exact Hi. }
  apply in_map_iff in Hk as (j & Hj & _). rewrite <- Hj in Hin |- *.
  rewrite Nat2Z.id.
  apply (in_combine_iota (length perm) 0%nat (p_arr r) j (nth i arr d) d HLa) in Hin.
  destruct Hin as [Hv _]. rewrite Nat.sub_0_r in Hv. symmetry. exact Hv.
Qed.

Lemma final_sorted_keys (perm : list Z) (arr : list (Z * bool)) :
  length arr = length perm ->
  StronglySorted Z.le (map fst (zs (permute perm arr))).
Proof.
  intros Hlen.
  destruct (permute_terminates_sorts perm arr Hlen) as (_ & Hs & HLp & HLa & _).
  cbv zeta in Hs, HLp, HLa. unfold zs. rewrite map_fst_combine_eq by lia. exact Hs.
Qed.

Lemma permute_sign : forall (perm : list Z) (arr : list (Z * bool)),
  length arr = length perm ->
  p_sign (permute perm arr) = Nat.odd (ginv inv_odd (combine perm arr)).
Proof.
  intros perm arr Hlen.
  destruct (permute_main perm arr Hlen) as [(_ & _ & _ & _ & Hsign) _].
  rewrite <- Hsign. rewrite (ginv_sorted_zero inv_odd).
  - cbn [Nat.odd]. destruct (p_sign (permute perm arr)); reflexivity.
  - intros x y Hxy. unfold inv_odd. destruct (fst y <? fst x) eqn:Hc; [lia|reflexivity].
  - apply final_sorted_keys. exact Hlen.
Qed.

Lemma permute_swap_count : forall (perm : list Z) (arr : list (Z * bool)),
  length arr = length perm ->
  length (p_log (permute perm arr)) = ginv inv_key (combine perm arr).
Proof.
  intros perm arr Hlen.
  destruct (permute_main perm arr Hlen) as [(_ & _ & _ & Hlog & _) _].
  rewrite <- Hlog. rewrite (ginv_sorted_zero inv_key).
  - lia.
  - intros x y Hxy. unfold inv_key. lia.
  - apply final_sorted_keys. exact Hlen.
Qed.
