(* Proofs about Model/Krylov.v (property C16). *)
From TenpyV Require Import Base.Prelude Model.Truncate Proofs.TruncateP Model.Krylov.

(* ------------------------------------------------------------------ the FIFO cache *)
Lemma cache_after_seq nc k : (1 <= nc)%nat ->
  cache_after nc k = seq (k - min k nc) (min k nc).
Proof.
  intros Hnc. induction k as [|k IH]; [reflexivity|].
  cbn [cache_after]. rewrite IH. unfold to_cache.
  destruct (Nat.ltb_spec k nc) as [Hlt|Hge].
  - replace (min k nc) with k by lia. replace (k - k)%nat with 0%nat by lia.
    replace (min (S k) nc) with (S k) by lia. replace (S k - S k)%nat with 0%nat by lia.
    change [k] with [(0 + k)%nat]. rewrite <- seq_S. rewrite seq_length.
    destruct (Nat.ltb_spec nc (S k)) as [H|H]; [lia|reflexivity].
  - replace (min k nc) with nc by lia. replace (min (S k) nc) with nc by lia.
    replace [k] with [((k - nc) + nc)%nat] by (f_equal; lia).
    rewrite <- seq_S. rewrite seq_length.
    destruct (Nat.ltb_spec nc (S nc)) as [H|H]; [|lia].
    cbn [seq tl]. f_equal. lia.
Qed.

Lemma cache_after_length nc k : (1 <= nc)%nat -> length (cache_after nc k) = min k nc.
Proof. intros H. rewrite cache_after_seq by exact H. apply seq_length. Qed.

Lemma cache_bounded nc k : (1 <= nc)%nat ->
  cache_after nc k = seq (k - min k nc) (min k nc) /\ (length (cache_after nc k) <= nc)%nat.
Proof.
  intros H. split; [apply cache_after_seq; exact H|].
  rewrite cache_after_length by exact H. lia.
Qed.

Lemma from_end_seq a m j : (1 <= j <= m)%nat -> from_end (seq a m) j = (a + m - j)%nat.
Proof.
  intros H. unfold from_end. rewrite seq_length. rewrite seq_nth by lia. lia.
Qed.

(* _cache[-1] is v_k and _cache[-2] is v_{k-1} in iteration k, for every N_cache >= 2 *)
Lemma three_term nc k : (2 <= nc)%nat ->
  from_end (cache_after nc (S k)) 1 = k /\
  ((1 <= k)%nat -> from_end (cache_after nc (S k)) 2 = (k - 1)%nat).
Proof.
  intros Hnc. rewrite cache_after_seq by lia. split.
  - rewrite from_end_seq by lia. lia.
  - intros Hk. rewrite from_end_seq by lia. lia.
Qed.

(* ------------------------------------------------------------------ both loops use the same recurrence *)
Lemma rebuild_ortho_eq nc re n : forall k c, rebuild_ortho nc re k n c = build_ortho nc re k n c.
Proof. induction n as [|n IH]; intros k c; cbn [rebuild_ortho build_ortho]; [reflexivity|f_equal; apply IH]. Qed.

Lemma build_ortho_prefix nc re n m : forall k c,
  build_ortho nc re k n c = firstn n (build_ortho nc re k (n + m) c).
Proof.
  induction n as [|n IH]; intros k c; [reflexivity|].
  cbn [build_ortho Nat.add firstn]. f_equal. apply IH.
Qed.

Lemma rebuild_same_recurrence nc re N n : (n <= N)%nat ->
  rebuild_ortho nc re 0 n [] = firstn n (build_ortho nc re 0 N []).
Proof.
  intros H. rewrite rebuild_ortho_eq. replace N with (n + (N - n))%nat by lia. apply build_ortho_prefix.
Qed.

(* ------------------------------------------------------------------ every Krylov index exactly once *)
Lemma map_sub_perm N m : (m <= N)%nat ->
  Permutation (map (fun k => (N - k)%nat) (seq 1 m)) (seq (N - m) m).
Proof.
  induction m as [|m IH]; intros H; [constructor|].
  rewrite seq_S, map_app. cbn [map].
  replace (N - S m)%nat with (N - S m)%nat by reflexivity.
  replace (seq (N - S m) (S m)) with ((N - S m)%nat :: seq (N - m) m)
    by (cbn [seq]; f_equal; f_equal; lia).
  eapply perm_trans; [apply Permutation_app_comm|]. cbn [app].
  replace (N - (1 + m))%nat with (N - S m)%nat by lia.
  apply perm_skip. apply IH. lia.
Qed.

Lemma cached_terms_closed nc N : (1 <= nc)%nat ->
  cached_terms N (cache_after nc N) =
  map (fun k => (N - k, N - k)%nat) (seq 1 (min (S (min N nc)) N - 1)).
Proof.
  intros Hnc. unfold cached_terms. rewrite cache_after_length by exact Hnc.
  apply map_ext_in. intros k Hk. apply in_seq in Hk.
  rewrite cache_after_seq by exact Hnc. rewrite from_end_seq by lia. f_equal. lia.
Qed.

Lemma result_indices nc N : (1 <= nc)%nat -> (2 <= N)%nat ->
  Permutation (result_terms nc N) (map (fun k => (k, k)) (seq 0 N)).
Proof.
  intros Hnc HN. unfold result_terms. rewrite cached_terms_closed by exact Hnc.
  rewrite cache_after_length by exact Hnc.
  set (m := (min (S (min N nc)) N - 1)%nat). set (r := (N - min N nc - 1)%nat).
  assert (Hm : (m <= N)%nat) by (unfold m; lia).
  assert (Hr : (N - m = 1 + r)%nat) by (unfold m, r; lia).
  assert (Hs : (r + m = N - 1)%nat) by (unfold m, r; lia).
  replace (seq 0 N) with (0%nat :: seq 1 r ++ seq (1 + r) m).
  2:{ rewrite <- seq_app. rewrite Hs. replace N with (S (N - 1)) at 2 by lia. reflexivity. }
  cbn [map]. apply perm_skip. rewrite map_app.
  eapply perm_trans; [apply Permutation_app_comm|].
  apply Permutation_app.
  - unfold rebuilt_terms. rewrite <- seq_shift, map_map. apply Permutation_refl.
  - rewrite <- Hr.
    change (map (fun k => (N - k, N - k)%nat) (seq 1 m))
      with (map (fun k => (fun j => (j, j)) ((fun k => N - k)%nat k)) (seq 1 m)).
    rewrite <- (map_map (fun k => (N - k)%nat) (fun j => (j, j))).
    apply Permutation_map. apply map_sub_perm. exact Hm.
Qed.

Lemma cache_independence nc nc' N : (1 <= nc)%nat -> (1 <= nc')%nat -> (2 <= N)%nat ->
  Permutation (result_terms nc N) (result_terms nc' N).
Proof.
  intros H H' HN. eapply perm_trans; [apply result_indices; assumption|].
  apply Permutation_sym. apply result_indices; assumption.
Qed.

(* ------------------------------------------------------------------ argsort *)
Lemma keys_along_model w zs :
  keys_along w zs (argsort_model w zs) = map fst (sorted_pairs (map (wkey w) zs)).
Proof.
  unfold keys_along, argsort_model. rewrite map_map. apply map_ext_in.
  intros vi Hvi. destruct (sorted_pairs_nth _ _ Hvi) as [Hl Hn].
  rewrite <- Hn. unfold nthZ. rewrite map_length in Hl.
  rewrite (nth_indep _ 0%Z (wkey w (0, 0)%Z)) by (rewrite map_length; exact Hl).
  rewrite map_nth. reflexivity.
Qed.

Lemma arnoldi_order w zs :
  Permutation (argsort_model w zs) (seq 0 (length zs)) /\
  StronglySorted Z.le (keys_along w zs (argsort_model w zs)).
Proof.
  split.
  - unfold argsort_model. rewrite <- (map_length (wkey w) zs). apply piv_perm.
  - rewrite keys_along_model. apply sorted_map_fst. unfold sorted_pairs. apply isort_sorted.
Qed.

(* ------------------------------------------------------------------ Rayleigh quotient in an eigenbasis *)
Open Scope Z_scope.
Fixpoint rq_num (d x : list Z) : Z :=
  match d, x with di :: d', xi :: x' => di * xi * xi + rq_num d' x' | _, _ => 0 end.
Fixpoint rq_den (d x : list Z) : Z :=
  match d, x with _ :: d', xi :: x' => xi * xi + rq_den d' x' | _, _ => 0 end.

Lemma ritz_bound_diag lam d x : Forall (fun di => lam <= di) d -> lam * rq_den d x <= rq_num d x.
Proof.
  intros H. revert x. induction H as [|di d Hd _ IH]; intros x; [cbn; lia|].
  destruct x as [|xi x]; cbn [rq_num rq_den]; [lia|].
  specialize (IH x). assert (0 <= xi * xi) by nia. nia.
Qed.
