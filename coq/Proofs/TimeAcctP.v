From TenpyV Require Import Base.Prelude Gen.G_acct Model.TimeAcct.
Open Scope Z_scope.

Lemma sumZ_concat (l : list (list Z)) : sumZ (concat l) = sumZ (map sumZ l).
Proof. induction l as [|x t IH]; cbn [concat map sumZ]; [reflexivity|]. rewrite sumZ_app, IH. reflexivity. Qed.

Lemma loop_fold c dt errs : forall s tot,
  let r := fold_left (fun (st : acct * Z) es =>
                        let r1 := evolve_call c (fst st) 1 dt es in (fst r1, snd st + snd r1)) errs (s, tot) in
  a_time (fst r) = a_time s + Z.of_nat (ev_time_adds c) * (Z.of_nat (length errs) * dt) /\
  a_eps (fst r) = a_eps s + Z.of_nat (ev_err_adds c) * sumZ (map sumZ errs) /\
  snd r = tot + sumZ (map sumZ errs).
Proof.
  induction errs as [|es t IH]; intros s tot; cbn [fold_left length map sumZ fst snd].
  - repeat split; lia.
  - specialize (IH (fst (evolve_call c s 1 dt es)) (tot + snd (evolve_call c s 1 dt es))).
    cbn zeta in IH. destruct IH as [H1 [H2 H3]]. rewrite H1, H2, H3.
    unfold evolve_call. cbn [fst snd a_time a_eps]. rewrite Nat2Z.inj_succ. repeat split; lia.
Qed.

Lemma run_evolution_exact c s n dt errs : single_add c = true -> well_formed_call (n, dt, errs) ->
  a_time (run_evolution c s n dt errs) = a_time s + n * dt /\
  a_eps (run_evolution c s n dt errs) = a_eps s + sumZ (map sumZ errs).
Proof.
  unfold single_add, well_formed_call. cbn [fst snd]. intros H Hwf.
  apply andb_prop in H. destruct H as [He Ht]. apply Nat.eqb_eq in He, Ht.
  unfold run_evolution. destruct (run_loops c).
  - destruct (loop_fold c dt errs s 0) as [H1 [H2 H3]]. cbn zeta in H1, H2, H3.
    cbn [a_time a_eps]. rewrite H1, H2, H3, Hwf. split; nia.
  - unfold evolve_call. cbn [fst snd a_time a_eps]. rewrite sumZ_concat. split; nia.
Qed.

Lemma run_history_exact c h : single_add c = true -> Forall well_formed_call h -> forall s,
  a_time (run_history c s h) = a_time s + total_time h /\
  a_eps (run_history c s h) = a_eps s + total_err h.
Proof.
  intros Hc. induction 1 as [|r t Hr _ IH]; intros s; unfold run_history, total_time, total_err in *;
    cbn [fold_left map sumZ]; [split; lia|].
  destruct r as [[n dt] errs]. cbn [fst snd].
  destruct (IH (run_evolution c s n dt errs)) as [H1 H2]. rewrite H1, H2.
  destruct (run_evolution_exact c s n dt errs Hc Hr) as [H3 H4]. rewrite H3, H4. split; lia.
Qed.

(* every engine class of the source accumulates each counter exactly once *)
Lemma engines_single_add : forallb single_add engines = true.
Proof. vm_compute. reflexivity. Qed.

Lemma all_engines_exact c h s : In c engines -> Forall well_formed_call h ->
  a_time (run_history c s h) = a_time s + total_time h /\
  a_eps (run_history c s h) = a_eps s + total_err h.
Proof.
  intros Hin Hwf. apply run_history_exact; [|exact Hwf].
  assert (H := engines_single_add). rewrite forallb_forall in H. apply H. exact Hin.
Qed.
