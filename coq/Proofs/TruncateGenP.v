(* The translated text of truncation._combine_constraints (Gen/G_truncation.v, regenerated from
   /repo on every run) computes the model's combine_constraints. *)
From TenpyV Require Import Base.Prelude Base.PyLib Model.Truncate Gen.G_truncation.

Lemma combine_constraints_gen_eq a b : combine_constraints_gen a b = combine_constraints a b.
Proof.
  unfold combine_constraints_gen, combine_constraints.
  destruct (anyb (andl a b)) eqn:E; cbn; rewrite ?E; reflexivity.
Qed.
