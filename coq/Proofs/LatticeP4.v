(* Proofs about Model/Lattice.v (property C19), part G: corollaries that users of the index maps and of
   possible_couplings rely on:
   - mps2lat_idx / lat2mps_idx are injective (no two MPS sites share a lattice site and vice versa);
   - possible_couplings(u2, u1, -dx) is possible_couplings(u1, u2, dx) with i and j exchanged (as sets), which
     is what add_coupling(..., plus_hc=True) and the "h.c. term" convention of the models rely on. *)
From TenpyV Require Import Base.Prelude Model.Lattice Proofs.LatticeP.
Open Scope Z_scope.

Lemma index_injective lat : wf lat ->
  (forall i j s, mps2lat lat i = Some s -> mps2lat lat j = Some s -> i = j) /\
  (forall s t i, site_exists lat s -> site_exists lat t ->
     lat2mps lat s = Some i -> lat2mps lat t = Some i -> s = t).
Proof.
  intros Hwf. destruct (index_inverse lat Hwf) as (H1 & H2 & _ & _). split.
  - intros i j s Hi Hj. destruct (H1 i s Hi) as [Ei _]. destruct (H1 j s Hj) as [Ej _]. congruence.
  - intros s t i Hs Ht Es Et. pose proof (H2 s i Hs Es) as A. pose proof (H2 t i Ht Et) as B. congruence.
Qed.

(* the directions 1.. of a site returned by mps2lat lie in the box *)
Lemma mps2lat_rest_in_box lat : wf lat -> forall i x0 xr u,
  mps2lat lat i = Some (x0, xr, u) -> Forall2 (fun x L => 0 <= x < L) xr (Lr lat).
Proof.
  intros Hwf i x0 xr u Hi. destruct (index_inverse lat Hwf) as (H1 & _).
  destruct (H1 i _ Hi) as [_ HE]. cbn [site_exists] in HE.
  pose proof (wf_box lat Hwf) as HB. rewrite Forall_forall in HB. specialize (HB _ HE).
  cbn [site_in_box] in HB. tauto.
Qed.

Lemma conn_rest_sym : forall Ls os ss xs ds ys tot,
  conn_rest Ls os ss xs ds ys tot -> Forall2 (fun x L => 0 <= x < L) xs Ls ->
  conn_rest Ls os ss ys (map Z.opp ds) xs (- tot).
Proof.
  intros Ls os ss xs ds ys tot H. induction H as [|L o s x d y k Ls os ss xs ds ys tot Hy He Ho Hr IH]; intros HB.
  - cbn. constructor.
  - inversion HB as [|? ? ? ? Hx HB']; subst. cbn [map].
    replace (- (k * s + tot)) with ((- k) * s + (- tot)) by lia.
    constructor; [lia|lia|intros Ht; specialize (Ho Ht); lia|now apply IH].
Qed.

Lemma connected_sym lat x0 xr dx0 dxr y0 yr :
  Forall2 (fun x L => 0 <= x < L) xr (Lr lat) ->
  connected lat x0 xr dx0 dxr y0 yr -> connected lat y0 yr (- dx0) (map Z.opp dxr) x0 xr.
Proof.
  intros HB (tot & k0 & Hr & He & Hk). exists (- tot), (- k0). split; [|split].
  - now apply conn_rest_sym.
  - lia.
  - intros Ho. specialize (Hk Ho). lia.
Qed.

Lemma coupled_sym_half lat : wf lat -> forall u1 u2 dx0 dxr i j,
  coupled lat u1 u2 dx0 dxr i j -> coupled lat u2 u1 (- dx0) (map Z.opp dxr) j i.
Proof.
  intros Hwf u1 u2 dx0 dxr i j (x0 & xr & y0 & yr & Hi & Hj & Hc & Hm).
  exists y0, yr, x0, xr. split; [exact Hj|]. split; [exact Hi|]. split.
  - apply connected_sym; [|exact Hc]. eapply mps2lat_rest_in_box; eauto.
  - intros Hinf. specialize (Hm Hinf). rewrite Z.min_comm. exact Hm.
Qed.

Lemma map_opp_opp l : map Z.opp (map Z.opp l) = l.
Proof. induction l as [|a l IH]; cbn; [reflexivity|]. rewrite IH. f_equal. lia. Qed.

Lemma coupled_sym lat : wf lat -> forall u1 u2 dx0 dxr i j,
  coupled lat u1 u2 dx0 dxr i j <-> coupled lat u2 u1 (- dx0) (map Z.opp dxr) j i.
Proof.
  intros Hwf u1 u2 dx0 dxr i j. split; [now apply coupled_sym_half|].
  intros H. apply (coupled_sym_half lat Hwf) in H. rewrite Z.opp_involutive, map_opp_opp in H. exact H.
Qed.

(* possible_couplings(u2, u1, -dx) = possible_couplings(u1, u2, dx) with i <-> j, as sets without repetition *)
Lemma couplings_reverse lat : wf lat -> forall u1 u2 dx0 dxr,
  0 <= u1 < Lu lat -> 0 <= u2 < Lu lat ->
  (open0 lat = true -> Forall (fun s => s = 0) (shiftr lat) \/ Z.abs dx0 < L0 lat) ->
  forall i j, In (i, j) (coupling_pairs lat u1 u2 dx0 dxr) <->
              In (j, i) (coupling_pairs lat u2 u1 (- dx0) (map Z.opp dxr)).
Proof.
  intros Hwf u1 u2 dx0 dxr Hu1 Hu2 Hsh i j.
  destruct (couplings_exact lat Hwf u1 u2 dx0 dxr Hu2 Hsh) as [_ HA].
  assert (Hsh' : open0 lat = true -> Forall (fun s => s = 0) (shiftr lat) \/ Z.abs (- dx0) < L0 lat).
  { intros Ho. destruct (Hsh Ho) as [A|A]; [now left|right; lia]. }
  destruct (couplings_exact lat Hwf u2 u1 (- dx0) (map Z.opp dxr) Hu1 Hsh') as [_ HB].
  rewrite HA, HB. now apply coupled_sym.
Qed.
