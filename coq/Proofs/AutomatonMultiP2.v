(* add_multi_coupling_term's splitting at switchLR keeps the operator:
   nf_mterm (split_term ops strs sw w) = (w, term_word ops strs). *)
From TenpyV Require Import Base.Prelude Model.Automaton Model.AutomatonMulti Model.AutomatonSplit Proofs.AutomatonMultiP.
Open Scope Z_scope.

Lemma consop_app2 i op u v : consop i op (u ++ v) = consop i op u ++ v.
Proof. unfold consop. destruct (op =? 0); reflexivity. Qed.

(* wstring k (n + 1 + m) = wstring k n ++ [s at k+n] ++ wstring (k+n+1) m *)
Lemma wstring_split : forall n k m s,
  wstring k (n + S m) s = wstring k n s ++ consop (k + n) s (wstring (S (k + n)) m s).
Proof.
  induction n as [|n IH]; intros k m s.
  - cbn [Nat.add wstring app]. rewrite Nat.add_0_r. reflexivity.
  - cbn [Nat.add wstring]. rewrite IH. rewrite consop_app2.
    replace (S k + n)%nat with (k + S n)%nat by lia. reflexivity.
Qed.

(* ---- forward form of lword (rev l) *)
Definition nxt (l : list triple) (b : nat) : nat := match l with [] => b | t :: _ => tsite t end.
Fixpoint lw (l : list triple) (b : nat) : word :=
  match l with
  | [] => []
  | t :: l' => consop (tsite t) (top t) (wstring (S (tsite t)) (nxt l' b - tsite t - 1) (tstr t)) ++ lw l' b
  end.

Lemma lw_snoc : forall l t b, lw (l ++ [t]) b = lw l (tsite t) ++ lw [t] b.
Proof.
  induction l as [|x l IH]; intros t b.
  - reflexivity.
  - cbn [app lw]. rewrite IH. rewrite <- app_assoc. f_equal.
    destruct l as [|y l]; reflexivity.
Qed.

Lemma lword_rev : forall l b, lword (rev l) b = lw l b.
Proof.
  induction l as [|t l IH] using rev_ind; intros b.
  - reflexivity.
  - rewrite rev_app_distr. cbn [rev app lword]. rewrite IH, lw_snoc.
    cbn [lw nxt]. rewrite app_nil_r. reflexivity.
Qed.

(* ---- forward form of rev (split_right (rev ops) (rev strs) sw) *)
Fixpoint sr (ops : list (nat * Z)) (strs : list Z) (sw : nat) : list triple :=
  match ops with
  | [] => []
  | _ :: ops' =>
      match ops', strs with
      | y :: _, s :: strs' => (if (sw <? fst y)%nat then [(fst y, snd y, s)] else []) ++ sr ops' strs' sw
      | _, _ => []
      end
  end.

Lemma sr_cons2 x y ops s strs sw :
  sr (x :: y :: ops) (s :: strs) sw = (if (sw <? fst y)%nat then [(fst y, snd y, s)] else []) ++ sr (y :: ops) strs sw.
Proof. reflexivity. Qed.
Lemma split_left_cons i a ops s strs sw :
  split_left ((i, a) :: ops) (s :: strs) sw = if (i <? sw)%nat then (i, a, s) :: split_left ops strs sw else [].
Proof. reflexivity. Qed.
Lemma op_switch_cons i a ops strs prev sw :
  op_switch ((i, a) :: ops) strs prev sw =
  if Nat.eqb sw i then a else if (sw <? i)%nat then prev
  else match strs with s :: strs' => op_switch ops strs' s sw | [] => prev end.
Proof. reflexivity. Qed.

Lemma sr_snoc : forall ops strs y s sw, ops <> [] -> length ops = S (length strs) ->
  sr (ops ++ [y]) (strs ++ [s]) sw = sr ops strs sw ++ (if (sw <? fst y)%nat then [(fst y, snd y, s)] else []).
Proof.
  induction ops as [|x ops IH]; intros strs y s sw Hne Hlen; [congruence|].
  destruct ops as [|x2 ops].
  - destruct strs as [|s0 strs]; [|cbn [length] in Hlen; lia].
    cbn [app sr]. rewrite app_nil_r. reflexivity.
  - destruct strs as [|s0 strs]; [cbn [length] in Hlen; lia|].
    cbn [length] in Hlen.
    change (((x :: x2 :: ops) ++ [y])) with (x :: x2 :: (ops ++ [y])).
    change ((s0 :: strs) ++ [s]) with (s0 :: (strs ++ [s])).
    rewrite !sr_cons2.
    change (x2 :: ops ++ [y]) with ((x2 :: ops) ++ [y]).
    rewrite IH; [|congruence|cbn [length]; lia].
    rewrite app_assoc. reflexivity.
Qed.

Lemma ops_asc_cons x ops : ops_asc (x :: ops) = true -> ops_asc ops = true.
Proof. cbn [ops_asc]. destruct ops; intros H; [reflexivity|]. apply andb_true_iff in H. tauto. Qed.

Lemma ops_asc_snoc : forall ops y, ops_asc (ops ++ [y]) = true ->
  ops_asc ops = true /\ (forall x, In x ops -> (fst x < fst y)%nat).
Proof.
  induction ops as [|x ops IH]; intros y H.
  - split; [reflexivity|intros x []].
  - change ((x :: ops) ++ [y]) with (x :: (ops ++ [y])) in H.
    pose proof (ops_asc_cons _ _ H) as H2. destruct (IH y H2) as [Ha Hb].
    split.
    + cbn [ops_asc]. destruct ops as [|x2 ops]; [reflexivity|].
      cbn [ops_asc app] in H. apply andb_true_iff in H. destruct H as [H _].
      rewrite H. exact Ha.
    + intros z [<-|Hz]; [|apply Hb; exact Hz].
      destruct ops as [|x2 ops].
      * cbn [ops_asc app] in H. lia.
      * cbn [ops_asc app] in H. apply andb_true_iff in H. destruct H as [H _].
        specialize (Hb x2 (or_introl eq_refl)). lia.
Qed.

Lemma sr_nil_le : forall ops strs sw, (forall x, In x ops -> (fst x <= sw)%nat) -> sr ops strs sw = [].
Proof.
  induction ops as [|x ops IH]; intros strs sw H; [reflexivity|].
  cbn [sr]. destruct ops as [|y ops]; [reflexivity|]. destruct strs as [|s strs]; [reflexivity|].
  rewrite IH by (intros z Hz; apply H; right; exact Hz).
  assert ((fst y <= sw)%nat) by (apply H; right; left; reflexivity).
  destruct (sw <? fst y)%nat eqn:E; [lia|reflexivity].
Qed.

Lemma split_right_rev : forall ops strs sw, ops_asc ops = true -> length ops = S (length strs) ->
  rev (split_right (rev ops) (rev strs) sw) = sr ops strs sw.
Proof.
  induction ops as [|y ops IH] using rev_ind; intros strs sw Ha Hlen; [cbn [length] in Hlen; lia|].
  destruct (ops_asc_snoc _ _ Ha) as [Ha' Hlt].
  rewrite app_length in Hlen. cbn [length] in Hlen.
  destruct ops as [|x0 ops0].
  - destruct strs as [|s strs]; [|cbn [length] in Hlen; lia].
    destruct y as [j b]. reflexivity.
  - destruct (exists_last (l := strs)) as [strs0 [s ->]].
    { intros ->. cbn [length] in Hlen. lia. }
    rewrite app_length in Hlen. cbn [length] in Hlen.
    rewrite sr_snoc; [|congruence|cbn [length]; lia].
    rewrite !rev_app_distr. cbn [rev app]. destruct y as [j b]. cbn [split_right fst snd].
    destruct (sw <? j)%nat eqn:E.
    + cbn [rev]. rewrite IH; [reflexivity|exact Ha'|cbn [length]; lia].
    + cbn [rev]. rewrite sr_nil_le; [reflexivity|].
      intros z Hz. specialize (Hlt z Hz). cbn [fst] in Hlt. lia.
Qed.

(* ---- the word right of an operator *)
Definition tail_word (ops : list (nat * Z)) (strs : list Z) : word :=
  match ops with
  | [] => []
  | x :: ops' => match ops', strs with
                 | y :: _, s :: strs' => wstring (S (fst x)) (fst y - fst x - 1) s ++ term_word ops' strs'
                 | _, _ => []
                 end
  end.
Lemma term_word_cons x ops strs : term_word (x :: ops) strs = consop (fst x) (snd x) (tail_word (x :: ops) strs).
Proof. destruct x as [i a]. cbn [term_word tail_word fst snd]. destruct ops as [|[j b] ops]; reflexivity. Qed.

Lemma term_word_cons' i a ops strs : term_word ((i, a) :: ops) strs = consop i a (tail_word ((i, a) :: ops) strs).
Proof. apply (term_word_cons (i, a)). Qed.

(* all operators right of switchLR *)
Lemma rword_sr : forall ops x strs sw, ops_asc (x :: ops) = true -> (sw <= fst x)%nat ->
  rword (sr (x :: ops) strs sw) (S (fst x)) = tail_word (x :: ops) strs.
Proof.
  induction ops as [|y ops IH]; intros x strs sw Ha Hx.
  - reflexivity.
  - destruct strs as [|s strs]; [reflexivity|].
    pose proof (ops_asc_cons _ _ Ha) as Ha2.
    assert (Hxy : (fst x < fst y)%nat) by (cbn [ops_asc] in Ha; lia).
    rewrite sr_cons2. cbn [tail_word].
    destruct (sw <? fst y)%nat eqn:E; [|lia].
    cbn [app rword tsite top tstr fst snd].
    rewrite IH; [|exact Ha2|lia].
    rewrite term_word_cons.
    replace (fst y - S (fst x))%nat with (fst y - fst x - 1)%nat by lia. reflexivity.
Qed.

Lemma split_left_ge : forall ops strs sw, (forall x, In x ops -> (sw <= fst x)%nat) -> split_left ops strs sw = [].
Proof.
  intros [|[i a] ops] strs sw H; [reflexivity|]. destruct strs as [|s strs]; [reflexivity|].
  cbn [split_left]. specialize (H (i, a) (or_introl eq_refl)). cbn [fst] in H.
  destruct (i <? sw)%nat eqn:E; [lia|reflexivity].
Qed.

Lemma last_cons2 {A} (x y : A) l d : last (x :: y :: l) d = last (y :: l) d.
Proof. reflexivity. Qed.

(* main induction, forward over the operators *)
Lemma split_word : forall ops strs sw prev, ops_asc ops = true -> length ops = S (length strs) ->
  (fst (hd dflt_op ops) <= sw)%nat -> (sw <= fst (last ops dflt_op))%nat ->
  lw (split_left ops strs sw) sw ++ consop sw (op_switch ops strs prev sw) (rword (sr ops strs sw) (S sw))
  = term_word ops strs.
Proof.
  induction ops as [|x ops IH]; intros strs sw prev Ha Hlen Hlo Hhi; [cbn [length] in Hlen; lia|].
  destruct x as [i a]. cbn [hd fst] in Hlo.
  destruct (Nat.eq_dec i sw) as [->|Hne].
  - (* switchLR is the site of this operator *)
    assert (Hl : split_left ((sw, a) :: ops) strs sw = []).
    { destruct strs as [|s strs]; [reflexivity|]. cbn [split_left].
      destruct (sw <? sw)%nat eqn:E; [lia|reflexivity]. }
    rewrite Hl. cbn [lw app op_switch]. rewrite Nat.eqb_refl.
    rewrite term_word_cons. cbn [fst snd].
    change (S sw) with (S (fst (sw, a))).
    rewrite rword_sr; [reflexivity|exact Ha|cbn [fst]; lia].
  - assert (Hi : (i < sw)%nat) by lia.
    destruct ops as [|y ops]; [cbn [last fst] in Hhi; lia|].
    destruct strs as [|s strs]; [cbn [length] in Hlen; lia|].
    cbn [length] in Hlen.
    pose proof (ops_asc_cons _ _ Ha) as Ha2.
    assert (Hiy : (i < fst y)%nat) by (cbn [ops_asc fst] in Ha; lia).
    rewrite last_cons2 in Hhi.
    destruct y as [j b]. cbn [fst] in Hiy.
    rewrite split_left_cons, op_switch_cons, sr_cons2. cbn [fst snd].
    destruct (i <? sw)%nat eqn:E1; [|lia].
    destruct (Nat.eqb sw i) eqn:E2; [lia|].
    destruct (sw <? i)%nat eqn:E3; [lia|].
    rewrite term_word_cons. cbn [tail_word fst snd].
    destruct (sw <? j)%nat eqn:E4.
    + (* switchLR lies strictly between this operator and the next one *)
      rewrite split_left_ge.
      2:{ intros z [<-|Hz]; [cbn [fst]; lia|].
          assert (Hall : forall ops0 x0, ops_asc (x0 :: ops0) = true -> forall z0, In z0 ops0 -> (fst x0 < fst z0)%nat).
          { induction ops0 as [|q ops0 IHo]; intros x0 Hx0 z0 Hz0; [destruct Hz0|].
            pose proof (ops_asc_cons _ _ Hx0) as Hq.
            assert ((fst x0 < fst q)%nat) by (cbn [ops_asc] in Hx0; lia).
            destruct Hz0 as [<-|Hz0]; [assumption|].
            specialize (IHo q Hq z0 Hz0). lia. }
          specialize (Hall ops (j, b) Ha2 z Hz). cbn [fst] in Hall. lia. }
      cbn [lw nxt app tsite top tstr fst snd]. rewrite app_nil_r.
      rewrite op_switch_cons. destruct (Nat.eqb sw j) eqn:E5; [lia|]. rewrite E4.
      cbn [app rword tsite top tstr fst snd].
      change (S j) with (S (fst (j, b))).
      rewrite rword_sr; [|exact Ha2|cbn [fst]; lia].
      rewrite <- term_word_cons'.
      rewrite <- consop_app2. f_equal.
      replace (j - i - 1)%nat with ((sw - i - 1) + S (j - S sw))%nat by lia.
      rewrite wstring_split.
      replace (S i + (sw - i - 1))%nat with sw by lia.
      rewrite <- app_assoc, <- consop_app2. reflexivity.
    + (* the next operator is still left of (or on) switchLR *)
      cbn [app].
      specialize (IH strs sw s Ha2 ltac:(cbn [length]; lia) ltac:(cbn [hd fst]; lia) Hhi).
      cbn [lw tsite top tstr fst snd].
      assert (Hn : nxt (split_left ((j, b) :: ops) strs sw) sw = j).
      { destruct strs as [|s1 strs1].
        - (* no string left: (j, b) is the last operator, so j = sw *)
          destruct ops as [|y2 ops]; [|cbn [length] in Hlen; lia].
          cbn [last fst] in Hhi. cbn [split_left nxt]. lia.
        - rewrite split_left_cons. destruct (j <? sw)%nat eqn:E6; cbn [nxt tsite fst]; lia. }
      rewrite Hn. rewrite <- app_assoc. rewrite IH.
      rewrite <- consop_app2. reflexivity.
Qed.

Theorem split_term_nf : forall ops strs sw w, split_ok ops strs sw = true ->
  nf_mterm (split_term ops strs sw w) = (w, term_word ops strs).
Proof.
  intros ops strs sw w H. unfold split_ok in H.
  repeat (apply andb_true_iff in H; destruct H as [H ?]).
  unfold nf_mterm, split_term. cbn [mt_w mt_left mt_right mt_sw mt_op]. f_equal.
  rewrite lword_rev, split_right_rev; [|assumption|apply Nat.eqb_eq; assumption].
  apply split_word; [assumption|apply Nat.eqb_eq; assumption|lia|lia].
Qed.


(* ---- the stored form satisfies the precondition mterm_ok of T10_add_to_graph_multi *)
Lemma asc_split_left : forall ops strs sw lo, ops_asc ops = true -> (lo <= fst (hd dflt_op ops))%nat ->
  asc lo (split_left ops strs sw) sw = true.
Proof.
  induction ops as [|[i a] ops IH]; intros strs sw lo Ha Hlo; [reflexivity|].
  destruct strs as [|s strs]; [reflexivity|].
  rewrite split_left_cons. destruct (i <? sw)%nat eqn:E; [|reflexivity].
  cbn [asc tsite fst hd] in *.
  destruct ops as [|y ops]; [cbn [split_left asc]; lia|].
  rewrite IH; [lia|exact (ops_asc_cons _ _ Ha)|]. cbn [ops_asc hd fst] in *. lia.
Qed.

Fixpoint ops_desc (ops : list (nat * Z)) : bool :=
  match ops with
  | [] => true
  | x :: ops' => match ops' with [] => true | y :: _ => (fst y <? fst x)%nat end && ops_desc ops'
  end.
Lemma ops_desc_rev : forall ops, ops_asc ops = true -> ops_desc (rev ops) = true.
Proof.
  induction ops as [|y ops IH] using rev_ind; intros Ha; [reflexivity|].
  destruct (ops_asc_snoc _ _ Ha) as [Ha' Hlt].
  rewrite rev_app_distr. cbn [rev app ops_desc]. rewrite (IH Ha').
  destruct (rev ops) as [|z r] eqn:Er; [reflexivity|].
  assert (Hz : In z ops) by (apply in_rev; rewrite Er; left; reflexivity).
  specialize (Hlt z Hz). lia.
Qed.
Lemma desc_split_right : forall rops rstrs sw hi, ops_desc rops = true -> (fst (hd dflt_op rops) < hi)%nat ->
  desc hi (split_right rops rstrs sw) sw = true.
Proof.
  induction rops as [|[i a] rops IH]; intros rstrs sw hi Hd Hhi; [reflexivity|].
  destruct rstrs as [|s rstrs]; [reflexivity|].
  cbn [split_right]. destruct (sw <? i)%nat eqn:E; [|reflexivity].
  cbn [desc tsite fst hd] in *.
  destruct rops as [|y rops]; [cbn [split_right desc]; lia|].
  rewrite IH; [lia| |].
  - change (ops_desc ((i, a) :: y :: rops)) with ((fst y <? fst (i, a))%nat && ops_desc (y :: rops)) in Hd.
    apply andb_true_iff in Hd. tauto.
  - change (ops_desc ((i, a) :: y :: rops)) with ((fst y <? fst (i, a))%nat && ops_desc (y :: rops)) in Hd.
    apply andb_true_iff in Hd. destruct Hd as [Hd _]. cbn [hd fst] in *. lia.
Qed.
Lemma hd_rev_last {A} (l : list A) d : hd d (rev l) = last l d.
Proof.
  induction l as [|x l IH] using rev_ind; [reflexivity|].
  rewrite rev_app_distr, last_last. reflexivity.
Qed.

Theorem split_term_ok : forall L ops strs sw w, split_ok ops strs sw = true ->
  (fst (last ops dflt_op) < L)%nat -> mterm_ok L (split_term ops strs sw w) = true.
Proof.
  intros L ops strs sw w H HL. unfold split_ok in H.
  repeat (apply andb_true_iff in H; destruct H as [H ?]).
  unfold mterm_ok, split_term. cbn [mt_left mt_right mt_sw].
  rewrite asc_split_left by (assumption || lia).
  rewrite desc_split_right; [lia|apply ops_desc_rev; assumption|rewrite hd_rev_last; exact HL].
Qed.

(* MultiCouplingTerms.add_multi_coupling_term followed by add_to_graph, one term given as
   (ijkl, ops_ijkl, op_string, switchLR): exactly  w * op_0(i_0) str_0 ... op_n(i_n)  is added *)

Theorem add_split_term : forall g ops strs sw w, mwf g -> split_ok ops strs sw = true ->
  (fst (last ops dflt_op) < length g)%nat ->
  mwf (add_mterm g (split_term ops strs sw w)) /\
  peq (denote (close (add_mterm g (split_term ops strs sw w)))) ((w, term_word ops strs) :: denote (close g)).
Proof.
  intros g ops strs sw w Hg Hok HL.
  rewrite <- (split_term_nf ops strs sw w Hok).
  apply add_to_graph_multi; [exact Hg|apply split_term_ok; assumption].
Qed.

(* the stored form is a valid multi-site term on a chain that contains the last site *)
Example split_ok_ex :
  split_ok [(0%nat, 5); (2%nat, 6); (4%nat, 7); (5%nat, 8)] [9; 2; 0] 3 = true /\
  split_ok [(0%nat, 5); (2%nat, 6); (4%nat, 7); (5%nat, 8)] [9; 2; 0] 0 = true /\
  split_ok [(0%nat, 5); (2%nat, 6); (4%nat, 7); (5%nat, 8)] [9; 2; 0] 5 = true /\
  split_ok [(1%nat, 5); (4%nat, 6)] [7] 2 = true.
Proof. vm_compute. repeat split; reflexivity. Qed.
