(* Lemmas about the make_U_I correspondence checker (Model/PropUICheck.v), property C11:
   - the graded automaton evaluated at t IS the evaluated U_I graph (edge for edge);
   - the entry-wise comparison of W grids used by the checker is sound for the operator: two graphs with the
     same W grid function (keyL, keyR, operator) -> total coefficient on every site denote the same operator,
     from every start state to every final state;
   - hence every implementation result accepted by check_UI_grid denotes the Taylor polynomial of the graded
     automaton of H (and 1 + t H + higher orders when H is in standard sum form). *)
From TenpyV Require Import Base.Prelude Model.Automaton Model.PropUI Model.PropUICheck.
From TenpyV Require Import Proofs.AutomatonP Proofs.PropUIP.
Open Scope Z_scope.

(* ------------------------------------------------------------------ graded graph evaluated at t *)
Lemma edge_eta e : mkE (eL e) (eR e) (eop e) (ew e) = e.
Proof. destruct e; reflexivity. Qed.

Lemma geval_ui_edge t e :
  match ui_edge e with Some x => Some (geval_edge t x) | None => None end = ui_eval_edge t e.
Proof.
  unfold ui_edge, ui_eval_edge. destruct (key_eqb (eL e) IdR); [reflexivity|].
  destruct (key_eqb (eR e) IdR); unfold geval_edge; cbn [fst snd eL eR eop ew].
  - rewrite cpow_1. reflexivity.
  - cbn [cpow]. rewrite cmul_1_l, edge_eta. reflexivity.
Qed.

Theorem geval_ui_graph t g : geval t (ui_graph g) = ui_eval t g.
Proof.
  unfold geval, ui_graph, ui_eval. rewrite map_map. apply map_ext. intro es.
  unfold ui_site, ui_eval_site. induction es as [|e es IH]; cbn [flat_map map]; [reflexivity|].
  rewrite map_app, IH. f_equal. rewrite <- geval_ui_edge. destruct (ui_edge e); reflexivity.
Qed.

(* ------------------------------------------------------------------ slots *)
Lemma same_slot_iff e f :
  same_slot e f = true <-> eL f = eL e /\ eR f = eR e /\ eop f = eop e.
Proof.
  unfold same_slot. rewrite !andb_true_iff, !key_eqb_eq, Z.eqb_eq. tauto.
Qed.
Lemma same_slot_refl e : same_slot e e = true.
Proof. apply same_slot_iff. repeat split; reflexivity. Qed.
Lemma same_slot_false e f :
  same_slot e f = false <-> ~ (eL f = eL e /\ eR f = eR e /\ eop f = eop e).
Proof.
  rewrite <- same_slot_iff. destruct (same_slot e f).
  - split; [discriminate|]. intro H. exfalso. apply H. reflexivity.
  - split; [intros _ H'; discriminate|reflexivity].
Qed.

Ltac slots :=
  repeat match goal with
         | H : same_slot _ _ = true |- _ => apply same_slot_iff in H; destruct H as (? & ? & ?)
         | H : same_slot _ _ = false |- _ => apply same_slot_false in H
         end.

Definition slot_fun (phi : edge -> C) : Prop := forall e f, same_slot e f = true -> phi f = phi e.
Fixpoint wsum (phi : edge -> C) (es : list edge) : C :=
  match es with [] => c0 | e :: t => cadd (cmul (ew e) (phi e)) (wsum phi t) end.
Definition rm (e0 : edge) (l : list edge) : list edge := filter (fun f => negb (same_slot e0 f)) l.

Lemma ecoef_cons e f l :
  ecoef (f :: l) e = if same_slot e f then cadd (ew f) (ecoef l e) else ecoef l e.
Proof. reflexivity. Qed.

Lemma rm_cons e0 f l : rm e0 (f :: l) = if same_slot e0 f then rm e0 l else f :: rm e0 l.
Proof. unfold rm. cbn [filter]. destruct (same_slot e0 f); reflexivity. Qed.

Lemma rm_length e0 l : (length (rm e0 l) <= length l)%nat.
Proof.
  induction l as [|f l IH]; [apply Nat.le_refl|]. rewrite rm_cons.
  destruct (same_slot e0 f); cbn [length]; lia.
Qed.

Lemma wsum_split phi e0 l : slot_fun phi ->
  wsum phi l = cadd (cmul (ecoef l e0) (phi e0)) (wsum phi (rm e0 l)).
Proof.
  intro Hphi. induction l as [|f l IH].
  - cbn [wsum ecoef fold_right rm filter]. csolve.
  - rewrite ecoef_cons, rm_cons. cbn [wsum]. destruct (same_slot e0 f) eqn:E.
    + rewrite (Hphi e0 f E), IH. csolve.
    + cbn [wsum]. rewrite IH. csolve.
Qed.

Lemma ecoef_rm e0 l e : ecoef (rm e0 l) e = if same_slot e0 e then c0 else ecoef l e.
Proof.
  induction l as [|f l IH].
  - cbn [rm filter ecoef fold_right]. destruct (same_slot e0 e); reflexivity.
  - rewrite rm_cons. destruct (same_slot e0 f) eqn:E.
    + rewrite IH, ecoef_cons. destruct (same_slot e0 e) eqn:E2; [reflexivity|].
      destruct (same_slot e f) eqn:E3; [|reflexivity].
      exfalso. slots. apply E2. repeat split; congruence.
    + rewrite !ecoef_cons, IH. destruct (same_slot e0 e) eqn:E2; [|reflexivity].
      destruct (same_slot e f) eqn:E3; [|reflexivity].
      exfalso. slots. apply E. repeat split; congruence.
Qed.

Lemma wsum_ext phi : slot_fun phi -> forall n es fs, (length es + length fs <= n)%nat ->
  (forall e, In e (es ++ fs) -> ecoef es e = ecoef fs e) -> wsum phi es = wsum phi fs.
Proof.
  intro Hphi. induction n as [|n IH]; intros es fs Hlen H.
  - destruct es; [|cbn [length] in Hlen; lia]. destruct fs; [reflexivity|cbn [length] in Hlen; lia].
  - assert (Hstep : forall e0, In e0 (es ++ fs) ->
                    (length (rm e0 es) + length (rm e0 fs) <= n)%nat -> wsum phi es = wsum phi fs).
    { intros e0 Hin Hl. rewrite (wsum_split phi e0 es Hphi), (wsum_split phi e0 fs Hphi), (H e0 Hin).
      f_equal. apply IH; [exact Hl|]. intros e He. rewrite !ecoef_rm.
      destruct (same_slot e0 e) eqn:E; [reflexivity|]. apply H.
      apply in_app_or in He. apply in_or_app. unfold rm in He. rewrite !filter_In in He. tauto. }
    destruct es as [|e0 es'].
    + destruct fs as [|e0 fs']; [reflexivity|].
      apply (Hstep e0); [left; reflexivity|]. rewrite rm_cons, same_slot_refl.
      pose proof (rm_length e0 fs'). cbn [rm filter length] in *. lia.
    + apply (Hstep e0); [left; reflexivity|]. rewrite rm_cons, same_slot_refl.
      pose proof (rm_length e0 es'). pose proof (rm_length e0 fs). cbn [length] in Hlen. lia.
Qed.

(* ------------------------------------------------------------------ one site *)
(* the operator of state k left of a site with edges es, when state r right of it denotes D r *)
Definition sden (D : key -> poly) (i : nat) (k : key) (es : list edge) : poly :=
  flat_map (fun e => if key_eqb (eL e) k then map (mstep i e) (D (eR e)) else []) es.
Definition unit_edge (e : edge) : edge := mkE (eL e) (eR e) (eop e) c1.
Definition sphi (D : key -> poly) (i : nat) (k : key) (w : word) (e : edge) : C :=
  if key_eqb (eL e) k then coef (map (mstep i (unit_edge e)) (D (eR e))) w else c0.

Lemma coef_mstep_unit i e p w :
  coef (map (mstep i e) p) w = cmul (ew e) (coef (map (mstep i (unit_edge e)) p) w).
Proof.
  rewrite !coef_map_mstep. unfold unit_edge. cbn [eop ew].
  destruct (eop e =? 0); [rewrite cmul_1_l; reflexivity|].
  destruct w as [|l v]; [symmetry; apply cmul_0_r|].
  destruct (letter_eqb (i, eop e) l); [rewrite cmul_1_l; reflexivity|symmetry; apply cmul_0_r].
Qed.

Lemma sphi_slot D i k w : slot_fun (sphi D i k w).
Proof.
  intros e f E. slots. unfold sphi, unit_edge.
  repeat match goal with H : _ f = _ e |- _ => rewrite H; clear H end. reflexivity.
Qed.

Lemma coef_sden D i k es w : coef (sden D i k es) w = wsum (sphi D i k w) es.
Proof.
  unfold sden. induction es as [|e es IH]; cbn [flat_map wsum]; [reflexivity|].
  rewrite coef_app, IH. f_equal. unfold sphi. destruct (key_eqb (eL e) k).
  - apply coef_mstep_unit.
  - cbn [coef]. symmetry. apply cmul_0_r.
Qed.

Lemma ending_paths_cons kf es g i k :
  ending kf (paths (es :: g) i k) = sden (fun r => ending kf (paths g (S i) r)) i k es.
Proof.
  cbn [paths]. rewrite ending_flat_map. unfold sden. apply flat_map_ext. intro e.
  destruct (key_eqb (eL e) k); [apply ending_pstep|reflexivity].
Qed.

Lemma site_fun_eqb_spec es fs : site_fun_eqb es fs = true ->
  forall e, In e (es ++ fs) -> ecoef es e = ecoef fs e.
Proof.
  unfold site_fun_eqb. rewrite forallb_forall. intros H e He. apply ceqb_eq. apply H. exact He.
Qed.

(* ------------------------------------------------------------------ soundness of the grid comparison *)
Theorem grid_fun_sound : forall g h, grid_fun_eqb g h = true ->
  forall kf i k, peq (ending kf (paths g i k)) (ending kf (paths h i k)).
Proof.
  unfold grid_fun_eqb. induction g as [|es g IH]; intros [|fs h] Hgh kf i k; cbn [list_eqb] in Hgh;
    try discriminate; [apply peq_refl|].
  apply andb_true_iff in Hgh. destruct Hgh as [Hs Ht].
  rewrite !ending_paths_cons.
  apply peq_trans with (sden (fun r => ending kf (paths h (S i) r)) i k es).
  - unfold sden.
    apply (peq_flat_map_pointwise
             (fun e => if key_eqb (eL e) k then map (mstep i e) (ending kf (paths g (S i) (eR e))) else [])
             (fun e => if key_eqb (eL e) k then map (mstep i e) (ending kf (paths h (S i) (eR e))) else [])).
    intros e _. destruct (key_eqb (eL e) k); [|apply peq_refl].
    apply peq_map_mstep. apply (IH h Ht kf (S i) (eR e)).
  - intro w. rewrite !coef_sden.
    apply (wsum_ext _ (sphi_slot _ i k w) (length es + length fs)%nat es fs (Nat.le_refl _)).
    apply site_fun_eqb_spec. exact Hs.
Qed.

Theorem grid_fun_denote g h kf : grid_fun_eqb g h = true -> peq (denote_to kf g) (denote_to kf h).
Proof. intro H. unfold denote_to. apply grid_fun_sound. exact H. Qed.

(* ------------------------------------------------------------------ what an accepted case means *)
Lemma check_UI_grid_parts c : check_UI_grid c = true ->
  grid_fun_eqb (ui_eval (ui_t c) (ui_case_H c)) (ui_case_U c) = true /\
  grid_fun_eqb (geval (ui_t c) (ui_graph (ui_case_H c))) (ui_case_U c) = true.
Proof.
  unfold check_UI_grid. rewrite !andb_true_iff. tauto.
Qed.

(* uses only the entry-wise W grid comparison of the checker (not its operator comparison check_UI) *)
Theorem check_UI_grid_sound c : check_UI_grid c = true ->
  peq (denote_to IdL (ui_case_U c)) (ui_taylor (ui_t c) (ui_case_H c)).
Proof.
  intro H. destruct (check_UI_grid_parts c H) as [H1 _].
  eapply peq_trans; [apply peq_sym; apply (grid_fun_denote _ _ IdL H1)|]. apply UI_eval.
Qed.

Theorem check_UI_grid_first_order c : check_UI_grid c = true -> std_form (ui_case_H c) = true ->
  peq (denote_to IdL (ui_case_U c))
      ((c1, []) :: pscale (ui_t c) (denote (ui_case_H c)) ++
       flat_map (fun d => pscale (cpow (ui_t c) d) (ui_den d (ui_case_H c)))
                (seq 2 (length (ui_case_H c) - 1))).
Proof.
  intros H Hs. destruct (check_UI_grid_parts c H) as [H1 _].
  eapply peq_trans; [apply peq_sym; apply (grid_fun_denote _ _ IdL H1)|]. apply UI_first_order. exact Hs.
Qed.

(* ------------------------------------------------------------------ examples *)
(* H = 3 Sz_0 + (2 + i) Sp_0 Sm_1 on two sites, bond indices permuted (IdL > IdR on the middle bond), dt = 1 + i *)
Definition uic_ex : uicase :=
  mkUIC (1, 1) [0; 2; 0] [1; 0; 1] [2; 3; 2]
        [[(0, 2, 0, (1, 0)); (0, 0, 1, (3, 0)); (0, 1, 2, (1, 0)); (1, 0, 0, (1, 0))];
         [(2, 0, 0, (1, 0)); (1, 1, 3, (2, 1)); (0, 1, 0, (1, 0))]]
        [0; 1; 0] [0; 1; 0] [1; 2; 1]
        [[(0, 1, 0, (1, 0)); (0, 1, 1, (3, 3)); (0, 0, 2, (1, 0))];
         [(1, 0, 0, (1, 0)); (0, 0, 3, (1, 3))]].
Lemma uic_ex_ok :
  check_UI_grid uic_ex = true /\ std_form (ui_case_H uic_ex) = true /\
  normalize (denote (ui_case_H uic_ex)) = [((3, 0), [(0%nat, 1)]); ((2, 1), [(0%nat, 2); (1%nat, 3)])] /\
  normalize (denote_to IdL (ui_case_U uic_ex)) =
    [((1, 0), []); ((3, 3), [(0%nat, 1)]); ((1, 3), [(0%nat, 2); (1%nat, 3)])].
Proof. vm_compute. repeat split; reflexivity. Qed.
(* a wrong coefficient / a wrong IdL index of the result is rejected *)
Definition uic_ex_bad1 : uicase :=
  mkUIC (1, 1) [0; 2; 0] [1; 0; 1] [2; 3; 2]
        [[(0, 2, 0, (1, 0)); (0, 0, 1, (3, 0)); (0, 1, 2, (1, 0)); (1, 0, 0, (1, 0))];
         [(2, 0, 0, (1, 0)); (1, 1, 3, (2, 1)); (0, 1, 0, (1, 0))]]
        [0; 1; 0] [0; 1; 0] [1; 2; 1]
        [[(0, 1, 0, (1, 0)); (0, 1, 1, (3, 0)); (0, 0, 2, (1, 0))];
         [(1, 0, 0, (1, 0)); (0, 0, 3, (1, 3))]].
Definition uic_ex_bad2 : uicase :=
  mkUIC (1, 1) [0; 2; 0] [1; 0; 1] [2; 3; 2]
        [[(0, 2, 0, (1, 0)); (0, 0, 1, (3, 0)); (0, 1, 2, (1, 0)); (1, 0, 0, (1, 0))];
         [(2, 0, 0, (1, 0)); (1, 1, 3, (2, 1)); (0, 1, 0, (1, 0))]]
        [0; 2; 0] [0; 2; 0] [1; 2; 1]
        [[(0, 1, 0, (1, 0)); (0, 1, 1, (3, 3)); (0, 0, 2, (1, 0))];
         [(1, 0, 0, (1, 0)); (0, 0, 3, (1, 3))]].
Lemma uic_ex_rejects : check_UI_grid uic_ex_bad1 = false /\ check_UI_grid uic_ex_bad2 = false.
Proof. vm_compute. split; reflexivity. Qed.
(* the grid comparison adds up parallel edges and ignores zero entries *)
Lemma grid_fun_ex :
  grid_fun_eqb [[mkE IdL IdL 0 (1, 0); mkE IdL IdL 0 (2, 1); mkE IdL (Oth 1) 4 (0, 0)]]
               [[mkE IdL IdL 0 (3, 1)]] = true /\
  grid_fun_eqb [[mkE IdL IdL 0 (1, 0)]] [[mkE IdL IdL 0 (3, 1)]] = false.
Proof. vm_compute. split; reflexivity. Qed.
