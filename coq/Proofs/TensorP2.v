(* outer and the block pairing of tensordot: produced rows obey the charge rule; dense form of outer (sum semantics). *)
From TenpyV Require Import Base.Prelude Model.Charge Model.Tensor Model.TensorOps Proofs.ChargeP Proofs.TensorP.
Open Scope Z_scope.

Lemma outer_rows_in ci a b r : In r (rows (outer ci a b)) ->
  exists ra rb, r = ra ++ rb /\ In ra (rows a) /\ In rb (rows b).
Proof.
  unfold outer, rows. cbn [blks]. intros H. apply in_map_iff in H. destruct H as [blk [<- H]].
  apply in_flat_map in H. destruct H as [bb [Hbb H]]. apply in_map_iff in H. destruct H as [ba [<- Hba]].
  exists (fst ba), (fst bb). split; [reflexivity|]. split; apply in_map; assumption.
Qed.

Theorem charge_rule_outer ci a b : valid_ci ci -> WF ci a -> WF ci b -> charge_rule ci (outer ci a b).
Proof.
  intros Hv [A1 A2 A3 A4 A5] [B1 B2 B3 B4 B5] r Hr.
  destruct (outer_rows_in ci a b r Hr) as [ra [rb [-> [Ha Hb]]]].
  unfold outer. cbn [legs qtot]. apply row_ok_outer; try assumption.
  - apply A2. exact Ha.
  - apply A4. exact Ha.
  - apply B4. exact Hb.
Qed.

Lemma tdot_rows_in k a b r : In r (tdot_rows k a b) ->
  exists ra rb, In ra (rows a) /\ In rb (rows b) /\ skipn (rank a - k) ra = firstn k rb /\
                r = firstn (rank a - k) ra ++ skipn k rb.
Proof.
  unfold tdot_rows. intros H. apply in_flat_map in H. destruct H as [rb [Hb H]].
  apply in_flat_map in H. destruct H as [ra [Ha H]].
  destruct (row_eqb (skipn (rank a - k) ra) (firstn k rb)) eqn:E; [|destruct H].
  destruct H as [<-|[]]. apply row_eqb_eq in E. exists ra, rb. auto.
Qed.

(* every block produced by tensordot obeys the charge rule for qtotal = make_valid(qtotal_a + qtotal_b) *)
Theorem charge_rule_tensordot ci k a b : valid_ci ci -> WF ci a -> WF ci b ->
  (k <= rank a)%nat -> (k <= rank b)%nat ->
  Forall2 (contractible ci) (skipn (rank a - k) (legs a)) (firstn k (legs b)) ->
  forall r, In r (tdot_rows k a b) -> row_ok ci (tdot_legs k a b) (tdot_qtot ci a b) r.
Proof.
  intros Hv [A1 A2 A3 A4 A5] [B1 B2 B3 B4 B5] Hka Hkb HF r Hr.
  destruct (tdot_rows_in k a b r Hr) as [ra [rb [Ha [Hb [Hc ->]]]]].
  pose proof (A2 ra Ha) as Lra. pose proof (B2 rb Hb) as Lrb. unfold rank in *.
  unfold tdot_legs, tdot_qtot. unfold rank.
  set (n := length (legs a)) in *.
  apply (row_ok_tensordot ci (firstn (n - k) (legs a)) (skipn (n - k) (legs a)) (firstn k (legs b)) (skipn k (legs b))
                          (qtot a) (qtot b) (firstn (n - k) ra) (skipn (n - k) ra) (skipn k rb)); try assumption.
  - rewrite !firstn_length. lia.
  - rewrite !skipn_length. lia.
  - rewrite firstn_length, skipn_length. lia.
  - rewrite !firstn_skipn. apply A4. exact Ha.
  - rewrite Hc. rewrite !firstn_skipn. apply B4. exact Hb.
Qed.

(* ---- dense form of outer, as sum over the stored blocks *)
Lemma seq_plus n m : map (fun k => (n + k)%nat) (seq 0 m) = seq n m.
Proof. rewrite <- (map_id (seq n m)). symmetry. apply (map_seq_shift (fun x => x)). Qed.

Lemma inb_app la lb qa qb ia ib : length qa = length la -> length ia = length la ->
  inb (la ++ lb) (qa ++ qb) (ia ++ ib) = inb la qa ia && inb lb qb ib.
Proof.
  intros Hq Hi. unfold inb. rewrite app_length, seq_app, forallb_app. f_equal.
  - apply forallb_ext_in. intros k Hk. apply in_seq in Hk. rewrite !app_nth1 by lia. reflexivity.
  - cbn [Nat.add]. rewrite <- seq_plus, <- forallb_comp. apply forallb_ext_in. intros k _.
    rewrite (app_nth2_plus la lb). rewrite <- Hq. rewrite (app_nth2_plus qa qb).
    rewrite Hq, <- Hi. rewrite (app_nth2_plus ia ib). reflexivity.
Qed.

Lemma loc_app la lb qa qb ia ib : length qa = length la -> length ia = length la ->
  loc (la ++ lb) (qa ++ qb) (ia ++ ib) = loc la qa ia ++ loc lb qb ib.
Proof.
  intros Hq Hi. unfold loc. rewrite app_length, seq_app, map_app. f_equal.
  - apply map_ext_in. intros k Hk. apply in_seq in Hk. rewrite !app_nth1 by lia. reflexivity.
  - cbn [Nat.add]. rewrite <- seq_plus, map_map. apply map_ext. intros k.
    rewrite (app_nth2_plus la lb). rewrite <- Hq. rewrite (app_nth2_plus qa qb).
    rewrite Hq, <- Hi. rewrite (app_nth2_plus ia ib). reflexivity.
Qed.

Lemma firstn_app_len {A} (l1 l2 : list A) : firstn (length l1) (l1 ++ l2) = l1.
Proof. induction l1 as [|x l1 IH]; cbn; [destruct l2; reflexivity|]. rewrite IH. reflexivity. Qed.
Lemma skipn_app_len {A} (l1 l2 : list A) : skipn (length l1) (l1 ++ l2) = l2.
Proof. induction l1 as [|x l1 IH]; cbn; [reflexivity|exact IH]. Qed.

Definition omul (x y : option C) : option C :=
  match x, y with Some u, Some v => Some (cmul u v) | _, _ => None end.

Lemma bval_outer la lb ia ib (ba bb : block) : length (fst ba) = length la -> length ia = length la ->
  bval (la ++ lb) (ia ++ ib) (outer_block (length la) ba bb) = omul (bval la ia ba) (bval lb ib bb).
Proof.
  intros Hq Hi. unfold bval, outer_block. cbn [fst snd]. rewrite inb_app by assumption.
  destruct (inb la (fst ba) ia); [|reflexivity]. destruct (inb lb (fst bb) ib); [|reflexivity].
  cbn [andb omul]. rewrite loc_app by assumption.
  assert (Hl : length (loc la (fst ba) ia) = length la) by (unfold loc; rewrite map_length, seq_length; reflexivity).
  rewrite <- Hl. rewrite firstn_app_len, skipn_app_len. reflexivity.
Qed.

Lemma osum_omul_l (xs : list (option C)) (o : option C) :
  osum (map (fun x => omul x o) xs) = match o with Some v => cmul (osum xs) v | None => c0 end.
Proof.
  induction xs as [|x xs IH]; cbn [map]; rewrite ?osum_cons, ?osum_nil.
  - destruct o; [symmetry; apply cmul_0_l|reflexivity].
  - rewrite IH. destruct x as [u|], o as [v|]; cbn [omul]; try reflexivity.
    symmetry. apply cmul_add_l.
Qed.

Theorem outer_dense_sum ci a b ia ib : rows_shape a -> length ia = rank a ->
  dense_sum (outer ci a b) (ia ++ ib) = cmul (dense_sum a ia) (dense_sum b ib).
Proof.
  intros Hs Hi. unfold dense_sum, outer. cbn [legs blks]. unfold rank in *.
  induction (blks b) as [|bb tb IH]; cbn [flat_map map]; rewrite ?osum_nil.
  - symmetry. apply cmul_0_r.
  - rewrite map_app, osum_app, IH. rewrite osum_cons.
    assert (E : map (bval (legs a ++ legs b) (ia ++ ib)) (map (fun ba => outer_block (length (legs a)) ba bb) (blks a))
                = map (fun x => omul x (bval (legs b) ib bb)) (map (bval (legs a) ia) (blks a))).
    { rewrite !map_map. apply map_ext_in. intros ba Hba. apply bval_outer; [|exact Hi].
      apply Hs. apply in_map. exact Hba. }
    rewrite E, osum_omul_l. destruct (bval (legs b) ib bb) as [v|].
    + symmetry. apply cmul_add_r.
    + apply cadd_0_l.
Qed.

Lemma qtotal_rules ci p s alpha a b :
  qtot (transpose p a) = qtot a /\ qtot (scale s a) = qtot a /\ qtot (add alpha a b) = qtot a /\
  qtot (conj ci a) = make_valid ci (vneg (qtot a)) /\
  qtot (outer ci a b) = make_valid ci (vadd (qtot a) (qtot b)) /\
  tdot_qtot ci a b = make_valid ci (vadd (qtot a) (qtot b)).
Proof. unfold scale. destruct (ceqb s c0); repeat split; reflexivity. Qed.

Lemma contractible_conj ci l : contractible ci l (conj_leg l).
Proof. split; [reflexivity|]. intros q j Hj. rewrite chg_conj. f_equal. lia. Qed.
