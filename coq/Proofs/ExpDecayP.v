(* Proofs about Model/ExpDecay.v (property C10): ExponentiallyDecayingTerms.add_to_graph, finite branch,
   uniform lambda, all sites: the closed graph denotes  sum_{i<j<L} w lam^(j-i) a_i s..s b_j  (+ what the
   graph denoted before), for all L and all graphs in which the label is fresh. *)
From TenpyV Require Import Base.Prelude Model.Automaton Proofs.AutomatonP Proofs.AutomatonP2 Model.ExpDecay.
Open Scope Z_scope.

(* ------------------------------------------------------------------ generic helpers *)
Lemma add_edge_0 e es g : add_edge 0 e (es :: g) = (es ++ [e]) :: g.
Proof. reflexivity. Qed.
Lemma add_edge_S j e es g : add_edge (S j) e (es :: g) = es :: add_edge j e g.
Proof. reflexivity. Qed.
Lemma step_eq g k e : step g k e = map (mstep k e) (D g (S k) (eR e)).
Proof. reflexivity. Qed.

Lemma close_site_noloop es : (forall e, In e es -> eR e <> IdL /\ eL e <> IdR) ->
  close_site es = es ++ [lL; lR].
Proof.
  intro H. unfold close_site.
  assert (E1 : existsb (fun e => key_eqb (eL e) IdL && key_eqb (eR e) IdL) es = false).
  { apply not_true_is_false. intro E. apply existsb_exists in E.
    destruct E as [e [He E]]. apply andb_true_iff in E. destruct E as [_ E]. apply key_eqb_eq in E.
    destruct (H e He) as [H1 _]. contradiction. }
  assert (E2 : existsb (fun e => key_eqb (eL e) IdR && key_eqb (eR e) IdR) es = false).
  { apply not_true_is_false. intro E. apply existsb_exists in E.
    destruct E as [e [He E]]. apply andb_true_iff in E. destruct E as [E _]. apply key_eqb_eq in E.
    destruct (H e He) as [_ H1]. contradiction. }
  rewrite E1, existsb_app, E2. cbn [existsb eL eR key_eqb andb orb]. rewrite <- app_assoc. reflexivity.
Qed.

Lemma plain_edge_inv n e : plain_edge n e = true ->
  eL e <> Oth n /\ eR e <> Oth n /\ eR e <> IdL /\ eL e <> IdR.
Proof. unfold plain_edge. rewrite !andb_true_iff, !negb_true_iff, !key_eqb_neq. tauto. Qed.

Lemma fresh_cons n es g : fresh_in n (es :: g) = true <->
  (forall e, In e es -> plain_edge n e = true) /\ fresh_in n g = true.
Proof. unfold fresh_in. cbn [forallb]. rewrite andb_true_iff, forallb_forall. reflexivity. Qed.

Lemma close_fresh n g : fresh_in n g = true -> close g = cl g.
Proof.
  induction g as [|es g IH]; intro H; [reflexivity|].
  apply fresh_cons in H. destruct H as [He Hg]. cbn [close cl map]. f_equal; [|apply IH; exact Hg].
  apply close_site_noloop. intros e Hin. destruct (plain_edge_inv n e (He e Hin)) as (_ & _ & H3 & H4).
  split; assumption.
Qed.

Lemma D_IdR_fresh n g : forall k, fresh_in n g = true -> D g k IdR = [(c1, [])].
Proof.
  induction g as [|es g IH]; intros k H; [reflexivity|].
  apply fresh_cons in H. destruct H as [He Hg]. rewrite D_cons, out_nil_in.
  - cbn [flat_map key_eqb app]. apply IH. exact Hg.
  - intros e Hin. apply (plain_edge_inv n e (He e Hin)).
Qed.

Lemma wf_fresh n g : forall k prev, wf_from k prev g = true -> fresh_in n g = true.
Proof.
  induction g as [|es g IH]; intros k prev H; [reflexivity|].
  apply wf_from_cons in H. destruct H as [Hs Hg]. apply wf_site_iff in Hs. destruct Hs as (H1 & _ & _).
  apply fresh_cons. split; [|apply (IH (S k) es Hg)].
  intros e He. apply H1 in He. apply wf_edge_inv in He. unfold plain_edge.
  destruct He as [[E1 E2]|[(a & s & E1 & E2 & _)|[(i & a & s & E1 & E2 & _)|(i & a & s & E1 & E2 & _)]]];
    rewrite E1, E2; reflexivity.
Qed.

(* ------------------------------------------------------------------ one term *)
Section ExpDecay.
Variables (n a s b : Z) (lam w : C).

Local Notation eS := (xstart n a lam).
Local Notation eT := (xstr n s lam).
Local Notation eE := (xend n b w).
Local Notation bulk := (add_exp_bulk n a s b lam w).

(* the new edges of a site, by position in the chain *)
Definition new_edges (first last : bool) : list edge :=
  match first, last with
  | true, true => []
  | true, false => [eS]
  | false, true => [eE]
  | false, false => [eT; eE; eS]
  end.
Definition is_nil {A} (l : list A) : bool := match l with [] => true | _ => false end.
(* the graph after add_exp, site by site *)
Fixpoint exp_sites (first : bool) (g : graph) : graph :=
  match g with
  | [] => []
  | es :: g' => (es ++ new_edges first (is_nil g')) :: exp_sites false g'
  end.

Lemma bulk_shift m : forall k x g1,
  fold_left bulk (seq (S k) m) (x :: g1) = x :: fold_left bulk (seq k m) g1.
Proof.
  induction m as [|m IH]; intros k x g1; cbn [seq fold_left]; [reflexivity|].
  change (bulk (x :: g1) (S k)) with (x :: bulk g1 k). apply IH.
Qed.

Lemma tail_sites m : forall g1, length g1 = S m ->
  add_edge m eE (fold_left bulk (seq 0 m) g1) = exp_sites false g1.
Proof.
  induction m as [|m IH]; intros g1 Hl.
  - destruct g1 as [|es [|es2 g2]]; try discriminate Hl. reflexivity.
  - destruct g1 as [|es g2]; [discriminate Hl|]. cbn [length] in Hl. injection Hl as Hl.
    cbn [seq fold_left].
    change (bulk (es :: g2) 0%nat) with ((((es ++ [eT]) ++ [eE]) ++ [eS]) :: g2).
    rewrite bulk_shift, add_edge_S, (IH g2 Hl).
    destruct g2 as [|es2 g3]; [discriminate Hl|].
    cbn [exp_sites is_nil new_edges]. rewrite <- !app_assoc. reflexivity.
Qed.

Lemma add_exp_sites g : add_exp (length g) n a s b lam w g = exp_sites true g.
Proof.
  destruct g as [|es0 [|es1 g2]].
  - reflexivity.
  - cbn [exp_sites is_nil new_edges]. rewrite app_nil_r. reflexivity.
  - set (g1 := es1 :: g2). assert (Hl : length g1 = S (length g2)) by reflexivity.
    unfold add_exp. change (length (es0 :: g1)) with (S (length g1)). rewrite Hl.
    replace (S (S (length g2)) - 1)%nat with (S (length g2)) by lia.
    replace (S (S (length g2)) - 2)%nat with (length g2) by lia.
    change (0 <? S (length g2))%nat with true. cbv iota.
    rewrite add_edge_0, bulk_shift, add_edge_S, (tail_sites (length g2) g1 Hl).
    reflexivity.
Qed.

(* ---- out-going edges of the new part of a site *)
Lemma new_out_other first last x : x <> IdL -> x <> Oth n -> out x (new_edges first last) = [].
Proof.
  intros H1 H2.
  assert (E1 : key_eqb IdL x = false) by (apply key_eqb_neq; congruence).
  assert (E2 : key_eqb (Oth n) x = false) by (apply key_eqb_neq; congruence).
  destruct first, last; unfold out; cbn [new_edges filter eL xstart xstr xend]; rewrite ?E1, ?E2; reflexivity.
Qed.

Lemma new_out_IdL first last : out IdL (new_edges first last) = if last then [] else [eS].
Proof. destruct first, last; reflexivity. Qed.

Lemma new_out_Oth last : out (Oth n) (new_edges false last) = if last then [eE] else [eT; eE].
Proof.
  destruct last; unfold out; cbn [new_edges filter eL xstart xstr xend]; rewrite ?key_eqb_refl;
    cbn [key_eqb]; reflexivity.
Qed.

Lemma new_noloop first last e : In e (new_edges first last) -> eR e <> IdL /\ eL e <> IdR.
Proof.
  destruct first, last; cbn [new_edges In]; intro H; repeat (destruct H as [<-|H]); try contradiction;
    cbn [eL eR xstart xstr xend]; split; discriminate.
Qed.

Lemma close_exp g : forall first, fresh_in n g = true -> close (exp_sites first g) = cl (exp_sites first g).
Proof.
  induction g as [|es g IH]; intros first H; [reflexivity|].
  apply fresh_cons in H. destruct H as [He Hg]. cbn [exp_sites close cl map]. f_equal; [|apply IH; exact Hg].
  apply close_site_noloop. intros e Hin. apply in_app_or in Hin. destruct Hin as [Hin|Hin].
  - destruct (plain_edge_inv n e (He e Hin)) as (_ & _ & H3 & H4). split; assumption.
  - apply (new_noloop _ _ e Hin).
Qed.

(* ---- states other than IdL and the label are not affected *)
Lemma exp_unch g : forall first k x, fresh_in n g = true -> x <> IdL -> x <> Oth n ->
  D (exp_sites first g) k x = D g k x.
Proof.
  induction g as [|es g IH]; intros first k x Hf Hx1 Hx2; [reflexivity|].
  apply fresh_cons in Hf. destruct Hf as [He Hg].
  assert (EL : key_eqb IdL x = false) by (apply key_eqb_neq; congruence).
  cbn [exp_sites]. rewrite !D_cons, out_app, new_out_other, app_nil_r, EL by assumption.
  cbn [app]. f_equal.
  - apply flat_map_ext_in'. intros e Hin. apply in_out in Hin. destruct Hin as [Hin _].
    destruct (plain_edge_inv n e (He e Hin)) as (_ & H2 & H3 & _).
    rewrite !step_eq. rewrite (IH false (S k) (eR e) Hg H3 H2). reflexivity.
  - destruct (key_eqb IdR x); [|reflexivity]. apply IH; [exact Hg|discriminate|discriminate].
Qed.

(* ---- the label: E k = sum_{j>=k} lam^(j-k) s_k .. s_{j-1} b_j w *)
Fixpoint Eden (k m : nat) : poly :=
  match m with
  | O => []
  | S m' => map (mstep k eT) (Eden (S k) m') ++ [mstep k eE (c1, [])]
  end.

Lemma D_label g : forall k, fresh_in n g = true -> D (exp_sites false g) k (Oth n) = Eden k (length g).
Proof.
  induction g as [|es g IH]; intros k Hf; [reflexivity|].
  apply fresh_cons in Hf. destruct Hf as [He Hg].
  cbn [exp_sites length Eden].
  rewrite D_cons, out_app, (out_nil_in (Oth n) es), new_out_Oth.
  2:{ intros e Hin. apply (plain_edge_inv n e (He e Hin)). }
  cbn [key_eqb app]. rewrite app_nil_r.
  destruct g as [|es2 g2].
  - cbn [is_nil flat_map exp_sites length Eden map app]. rewrite app_nil_r, step_eq. cbn [eR xend].
    rewrite D_nil. reflexivity.
  - cbn [is_nil flat_map]. rewrite app_nil_r, !step_eq. cbn [eR xstr xend].
    rewrite (IH (S k) Hg).
    rewrite (exp_unch (es2 :: g2) false (S k) IdR Hg) by discriminate.
    rewrite (D_IdR_fresh n (es2 :: g2) (S k) Hg). reflexivity.
Qed.

(* ---- IdL: F k = sum_{k<=i<j} ... *)
Fixpoint Fden (k m : nat) : poly :=
  match m with
  | O => []
  | S m' => map (mstep k eS) (Eden (S k) m') ++ Fden (S k) m'
  end.

Lemma D_IdL_exp g : forall first k, fresh_in n g = true ->
  peq (D (exp_sites first g) k IdL) (Fden k (length g) ++ D g k IdL).
Proof.
  induction g as [|es g IH]; intros first k Hf; [apply peq_refl|].
  apply fresh_cons in Hf. destruct Hf as [He Hg].
  cbn [exp_sites length Fden].
  rewrite !D_cons, out_app, flat_map_app, new_out_IdL. cbn [key_eqb]. rewrite !app_nil_r.
  rewrite (flat_map_ext_in' (step (exp_sites false g) k) (step g k) (out IdL es)).
  2:{ intros e Hin. apply in_out in Hin. destruct Hin as [Hin _].
      destruct (plain_edge_inv n e (He e Hin)) as (_ & H2 & H3 & _).
      rewrite !step_eq. rewrite (exp_unch g false (S k) (eR e) Hg H3 H2). reflexivity. }
  intro w0. rewrite !coef_app.
  destruct g as [|es2 g2].
  - cbn [is_nil flat_map length Eden map Fden exp_sites coef]. csolve.
  - cbn [is_nil flat_map]. rewrite app_nil_r, (step_eq (exp_sites false (es2 :: g2)) k eS).
    cbn [eR xstart]. rewrite (D_label (es2 :: g2) (S k) Hg).
    rewrite (IH false (S k) Hg w0), coef_app. csolve.
Qed.

(* ---- closed forms *)
Definition emono (k j : nat) : mono :=
  (cmul (cpow lam (j - k)) w, wstring k (j - k) s ++ consop j b []).

Lemma Eden_closed m : forall k, Eden k m = map (emono k) (rev (seq k m)).
Proof.
  induction m as [|m IH]; intro k; cbn [Eden seq rev map]; [reflexivity|].
  rewrite map_app, IH. cbn [map]. f_equal.
  - rewrite map_map. apply map_ext_in. intros j Hj. rewrite <- in_rev in Hj. apply in_seq in Hj.
    unfold mstep, emono. cbn [ew eop xstr fst snd].
    replace (j - k)%nat with (S (j - S k)) by lia. cbn [cpow wstring]. rewrite consop_app.
    f_equal. symmetry. apply cmul_assoc.
  - unfold mstep, emono. cbn [ew eop xend fst snd]. rewrite Nat.sub_diag. cbn [cpow wstring app].
    rewrite cmul_1_r, cmul_1_l. reflexivity.
Qed.

Lemma Fden_closed m : forall k,
  Fden k m = flat_map (fun i => map (exp_mono a s b lam w i) (rev (seq (S i) (k + m - S i)))) (seq k m).
Proof.
  induction m as [|m IH]; intro k; cbn [Fden seq flat_map]; [reflexivity|].
  rewrite IH, Eden_closed. f_equal.
  - replace (k + S m - S k)%nat with m by lia. rewrite map_map. apply map_ext_in.
    intros j Hj. rewrite <- in_rev in Hj. apply in_seq in Hj.
    unfold mstep, emono, exp_mono. cbn [ew eop xstart fst snd].
    replace (j - k - 1)%nat with (j - S k)%nat by lia.
    replace (j - k)%nat with (S (j - S k)) by lia. cbn [cpow]. f_equal. csolve.
  - apply flat_map_ext_in'. intros i _. replace (S k + m)%nat with (k + S m)%nat by lia. reflexivity.
Qed.

Lemma Fden_nf L : peq (Fden 0 L) (nf_exp L a s b lam w).
Proof.
  rewrite Fden_closed. unfold nf_exp. apply peq_perm. apply perm_flat_map_pointwise. intros i _.
  cbn [Nat.add]. apply Permutation_map. apply Permutation_sym. apply Permutation_rev.
Qed.

(* ---- the theorems *)
Theorem expdecay_add_fresh L g : fresh_in n g = true -> length g = L ->
  peq (denote (close (add_exp L n a s b lam w g))) (nf_exp L a s b lam w ++ denote (close g)).
Proof.
  intros Hf Hl. subst L. rewrite add_exp_sites, (close_exp g true Hf), (close_fresh n g Hf).
  change (denote (cl (exp_sites true g))) with (D (exp_sites true g) 0%nat IdL).
  change (denote (cl g)) with (D g 0%nat IdL).
  eapply peq_trans; [apply D_IdL_exp; exact Hf|].
  apply peq_app; [apply Fden_nf|apply peq_refl].
Qed.

(* the label stays fresh for other numbers, and the graph keeps its length *)
Lemma fresh_exp_sites n' g : forall first, n' <> n -> fresh_in n' g = true ->
  fresh_in n' (exp_sites first g) = true.
Proof.
  induction g as [|es g IH]; intros first Hn H; [reflexivity|].
  apply fresh_cons in H. destruct H as [He Hg]. cbn [exp_sites]. apply fresh_cons.
  split; [|apply IH; assumption].
  intros e Hin. apply in_app_or in Hin. destruct Hin as [Hin|Hin]; [apply He; exact Hin|].
  assert (E : (n =? n') = false) by lia.
  destruct first, (is_nil g); cbn [new_edges In] in Hin; repeat (destruct Hin as [<-|Hin]);
    try contradiction; unfold plain_edge; cbn [eL eR xstart xstr xend key_eqb]; rewrite ?E; reflexivity.
Qed.

Lemma length_exp_sites g : forall first, length (exp_sites first g) = length g.
Proof. induction g as [|es g IH]; intro first; cbn [exp_sites length]; [reflexivity|]. rewrite IH. reflexivity. Qed.

End ExpDecay.

Theorem expdecay_add L n a s b lam w g : wf g = true -> length g = L ->
  peq (denote (close (add_exp L n a s b lam w g))) (nf_exp L a s b lam w ++ denote (close g)).
Proof. intros Hw Hl. apply expdecay_add_fresh; [apply (wf_fresh n g 0%nat [] Hw)|exact Hl]. Qed.

Theorem T10_expdecay L n a s b lam w : (2 <= L)%nat ->
  peq (denote (close (add_exp L n a s b lam w (empty_graph L)))) (nf_exp L a s b lam w).
Proof.
  intros _. eapply peq_trans.
  - apply expdecay_add; [apply wf_empty|apply repeat_length].
  - rewrite denote_empty, app_nil_r. apply peq_refl.
Qed.

(* ------------------------------------------------------------------ several terms *)
Lemma fresh_add_exp L n n' a s b lam w g : length g = L -> n' <> n -> fresh_in n' g = true ->
  fresh_in n' (add_exp L n a s b lam w g) = true.
Proof. intros Hl Hn H. subst L. rewrite add_exp_sites. apply fresh_exp_sites; assumption. Qed.

Lemma length_add_exp L n a s b lam w g : length g = L -> length (add_exp L n a s b lam w g) = L.
Proof. intro Hl. subst L. rewrite add_exp_sites. apply length_exp_sites. Qed.

Theorem expdecay_add_all L ts : forall n g, (forall n', n <= n' -> fresh_in n' g = true) -> length g = L ->
  peq (denote (close (add_exps L n ts g))) (flat_map (nf_xterm L) ts ++ denote (close g)).
Proof.
  induction ts as [|t ts IH]; intros n g Hf Hl; cbn [add_exps flat_map]; [apply peq_refl|].
  eapply peq_trans.
  - apply IH; [|apply length_add_exp; exact Hl].
    intros n' Hn'. apply fresh_add_exp; [exact Hl|lia|apply Hf; lia].
  - intro w0. rewrite !coef_app.
    rewrite (expdecay_add_fresh n (xt_a t) (xt_s t) (xt_b t) (xt_lam t) (xt_w t) L g (Hf n (Z.le_refl n)) Hl w0).
    rewrite coef_app. unfold nf_xterm. csolve.
Qed.

Theorem expdecay_add_all_wf L ts n g : wf g = true -> length g = L ->
  peq (denote (close (add_exps L n ts g))) (flat_map (nf_xterm L) ts ++ denote (close g)).
Proof. intros Hw Hl. apply expdecay_add_all; [|exact Hl]. intros n' _. apply (wf_fresh n' g 0%nat [] Hw). Qed.

(* ------------------------------------------------------------------ examples *)
(* L = 4, label Oth 1000, op_i = 1, op_string = 2, op_j = 3, lambda = 1 + i, strength = 3:
   3 (1+i)^(j-i) on the six pairs i<j<4; (1+i)^2 = 2i, (1+i)^3 = -2+2i *)
Example ex_T10_expdecay :
  (2 <= 4)%nat /\
  normalize (denote (close (add_exp 4 1000 1 2 3 (1, 1) (3, 0) (empty_graph 4)))) =
    [((-6, 6), [(0%nat, 1); (1%nat, 2); (2%nat, 2); (3%nat, 3)]);
     ((0, 6), [(0%nat, 1); (1%nat, 2); (2%nat, 3)]);
     ((3, 3), [(0%nat, 1); (1%nat, 3)]);
     ((0, 6), [(1%nat, 1); (2%nat, 2); (3%nat, 3)]);
     ((3, 3), [(1%nat, 1); (2%nat, 3)]);
     ((3, 3), [(2%nat, 1); (3%nat, 3)])] /\
  normalize (nf_exp 4 1 2 3 (1, 1) (3, 0)) =
  normalize (denote (close (add_exp 4 1000 1 2 3 (1, 1) (3, 0) (empty_graph 4)))).
Proof. split; [lia|]. split; vm_compute; reflexivity. Qed.

(* the graph itself, in the order of the calls of graph.add *)
Example ex_add_exp_graph :
  add_exp 4 1000 1 2 3 (1, 1) (3, 0) (empty_graph 4) =
  [[mkE IdL (Oth 1000) 1 (1, 1)];
   [mkE (Oth 1000) (Oth 1000) 2 (1, 1); mkE (Oth 1000) IdR 3 (3, 0); mkE IdL (Oth 1000) 1 (1, 1)];
   [mkE (Oth 1000) (Oth 1000) 2 (1, 1); mkE (Oth 1000) IdR 3 (3, 0); mkE IdL (Oth 1000) 1 (1, 1)];
   [mkE (Oth 1000) IdR 3 (3, 0)]].
Proof. vm_compute. reflexivity. Qed.

(* adding to a well-formed graph with an onsite term (2+i) op4 on site 1 and a coupling 7 op5_0 op6_2:
   L = 3, lambda = 2, strength = 3 *)
Definition ex_g0 : graph :=
  fold_left add_cterm [mkCT 0 5 0 2 6 (7, 0)] (fold_left add_oterm [mkOT 1 4 (2, 1)] (empty_graph 3)).
Example ex_expdecay_add :
  wf ex_g0 = true /\ length ex_g0 = 3%nat /\ fresh_in 1000 ex_g0 = true /\
  normalize (denote (close (add_exp 3 1000 1 2 3 (2, 0) (3, 0) ex_g0))) =
    [((12, 0), [(0%nat, 1); (1%nat, 2); (2%nat, 3)]);
     ((6, 0), [(0%nat, 1); (1%nat, 3)]);
     ((7, 0), [(0%nat, 5); (2%nat, 6)]);
     ((6, 0), [(1%nat, 1); (2%nat, 3)]);
     ((2, 1), [(1%nat, 4)])] /\
  normalize (nf_exp 3 1 2 3 (2, 0) (3, 0) ++ denote (close ex_g0)) =
  normalize (denote (close (add_exp 3 1000 1 2 3 (2, 0) (3, 0) ex_g0))).
Proof. repeat split; vm_compute; reflexivity. Qed.

(* two terms (labels Oth 1000, Oth 1001), the second with identity string (op 0), lambda = i, strength 1 *)
Example ex_expdecay_add_all :
  normalize (denote (close (add_exps 3 1000 [mkXT 1 2 3 (2, 0) (3, 0); mkXT 1 0 1 (0, 1) (1, 0)] ex_g0))) =
    [((0, 1), [(0%nat, 1); (1%nat, 1)]);
     ((12, 0), [(0%nat, 1); (1%nat, 2); (2%nat, 3)]);
     ((6, 0), [(0%nat, 1); (1%nat, 3)]);
     ((-1, 0), [(0%nat, 1); (2%nat, 1)]);
     ((7, 0), [(0%nat, 5); (2%nat, 6)]);
     ((0, 1), [(1%nat, 1); (2%nat, 1)]);
     ((6, 0), [(1%nat, 1); (2%nat, 3)]);
     ((2, 1), [(1%nat, 4)])] /\
  normalize (flat_map (nf_xterm 3) [mkXT 1 2 3 (2, 0) (3, 0); mkXT 1 0 1 (0, 1) (1, 0)] ++ denote (close ex_g0)) =
  normalize (denote (close (add_exps 3 1000 [mkXT 1 2 3 (2, 0) (3, 0); mkXT 1 0 1 (0, 1) (1, 0)] ex_g0))).
Proof. split; vm_compute; reflexivity. Qed.

(* the hypothesis of expdecay_add_all is satisfiable by a graph that is NOT wf: after a first
   exponentially decaying term every label number >= 1001 is still fresh *)
Example ex_fresh_after :
  wf (add_exp 3 1000 1 2 3 (2, 0) (3, 0) ex_g0) = false /\
  forall n', 1001 <= n' -> fresh_in n' (add_exp 3 1000 1 2 3 (2, 0) (3, 0) ex_g0) = true.
Proof.
  split; [vm_compute; reflexivity|]. intros n' Hn.
  apply fresh_add_exp; [reflexivity|lia|]. apply (wf_fresh n' ex_g0 0%nat []). vm_compute. reflexivity.
Qed.

(* the checker accepts the model's own closed graph *)
Example ex_check_expdecay :
  check_expdecay (4%nat, 1000, (1, 2, 3), ((1, 1), (3, 0)),
                  close (add_exp 4 1000 1 2 3 (1, 1) (3, 0) (empty_graph 4))) = true.
Proof. vm_compute. reflexivity. Qed.

Print Assumptions T10_expdecay.
Print Assumptions expdecay_add.
Print Assumptions expdecay_add_fresh.
Print Assumptions expdecay_add_all.
Print Assumptions expdecay_add_all_wf.
