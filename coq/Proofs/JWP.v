(* Lemmas about Model/JW.v: the bubble sort of order_combine_term (sorted, permutation, stable, sign = parity of the
   inversions between operators needing a JW string), the grouping, and the Jordan-Wigner word algebra. *)
From TenpyV Require Import Base.Prelude Model.JW.
Open Scope Z_scope.

Definition site_le (a b : item) : Prop := it_site a <= it_site b.

(* ---------- one pass ---------- *)
Lemma bubn_perm n : forall x r, Permutation (x :: r) (bubn n x r).
Proof.
  induction n as [|n IH]; intros x r; cbn [bubn].
  - reflexivity.
  - destruct r as [|y r]; [reflexivity|].
    destruct (it_site y <? it_site x).
    + etransitivity; [apply perm_swap|]. apply perm_skip. apply IH.
    + apply perm_skip. apply IH.
Qed.

Lemma bubn_app n : forall x r s, length r = n -> bubn n x (r ++ s) = bubn n x r ++ s.
Proof.
  induction n as [|n IH]; intros x r s Hl.
  - destruct r; [reflexivity | discriminate].
  - destruct r as [|y r]; [discriminate|]. cbn [app bubn]. cbn [length] in Hl.
    destruct (it_site y <? it_site x); cbn [app]; f_equal; apply IH; lia.
Qed.

Lemma flipn_app n : forall x r s, length r = n -> flipn n x (r ++ s) = flipn n x r.
Proof.
  induction n as [|n IH]; intros x r s Hl.
  - destruct r; [reflexivity | discriminate].
  - destruct r as [|y r]; [discriminate|]. cbn [app flipn]. cbn [length] in Hl.
    destruct (it_site y <? it_site x); [f_equal|]; apply IH; lia.
Qed.

(* a full pass moves a maximal element to the end *)
Lemma bubn_full n : forall x r, length r = n ->
  exists q m, bubn n x r = q ++ [m] /\ Forall (fun a => site_le a m) q /\ site_le x m.
Proof.
  induction n as [|n IH]; intros x r Hl.
  - destruct r; [|discriminate]. exists [], x. cbn. repeat split; [constructor | unfold site_le; lia].
  - destruct r as [|y r]; [discriminate|]. cbn [length] in Hl. cbn [bubn].
    destruct (it_site y <? it_site x) eqn:E.
    + destruct (IH x r ltac:(lia)) as (q & m & Hq & Hf & Hx).
      exists (y :: q), m. rewrite Hq. repeat split; [|exact Hx].
      constructor; [unfold site_le in *; lia | exact Hf].
    + destruct (IH y r ltac:(lia)) as (q & m & Hq & Hf & Hy).
      exists (x :: q), m. rewrite Hq. repeat split.
      * constructor; [unfold site_le in *; lia | exact Hf].
      * unfold site_le in *; lia.
Qed.

Lemma filter_bubn i n : forall x r,
  filter (fun t => it_site t =? i) (bubn n x r) = filter (fun t => it_site t =? i) (x :: r).
Proof.
  induction n as [|n IH]; intros x r; cbn [bubn]; [reflexivity|].
  destruct r as [|y r]; [reflexivity|].
  destruct (it_site y <? it_site x) eqn:E.
  - cbn [filter]. rewrite IH. cbn [filter].
    destruct (it_site y =? i) eqn:E1, (it_site x =? i) eqn:E2; try reflexivity. lia.
  - cbn [filter]. rewrite IH. reflexivity.
Qed.

(* ---------- the sort ---------- *)
Lemma pass_perm n l : Permutation l (pass n l).
Proof. destruct l; cbn [pass]; [constructor | apply bubn_perm]. Qed.

Lemma bsort_perm k : forall l, Permutation l (bsort k l).
Proof.
  induction k as [|k IH]; intros l; cbn [bsort]; [reflexivity|].
  etransitivity; [apply (pass_perm (S k))| apply IH].
Qed.

Lemma filter_pass i n l :
  filter (fun t => it_site t =? i) (pass n l) = filter (fun t => it_site t =? i) l.
Proof. destruct l; cbn [pass]; [reflexivity | apply filter_bubn]. Qed.

Lemma filter_bsort i k : forall l,
  filter (fun t => it_site t =? i) (bsort k l) = filter (fun t => it_site t =? i) l.
Proof.
  induction k as [|k IH]; intros l; cbn [bsort]; [reflexivity|].
  rewrite IH. apply filter_pass.
Qed.

Lemma bsort_sorted_gen k : forall p s, length p = S k -> StronglySorted site_le s ->
  (forall a b, In a p -> In b s -> site_le a b) -> StronglySorted site_le (bsort k (p ++ s)).
Proof.
  induction k as [|k IH]; intros p s Hl Hs Hps.
  - cbn [bsort]. destruct p as [|x [|? ?]]; try discriminate. cbn [app].
    constructor; [exact Hs|]. apply Forall_forall. intros b Hb. apply Hps; [left; reflexivity | exact Hb].
  - cbn [bsort]. destruct p as [|x r]; [discriminate|]. cbn [length] in Hl.
    cbn [app pass]. rewrite bubn_app by lia.
    destruct (bubn_full (S k) x r ltac:(lia)) as (q & m & Hq & Hf & Hx).
    rewrite Hq. rewrite <- app_assoc. cbn [app].
    assert (HP : Permutation (x :: r) (q ++ [m])) by (rewrite <- Hq; apply bubn_perm).
    assert (Hm : In m (x :: r)).
    { apply (Permutation_in _ (Permutation_sym HP)). apply in_or_app. right. left. reflexivity. }
    apply IH.
    + apply Permutation_length in HP. rewrite app_length in HP. cbn [length] in HP. lia.
    + constructor; [exact Hs|]. apply Forall_forall. intros b Hb. apply Hps; assumption.
    + intros a b Ha Hb. destruct Hb as [Hb|Hb].
      * subst b. rewrite Forall_forall in Hf. apply Hf. exact Ha.
      * apply Hps; [|exact Hb]. apply (Permutation_in _ (Permutation_sym HP)). apply in_or_app. left. exact Ha.
Qed.

Lemma order_sort_sorted term : StronglySorted site_le (order_sort term).
Proof.
  unfold order_sort. destruct term as [|x r].
  - cbn. constructor.
  - replace (bsort (length (x :: r) - 1) (x :: r)) with (bsort (length r) ((x :: r) ++ [])).
    + apply bsort_sorted_gen; [reflexivity | constructor | intros a b _ []].
    + rewrite app_nil_r. cbn [length]. f_equal. lia.
Qed.

Lemma order_sort_perm term : Permutation term (order_sort term).
Proof. apply bsort_perm. Qed.

Lemma order_sort_stable term i :
  filter (fun t => it_site t =? i) (order_sort term) = filter (fun t => it_site t =? i) term.
Proof. apply filter_bsort. Qed.

(* ---------- the sign ---------- *)
Lemma cntf_perm x r r' : Permutation r r' -> cntf x r = cntf x r'.
Proof.
  induction 1 as [|y l l' _ IH|y z l|l l' l'' _ IH1 _ IH2]; cbn [cntf].
  - reflexivity.
  - rewrite IH. reflexivity.
  - destruct (it_f x && it_f z && (it_site z <? it_site x)), (it_f x && it_f y && (it_site y <? it_site x)),
      (cntf x l); reflexivity.
  - congruence.
Qed.

Lemma flipn_inv n : forall x r, xorb (flipn n x r) (finvp (bubn n x r)) = finvp (x :: r).
Proof.
  induction n as [|n IH]; intros x r; cbn [flipn bubn].
  - apply xorb_false_l.
  - destruct r as [|y r]; [apply xorb_false_l|].
    destruct (it_site y <? it_site x) eqn:E.
    + specialize (IH x r). cbn [finvp] in *.
      rewrite (cntf_perm y _ _ (Permutation_sym (bubn_perm n x r))).
      cbn [cntf]. rewrite E.
      replace (it_site x <? it_site y) with false by lia.
      revert IH.
      destruct (flipn n x r), (finvp (bubn n x r)), (cntf x r), (finvp r), (it_f x), (it_f y), (cntf y r);
        cbn; intros; congruence.
    + specialize (IH y r). cbn [finvp] in *.
      rewrite (cntf_perm x _ _ (Permutation_sym (bubn_perm n y r))).
      revert IH.
      destruct (flipn n y r), (finvp (bubn n y r)), (cntf x (y :: r)), (finvp r), (cntf y r);
        cbn; intros; congruence.
Qed.

Lemma pass_flip_inv n l : xorb (pass_flip n l) (finvp (pass n l)) = finvp l.
Proof. destruct l; cbn [pass pass_flip]; [apply xorb_false_l | apply flipn_inv]. Qed.

Lemma bsort_flip_inv k : forall l, xorb (bsort_flip k l) (finvp (bsort k l)) = finvp l.
Proof.
  induction k as [|k IH]; intros l; cbn [bsort bsort_flip]; [apply xorb_false_l|].
  specialize (IH (pass (S k) l)). pose proof (pass_flip_inv (S k) l) as HP.
  revert IH HP.
  destruct (pass_flip (S k) l), (bsort_flip k (pass (S k) l)), (finvp (bsort k (pass (S k) l))),
    (finvp (pass (S k) l)), (finvp l); cbn; intros; congruence.
Qed.

Lemma cntf_sorted x r : Forall (fun b => site_le x b) r -> cntf x r = false.
Proof.
  induction 1 as [|y r Hy _ IH]; cbn [cntf]; [reflexivity|].
  rewrite IH. unfold site_le in Hy. replace (it_site y <? it_site x) with false by lia.
  rewrite andb_false_r. reflexivity.
Qed.

Lemma finvp_sorted l : StronglySorted site_le l -> finvp l = false.
Proof.
  induction 1 as [|x r _ IH Hf]; cbn [finvp]; [reflexivity|].
  rewrite IH, cntf_sorted by exact Hf. reflexivity.
Qed.

Lemma order_sign_spec term : order_sign term = finvp term.
Proof.
  unfold order_sign. pose proof (bsort_flip_inv (length term - 1) term) as H.
  fold (order_sort term) in H. rewrite (finvp_sorted _ (order_sort_sorted term)) in H.
  rewrite xorb_false_r in H. exact H.
Qed.

(* ---------- Jordan-Wigner word algebra ---------- *)
Definition ops_at (term : list item) (k : Z) : list (Z * bool) :=
  map (fun t => (it_op t, it_f t)) (filter (fun t => it_site t =? k) term).

Fixpoint jw_gt (term : list item) (k : Z) : bool :=
  match term with [] => false | t :: r => xorb (it_f t && (k <? it_site t)) (jw_gt r k) end.

Fixpoint parity_le (term : list item) (k : Z) : bool :=
  match term with [] => false | t :: r => xorb (it_f t && (it_site t <=? k)) (parity_le r k) end.

Fixpoint sgn_at (term : list item) (k : Z) : bool :=
  match term with
  | [] => false
  | t :: r => xorb (it_f t && (k <? it_site t) && odd_count (ops_at r k)) (sgn_at r k)
  end.

Lemma nf_phys term k : nf (phys_word term k) = (sgn_at term k, jw_gt term k, ops_at term k).
Proof.
  induction term as [|t r IH]; [reflexivity|].
  unfold phys_word in *. cbn [flat_map sgn_at jw_gt]. unfold phys_letters at 1. unfold ops_at in *. cbn [filter].
  destruct (it_site t =? k) eqn:E.
  - cbn [app nf map]. rewrite IH. replace (k <? it_site t) with false by lia.
    rewrite !andb_false_r. cbn [andb]. rewrite !xorb_false_l. reflexivity.
  - destruct (it_f t && (k <? it_site t)) eqn:E2.
    + cbn [app nf]. rewrite IH. cbn [andb].
      destruct (odd_count (map (fun t0 : item => (it_op t0, it_f t0)) (filter (fun t0 : item => it_site t0 =? k) r))),
        (sgn_at r k), (jw_gt r k); reflexivity.
    + cbn [app]. rewrite IH. cbn [andb]. rewrite !xorb_false_l. reflexivity.
Qed.

Lemma nf_item_letters_app l w :
  nf (item_letters l ++ w) =
  (fst (fst (nf w)), snd (fst (nf w)), map (fun t => (it_op t, it_f t)) l ++ snd (nf w)).
Proof.
  induction l as [|t l IH]; cbn [item_letters map app nf].
  - destruct (nf w) as [[s p] u]. reflexivity.
  - fold (item_letters l). rewrite IH. reflexivity.
Qed.

Lemma jw_right_group l k : jw_right (group l) k = parity_le l k.
Proof.
  induction l as [|x r IH]; [reflexivity|].
  cbn [group parity_le]. destruct (group r) as [|[[ops i] f] g] eqn:G.
  - cbn [jw_right] in *. rewrite <- IH. rewrite andb_comm. reflexivity.
  - destruct (i =? it_site x) eqn:E.
    + cbn [jw_right] in *. rewrite <- IH. replace (it_site x <=? k) with (i <=? k) by lia.
      destruct (i <=? k), (it_f x), f, (jw_right g k); reflexivity.
    + cbn [jw_right] in *. rewrite <- IH.
      destruct (it_site x <=? k), (it_f x), (i <=? k), f, (jw_right g k); reflexivity.
Qed.

Lemma parity_le_perm l l' k : Permutation l l' -> parity_le l k = parity_le l' k.
Proof.
  induction 1 as [|y l l' _ IH|y z l|l l' l'' _ IH1 _ IH2]; cbn [parity_le].
  - reflexivity.
  - rewrite IH. reflexivity.
  - destruct (it_f z && (it_site z <=? k)), (it_f y && (it_site y <=? k)), (parity_le l k); reflexivity.
  - congruence.
Qed.

Lemma nf_impl term k :
  nf (impl_word term k) = (false, parity_le term k, ops_at term k).
Proof.
  unfold impl_word. rewrite nf_item_letters_app, order_sort_stable, jw_right_group.
  rewrite <- (parity_le_perm _ _ k (order_sort_perm term)).
  unfold ops_at. destruct (parity_le term k); cbn; rewrite app_nil_r; reflexivity.
Qed.

Lemma parity_split term k : xorb (parity_le term k) (jw_gt term k) = total_parity term.
Proof.
  induction term as [|t r IH]; [reflexivity|].
  cbn [parity_le jw_gt total_parity fold_right]. fold (total_parity r). rewrite <- IH.
  destruct (it_site t <=? k) eqn:E1, (k <? it_site t) eqn:E2; try lia;
    destruct (it_f t), (parity_le r k), (jw_gt r k); reflexivity.
Qed.

(* xor over a duplicate-free list of sites *)
Lemma xor_over_xorb ks a b :
  xor_over ks (fun k => xorb (a k) (b k)) = xorb (xor_over ks a) (xor_over ks b).
Proof.
  induction ks as [|k ks IH]; [reflexivity|]. cbn [xor_over fold_right] in *. fold (xor_over ks) in *.
  change (fold_right (fun k0 b0 => xorb (xorb (a k0) (b k0)) b0) false ks) with (xor_over ks (fun k => xorb (a k) (b k))).
  change (fold_right (fun k0 b0 => xorb (a k0) b0) false ks) with (xor_over ks a).
  change (fold_right (fun k0 b0 => xorb (b k0) b0) false ks) with (xor_over ks b).
  rewrite IH. destruct (a k), (b k), (xor_over ks a), (xor_over ks b); reflexivity.
Qed.

Lemma xor_over_ext ks a b : (forall k, a k = b k) -> xor_over ks a = xor_over ks b.
Proof. intros H. induction ks as [|k ks IH]; [reflexivity|]. cbn [xor_over fold_right]. rewrite H. f_equal. exact IH. Qed.

Lemma xor_over_false ks : xor_over ks (fun _ => false) = false.
Proof. induction ks as [|k ks IH]; [reflexivity|]. cbn [xor_over fold_right]. rewrite xorb_false_l. exact IH. Qed.

Lemma xor_over_notin ks a h : ~ In a ks -> xor_over ks (fun k => (a =? k) && h k) = false.
Proof.
  induction ks as [|k ks IH]; intros Hn; [reflexivity|]. cbn [xor_over fold_right].
  fold (xor_over ks (fun k => (a =? k) && h k)). rewrite IH by (intros H; apply Hn; right; exact H).
  destruct (a =? k) eqn:E; [exfalso; apply Hn; left; lia | reflexivity].
Qed.

Lemma xor_over_single ks a h : NoDup ks -> In a ks -> xor_over ks (fun k => (a =? k) && h k) = h a.
Proof.
  induction 1 as [|k ks Hk Hnd IH]; intros Hin; [destruct Hin|]. cbn [xor_over fold_right].
  fold (xor_over ks (fun k => (a =? k) && h k)).
  destruct Hin as [->|Hin].
  - rewrite xor_over_notin by exact Hk. rewrite Z.eqb_refl. destruct (h a); reflexivity.
  - rewrite IH by exact Hin. destruct (a =? k) eqn:E; [exfalso; apply Hk; replace k with a by lia; exact Hin|].
    destruct (h a); reflexivity.
Qed.

Lemma odd_count_ops_at_cons y r k :
  odd_count (ops_at (y :: r) k) = xorb ((it_site y =? k) && it_f y) (odd_count (ops_at r k)).
Proof.
  unfold ops_at. cbn [filter]. destruct (it_site y =? k); cbn [map odd_count andb]; [reflexivity|].
  rewrite xorb_false_l. reflexivity.
Qed.

Lemma xor_cross ks t r : NoDup ks -> (forall y, In y r -> In (it_site y) ks) ->
  xor_over ks (fun k => it_f t && (k <? it_site t) && odd_count (ops_at r k)) = cntf t r.
Proof.
  intros Hnd. induction r as [|y r IH]; intros Hin.
  - cbn [cntf]. rewrite <- (xor_over_false ks). apply xor_over_ext. intros k. cbn. rewrite andb_false_r. reflexivity.
  - cbn [cntf]. rewrite <- IH by (intros z Hz; apply Hin; right; exact Hz).
    rewrite <- (xor_over_single ks (it_site y) (fun k => it_f t && it_f y && (k <? it_site t)) Hnd)
      by (apply Hin; left; reflexivity).
    rewrite <- xor_over_xorb. apply xor_over_ext. intros k. rewrite odd_count_ops_at_cons.
    destruct (it_f t), (k <? it_site t), (it_site y =? k), (it_f y), (odd_count (ops_at r k)); reflexivity.
Qed.

Lemma sign_decomposition ks term : NoDup ks -> (forall t, In t term -> In (it_site t) ks) ->
  xor_over ks (sgn_at term) = finvp term.
Proof.
  intros Hnd. induction term as [|t r IH]; intros Hin.
  - cbn. apply xor_over_false.
  - cbn [finvp]. rewrite <- IH by (intros z Hz; apply Hin; right; exact Hz).
    rewrite <- (xor_cross ks t r Hnd) by (intros z Hz; apply Hin; right; exact Hz).
    rewrite <- xor_over_xorb. apply xor_over_ext. intros k. reflexivity.
Qed.

(* main statement: the MPO term built by order_combine_term + handle_JW is, site by site, the product of the
   Jordan-Wigner transformed operators of the term, and the signs collected over all sites give overall_sign *)
Lemma term_machinery_correct term : total_parity term = false ->
  (forall k, nf_sign (impl_word term k) = false /\
             nf_jw (impl_word term k) = nf_jw (phys_word term k) /\
             nf_ops (impl_word term k) = nf_ops (phys_word term k)) /\
  (forall ks, NoDup ks -> (forall t, In t term -> In (it_site t) ks) ->
     xor_over ks (fun k => nf_sign (phys_word term k)) = order_sign term).
Proof.
  intros Hp. split.
  - intros k. unfold nf_sign, nf_jw, nf_ops. rewrite nf_impl, nf_phys. cbn [fst snd].
    repeat split. pose proof (parity_split term k) as H. rewrite Hp in H.
    destruct (parity_le term k), (jw_gt term k); cbn in H; congruence.
  - intros ks Hnd Hin. rewrite order_sign_spec. rewrite <- (sign_decomposition ks term Hnd Hin).
    apply xor_over_ext. intros k. unfold nf_sign. rewrite nf_phys. reflexivity.
Qed.

(* canonical anticommutation relations as product operators on a chain of ANY length *)
Lemma car_offsite a b i j : i <> j ->
  let ab := [mkItem a i true; mkItem b j true] in
  let ba := [mkItem b j true; mkItem a i true] in
  (forall k, nf_jw (phys_word ab k) = nf_jw (phys_word ba k) /\ nf_ops (phys_word ab k) = nf_ops (phys_word ba k)) /\
  (forall ks, NoDup ks -> In i ks -> In j ks ->
     xor_over ks (fun k => nf_sign (phys_word ab k)) = negb (xor_over ks (fun k => nf_sign (phys_word ba k)))).
Proof.
  intros Hij ab ba. split.
  - intros k. unfold nf_jw, nf_ops. rewrite !nf_phys. cbn [fst snd]. subst ab ba. unfold ops_at.
    cbn [jw_gt filter it_site it_f it_op]. split.
    + destruct (k <? i), (k <? j); reflexivity.
    + destruct (i =? k) eqn:E1, (j =? k) eqn:E2; try reflexivity. lia.
  - intros ks Hnd Hi Hj.
    assert (E : forall term, xor_over ks (fun k => nf_sign (phys_word term k)) = xor_over ks (sgn_at term)).
    { intros term. apply xor_over_ext. intros k. unfold nf_sign. rewrite nf_phys. reflexivity. }
    rewrite !E. rewrite !sign_decomposition; try exact Hnd.
    + subst ab ba. cbn [finvp cntf it_site it_f]. cbn [andb]. rewrite !xorb_false_r.
      destruct (j <? i) eqn:E1, (i <? j) eqn:E2; try reflexivity; lia.
    + subst ba. intros t [<-|[<-|[]]]; assumption.
    + subst ab. intros t [<-|[<-|[]]]; assumption.
Qed.

Lemma car_onsite a b fa fb i k :
  let ab := [mkItem a i fa; mkItem b i fb] in
  (k = i -> phys_word ab k = [Op a fa; Op b fb]) /\
  (k <> i -> nf_sign (phys_word ab k) = false /\ nf_ops (phys_word ab k) = [] /\
             (fa = fb -> nf_jw (phys_word ab k) = false)).
Proof.
  intros ab. split.
  - intros ->. subst ab. unfold phys_word, phys_letters. cbn [flat_map it_site it_op it_f]. rewrite Z.eqb_refl. reflexivity.
  - intros Hk. unfold nf_sign, nf_ops, nf_jw. rewrite nf_phys. cbn [fst snd]. subst ab. unfold ops_at.
    cbn [sgn_at jw_gt filter it_site it_f it_op]. unfold ops_at. cbn [filter it_site it_f it_op].
    replace (i =? k) with false by lia. cbn [map odd_count].
    split; [|split]; [destruct fa, fb, (k <? i); reflexivity | reflexivity | intros ->; destruct fb, (k <? i); reflexivity].
Qed.
