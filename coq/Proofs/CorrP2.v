(* Lemmas about Model/CorrTerm.v: term_correlation_function_right and _left contract the same words, namely the
   Jordan-Wigner product (term_L)(term_R) site by site. *)
From TenpyV Require Import Base.Prelude Model.JW Model.Corr Proofs.JWP Proofs.CorrP Model.CorrTerm.
Open Scope Z_scope.

Lemma shift_term_ne d t : t <> [] -> shift_term d t <> [].
Proof. destruct t; [congruence | discriminate]. Qed.

Lemma fold_min_shift d : forall t d0,
  fold_right (fun t m => Z.min (it_site t) m) (d0 + d) (shift_term d t) =
  fold_right (fun t m => Z.min (it_site t) m) d0 t + d.
Proof. induction t as [|x r IH]; intros d0; cbn [shift_term map fold_right it_site]; [reflexivity|]. fold (shift_term d r). rewrite IH. lia. Qed.

Lemma fold_max_shift d : forall t d0,
  fold_right (fun t m => Z.max (it_site t) m) (d0 + d) (shift_term d t) =
  fold_right (fun t m => Z.max (it_site t) m) d0 t + d.
Proof. induction t as [|x r IH]; intros d0; cbn [shift_term map fold_right it_site]; [reflexivity|]. fold (shift_term d r). rewrite IH. lia. Qed.

Lemma min_site_shift d t : t <> [] -> min_site (shift_term d t) = min_site t + d.
Proof.
  destruct t as [|x r]; [congruence|]. intros _. unfold min_site.
  change (shift_term d (x :: r)) with (mkItem (it_op x) (it_site x + d) (it_f x) :: shift_term d r).
  cbn [it_site]. change (mkItem (it_op x) (it_site x + d) (it_f x) :: shift_term d r) with (shift_term d (x :: r)).
  apply fold_min_shift.
Qed.

Lemma max_site_shift d t : t <> [] -> max_site (shift_term d t) = max_site t + d.
Proof.
  destruct t as [|x r]; [congruence|]. intros _. unfold max_site.
  change (shift_term d (x :: r)) with (mkItem (it_op x) (it_site x + d) (it_f x) :: shift_term d r).
  cbn [it_site]. change (mkItem (it_op x) (it_site x + d) (it_f x) :: shift_term d r) with (shift_term d (x :: r)).
  apply fold_max_shift.
Qed.

Lemma total_parity_shift d t : total_parity (shift_term d t) = total_parity t.
Proof. unfold total_parity. induction t as [|x r IH]; cbn [shift_term map fold_right it_f]; [reflexivity|]. fold (shift_term d r). rewrite IH. reflexivity. Qed.

Lemma min_le_max t : t <> [] -> min_site t <= max_site t.
Proof.
  destruct t as [|x r]; [congruence|]. intros _.
  pose proof (min_site_le (x :: r) (it_site x) x (or_introl eq_refl)) as H1.
  pose proof (max_site_ge (x :: r) (it_site x) x (or_introl eq_refl)) as H2.
  unfold min_site, max_site. lia.
Qed.

Lemma site_bounds t x : In x t -> min_site t <= it_site x <= max_site t.
Proof.
  intros Hin. destruct t as [|y r]; [destruct Hin|].
  split; [apply (min_site_le (y :: r) (it_site y) x Hin) | apply (max_site_ge (y :: r) (it_site y) x Hin)].
Qed.

(* the specification of _term_to_ops_list for a shifted term, as an existential *)
Lemma tol_shift_spec t d b : t <> [] ->
  exists ops, term_to_ops_list (shift_term d t) true (Some b) = (ops, min_site t + d, xorb (total_parity t) b) /\
    Z.of_nat (length ops) = max_site t - min_site t + 1 /\
    forall k, min_site t + d <= k <= max_site t + d ->
      nth (Z.to_nat (k - (min_site t + d))) ops [] = phys_word (shift_term d t) k ++ (if b then [JWl] else []).
Proof.
  intros Hne. pose proof (term_to_ops_list_spec (shift_term d t) (Some b) (shift_term_ne d t Hne)) as H.
  destruct (term_to_ops_list (shift_term d t) true (Some b)) as [[ops imin] extra].
  destruct H as (H1 & H2 & H3 & H4).
  rewrite min_site_shift in * by exact Hne. rewrite max_site_shift in * by exact Hne. rewrite total_parity_shift in H4.
  exists ops. subst imin extra. split; [reflexivity|]. split; [lia|]. exact H3.
Qed.

Lemma ops_at_site_in ops i0 k : i0 <= k < i0 + Z.of_nat (length ops) ->
  ops_at_site ops i0 k = nth (Z.to_nat (k - i0)) ops [].
Proof. intros H. unfold ops_at_site. replace ((i0 <=? k) && (k <? i0 + Z.of_nat (length ops))) with true by lia. reflexivity. Qed.

Lemma ops_at_site_out ops i0 k : k < i0 \/ i0 + Z.of_nat (length ops) <= k -> ops_at_site ops i0 k = [].
Proof. intros H. unfold ops_at_site. replace ((i0 <=? k) && (k <? i0 + Z.of_nat (length ops))) with false by lia. reflexivity. Qed.

Lemma right_words_doc tL tR iL j0 j k w : tL <> [] -> tR <> [] ->
  tcf_right_words tL tR iL j0 j k = Some w ->
  w = tcf_doc_words tL tR iL j k /\ total_parity tL = total_parity tR /\
  max_site tL + iL < min_site tR + j0 /\ max_site tL + iL < min_site tR + j.
Proof.
  intros HL HR. unfold tcf_right_words.
  destruct (tol_shift_spec tR j0 false HR) as (ops1 & E1 & _ & _). rewrite E1. cbv beta iota zeta.
  rewrite xorb_false_r.
  destruct (tol_shift_spec tL iL (total_parity tR) HL) as (opsL & E2 & HlenL & HwL). rewrite E2. cbv beta iota zeta.
  destruct (tol_shift_spec tR j false HR) as (opsR & E3 & HlenR & HwR). rewrite E3. cbv beta iota zeta.
  pose proof (min_le_max tL HL) as HmmL. pose proof (min_le_max tR HR) as HmmR.
  destruct (xorb (total_parity tL) (total_parity tR)) eqn:Epar; [discriminate|].
  replace (min_site tR + j0 - j0) with (min_site tR) by lia.
  destruct (j0 + min_site tR <? min_site tL + iL + Z.of_nat (length opsL)) eqn:Ec1; [discriminate|].
  destruct (j + min_site tR <? min_site tL + iL + Z.of_nat (length opsL)) eqn:Ec2; [discriminate|].
  intros Hw. inversion Hw as [Hw']. clear Hw Hw'.
  split; [|split; [destruct (total_parity tL), (total_parity tR); cbn in Epar; congruence | lia]].
  unfold tcf_doc_words. cbv zeta.
  destruct (k <? min_site tL + iL + Z.of_nat (length opsL)) eqn:Ek1.
  - destruct (Z_lt_dec k (min_site tL + iL)) as [Hlt|Hge].
    + rewrite ops_at_site_out by lia.
      replace ((min_site tL + iL <=? k) && (k <=? max_site tL + iL)) with false by lia.
      replace ((max_site tL + iL <? k) && (k <? min_site tR + j)) with false by lia.
      replace ((min_site tR + j <=? k) && (k <=? max_site tR + j)) with false by lia. reflexivity.
    + rewrite ops_at_site_in by lia.
      replace ((min_site tL + iL <=? k) && (k <=? max_site tL + iL)) with true by lia.
      apply HwL. lia.
  - replace ((min_site tL + iL <=? k) && (k <=? max_site tL + iL)) with false by lia.
    destruct (k <? j + min_site tR) eqn:Ek2.
    + replace ((max_site tL + iL <? k) && (k <? min_site tR + j)) with true by lia. reflexivity.
    + replace ((max_site tL + iL <? k) && (k <? min_site tR + j)) with false by lia.
      destruct (Z_le_dec k (max_site tR + j)) as [Hle|Hgt].
      * rewrite ops_at_site_in by lia.
        replace ((min_site tR + j <=? k) && (k <=? max_site tR + j)) with true by lia.
        replace (j + min_site tR) with (min_site tR + j) by lia.
        rewrite HwR by lia. apply app_nil_r.
      * rewrite ops_at_site_out by lia.
        replace ((min_site tR + j <=? k) && (k <=? max_site tR + j)) with false by lia. reflexivity.
Qed.

Lemma left_words_doc tL tR i0 i jR k w : tL <> [] -> tR <> [] ->
  tcf_left_words tL tR i0 i jR k = Some w ->
  (max_site tL + i < min_site tR + jR -> w = tcf_doc_words tL tR i jR k) /\
  total_parity tL = total_parity tR /\
  max_site tL + i0 <= min_site tR + jR /\ max_site tL + i <= min_site tR + jR.
Proof.
  intros HL HR. unfold tcf_left_words.
  destruct (tol_shift_spec tR jR false HR) as (opsR & E1 & HlenR & HwR). rewrite E1. cbv beta iota zeta.
  rewrite xorb_false_r.
  destruct (tol_shift_spec tL i0 (total_parity tR) HL) as (opsL0 & E2 & HlenL0 & _). rewrite E2. cbv beta iota zeta.
  destruct (tol_shift_spec tL i (total_parity tR) HL) as (opsL & E3 & HlenL & HwL). rewrite E3. cbv beta iota zeta.
  pose proof (min_le_max tL HL) as HmmL. pose proof (min_le_max tR HR) as HmmR.
  destruct (xorb (total_parity tL) (total_parity tR)) eqn:Epar; [discriminate|].
  replace (min_site tL + i0 - i0) with (min_site tL) by lia.
  destruct (min_site tR + jR <? i0 + min_site tL + Z.of_nat (length opsL0) - 1) eqn:Ec1; [discriminate|].
  destruct (min_site tR + jR <? i + min_site tL + Z.of_nat (length opsL0) - 1) eqn:Ec2; [discriminate|].
  intros Hw. inversion Hw as [Hw']. clear Hw Hw'.
  split; [|split; [destruct (total_parity tL), (total_parity tR); cbn in Epar; congruence | lia]].
  intros Hsep. unfold tcf_doc_words. cbv zeta.
  destruct (k <=? i + min_site tL + Z.of_nat (length opsL0) - 1) eqn:Ek1.
  - destruct (Z_lt_dec k (min_site tL + i)) as [Hlt|Hge].
    + rewrite ops_at_site_out by lia.
      replace ((min_site tL + i <=? k) && (k <=? max_site tL + i)) with false by lia.
      replace ((max_site tL + i <? k) && (k <? min_site tR + jR)) with false by lia.
      replace ((min_site tR + jR <=? k) && (k <=? max_site tR + jR)) with false by lia. reflexivity.
    + rewrite ops_at_site_in by lia.
      replace ((min_site tL + i <=? k) && (k <=? max_site tL + i)) with true by lia.
      replace (i + min_site tL) with (min_site tL + i) by lia.
      apply HwL. lia.
  - replace ((min_site tL + i <=? k) && (k <=? max_site tL + i)) with false by lia.
    destruct (k <? min_site tR + jR) eqn:Ek2.
    + replace (max_site tL + i <? k) with true by lia. reflexivity.
    + rewrite andb_false_r.
      destruct (Z_le_dec k (max_site tR + jR)) as [Hle|Hgt].
      * rewrite ops_at_site_in by lia.
        replace ((min_site tR + jR <=? k) && (k <=? max_site tR + jR)) with true by lia.
        rewrite HwR by lia. apply app_nil_r.
      * rewrite ops_at_site_out by lia.
        replace ((min_site tR + jR <=? k) && (k <=? max_site tR + jR)) with false by lia. reflexivity.
Qed.

(* both variants succeed on separated terms of equal fermion parity *)
Lemma tcf_defined tL tR i j k : tL <> [] -> tR <> [] ->
  total_parity tL = total_parity tR -> max_site tL + i < min_site tR + j ->
  (exists w, tcf_right_words tL tR i j j k = Some w) /\ (exists w, tcf_left_words tL tR i i j k = Some w).
Proof.
  intros HL HR Hp Hsep. split.
  - unfold tcf_right_words.
    destruct (tol_shift_spec tR j false HR) as (opsR & E1 & HlenR & _). rewrite E1. cbv beta iota zeta.
    rewrite xorb_false_r.
    destruct (tol_shift_spec tL i (total_parity tR) HL) as (opsL & E2 & HlenL & _). rewrite E2. cbv beta iota zeta.
    rewrite Hp. rewrite xorb_nilpotent.
    replace (min_site tR + j - j) with (min_site tR) by lia.
    replace (j + min_site tR <? min_site tL + i + Z.of_nat (length opsL)) with false by lia.
    eexists. reflexivity.
  - unfold tcf_left_words.
    destruct (tol_shift_spec tR j false HR) as (opsR & E1 & HlenR & _). rewrite E1. cbv beta iota zeta.
    rewrite xorb_false_r.
    destruct (tol_shift_spec tL i (total_parity tR) HL) as (opsL & E2 & HlenL & _). rewrite E2. cbv beta iota zeta.
    rewrite Hp. rewrite xorb_nilpotent.
    replace (min_site tL + i - i) with (min_site tL) by lia.
    replace (min_site tR + j <? i + min_site tL + Z.of_nat (length opsL) - 1) with false by lia.
    eexists. reflexivity.
Qed.

(* the symmetry: for the same pair of offsets (i, j) -- whatever the first entries i0 / j0 of the lists -- both variants
   contract the same word on every site *)
Lemma tcf_left_right_agree tL tR i0 i j0 j k wl wr : tL <> [] -> tR <> [] ->
  tcf_left_words tL tR i0 i j k = Some wl -> tcf_right_words tL tR i j0 j k = Some wr ->
  wl = wr /\ wr = tcf_doc_words tL tR i j k.
Proof.
  intros HL HR Hl Hr.
  destruct (right_words_doc tL tR i j0 j k wr HL HR Hr) as (Hr1 & _ & _ & Hsep).
  destruct (left_words_doc tL tR i0 i j k wl HL HR Hl) as (Hl1 & _).
  split; [rewrite (Hl1 Hsep), Hr1; reflexivity | exact Hr1].
Qed.

(* ---------- the documented words are the Jordan-Wigner product (term_L)(term_R) ---------- *)
Lemma nf_app_string_free (w v : word) p : nf v = (false, p, []) ->
  nf (w ++ v) = (nf_sign w, xorb (nf_jw w) p, nf_ops w).
Proof.
  intros Hv. unfold nf_sign, nf_jw, nf_ops. induction w as [|x w IH]; cbn [app].
  - rewrite Hv. destruct p; reflexivity.
  - destruct x as [a o|]; cbn [nf]; rewrite IH; destruct (nf w) as [[s q] u]; cbn [fst snd]; [reflexivity|].
    destruct q, p; reflexivity.
Qed.

Lemma phys_word_app t1 t2 k : phys_word (t1 ++ t2) k = phys_word t1 k ++ phys_word t2 k.
Proof. unfold phys_word. apply flat_map_app. Qed.

Lemma phys_word_right_of t k : (forall x, In x t -> it_site x < k) -> phys_word t k = [].
Proof.
  induction t as [|x r IH]; intros H; [reflexivity|].
  unfold phys_word in *. cbn [flat_map]. rewrite IH by (intros y Hy; apply H; right; exact Hy).
  pose proof (H x (or_introl eq_refl)) as Hx. unfold phys_letters.
  replace (it_site x =? k) with false by lia. replace (k <? it_site x) with false by lia.
  rewrite andb_false_r. reflexivity.
Qed.

Lemma nf_left_of t k : (forall x, In x t -> k < it_site x) -> nf (phys_word t k) = (false, total_parity t, []).
Proof.
  intros Hk. rewrite nf_phys.
  induction t as [|x r IH]; [reflexivity|].
  pose proof (Hk x (or_introl eq_refl)) as Hx.
  assert (IH' := IH (fun y Hy => Hk y (or_intror Hy))). inversion IH' as [[H1 H2 H3]].
  unfold ops_at in *. cbn [sgn_at jw_gt filter total_parity fold_right]. fold (total_parity r).
  replace (it_site x =? k) with false by lia. replace (k <? it_site x) with true by lia.
  unfold ops_at. rewrite H1, H2, H3. cbn [map odd_count]. rewrite !andb_false_r, andb_true_r. reflexivity.
Qed.

Lemma shift_in d t y : In y (shift_term d t) -> exists x, In x t /\ it_site y = it_site x + d.
Proof. unfold shift_term. rewrite in_map_iff. intros (x & <- & Hx). exists x. split; [exact Hx | reflexivity]. Qed.

Lemma nf_string (b : bool) : nf (if b then [JWl] else []) = (false, b, []).
Proof. destruct b; reflexivity. Qed.

Lemma doc_words_are_JW_product tL tR i j k : tL <> [] -> tR <> [] ->
  total_parity tL = total_parity tR -> max_site tL + i < min_site tR + j ->
  let w := tcf_doc_words tL tR i j k in
  let pw := phys_word (shift_term i tL ++ shift_term j tR) k in
  (min_site tL + i <= k -> nf_sign w = nf_sign pw /\ nf_jw w = nf_jw pw /\ nf_ops w = nf_ops pw) /\
  (k < min_site tL + i -> w = [] /\ nf pw = (false, false, [])).
Proof.
  intros HL HR Hp Hsep. cbv zeta.
  pose proof (min_le_max tL HL) as HmmL. pose proof (min_le_max tR HR) as HmmR.
  assert (HinL : forall y, In y (shift_term i tL) -> min_site tL + i <= it_site y <= max_site tL + i).
  { intros y Hy. destruct (shift_in _ _ _ Hy) as (x & Hx & ->). pose proof (site_bounds tL x Hx). lia. }
  assert (HinR : forall y, In y (shift_term j tR) -> min_site tR + j <= it_site y <= max_site tR + j).
  { intros y Hy. destruct (shift_in _ _ _ Hy) as (x & Hx & ->). pose proof (site_bounds tR x Hx). lia. }
  rewrite phys_word_app. unfold tcf_doc_words. cbv zeta. split.
  - intros Hk.
    destruct ((min_site tL + i <=? k) && (k <=? max_site tL + i)) eqn:E1.
    + (* inside term_L: the string of term_R passes *)
      assert (HR' : nf (phys_word (shift_term j tR) k) = (false, total_parity tR, [])).
      { rewrite nf_left_of by (intros y Hy; specialize (HinR y Hy); lia). rewrite total_parity_shift. reflexivity. }
      unfold nf_sign, nf_jw, nf_ops.
      rewrite (nf_app_string_free _ _ _ HR'). rewrite (nf_app_string_free _ _ _ (nf_string (total_parity tR))).
      cbn [fst snd]. repeat split.
    + rewrite (phys_word_right_of (shift_term i tL) k) by (intros y Hy; specialize (HinL y Hy); lia). cbn [app].
      destruct ((max_site tL + i <? k) && (k <? min_site tR + j)) eqn:E2.
      * unfold nf_sign, nf_jw, nf_ops. rewrite nf_string.
        rewrite nf_left_of by (intros y Hy; specialize (HinR y Hy); lia). rewrite total_parity_shift. repeat split.
      * destruct ((min_site tR + j <=? k) && (k <=? max_site tR + j)) eqn:E3; [repeat split|].
        rewrite (phys_word_right_of (shift_term j tR) k) by (intros y Hy; specialize (HinR y Hy); lia). repeat split.
  - intros Hk.
    replace ((min_site tL + i <=? k) && (k <=? max_site tL + i)) with false by lia.
    replace ((max_site tL + i <? k) && (k <? min_site tR + j)) with false by lia.
    replace ((min_site tR + j <=? k) && (k <=? max_site tR + j)) with false by lia.
    split; [reflexivity|].
    rewrite <- phys_word_app. rewrite nf_left_of.
    + unfold total_parity. rewrite fold_right_app. fold (total_parity (shift_term j tR)).
      assert (Hx : forall l b, fold_right (fun t b0 => xorb (it_f t) b0) b l = xorb (total_parity l) b).
      { induction l as [|x l IHl]; intros b; cbn [fold_right total_parity]; [destruct b; reflexivity|].
        unfold total_parity in *. cbn [fold_right]. rewrite IHl.
        destruct (it_f x), (fold_right (fun t b0 => xorb (it_f t) b0) false l), b; reflexivity. }
      rewrite Hx. rewrite !total_parity_shift, Hp. rewrite xorb_nilpotent. reflexivity.
    + intros y Hy. apply in_app_or in Hy. destruct Hy as [Hy|Hy]; [specialize (HinL y Hy) | specialize (HinR y Hy)]; lia.
Qed.
