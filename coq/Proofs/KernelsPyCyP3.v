(* Proofs about LegPipe._init_from_legs (Model/KernelsPyCy2.v, part (b)). *)
From TenpyV Require Import Base.Prelude Model.KernelsPyCy Model.KernelsPyCy2 Proofs.KernelsPyCyP.
Open Scope Z_scope.

Lemma snoc_assoc {A} (a : list A) x t : a ++ x :: t = (a ++ [x]) ++ t.
Proof. rewrite <- app_assoc. reflexivity. Qed.
Lemma snoc_length {A} (a : list A) x : length (a ++ [x]) = S (length a).
Proof. rewrite app_length. cbn [length]. lia. Qed.

Lemma upd_at_app pre x t f : upd_at (pre ++ x :: t) (length pre) f = pre ++ f x :: t.
Proof.
  unfold upd_at. rewrite firstn_app_len, nthZ_app_len. f_equal. f_equal.
  rewrite snoc_assoc, <- (snoc_length pre x). apply skipn_app_len.
Qed.

Lemma upd_at_app' pre x t f j : j = length pre -> upd_at (pre ++ x :: t) j f = pre ++ f x :: t.
Proof. intros ->. apply upd_at_app. Qed.

Lemma fill_app' n a b c v j : j = length a -> length b = n ->
  fill (a ++ b ++ c) j n v = a ++ repeat v n ++ c.
Proof. intros ->. apply fill_app. Qed.

Lemma row_map2_length f : forall a b, length (row_map2 f a b) = Nat.min (length a) (length b).
Proof. induction a as [|x a IH]; intros [|y b]; cbn [row_map2 length]; try reflexivity. rewrite IH. reflexivity. Qed.

(* ============================ q_map[:, 2] ============================ *)
Lemma chainN_lt : forall ps prev N, chainN prev ps N -> (prev < N)%nat.
Proof.
  induction ps as [|p t IH]; intros prev N H; cbn [chainN] in H; [exact H|].
  destruct H as [H1 H2]. specialize (IH p N H2). lia.
Qed.

Lemma cumsum_app : forall l1 l2 s, cumsum_from s (l1 ++ l2) = cumsum_from s l1 ++ cumsum_from (s + sumZ l1) l2.
Proof.
  induction l1 as [|x l1 IH]; intros l2 s; cbn [app cumsum_from sumZ].
  - f_equal. lia.
  - f_equal. rewrite IH. f_equal. f_equal. lia.
Qed.
Lemma cumsum_zeros n s : cumsum_from s (repeat 0 n) = repeat s n.
Proof.
  induction n as [|n IH]; cbn [repeat cumsum_from]; [reflexivity|].
  replace (s + 0) with s by lia. rewrite IH. reflexivity.
Qed.
Lemma sumZ_zeros n : sumZ (repeat 0 n) = 0.
Proof. induction n as [|n IH]; cbn [repeat sumZ]; lia. Qed.

Lemma set_ones_spec N : forall ps prev A, length A = S prev -> chainN prev ps N ->
  set_ones (A ++ repeat 0 (N - prev - 1)) (map Z.of_nat ps) = A ++ tailI prev ps N.
Proof.
  unfold set_ones. induction ps as [|p t IH]; intros prev A HA Hc; cbn [map fold_left tailI]; [reflexivity|].
  cbn [chainN] in Hc. destruct Hc as [Hp Hc]. pose proof (chainN_lt _ _ _ Hc) as HpN.
  replace (N - prev - 1)%nat with ((p - prev - 1) + S (N - p - 1))%nat by lia.
  rewrite repeat_app. cbn [repeat]. rewrite Nat2Z.id.
  rewrite app_assoc.
  rewrite upd_at_app' by (rewrite app_length, repeat_length; lia). rewrite snoc_assoc.
  rewrite (IH p); [|rewrite snoc_length, app_length, repeat_length; lia|exact Hc].
  rewrite <- !app_assoc. reflexivity.
Qed.

Lemma cumsum_tailI N : forall ps prev a, chainN prev ps N ->
  a :: cumsum_from a (tailI prev ps N) = runsN a prev (ps ++ [N]).
Proof.
  induction ps as [|p t IH]; intros prev a Hc; cbn [tailI app runsN chainN] in *.
  - rewrite cumsum_zeros, app_nil_r. remember (N - prev - 1)%nat as d. replace (N - prev)%nat with (S d) by lia. reflexivity.
  - destruct Hc as [Hp Hc]. rewrite cumsum_app, cumsum_zeros, sumZ_zeros. cbn [cumsum_from].
    replace (a + 0 + 1) with (a + 1) by lia. rewrite (IH p (a + 1) Hc).
    remember (p - prev - 1)%nat as d. replace (p - prev)%nat with (S d) by lia. cbn [repeat app]. reflexivity.
Qed.

Lemma idx_inner ps N : inner (map Z.of_nat (0%nat :: ps ++ [N])) = map Z.of_nat ps.
Proof. unfold inner. cbn [map tl]. rewrite map_app. cbn [map]. apply removelast_last. Qed.

Lemma qi_py_spec ps N : chainN 0 ps N ->
  qi_py N (map Z.of_nat (0%nat :: ps ++ [N])) = runsN 0 0 (ps ++ [N]).
Proof.
  intros Hc. unfold qi_py. rewrite idx_inner.
  pose proof (chainN_lt _ _ _ Hc) as HN.
  pose proof (set_ones_spec N ps 0%nat [0] eq_refl Hc) as H. cbn [app] in H.
  assert (E : repeat 0 N = 0 :: repeat 0 (N - 0 - 1)).
  { clear -HN. destruct N; [lia|]. cbn [repeat]. f_equal. f_equal. lia. }
  rewrite E, H. cbn [cumsum_from].
  replace (0 + 0) with 0 by lia. apply cumsum_tailI. exact Hc.
Qed.

Lemma last_cons_def {A} : forall (t : list A) x d, last (x :: t) d = last t x.
Proof.
  induction t as [|y t IH]; intros x d; [reflexivity|].
  change (last (x :: y :: t) d) with (last (y :: t) d). rewrite (IH y d), (IH y x). reflexivity.
Qed.

Lemma incN_le_last : forall t nxt, incN nxt t -> (nxt <= last t nxt)%nat.
Proof.
  induction t as [|y t IH]; intros nxt Hi; [cbn [last]; lia|].
  cbn [incN] in Hi. destruct Hi as [H1 H2]. rewrite last_cons_def. specialize (IH y H2). lia.
Qed.

Lemma qi_loop_runs : forall rest prev A B a,
  length A = prev -> incN prev rest -> length B = (last rest prev - prev)%nat ->
  qi_loop (A ++ B) (Z.of_nat prev) (map Z.of_nat rest) a (Z.of_nat (last rest prev)) = A ++ runsN a prev rest.
Proof.
  induction rest as [|nxt t IH]; intros prev A B a HA Hi HB; cbn [map qi_loop runsN].
  - cbn [last] in *. replace (Z.to_nat (Z.of_nat prev - Z.of_nat prev)) with 0%nat by lia. cbn [fill].
    replace (prev - prev)%nat with 0%nat in HB by lia. destruct B; [reflexivity|discriminate].
  - cbn [incN] in Hi. destruct Hi as [Hle Hi].
    rewrite (last_cons_def t nxt prev) in *.
    pose proof (incN_le_last t nxt Hi) as Hge.
    rewrite Nat2Z.id. replace (Z.to_nat (Z.of_nat nxt - Z.of_nat prev)) with (nxt - prev)%nat by lia.
    rewrite <- (firstn_skipn (nxt - prev) B).
    rewrite fill_app' by (try (apply firstn_length_le); lia).
    rewrite app_assoc.
    rewrite (IH nxt); [rewrite <- app_assoc; reflexivity| |exact Hi|].
    + rewrite app_length, repeat_length. lia.
    + rewrite skipn_length. lia.
Qed.

Lemma chain_inc : forall ps prev N, chainN prev ps N -> incN prev (ps ++ [N]).
Proof.
  induction ps as [|p t IH]; intros prev N H; cbn [chainN app incN] in *.
  - split; [lia|exact I].
  - destruct H as [H1 H2]. split; [lia|apply IH; exact H2].
Qed.

Lemma last_snoc {A} (l : list A) x d : last (l ++ [x]) d = x.
Proof. apply last_last. Qed.

Lemma qi_cy_spec junk ps N : chainN 0 ps N ->
  qi_cy junk N (map Z.of_nat (0%nat :: ps ++ [N])) = runsN 0 0 (ps ++ [N]).
Proof.
  intros Hc. unfold qi_cy. cbn [map].
  pose proof (qi_loop_runs (ps ++ [N]) 0%nat [] (repeat junk N) 0 eq_refl (chain_inc _ _ _ Hc)) as H.
  rewrite last_snoc in H. cbn [app] in H. apply H. rewrite repeat_length. lia.
Qed.

Lemma qi_eq junk ps N : chainN 0 ps N ->
  qi_cy junk N (map Z.of_nat (0%nat :: ps ++ [N])) = qi_py N (map Z.of_nat (0%nat :: ps ++ [N])).
Proof. intros Hc. rewrite qi_cy_spec, qi_py_spec by exact Hc. reflexivity. Qed.

Lemma runsN_length : forall rest prev a, incN prev rest -> length (runsN a prev rest) = (last rest prev - prev)%nat.
Proof.
  induction rest as [|nxt t IH]; intros prev a Hi; [cbn [runsN last length]; lia|].
  cbn [incN] in Hi. destruct Hi as [Hle Hi]. cbn [runsN].
  rewrite app_length, repeat_length, (IH nxt (a + 1) Hi), last_cons_def.
  pose proof (incN_le_last t nxt Hi) as Hge. lia.
Qed.

Lemma qi_py_length ps N : chainN 0 ps N -> length (qi_py N (map Z.of_nat (0%nat :: ps ++ [N]))) = N.
Proof.
  intros Hc. rewrite (qi_py_spec ps N Hc), (runsN_length _ _ _ (chain_inc _ _ _ Hc)), last_snoc. lia.
Qed.

(* ---- trivial mapping without bunch *)
Lemma arange_loop junk : forall m k A,
  length A = k ->
  fold_left (fun col j => fill col j 1 (Z.of_nat j)) (seq k m) (A ++ repeat junk m) = A ++ map Z.of_nat (seq k m).
Proof.
  induction m as [|m IH]; intros k A HA; cbn [seq fold_left repeat map]; [reflexivity|].
  change (junk :: repeat junk m) with ([junk] ++ repeat junk m).
  rewrite fill_app' by (try reflexivity; lia). cbn [repeat app].
  rewrite snoc_assoc. rewrite (IH (S k)) by (rewrite snoc_length; lia).
  rewrite <- app_assoc. reflexivity.
Qed.

Lemma arange_eq junk n :
  fold_left (fun col j => fill col j 1 (Z.of_nat j)) (seq 0 n) (repeat junk n) = map Z.of_nat (seq 0 n).
Proof. exact (arange_loop junk n 0%nat [] eq_refl). Qed.

(* ============================ columns 0 and 1 ============================ *)
Lemma cols01_gen (new_slices : list Z) : forall Qi slices k,
  length slices = S (length Qi) ->
  map (fun j => let a := nthZ new_slices (Z.to_nat (nthZ Qi (j - k))) in
                (nthZ slices (j - k) - a, nthZ slices (S (j - k)) - a)) (seq k (length Qi))
  = cols01_py slices new_slices Qi.
Proof.
  unfold cols01_py. induction Qi as [|q Qi IH]; intros slices k Hl; cbn [length seq map].
  - destruct slices as [|x [|y t]]; cbn [length] in Hl; try lia. reflexivity.
  - destruct slices as [|x [|y t]]; cbn [length] in Hl; try lia.
    replace (k - k)%nat with 0%nat by lia.
    change (removelast (x :: y :: t)) with (x :: removelast (y :: t)). cbn [tl row_map2 combine map].
    f_equal.
    specialize (IH (y :: t) (S k)). cbn [tl] in IH. rewrite <- IH by (cbn [length]; lia).
    apply map_ext_in. intros j Hj. apply in_seq in Hj.
    replace (j - k)%nat with (S (j - S k)) by lia. reflexivity.
Qed.

Lemma cols01_eq slices new_slices Qi :
  length slices = S (length Qi) ->
  cols01_cy (length Qi) slices new_slices Qi = cols01_py slices new_slices Qi.
Proof.
  intros Hl. rewrite <- (cols01_gen new_slices Qi slices 0%nat Hl). unfold cols01_cy.
  apply map_ext. intros j. rewrite Nat.sub_0_r. reflexivity.
Qed.

(* ============================ shape of _find_row_differences ============================ *)
Lemma frd_loop_chain M : forall rest prev i lo, (lo < i)%nat ->
  exists ps, frd_loop M (Z.of_nat i) prev rest = map Z.of_nat ps /\ chainN lo ps (i + length rest).
Proof.
  induction rest as [|r t IH]; intros prev i lo Hlo; cbn [frd_loop length].
  - exists []. split; [reflexivity|]. cbn [chainN]. lia.
  - replace (Z.of_nat i + 1) with (Z.of_nat (S i)) by lia.
    destruct (rows_equal_cy M 0 prev r).
    + destruct (IH r (S i) lo) as (ps & E & Hc); [lia|]. exists ps. split; [exact E|].
      replace (i + S (length t))%nat with (S i + length t)%nat by lia. exact Hc.
    + destruct (IH r (S i) i) as (ps & E & Hc); [lia|]. exists (i :: ps). split; [cbn [map]; rewrite E; reflexivity|].
      cbn [chainN]. split; [exact Hlo|].
      replace (i + S (length t))%nat with (S i + length t)%nat by lia. exact Hc.
Qed.

Lemma frd_cy_shape M rows : rows <> [] ->
  exists ps, frd_cy M rows = map Z.of_nat (0%nat :: ps ++ [length rows]) /\ chainN 0 ps (length rows).
Proof.
  intros Hne. unfold frd_cy. destruct (M =? 0).
  - exists []. split; [reflexivity|]. cbn [chainN]. destruct rows; [contradiction|cbn [length]; lia].
  - destruct rows as [|r t]; [contradiction|].
    destruct (frd_loop_chain (Z.to_nat M) t r 1%nat 0%nat) as (ps & E & Hc); [lia|].
    exists ps. change 1 with (Z.of_nat 1). rewrite E. split; [|exact Hc].
    cbn [map length]. rewrite map_app. reflexivity.
Qed.

(* ============================ block sizes ============================ *)
Lemma row_map2_mul_assoc : forall a b c,
  row_map2 Z.mul (row_map2 Z.mul a b) c = row_map2 Z.mul a (row_map2 Z.mul b c).
Proof.
  induction a as [|x a IH]; intros [|y b] [|z c]; cbn [row_map2]; try reflexivity.
  f_equal; [lia|apply IH].
Qed.
Lemma row_map2_mul_ones_r : forall a n, length a = n -> row_map2 Z.mul a (repeat 1 n) = a.
Proof.
  induction a as [|x a IH]; intros n Hn; cbn [length] in Hn; subst n; cbn [repeat row_map2]; [reflexivity|].
  f_equal; [lia|apply IH; reflexivity].
Qed.
Lemma row_map2_mul_ones_l : forall a n, length a = n -> row_map2 Z.mul (repeat 1 n) a = a.
Proof.
  induction a as [|x a IH]; intros n Hn; cbn [length] in Hn; subst n; cbn [repeat row_map2]; [reflexivity|].
  f_equal; [lia|apply IH; reflexivity].
Qed.

Lemma bs_inner_spec leg_bs : forall col pre bs, length bs = length col ->
  bs_inner (pre ++ bs) leg_bs col (length pre)
  = pre ++ row_map2 Z.mul bs (map (fun qi => nthZ leg_bs (Z.to_nat qi)) col).
Proof.
  induction col as [|qi t IH]; intros pre bs Hl.
  - destruct bs; [reflexivity|discriminate].
  - destruct bs as [|x bs]; [discriminate|]. cbn [bs_inner map row_map2]. rewrite upd_at_app.
    set (y := x * nthZ leg_bs (Z.to_nat qi)).
    rewrite snoc_assoc, <- (snoc_length pre y).
    rewrite IH by (cbn [length] in Hl; lia). rewrite <- app_assoc. reflexivity.
Qed.

Lemma gcol_length gridT a : length (gcol gridT a) = length gridT.
Proof. apply map_length. Qed.

Lemma prod_axis0_length n : forall vs, Forall (fun v => length v = n) vs -> length (prod_axis0 n vs) = n.
Proof.
  induction 1 as [|v vs Hv _ IH]; cbn [prod_axis0]; [apply repeat_length|].
  rewrite row_map2_length, Hv, IH. lia.
Qed.

Lemma legvecs_length gridT (l : list (nat * pleg)) :
  Forall (fun v => length v = length gridT) (map (legvec gridT) l).
Proof. apply Forall_forall. intros v Hv. apply in_map_iff in Hv. destruct Hv as (al & <- & _).
  unfold legvec. rewrite map_length. apply gcol_length. Qed.

Lemma bs_outer_spec gridT : forall legs a bs, length bs = length gridT ->
  bs_outer bs legs gridT a
  = row_map2 Z.mul bs (prod_axis0 (length gridT) (map (legvec gridT) (combine (seq a (length legs)) legs))).
Proof.
  induction legs as [|l t IH]; intros a bs Hl; cbn [bs_outer length seq combine map prod_axis0].
  - symmetry. apply row_map2_mul_ones_r. exact Hl.
  - pose proof (bs_inner_spec (pl_bs l) (gcol gridT a) [] bs) as H. cbn [app length] in H.
    rewrite H by (rewrite gcol_length; exact Hl).
    rewrite IH by (rewrite row_map2_length, map_length, gcol_length, Hl; lia).
    rewrite row_map2_mul_assoc. reflexivity.
Qed.

Lemma blocksizes_eq legs gridT : blocksizes_cy legs gridT = blocksizes_py legs gridT.
Proof.
  unfold blocksizes_cy, blocksizes_py. rewrite bs_outer_spec by apply repeat_length.
  apply row_map2_mul_ones_l. apply prod_axis0_length. apply legvecs_length.
Qed.

Lemma blocksizes_length legs gridT : length (blocksizes_py legs gridT) = length gridT.
Proof. unfold blocksizes_py. apply prod_axis0_length. apply (legvecs_length gridT). Qed.

(* ============================ fused charges ============================ *)
Lemma vaddZ_assoc : forall a b c, vaddZ (vaddZ a b) c = vaddZ a (vaddZ b c).
Proof.
  unfold vaddZ. induction a as [|x a IH]; intros [|y b] [|z c]; cbn [row_map2]; try reflexivity.
  f_equal; [lia|apply IH].
Qed.
Lemma vaddZ_zero_l : forall a n, length a = n -> vaddZ (repeat 0 n) a = a.
Proof.
  unfold vaddZ. induction a as [|x a IH]; intros n Hn; cbn [length] in Hn; subst n; cbn [repeat row_map2]; [reflexivity|].
  f_equal; try lia; apply IH; reflexivity.
Qed.
Lemma vaddZ_zero_r : forall a n, length a = n -> vaddZ a (repeat 0 n) = a.
Proof.
  unfold vaddZ. induction a as [|x a IH]; intros n Hn; cbn [length] in Hn; subst n; cbn [repeat row_map2]; [reflexivity|].
  f_equal; try lia; apply IH; reflexivity.
Qed.
Lemma zipW_assoc : forall u v w, zipW (zipW u v) w = zipW u (zipW v w).
Proof.
  unfold zipW. induction u as [|x u IH]; intros [|y v] [|z w]; cbn [combine map fst snd]; try reflexivity.
  f_equal; [apply vaddZ_assoc|apply IH].
Qed.
Lemma zipW_length u v : length (zipW u v) = Nat.min (length u) (length v).
Proof. unfold zipW. rewrite map_length, combine_length. reflexivity. Qed.
Lemma zipW_zero_l qn : forall X n, length X = n -> Forall (fun r => length r = qn) X ->
  zipW (repeat (repeat 0 qn) n) X = X.
Proof.
  unfold zipW. induction X as [|r X IH]; intros n Hn HF; cbn [length] in Hn; subst n; cbn [repeat combine map fst snd]; [reflexivity|].
  apply Forall_cons_iff in HF. destruct HF as [Hr HF]. f_equal; [apply vaddZ_zero_l; assumption|apply IH; [reflexivity|assumption]].
Qed.
Lemma zipW_rows qn : forall u v, Forall (fun r => length r = qn) u -> Forall (fun r => length r = qn) v ->
  Forall (fun r => length r = qn) (zipW u v).
Proof.
  unfold zipW. induction u as [|x u IH]; intros [|y v] Hu Hv; cbn [combine map fst snd]; try constructor.
  - apply Forall_cons_iff in Hu, Hv. destruct Hu as [Hx Hu], Hv as [Hy Hv]. unfold vaddZ. rewrite row_map2_length. lia.
  - apply Forall_cons_iff in Hu, Hv. destruct Hu as [Hx Hu], Hv as [Hy Hv]. apply IH; assumption.
Qed.

Lemma pq_k_spec ch sign : forall n pre row, length row = n ->
  pq_k (pre ++ row) ch sign (length pre) n
  = pre ++ vaddZ row (map (fun k => nthZ ch k * sign) (seq (length pre) n)).
Proof.
  unfold vaddZ. induction n as [|n IH]; intros pre row Hl.
  - destruct row; [reflexivity|discriminate].
  - destruct row as [|x row]; [discriminate|]. cbn [pq_k seq map row_map2]. rewrite upd_at_app.
    set (y := x + nthZ ch (length pre) * sign).
    rewrite snoc_assoc, <- (snoc_length pre y).
    rewrite IH by (cbn [length] in Hl; lia). rewrite <- app_assoc. reflexivity.
Qed.

Lemma chterm_length qn chs sign qi : length (chterm qn chs sign qi) = qn.
Proof. unfold chterm, chrow. rewrite !map_length. apply seq_length. Qed.

Lemma set_rowZ_app (pre : list (list Z)) r t row : set_rowZ (pre ++ r :: t) (length pre) row = pre ++ row :: t.
Proof.
  unfold set_rowZ. rewrite firstn_app_len. f_equal. f_equal.
  rewrite snoc_assoc, <- (snoc_length pre r). apply skipn_app_len.
Qed.

Lemma pq_i_spec qn chs sign : forall col pre res, length res = length col ->
  Forall (fun r => length r = qn) res ->
  pq_i (pre ++ res) qn chs sign col (length pre) = pre ++ zipW res (map (chterm qn chs sign) col).
Proof.
  unfold zipW. induction col as [|qi t IH]; intros pre res Hl HF.
  - destruct res; [reflexivity|discriminate].
  - destruct res as [|r res]; [discriminate|]. apply Forall_cons_iff in HF. destruct HF as [Hr HF'].
    cbn [pq_i map combine fst snd]. rewrite nth_middle, set_rowZ_app.
    pose proof (pq_k_spec (nth (Z.to_nat qi) chs []) sign qn [] r Hr) as H. cbn [app length] in H.
    rewrite H.
    set (y := vaddZ r _).
    rewrite snoc_assoc, <- (snoc_length pre y).
    rewrite IH by (cbn [length] in Hl; try lia; exact HF'). rewrite <- app_assoc. cbn [app]. f_equal. f_equal.
    subst y. f_equal. unfold chterm, chrow. rewrite map_map. reflexivity.
Qed.

Lemma legterm_chterm qn qconj gridT a l :
  map (chterm qn (pl_charges l) (pl_qconj l * qconj)) (gcol gridT a) = legterm qn qconj gridT (a, l).
Proof.
  unfold legterm, chterm. cbn [fst snd]. apply map_ext. intros qi. apply map_ext. intros c. lia.
Qed.

Lemma sum_axis0_shape n qn : forall ms,
  Forall (fun m => length m = n /\ Forall (fun r => length r = qn) m) ms ->
  length (sum_axis0 n qn ms) = n /\ Forall (fun r => length r = qn) (sum_axis0 n qn ms).
Proof.
  induction 1 as [|m ms [Hm1 Hm2] _ [IH1 IH2]]; cbn [sum_axis0].
  - split; [apply repeat_length|]. apply Forall_forall. intros r Hr. apply repeat_spec in Hr. subst r. apply repeat_length.
  - fold (zipW m (sum_axis0 n qn ms)). split; [rewrite zipW_length; lia|apply zipW_rows; assumption].
Qed.

Lemma legterms_shape qn qconj gridT (l : list (nat * pleg)) :
  Forall (fun m => length m = length gridT /\ Forall (fun r => length r = qn) m) (map (legterm qn qconj gridT) l).
Proof.
  apply Forall_forall. intros m Hm. apply in_map_iff in Hm. destruct Hm as (al & <- & _).
  unfold legterm. split; [rewrite map_length; apply gcol_length|].
  apply Forall_forall. intros r Hr. apply in_map_iff in Hr. destruct Hr as (qi & <- & _).
  unfold chrow. rewrite !map_length. apply seq_length.
Qed.

Lemma pq_a_spec qn qconj gridT : forall legs a res, length res = length gridT ->
  Forall (fun r => length r = qn) res ->
  pq_a res qn qconj legs gridT a
  = zipW res (sum_axis0 (length gridT) qn (map (legterm qn qconj gridT) (combine (seq a (length legs)) legs))).
Proof.
  induction legs as [|l t IH]; intros a res Hl HF; cbn [pq_a length seq combine map sum_axis0].
  - unfold zipW. revert HF. rewrite <- Hl. clear. induction res as [|r res IH]; intros HF; cbn [length repeat combine map fst snd]; [reflexivity|].
    apply Forall_cons_iff in HF. destruct HF as [Hr HF]. f_equal; [|apply IH; assumption].
    symmetry. apply vaddZ_zero_r. exact Hr.
  - pose proof (pq_i_spec qn (pl_charges l) (pl_qconj l * qconj) (gcol gridT a) [] res) as H. cbn [app length] in H.
    rewrite H; [|rewrite gcol_length; exact Hl|exact HF]. rewrite legterm_chterm.
    assert (Hshape := legterms_shape qn qconj gridT [(a, l)]). cbn [map] in Hshape.
    apply Forall_cons_iff in Hshape. destruct Hshape as [[Hm1 Hm2] _].
    rewrite IH; [|rewrite zipW_length; lia|apply zipW_rows; assumption].
    fold (zipW (legterm qn qconj gridT (a, l))
               (sum_axis0 (length gridT) qn (map (legterm qn qconj gridT) (combine (seq (S a) (length t)) t)))).
    apply zipW_assoc.
Qed.

Lemma charges_raw_eq qn qconj legs gridT :
  charges_raw_cy qn qconj legs gridT = charges_raw_py qn qconj legs gridT.
Proof.
  unfold charges_raw_cy, charges_raw_py.
  rewrite pq_a_spec; [|apply repeat_length|].
  2:{ apply Forall_forall. intros r Hr. apply repeat_spec in Hr. subst r. apply repeat_length. }
  fold (legterm qn qconj gridT).
  destruct (sum_axis0_shape (length gridT) qn _ (legterms_shape qn qconj gridT (combine (seq 0 (length legs)) legs))) as [H1 H2].
  apply zipW_zero_l; assumption.
Qed.

Lemma charges_raw_shape qn qconj legs gridT :
  length (charges_raw_py qn qconj legs gridT) = length gridT
  /\ Forall (fun r => length r = qn) (charges_raw_py qn qconj legs gridT).
Proof. unfold charges_raw_py. apply sum_axis0_shape. apply (legterms_shape qn qconj gridT). Qed.

Lemma charges_eq mods qconj legs gridT :
  Forall (fun m => 1 <= m < two62) mods ->
  Forall (Forall (fun q => - two62 < q < two62)) (charges_raw_py (length mods) qconj legs gridT) ->
  charges_cy mods qconj legs gridT = charges_py mods qconj legs gridT.
Proof.
  intros Hm Hr. unfold charges_cy, charges_py. destruct (Nat.eqb (length mods) 0); [reflexivity|].
  rewrite charges_raw_eq. apply make_valid_eq; assumption.
Qed.

Lemma charges_py_shape mods qconj legs gridT :
  length (charges_py mods qconj legs gridT) = length gridT
  /\ Forall (fun r => length r = length mods) (charges_py mods qconj legs gridT).
Proof.
  unfold charges_py. destruct (Nat.eqb (length mods) 0) eqn:E.
  - split; [apply repeat_length|]. apply Forall_forall. intros r Hr. apply repeat_spec in Hr. subst r.
    apply Nat.eqb_eq in E. rewrite E. reflexivity.
  - destruct (charges_raw_shape (length mods) qconj legs gridT) as [H1 H2].
    unfold make_valid_py. split; [rewrite map_length; exact H1|].
    apply Forall_forall. intros r Hr. apply in_map_iff in Hr. destruct Hr as (r0 & <- & Hr0).
    rewrite Forall_forall in H2. rewrite row_map2_length, (H2 r0 Hr0). lia.
Qed.

(* ============================ the whole construction ============================ *)
Lemma cumsum_length : forall l s, length (cumsum_from s l) = length l.
Proof. induction l as [|x l IH]; intros s; cbn [cumsum_from length]; [reflexivity|]. rewrite IH. reflexivity. Qed.

Lemma cols01_eq' n slices new_slices Qi :
  n = length Qi -> length slices = S n ->
  cols01_cy n slices new_slices Qi = cols01_py slices new_slices Qi.
Proof. intros -> H. apply cols01_eq. exact H. Qed.

Lemma take_rows {A} (P : A -> Prop) d (l : list A) perm :
  Forall P l -> Forall (fun p => (p < length l)%nat) perm -> Forall P (take d l perm).
Proof.
  intros Hl Hp. unfold take. apply Forall_forall. intros r Hr. apply in_map_iff in Hr.
  destruct Hr as (p & <- & Hin). rewrite Forall_forall in Hl, Hp. apply Hl, nth_In, Hp, Hin.
Qed.

Section InitEq.
  Variable lexsort : list (list Z) -> list nat.
  Hypothesis lexsort_len : forall t, length (lexsort t) = length t.
  Hypothesis lexsort_rng : forall t, Forall (fun p => (p < length t)%nat) (lexsort t).

  Lemma init_from_legs_eq junk mods qconj legs gridT sort bunch :
    gridT <> [] ->
    Forall (fun m => 1 <= m < two62) mods ->
    Forall (Forall (fun q => - two62 < q < two62)) (charges_raw_py (length mods) qconj legs gridT) ->
    init_from_legs_cy lexsort junk mods qconj legs gridT sort bunch
    = init_from_legs_py lexsort mods qconj legs gridT sort bunch.
  Proof.
    intros Hne Hm Hr. unfold init_from_legs_cy, init_from_legs_py.
    rewrite blocksizes_eq, (charges_eq mods qconj legs gridT Hm Hr).
    destruct (charges_py_shape mods qconj legs gridT) as [Hcl Hcr].
    pose proof (blocksizes_length legs gridT) as Hbl.
    set (ch0 := charges_py mods qconj legs gridT) in *.
    set (bs0 := blocksizes_py legs gridT) in *.
    set (do_sort := sort && negb (Nat.eqb (length mods) 0)).
    pose proof (lexsort_len ch0) as Hpl. pose proof (lexsort_rng ch0) as Hpr.
    set (perm := lexsort ch0) in *.
    set (gT := if do_sort then take [] gridT perm else gridT).
    set (ch := if do_sort then take [] ch0 perm else ch0).
    set (bs := if do_sort then take 0 bs0 perm else bs0).
    assert (Hchl : length ch = length gridT).
    { subst ch. destruct do_sort; [unfold take; rewrite map_length; lia|exact Hcl]. }
    assert (Hchr : Forall (fun r => length r = length mods) ch).
    { subst ch. destruct do_sort; [apply take_rows; assumption|exact Hcr]. }
    assert (Hbsl : length bs = length gridT).
    { subst bs. destruct do_sort; [unfold take; rewrite map_length; lia|exact Hbl]. }
    assert (Hsl : length (slices_of_bs bs) = S (length gridT)).
    { unfold slices_of_bs. cbn [length]. rewrite cumsum_length, Hbsl. reflexivity. }
    assert (Hchne : ch <> []).
    { intros E. rewrite E in Hchl. destruct gridT; [contradiction|discriminate]. }
    destruct bunch.
    - assert (Eidx : frd_cy (Z.of_nat (length mods)) ch = frd_py (Z.of_nat (length mods)) ch).
      { apply find_row_differences_eq; [lia|rewrite Nat2Z.id; exact Hchr]. }
      destruct (frd_cy_shape (Z.of_nat (length mods)) ch Hchne) as (ps & Eps & Hc).
      rewrite <- Eidx, Eps, Hchl in *.
      rewrite (qi_eq junk ps (length gridT) Hc).
      rewrite cols01_eq'; [reflexivity| |exact Hsl].
      symmetry. apply qi_py_length. exact Hc.
    - rewrite arange_eq.
      rewrite cols01_eq'; [reflexivity| |exact Hsl].
      rewrite map_length, seq_length. reflexivity.
  Qed.
End InitEq.

(* ---- what the construction delivers (stated on the python side): the rows of q_map are tagged with
   non-decreasing outgoing block numbers starting at 0, and q_map_slices cuts them where the tag changes *)
Lemma qmap_tags_runs ps N : chainN 0 ps N ->
  qi_py N (map Z.of_nat (0%nat :: ps ++ [N])) = runsN 0 0 (ps ++ [N]).
Proof. exact (qi_py_spec ps N). Qed.

(* ---- the insertion sorter satisfies the two hypotheses on `lexsort` *)
Lemma ins_idx_length tbl p : forall l, length (ins_idx tbl p l) = S (length l).
Proof.
  induction l as [|q t IH]; cbn [ins_idx length]; [reflexivity|].
  destruct (lexltb _ _); cbn [length]; [rewrite IH|]; reflexivity.
Qed.
Lemma ins_idx_Forall tbl (P : nat -> Prop) p : forall l, P p -> Forall P l -> Forall P (ins_idx tbl p l).
Proof.
  induction l as [|q t IH]; intros Hp Hl; cbn [ins_idx]; [constructor; [exact Hp|constructor]|].
  apply Forall_cons_iff in Hl. destruct Hl as [Hq Ht].
  destruct (lexltb _ _); constructor; auto.
Qed.
Lemma fold_ins_length tbl : forall l, length (fold_right (ins_idx tbl) [] l) = length l.
Proof. induction l as [|x l IH]; cbn [fold_right length]; [reflexivity|]. rewrite ins_idx_length, IH. reflexivity. Qed.
Lemma fold_ins_Forall tbl (P : nat -> Prop) : forall l, Forall P l -> Forall P (fold_right (ins_idx tbl) [] l).
Proof.
  induction l as [|x l IH]; intros H; cbn [fold_right]; [constructor|].
  apply Forall_cons_iff in H. destruct H as [Hx Hl]. apply ins_idx_Forall; auto.
Qed.
Lemma lexsort_ins_len t : length (lexsort_ins t) = length t.
Proof. unfold lexsort_ins. rewrite fold_ins_length. apply seq_length. Qed.
Lemma lexsort_ins_rng t : Forall (fun p => (p < length t)%nat) (lexsort_ins t).
Proof.
  unfold lexsort_ins. apply fold_ins_Forall. apply Forall_forall. intros p Hp. apply in_seq in Hp. lia.
Qed.
