(* Proofs about Model/StoreMpsObj.v (MPS objects and the list objects bound to their _B attribute). *)
From TenpyV Require Import Base.Prelude Model.StoreMpsObj.
Open Scope nat_scope.

Lemma lupd_length {A} (l : list A) : forall i v, length (lupd l i v) = length l.
Proof. induction l as [|x t IH]; intros [|i] v; cbn [lupd length]; try reflexivity. now rewrite IH. Qed.

Lemma nth_lupd_eq {A} (l : list A) : forall i v d, i < length l -> nth i (lupd l i v) d = v.
Proof.
  induction l as [|x t IH]; intros [|i] v d Hi; cbn [length] in Hi; cbn [lupd nth]; try lia; try reflexivity.
  apply IH. lia.
Qed.

Lemma nth_lupd_neq {A} (l : list A) : forall i j v d, i <> j -> nth i (lupd l j v) d = nth i l d.
Proof.
  induction l as [|x t IH]; intros [|i] [|j] v d Hne; cbn [lupd nth]; try reflexivity; try lia.
  apply IH. lia.
Qed.

Lemma Forall_lupd {A} (P : A -> Prop) (l : list A) : forall i v, Forall P l -> P v -> Forall P (lupd l i v).
Proof.
  induction l as [|x t IH]; intros [|i] v Hl Hv; cbn [lupd]; try constructor; inversion Hl; subst; auto.
Qed.

Lemma Forall_nth_lt {A} (P : A -> Prop) (l : list A) d : Forall P l -> forall i, i < length l -> P (nth i l d).
Proof.
  induction 1 as [|x t Hx _ IH]; intros [|i] Hi; cbn [length] in Hi; cbn [nth]; try lia; auto. apply IH. lia.
Qed.

Lemma lref_lt h m : owf h -> m < length (mobj h) -> lref h m < length (lsts h).
Proof. intros Hwf Hm. unfold lref. apply (Forall_nth_lt _ _ 0 Hwf m Hm). Qed.

Lemma cwf_preserved h o : owf h -> cop_ok h o -> owf (cexec h o).
Proof.
  intros Hwf Hok. destruct o as [m|m|m i t|m ts|m ts]; cbn [cop_ok] in Hok; unfold owf in *; cbn [cexec lsts mobj].
  - apply Forall_app. split; [exact Hwf|]. constructor; [|constructor]. apply lref_lt; assumption.
  - rewrite app_length. cbn [length]. apply Forall_lupd; [|lia].
    eapply Forall_impl; [|exact Hwf]. cbn beta. intros; lia.
  - rewrite lupd_length. exact Hwf.
  - rewrite lupd_length. exact Hwf.
  - rewrite app_length. cbn [length]. eapply Forall_impl; [|exact Hwf]. cbn beta. intros; lia.
Qed.

Lemma clen_mono h o : length (mobj h) <= length (mobj (cexec h o)).
Proof.
  destruct o; cbn [cexec mobj]; try lia.
  - rewrite app_length. lia.
  - rewrite lupd_length. lia.
Qed.

(* the frame of ONE container operation: an MPS object x reads the same list contents afterwards unless the operation writes a
   list through an object whose _B IS x._B *)
Lemma cframe h o x : owf h -> cop_ok h o -> x < length (mobj h) ->
  match cwriter o with Some m => shares_list h x m = false | None => True end ->
  B_of (cexec h o) x = B_of h x.
Proof.
  intros Hwf Hok Hx Hsh. pose proof (lref_lt h x Hwf Hx) as Hr.
  destruct o as [m|m|m i t|m ts|m ts]; cbn [cop_ok cwriter] in *; unfold B_of, lref in *; cbn [cexec lsts mobj].
  - rewrite app_nth1 by exact Hx. reflexivity.
  - destruct (Nat.eq_dec x m) as [->|Hne].
    + rewrite nth_lupd_eq by exact Hok. rewrite app_nth2 by lia. rewrite Nat.sub_diag. reflexivity.
    + rewrite nth_lupd_neq by exact Hne. rewrite app_nth1 by exact Hr. reflexivity.
  - unfold shares_list, lref in Hsh. apply Nat.eqb_neq in Hsh. rewrite nth_lupd_neq by exact Hsh. reflexivity.
  - unfold shares_list, lref in Hsh. apply Nat.eqb_neq in Hsh. rewrite nth_lupd_neq by exact Hsh. reflexivity.
  - rewrite app_nth1 by exact Hr. reflexivity.
Qed.

(* ... and along every admissible history *)
Lemma chistory_frame : forall os h x, owf h -> x < length (mobj h) -> cadm h x os -> B_of (crun h os) x = B_of h x.
Proof.
  induction os as [|o t IH]; intros h x Hwf Hx Hadm; cbn [crun]; [reflexivity|].
  cbn [cadm] in Hadm. destruct Hadm as (Hok & Hsh & Ht).
  rewrite IH; [apply cframe; assumption|apply cwf_preserved; assumption| |exact Ht].
  pose proof (clen_mono h o). lia.
Qed.

(* m._B = m._B[:] : afterwards no other MPS object shares its list with m, and m reads the same items *)
Lemma own_list_unshares h m x : owf h -> m < length (mobj h) -> x < length (mobj h) -> x <> m ->
  shares_list (cexec h (COwnList m)) x m = false.
Proof.
  intros Hwf Hm Hx Hne. unfold shares_list, lref. cbn [cexec mobj]. apply Nat.eqb_neq.
  rewrite nth_lupd_eq by exact Hm. rewrite nth_lupd_neq by exact Hne.
  pose proof (lref_lt h x Hwf Hx) as Hr. unfold lref in Hr. lia.
Qed.

Lemma set_items_adm : forall writes h c x, c < length (mobj h) -> shares_list h x c = false -> cadm h x (set_items c writes).
Proof.
  induction writes as [|w t IH]; intros h c x Hc Hsh; cbn [set_items map cadm]; [exact I|].
  split; [exact Hc|]. split; [exact Hsh|]. apply IH; cbn [cexec mobj]; [exact Hc|].
  unfold shares_list, lref in *. cbn [cexec mobj]. exact Hsh.
Qed.

Lemma gauge_prog_adm h other writes x : owf h -> other < length (mobj h) -> x < length (mobj h) ->
  cadm h x (gauge_prog other (length (mobj h)) writes).
Proof.
  intros Hwf Ho Hx. unfold gauge_prog. cbn [cadm cwriter cop_ok].
  assert (Hwf1 : owf (cexec h (CShallow other))) by (apply cwf_preserved; assumption).
  assert (Hlen1 : length (mobj (cexec h (CShallow other))) = S (length (mobj h))).
  { cbn [cexec mobj]. rewrite app_length. cbn [length]. lia. }
  split; [exact Ho|]. split; [exact I|]. split; [lia|]. split; [exact I|].
  apply set_items_adm.
  - cbn [cexec mobj]. rewrite lupd_length, app_length. cbn [length]. lia.
  - apply own_list_unshares; [exact Hwf1|lia|lia|lia].
Qed.

(* MPS._gauge_compatible_vL_vR: whatever items gauge_total_charge writes into the shallow copy, EVERY MPS object that existed
   before the call - in particular `other` itself - reads the same list contents afterwards *)
Lemma gauge_compatible_frame h other writes x : owf h -> other < length (mobj h) -> x < length (mobj h) ->
  B_of (crun h (gauge_prog other (length (mobj h)) writes)) x = B_of h x.
Proof. intros Hwf Ho Hx. apply chistory_frame; [exact Hwf|exact Hx|apply gauge_prog_adm; assumption]. Qed.

(* the list copy is NECESSARY: without it the item written into the shallow copy is read through `other` *)
Lemma gauge_without_own_list_leaks :
  let h := mkOH [[0; 1; 2]] [0] in
  B_of (crun h (gauge_prog_shared 0 1 [(2, 7)])) 0 = [0; 1; 7] /\ B_of (crun h (gauge_prog 0 1 [(2, 7)])) 0 = [0; 1; 2]
  /\ B_of (crun h (gauge_prog 0 1 [(2, 7)])) 1 = [0; 1; 7].
Proof. vm_compute. repeat split. Qed.

(* a pure query builds new lists only: t = m._B + ts changes what NO MPS object reads; `t = m._B; t += ts` does *)
Lemma query_concat_frame h m ts x : owf h -> m < length (mobj h) -> x < length (mobj h) ->
  B_of (cexec h (CConcat m ts)) x = B_of h x.
Proof. intros Hwf Hm Hx. apply cframe; [exact Hwf|exact Hm|exact Hx|exact I]. Qed.

Lemma query_extend_leaks :
  let h := mkOH [[0; 1; 2]] [0] in B_of (cexec h (CExtend 0 [8; 9])) 0 = [0; 1; 2; 8; 9] /\ B_of (cexec h (CConcat 0 [8; 9])) 0 = [0; 1; 2].
Proof. vm_compute. split; reflexivity. Qed.

(* the checkers accept what the faithful reading predicts (non-vacuity) and reject the leaking variants *)
Lemma checkers_examples :
  check_gauge_compatible (true, 4, [3], (false, false, true)) = true /\
  check_gauge_compatible (true, 4, [3], (false, true, false)) = false /\
  check_gauge_compatible (false, 4, [], (true, true, true)) = true /\
  check_query_list (4, true, 4) = true /\ check_query_list (4, true, 6) = false.
Proof. vm_compute. repeat split. Qed.
